/-
Lemmas/Compare.lean — helper lemmas for C13 (similarity of two discretizations, `md/comparison.py`).

The per-frame quantities `directedFrames`/`symmetricFrames` of Model/Compare.lean only depend on the list of frames
`z = l1.zip l2 : List (Int × Int)`; most lemmas are proved on the frame-list versions `dirZ`/`symZ` and transported.
-/
import MsmVerif.Model.Compare
import Mathlib.Tactic.Linarith
import Mathlib.Tactic.Ring
import Mathlib.Tactic.FieldSimp
import Mathlib.Algebra.Order.Field.Rat
import Mathlib.Algebra.BigOperators.Group.List.Basic

namespace MsmVerif.Compare
open MsmVerif

/-! ### `maxQ` -/

theorem maxQ_eq_max (a b : Rat) : maxQ a b = max a b := by
  unfold maxQ
  split
  · rename_i h; exact (max_eq_right (le_of_lt h)).symm
  · rename_i h; exact (max_eq_left (not_lt.mp h)).symm

theorem maxQ_comm (a b : Rat) : maxQ a b = maxQ b a := by
  rw [maxQ_eq_max, maxQ_eq_max, max_comm]

theorem le_maxQ_right (a b : Rat) : b ≤ maxQ a b := by
  rw [maxQ_eq_max]; exact le_max_right a b

theorem le_maxQ_left (a b : Rat) : a ≤ maxQ a b := by
  rw [maxQ_eq_max]; exact le_max_left a b

theorem maxQ_le {a b c : Rat} (ha : a ≤ c) (hb : b ≤ c) : maxQ a b ≤ c := by
  rw [maxQ_eq_max]; exact max_le ha hb

theorem maxQ_self (a : Rat) : maxQ a a = a := by
  rw [maxQ_eq_max, max_self]

/-! ### sums of rational lists -/

theorem sum_map_le_sum_map {α : Type} (l : List α) (f g : α → Rat) (h : ∀ x ∈ l, f x ≤ g x) :
    (l.map f).sum ≤ (l.map g).sum := by
  induction l with
  | nil => simp
  | cons x xs ih =>
    simp only [List.map_cons, List.sum_cons]
    have h1 := h x (by simp)
    have h2 := ih (fun y hy => h y (by simp [hy]))
    linarith

theorem sum_map_nonneg {α : Type} (l : List α) (f : α → Rat) (h : ∀ x ∈ l, 0 ≤ f x) :
    0 ≤ (l.map f).sum := by
  have := sum_map_le_sum_map l (fun _ => 0) f h
  simpa using this

theorem sum_map_const {α : Type} (l : List α) (c : Rat) :
    (l.map (fun _ => c)).sum = (l.length : Nat) * c := by
  induction l with
  | nil => simp
  | cons x xs ih =>
    simp only [List.map_cons, List.sum_cons, ih, List.length_cons]
    push_cast; ring

theorem sum_map_le_length {α : Type} (l : List α) (f : α → Rat) (h : ∀ x ∈ l, f x ≤ 1) :
    (l.map f).sum ≤ (l.length : Nat) := by
  have := sum_map_le_sum_map l f (fun _ => 1) h
  rw [sum_map_const] at this
  linarith

theorem sum_map_eq_length {α : Type} (l : List α) (f : α → Rat) (h : ∀ x ∈ l, f x = 1) :
    (l.map f).sum = (l.length : Nat) := by
  rw [List.map_congr_left h, sum_map_const]; ring

/-- a ratio of two naturals `a ≤ b` lies in `[0,1]` (also for `b = 0`, where it is `0`) -/
theorem natDiv_mem_unit {a b : Nat} (h : a ≤ b) :
    0 ≤ ((a : Nat) : Rat) / (b : Nat) ∧ ((a : Nat) : Rat) / (b : Nat) ≤ 1 := by
  have h1 : ((a : Nat) : Rat) ≤ (b : Nat) := by exact_mod_cast h
  exact ⟨div_nonneg (Nat.cast_nonneg a) (Nat.cast_nonneg b), div_le_one_of_le₀ h1 (Nat.cast_nonneg b)⟩

theorem natDiv_self {a : Nat} (h : 0 < a) : ((a : Nat) : Rat) / (a : Nat) = 1 := by
  have : ((a : Nat) : Rat) ≠ 0 := by exact_mod_cast (Nat.pos_iff_ne_zero.mp h)
  exact div_self this

/-- average of `n` numbers in `[0,1]` lies in `[0,1]` (for `n = 0` it is `0/0 = 0`) -/
theorem avg_mem_unit {s : Rat} {n m : Nat} (h0 : 0 ≤ s) (h1 : s ≤ (n : Nat)) (hnm : n ≤ m) :
    0 ≤ s / (m : Nat) ∧ s / (m : Nat) ≤ 1 := by
  have h2 : ((n : Nat) : Rat) ≤ (m : Nat) := by exact_mod_cast hnm
  exact ⟨div_nonneg h0 (Nat.cast_nonneg m), div_le_one_of_le₀ (le_trans h1 h2) (Nat.cast_nonneg m)⟩

/-! ### counting in `zip` -/

theorem count_map_of_injOn {α β : Type} [BEq α] [LawfulBEq α] [BEq β] [LawfulBEq β] (f : α → β) (l : List α) (x : α)
    (h : ∀ y ∈ l, f y = f x → y = x) : (l.map f).count (f x) = l.count x := by
  rw [List.count_eq_countP, List.count_eq_countP, List.countP_map]
  apply List.countP_congr
  intro y hy
  simp only [Function.comp_apply, beq_iff_eq]
  exact ⟨h y hy, fun e => by rw [e]⟩

theorem nij_le_colTot (l1 l2 : List Int) (a b : Int) : nij l1 l2 a b ≤ colTot l2 b := by
  unfold nij colTot
  induction l1 generalizing l2 with
  | nil => simp
  | cons x xs ih =>
    cases l2 with
    | nil => simp
    | cons y ys =>
      have := ih ys
      simp only [List.zip_cons_cons, List.count_cons, beq_iff_eq, Prod.mk.injEq]
      split <;> split <;> omega

theorem nij_le_rowTot (l1 l2 : List Int) (a b : Int) : nij l1 l2 a b ≤ rowTot l1 a := by
  unfold nij rowTot
  induction l1 generalizing l2 with
  | nil => simp
  | cons x xs ih =>
    cases l2 with
    | nil => simp
    | cons y ys =>
      have := ih ys
      simp only [List.zip_cons_cons, List.count_cons, beq_iff_eq, Prod.mk.injEq]
      split <;> split <;> omega

/-! ### frame-list versions -/

/-- directed similarity as a function of the list of frames `(label1, label2)` -/
def dirZ (z : List (Int × Int)) : Rat :=
  ((z.map (fun p => ((z.count p : Nat) : Rat) / ((z.map Prod.snd).count p.2 : Nat))).sum) / (z.length : Nat)

/-- symmetric similarity as a function of the list of frames -/
def symZ (z : List (Int × Int)) : Rat :=
  ((z.map (fun p => maxQ (((z.count p : Nat) : Rat) / ((z.map Prod.fst).count p.1 : Nat))
      (((z.count p : Nat) : Rat) / ((z.map Prod.snd).count p.2 : Nat)))).sum) / (z.length : Nat)

theorem directedFrames_eq_dirZ (l1 l2 : List Int) (h : l1.length = l2.length) :
    directedFrames l1 l2 = dirZ (l1.zip l2) := by
  unfold directedFrames dirZ nij colTot
  rw [List.map_snd_zip (by omega), List.length_zip, ← h, Nat.min_self]

theorem symmetricFrames_eq_symZ (l1 l2 : List Int) (h : l1.length = l2.length) :
    symmetricFrames l1 l2 = symZ (l1.zip l2) := by
  unfold symmetricFrames symZ nij colTot rowTot
  rw [List.map_snd_zip (by omega), List.map_fst_zip (by omega), List.length_zip, ← h, Nat.min_self]

/-! ### range -/

theorem dirZ_terms (l1 l2 : List Int) :
    ∀ p ∈ l1.zip l2, 0 ≤ (fun (p : Int × Int) => match p with
        | (a, b) => ((nij l1 l2 a b : Nat) : Rat) / (colTot l2 b : Nat)) p ∧
      (fun (p : Int × Int) => match p with
        | (a, b) => ((nij l1 l2 a b : Nat) : Rat) / (colTot l2 b : Nat)) p ≤ 1 := by
  rintro ⟨a, b⟩ _
  exact natDiv_mem_unit (nij_le_colTot l1 l2 a b)

theorem symZ_terms (l1 l2 : List Int) :
    ∀ p ∈ l1.zip l2, 0 ≤ (fun (p : Int × Int) => match p with
        | (a, b) => maxQ (((nij l1 l2 a b : Nat) : Rat) / (rowTot l1 a : Nat))
            (((nij l1 l2 a b : Nat) : Rat) / (colTot l2 b : Nat))) p ∧
      (fun (p : Int × Int) => match p with
        | (a, b) => maxQ (((nij l1 l2 a b : Nat) : Rat) / (rowTot l1 a : Nat))
            (((nij l1 l2 a b : Nat) : Rat) / (colTot l2 b : Nat))) p ≤ 1 := by
  rintro ⟨a, b⟩ _
  have h1 := natDiv_mem_unit (nij_le_colTot l1 l2 a b)
  have h2 := natDiv_mem_unit (nij_le_rowTot l1 l2 a b)
  exact ⟨le_trans h1.1 (le_maxQ_right _ _), maxQ_le h2.2 h1.2⟩

theorem directedFrames_mem_unit (l1 l2 : List Int) :
    0 ≤ directedFrames l1 l2 ∧ directedFrames l1 l2 ≤ 1 := by
  unfold directedFrames
  have ht := dirZ_terms l1 l2
  have h0 := sum_map_nonneg _ _ (fun p hp => (ht p hp).1)
  have h1 := sum_map_le_length _ _ (fun p hp => (ht p hp).2)
  exact avg_mem_unit h0 h1 (by rw [List.length_zip]; exact Nat.min_le_left _ _)

theorem symmetricFrames_mem_unit (l1 l2 : List Int) :
    0 ≤ symmetricFrames l1 l2 ∧ symmetricFrames l1 l2 ≤ 1 := by
  unfold symmetricFrames
  have ht := symZ_terms l1 l2
  have h0 := sum_map_nonneg _ _ (fun p hp => (ht p hp).1)
  have h1 := sum_map_le_length _ _ (fun p hp => (ht p hp).2)
  exact avg_mem_unit h0 h1 (by rw [List.length_zip]; exact Nat.min_le_left _ _)

/-! ### symmetric ≥ directed -/

theorem directed_le_symmetric (l1 l2 : List Int) : directedFrames l1 l2 ≤ symmetricFrames l1 l2 := by
  unfold directedFrames symmetricFrames
  apply div_le_div_of_nonneg_right _ (Nat.cast_nonneg _)
  apply sum_map_le_sum_map
  rintro ⟨a, b⟩ _
  exact le_maxQ_right _ _

/-! ### identical labelings -/

theorem zip_self (l : List Int) : l.zip l = l.map (fun x => (x, x)) := by
  induction l with
  | nil => rfl
  | cons x xs ih => simp [ih]

theorem nij_self (l : List Int) (a : Int) : nij l l a a = l.count a := by
  unfold nij
  rw [zip_self]
  exact count_map_of_injOn (fun x => (x, x)) l a (fun y _ h => (Prod.mk.inj h).1)

theorem avg_eq_one {s : Rat} {n : Nat} (hs : s = (n : Nat)) (hn : 0 < n) : s / (n : Nat) = 1 := by
  rw [hs]; exact natDiv_self hn

theorem directedFrames_self (l : List Int) (h : l ≠ []) : directedFrames l l = 1 := by
  unfold directedFrames
  have hlen : (l.zip l).length = l.length := by simp
  apply avg_eq_one _ (List.length_pos_iff.mpr h)
  rw [← hlen]
  apply sum_map_eq_length
  rintro ⟨a, b⟩ hp
  rw [zip_self] at hp
  obtain ⟨x, hx, hxp⟩ := List.mem_map.mp hp
  obtain ⟨rfl, rfl⟩ := Prod.mk.inj hxp
  show ((nij l l x x : Nat) : Rat) / (colTot l x : Nat) = 1
  rw [nij_self]
  exact natDiv_self (List.count_pos_iff.mpr hx)

theorem symmetricFrames_self (l : List Int) (h : l ≠ []) : symmetricFrames l l = 1 := by
  unfold symmetricFrames
  have hlen : (l.zip l).length = l.length := by simp
  apply avg_eq_one _ (List.length_pos_iff.mpr h)
  rw [← hlen]
  apply sum_map_eq_length
  rintro ⟨a, b⟩ hp
  rw [zip_self] at hp
  obtain ⟨x, hx, hxp⟩ := List.mem_map.mp hp
  obtain ⟨rfl, rfl⟩ := Prod.mk.inj hxp
  show maxQ (((nij l l x x : Nat) : Rat) / (rowTot l x : Nat)) (((nij l l x x : Nat) : Rat) / (colTot l x : Nat)) = 1
  rw [nij_self]
  have : ((l.count x : Nat) : Rat) / (l.count x : Nat) = 1 := natDiv_self (List.count_pos_iff.mpr hx)
  unfold rowTot colTot
  rw [this, maxQ_self]

/-! ### joint permutation of the frames -/

theorem dirZ_perm {z z' : List (Int × Int)} (h : z.Perm z') : dirZ z = dirZ z' := by
  unfold dirZ
  have hf : (fun (p : Int × Int) => ((z.count p : Nat) : Rat) / ((z.map Prod.snd).count p.2 : Nat)) =
      (fun (p : Int × Int) => ((z'.count p : Nat) : Rat) / ((z'.map Prod.snd).count p.2 : Nat)) := by
    funext p
    rw [h.count_eq p, (h.map Prod.snd).count_eq p.2]
  rw [hf, (h.map _).sum_eq, h.length_eq]

theorem symZ_perm {z z' : List (Int × Int)} (h : z.Perm z') : symZ z = symZ z' := by
  unfold symZ
  have hf : (fun (p : Int × Int) => maxQ (((z.count p : Nat) : Rat) / ((z.map Prod.fst).count p.1 : Nat))
        (((z.count p : Nat) : Rat) / ((z.map Prod.snd).count p.2 : Nat))) =
      (fun (p : Int × Int) => maxQ (((z'.count p : Nat) : Rat) / ((z'.map Prod.fst).count p.1 : Nat))
        (((z'.count p : Nat) : Rat) / ((z'.map Prod.snd).count p.2 : Nat))) := by
    funext p
    rw [h.count_eq p, (h.map Prod.snd).count_eq p.2, (h.map Prod.fst).count_eq p.1]
  rw [hf, (h.map _).sum_eq, h.length_eq]

/-! ### renaming the labels -/

theorem dirZ_map (z : List (Int × Int)) (f g : Int → Int)
    (hf : ∀ x ∈ z.map Prod.fst, ∀ y ∈ z.map Prod.fst, f x = f y → x = y)
    (hg : ∀ x ∈ z.map Prod.snd, ∀ y ∈ z.map Prod.snd, g x = g y → x = y) :
    dirZ (z.map (Prod.map f g)) = dirZ z := by
  unfold dirZ
  rw [List.map_map, List.length_map]
  congr 2
  apply List.map_congr_left
  intro p hp
  have hp1 : p.1 ∈ z.map Prod.fst := List.mem_map_of_mem hp
  have hp2 : p.2 ∈ z.map Prod.snd := List.mem_map_of_mem hp
  have h1 : (z.map (Prod.map f g)).count (Prod.map f g p) = z.count p := by
    apply count_map_of_injOn
    intro q hq he
    have e1 : f q.1 = f p.1 := congrArg Prod.fst he
    have e2 : g q.2 = g p.2 := congrArg Prod.snd he
    exact Prod.ext (hf _ (List.mem_map_of_mem hq) _ hp1 e1) (hg _ (List.mem_map_of_mem hq) _ hp2 e2)
  have h2 : ((z.map (Prod.map f g)).map Prod.snd).count (g p.2) = (z.map Prod.snd).count p.2 := by
    have : (z.map (Prod.map f g)).map Prod.snd = (z.map Prod.snd).map g := by
      rw [List.map_map, List.map_map]; rfl
    rw [this]
    exact count_map_of_injOn g _ p.2 (fun y hy he => hg y hy _ hp2 he)
  show (((z.map (Prod.map f g)).count (Prod.map f g p) : Nat) : Rat) /
    (((z.map (Prod.map f g)).map Prod.snd).count (g p.2) : Nat) = _
  rw [h1, h2]

theorem symZ_map (z : List (Int × Int)) (f g : Int → Int)
    (hf : ∀ x ∈ z.map Prod.fst, ∀ y ∈ z.map Prod.fst, f x = f y → x = y)
    (hg : ∀ x ∈ z.map Prod.snd, ∀ y ∈ z.map Prod.snd, g x = g y → x = y) :
    symZ (z.map (Prod.map f g)) = symZ z := by
  unfold symZ
  rw [List.map_map, List.length_map]
  congr 2
  apply List.map_congr_left
  intro p hp
  have hp1 : p.1 ∈ z.map Prod.fst := List.mem_map_of_mem hp
  have hp2 : p.2 ∈ z.map Prod.snd := List.mem_map_of_mem hp
  have h1 : (z.map (Prod.map f g)).count (Prod.map f g p) = z.count p := by
    apply count_map_of_injOn
    intro q hq he
    have e1 : f q.1 = f p.1 := congrArg Prod.fst he
    have e2 : g q.2 = g p.2 := congrArg Prod.snd he
    exact Prod.ext (hf _ (List.mem_map_of_mem hq) _ hp1 e1) (hg _ (List.mem_map_of_mem hq) _ hp2 e2)
  have h2 : ((z.map (Prod.map f g)).map Prod.snd).count (g p.2) = (z.map Prod.snd).count p.2 := by
    have : (z.map (Prod.map f g)).map Prod.snd = (z.map Prod.snd).map g := by
      rw [List.map_map, List.map_map]; rfl
    rw [this]
    exact count_map_of_injOn g _ p.2 (fun y hy he => hg y hy _ hp2 he)
  have h3 : ((z.map (Prod.map f g)).map Prod.fst).count (f p.1) = (z.map Prod.fst).count p.1 := by
    have : (z.map (Prod.map f g)).map Prod.fst = (z.map Prod.fst).map f := by
      rw [List.map_map, List.map_map]; rfl
    rw [this]
    exact count_map_of_injOn f _ p.1 (fun y hy he => hf y hy _ hp1 he)
  show maxQ ((((z.map (Prod.map f g)).count (Prod.map f g p) : Nat) : Rat) /
      (((z.map (Prod.map f g)).map Prod.fst).count (f p.1) : Nat))
    ((((z.map (Prod.map f g)).count (Prod.map f g p) : Nat) : Rat) /
      (((z.map (Prod.map f g)).map Prod.snd).count (g p.2) : Nat)) = _
  rw [h1, h2, h3]

/-! ### swapping the two labelings -/

theorem symZ_swap (z : List (Int × Int)) : symZ (z.map Prod.swap) = symZ z := by
  unfold symZ
  rw [List.map_map, List.length_map]
  congr 2
  apply List.map_congr_left
  intro p hp
  have h1 : (z.map Prod.swap).count (Prod.swap p) = z.count p :=
    count_map_of_injOn Prod.swap z p (fun y _ he => Prod.swap_injective he)
  have h2 : (z.map Prod.swap).map Prod.fst = z.map Prod.snd := by
    rw [List.map_map]; rfl
  have h3 : (z.map Prod.swap).map Prod.snd = z.map Prod.fst := by
    rw [List.map_map]; rfl
  show maxQ ((((z.map Prod.swap).count (Prod.swap p) : Nat) : Rat) /
      (((z.map Prod.swap).map Prod.fst).count p.2 : Nat))
    ((((z.map Prod.swap).count (Prod.swap p) : Nat) : Rat) /
      (((z.map Prod.swap).map Prod.snd).count p.1 : Nat)) = _
  rw [h1, h2, h3, maxQ_comm]

/-! ### refinement -/

theorem dirZ_refines (z : List (Int × Int)) (hz : z ≠ [])
    (h : ∀ p ∈ z, ∀ q ∈ z, p.2 = q.2 → p.1 = q.1) : dirZ z = 1 := by
  unfold dirZ
  apply avg_eq_one _ (List.length_pos_iff.mpr hz)
  apply sum_map_eq_length
  intro p hp
  have hc : (z.map Prod.snd).count p.2 = z.count p := by
    rw [List.count_eq_countP, List.count_eq_countP, List.countP_map]
    apply List.countP_congr
    intro q hq
    simp only [Function.comp_apply, beq_iff_eq]
    exact ⟨fun e => Prod.ext (h q hq p hp e) e, fun e => by rw [e]⟩
  show ((z.count p : Nat) : Rat) / ((z.map Prod.snd).count p.2 : Nat) = 1
  rw [hc]
  exact natDiv_self (List.count_pos_iff.mpr hp)

/-! ### the merge count `intersect` on strictly ascending lists (local copy; see also Lemmas/Events.lean) -/

theorem intersect_eq_filter' (A B : List Int) (hA : A.Pairwise (· < ·)) (hB : B.Pairwise (· < ·)) :
    Events.intersect A B = (A.filter (fun x => B.contains x)).length := by
  fun_induction Events.intersect A B with
  | case1 B => simp
  | case2 A hne =>
    rw [List.filter_eq_nil_iff.mpr (by simp)]; rfl
  | case3 as a bs ih =>
    have hA' := List.pairwise_cons.mp hA
    have hB' := List.pairwise_cons.mp hB
    rw [ih hA'.2 hB'.2]
    have h1 : as.filter (fun x => (a :: bs).contains x) = as.filter (fun x => bs.contains x) := by
      apply List.filter_congr
      intro x hx
      have := hA'.1 x hx
      have h2 : (x == a) = false := by simp; omega
      simp only [List.contains_cons, h2, Bool.false_or]
    rw [List.filter_cons_of_pos (by simp), h1, List.length_cons]
  | case4 a as b bs hab hgt ih =>
    have hB' := List.pairwise_cons.mp hB
    rw [ih hA hB'.2]
    congr 1
    apply List.filter_congr
    intro x hx
    have hax : a ≤ x := by
      rcases List.mem_cons.mp hx with h | h
      · omega
      · have := (List.pairwise_cons.mp hA).1 x h; omega
    have h2 : (x == b) = false := by simp; omega
    simp only [List.contains_cons, h2, Bool.false_or]
  | case5 a as b bs hab hgt ih =>
    have hA' := List.pairwise_cons.mp hA
    rw [ih hA'.2 hB]
    have h2 : ¬ ((b :: bs).contains a = true) := by
      simp only [List.contains_eq_mem, decide_eq_true_eq]
      intro h
      rcases List.mem_cons.mp h with h | h
      · exact hab h
      · have := (List.pairwise_cons.mp hB).1 a h
        omega
    rw [List.filter_cons_of_neg h2]

/-! ### `frameIdx` -/

theorem eq_map_range_getD {α : Type} (f : List α) (d : α) :
    f = (List.range f.length).map (fun i => f.getD i d) := by
  apply List.ext_getElem
  · simp
  · intro i h1 h2
    simp [List.getD_eq_getElem?_getD, h1]

theorem countP_range_getD {α : Type} (f : List α) (d : α) (p : α → Bool) :
    (List.range f.length).countP (fun i => p (f.getD i d)) = f.countP p := by
  conv => rhs; rw [eq_map_range_getD f d, List.countP_map]
  rfl

theorem zip_eq_map_range (f1 f2 : List Int) (h : f1.length = f2.length) :
    f1.zip f2 = (List.range f1.length).map (fun i => (f1.getD i 0, f2.getD i 0)) := by
  apply List.ext_getElem
  · simp [h]
  · intro i h1 h2
    have h3 : i < f1.length := by simp at h2; exact h2
    have h4 : i < f2.length := by omega
    simp [List.getD_eq_getElem?_getD, h3, h4]

theorem frameIdx_pairwise (f : List Int) (s : Int) : (frameIdx f s).Pairwise (· < ·) := by
  unfold frameIdx
  apply List.Pairwise.map (R := (· < ·))
  · intro a b hab; exact Int.ofNat_lt.mpr hab
  · exact List.Pairwise.filter _ List.pairwise_lt_range

theorem frameIdx_length (f : List Int) (s : Int) : (frameIdx f s).length = f.count s := by
  unfold frameIdx
  rw [List.length_map, ← List.countP_eq_length_filter, List.count_eq_countP]
  exact countP_range_getD f 0 (· == s)

theorem mem_frameIdx (f : List Int) (s : Int) (i : Nat) :
    (i : Int) ∈ frameIdx f s ↔ i < f.length ∧ f.getD i 0 = s := by
  unfold frameIdx
  rw [List.mem_map]
  constructor
  · rintro ⟨j, hj, hji⟩
    have : j = i := by exact_mod_cast hji
    subst this
    simpa using hj
  · intro h
    exact ⟨i, by simpa using h, rfl⟩

theorem intersect_frameIdx (f1 f2 : List Int) (h : f1.length = f2.length) (a b : Int) :
    Events.intersect (frameIdx f1 a) (frameIdx f2 b) = nij f1 f2 a b := by
  rw [intersect_eq_filter' _ _ (frameIdx_pairwise f1 a) (frameIdx_pairwise f2 b)]
  unfold nij
  rw [zip_eq_map_range f1 f2 h, List.count_eq_countP, List.countP_map]
  have hB := mem_frameIdx f2 b
  generalize frameIdx f2 b = B at hB ⊢
  unfold frameIdx
  rw [List.filter_map, List.length_map, List.filter_filter, ← List.countP_eq_length_filter]
  apply List.countP_congr
  intro i hi
  have hi' : i < f1.length := List.mem_range.mp hi
  simp only [Function.comp_apply, List.contains_eq_mem, Bool.and_eq_true, decide_eq_true_eq, beq_iff_eq,
    Prod.mk.injEq, hB]
  constructor
  · rintro ⟨⟨_, h2⟩, h1⟩; exact ⟨h1, h2⟩
  · rintro ⟨h1, h2⟩; exact ⟨⟨by omega, h2⟩, h1⟩

/-! ### `sortDedup` (local copies of the facts of Lemmas/StateTraj.lean, to keep this file self-contained) -/

theorem is_mem {x y : Int} {l : List Int} : y ∈ insertSorted x l ↔ y = x ∨ y ∈ l := by
  induction l with
  | nil => simp [insertSorted]
  | cons z zs ih =>
    simp only [insertSorted]
    split
    · simp
    · split
      · subst_vars; simp
      · simp only [List.mem_cons, ih]
        grind

theorem is_pairwise {x : Int} {l : List Int} (h : l.Pairwise (· < ·)) :
    (insertSorted x l).Pairwise (· < ·) := by
  induction l with
  | nil => simp [insertSorted]
  | cons z zs ih =>
    simp only [insertSorted]
    split
    · rw [List.pairwise_cons] at h ⊢
      refine ⟨?_, List.pairwise_cons.mpr h⟩
      intro a ha
      rcases List.mem_cons.mp ha with rfl | ha
      · assumption
      · have := h.1 a ha; omega
    · split
      · exact h
      · rw [List.pairwise_cons] at h ⊢
        refine ⟨?_, ih h.2⟩
        intro a ha
        rcases is_mem.mp ha with rfl | ha
        · omega
        · exact h.1 a ha

theorem sd_pairwise (l : List Int) : (sortDedup l).Pairwise (· < ·) := by
  induction l with
  | nil => simp [sortDedup]
  | cons x xs ih => exact is_pairwise ih

theorem sd_nodup (l : List Int) : (sortDedup l).Nodup :=
  (sd_pairwise l).imp (fun h => Int.ne_of_lt h)

theorem sd_mem {x : Int} {l : List Int} : x ∈ sortDedup l ↔ x ∈ l := by
  induction l with
  | nil => simp [sortDedup]
  | cons y ys ih =>
    show x ∈ insertSorted y (sortDedup ys) ↔ _
    rw [is_mem, ih, List.mem_cons]

/-! ### regrouping a sum over frames into a sum over distinct label pairs -/

theorem sum_map_zero {α : Type} (l : List α) (f : α → Rat) (h : ∀ x ∈ l, f x = 0) : (l.map f).sum = 0 := by
  rw [List.map_congr_left h]
  simp

theorem sum_map_ite_eq (A : List Int) (hA : A.Nodup) (a0 : Int) (h : a0 ∈ A) (c : Int → Rat) :
    (A.map (fun a => if a0 = a then c a else 0)).sum = c a0 := by
  induction A with
  | nil => simp at h
  | cons x xs ih =>
    have hA' := List.nodup_cons.mp hA
    simp only [List.map_cons, List.sum_cons]
    by_cases hx : a0 = x
    · subst hx
      rw [if_pos rfl, sum_map_zero, add_zero]
      intro y hy
      have : a0 ≠ y := fun e => hA'.1 (e ▸ hy)
      rw [if_neg this]
    · rw [if_neg hx, zero_add]
      exact ih hA'.2 (by simpa [hx] using h)

theorem sum_map_add' {α : Type} (l : List α) (f g : α → Rat) :
    (l.map (fun x => f x + g x)).sum = (l.map f).sum + (l.map g).sum := by
  induction l with
  | nil => simp
  | cons x xs ih => simp only [List.map_cons, List.sum_cons, ih]; ring

theorem regroup (A B : List Int) (hA : A.Nodup) (hB : B.Nodup) (g : Int × Int → Rat) (z : List (Int × Int))
    (hz : ∀ p ∈ z, p.1 ∈ A ∧ p.2 ∈ B) :
    (z.map g).sum = (A.map (fun a => (B.map (fun b => ((z.count (a, b) : Nat) : Rat) * g (a, b))).sum)).sum := by
  induction z with
  | nil => simp
  | cons p z ih =>
    have hp := hz p (by simp)
    have ih' := ih (fun q hq => hz q (by simp [hq]))
    have hsplit : ∀ a b, (((p :: z).count (a, b) : Nat) : Rat) * g (a, b) =
        ((z.count (a, b) : Nat) : Rat) * g (a, b) + (if p.1 = a then (if p.2 = b then g (a, b) else 0) else 0) := by
      intro a b
      rw [List.count_cons]
      by_cases h1 : p.1 = a
      · by_cases h2 : p.2 = b
        · have : (p == (a, b)) = true := by rw [beq_iff_eq]; exact Prod.ext h1 h2
          rw [this, if_pos rfl, if_pos h1, if_pos h2]; push_cast; ring
        · have : (p == (a, b)) = false := by
            rw [beq_eq_false_iff_ne]; intro e; exact h2 (by rw [e])
          rw [this, if_pos h1, if_neg h2]; simp
      · have : (p == (a, b)) = false := by
          rw [beq_eq_false_iff_ne]; intro e; exact h1 (by rw [e])
        rw [this, if_neg h1]; simp
    simp only [hsplit, sum_map_add']
    rw [List.map_cons, List.sum_cons, ih', add_comm]
    congr 1
    have hinner : ∀ a, (B.map (fun b => if p.1 = a then (if p.2 = b then g (a, b) else 0) else 0)).sum =
        if p.1 = a then g (a, p.2) else 0 := by
      intro a
      by_cases h1 : p.1 = a
      · simp only [if_pos h1]
        exact sum_map_ite_eq B hB p.2 hp.2 (fun b => g (a, b))
      · simp only [if_neg h1]
        simp
    simp only [hinner]
    exact (sum_map_ite_eq A hA p.1 hp.1 (fun a => g (a, p.2))).symm

theorem mem_zip_labels {l1 l2 : List Int} {p : Int × Int} (hp : p ∈ l1.zip l2) :
    p.1 ∈ sortDedup l1 ∧ p.2 ∈ sortDedup l2 := by
  obtain ⟨a, b⟩ := p
  have := List.of_mem_zip hp
  exact ⟨sd_mem.mpr this.1, sd_mem.mpr this.2⟩

theorem directedFrames_eq_spec (l1 l2 : List Int) : directedFrames l1 l2 = directedSpec l1 l2 := by
  unfold directedFrames directedSpec
  congr 1
  rw [regroup (sortDedup l1) (sortDedup l2) (sd_nodup l1) (sd_nodup l2) _ (l1.zip l2) (fun p hp => mem_zip_labels hp)]
  apply congrArg
  apply List.map_congr_left
  intro a _
  apply congrArg
  apply List.map_congr_left
  intro b _
  show ((nij l1 l2 a b : Nat) : Rat) * (((nij l1 l2 a b : Nat) : Rat) / (colTot l2 b : Nat)) = _
  rw [mul_div_assoc]

theorem symmetricFrames_eq_spec (l1 l2 : List Int) : symmetricFrames l1 l2 = symmetricSpec l1 l2 := by
  unfold symmetricFrames symmetricSpec
  congr 1
  rw [regroup (sortDedup l1) (sortDedup l2) (sd_nodup l1) (sd_nodup l2) _ (l1.zip l2) (fun p hp => mem_zip_labels hp)]
  rfl

/-! ### the code path `similarityIdx` equals the per-frame formulas -/

theorem getD_map_range {α : Type} (n : Nat) (F : Nat → α) (d : α) (i : Nat) (h : i < n) :
    ((List.range n).map F).getD i d = F i := by
  simp [List.getD_eq_getElem?_getD, h]

theorem table_entry (f1 f2 : List Int) (hlen : f1.length = f2.length) (n1 n2 i j : Nat) (hi : i < n1) (hj : j < n2) :
    ((((List.range n1).map (fun (s : Nat) => frameIdx f1 s)).map (fun a =>
        ((List.range n2).map (fun (s : Nat) => frameIdx f2 s)).map (fun b => Events.intersect a b))).getD i []).getD j 0
      = nij f1 f2 i j := by
  rw [List.map_map, getD_map_range _ _ _ _ hi]
  dsimp only [Function.comp_apply]
  rw [List.map_map, getD_map_range _ _ _ _ hj]
  exact intersect_frameIdx f1 f2 hlen i j

theorem row_len (f : List Int) (n i : Nat) (hi : i < n) :
    (((List.range n).map (fun (s : Nat) => frameIdx f s)).getD i []).length = f.count (i : Int) := by
  rw [getD_map_range _ _ _ _ hi, frameIdx_length]

theorem similarityIdx_directed (f1 f2 : List Int) (n1 n2 : Nat) (hlen : f1.length = f2.length)
    (h1 : ∀ x ∈ f1, 0 ≤ x ∧ x < n1) (h2 : ∀ y ∈ f2, 0 ≤ y ∧ y < n2) :
    similarityIdx f1 f2 n1 n2 false = directedFrames f1 f2 := by
  unfold similarityIdx directedFrames
  simp only [Bool.false_eq_true, if_false]
  congr 2
  apply List.map_congr_left
  rintro ⟨s1, s2⟩ hp
  have hm := List.of_mem_zip hp
  have hs1 := h1 s1 hm.1
  have hs2 := h2 s2 hm.2
  have e1 : ((s1.toNat : Nat) : Int) = s1 := Int.toNat_of_nonneg hs1.1
  have e2 : ((s2.toNat : Nat) : Int) = s2 := Int.toNat_of_nonneg hs2.1
  have l1 : s1.toNat < n1 := by omega
  have l2 : s2.toNat < n2 := by omega
  show ((_ : Nat) : Rat) / ((_ : Nat) : Rat) = ((nij f1 f2 s1 s2 : Nat) : Rat) / (colTot f2 s2 : Nat)
  rw [table_entry f1 f2 hlen n1 n2 _ _ l1 l2, row_len f2 n2 _ l2, e1, e2]
  rfl

theorem similarityIdx_symmetric (f1 f2 : List Int) (n1 n2 : Nat) (hlen : f1.length = f2.length)
    (h1 : ∀ x ∈ f1, 0 ≤ x ∧ x < n1) (h2 : ∀ y ∈ f2, 0 ≤ y ∧ y < n2) :
    similarityIdx f1 f2 n1 n2 true = symmetricFrames f1 f2 := by
  unfold similarityIdx symmetricFrames
  simp only [if_true]
  congr 2
  apply List.map_congr_left
  rintro ⟨s1, s2⟩ hp
  have hm := List.of_mem_zip hp
  have hs1 := h1 s1 hm.1
  have hs2 := h2 s2 hm.2
  have e1 : ((s1.toNat : Nat) : Int) = s1 := Int.toNat_of_nonneg hs1.1
  have e2 : ((s2.toNat : Nat) : Int) = s2 := Int.toNat_of_nonneg hs2.1
  have l1 : s1.toNat < n1 := by omega
  have l2 : s2.toNat < n2 := by omega
  show maxQ (((_ : Nat) : Rat) / ((_ : Nat) : Rat)) (((_ : Nat) : Rat) / ((_ : Nat) : Rat)) =
    maxQ (((nij f1 f2 s1 s2 : Nat) : Rat) / (rowTot f1 s1 : Nat)) (((nij f1 f2 s1 s2 : Nat) : Rat) / (colTot f2 s2 : Nat))
  rw [table_entry f1 f2 hlen n1 n2 _ _ l1 l2, row_len f2 n2 _ l2, row_len f1 n1 _ l1, e1, e2]
  rfl

/-! ### `StateTraj.mk'` and `compare` only look at the concatenated frames -/

theorem flatten_unflatten (lens : List Nat) (l : List Int) :
    (unflatten lens l).flatten = l.take lens.sum := by
  induction lens generalizing l with
  | nil => simp [unflatten]
  | cons n ns ih =>
    simp only [unflatten, List.flatten_cons, List.sum_cons, ih, List.take_add]

theorem shiftFlat_length {data old new r : List Int} (h : shiftFlat data old new = .ok r) :
    r.length = data.length := by
  unfold shiftFlat at h
  split at h
  · split at h
    · cases h
    · simp only at h
      split at h
      · cases h
      · cases h; simp
  · cases h

/-- the constructor on the concatenated frames: (flattened index trajectory, states) -/
def mkFlat (d : List Int) : Except Err (List Int × List Int) :=
  let ss := sortDedup d
  if isArange 0 ss then .ok (d, ss)
  else if isArange 1 ss then .ok (d.map (· - 1), ss)
  else (shiftFlat d ss ((List.range ss.length).map (fun (i : Nat) => (i : Int)))).map (fun r => (r, ss))

theorem mk'_flat (ts : Trajs) :
    (StateTraj.mk' ts).map (fun s => (s.idx.flatten, s.sts)) = mkFlat ts.flatten := by
  unfold StateTraj.mk' mkFlat states
  simp only []
  split
  · rfl
  · split
    · simp only [Except.map]
      congr 2
      induction ts with
      | nil => rfl
      | cons t ts ih => simp
    · unfold shiftTrajs
      cases h : shiftFlat ts.flatten (sortDedup ts.flatten)
          ((List.range (sortDedup ts.flatten).length).map (fun (i : Nat) => (i : Int))) with
      | error e => rfl
      | ok r =>
        simp only [Except.map]
        congr 2
        rw [flatten_unflatten, ← List.length_flatten, ← shiftFlat_length h, List.take_length]

theorem mkFlat_ok {d i ss : List Int} (h : mkFlat d = .ok (i, ss)) : ss = sortDedup d ∧ i.length = d.length := by
  unfold mkFlat at h
  simp only [] at h
  split at h
  · cases h; exact ⟨rfl, rfl⟩
  · split at h
    · cases h; exact ⟨rfl, by simp⟩
    · cases h' : shiftFlat d (sortDedup d) ((List.range (sortDedup d).length).map (fun (i : Nat) => (i : Int))) with
      | error e => rw [h'] at h; cases h
      | ok r =>
        rw [h'] at h
        cases h
        exact ⟨rfl, shiftFlat_length h'⟩

theorem mk'_ok_facts {ts : Trajs} {s : StateTraj} (h : StateTraj.mk' ts = .ok s) :
    mkFlat ts.flatten = .ok (s.idx.flatten, s.sts) ∧ s.sts = states ts ∧ s.nframes = ts.flatten.length ∧
      s.nstates = (states ts).length := by
  have h1 := mk'_flat ts
  rw [h] at h1
  have h2 : mkFlat ts.flatten = .ok (s.idx.flatten, s.sts) := h1.symm
  have h3 := mkFlat_ok h2
  refine ⟨h2, h3.1, ?_, ?_⟩
  · unfold StateTraj.nframes; rw [← List.length_flatten]; exact h3.2
  · unfold StateTraj.nstates; rw [h3.1]; rfl

theorem mk'_error_facts {ts : Trajs} {e : Err} (h : StateTraj.mk' ts = .error e) :
    mkFlat ts.flatten = .error e := by
  have h1 := mk'_flat ts
  rw [h] at h1
  exact h1.symm

/-- `compare` expressed on the concatenated frames only -/
def compareFlat (d1 d2 : List Int) (method : Nat) : Except Err Rat :=
  match mkFlat d1, mkFlat d2 with
  | .ok (i1, s1), .ok (i2, s2) =>
    if method > 1 then .error .value
    else if i1.length ≠ i2.length then .error .value
    else if s1.length = 1 ∨ s2.length = 1 then .error .value
    else .ok (similarityIdx i1 i2 s1.length s2.length (method == 0))
  | .error e, _ => .error e
  | _, .error e => .error e

theorem compare_eq_compareFlat (t1 t2 : Trajs) (m : Nat) :
    compare t1 t2 m = compareFlat t1.flatten t2.flatten m := by
  unfold compare compareFlat
  cases h1 : StateTraj.mk' t1 with
  | error e1 =>
    rw [mk'_error_facts h1]
  | ok s1 =>
    cases h2 : StateTraj.mk' t2 with
    | error e2 =>
      rw [mk'_error_facts h2, (mk'_ok_facts h1).1]
    | ok s2 =>
      rw [(mk'_ok_facts h1).1, (mk'_ok_facts h2).1]
      have e1 : s1.nframes = s1.idx.flatten.length := by unfold StateTraj.nframes; rw [List.length_flatten]
      have e2 : s2.nframes = s2.idx.flatten.length := by unfold StateTraj.nframes; rw [List.length_flatten]
      dsimp only
      rw [e1, e2]
      by_cases hm : m > 1
      · rw [if_pos hm, if_pos hm]
      · rw [if_neg hm, if_neg hm]
        by_cases hl : s1.idx.flatten.length ≠ s2.idx.flatten.length
        · rw [if_pos hl, if_pos hl]
        · rw [if_neg hl, if_neg hl]
          by_cases hs : s1.nstates = 1 ∨ s2.nstates = 1
          · have hs' : s1.sts.length = 1 ∨ s2.sts.length = 1 := hs
            rw [if_pos hs, if_pos hs']
          · have hs' : ¬ (s1.sts.length = 1 ∨ s2.sts.length = 1) := hs
            rw [if_neg hs, if_neg hs']
            rfl

theorem compare_reject_iff (t1 t2 : Trajs) (m : Nat) (s1 s2 : StateTraj)
    (h1 : StateTraj.mk' t1 = .ok s1) (h2 : StateTraj.mk' t2 = .ok s2) :
    compare t1 t2 m = .error .value ↔
      m > 1 ∨ t1.flatten.length ≠ t2.flatten.length ∨ (states t1).length = 1 ∨ (states t2).length = 1 := by
  have f1 := mk'_ok_facts h1
  have f2 := mk'_ok_facts h2
  unfold compare
  rw [h1, h2]
  simp only [f1.2.2.1, f2.2.2.1, f1.2.2.2, f2.2.2.2]
  by_cases hm : m > 1
  · simp only [if_pos hm, true_iff]
    exact Or.inl hm
  · by_cases hl : t1.flatten.length ≠ t2.flatten.length
    · simp only [if_neg hm, if_pos hl, true_iff]
      exact Or.inr (Or.inl hl)
    · by_cases hs : (states t1).length = 1 ∨ (states t2).length = 1
      · simp only [if_neg hm, if_neg hl, if_pos hs, true_iff]
        exact Or.inr (Or.inr hs)
      · simp only [if_neg hm, if_neg hl, if_neg hs]
        constructor
        · intro h; cases h
        · rintro (h | h | h)
          · exact absurd h hm
          · exact absurd h hl
          · exact absurd h hs

/-! ### transport of the frame-list facts to `directedFrames` / `symmetricFrames` -/

theorem zip_map_map (l1 l2 : List Int) (f g : Int → Int) :
    (l1.map f).zip (l2.map g) = (l1.zip l2).map (Prod.map f g) := by
  rw [List.zip_map]

theorem directedFrames_map (l1 l2 : List Int) (hlen : l1.length = l2.length) (f g : Int → Int)
    (hf : ∀ x ∈ l1, ∀ y ∈ l1, f x = f y → x = y) (hg : ∀ x ∈ l2, ∀ y ∈ l2, g x = g y → x = y) :
    directedFrames (l1.map f) (l2.map g) = directedFrames l1 l2 := by
  rw [directedFrames_eq_dirZ _ _ (by simpa using hlen), directedFrames_eq_dirZ _ _ hlen, zip_map_map]
  apply dirZ_map
  · rw [List.map_fst_zip (by omega)]; exact hf
  · rw [List.map_snd_zip (by omega)]; exact hg

theorem symmetricFrames_map (l1 l2 : List Int) (hlen : l1.length = l2.length) (f g : Int → Int)
    (hf : ∀ x ∈ l1, ∀ y ∈ l1, f x = f y → x = y) (hg : ∀ x ∈ l2, ∀ y ∈ l2, g x = g y → x = y) :
    symmetricFrames (l1.map f) (l2.map g) = symmetricFrames l1 l2 := by
  rw [symmetricFrames_eq_symZ _ _ (by simpa using hlen), symmetricFrames_eq_symZ _ _ hlen, zip_map_map]
  apply symZ_map
  · rw [List.map_fst_zip (by omega)]; exact hf
  · rw [List.map_snd_zip (by omega)]; exact hg

theorem zip_swap' (l1 l2 : List Int) : (l1.zip l2).map Prod.swap = l2.zip l1 := by
  induction l1 generalizing l2 with
  | nil => cases l2 <;> rfl
  | cons x xs ih =>
    cases l2 with
    | nil => rfl
    | cons y ys => simp only [List.zip_cons_cons, List.map_cons, ih ys, Prod.swap_prod_mk]

theorem symmetricFrames_swap (l1 l2 : List Int) (hlen : l1.length = l2.length) :
    symmetricFrames l1 l2 = symmetricFrames l2 l1 := by
  rw [symmetricFrames_eq_symZ _ _ hlen, symmetricFrames_eq_symZ _ _ hlen.symm, ← zip_swap', symZ_swap]

theorem directedFrames_perm (l1 l2 l1' l2' : List Int) (hlen : l1.length = l2.length) (hlen' : l1'.length = l2'.length)
    (h : (l1.zip l2).Perm (l1'.zip l2')) : directedFrames l1 l2 = directedFrames l1' l2' := by
  rw [directedFrames_eq_dirZ _ _ hlen, directedFrames_eq_dirZ _ _ hlen', dirZ_perm h]

theorem symmetricFrames_perm (l1 l2 l1' l2' : List Int) (hlen : l1.length = l2.length) (hlen' : l1'.length = l2'.length)
    (h : (l1.zip l2).Perm (l1'.zip l2')) : symmetricFrames l1 l2 = symmetricFrames l1' l2' := by
  rw [symmetricFrames_eq_symZ _ _ hlen, symmetricFrames_eq_symZ _ _ hlen', symZ_perm h]

theorem directedFrames_refines (l1 l2 : List Int) (hlen : l1.length = l2.length) (hne : l1 ≠ [])
    (href : ∀ (i j : Nat) (hi : i < l2.length) (hj : j < l2.length),
      l2[i] = l2[j] → l1[i]'(by omega) = l1[j]'(by omega)) :
    directedFrames l1 l2 = 1 := by
  rw [directedFrames_eq_dirZ _ _ hlen]
  apply dirZ_refines
  · intro hz
    have : (l1.zip l2).length = 0 := by rw [hz]; rfl
    rw [List.length_zip, ← hlen, Nat.min_self] at this
    exact hne (List.length_eq_zero_iff.mp this)
  · intro p hp q hq hpq
    obtain ⟨i, hi, rfl⟩ := List.getElem_of_mem hp
    obtain ⟨j, hj, rfl⟩ := List.getElem_of_mem hq
    rw [List.length_zip, ← hlen, Nat.min_self] at hi hj
    simp only [List.getElem_zip] at hpq ⊢
    exact href i j (by omega) (by omega) hpq

/-! ### the public entry point equals the contingency-table formula -/

theorem rank_lt' {ss : List Int} {x : Int} (h : x ∈ ss) : rank ss x < ss.length :=
  List.idxOf_lt_length_of_mem h

theorem rank_inj' {ss : List Int} {x y : Int} (hx : x ∈ ss) (hy : y ∈ ss) (h : rank ss x = rank ss y) : x = y := by
  unfold rank at h
  have h1 : ss[ss.idxOf x]'(List.idxOf_lt_length_of_mem hx) = x := List.getElem_idxOf _
  have h2 : ss[ss.idxOf y]'(List.idxOf_lt_length_of_mem hy) = y := List.getElem_idxOf _
  rw [← h1, ← h2]
  simp only [h]

/-- the index trajectories produced by the constructor when it ranks the labels -/
def rankIdx (t : Trajs) : Trajs := t.map (·.map (fun x => (rank (states t) x : Int)))

theorem rankIdx_flatten (t : Trajs) :
    (rankIdx t).flatten = t.flatten.map (fun x => (rank (states t) x : Int)) := by
  unfold rankIdx
  rw [List.map_flatten]

theorem rankIdx_range (t : Trajs) :
    ∀ x ∈ t.flatten.map (fun x => (rank (states t) x : Int)), 0 ≤ x ∧ x < ((states t).length : Nat) := by
  intro y hy
  obtain ⟨x, hx, rfl⟩ := List.mem_map.mp hy
  have := rank_lt' (sd_mem.mpr hx : x ∈ states t)
  constructor
  · exact Int.natCast_nonneg _
  · exact_mod_cast this

theorem rankIdx_inj (t : Trajs) :
    ∀ x ∈ t.flatten, ∀ y ∈ t.flatten, (rank (states t) x : Int) = (rank (states t) y : Int) → x = y := by
  intro x hx y hy h
  exact rank_inj' (sd_mem.mpr hx : x ∈ states t) (sd_mem.mpr hy : y ∈ states t) (by exact_mod_cast h)

theorem similarity_rankIdx_symmetric (t1 t2 : Trajs) (hlen : t1.flatten.length = t2.flatten.length) :
    similarityIdx (rankIdx t1).flatten (rankIdx t2).flatten (states t1).length (states t2).length true =
      symmetricSpec t1.flatten t2.flatten := by
  rw [rankIdx_flatten, rankIdx_flatten,
    similarityIdx_symmetric _ _ _ _ (by rw [List.length_map, List.length_map]; exact hlen) (rankIdx_range t1) (rankIdx_range t2),
    symmetricFrames_map _ _ hlen _ _ (rankIdx_inj t1) (rankIdx_inj t2), symmetricFrames_eq_spec]

theorem similarity_rankIdx_directed (t1 t2 : Trajs) (hlen : t1.flatten.length = t2.flatten.length) :
    similarityIdx (rankIdx t1).flatten (rankIdx t2).flatten (states t1).length (states t2).length false =
      directedSpec t1.flatten t2.flatten := by
  rw [rankIdx_flatten, rankIdx_flatten,
    similarityIdx_directed _ _ _ _ (by rw [List.length_map, List.length_map]; exact hlen) (rankIdx_range t1) (rankIdx_range t2),
    directedFrames_map _ _ hlen _ _ (rankIdx_inj t1) (rankIdx_inj t2), directedFrames_eq_spec]

theorem compare_eq_spec_of_rank (t1 t2 : Trajs) (m : Nat)
    (h1 : StateTraj.mk' t1 = .ok ⟨rankIdx t1, states t1⟩) (h2 : StateTraj.mk' t2 = .ok ⟨rankIdx t2, states t2⟩)
    (hm : m ≤ 1) (hlen : t1.flatten.length = t2.flatten.length)
    (hs1 : (states t1).length ≠ 1) (hs2 : (states t2).length ≠ 1) :
    compare t1 t2 m =
      .ok (if m = 0 then symmetricSpec t1.flatten t2.flatten else directedSpec t1.flatten t2.flatten) := by
  have f1 := mk'_ok_facts h1
  have f2 := mk'_ok_facts h2
  unfold compare
  rw [h1, h2]
  simp only [f1.2.2.1, f2.2.2.1, f1.2.2.2, f2.2.2.2]
  rw [if_neg (by omega), if_neg (by simpa using hlen), if_neg (by simp [hs1, hs2])]
  congr 1
  by_cases h0 : m = 0
  · subst h0
    simp only [if_true]
    exact similarity_rankIdx_symmetric t1 t2 hlen
  · have hb : (m == 0) = false := by simpa using h0
    rw [if_neg h0, hb]
    exact similarity_rankIdx_directed t1 t2 hlen

theorem absQ_zero_le : absQ (0 : Rat) ≤ (1 : Rat) / 1000000000 := by
  unfold absQ
  rw [if_neg (lt_irrefl 0)]
  norm_num

theorem holds_compare_of_rank (t1 t2 : Trajs) (m : Nat)
    (h1 : StateTraj.mk' t1 = .ok ⟨rankIdx t1, states t1⟩) (h2 : StateTraj.mk' t2 = .ok ⟨rankIdx t2, states t2⟩) :
    holds t1 t2 m (compare t1 t2 m) = true := by
  by_cases hbad : m > 1 ∨ t1.flatten.length ≠ t2.flatten.length ∨ (states t1).length = 1 ∨ (states t2).length = 1
  · have hb : (decide (m > 1) || t1.flatten.length != t2.flatten.length ||
        (sortDedup t1.flatten).length == 1 || (sortDedup t2.flatten).length == 1) = true := by
      simp only [states] at hbad
      simp only [Bool.or_eq_true, decide_eq_true_eq, bne_iff_ne, beq_iff_eq]
      tauto
    rw [(compare_reject_iff t1 t2 m _ _ h1 h2).mpr hbad]
    unfold holds
    simp only [hb]
    rfl
  · have hb : (decide (m > 1) || t1.flatten.length != t2.flatten.length ||
        (sortDedup t1.flatten).length == 1 || (sortDedup t2.flatten).length == 1) = false := by
      simp only [states] at hbad
      rw [Bool.eq_false_iff]
      simp only [ne_eq, Bool.or_eq_true, decide_eq_true_eq, bne_iff_ne, beq_iff_eq]
      tauto
    have hm : m ≤ 1 := by omega
    have hlen : t1.flatten.length = t2.flatten.length := by
      by_contra h; exact hbad (Or.inr (Or.inl h))
    have hs1 : (states t1).length ≠ 1 := fun h => hbad (Or.inr (Or.inr (Or.inl h)))
    have hs2 : (states t2).length ≠ 1 := fun h => hbad (Or.inr (Or.inr (Or.inr h)))
    rw [compare_eq_spec_of_rank t1 t2 m h1 h2 hm hlen hs1 hs2]
    unfold holds
    simp only [hb]
    have hz : ∀ v : Rat, decide (absQ (v - v) ≤ (1 : Rat) / 1000000000) = true := by
      intro v; rw [sub_self]; exact decide_eq_true absQ_zero_le
    by_cases h0 : m = 0
    · subst h0; simp only [if_true, beq_self_eq_true]; exact hz _
    · have hb0 : (m == 0) = false := by simpa using h0
      simp only [if_neg h0, hb0]; exact hz _

/-! ### converse of the refinement statement, strict positivity -/

theorem sum_map_eq_length_imp {α : Type} (l : List α) (f : α → Rat) (h : ∀ x ∈ l, f x ≤ 1)
    (hs : (l.map f).sum = (l.length : Nat)) : ∀ x ∈ l, f x = 1 := by
  induction l with
  | nil => intro x hx; simp at hx
  | cons y ys ih =>
    have h1 := h y (by simp)
    have h2 := sum_map_le_length ys f (fun x hx => h x (by simp [hx]))
    simp only [List.map_cons, List.sum_cons, List.length_cons] at hs
    push_cast at hs
    have hy : f y = 1 := by linarith
    have hys : (ys.map f).sum = (ys.length : Nat) := by linarith
    intro x hx
    rcases List.mem_cons.mp hx with rfl | hx
    · exact hy
    · exact ih (fun x hx => h x (by simp [hx])) hys x hx

theorem countP_eq_imp {α : Type} (l : List α) (p q : α → Bool) (hpq : ∀ x, p x = true → q x = true)
    (h : l.countP p = l.countP q) : ∀ x ∈ l, q x = true → p x = true := by
  induction l with
  | nil => intro x hx; simp at hx
  | cons y ys ih =>
    have hle : ys.countP p ≤ ys.countP q := List.countP_mono_left (fun x _ => hpq x)
    simp only [List.countP_cons] at h
    intro x hx hqx
    by_cases hpy : p y = true
    · have hqy := hpq y hpy
      rw [if_pos hpy, if_pos hqy] at h
      rcases List.mem_cons.mp hx with rfl | hx
      · exact hpy
      · exact ih (by omega) x hx hqx
    · by_cases hqy : q y = true
      · rw [if_neg hpy, if_pos hqy] at h; omega
      · rw [if_neg hpy, if_neg hqy] at h
        rcases List.mem_cons.mp hx with rfl | hx
        · exact absurd hqx hqy
        · exact ih (by omega) x hx hqx

theorem count_le_count_snd (z : List (Int × Int)) (p : Int × Int) : z.count p ≤ (z.map Prod.snd).count p.2 :=
  List.count_le_count_map

theorem dirZ_eq_one_imp (z : List (Int × Int)) (hz : z ≠ []) (h : dirZ z = 1) :
    ∀ p ∈ z, ∀ q ∈ z, p.2 = q.2 → p.1 = q.1 := by
  unfold dirZ at h
  have hN : ((z.length : Nat) : Rat) ≠ 0 := by
    have := List.length_pos_iff.mpr hz
    exact_mod_cast (Nat.pos_iff_ne_zero.mp this)
  have hsum := (div_eq_one_iff_eq hN).mp h
  have hterm := sum_map_eq_length_imp z _ (fun p _ => (natDiv_mem_unit (count_le_count_snd z p)).2) hsum
  intro p hp q hq hpq
  have h1 := hterm p hp
  have hpos : 0 < z.count p := List.count_pos_iff.mpr hp
  have hc : z.count p = (z.map Prod.snd).count p.2 := by
    have hle := count_le_count_snd z p
    have hd : (((z.map Prod.snd).count p.2 : Nat) : Rat) ≠ 0 := by
      have : 0 < (z.map Prod.snd).count p.2 := by omega
      exact_mod_cast (Nat.pos_iff_ne_zero.mp this)
    have := (div_eq_one_iff_eq hd).mp h1
    exact_mod_cast this
  rw [List.count_eq_countP, List.count_eq_countP, List.countP_map] at hc
  have := countP_eq_imp z (· == p) ((· == p.2) ∘ Prod.snd)
    (fun x hx => by simp only [beq_iff_eq] at hx; simp [hx]) hc q hq (by simp [hpq])
  simp only [beq_iff_eq] at this
  rw [this]

theorem sum_map_pos {α : Type} (l : List α) (f : α → Rat) (hl : l ≠ []) (h : ∀ x ∈ l, 0 < f x) :
    0 < (l.map f).sum := by
  cases l with
  | nil => exact absurd rfl hl
  | cons y ys =>
    simp only [List.map_cons, List.sum_cons]
    have h1 := h y (by simp)
    have h2 := sum_map_nonneg ys f (fun x hx => le_of_lt (h x (by simp [hx])))
    linarith

theorem zip_ne_nil {l1 l2 : List Int} (hlen : l1.length = l2.length) (hne : l1 ≠ []) : l1.zip l2 ≠ [] := by
  intro hz
  have : (l1.zip l2).length = 0 := by rw [hz]; rfl
  rw [List.length_zip, ← hlen, Nat.min_self] at this
  exact hne (List.length_eq_zero_iff.mp this)

theorem directedFrames_pos (l1 l2 : List Int) (hlen : l1.length = l2.length) (hne : l1 ≠ []) :
    0 < directedFrames l1 l2 := by
  unfold directedFrames
  apply div_pos
  · apply sum_map_pos _ _ (zip_ne_nil hlen hne)
    rintro ⟨a, b⟩ hp
    have h1 : 0 < nij l1 l2 a b := List.count_pos_iff.mpr hp
    have h2 := nij_le_colTot l1 l2 a b
    show 0 < ((nij l1 l2 a b : Nat) : Rat) / (colTot l2 b : Nat)
    apply div_pos
    · exact_mod_cast h1
    · have : 0 < colTot l2 b := by omega
      exact_mod_cast this
  · have := List.length_pos_iff.mpr hne
    exact_mod_cast this

theorem directedFrames_eq_one_iff (l1 l2 : List Int) (hlen : l1.length = l2.length) (hne : l1 ≠ []) :
    directedFrames l1 l2 = 1 ↔ ∀ p ∈ l1.zip l2, ∀ q ∈ l1.zip l2, p.2 = q.2 → p.1 = q.1 := by
  rw [directedFrames_eq_dirZ _ _ hlen]
  exact ⟨dirZ_eq_one_imp _ (zip_ne_nil hlen hne), dirZ_refines _ (zip_ne_nil hlen hne)⟩

end MsmVerif.Compare
