/-
Refine/ItsEndLemmas.lean — helper definitions and lemmas for task RP27 (property C10, first sentence): the composition of the eigen-solver
wrapper (`Refine/Eigen.lean`), the row function `_implied_timescales` and the public loop (`Refine/Its.lean`).

* `retEvs w p nts` : what `left_eigenvalues(T, nvals = nts + 1)` returns in the accepted case — `real_if_close` of the `nts + 1` largest
  eigenvalues (descending) of the solver output `w` sorted by the permutation `p`;
* `LogMonotone L` : the logarithm stand-in is monotone on the positive real axis;
* facts about `retEvs` (length, no NaN, descending), and the arithmetic of "slowest first" for real eigenvalues in `(0, 1)`.

The theorems with docstrings are in `Refine/ItsEnd.lean`.
-/
import MsmVerif.Refine.Its
import MsmVerif.Refine.Eigen

namespace MsmVerif.Refine.ItsEnd
open MsmVerif MsmVerif.Gen MsmVerif.Timescales
open MsmVerif.Refine.Its (LogContract entry)
open MsmVerif.Refine.Eigen (Accepted EigOk ArgsortOk SquareN sortedVals sortedVecs)

/-! ### definitions -/

/-- the eigenvalues `left_eigenvalues(T, nvals = nts + 1)` returns in the accepted case: `np.real_if_close` of the `nts + 1` LARGEST
    eigenvalues, in descending order, of the solver's answer `w` (sorted by the `argsort` answer `p`) -/
def retEvs (w : List Cx) (p : List Int) (nts : Int) : List Cx :=
  npRealIfClose1 ((sortedVals w p).take (nts + 1).toNat)

/-- the logarithm stand-in is monotone on the positive real axis: `0 < x ≤ y ⇒ Re L(x) ≤ Re L(y)` -/
def LogMonotone (L : Cx → Cx) : Prop :=
  ∀ x y a b a' b' : Rat, 0 < x → x ≤ y → L (some (x, 0)) = some (a, b) → L (some (y, 0)) = some (a', b') → a ≤ a'

/-- a real number of the open unit interval -/
def RealIn01 (z : Cx) : Prop := ∃ x : Rat, z = some (x, 0) ∧ 0 < x ∧ x < 1

/-- the real part of a runtime value (`0` for NaN) -/
def reOf (z : Cx) : Rat := (z.getD (0, 0)).1

/-! ### the returned eigenvalues -/

variable {eig : List (List Rat) → Py (List Cx × List (List Cx))} {argsort : List Cx → Py (List Int)}
  {M : List (List Rat)} {n : Nat} {w : List Cx} {V : List (List Cx)} {p : List Int} {nts : Int}

theorem retEvs_length (h : Accepted eig argsort M n w V p) (h0 : 0 ≤ nts) (hn : nts + 1 ≤ n) :
    (retEvs w p nts).length = nts.toNat + 1 := by
  have hw : w.length = n := h.eigOk.1.trans h.sq.1
  unfold retEvs
  rw [Eigen.npRealIfClose1_length, List.length_take, Eigen.sortedVals_length h.sortOk, hw]
  omega

theorem sortedVals_nanfree (h : Accepted eig argsort M n w V p) : ∀ z ∈ sortedVals w p, z.isSome = true :=
  fun z hz => Eigen.eigOk_nanfree h.eigOk z ((Eigen.sortedVals_perm h.sortOk).mem_iff.1 hz)

theorem cxReal_isSome (z : Cx) : (cxReal z).isSome = z.isSome := by
  cases z <;> rfl

theorem retEvs_nanfree (h : Accepted eig argsort M n w V p) : ∀ z ∈ retEvs w p nts, z.isSome = true := by
  unfold retEvs
  rcases Eigen.npRealIfClose1_cases ((sortedVals w p).take (nts + 1).toNat) with h' | ⟨_, h'⟩ <;> rw [h']
  · exact fun z hz => sortedVals_nanfree h z (List.mem_of_mem_take hz)
  · intro z hz
    obtain ⟨z', hz', rfl⟩ := List.mem_map.1 hz
    rw [cxReal_isSome]
    exact sortedVals_nanfree h z' (List.mem_of_mem_take hz')

theorem retEvs_descending (h : Accepted eig argsort M n w V p) :
    (retEvs w p nts).Pairwise (fun a b => cxGe a b = true) :=
  Eigen.npRealIfClose1_descending ((Eigen.sortedVals_descending h.sortOk).sublist (List.take_sublist _ _))

/-- with `nts + 1 = n` all eigenvalues are selected -/
theorem retEvs_all (h : Accepted eig argsort M n w V p) : retEvs w p ((n : Int) - 1) = npRealIfClose1 (sortedVals w p) := by
  have hw : w.length = n := h.eigOk.1.trans h.sq.1
  unfold retEvs
  rw [List.take_of_length_le]
  rw [Eigen.sortedVals_length h.sortOk, hw]
  omega

theorem getD_drop_one {α : Type} (l : List α) (k : Nat) (d : α) : (l.drop 1).getD k d = l.getD (k + 1) d := by
  simp [List.getD_eq_getElem?_getD]

/-! ### "slowest first": real eigenvalues in `(0, 1)` -/

theorem cxGe_real (x y : Rat) : cxGe (some (x, 0)) (some (y, 0)) = true ↔ y ≤ x := by
  unfold cxGe cxLe
  simp only [decide_eq_true_eq]
  constructor
  · rintro (h | ⟨h, _⟩)
    · exact le_of_lt h
    · exact le_of_eq h
  · intro h
    rcases lt_or_eq_of_le h with h | h
    · exact Or.inl h
    · exact Or.inr ⟨h, le_refl _⟩

/-- the entry of a real eigenvalue in `(0, 1)` is a positive real number -/
theorem entry_real01 {log : List Cx → Py (List Cx)} {L : Cx → Cx} (hlog : LogContract log L) (τ : Int) (hτ : 1 ≤ τ)
    (z : Cx) (hz : RealIn01 z) : entry τ L z = some (reOf (entry τ L z), 0) ∧ 0 < reOf (entry τ L z) := by
  obtain ⟨x, rfl, h0, h1⟩ := hz
  obtain ⟨a, _, _, he, hp⟩ := Its.entry_real hlog τ hτ x h0 h1
  rw [he]
  exact ⟨rfl, hp⟩

/-- a larger real eigenvalue in `(0, 1)` gives a larger (or equal) entry, if the logarithm is monotone -/
theorem entry_mono {log : List Cx → Py (List Cx)} {L : Cx → Cx} (hlog : LogContract log L) (hmono : LogMonotone L)
    (τ : Int) (hτ : 1 ≤ τ) (z z' : Cx) (hz : RealIn01 z) (hz' : RealIn01 z') (hge : cxGe z z' = true) :
    reOf (entry τ L z') ≤ reOf (entry τ L z) := by
  obtain ⟨x, rfl, hx0, hx1⟩ := hz
  obtain ⟨y, rfl, hy0, hy1⟩ := hz'
  have hyx : y ≤ x := (cxGe_real x y).1 hge
  obtain ⟨a, hLa, ha, hea, _⟩ := Its.entry_real hlog τ hτ x hx0 hx1
  obtain ⟨c, hLc, hc, hec, _⟩ := Its.entry_real hlog τ hτ y hy0 hy1
  have hca : c ≤ a := hmono y x c 0 a 0 hy0 hyx hLc hLa
  rw [hea, hec]
  simp only [reOf, Option.getD_some]
  have hτ' : (0 : Rat) < (τ : Rat) := by exact_mod_cast (by omega : 0 < τ)
  have hinv : 1 / a ≤ 1 / c := (one_div_le_one_div_of_neg ha hc).mpr hca
  have := mul_le_mul_of_nonneg_left hinv hτ'.le
  rw [neg_div, neg_div, neg_le_neg_iff, div_eq_mul_one_div (τ : Rat) a, div_eq_mul_one_div (τ : Rat) c]
  exact this

/-- a descending list of real eigenvalues in `(0, 1)` gives real positive entries in non-increasing order -/
theorem row_slowest_first {log : List Cx → Py (List Cx)} {L : Cx → Cx} (hlog : LogContract log L) (hmono : LogMonotone L)
    (τ : Int) (hτ : 1 ≤ τ) (l : List Cx) (hreal : ∀ z ∈ l, RealIn01 z) (hdesc : l.Pairwise (fun a b => cxGe a b = true)) :
    ∃ ts : List Rat, l.map (entry τ L) = ts.map (fun t => some (t, 0)) ∧ ts.length = l.length ∧ (∀ t ∈ ts, 0 < t) ∧
      ts.Pairwise (fun s t => t ≤ s) := by
  refine ⟨l.map (fun z => reOf (entry τ L z)), ?_, by simp, ?_, ?_⟩
  · rw [List.map_map]
    apply List.map_congr_left
    intro z hz
    exact (entry_real01 hlog τ hτ z (hreal z hz)).1
  · intro t ht
    obtain ⟨z, hz, rfl⟩ := List.mem_map.1 ht
    exact (entry_real01 hlog τ hτ z (hreal z hz)).2
  · rw [List.pairwise_map]
    exact hdesc.imp_of_mem (fun {a b} ha hb hab => entry_mono hlog hmono τ hτ a b (hreal a ha) (hreal b hb) hab)

theorem realIn01_cxReal {z : Cx} (h : RealIn01 z) : cxReal z = z := by
  obtain ⟨x, rfl, _, _⟩ := h
  rfl

/-- `real_if_close` does not change real numbers: a hypothesis on the solver's sorted eigenvalues carries over to the returned ones -/
theorem retEvs_drop_real01 {w : List Cx} {p : List Int} {nts : Int}
    (hreal : ∀ z ∈ ((sortedVals w p).take (nts + 1).toNat).drop 1, RealIn01 z) :
    ∀ z ∈ (retEvs w p nts).drop 1, RealIn01 z := by
  unfold retEvs
  rcases Eigen.npRealIfClose1_cases ((sortedVals w p).take (nts + 1).toNat) with h' | ⟨_, h'⟩ <;> rw [h']
  · exact hreal
  · intro z hz
    rw [← List.map_drop] at hz
    obtain ⟨z', hz', rfl⟩ := List.mem_map.1 hz
    rw [realIn01_cxReal (hreal z' hz')]
    exact hreal z' hz'

end MsmVerif.Refine.ItsEnd
