/-
Refine/Public2.lean — task RP21 (properties C13, C07): refinement of two more PUBLIC functions, as translated statement by statement.

1. `md.compare_discretization(traj1, traj2, method)` (`Gen/MdCompareApi.lean`, one translation per value of `method`; the two
   `StateTraj` objects are given by their attributes `index_trajs_flatten`, `nstates`, `nframes`):
   * the three rejections hold for ARBITRARY attribute values and both values of the `DISABLE_JIT` flag (`compare_api_other`,
     `compare_api_unequal_frames`, `compare_api_single_state`), and otherwise the public function is the glue
     `_compare_discretization` (`compare_api_accepts`);
   * fed with the attributes of the objects the constructor model `StateTraj.mk'` builds from two trajectory sets within the label
     guard, not both without any frame, the translated function equals the public model `Compare.compare t1 t2 m`, errors included
     (`compare_api_refines`; per method `compare_api_symmetric_refines`, `compare_api_directed_refines`, `compare_api_other_refines`),
     hence the contingency-table formula of C13 (`compare_api_meets_spec`) and `ValueError` exactly for unequal frame counts or a
     single-state labeling (`compare_api_value_error_iff`).
   Finding (`compare_api_all_empty`): when BOTH sets have no frame at all, the translation raises `ZeroDivisionError` (`Err.other`; the
   mean over zero frames) while the model returns `0`; hence the hypothesis "not both all-empty" of the accepted-input theorems.

2. `utils.datasets.propagate_tmat(tmat, nsteps, start)` (`Gen/UtilsDatasets.lean`; the compiled chain kernel and `np.random.randint`
   are oracle parameters): a matrix that is not a transition matrix is rejected with `ValueError` without consulting any oracle
   (`propagate_tmat_rejects`); otherwise the kernel is called exactly once, with `kernelArg T` = (cumulative sums of the row-normalised
   matrix, identity permutation in every row), the requested start (resp. the random index drawn for `len(tmat)`) and `nsteps`, and its
   answer is returned unchanged (`propagate_tmat_start_refines`, `propagate_tmat_random_refines`).  The pair handed over satisfies
   C07's oracle `Mcmc.holdsCumTmat` with error 0 (`propagate_tmat_arg_holds`) and the well-formedness the chain refinement needs
   (`propagate_tmat_arg_wf`); with the translated `_propagate_MCMC` as the kernel the result is the model chain
   (`propagate_tmat_start_chain`).

Helper lemmas: `Refine/Public2Lemmas.lean`.
-/
import MsmVerif.Refine.Public2Lemmas
open MsmVerif MsmVerif.Gen

namespace MsmVerif.Refine.Public2

/-! ## 1. `md.compare_discretization` -/

/-! ### 1a. the three rejections, for arbitrary attribute values -/

/-- **Unknown method.**  The translation of `compare_discretization` for a `method` that is neither `'symmetric'` nor `'directed'`
raises `ValueError` — whatever the attribute values of the two objects (index trajectories, state counts, frame counts) and the
configuration flag are. -/
theorem compare_api_other (f1 f2 : List Int) (n1 nf1 n2 nf2 : Int) (flag : Bool) :
    Gen.MdCompareApi.compare_discretization_api_other f1 n1 nf1 f2 n2 nf2 flag = .error .value := rfl

/-- **Unequal frame counts.**  If the two `nframes` attributes differ, the translated public comparison raises `ValueError`, for both
methods, whatever the other attribute values and the flag are (the glue is not reached). -/
theorem compare_api_unequal_frames (f1 f2 : List Int) (n1 nf1 n2 nf2 : Int) (flag : Bool) (h : nf1 ≠ nf2) :
    Gen.MdCompareApi.compare_discretization_api_symmetric f1 n1 nf1 f2 n2 nf2 flag = .error .value ∧
    Gen.MdCompareApi.compare_discretization_api_directed f1 n1 nf1 f2 n2 nf2 flag = .error .value :=
  api_unequal f1 f2 n1 n2 nf1 nf2 flag h

/-- **A single-state labeling.**  If one of the two `nstates` attributes is 1, the translated public comparison raises `ValueError`,
for both methods, whatever the other attribute values (equal frame counts or not) and the flag are. -/
theorem compare_api_single_state (f1 f2 : List Int) (n1 nf1 n2 nf2 : Int) (flag : Bool) (h : n1 = 1 ∨ n2 = 1) :
    Gen.MdCompareApi.compare_discretization_api_symmetric f1 n1 nf1 f2 n2 nf2 flag = .error .value ∧
    Gen.MdCompareApi.compare_discretization_api_directed f1 n1 nf1 f2 n2 nf2 flag = .error .value :=
  api_single f1 f2 n1 n2 nf1 nf2 flag h

/-- **Otherwise the glue is called.**  With equal `nframes` attributes and both `nstates` attributes different from 1 the translated
public function is, for both methods and arbitrary attribute values, exactly the translated `_compare_discretization` on the index
trajectories and state counts (the frame counts are not used any further). -/
theorem compare_api_accepts (f1 f2 : List Int) (n1 nf1 n2 nf2 : Int) (flag : Bool) (hf : nf1 = nf2) (h1 : n1 ≠ 1) (h2 : n2 ≠ 1) :
    Gen.MdCompareApi.compare_discretization_api_symmetric f1 n1 nf1 f2 n2 nf2 flag
      = Gen.MdCompareApi.compare_discretization_symmetric f1 n1 f2 n2 flag ∧
    Gen.MdCompareApi.compare_discretization_api_directed f1 n1 nf1 f2 n2 nf2 flag
      = Gen.MdCompareApi.compare_discretization_directed f1 n1 f2 n2 flag :=
  ⟨api_symmetric_accept f1 f2 n1 n2 nf1 nf2 flag hf h1 h2, api_directed_accept f1 f2 n1 n2 nf1 nf2 flag hf h1 h2⟩

example (flag : Bool) : Gen.MdCompareApi.compare_discretization_api_symmetric [0, 1] 2 2 [0, 0, 1] 2 3 flag = .error .value :=
  (compare_api_unequal_frames _ _ _ _ _ _ flag (by decide)).1
example (flag : Bool) : Gen.MdCompareApi.compare_discretization_api_directed [0, 1, 1] 2 3 [0, 0, 0] 1 3 flag = .error .value :=
  (compare_api_single_state _ _ _ _ _ _ flag (by decide)).2

/-! ### 1b. accepted input: the translated public function is the public model -/

/-- **`method='symmetric'` = model.**  Let `t1`, `t2` be two trajectory sets with labels in `[-2^29, 2^29]`, not both without any
frame, and `s1`, `s2` the objects the constructor model builds from them.  The translated public function, fed with the attributes
`index_trajs_flatten`, `nstates`, `nframes` of the two objects, returns — for both values of the flag — exactly what the public model
`Compare.compare t1 t2 0` returns: `ValueError` for unequal frame counts or a single-state labeling, and otherwise (no `IndexError`, no
broadcasting `ValueError`, enough fuel) the symmetric similarity. -/
theorem compare_api_symmetric_refines (t1 t2 : Trajs) (s1 s2 : StateTraj)
    (h1 : StateTraj.mk' t1 = .ok s1) (h2 : StateTraj.mk' t2 = .ok s2) (hguard1 : LabelGuard t1) (hguard2 : LabelGuard t2)
    (hne : t1.flatten ≠ [] ∨ t2.flatten ≠ []) (flag : Bool) :
    Gen.MdCompareApi.compare_discretization_api_symmetric s1.idx.flatten s1.nstates s1.nframes s2.idx.flatten s2.nstates
        s2.nframes flag = Compare.compare t1 t2 0 :=
  api_symmetric_refines t1 t2 s1 s2 h1 h2 hguard1 hguard2 hne flag

/-- **`method='directed'` = model.**  Under the hypotheses of `compare_api_symmetric_refines` the translation for
`method='directed'` returns exactly `Compare.compare t1 t2 1`, errors included. -/
theorem compare_api_directed_refines (t1 t2 : Trajs) (s1 s2 : StateTraj)
    (h1 : StateTraj.mk' t1 = .ok s1) (h2 : StateTraj.mk' t2 = .ok s2) (hguard1 : LabelGuard t1) (hguard2 : LabelGuard t2)
    (hne : t1.flatten ≠ [] ∨ t2.flatten ≠ []) (flag : Bool) :
    Gen.MdCompareApi.compare_discretization_api_directed s1.idx.flatten s1.nstates s1.nframes s2.idx.flatten s2.nstates
        s2.nframes flag = Compare.compare t1 t2 1 :=
  api_directed_refines t1 t2 s1 s2 h1 h2 hguard1 hguard2 hne flag

/-- **Unknown method = model.**  Whenever both constructors succeed (no guard needed, all-empty data allowed), the translation for an
unknown method returns what the model returns for every method code `m ≥ 2`: `ValueError`. -/
theorem compare_api_other_refines (t1 t2 : Trajs) (s1 s2 : StateTraj)
    (h1 : StateTraj.mk' t1 = .ok s1) (h2 : StateTraj.mk' t2 = .ok s2) (m : Nat) (hm : 2 ≤ m) (flag : Bool) :
    Gen.MdCompareApi.compare_discretization_api_other s1.idx.flatten s1.nstates s1.nframes s2.idx.flatten s2.nstates
        s2.nframes flag = Compare.compare t1 t2 m :=
  (compare_unknown t1 t2 s1 s2 h1 h2 m hm).symm

/-- **C13, the public function end to end (all three method cases).**  For two trajectory sets within the label guard, not both
without any frame, fed with the attributes of the objects built from them, each of the three translations of the public
`compare_discretization` equals the public model `Compare.compare t1 t2 m` with the corresponding method code (`0` symmetric,
`1` directed, `2` unknown), errors included, for both values of the flag. -/
theorem compare_api_refines (t1 t2 : Trajs) (s1 s2 : StateTraj)
    (h1 : StateTraj.mk' t1 = .ok s1) (h2 : StateTraj.mk' t2 = .ok s2) (hguard1 : LabelGuard t1) (hguard2 : LabelGuard t2)
    (hne : t1.flatten ≠ [] ∨ t2.flatten ≠ []) (flag : Bool) :
    Gen.MdCompareApi.compare_discretization_api_symmetric s1.idx.flatten s1.nstates s1.nframes s2.idx.flatten s2.nstates
        s2.nframes flag = Compare.compare t1 t2 0 ∧
    Gen.MdCompareApi.compare_discretization_api_directed s1.idx.flatten s1.nstates s1.nframes s2.idx.flatten s2.nstates
        s2.nframes flag = Compare.compare t1 t2 1 ∧
    Gen.MdCompareApi.compare_discretization_api_other s1.idx.flatten s1.nstates s1.nframes s2.idx.flatten s2.nstates
        s2.nframes flag = Compare.compare t1 t2 2 :=
  ⟨compare_api_symmetric_refines t1 t2 s1 s2 h1 h2 hguard1 hguard2 hne flag,
   compare_api_directed_refines t1 t2 s1 s2 h1 h2 hguard1 hguard2 hne flag,
   compare_api_other_refines t1 t2 s1 s2 h1 h2 2 (by omega) flag⟩

/-- **C13 end to end, against the spec.**  For two trajectory sets within the label guard with equally many frames (at least one), none
of which has exactly one distinct label, the translated public function returns — without any error, for both values of the flag —
the contingency-table value of the RAW labels: `(1/N) Σ n_ij · max(n_ij/n_i·, n_ij/n_·j)` for `method='symmetric'` and
`(1/N) Σ n_ij² / n_·j` for `method='directed'`. -/
theorem compare_api_meets_spec (t1 t2 : Trajs) (s1 s2 : StateTraj)
    (h1 : StateTraj.mk' t1 = .ok s1) (h2 : StateTraj.mk' t2 = .ok s2) (hguard1 : LabelGuard t1) (hguard2 : LabelGuard t2)
    (hne : t1.flatten ≠ []) (hlen : t1.flatten.length = t2.flatten.length)
    (hs1 : (states t1).length ≠ 1) (hs2 : (states t2).length ≠ 1) (flag : Bool) :
    Gen.MdCompareApi.compare_discretization_api_symmetric s1.idx.flatten s1.nstates s1.nframes s2.idx.flatten s2.nstates
        s2.nframes flag = .ok (Compare.symmetricSpec t1.flatten t2.flatten) ∧
    Gen.MdCompareApi.compare_discretization_api_directed s1.idx.flatten s1.nstates s1.nframes s2.idx.flatten s2.nstates
        s2.nframes flag = .ok (Compare.directedSpec t1.flatten t2.flatten) := by
  rw [compare_api_symmetric_refines t1 t2 s1 s2 h1 h2 hguard1 hguard2 (Or.inl hne) flag,
    compare_api_directed_refines t1 t2 s1 s2 h1 h2 hguard1 hguard2 (Or.inl hne) flag,
    C13.compare_eq_spec t1 t2 0 hguard1 hguard2 (by omega) hlen hs1 hs2,
    C13.compare_eq_spec t1 t2 1 hguard1 hguard2 (by omega) hlen hs1 hs2]
  exact ⟨rfl, rfl⟩

/-- **`ValueError` exactly for the documented reasons.**  For two trajectory sets within the label guard, not both without any frame,
the translated public function (either known method, either flag value) raises `ValueError` if and only if the two sets have different
numbers of frames or one of them has exactly one distinct label. -/
theorem compare_api_value_error_iff (t1 t2 : Trajs) (s1 s2 : StateTraj)
    (h1 : StateTraj.mk' t1 = .ok s1) (h2 : StateTraj.mk' t2 = .ok s2) (hguard1 : LabelGuard t1) (hguard2 : LabelGuard t2)
    (hne : t1.flatten ≠ [] ∨ t2.flatten ≠ []) (flag : Bool) :
    (Gen.MdCompareApi.compare_discretization_api_symmetric s1.idx.flatten s1.nstates s1.nframes s2.idx.flatten s2.nstates
        s2.nframes flag = .error .value
      ↔ t1.flatten.length ≠ t2.flatten.length ∨ (states t1).length = 1 ∨ (states t2).length = 1) ∧
    (Gen.MdCompareApi.compare_discretization_api_directed s1.idx.flatten s1.nstates s1.nframes s2.idx.flatten s2.nstates
        s2.nframes flag = .error .value
      ↔ t1.flatten.length ≠ t2.flatten.length ∨ (states t1).length = 1 ∨ (states t2).length = 1) := by
  rw [compare_api_symmetric_refines t1 t2 s1 s2 h1 h2 hguard1 hguard2 hne flag,
    compare_api_directed_refines t1 t2 s1 s2 h1 h2 hguard1 hguard2 hne flag,
    C13.reject t1 t2 0 s1 s2 h1 h2, C13.reject t1 t2 1 s1 s2 h1 h2]
  constructor <;> constructor
  · rintro (h | h)
    · omega
    · exact h
  · exact Or.inr
  · rintro (h | h)
    · omega
    · exact h
  · exact Or.inr

/-! non-vacuity: two ragged sets with 4 frames, labels `1, 5` and `3, 4` -/

/-- the hypotheses of `compare_api_refines` / `compare_api_meets_spec` hold, and the objects are the rank trajectories -/
example : StateTraj.mk' [[1, 1], [5, 5]] = .ok ⟨[[0, 0], [1, 1]], [1, 5]⟩ ∧ StateTraj.mk' [[3, 4, 4], [4]] = .ok ⟨[[0, 1, 1], [1]], [3, 4]⟩ ∧
    LabelGuard [[1, 1], [5, 5]] ∧ LabelGuard [[3, 4, 4], [4]] ∧ ([[1, 1], [5, 5]] : Trajs).flatten ≠ [] ∧
    ([[1, 1], [5, 5]] : Trajs).flatten.length = ([[3, 4, 4], [4]] : Trajs).flatten.length ∧
    (states [[1, 1], [5, 5]]).length ≠ 1 ∧ (states [[3, 4, 4], [4]]).length ≠ 1 := by decide +kernel
/-- `compare_api_refines` applied: the translated call on the attributes `([0,0,1,1], 2, 4)` and `([0,1,1,1], 2, 4)` -/
example (flag : Bool) :
    Gen.MdCompareApi.compare_discretization_api_symmetric [0, 0, 1, 1] ((2 : Nat) : Int) ((4 : Nat) : Int) [0, 1, 1, 1] ((2 : Nat) : Int)
      ((4 : Nat) : Int) flag = .ok (7 / 8) := by
  have h := compare_api_symmetric_refines [[1, 1], [5, 5]] [[3, 4, 4], [4]] ⟨[[0, 0], [1, 1]], [1, 5]⟩ ⟨[[0, 1, 1], [1]], [3, 4]⟩
    (by decide +kernel) (by decide +kernel) (by decide) (by decide) (Or.inl (by decide)) flag
  rw [show Compare.compare [[1, 1], [5, 5]] [[3, 4, 4], [4]] 0 = .ok (7 / 8) by decide +kernel] at h
  exact h
/-- the same by evaluating the translated code directly (both methods, one flag value each) -/
example : Gen.MdCompareApi.compare_discretization_api_symmetric [0, 0, 1, 1] 2 4 [0, 1, 1, 1] 2 4 true = .ok (7 / 8) ∧
    Gen.MdCompareApi.compare_discretization_api_directed [0, 0, 1, 1] 2 4 [0, 1, 1, 1] 2 4 false = .ok (2 / 3) ∧
    Compare.compare [[1, 1], [5, 5]] [[3, 4, 4], [4]] 1 = .ok (2 / 3) := by decide +kernel
/-- a rejection through the objects: 4 frames against 3 -/
example : Compare.compare [[1, 1], [5, 5]] [[3, 4, 4]] 0 = .error .value := by decide +kernel

/-! ### 1c. all-empty data: translation and model differ -/

/-- **Finding: both sets without any frame.**  When neither `t1` nor `t2` contains a single frame (any number of empty trajectories),
both constructors succeed with no state and no frame, the guards of the public function pass (`0 = 0` frames, `0 ≠ 1` states), and the
translated glue raises `ZeroDivisionError` (`Err.other`: the mean over zero frames) for both methods and both flag values — whereas the
public model returns the value `0` (its convention `0 / 0 = 0`).  (The real library raises a numba `TypeError` on such input.)  Hence
the hypothesis `t1.flatten ≠ [] ∨ t2.flatten ≠ []` of the theorems of section 1b; when exactly one set is all-empty the frame counts
differ and translation and model agree on `ValueError`. -/
theorem compare_api_all_empty (t1 t2 : Trajs) (he1 : t1.flatten = []) (he2 : t2.flatten = []) (s1 s2 : StateTraj)
    (h1 : StateTraj.mk' t1 = .ok s1) (h2 : StateTraj.mk' t2 = .ok s2) (flag : Bool) :
    Gen.MdCompareApi.compare_discretization_api_symmetric s1.idx.flatten s1.nstates s1.nframes s2.idx.flatten s2.nstates
        s2.nframes flag = .error .other ∧
    Gen.MdCompareApi.compare_discretization_api_directed s1.idx.flatten s1.nstates s1.nframes s2.idx.flatten s2.nstates
        s2.nframes flag = .error .other ∧
    Compare.compare t1 t2 0 = .ok 0 ∧ Compare.compare t1 t2 1 = .ok 0 := by
  rw [compare_known t1 t2 s1 s2 h1 h2 0 (by omega), compare_known t1 t2 s1 s2 h1 h2 1 (by omega), nframes_eq, nframes_eq]
  rw [mk'_empty t1 he1] at h1
  rw [mk'_empty t2 he2] at h2
  obtain rfl := Except.ok.inj h1
  obtain rfl := Except.ok.inj h2
  simp only [he1, he2, StateTraj.nstates, List.length_nil]
  exact ⟨(api_empty flag).1, (api_empty flag).2, by simp [sim_empty], by simp [sim_empty]⟩

example : ([[], []] : Trajs).flatten = [] ∧ StateTraj.mk' [[], []] = .ok ⟨[[], []], []⟩ := by decide +kernel

/-! ## 2. `utils.datasets.propagate_tmat` -/

/-- **`propagate_tmat(tmat, nsteps, start)` on a transition matrix.**  If `T` is a transition matrix in the model's sense
(`Linalg.isTmat`: square, at least 2 × 2, every row sum within `1e-8` of 1 or row and column both zero), the translated function calls
the chain kernel exactly once — with EXACTLY the pair `kernelArg T` = (`(rowNormalizeQ T).map cumsum`, i.e. the running sums of every
row of the row-normalised matrix; the identity permutation `range n` in each of the `n = len(T)` rows, as integers), the requested
`start` and `nsteps` — and returns the kernel's answer (value or exception) unchanged.  The kernel is an arbitrary function. -/
theorem propagate_tmat_start_refines (ext : (List (List Rat) × List (List Int)) → Int → Int → Py (List Int)) (T : List (List Rat))
    (nsteps start : Int) (hT : Linalg.isTmat T = true) :
    Gen.UtilsDatasets.propagate_tmat_start ext T nsteps start = ext (kernelArg T) start nsteps := by
  obtain ⟨hne, hsq, -⟩ := of_isTmat hT
  rw [start_eq, Ergodic.is_tmat_refines T hne hsq, hT]
  rfl

/-- **`propagate_tmat(tmat, nsteps)` with `start=None` on a transition matrix.**  If `T` is a transition matrix in the model's sense,
the translated function first asks the oracle `np.random.randint` for an index below `len(T)` (an exception of that oracle is passed
on and the kernel is not called), then calls the chain kernel exactly once with `kernelArg T` (as in `propagate_tmat_start_refines`),
the drawn index as start and `nsteps`, and returns the kernel's answer unchanged.  Both oracles are arbitrary functions. -/
theorem propagate_tmat_random_refines (ext : (List (List Rat) × List (List Int)) → Int → Int → Py (List Int)) (rnd : Int → Py Int)
    (T : List (List Rat)) (nsteps : Int) (hT : Linalg.isTmat T = true) :
    Gen.UtilsDatasets.propagate_tmat_random ext rnd T nsteps
      = (do let s ← rnd (T.length : Int); ext (kernelArg T) s nsteps) := by
  obtain ⟨hne, hsq, -⟩ := of_isTmat hT
  rw [random_eq, Ergodic.is_tmat_refines T hne hsq, hT]
  rfl

/-- `propagate_tmat_random_refines` when the random oracle answers `s`: the result is the kernel's answer for the start `s`. -/
theorem propagate_tmat_random_of_draw (ext : (List (List Rat) × List (List Int)) → Int → Int → Py (List Int)) (rnd : Int → Py Int)
    (T : List (List Rat)) (nsteps s : Int) (hT : Linalg.isTmat T = true) (hs : rnd (T.length : Int) = .ok s) :
    Gen.UtilsDatasets.propagate_tmat_random ext rnd T nsteps = ext (kernelArg T) s nsteps := by
  rw [propagate_tmat_random_refines ext rnd T nsteps hT, hs]
  rfl

/-- **Rejection.**  For every non-empty rectangular array `T` (any shape) that is NOT a transition matrix in the model's sense,
`propagate_tmat` raises `ValueError` for both start forms, whatever the oracles are — neither the kernel nor the random oracle is
consulted.  (For a non-square array with neither one row nor one column the `ValueError` already comes from the broadcasting inside
`is_transition_matrix`; it is the same error kind.) -/
theorem propagate_tmat_rejects (ext : (List (List Rat) × List (List Int)) → Int → Int → Py (List Int)) (rnd : Int → Py Int)
    (T : List (List Rat)) (nsteps start : Int) (hrect : Gen.npRect T = true) (hne : T ≠ []) (hT : Linalg.isTmat T = false) :
    Gen.UtilsDatasets.propagate_tmat_start ext T nsteps start = .error .value ∧
    Gen.UtilsDatasets.propagate_tmat_random ext rnd T nsteps = .error .value := by
  rw [start_eq, random_eq]
  rcases check_cases T hrect hne with h | ⟨h, -⟩
  · rw [h, hT]; exact ⟨rfl, rfl⟩
  · rw [h]; exact ⟨rfl, rfl⟩

/-- **What the kernel receives is what C07's oracle accepts, exactly.**  For every square `T` (in particular every transition matrix):
the first component of `kernelArg T` together with the identity permutation `idPerm (len T)` satisfies `Mcmc.holdsCumTmat T` — with
every breakpoint EQUAL to the exact running sum of the row-normalised matrix (error 0, inside the oracle's float tolerance) — and the
second component of `kernelArg T` is that identity permutation written as integers. -/
theorem propagate_tmat_arg_holds (T : List (List Rat)) (hsq : Linalg.isSquare T = true) :
    MsmVerif.Mcmc.holdsCumTmat T (kernelArg T).1 (idPerm T.length) = true ∧
    (kernelArg T).1 = (Msm.rowNormalizeQ T).map MsmVerif.Mcmc.cumsum ∧
    (kernelArg T).2 = (List.replicate T.length (List.range T.length)).map (·.map Int.ofNat) :=
  ⟨kernelArg_holds hsq, rfl, rfl⟩

/-- **What the kernel receives is well formed.**  For a transition matrix `T` the pair handed to the kernel is a well-formed
cumulative matrix with permutation in the sense of the chain refinement `Refine.Mcmc.chain_refines` (`n = len T ≥ 1` rows of length
`n` each, permutation entries `< n`). -/
theorem propagate_tmat_arg_wf (T : List (List Rat)) (hT : Linalg.isTmat T = true) :
    Refine.Mcmc.WF (kernelArg T).1 (idPerm T.length) T.length := by
  obtain ⟨-, hsq, h2⟩ := of_isTmat hT
  exact kernelArg_wf hsq (by omega)

/-- the translated compiled kernel `_propagate_MCMC`, run on the uniform draws `us`, as an instance of the oracle parameter -/
def kernelOn (us : List Rat) : (List (List Rat) × List (List Int)) → Int → Int → Py (List Int) :=
  fun arg s n => ((Gen.MsmTimescales.propagate_MCMC arg s n).run us).map (·.1)

/-- **C07 end to end.**  With the translated `_propagate_MCMC` as the kernel, run on the uniform draws `us`: for a transition matrix
`T`, a start index below `len(T)`, `nsteps ≥ 1` and at least `nsteps - 1` draws, `propagate_tmat(T, nsteps, start)` raises nothing and
returns exactly the model chain `Mcmc.chain` over the running sums of the row-normalised matrix with the identity permutation. -/
theorem propagate_tmat_start_chain (T : List (List Rat)) (hT : Linalg.isTmat T = true) (start steps : Nat) (hs : start < T.length)
    (hsteps : 1 ≤ steps) (us : List Rat) (hus : steps - 1 ≤ us.length) :
    Gen.UtilsDatasets.propagate_tmat_start (kernelOn us) T (steps : Int) (start : Int)
      = .ok ((MsmVerif.Mcmc.chain ((Msm.rowNormalizeQ T).map MsmVerif.Mcmc.cumsum) (idPerm T.length) start steps us).map Int.ofNat) := by
  rw [propagate_tmat_start_refines _ T _ _ hT]
  have hwf : Refine.Mcmc.WF ((Msm.rowNormalizeQ T).map MsmVerif.Mcmc.cumsum) (idPerm T.length) T.length :=
    propagate_tmat_arg_wf T hT
  unfold kernelOn kernelArg
  rw [Refine.Mcmc.chain_refines hwf start steps hs hsteps us hus]
  rfl

/-! non-vacuity: the 2 × 2 matrix `[[1/2, 1/2], [1/4, 3/4]]` and the 2 × 2 matrix `[[1, 1], [1, 3]]` that is not normalised -/

example : Linalg.isTmat [[1/2, 1/2], [1/4, 3/4]] = true ∧ kernelArg [[1/2, 1/2], [1/4, 3/4]] = ([[1/2, 1], [1/4, 1]], [[0, 1], [0, 1]]) := by
  decide +kernel
/-- `propagate_tmat_start_refines` with a kernel that echoes its arguments -/
example : Gen.UtilsDatasets.propagate_tmat_start (fun c s n => .ok ([s, n] ++ c.2.flatten)) [[1/2, 1/2], [1/4, 3/4]] 5 1
    = .ok [1, 5, 0, 1, 0, 1] := by
  rw [propagate_tmat_start_refines _ _ _ _ (by decide +kernel)]
  decide +kernel
/-- `propagate_tmat_random_of_draw` with a random oracle answering `n - 1` -/
example : Gen.UtilsDatasets.propagate_tmat_random (fun c s n => .ok ([s, n] ++ c.2.flatten)) (fun n => .ok (n - 1))
    [[1/2, 1/2], [1/4, 3/4]] 5 = .ok [1, 5, 0, 1, 0, 1] := by
  rw [propagate_tmat_random_of_draw _ _ _ _ 1 (by decide +kernel) rfl]
  decide +kernel
/-- an exception of the random oracle is passed on -/
example : Gen.UtilsDatasets.propagate_tmat_random (fun _ _ _ => .ok []) (fun _ => .error .notImplemented)
    [[1/2, 1/2], [1/4, 3/4]] 5 = .error .notImplemented := by
  rw [propagate_tmat_random_refines _ _ _ _ (by decide +kernel)]
  rfl
/-- the hypotheses of `propagate_tmat_rejects` hold on a square matrix with row sums 2 and 4, and on a 2 × 3 array -/
example : Gen.npRect [[(1 : Rat), 1], [1, 3]] = true ∧ [[(1 : Rat), 1], [1, 3]] ≠ [] ∧ Linalg.isTmat [[1, 1], [1, 3]] = false ∧
    Gen.npRect [[(1 : Rat) / 2, 1 / 2, 0], [1, 0, 0]] = true ∧ Linalg.isTmat [[1 / 2, 1 / 2, 0], [1, 0, 0]] = false := by decide +kernel
example : Gen.UtilsDatasets.propagate_tmat_start (fun _ _ _ => .ok []) [[1, 1], [1, 3]] 5 0 = .error .value :=
  (propagate_tmat_rejects _ (fun _ => .ok 0) _ 5 0 (by decide +kernel) (by simp) (by decide +kernel)).1
/-- `hne` of `propagate_tmat_rejects` is needed: on the empty list (which `numpy` never produces as a 2-d array) the translated check
answers `True` and the kernel IS called, while the model says "no transition matrix" -/
example : Gen.UtilsDatasets.propagate_tmat_start (fun _ s n => .ok [s, n]) [] 5 0 = .ok [0, 5] ∧ Linalg.isTmat [] = false := by
  decide +kernel
/-- `propagate_tmat_start_chain`: hypotheses and value on a concrete chain of 4 frames -/
example : Gen.UtilsDatasets.propagate_tmat_start (kernelOn [3/5, 1/5, 9/10]) [[1/2, 1/2], [1/4, 3/4]] ((4 : Nat) : Int) ((0 : Nat) : Int)
    = .ok [0, 1, 0, 1] := by
  rw [propagate_tmat_start_chain _ (by decide +kernel) 0 4 (by decide) (by decide) _ (by decide)]
  decide +kernel

end MsmVerif.Refine.Public2
