"""C17 — results do not depend on how the trajectories are represented (forms, dtypes, function vs method, relabellings)."""
import numpy as np

import core
import gen
from props import c01, c05, c06, c13

PID = 'C17'
ANCHORS = [('src/msmhelper/utils/_utils.py', ['format_state_traj', '_check_state_traj']),
           ('src/msmhelper/statetraj.py', ['StateTraj.__new__', 'StateTraj.__init__', 'StateTraj.trajs', 'StateTraj.index_trajs',
                                           'StateTraj.estimate_markov_model']),
           ('src/msmhelper/msm/msm.py', ['estimate_markov_model', '_estimate_markov_model'])]
RULE = ('each trajectory set x every applicable container form {list of ints, list of lists, 1-d array, 2-d array, list of arrays, list of arrays of MIXED '
        'signed widths (first array narrowest, >127 states included), StateTraj object} x dtypes int8..int64 (labels permitting) x {function, method}: '
        'all forms must give the single answer of the Lean model; plus a strictly increasing relabelling (incl. shifts making labels negative, e.g. '
        'x-2) and an arbitrary bijective relabelling: states / cored trajectories / pathways relabelled, matrices, waiting times and similarities unchanged '
        '(rows and columns permuted for bijections). Functions: estimate, coring, md waiting times / paths, similarity; Markov-chain propagation on '
        'deterministic (cyclic) models, where the chain is known without assumptions on the generator. Non-trivial = >=2 '
        'representations compared; distinct by (set, function, relabelling).')
RELATION = 'every representation of the same trajectories gives canon(real) = Lean model output; relabelled input gives the relabelled model output'
SUB = {'estimate': c01, 'coring': c05, 'md_wt': c06, 'md_paths': c06, 'compare': c13}


def _applicable_forms(trajs):
    forms = ['list_of_arrays', 'mixed_arrays', 'statetraj', 'narrow_arrays', 'per_array_narrow']
    if all(len(t) > 0 for t in trajs):
        forms.append('list_of_lists')
    if len(trajs) == 1:
        forms += ['list_of_ints', 'array1d']
    if len(set(map(len, trajs))) == 1 and len(trajs[0]) > 0:
        forms.append('array2d')
    return forms


def cases(tier, rng, boost=1):
    # corpus: mixed widths with the FIRST array narrower than a later one and > 127 contiguous states
    a = list(range(100)) * 2
    b = list(range(200)) + list(range(199, -1, -1))
    yield dict(c01._mk([a, b], 1, form='mixed_first_narrow', src='corpus', cls='zero'), fn='estimate', relabel=None, forms=['mixed_first_narrow', 'list_of_arrays'])
    yield dict(c06._mk('md_wt', [[-100, -1, 100, -1, -100, 100, 100, -1, -100]], [-100], [100], src='corpus'), fn='md_wt', relabel=None,
               forms=['narrow_arrays', 'list_of_lists', 'list_of_arrays'])
    yield dict(c01._mk([[-128, -2, 127, -2, -128, 127, 127, -2]], 1, src='corpus', cls='narrow_wide'), fn='estimate', relabel=None,
               forms=['narrow_arrays', 'list_of_arrays', 'list_of_lists'])
    for trajs, form, tag in gen.special_sets(core.Rng(17)):
        if form in ('per_array_narrow', 'narrow_arrays'):
            yield dict(c01._mk(trajs, 1, form=form, src='corpus', cls=tag), fn='estimate', relabel=None, forms=[form, 'list_of_arrays', 'list_of_lists'])
    # similarity with NARROW integer arrays and many state pairs (3 x 100 and 12 x 40 > 127, > 32767 / 100): index arithmetic carried out in the arrays' own
    # dtype would wrap; every representation must give the one model value
    srng = core.Rng(29)
    for n1_, n2_, N_ in ((3, 100, 600), (12, 40, 900), (2, 90, 400)):
        f1 = list(range(n1_)) + [srng.randrange(n1_) for _ in range(N_)]
        f2 = (list(range(n2_)) * (1 + len(f1) // n2_))[:len(f1)]
        srng.shuffle(f2)
        for m_ in (0, 1):
            yield dict(c13._mk([f1], [f2], m_, threads=3, src='corpus'), fn='compare', relabel=None, forms=['narrow_arrays', 'list_of_arrays', 'list_of_lists'])
            yield dict(c13._mk([[x + 1 for x in f2]], [[x + 1 for x in f1]], m_, threads=3, src='corpus'), fn='compare', relabel=None,
                       forms=['narrow_arrays', 'per_array_narrow', 'list_of_arrays'])
    # sampling functions on DETERMINISTIC models (cyclic trajectories: every row of T is a unit vector), so the chain is known without
    # any assumption on the generator: raw containers and a constructed object must give the same, correct chain — also when other data
    # of the same lag time were analysed just before in the same process
    drng = core.Rng(23)
    for k in range(16):
        p_ = drng.randint(2, 5)
        labs = sorted(drng.sample([x for x in range(-5, 40) if x != -1], p_))      # start=-1 is documented as "random start"
        order = labs[:]
        drng.shuffle(order)
        yield {'op': 'mcmc_det', 'fn': 'mcmc_det', 'cycle': order, 'reps': drng.randint(3, 6), 'lag': 1, 'steps': drng.randint(5, 40),
               'relabel': None, 'src': 'corpus-det', 'forms': ['list_of_lists', 'list_of_arrays', 'statetraj'], 'trajs': [order * 3]}
    n = {'quick': 150, 'thorough': 2000, 'search': 500}[tier] * boost
    for _ in range(n):
        ns = rng.randint(2, 6)
        labs, cls = gen.alphabet(rng, ns, cls=rng.choice(['zero', 'one', 'one', 'gapped', 'negative']))
        labs = sorted(labs)
        same_len = rng.random() < 0.3
        L = rng.randint(2, 20)
        idx = [gen.random_traj(rng, ns, L if same_len else rng.randint(1, 25), 0.6) for _ in range(rng.choice([1, 1, 2, 3]))]
        trajs = gen.relabel(idx, labs)
        occ = sorted({x for t in trajs for x in t})
        fn = rng.choice(['estimate', 'estimate', 'coring', 'md_wt', 'md_paths', 'compare'])
        rel = rng.choice([None, None, 'shift', 'monotone', 'bijective'])
        if rel == 'shift':
            k = rng.choice([-2, -1, 5, 100, -min(occ) - 1])
            fmap = {x: x + k for x in occ}
        elif rel == 'monotone':
            targets = sorted(rng.sample(range(-30, 60), len(occ)))
            fmap = dict(zip(occ, targets))
        elif rel == 'bijective':
            targets = rng.sample(range(-30, 60), len(occ))
            fmap = dict(zip(occ, targets))
        else:
            fmap = None
        tr = trajs if fmap is None else [[fmap[x] for x in t] for t in trajs]
        occ2 = sorted({x for t in tr for x in t})
        if fn == 'compare':
            other = [[(x * 5 + i) % 4 for i, x in enumerate(t)] for t in idx]          # a second labeling of the same frames
            if len(occ2) < 2 or len({x for t in other for x in t}) < 2:
                continue
            c = c13._mk(tr, other, rng.choice([0, 1]), threads=3)
        elif fn == 'estimate':
            c = c01._mk(tr, rng.choice([1, 2, 3]), cls=cls)
        elif fn == 'coring':
            c = c05._mk(tr, rng.randint(1, 4), rng.random() < 0.6)
        else:
            if len(occ2) < 2:
                continue
            S = [rng.choice(occ2)]
            F = [rng.choice([o for o in occ2 if o not in S])]
            c = c06._mk(fn, tr, S, F)
        yield dict(c, fn=fn, relabel=rel, forms=_applicable_forms(tr))


def _to_form(trajs, form, rng):
    if form == 'mixed_first_narrow':
        fit = gen.fitting_dtypes([trajs[0]])
        return [np.array(trajs[0], dtype=fit[0])] + [np.array(t, dtype=np.int64 if i % 2 else gen.fitting_dtypes([t])[0]) for i, t in enumerate(trajs[1:])]
    return gen.to_form(trajs, form, rng)


def _real_mcmc_det(case):
    import msmhelper as mh
    from msmhelper.msm import timescales as ts
    cyc = case['cycle']
    traj = cyc * case['reps']
    start = cyc[case['steps'] % len(cyc)]
    k0 = cyc.index(start)
    expected = [cyc[(k0 + i) % len(cyc)] for i in range(case['steps'])]
    res = {}
    for form in case['forms']:
        arg = gen.to_form([traj], form, core.Rng(3))
        try:
            chain = ts.propagate_MCMC(arg, case['lag'], case['steps'], start=start)
            res[form] = [int(x) for x in chain]
        except Exception as e:  # noqa
            res[form] = 'err:' + core.err_name(e)
    same = all(v == expected for v in res.values())
    return {'ok': {'expected': expected, 'by_form': res if not same else 'all-equal'}, 'forms_agree': same}


def real(case):
    """run the function once per form; all canonical results must coincide; return that single result (or the disagreement)"""
    if case['fn'] == 'mcmc_det':
        return _real_mcmc_det(case)
    sub = SUB[case['fn']]
    results = {}
    for form in case['forms']:
        c = dict(case, form=form)
        if form == 'mixed_first_narrow':
            import msmhelper as mh
            rng = core.Rng(1)
            arg = _to_form(case['trajs'], form, rng)

            def run():
                T, st = mh.msm.estimate_markov_model(arg, case['lag'])
                obj = mh.StateTraj(arg)
                if [t.tolist() for t in obj.trajs] != case['trajs']:
                    raise AssertionError('stored trajectories differ from the input')
                return c01.canon_model(T, st)
            r = core.call(run)
            r.pop('msg', None)
        else:
            r = sub.real(c)
        results[form] = r
    vals = list(results.values())
    first = vals[0]
    same = all(v == first for v in vals)
    out = dict(first)
    out['forms_agree'] = same
    if not same:
        out['by_form'] = {k: (v.get('err') or 'ok') for k, v in results.items()}
    return out


def request(case, obs):
    if case['fn'] == 'mcmc_det':
        return {'op': 'ping'}
    o = {k: v for k, v in obs.items() if k in ('ok', 'err')}
    return SUB[case['fn']].request(case, o)


def agree(case, obs, reply):
    if case['fn'] == 'mcmc_det':
        return bool(obs.get('forms_agree'))
    return obs.get('forms_agree', False) and SUB[case['fn']].agree(case, {k: v for k, v in obs.items() if k in ('ok', 'err')}, reply)


def holds(case, obs, reply):
    if case['fn'] == 'mcmc_det':
        return bool(obs.get('forms_agree'))
    return obs.get('forms_agree', False) and SUB[case['fn']].holds(case, {k: v for k, v in obs.items() if k in ('ok', 'err')}, reply)


def nontrivial(case, obs, reply):
    return len(case['forms']) >= 2


def key(case):
    if case['fn'] == 'mcmc_det':
        return ['mcmc_det', case['cycle'], case['reps'], case['steps']]
    return [case['fn'], case['relabel'], SUB[case['fn']].key(case)]


def classify(case, obs, reply):
    return '%s/%s/%dforms/%s' % (case['fn'], case['relabel'], len(case['forms']), 'agree' if obs.get('forms_agree') else 'DIFFER')


def known_match(k, case, obs, reply):
    return False
