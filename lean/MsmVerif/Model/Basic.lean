/-
Model/Basic.lean — shared executable definitions (core Lean only, no Mathlib).

Everything here mirrors `src/msmhelper/utils/_utils.py` and the constructor of
`StateTraj` (`src/msmhelper/statetraj.py`): distinct sorted labels (`np.unique`),
the lookup-table relabelling `shift_data`, and the three label→index branches.
-/
namespace MsmVerif

abbrev Traj := List Int
abbrev Trajs := List (List Int)

/-- Error kinds of the real code, as a small enum (messages are never compared). -/
inductive Err where
  | value | type | lagtime | index | notImplemented | file | assertion | other
  deriving DecidableEq, Repr, Inhabited

def Err.name : Err → String
  | .value => "ValueError" | .type => "TypeError" | .lagtime => "LagtimeError"
  | .index => "IndexError" | .notImplemented => "NotImplementedError"
  | .file => "FileError" | .assertion => "AssertionError" | .other => "Other"

/-! ### `np.unique` : ascending distinct labels -/

/-- insert into an ascending duplicate-free list -/
def insertSorted (x : Int) : List Int → List Int
  | [] => [x]
  | y :: ys =>
    if x < y then x :: y :: ys
    else if x = y then y :: ys
    else y :: insertSorted x ys

/-- `np.unique(l)` -/
def sortDedup (l : List Int) : List Int := l.foldr insertSorted []

/-- `mh.utils.unique(trajs)` : distinct labels over all trajectories, ascending -/
def states (ts : Trajs) : List Int := sortDedup ts.flatten

/-- number of occurrences, `np.unique(..., return_counts=True)[1]` -/
def counts (ts : Trajs) : List Nat := (states ts).map (fun s => ts.flatten.count s)

/-- rank of a label in the state list (`idxOf`; = length if absent) -/
def rank (ss : List Int) (x : Int) : Nat := ss.idxOf x

/-! ### `shift_data` : lookup table over offset-shifted values -/

def minimum? : List Int → Option Int
  | [] => none
  | x :: xs => some (xs.foldl min x)

def maximum? : List Int → Option Int
  | [] => none
  | x :: xs => some (xs.foldl max x)

/-- `astype(np.int32)` on an integer: wrap into the signed 32-bit range -/
def wrap32 (v : Int) : Int := (v + 2147483648) % 4294967296 - 2147483648

/-- python/numpy index normalisation for a table of length `n` : negative indices wrap once -/
def normIdx (n : Nat) (i : Int) : Option Nat :=
  if 0 ≤ i then (if i < n then some i.toNat else none)
  else if 0 ≤ i + n then some (i + n).toNat else none

/-- `conv[val_old] = val_new` : sequential assignment, later pairs win -/
def assignAll (conv : List Int) : List (Int × Int) → Option (List Int)
  | [] => some conv
  | (o, v) :: rest =>
    match normIdx conv.length o with
    | none => none
    | some k => assignAll (conv.set k v) rest

/-- `shift_data` on flattened data.  `old`/`new` are the value lists.
Raises `ValueError` for empty data / empty `new` (np.min of empty) and for lists of different
length, `IndexError` when an old value falls outside the lookup table. -/
def shiftFlat (data old new : List Int) : Except Err (List Int) :=
  match minimum? data, minimum? new, maximum? data with
  | some dmin, some nmin, some dmax =>
    if old.length ≠ new.length then .error .value else
    let off := min dmin nmin
    let conv0 : List Int := (List.range (dmax - off + 1).toNat).map (fun (i : Nat) => (i : Int))
    match assignAll conv0 ((old.map (· - off)).zip (new.map (· - off))) with
    | none => .error .index
    | some conv =>
      .ok (data.map (fun x => wrap32 (conv.getD (x - off).toNat 0) + off))
  | _, _, _ => .error .value

/-- restore the list-of-arrays structure from the lengths of the input (`np.split` at cumulative limits) -/
def unflatten : List Nat → List Int → Trajs
  | [], _ => []
  | n :: ns, l => l.take n :: unflatten ns (l.drop n)

/-- `shift_data` on a list of trajectories -/
def shiftTrajs (ts : Trajs) (old new : List Int) : Except Err Trajs :=
  (shiftFlat ts.flatten old new).map (unflatten (ts.map List.length))

/-! ### `StateTraj.__init__` : labels → index trajectories through three branches -/

/-- `np.array_equal(ss, np.arange(start, start + len ss))` -/
def isArange (start : Int) (ss : List Int) : Bool :=
  ss == (List.range ss.length).map (fun (i : Nat) => start + (i : Int))

structure StateTraj where
  /-- index trajectories (`_trajs`) -/
  idx : Trajs
  /-- ascending state labels (`_states`) -/
  sts : List Int
  deriving Repr, DecidableEq

/-- the constructor: branch 1 copy, branch 2 minus one, branch 3 `rename_by_index` via `shift_data` -/
def StateTraj.mk' (ts : Trajs) : Except Err StateTraj :=
  let ss := states ts
  if isArange 0 ss then .ok ⟨ts, ss⟩
  else if isArange 1 ss then .ok ⟨ts.map (·.map (· - 1)), ss⟩
  else
    (shiftTrajs ts ss ((List.range ss.length).map (fun (i : Nat) => (i : Int)))).map (fun r => ⟨r, ss⟩)

def StateTraj.nstates (s : StateTraj) : Nat := s.sts.length
def StateTraj.ntrajs (s : StateTraj) : Nat := s.idx.length
def StateTraj.nframes (s : StateTraj) : Nat := (s.idx.map List.length).sum

/-- `StateTraj.trajs` : index → label, again through three branches -/
def StateTraj.trajs (s : StateTraj) : Except Err Trajs :=
  if isArange 1 s.sts then .ok (s.idx.map (·.map (· + 1)))
  else if isArange 0 s.sts then .ok s.idx
  else shiftTrajs s.idx ((List.range s.sts.length).map (fun (i : Nat) => (i : Int))) s.sts

/-- label of an index (`states[i]`) -/
def labelOf (ss : List Int) (i : Int) : Int := ss.getD i.toNat 0

end MsmVerif
