/-
Props/C08.lean — property theorems for C08 (the two event loops of `msm/timescales.py` and the post-processing
`_estimate_times`).  Helper lemmas live in Lemmas/Events.lean.

Model of the code: `Events.msmWtLoop` (waiting-time loop + histogram), `Events.ttFrom`/`Events.msmTtLoop` (transition-time
loop), `Events.histInsert` (dictionary update), `Events.histList`, `Events.histDensity`.  `xs` is the realised chain
`x_0 … x_{steps-1}`; frames are read with `xs.getD i 0`.
-/
import MsmVerif.Lemmas.Events

namespace MsmVerif.C08
open MsmVerif MsmVerif.Events

/-! ### 1. the waiting-time loop is the histogram of the md events of the realised chain -/

/-- The msm waiting-time loop returns the insertion-order histogram of the durations `j - i` of the declarative
events (C06 spec) of the realised chain. -/
theorem wt_is_md_events (S F xs : List Int) :
    msmWtLoop S F xs = ((specEvents S F xs).map (fun e => e.2 - e.1)).foldl histInsert [] := by
  rw [msmWtLoop, events_eq_specEvents]

/-- Correctness of the dictionary-update fold: the histogram has an entry `(k, c)` iff `k` occurs in the list and
`c` is its number of occurrences. -/
theorem hist_correct (l : List Nat) (k c : Nat) :
    (k, c) ∈ l.foldl histInsert [] ↔ k ∈ l ∧ c = l.count k :=
  mem_hist_iff l k c

/-- Histogram keys are pairwise different … -/
theorem hist_keys_nodup (l : List Nat) : ((l.foldl histInsert []).map (·.1)).Nodup :=
  foldl_histInsert_nodup l [] (by simp)

/-- … and appear in order of first occurrence (insertion order of the Python/numba dict). -/
theorem hist_keys_order (l : List Nat) : (l.foldl histInsert []).map (·.1) = l.eraseDups := keys_hist l

/-- Spelled out for the waiting-time loop: duration `k` is stored with count `c` iff `c > 0` is the number of spec
events of the chain that last `k` steps. -/
theorem wt_hist (S F xs : List Int) (k c : Nat) :
    (k, c) ∈ msmWtLoop S F xs ↔
      k ∈ (specEvents S F xs).map (fun e => e.2 - e.1) ∧
      c = ((specEvents S F xs).map (fun e => e.2 - e.1)).count k := by
  rw [wt_is_md_events]; exact mem_hist_iff _ k c

example : msmWtLoop [1] [2] [0, 1, 1, 3, 2, 2, 1, 2, 1, 3, 3, 2] = [(3, 2), (1, 1)] := by decide

/-! ### 2. the transition-time loop follows the last-visit rule -/

/-- The transition-time loop lists `j - i` for a list `ps` of frame pairs `(i, j)`, strictly ordered in time
(`j < i'` for consecutive pairs), and `(i, j)` is among them exactly when: `x_i ∈ S`, `x_j ∈ F \ S`, `i < j`, and no
frame strictly between is in `S ∪ F` — so `i` is the LAST `S`-frame before `j`, and `j` the first `F`-frame after it.
Since a strictly ordered list is determined by its members, this characterises the output completely. -/
theorem tt_last_visit (S F xs : List Int) :
    ∃ ps : List (Nat × Nat),
      ttFrom S F {} 0 xs = ps.map (fun e => e.2 - e.1) ∧
      ps.Pairwise (fun e e' => e.2 < e'.1) ∧
      ∀ i j, (i, j) ∈ ps ↔
        (i < j ∧ j < xs.length ∧ xs.getD i 0 ∈ S ∧ xs.getD j 0 ∈ F ∧ xs.getD j 0 ∉ S ∧
          ∀ m, i < m → m < j → xs.getD m 0 ∉ S ∧ xs.getD m 0 ∉ F) := by
  refine ⟨ttPairsFrom S F {} 0 xs, ttFrom_eq_map S F {} 0 xs, ttPairsFrom_pairwise S F {} 0 xs, ?_⟩
  intro i j
  rw [(mem_ttPairsFrom S F xs xs 0 (by simp) i j).1 0]
  simp only [OpenHit, Nat.zero_le, true_and]
  constructor
  · rintro ⟨hS, h1, h2, h3, h4, h5⟩
    refine ⟨by omega, h2, by simpa using hS, by simpa using h3, by simpa using h4, ?_⟩
    intro m hm hmj
    have := h5 m (by omega) hmj
    simpa using this
  · rintro ⟨h1, h2, hS, h3, h4, h5⟩
    refine ⟨by simpa using hS, by omega, h2, by simpa using h3, by simpa using h4, ?_⟩
    intro m hm hmj
    have := h5 m (by omega) hmj
    simpa using this

/-- For disjoint `S`, `F` the side condition `x_j ∉ S` is automatic. -/
theorem tt_last_visit_disjoint (S F xs : List Int) (hd : ∀ x, x ∈ S → x ∉ F) :
    ∃ ps : List (Nat × Nat),
      ttFrom S F {} 0 xs = ps.map (fun e => e.2 - e.1) ∧
      ps.Pairwise (fun e e' => e.2 < e'.1) ∧
      ∀ i j, (i, j) ∈ ps ↔
        (i < j ∧ j < xs.length ∧ xs.getD i 0 ∈ S ∧ xs.getD j 0 ∈ F ∧
          ∀ m, i < m → m < j → xs.getD m 0 ∉ S ∧ xs.getD m 0 ∉ F) := by
  obtain ⟨ps, h1, h2, h3⟩ := tt_last_visit S F xs
  refine ⟨ps, h1, h2, ?_⟩
  intro i j
  rw [h3]
  constructor
  · rintro ⟨a, b, c, d, _, f⟩; exact ⟨a, b, c, d, f⟩
  · rintro ⟨a, b, c, d, f⟩; exact ⟨a, b, c, d, fun hS => hd _ hS d, f⟩

example : ∀ x : Int, x ∈ ([1, 4] : List Int) → x ∉ ([2] : List Int) := by
  intro x hx; simp at hx; rcases hx with rfl | rfl <;> decide

/-- The emitted transition times, weakest useful form: each is `j - i` for such a pair. -/
theorem tt_sound (S F xs : List Int) (d : Nat) (hd : d ∈ ttFrom S F {} 0 xs) :
    ∃ i j, d = j - i ∧ i < j ∧ j < xs.length ∧ xs.getD i 0 ∈ S ∧ xs.getD j 0 ∈ F ∧
      ∀ m, i < m → m < j → xs.getD m 0 ∉ S ∧ xs.getD m 0 ∉ F := by
  obtain ⟨ps, h1, _, h3⟩ := tt_last_visit S F xs
  rw [h1] at hd
  obtain ⟨⟨i, j⟩, he, rfl⟩ := List.mem_map.mp hd
  obtain ⟨a, b, c, d, _, f⟩ := (h3 i j).mp he
  exact ⟨i, j, rfl, a, b, c, d, f⟩

/-- the transition-time histogram -/
theorem tt_hist (S F xs : List Int) (k c : Nat) :
    (k, c) ∈ msmTtLoop S F xs ↔ k ∈ ttFrom S F {} 0 xs ∧ c = (ttFrom S F {} 0 xs).count k :=
  mem_hist_iff _ k c

example : ttFrom [1] [2] {} 0 [0, 1, 3, 1, 3, 2, 2, 1, 2] = [2, 1] ∧
    events [1] [2] [0, 1, 3, 1, 3, 2, 2, 1, 2] = [(1, 5), (7, 8)] := by decide

/-! ### 3. `return_list=True` -/

/-- The returned list is sorted ascending … -/
theorem list_sorted (h : List (Nat × Nat)) (lag : Nat) : (histList h lag).Pairwise (· ≤ ·) :=
  histList_pairwise h lag

/-- … and is a permutation of the expansion of the histogram (`np.repeat(keys, values)`) times the lag time. -/
theorem list_perm (h : List (Nat × Nat)) (lag : Nat) :
    (histList h lag).Perm (((h.map (fun e => List.replicate e.2 e.1)).flatten).map (· * lag)) :=
  histList_perm h lag

/-- Each time `k * lag` hence occurs as often as the histogram says (for `lag > 0`). -/
theorem list_count (h : List (Nat × Nat)) (lag k : Nat) (hlag : 0 < lag) :
    (histList h lag).count (k * lag) = ((h.filter (fun e => e.1 == k)).map (·.2)).sum := by
  exact histList_count h lag k hlag

example : histList [(3, 2), (1, 1)] 5 = [5, 15, 15] := by
  simp [histList, List.mergeSort]

/-! ### 4. `return_list=False` : density and edges -/

/-- Shape of the result: `K + 1` bins for keys `0..K` (`K` the largest key) and `K + 2` edges `0, lag, …, (K+1)·lag`. -/
theorem density_shape (h : List (Nat × Nat)) (lag : Nat) :
    (histDensity h lag).1.length + 1 = (histDensity h lag).2.length ∧
    (histDensity h lag).2 = (List.range ((h.map (·.1)).foldl max 0 + 2)).map (· * lag) ∧
    ∀ e ∈ h, e.1 + 1 < (histDensity h lag).2.length := by
  rw [histDensity_eq]
  refine ⟨by simp [pts], rfl, ?_⟩
  intro e he
  have := le_maxKey h e he
  simp only [List.length_map, List.length_range]
  omega

/-- Each bin: `dens[k] * lag = (count stored for k) / (total count)`, for every `k ≤ K`. -/
theorem density_bin (h : List (Nat × Nat)) (lag k : Nat) (hlag : 0 < lag) (hk : k ≤ (h.map (·.1)).foldl max 0) :
    ((histDensity h lag).1)[k]?.map (· * (lag : Rat)) =
      some ((((h.filter (fun e => e.1 == k)).map (·.2)).sum : Nat) / (((h.map (·.2)).sum : Nat) : Rat)) := by
  rw [histDensity_eq, sum_pts]
  simp only [List.getElem?_map, pts]
  rw [List.getElem?_range (by show k < maxKey h + 1; unfold maxKey; omega)]
  simp only [Option.map_some]
  rw [density_mul_lag _ _ _ hlag]
  rfl

/-- With duplicate-free keys the stored count is the dictionary value itself. -/
theorem density_bin_of_mem (h : List (Nat × Nat)) (lag k c : Nat) (hlag : 0 < lag)
    (hn : (h.map (·.1)).Nodup) (hm : (k, c) ∈ h) :
    ((histDensity h lag).1)[k]?.map (· * (lag : Rat)) = some ((c : Rat) / (((h.map (·.2)).sum : Nat) : Rat)) := by
  rw [density_bin h lag k hlag (le_maxKey h (k, c) hm)]
  have := cnt_of_mem h k c hn hm
  unfold cnt at this
  rw [this]

/-- The density integrates to one: `Σ_k dens[k] · lag = 1` whenever the histogram is non-empty (total count `> 0`)
and `lag > 0`. -/
theorem density (h : List (Nat × Nat)) (lag : Nat) (hlag : 0 < lag) (htot : 0 < (h.map (·.2)).sum) :
    (((histDensity h lag).1).map (· * (lag : Rat))).sum = 1 := by
  rw [histDensity_eq, sum_map_mul_right_rat, sum_map_cast_div, sum_pts]
  exact density_total _ _ htot hlag

example : (([(3, 2), (1, 1)] : List (Nat × Nat)).map (·.1)).Nodup ∧ 0 < (([(3, 2), (1, 1)] : List (Nat × Nat)).map (·.2)).sum := by
  decide

end MsmVerif.C08
