/-
Refine/TimesLemmas.lean — helper lemmas for task RP11 (property C08): runtime primitives (`npUnique`, `npSortInt`,
`npWhere1`, `npRepeat`, `npMaxInt`, `pySet` loop), the translated `state_to_idx`, and the decomposition of the two
translated forms of `_estimate_times` into a shared front end and a result-form specific tail.
-/
import MsmVerif.Gen.MsmTimes
import MsmVerif.Refine.Compare
import MsmVerif.Lemmas.Events
open MsmVerif MsmVerif.Gen

namespace MsmVerif.Refine.Times

/-! ### runtime = model -/

theorem npInsertUnique_eq (x : Int) (l : List Int) : npInsertUnique x l = insertSorted x l := by
  induction l with
  | nil => rfl
  | cons y ys ih => simp only [npInsertUnique, insertSorted, ih]

theorem npUnique_eq (v : List Int) : npUnique v = sortDedup v := by
  induction v with
  | nil => rfl
  | cons x xs ih =>
    show npInsertUnique x (npUnique xs) = insertSorted x (sortDedup xs)
    rw [ih, npInsertUnique_eq]

theorem npInsertSorted_perm (x : Int) (l : List Int) : (npInsertSorted x l).Perm (x :: l) := by
  induction l with
  | nil => exact List.Perm.refl _
  | cons y ys ih =>
    simp only [npInsertSorted]
    split
    · exact List.Perm.refl _
    · exact ((List.Perm.cons y ih).trans (List.Perm.swap x y ys))

theorem npInsertSorted_pairwise (x : Int) (l : List Int) (h : l.Pairwise (· ≤ ·)) :
    (npInsertSorted x l).Pairwise (· ≤ ·) := by
  induction l with
  | nil => simp [npInsertSorted]
  | cons y ys ih =>
    have h' := List.pairwise_cons.mp h
    simp only [npInsertSorted]
    split
    · rename_i hxy
      refine List.pairwise_cons.mpr ⟨?_, h⟩
      intro z hz
      rcases List.mem_cons.mp hz with rfl | hz
      · exact hxy
      · have := h'.1 z hz; omega
    · rename_i hxy
      refine List.pairwise_cons.mpr ⟨?_, ih h'.2⟩
      intro z hz
      rcases List.mem_cons.mp ((npInsertSorted_perm x ys).subset hz) with rfl | hz
      · omega
      · exact h'.1 z hz

theorem npSortInt_pairwise (v : List Int) : (npSortInt v).Pairwise (· ≤ ·) := by
  induction v with
  | nil => simp [npSortInt]
  | cons x xs ih => exact npInsertSorted_pairwise x _ ih

theorem npSortInt_perm (v : List Int) : (npSortInt v).Perm v := by
  induction v with
  | nil => exact List.Perm.refl _
  | cons x xs ih => exact (npInsertSorted_perm x _).trans (List.Perm.cons x ih)

/-- an ascending permutation of `v` is `np.sort(v)` -/
theorem eq_npSortInt_of_sorted_perm (l v : List Int) (hs : l.Pairwise (· ≤ ·)) (hp : l.Perm v) :
    npSortInt v = l :=
  List.Perm.eq_of_pairwise (le := (· ≤ ·)) (fun _ _ _ _ h1 h2 => Int.le_antisymm h1 h2)
    (npSortInt_pairwise v) hs ((npSortInt_perm v).trans hp.symm)

theorem npSortInt_natCast (l : List Nat) :
    npSortInt (l.map Int.ofNat) = (l.mergeSort (· ≤ ·)).map Int.ofNat := by
  apply eq_npSortInt_of_sorted_perm
  · rw [List.pairwise_map]
    have := List.pairwise_mergeSort (le := fun (a b : Nat) => decide (a ≤ b))
      (by intro a b c h1 h2; simp at *; omega) (by intro a b; simp; omega) l
    refine this.imp ?_
    intro a b h
    simp at h
    show (a : Int) ≤ (b : Int)
    omega
  · exact (List.mergeSort_perm l _).map _

theorem npWhere1_nil : npWhere1 [] = [] := rfl

theorem npWhere1_cons (b : Bool) (bs : List Bool) :
    npWhere1 (b :: bs) = (if b then [0] else []) ++ (npWhere1 bs).map (· + 1) := by
  unfold npWhere1
  rw [List.length_cons, List.range_succ_eq_map, List.filter_cons, List.filter_map]
  cases b <;> simp [Function.comp_def]

/-- the first `True` position of `ss == x` is `idxOf x`; there is none iff `x ∉ ss` -/
theorem npWhere1_eq_head (ss : List Int) (x : Int) :
    (npWhere1 (ss.map (fun y => y == x))).head? = if x ∈ ss then some ((ss.idxOf x : Nat) : Int) else none := by
  induction ss with
  | nil => rfl
  | cons y ys ih =>
    rw [List.map_cons, npWhere1_cons]
    by_cases hyx : y = x
    · subst hyx
      simp
    · have h1 : (y == x) = false := by simpa using hyx
      rw [h1]
      simp only [Bool.false_eq_true, if_false, List.nil_append, List.head?_map, ih]
      have h2 : (x ∈ y :: ys) ↔ x ∈ ys := by
        simp only [List.mem_cons]
        constructor
        · rintro (h | h)
          · exact absurd h.symm hyx
          · exact h
        · exact Or.inr
      by_cases hx : x ∈ ys
      · rw [if_pos hx, if_pos (h2.mpr hx), List.idxOf_cons, h1]
        simp
      · rw [if_neg hx, if_neg (fun h => hx (h2.mp h))]
        rfl

theorem state_to_idx_eq (ss : List Int) (x : Int) :
    Gen.StateTrajBase.state_to_idx ss x = if x ∈ ss then .ok ((rank ss x : Nat) : Int) else .error .value := by
  have h := npWhere1_eq_head ss x
  unfold Gen.StateTrajBase.state_to_idx
  simp only []
  generalize npWhere1 (ss.map (fun y => y == x)) = idx at h
  cases idx with
  | nil =>
    by_cases hx : x ∈ ss
    · rw [if_pos hx] at h; simp at h
    · rw [if_neg hx]; rfl
  | cons a rest =>
    by_cases hx : x ∈ ss
    · rw [if_pos hx] at h
      simp only [List.head?_cons, Option.some.injEq] at h
      rw [if_pos hx, h]
      have : (pyLen (((ss.idxOf x : Nat) : Int) :: rest) == 0) = false := by
        simp [pyLen]; omega
      rw [this]
      simp [pyGet, normIdx, rank]
    · rw [if_neg hx] at h; simp at h

/-- the validation / index-conversion front end shared by both result forms of `_estimate_times` -/
def front (ss S F : List Int) : Py (List Int × List Int) := do
  let t2 ← Gen.MdComparison.intersect ((npUnique S).length + (npUnique F).length + 1) (npUnique S) (npUnique F)
  if (t2 != (0 : Int)) then
    throw Err.value
  for states in [npUnique S, npUnique F] do
    let t3 ← Gen.MdComparison.intersect ((states).length + (ss).length + 1) states ss
    if (t3 != (pyLen states)) then
      throw Err.value
  let t5 ← (npUnique S).mapM (fun state => Gen.StateTrajBase.state_to_idx ss state)
  let t7 ← (npUnique F).mapM (fun state => Gen.StateTrajBase.state_to_idx ss state)
  return (t5, t7)

/-- `np.sort(np.repeat(keys, values)) * lagtime` as translated -/
def listTail (lag : Int) (ts : PyDict) : Py (List Int) := do
  let t11 ← npRepeat ((ts).map (fun p_ => p_.1)) ((ts).map (fun p_ => p_.2))
  return (((npSortInt t11)).map (fun x_ => x_ * lag))

theorem list_unfold (ec : (List Int) → Py Int) (eg : Int → Py ((List (List Rat)) × (List (List Int)))) (ee : ((List (List Rat)) × (List (List Int))) → Int → (List Int) → (List Int) → Int → Py PyDict)
    (ss : List Int) (lag : Int) (S F : List Int) (steps : Int) (jit : Bool) :
    Gen.MsmTimes.estimate_times_list ec eg ee ss lag S F steps jit =
      (do let p ← front ss S F
          let c ← ec p.2
          let cm ← eg lag
          let d ← ee cm c p.1 p.2 steps
          listTail lag d) := by
  unfold Gen.MsmTimes.estimate_times_list front listTail
  cases jit <;> simp only [bind_assoc] <;> refine bind_congr (fun t2 => ?_) <;> split <;>
    first
      | rfl
      | (simp only [bind_assoc, pure_bind, Bool.not_false, Bool.not_true, if_true, Bool.false_eq_true, if_false])

/-- `[state_to_idx(s) for s in states]` -/
def idxs (ss states : List Int) : List Int := states.map (fun x => ((rank ss x : Nat) : Int))

theorem mapM_state_to_idx_ok (ss l : List Int) (h : ∀ x ∈ l, x ∈ ss) :
    l.mapM (fun s => Gen.StateTrajBase.state_to_idx ss s) = .ok (idxs ss l) := by
  induction l with
  | nil => rfl
  | cons x xs ih =>
    rw [List.mapM_cons, state_to_idx_eq, if_pos (h x List.mem_cons_self), ih (fun y hy => h y (List.mem_cons_of_mem _ hy))]
    rfl

/-- one round of the existence check `intersect(states, trajs.states) != len(states)` -/
theorem check_round (ss A : List Int) (hss : ss.Pairwise (· < ·)) (hA : A.Pairwise (· < ·)) :
    (do let t3 ← Gen.MdComparison.intersect (A.length + ss.length + 1) A ss
        if (t3 != pyLen A) = true then do
          throw Err.value
          pure (ForInStep.yield PUnit.unit)
        else pure (ForInStep.yield PUnit.unit) : Py (ForInStep PUnit))
      = if ∀ x ∈ A, x ∈ ss then .ok (ForInStep.yield PUnit.unit) else .error .value := by
  rw [Compare.intersect_refines A ss _ (by omega)]
  have h := Events.intersect_eq_length_iff A ss hA hss
  by_cases hc : ∀ x ∈ A, x ∈ ss
  · rw [if_pos hc]
    have : Events.intersect A ss = A.length := h.mpr hc
    simp [bind, Except.bind, pyLen, this]
    rfl
  · rw [if_neg hc]
    have : Events.intersect A ss ≠ A.length := fun e => hc (h.mp e)
    have h2 : ((Events.intersect A ss : Nat) : Int) ≠ (A.length : Int) := by omega
    simp [bind, Except.bind, pyLen, h2]
    rfl


/-! ### the front end evaluated -/

theorem natCast_bne_zero (n : Nat) : (((n : Nat) : Int) != 0) = (n != 0) := by
  rw [Bool.eq_iff_iff]; simp

theorem front_ok (ss S F : List Int) (hss : ss.Pairwise (· < ·)) (hd : ∀ x ∈ S, x ∉ F)
    (hS : ∀ x ∈ S, x ∈ ss) (hF : ∀ x ∈ F, x ∈ ss) :
    front ss S F = .ok (idxs ss (sortDedup S), idxs ss (sortDedup F)) := by
  have pS := Events.pairwise_sortDedup S
  have pF := Events.pairwise_sortDedup F
  have hS' : ∀ x ∈ sortDedup S, x ∈ ss := fun x hx => hS x ((Events.mem_sortDedup S x).mp hx)
  have hF' : ∀ x ∈ sortDedup F, x ∈ ss := fun x hx => hF x ((Events.mem_sortDedup F x).mp hx)
  have h0 : Events.intersect (sortDedup S) (sortDedup F) = 0 :=
    (Events.intersect_eq_zero_iff _ _ pS pF).mpr
      (fun x hx hx' => hd x ((Events.mem_sortDedup S x).mp hx) ((Events.mem_sortDedup F x).mp hx'))
  unfold front
  rw [npUnique_eq S, npUnique_eq F, Compare.intersect_refines _ _ _ (by omega), h0]
  simp only [List.forIn_cons, List.forIn_nil]
  rw [check_round ss _ hss pS, check_round ss _ hss pF, if_pos hS', if_pos hF',
    mapM_state_to_idx_ok ss _ hS', mapM_state_to_idx_ok ss _ hF']
  rfl

theorem front_bad (ss S F : List Int) (hss : ss.Pairwise (· < ·))
    (h : (∃ x, x ∈ S ∧ x ∈ F) ∨ (∃ x ∈ S ++ F, x ∉ ss)) :
    front ss S F = .error .value := by
  have pS := Events.pairwise_sortDedup S
  have pF := Events.pairwise_sortDedup F
  unfold front
  rw [npUnique_eq S, npUnique_eq F, Compare.intersect_refines _ _ _ (by omega)]
  by_cases h0 : Events.intersect (sortDedup S) (sortDedup F) = 0
  · have hd : ∀ x ∈ S, x ∉ F := fun x hx hx' =>
      (Events.intersect_eq_zero_iff _ _ pS pF).mp h0 x ((Events.mem_sortDedup S x).mpr hx)
        ((Events.mem_sortDedup F x).mpr hx')
    rcases h with ⟨x, hx, hx'⟩ | ⟨x, hx, hxs⟩
    · exact absurd hx' (hd x hx)
    · rw [h0]
      simp only [List.forIn_cons, List.forIn_nil]
      rw [check_round ss _ hss pS, check_round ss _ hss pF]
      by_cases hS' : ∀ x ∈ sortDedup S, x ∈ ss
      · have hF' : ¬ ∀ x ∈ sortDedup F, x ∈ ss := by
          intro hF'
          rcases List.mem_append.mp hx with hx | hx
          · exact hxs (hS' x ((Events.mem_sortDedup S x).mpr hx))
          · exact hxs (hF' x ((Events.mem_sortDedup F x).mpr hx))
        rw [if_pos hS', if_neg hF']
        rfl
      · rw [if_neg hS']
        rfl
  · have : ((((Events.intersect (sortDedup S) (sortDedup F) : Nat) : Int)) != 0) = true := by
      rw [natCast_bne_zero]; simpa using h0
    simp only [bind, Except.bind, this]
    rfl

/-! ### list form of the tail -/

/-- a model histogram (natural keys and counts) as the dictionary the compiled event loop returns; the same term as
`Refine.Mcmc.histI` -/
def dictI (h : List (Nat × Nat)) : PyDict := h.map (fun e => ((e.1 : Int), (e.2 : Int)))

theorem zip_fst_snd {α β : Type} (l : List (α × β)) : (l.map (·.1)).zip (l.map (·.2)) = l := by
  induction l with
  | nil => rfl
  | cons x xs ih => simp [ih]

theorem npRepeat_dictI (d : List (Nat × Nat)) :
    npRepeat ((dictI d).map (fun p_ => p_.1)) ((dictI d).map (fun p_ => p_.2))
      = .ok (((d.map (fun e => List.replicate e.2 e.1)).flatten).map Int.ofNat) := by
  unfold npRepeat
  rw [if_neg (by simp), if_neg (by simp [dictI])]
  rw [zip_fst_snd]
  congr 1
  induction d with
  | nil => rfl
  | cons e r ih =>
    simp only [dictI, List.map_cons, List.flatten_cons, List.map_append] at ih ⊢
    rw [ih]
    simp

/-- list form of the tail: sorted durations × lag time -/
theorem listTail_eq (lag : Nat) (d : List (Nat × Nat)) :
    listTail (lag : Int) (dictI d) = .ok ((Events.histList d lag).map Int.ofNat) := by
  unfold listTail
  rw [npRepeat_dictI]
  show Except.ok _ = _
  rw [npSortInt_natCast]
  unfold Events.histList
  simp only [List.map_map]
  rfl

/-- list form of the tail for an arbitrary integer lag time: the sorted durations, each multiplied by the lag time -/
theorem listTail_eq_int (lag : Int) (d : List (Nat × Nat)) :
    listTail lag (dictI d) = .ok (((Events.histList d 1).map Int.ofNat).map (· * lag)) := by
  unfold listTail
  rw [npRepeat_dictI]
  show Except.ok _ = _
  rw [npSortInt_natCast]
  unfold Events.histList
  simp only [List.map_map, Nat.mul_one]
  rfl

/-! ### histogram form of the tail -/

/-- density and edges of the histogram form as translated -/
def histTail (lag : Int) (ts : PyDict) : Py ((List Rat) × (List Int)) := do
  let t11 ← npMaxInt ((ts).map (fun p_ => p_.1))
  let mut maxtime : Int := t11
  let mut pts : List Rat := (pyFull1 (maxtime + (1 : Int)) (0 : Rat))
  for (time, count) in ts do
    pts ← pySet pts time ((count : Int) : Rat)
  return (((pts).map (fun x_ => x_ / ((npSum1 pts) * ((lag : Int) : Rat)))), (((npArange 0 ((pyLen pts) + (1 : Int)))).map (fun x_ => x_ * lag)))

theorem hist_unfold (ec : (List Int) → Py Int) (eg : Int → Py ((List (List Rat)) × (List (List Int)))) (ee : ((List (List Rat)) × (List (List Int))) → Int → (List Int) → (List Int) → Int → Py PyDict)
    (ss : List Int) (lag : Int) (S F : List Int) (steps : Int) (jit : Bool) :
    Gen.MsmTimes.estimate_times_hist ec eg ee ss lag S F steps jit =
      (do let p ← front ss S F
          let c ← ec p.2
          let cm ← eg lag
          let d ← ee cm c p.1 p.2 steps
          histTail lag d) := by
  unfold Gen.MsmTimes.estimate_times_hist front histTail
  cases jit <;> simp only [bind_assoc] <;> refine bind_congr (fun t2 => ?_) <;> split <;>
    first
      | rfl
      | (simp only [bind_assoc, pure_bind, Bool.not_false, Bool.not_true, if_true, Bool.false_eq_true, if_false])

theorem foldl_max_natCast (l : List Nat) (a : Nat) :
    (l.map (fun (k : Nat) => (k : Int))).foldl max (a : Int) = ((l.foldl max a : Nat) : Int) := by
  induction l generalizing a with
  | nil => rfl
  | cons x xs ih =>
    rw [List.map_cons, List.foldl_cons, List.foldl_cons, ← ih]
    congr 1
    omega

/-- the largest key -/
def maxKey (d : List (Nat × Nat)) : Nat := (d.map (·.1)).foldl max 0

theorem npMaxInt_dictI (d : List (Nat × Nat)) (hne : d ≠ []) :
    npMaxInt ((dictI d).map (fun p_ => p_.1)) = .ok ((maxKey d : Nat) : Int) := by
  cases d with
  | nil => exact absurd rfl hne
  | cons e r =>
    have := foldl_max_natCast (r.map (·.1)) e.1
    simp only [dictI, List.map_cons, List.map_map, npMaxInt, maxKey, List.foldl_cons, Nat.zero_max] at this ⊢
    rw [← this]
    rfl

theorem le_foldl_max (l : List Nat) (a : Nat) : a ≤ l.foldl max a ∧ ∀ x ∈ l, x ≤ l.foldl max a := by
  induction l generalizing a with
  | nil => simp
  | cons y ys ih =>
    have h := ih (max a y)
    simp only [List.foldl_cons]
    refine ⟨by omega, ?_⟩
    intro x hx
    rcases List.mem_cons.mp hx with rfl | hx
    · omega
    · exact h.2 x hx

theorem key_le_maxKey (d : List (Nat × Nat)) (e : Nat × Nat) (he : e ∈ d) : e.1 ≤ maxKey d := by
  unfold maxKey
  exact (le_foldl_max (d.map (·.1)) 0).2 e.1 (List.mem_map.mpr ⟨e, he, rfl⟩)

/-- the loop `pts[time] = count` over the dictionary items -/
theorem set_loop (f : Int × Int → List Rat → Py (ForInStep (List Rat)))
    (hf : ∀ t c s, f (t, c) s = (do let p ← pySet s t ((c : Int) : Rat); pure (ForInStep.yield p)))
    (l : List (Nat × Nat)) (pts : List Rat) (h : ∀ e ∈ l, e.1 < pts.length) :
    forIn (dictI l) pts f = .ok (l.foldl (fun acc e => acc.set e.1 ((e.2 : Nat) : Rat)) pts) := by
  induction l generalizing pts with
  | nil => rfl
  | cons e r ih =>
    have he := h e List.mem_cons_self
    simp only [dictI, List.map_cons, List.forIn_cons, hf, List.foldl_cons]
    have : pySet pts (e.1 : Int) (((e.2 : Nat) : Int) : Rat) = .ok (pts.set e.1 ((e.2 : Nat) : Rat)) := by
      unfold pySet normIdx
      rw [if_pos (by omega), if_pos (by omega)]
      simp
    rw [this]
    simp only [bind, Except.bind, pure, Except.pure]
    exact ih _ (by intro e' he'; rw [List.length_set]; exact h e' (List.mem_cons_of_mem _ he'))

theorem foldl_set_length (l : List (Nat × Nat)) (pts : List Rat) :
    (l.foldl (fun acc e => acc.set e.1 ((e.2 : Nat) : Rat)) pts).length = pts.length := by
  induction l generalizing pts with
  | nil => rfl
  | cons e r ih => rw [List.foldl_cons, ih, List.length_set]

theorem foldl_set_getElem? (l : List (Nat × Nat)) (pts : List Rat) (hn : (l.map (·.1)).Nodup)
    (h : ∀ e ∈ l, e.1 < pts.length) (k : Nat) :
    (l.foldl (fun acc e => acc.set e.1 ((e.2 : Nat) : Rat)) pts)[k]?
      = if k ∈ l.map (·.1) then some ((Events.cnt l k : Nat) : Rat) else pts[k]? := by
  induction l generalizing pts with
  | nil => simp
  | cons e r ih =>
    rw [List.map_cons, List.nodup_cons] at hn
    have he := h e List.mem_cons_self
    rw [List.foldl_cons, ih _ hn.2 (by intro e' he'; rw [List.length_set]; exact h e' (List.mem_cons_of_mem _ he')),
      Events.cnt_cons]
    by_cases hk : e.1 = k
    · subst hk
      rw [if_neg hn.1, if_pos (by simp), if_pos rfl, Events.cnt_of_not_mem r _ hn.1]
      simp [he]
    · rw [if_neg hk, Nat.zero_add, List.getElem?_set_ne hk]
      have : (k ∈ List.map (·.1) (e :: r)) ↔ k ∈ List.map (·.1) r := by
        rw [List.map_cons, List.mem_cons]
        constructor
        · rintro (h1 | h1)
          · exact absurd h1.symm hk
          · exact h1
        · exact Or.inr
      by_cases hm : k ∈ List.map (·.1) r
      · rw [if_pos hm, if_pos (this.mpr hm)]
      · rw [if_neg hm, if_neg (fun h1 => hm (this.mp h1))]

/-- the filled array `pts` of the model -/
def modelPts (d : List (Nat × Nat)) : List Nat := (List.range (maxKey d + 1)).map (fun k => Events.cnt d k)

theorem foldl_set_eq (d : List (Nat × Nat)) (hn : (d.map (·.1)).Nodup) :
    d.foldl (fun acc e => acc.set e.1 ((e.2 : Nat) : Rat)) (List.replicate (maxKey d + 1) (0 : Rat))
      = (modelPts d).map (fun (c : Nat) => (c : Rat)) := by
  apply List.ext_getElem?
  intro k
  rw [foldl_set_getElem? d _ hn (by intro e he; rw [List.length_replicate]; have := key_le_maxKey d e he; omega)]
  unfold modelPts
  rw [List.map_map, List.getElem?_map, List.getElem?_replicate]
  by_cases hk : k < maxKey d + 1
  · rw [if_pos hk, List.getElem?_range hk]
    by_cases hm : k ∈ d.map (·.1)
    · rw [if_pos hm]; rfl
    · rw [if_neg hm]
      simp only [Option.map_some, Function.comp_apply, Events.cnt_of_not_mem d k hm]
      rfl
  · rw [if_neg hk, List.getElem?_eq_none (by simp; omega)]
    have : k ∉ d.map (·.1) := by
      intro hm
      obtain ⟨e, he, rfl⟩ := List.mem_map.mp hm
      have := key_le_maxKey d e he
      omega
    rw [if_neg this]; rfl


theorem sum_natCast (l : List Nat) : (l.map (fun (c : Nat) => (c : Rat))).sum = ((l.sum : Nat) : Rat) := by
  induction l with
  | nil => simp
  | cons x xs ih => rw [List.map_cons, List.sum_cons, List.sum_cons, ih]; push_cast; rfl

theorem histDensity_eq (d : List (Nat × Nat)) (lag : Nat) :
    Events.histDensity d lag =
      ((modelPts d).map (fun (c : Nat) => (c : Rat) / (((modelPts d).sum : Nat) * (lag : Rat))),
        (List.range (maxKey d + 2)).map (· * lag)) := rfl

theorem histTail_eq (lag : Nat) (d : List (Nat × Nat)) (hne : d ≠ []) (hn : (d.map (·.1)).Nodup) :
    histTail (lag : Int) (dictI d)
      = .ok ((Events.histDensity d lag).1, (Events.histDensity d lag).2.map Int.ofNat) := by
  unfold histTail
  rw [npMaxInt_dictI d hne]
  simp only [bind, Except.bind]
  have hfull : pyFull1 (((maxKey d : Nat) : Int) + 1) (0 : Rat) = List.replicate (maxKey d + 1) 0 := by
    unfold pyFull1
    congr 1
  rw [hfull, set_loop _ (fun _ _ _ => rfl) d _
    (by intro e he; rw [List.length_replicate]; have := key_le_maxKey d e he; omega), foldl_set_eq d hn]
  rw [histDensity_eq]
  simp only [pure, Except.pure, npSum1, sum_natCast, List.map_map]
  congr 2
  unfold npArange pyRange pyLen modelPts
  simp only [List.length_map, List.length_range, List.map_map]
  have : (((maxKey d + 1 : Nat) : Int) + 1 - 0).toNat = maxKey d + 2 := by omega
  rw [this]
  apply List.map_congr_left
  intro k _
  simp

theorem histTail_nil (lag : Int) : histTail lag [] = .error .value := rfl

end MsmVerif.Refine.Times
