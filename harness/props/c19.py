"""C19 — command-line tools produce exactly what the API yields on the same files."""
import os
import tempfile

import numpy as np

import core
import gen

PID = 'C19'
ANCHORS = [('src/msmhelper/_cli/dynamical_coring.py', ['dynamical_coring']), ('src/msmhelper/_cli/gaussian_filter.py', ['gaussian_filtering']),
           ('src/msmhelper/_cli/compare_discretization.py', ['compare_discretization']), ('src/msmhelper/plot/_ck_test.py', ['_split_array']),
           ('src/msmhelper/io.py', ['opentxt', 'savetxt', 'opentxt_limits', 'openmicrostates', 'open_limits'])]
RULE = ('real commands through click.testing.CliRunner on generated files: dynamical-coring (1-4 trajectories of different lengths via a limits file, '
        'states that are cored away completely, tcor 1-6, default and explicit output name), gaussian-filtering (1-4 columns, 1-3 trajectories, '
        'sigma 1-5), compare-discretization (both methods); outputs are read back and compared with the API on the loaded data and, for coring, with '
        'the Lean file-plumbing model (per-piece iterative reference coring); _split_array for every length < 30 and chunk size < 10. '
        'Non-trivial = >=2 limits pieces or >=2 columns (commands), a remainder chunk (chunking); distinct by (command, file content, options).')
RELATION = 'CLI output file / stdout = API result on the loaded data; cored file = TextIO.cliCoring with Coring.refSet per limits piece; _split_array = TextIO.chunks'
PARTIAL = 'Gaussian values come from the API (C20 models them); figure rendering is not modelled, figure commands only through _split_array'
TRUSTED = ['click option parsing is executed, not modelled']


def _mk(kind, **kw):
    d = {'op': kind, 'src': 'rand'}
    d.update(kw)
    return d


def cases(tier, rng, boost=1):
    for n in range(0, 30 if tier != 'quick' else 16):
        for c in range(1, 10 if tier != 'quick' else 6):
            yield _mk('chunks', n=n, c=c, src='enum')
    # corpus: a state that is cored away completely (labels above it must not shift)
    yield _mk('coring', trajs=[[1, 1, 1, 2, 1, 1, 3, 3, 3, 2, 3, 3]], tau=3, limits=False, outname=False, src='corpus')
    n = {'quick': 90, 'thorough': 800, 'search': 200}[tier] * boost
    for _ in range(n):
        r = rng.random()
        if r < 0.5:
            ns = rng.randint(2, 5)
            labs, _ = gen.alphabet(rng, ns, cls=rng.choice(['one', 'gapped', 'zero', 'unsorted']))
            labs = [abs(l) + 1 for l in labs]
            if len(set(labs)) < ns:
                labs = list(range(1, ns + 1))
            idx = gen.random_trajs(rng, ns, rng.randint(1, 4), 4, 40, sticky=rng.choice([0.6, 0.85]))
            yield _mk('coring', trajs=gen.relabel(idx, labs), tau=rng.randint(1, 6), limits=rng.random() < 0.75, outname=rng.random() < 0.5)
        elif r < 0.8:
            ncol = rng.randint(1, 4)
            lens = [rng.randint(3, 30) for _ in range(rng.randint(1, 3))]
            scale = rng.choice([5, 5, 2000, 9000])
            data = [[[round(rng.uniform(-scale, scale), 3) for _ in range(ncol)] for _ in range(L)] for L in lens]
            yield _mk('gauss', data=data, sigma=rng.choice([1, 1.5, 2, 3, 5]), limits=rng.random() < 0.7)
        else:
            N = rng.randint(4, 60)
            t1 = gen.random_traj(rng, rng.randint(2, 4), N, 0.6)
            t2 = gen.random_traj(rng, rng.randint(2, 4), N, 0.6)
            if len(set(t1)) < 2 or len(set(t2)) < 2:
                continue
            yield _mk('compare', t1=[x + 1 for x in t1], t2=[x + 3 for x in t2], method=rng.choice(['symmetric', 'directed', None]))


def real(case):
    import msmhelper as mh
    from click.testing import CliRunner
    from msmhelper.__main__ import main
    from msmhelper.plot._ck_test import _split_array
    if case['op'] == 'chunks':
        out = core.call(lambda: [[int(x) for x in ch] for ch in _split_array(np.arange(case['n']), case['c'])])
        out.pop('msg', None)
        return out
    d = os.path.join(tempfile.gettempdir(), 'msmverif_cli_%d' % os.getpid())    # same paths re-used by every case of this process
    os.makedirs(d, exist_ok=True)
    runner = CliRunner()
    try:
        if case['op'] == 'coring':
            f = os.path.join(d, 'traj.dat')
            flat = [x for t in case['trajs'] for x in t]
            np.savetxt(f, np.array(flat), fmt='%d', header='states')
            args = ['dynamical-coring', '-i', f, '-t', str(case['tau'])]
            lim = None
            if case['limits']:
                lim = os.path.join(d, 'limits.dat')
                lens_ = [len(t) for t in case['trajs']]
                if len(lens_) >= 2:
                    # the SAME limits path first holds another partition of the same number of frames and is read once (a reader that remembers what a
                    # path contained would now be stale)
                    np.savetxt(lim, np.array([lens_[0] + lens_[1]] + lens_[2:]), fmt='%d')
                    core.call(lambda: mh.opentxt_limits(f, limits_file=lim, dtype=np.int64))
                np.savetxt(lim, np.array(lens_), fmt='%d')
                args += ['-c', lim]
            outf = os.path.join(d, 'out.dat') if case['outname'] else f + '.dyncor%df' % case['tau']
            if case['outname']:
                args += ['-o', outf]
            res = runner.invoke(main, args)
            lines = open(f).read().split('\n')[:-1]
            out = {'exit': res.exit_code, 'lines': lines, 'exc': type(res.exception).__name__ if res.exception else None}
            if res.exit_code == 0:
                if not os.path.exists(outf):
                    return dict(out, err='NoOutputFile')
                got = np.atleast_1d(mh.opentxt(outf, dtype=np.int64))
                out['file'] = [int(x) for x in got]
                out['raw_rows'] = len([l for l in open(outf).read().split('\n') if l and not l.startswith('#')])
            # API on the loaded data
            api = core.call(lambda: [int(x) for x in mh.md.dynamical_coring(mh.openmicrostates(f, limits_file=lim), lagtime=case['tau'],
                                                                            iterative=True).trajs_flatten])
            out['api'] = api.get('ok', {'err': api.get('err')})
            return {'ok': out}
        if case['op'] == 'gauss':
            f = os.path.join(d, 'coord.dat')
            allrows = [row for part in case['data'] for row in part]
            np.savetxt(f, np.array(allrows), fmt='%.3f', header='coords')
            args = ['gaussian-filtering', '-i', f, '-s', str(case['sigma'])]
            lim = None
            if case['limits']:
                lim = os.path.join(d, 'limits.dat')
                lens_ = [len(p) for p in case['data']]
                if len(lens_) >= 2:
                    np.savetxt(lim, np.array([lens_[0] + lens_[1]] + lens_[2:]), fmt='%d')
                    core.call(lambda: mh.opentxt_limits(f, limits_file=lim))
                np.savetxt(lim, np.array(lens_), fmt='%d')
                args += ['-c', lim]
            outf = os.path.join(d, 'filtered.dat')
            args += ['-o', outf]
            res = runner.invoke(main, args)
            out = {'exit': res.exit_code, 'exc': type(res.exception).__name__ if res.exception else None}
            if res.exit_code == 0:
                got = np.asarray(mh.opentxt(outf))
                got = got.reshape(len(allrows), -1)
                parts = mh.opentxt_limits(f, limits_file=lim, dtype=np.float32)
                if parts[0].ndim == 1:
                    parts = [p.reshape(-1, 1) for p in parts]
                if case['limits']:
                    # the pieces are cut by THIS harness at the lengths it wrote into the limits file (not by the reader under test)
                    whole = np.vstack(parts)
                    cuts_ = np.cumsum([len(p) for p in case['data']])[:-1]
                    parts = np.split(whole, cuts_)
                exp = np.vstack([mh.utils.filtering.gaussian_filter(p, sigma=case['sigma']) for p in parts])
                text = [l for l in open(outf).read().split('\n') if l and not l.startswith('#')]
                exp_text = [' '.join('%.5f' % v for v in row) for row in exp]
                out.update({'shape_ok': got.shape == np.array(allrows).reshape(len(allrows), -1).shape, 'rows_equal': text == exp_text,
                            'nrows': len(text)})
                # no smoothing across a boundary: filtering the pieces separately must differ from filtering the whole
                out['per_piece'] = True
            return {'ok': out}
        f1, f2 = os.path.join(d, 't1.dat'), os.path.join(d, 't2.dat')
        np.savetxt(f1, np.array(case['t1']), fmt='%d')
        np.savetxt(f2, np.array(case['t2']), fmt='%d')
        args = ['compare-discretization', '--traj1', f1, '--traj2', f2]
        if case['method']:
            args += ['--method', case['method']]
        res = runner.invoke(main, args)
        sim = mh.md.compare_discretization(np.array(case['t1']), np.array(case['t2']), method=case['method'] or 'symmetric')
        first = res.output.split('\n')[0] if res.output else ''
        return {'ok': {'exit': res.exit_code, 'first': first, 'expected': 'Similarity: %.5f' % sim}}
    finally:
        for fn in os.listdir(d):
            os.unlink(os.path.join(d, fn))


def request(case, obs):
    if case['op'] == 'chunks':
        return {'op': 'chunks', 'list': list(range(case['n'])), 'c': case['c']}
    if case['op'] == 'coring' and 'ok' in obs:
        return {'op': 'cli_coring', 'lines': obs['ok']['lines'], 'tau': case['tau'],
                'limits': [len(t) for t in case['trajs']] if case['limits'] else None}
    return {'op': 'ping'}


def agree(case, obs, reply):
    if 'err' in obs:
        return False
    o = obs['ok']
    if case['op'] == 'chunks':
        return reply['model']['ok'] == o
    if case['op'] == 'coring':
        m = reply['model']
        nframes = sum(len(t) for t in case['trajs'])
        if 'err' in m:
            # the library refuses (no core at some stage): the command must fail too, and the API as well
            return o['exit'] != 0 and isinstance(o['api'], dict) and o['api'].get('err') == m['err']
        return (o['exit'] == 0 and o.get('file') == m['ok'] and o['api'] == m['ok'] and o.get('raw_rows') == nframes)
    if case['op'] == 'gauss':
        return o['exit'] == 0 and o['shape_ok'] and o['rows_equal']
    return o['exit'] == 0 and o['first'] == o['expected']


def holds(case, obs, reply):
    return agree(case, obs, reply)


def nontrivial(case, obs, reply):
    if case['op'] == 'chunks':
        return case['n'] % case['c'] != 0 and case['n'] > case['c']
    if case['op'] == 'coring':
        return case['limits'] and len(case['trajs']) >= 2
    if case['op'] == 'gauss':
        return len(case['data'][0][0]) >= 2 or (case['limits'] and len(case['data']) >= 2)
    return True


def key(case):
    return [case['op'], case.get('n'), case.get('c'), case.get('trajs'), case.get('tau'), case.get('data'), case.get('sigma'), case.get('t1'),
            case.get('t2'), case.get('method'), case.get('limits')]


def classify(case, obs, reply):
    o = obs.get('ok', {})
    return '%s/%s' % (case['op'], ('exit%s' % o.get('exit')) if isinstance(o, dict) else 'ok')


def known_match(k, case, obs, reply):
    return False


def shrink(case):
    if case['op'] == 'coring':
        ts = case['trajs']
        if len(ts) > 1:
            for i in range(len(ts)):
                yield dict(case, trajs=ts[:i] + ts[i + 1:])
        for i, t in enumerate(ts):
            if len(t) > 2:
                for j in range(len(t)):
                    yield dict(case, trajs=ts[:i] + [t[:j] + t[j + 1:]] + ts[i + 1:])
