#!/usr/bin/env python3
"""tools/apply_confirm_log.py <log> … — (re)write the `confirmed` entry of seeded/<id>/meta.json from lines printed by confirm_mutant.sh"""
import json, os, re, sys
for log in sys.argv[1:]:
    for line in open(log):
        m = re.match(r'(\S+) demo_without=(\d+) demo_with=(\d+) pytest: (.*)$', line.strip())
        if not m:
            continue
        p = '/verif/seeded/%s/meta.json' % m.group(1)
        if not os.path.exists(p):
            continue
        meta = json.load(open(p))
        meta['confirmed'] = {'demo_exit_without_patch': int(m.group(2)), 'demo_exit_with_patch': int(m.group(3)), 'pytest_with_patch': m.group(4),
                             'cmds': ['PYTHONPATH=<wt>/src /venv/bin/python demo.py (clean / patched)',
                                      'PYTHONPATH=<wt>/src /venv/bin/python -m pytest -q -p no:cacheprovider --timeout=900 test/ (patched)']}
        json.dump(meta, open(p, 'w'), indent=1)
        print('confirmed', m.group(1))
