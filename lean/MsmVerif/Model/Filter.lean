/-
Model/Filter.lean — model of `utils/filtering.py`: Gaussian filter with edge values repeated (weights are a
parameter: the impulse response of the real scipy filter, as exact dyadics) and the running mean
(`np.convolve(x, ones(w)/w, mode='same')`).
-/
import MsmVerif.Model.Basic

namespace MsmVerif.Filter

/-- `x[clamp(i)]` : edge values repeated (`mode='nearest'`) -/
def clampGet (x : List Rat) (i : Int) : Rat :=
  if i < 0 then x.getD 0 0 else if i ≥ x.length then x.getD (x.length - 1) 0 else x.getD i.toNat 0

/-- correlation with a kernel of radius `r` given as `w_{-r} … w_{r}` (length `2r+1`) -/
def filt (w : List Rat) (x : List Rat) : List Rat :=
  let r : Int := (w.length / 2 : Nat)
  (List.range x.length).map (fun (i : Nat) =>
    ((List.range w.length).map (fun (k : Nat) => w.getD k 0 * clampGet x ((i : Int) + (k : Int) - r))).sum)

/-- column `j` of a table (list of rows) -/
def column (t : List (List Rat)) (j : Nat) : List Rat := t.map (fun row => row.getD j 0)

/-- 2-d input: every column filtered on its own, result in the input's shape -/
def filtTable (w : List Rat) (t : List (List Rat)) : List (List Rat) :=
  let ncols := (t.headD []).length
  let cols := (List.range ncols).map (fun j => filt w (column t j))
  (List.range t.length).map (fun i => cols.map (fun c => c.getD i 0))

/-- `np.convolve(x, ones(w)/w, mode='same')` for `w ≤ n`: entry `i` is the mean over `x[i - w/2 … i - w/2 + w - 1]`
shifted so that the window is centred with the extra element on the left for even `w`; zeros outside. -/
def zeroGet (x : List Rat) (i : Int) : Rat := if i < 0 ∨ i ≥ x.length then 0 else x.getD i.toNat 0

def runningMean (x : List Rat) (w : Nat) : List Rat :=
  (List.range x.length).map (fun (i : Nat) =>
    ((List.range w).map (fun (k : Nat) => zeroGet x ((i : Int) - ((w / 2 : Nat) : Int) + (k : Int)))).sum / (w : Rat))

/-- the documented window: from `i - ⌈(w-1)/2⌉` to `i + ⌊(w-1)/2⌋` -/
def runningMeanDoc (x : List Rat) (w : Nat) : List Rat :=
  (List.range x.length).map (fun (i : Nat) =>
    let lo : Int := (i : Int) - ((w / 2 : Nat) : Int)
    let hi : Int := (i : Int) + (((w - 1) / 2 : Nat) : Int)
    (((List.range x.length).filter (fun (j : Nat) => decide (lo ≤ (j : Int)) && decide ((j : Int) ≤ hi))).map (fun j => x.getD j 0)).sum / (w : Rat))

def absQ (r : Rat) : Rat := if r < 0 then -r else r

/-- oracle: the observed filtered table is within `tol` of the model -/
def close (tol : Rat) (a b : List (List Rat)) : Bool :=
  a.length == b.length &&
  (a.zip b).all (fun (r1, r2) => r1.length == r2.length && (r1.zip r2).all (fun (x, y) => decide (absQ (x - y) ≤ tol)))

/-- entrywise closeness with a LOCAL tolerance: `eps · (1 + local scale)`, the local scale being the same filter applied to `|x|`
(rounding errors of a weighted sum are relative to the magnitudes inside the window, not to the global maximum) -/
def closeLocal (eps : Rat) (model scale obs : List (List Rat)) : Bool :=
  model.length == obs.length && scale.length == obs.length &&
  (List.zip model (List.zip scale obs)).all (fun (m, (s, o)) =>
    m.length == o.length && s.length == o.length &&
    (List.zip m (List.zip s o)).all (fun (x, (sc, y)) => decide (absQ (x - y) ≤ eps * (1 + sc))))

end MsmVerif.Filter
