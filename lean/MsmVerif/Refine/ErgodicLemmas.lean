/-
Refine/ErgodicLemmas.lean — helper lemmas for task RP6 (properties C14, C04): the numpy runtime operations of `Gen/NpRt.lean`
(`npTranspose`, `npMul`, `npEye`, `npPowNat`, row/column sums, broadcasting, `npOuter`, `npCountAxis1`, `npMaxInt`) expressed through the
model's linear algebra (`Model/Linalg.lean`), and the step-by-step evaluation of the translated predicates of `utils/tests.py`.
The theorems with docstrings are in `Refine/Ergodic.lean`.
-/
import MsmVerif.Gen.UtilsTests
import MsmVerif.Lemmas.Linalg
namespace MsmVerif.Refine.Ergodic
open MsmVerif MsmVerif.Gen MsmVerif.Linalg

/-! ### runtime = model for the basic matrix operations (unconditional) -/

theorem npTranspose_eq (b : List (List Rat)) : npTranspose b = transpose b := by
  cases b with
  | nil => rfl
  | cons r rs => rfl

theorem npDot_eq (a b : List Rat) : npDot a b = dot a b := by
  unfold npDot dot
  simp [List.zip_eq_zipWith, List.map_zipWith]

theorem npMul_eq (a b : List (List Rat)) : npMul a b = mul a b := by
  unfold npMul mul
  simp only [npTranspose_eq, npDot_eq]

theorem npEye_eq (n : Nat) : npEye n = identity n := rfl

theorem npPowNat_eq (m : List (List Rat)) (k : Nat) : npPowNat m k = powFast m k := by
  induction k using Nat.strongRecOn with
  | _ k ih =>
    unfold npPowNat powFast
    split
    · rfl
    · rename_i hk
      simp only [npMul_eq, ih (k / 2) (by omega)]

theorem npSumAxis1_eq (m : List (List Rat)) : npSumAxis1 m = rowSums m := rfl

theorem npSumAxis0_eq (m : List (List Rat)) : npSumAxis0 m = colSums m := by
  cases m with
  | nil => rfl
  | cons r rs =>
    simp [npSumAxis0, colSums, transpose, npShape1, npCol, List.map_map]

theorem npAbs_eq (x : Rat) : npAbs x = absQ x := rfl

/-! ### shapes -/

theorem npShape1_eq {α : Type} (m : List (List α)) : npShape1 m = ((m.getD 0 []).length : Int) := by
  cases m <;> rfl

theorem row_length_of_rect {α : Type} {m : List (List α)} (h : npRect m = true) {r : List α} (hr : r ∈ m) :
    r.length = (m.getD 0 []).length := by
  cases m with
  | nil => cases hr
  | cons r0 rs =>
    simp only [npRect, List.all_eq_true, beq_iff_eq] at h
    rcases List.mem_cons.mp hr with rfl | hr
    · rfl
    · simpa using h r hr

theorem isSquare_iff_of_rect {m : Mat} (h : npRect m = true) (hne : m ≠ []) :
    isSquare m = true ↔ npShape0 m = npShape1 m := by
  rw [npShape1_eq]
  unfold isSquare npShape0
  simp only [List.all_eq_true, beq_iff_eq]
  constructor
  · intro hs
    cases m with
    | nil => exact absurd rfl hne
    | cons r rs => 
      have := hs r (List.mem_cons_self)
      simp only [List.getD_cons_zero]
      omega
  · intro he r hr
    have := row_length_of_rect h hr
    omega

theorem npRect_of_isSquare {m : Mat} (h : isSquare m = true) : npRect m = true := by
  cases m with
  | nil => rfl
  | cons r rs =>
    simp only [isSquare, List.all_eq_true, beq_iff_eq] at h
    simp only [npRect, List.all_eq_true, beq_iff_eq]
    intro s hs
    rw [h s (List.mem_cons_of_mem _ hs), h r List.mem_cons_self]

theorem shape_of_isSquare {m : Mat} (h : isSquare m = true) (hne : m ≠ []) : npShape0 m = npShape1 m :=
  (isSquare_iff_of_rect (npRect_of_isSquare h) hne).mp h

/-! ### broadcasting -/

theorem npBroadcast1_eq {α β γ : Type} (f : α → β → γ) (a : List α) (b : List β) (h : a.length = b.length) :
    npBroadcast1 f a b = .ok (List.zipWith f a b) := by
  unfold npBroadcast1
  split
  · match b, h with
    | [y], _ => rfl
  · match a, h with
    | [x], _ => rfl
  · simp [h]

theorem npBroadcast1_error {α β γ : Type} (f : α → β → γ) (a : List α) (b : List β) (h : a.length ≠ b.length)
    (ha : a.length ≠ 1) (hb : b.length ≠ 1) : npBroadcast1 f a b = .error .value := by
  unfold npBroadcast1
  split
  · simp at ha
  · simp at hb
  · simp [h]

theorem mapM_id_ok {α β : Type} (l : List α) (g : α → β) :
    List.mapM id (l.map (fun x => (Except.ok (g x) : Py β))) = .ok (l.map g) := by
  induction l with
  | nil => rfl
  | cons x xs ih =>
    simp only [List.map_cons, List.mapM_cons, ih]
    rfl

theorem zipWith_congr_mem {α β γ : Type} (g h : α → β → γ) (a : List α) (b : List β)
    (H : ∀ p ∈ a.zip b, g p.1 p.2 = h p.1 p.2) : List.zipWith g a b = List.zipWith h a b := by
  induction a generalizing b with
  | nil => rfl
  | cons x xs ih =>
    cases b with
    | nil => rfl
    | cons y ys =>
      simp only [List.zipWith_cons_cons]
      rw [H (x, y) (by simp), ih ys (fun p hp => H p (by simp [hp]))]

theorem npBroadcast2_eq {α β γ : Type} (f : α → β → γ) (a : List (List α)) (b : List (List β))
    (h : a.length = b.length) (hr : ∀ p ∈ a.zip b, p.1.length = p.2.length) :
    npBroadcast2 f a b = .ok (List.zipWith (List.zipWith f) a b) := by
  unfold npBroadcast2
  rw [npBroadcast1_eq _ a b h]
  have : List.zipWith (fun r s => npBroadcast1 f r s) a b
      = (a.zip b).map (fun p => (Except.ok (List.zipWith f p.1 p.2) : Py (List γ))) := by
    rw [List.zip_eq_zipWith, List.map_zipWith]
    exact zipWith_congr_mem _ _ a b (fun p hp => npBroadcast1_eq f p.1 p.2 (hr p hp))
  show List.mapM id _ = _
  rw [this, mapM_id_ok]
  simp [List.zip_eq_zipWith, List.map_zipWith]


/-! ### tables: lists and square matrices given by index functions -/

/-- `[f 0, …, f (n-1)]` -/
def tab {α : Type} (n : Nat) (f : Nat → α) : List α := (List.range n).map f
/-- the `n × n` table of `f` -/
def tab2 {α : Type} (n : Nat) (f : Nat → Nat → α) : List (List α) := tab n (fun i => tab n (f i))

theorem length_tab {α : Type} (n : Nat) (f : Nat → α) : (tab n f).length = n := by simp [tab]

theorem tab_congr {α : Type} {n : Nat} {f g : Nat → α} (h : ∀ i, i < n → f i = g i) : tab n f = tab n g := by
  unfold tab
  exact List.map_congr_left (fun i hi => h i (List.mem_range.mp hi))

theorem tab2_congr {α : Type} {n : Nat} {f g : Nat → Nat → α} (h : ∀ i j, i < n → j < n → f i j = g i j) :
    tab2 n f = tab2 n g :=
  tab_congr (fun i hi => tab_congr (fun j hj => h i j hi hj))

theorem getD_tab {α : Type} (n : Nat) (f : Nat → α) (d : α) {i : Nat} (hi : i < n) : (tab n f).getD i d = f i :=
  getD_map_range n f d hi

theorem map_tab {α β : Type} (n : Nat) (f : Nat → α) (g : α → β) : (tab n f).map g = tab n (fun i => g (f i)) := by
  simp [tab, List.map_map, Function.comp_def]

theorem map_tab2 {α β : Type} (n : Nat) (f : Nat → Nat → α) (g : α → β) :
    (tab2 n f).map (fun r => r.map g) = tab2 n (fun i j => g (f i j)) := by
  simp [tab2, map_tab]

theorem list_eq_tab {α : Type} (l : List α) (d : α) : l = tab l.length (fun i => l.getD i d) := by
  apply List.ext_getElem
  · simp [tab]
  · intro i h1 h2
    simp [tab, List.getD_eq_getElem?_getD, h1]

theorem mat_eq_tab2 {n : Nat} {m : Mat} (h : WF n m) : m = tab2 n (fun i j => entry m i j) := by
  apply Mat.ext h
  · constructor
    · simp [tab2, tab]
    · intro r hr
      simp only [tab2, tab, List.mem_map, List.mem_range] at hr
      obtain ⟨i, _, rfl⟩ := hr
      simp
  · intro i j hi hj
    conv_rhs => unfold entry
    rw [tab2, getD_tab _ _ _ hi, getD_tab _ _ _ hj]
    rfl

theorem zipWith_tab {α β γ : Type} (f : α → β → γ) (n : Nat) (a : Nat → α) (b : Nat → β) :
    List.zipWith f (tab n a) (tab n b) = tab n (fun i => f (a i) (b i)) := by
  simp [tab, List.zipWith_map, List.zipWith_self]

theorem zipWith_tab2 {α β γ : Type} (f : α → β → γ) (n : Nat) (a : Nat → Nat → α) (b : Nat → Nat → β) :
    List.zipWith (List.zipWith f) (tab2 n a) (tab2 n b) = tab2 n (fun i j => f (a i j) (b i j)) := by
  simp [tab2, zipWith_tab]

theorem npBroadcast2_tab2 {α β γ : Type} (f : α → β → γ) (n : Nat) (a : Nat → Nat → α) (b : Nat → Nat → β) :
    npBroadcast2 f (tab2 n a) (tab2 n b) = .ok (tab2 n (fun i j => f (a i j) (b i j))) := by
  rw [npBroadcast2_eq, zipWith_tab2]
  · simp [tab2, length_tab]
  · intro p hp
    simp only [tab2, tab, List.zip_eq_zipWith, List.zipWith_map, List.zipWith_self, List.mem_map] at hp
    obtain ⟨i, _, rfl⟩ := hp
    simp

theorem npOuter_tab {α β γ : Type} (f : α → β → γ) (n : Nat) (a : Nat → α) (b : Nat → β) :
    npOuter f (tab n a) (tab n b) = tab2 n (fun i j => f (a i) (b j)) := by
  simp [npOuter, tab2, map_tab]

theorem npAll2_tab2 (n : Nat) (f : Nat → Nat → Bool) :
    npAll2 (tab2 n f) = (List.range n).all (fun i => (List.range n).all (fun j => f i j)) := by
  simp [npAll2, tab2, tab, List.all_map, Function.comp_def]

theorem npTranspose_tab2 {α : Type} [Inhabited α] (n : Nat) (f : Nat → Nat → α) :
    npTranspose (tab2 n f) = tab2 n (fun i j => f j i) := by
  unfold npTranspose
  rw [npShape1_eq]
  cases n with
  | zero => rfl
  | succ k =>
    rw [tab2, getD_tab _ _ _ (Nat.succ_pos k), length_tab]
    show tab (k+1) _ = _
    apply tab_congr
    intro j hj
    unfold npCol
    rw [map_tab]
    apply tab_congr
    intro i hi
    exact getD_tab _ _ _ hj

theorem npCountAxis1_tab2 (n : Nat) (f : Nat → Nat → Bool) :
    npCountAxis1 (tab2 n f) = tab n (fun i => ((((List.range n).filter (fun j => f i j)).length : Nat) : Int)) := by
  unfold npCountAxis1
  rw [tab2, map_tab]
  apply tab_congr
  intro i hi
  simp [tab, List.filter_map, Function.comp_def]


/-! ### the predicates -/

theorem is_quadratic_eq (m : List (List Rat)) (hrect : npRect m = true) (hne : m ≠ []) :
    Gen.UtilsTests.is_quadratic m = .ok (isQuadratic m) := by
  have hlen : m.length ≠ 0 := by simpa using hne
  have key : isSquare m = decide (npShape0 m = npShape1 m) := by
    rw [Bool.eq_iff_iff, isSquare_iff_of_rect hrect hne]; simp
  unfold Gen.UtilsTests.is_quadratic isQuadratic
  rw [key]
  simp only [npShape0]
  by_cases h1 : (m.length : Int) = npShape1 m
  · by_cases h2 : m.length = 1
    · simp [h2, ← h1]
      rfl
    · have h3 : ¬ (m.length : Int) = 1 := by omega
      have h4 : (m.length != 1) = true := by simp [h2]
      have h5 : (m.length != 0) = true := by simp [hlen]
      rw [h4, h5]
      simp [← h1, h3]
      rfl
  · simp [h1]
    rfl


theorem zipWith_map_zipWith {α β γ δ ε : Type} (f : γ → δ → ε) (g : α → γ) (h : α → β → δ) (R : List α) (C : List β) :
    List.zipWith f (R.map g) (List.zipWith h R C) = List.zipWith (fun r c => f (g r) (h r c)) R C := by
  induction R generalizing C with
  | nil => rfl
  | cons x xs ih =>
    cases C with
    | nil => rfl
    | cons y ys => simp [ih]

theorem all_id_zipWith {α β : Type} (F : α → β → Bool) (R : List α) (C : List β) :
    (List.zipWith F R C).all id = (R.zip C).all (fun p => F p.1 p.2) := by
  induction R generalizing C with
  | nil => rfl
  | cons x xs ih =>
    cases C with
    | nil => rfl
    | cons y ys => simp [ih]

/-- the row condition of `is_transition_matrix` with tolerance `a` -/
def rowOK (a : Rat) (p : Rat × Rat) : Bool := decide (absQ (p.1 - 1) ≤ a) || !(p.1 != 0 || p.2 != 0)

theorem isTmat_eq_rowOK (m : Mat) : isTmat m = (isQuadratic m && (List.zip (rowSums m) (colSums m)).all (rowOK atol)) := rfl

theorem is_tmat_eq (m : List (List Rat)) (hne : m ≠ []) (hsq : isSquare m = true) (a : Rat) :
    Gen.UtilsTests.is_transition_matrix m a
      = .ok (isQuadratic m && (List.zip (rowSums m) (colSums m)).all (rowOK a)) := by
  have hwf := WF_of_isSquare hsq
  have hlen : (rowSums m).length = (colSums m).length := by rw [length_rowSums, length_colSums hwf]
  unfold Gen.UtilsTests.is_transition_matrix
  simp only [npSumAxis1_eq, npSumAxis0_eq]
  rw [npBroadcast1_eq _ _ _ (by simpa using hlen), is_quadratic_eq m (npRect_of_isSquare hsq) hne]
  simp only [bind, Except.bind]
  cases isQuadratic m with
  | false => rfl
  | true =>
    simp only [if_true, Bool.true_and]
    rw [npBroadcast1_eq _ _ _ (by simp [hlen])]
    simp only [pure, Except.pure, npAll1]
    rw [List.map_map, List.map_map, List.map_zipWith, List.zipWith_map, zipWith_map_zipWith, all_id_zipWith]
    rfl


theorem length_npSumAxis0 (m : List (List Rat)) : (npSumAxis0 m).length = (m.getD 0 []).length := by
  simp [npSumAxis0, npShape1_eq]

theorem is_tmat_error (m : List (List Rat)) (h : m.length ≠ (m.getD 0 []).length) (hr : m.length ≠ 1)
    (hc : (m.getD 0 []).length ≠ 1) (a : Rat) : Gen.UtilsTests.is_transition_matrix m a = .error .value := by
  unfold Gen.UtilsTests.is_transition_matrix
  simp only []
  rw [npBroadcast1_error]
  · rfl
  · simpa [npSumAxis1, length_npSumAxis0] using h
  · simpa [npSumAxis1] using hr
  · simpa [length_npSumAxis0] using hc

theorem npBroadcast1_thin {α β γ : Type} (f : α → β → γ) (a : List α) (b : List β) (h : a.length = 1 ∨ b.length = 1) :
    ∃ v, npBroadcast1 f a b = .ok v := by
  unfold npBroadcast1
  split
  · exact ⟨_, rfl⟩
  · exact ⟨_, rfl⟩
  · rename_i h1 h2
    rcases h with h | h
    · match a, h with
      | [x], _ => exact absurd rfl (h1 x)
    · match b, h with
      | [y], _ => exact absurd rfl (h2 y)

theorem is_tmat_thin (m : List (List Rat)) (hrect : npRect m = true) (hne : m ≠ []) (hsq : isSquare m = false)
    (h : m.length = 1 ∨ (m.getD 0 []).length = 1) (a : Rat) :
    Gen.UtilsTests.is_transition_matrix m a = .ok false := by
  unfold Gen.UtilsTests.is_transition_matrix
  simp only []
  obtain ⟨v, hv⟩ := npBroadcast1_thin (fun x_ y_ => x_ || y_) ((npSumAxis1 m).map (fun x_ => x_ != 0))
    ((npSumAxis0 m).map (fun x_ => x_ != 0)) (by simpa [npSumAxis1, length_npSumAxis0] using h)
  rw [hv, is_quadratic_eq m hrect hne]
  simp [bind, Except.bind, isQuadratic, hsq]
  rfl

theorem exponent_eq (n : Nat) (hn : 1 ≤ n) : (((n : Int) - 1) ^ 2 + 1) = ((wielandtExp n : Nat) : Int) := by
  obtain ⟨k, rfl⟩ : ∃ k, n = k + 1 := ⟨n - 1, by omega⟩
  unfold wielandtExp
  simp [Int.pow_succ]

theorem npMatrixPower_eq (m : List (List Rat)) (hne : m ≠ []) (hsq : isSquare m = true) (k : Nat) :
    npMatrixPower m (k : Int) = .ok (powFast m k) := by
  unfold npMatrixPower
  rw [if_neg (by simpa using shape_of_isSquare hsq hne), if_neg (by omega), Int.toNat_natCast, npPowNat_eq]


theorem is_tmat_atol (m : List (List Rat)) (hne : m ≠ []) (hsq : isSquare m = true) :
    Gen.UtilsTests.is_transition_matrix m ((3022314549036573 : Rat) / (302231454903657293676544 : Rat)) = .ok (isTmat m) :=
  is_tmat_eq m hne hsq atol

theorem length_pos_of_ne {α : Type} {m : List α} (hne : m ≠ []) : 1 ≤ m.length := by
  cases m with
  | nil => exact absurd rfl hne
  | cons _ _ => simp

/-- `is_ergodic` with the caller's tolerance `a` in the final comparison (the transition-matrix check inside always uses the
default tolerance) -/
def isErgodicTol (a : Rat) (m : Mat) : Bool :=
  isTmat m && (powFast m (wielandtExp m.length)).all (fun r => r.all (fun x => decide (a < x)))

theorem isErgodicTol_atol (m : Mat) : isErgodicTol atol m = isErgodic m := rfl

theorem is_ergodic_eq (m : List (List Rat)) (hne : m ≠ []) (hsq : isSquare m = true) (a : Rat) :
    Gen.UtilsTests.is_ergodic m a = .ok (isErgodicTol a m) := by
  unfold Gen.UtilsTests.is_ergodic isErgodicTol
  simp only []
  rw [is_tmat_atol m hne hsq]
  simp only [bind, Except.bind]
  cases isTmat m with
  | false => rfl
  | true =>
    simp only [pyLen, exponent_eq _ (length_pos_of_ne hne), npMatrixPower_eq m hne hsq]
    simp [npAll2, List.all_map, Function.comp_def, pure, Except.pure]

theorem fuzzy_core {n : Nat} {p : Mat} (hp : WF n p) (t : List Bool) (ht : t.length = n) :
    npBroadcast2 (fun x_ y_ => x_ || y_) (p.map (fun r_ => r_.map (fun x_ => decide (x_ > (((0 : Int) : Int) : Rat)))))
        (npOuter (fun x_ y_ => x_ || y_) t t)
      = .ok (tab2 n (fun i j => decide (entry p i j > (((0 : Int) : Int) : Rat)) || (t.getD i false || t.getD j false))) := by
  have e1 : p.map (fun r_ => r_.map (fun x_ => decide (x_ > (((0 : Int) : Int) : Rat))))
      = tab2 n (fun i j => decide (entry p i j > (((0 : Int) : Int) : Rat))) := by
    conv_lhs => rw [mat_eq_tab2 hp]
    rw [map_tab2]
  have e2 : npOuter (fun x_ y_ => x_ || y_) t t = tab2 n (fun i j => t.getD i false || t.getD j false) := by
    conv_lhs => rw [list_eq_tab t false, ht]
    rw [npOuter_tab]
  rw [e1, e2, npBroadcast2_tab2]

theorem trap_eq (rcs : List Rat) (a : Rat) :
    List.zipWith (fun x_ y_ => x_ || y_)
      (List.map (fun x_ => decide (x_ ≤ a)) (List.map npAbs (List.map (fun x_ => x_ - (((2 : Int) : Int) : Rat)) rcs)))
      (List.map (fun x_ => decide (x_ ≤ a)) (List.map npAbs rcs))
    = rcs.map (fun s => decide (absQ (s - 2) ≤ a) || decide (absQ s ≤ a)) := by
  rw [List.map_map, List.map_map, List.map_map, List.zipWith_map, List.zipWith_self]
  apply List.map_congr_left
  intro s _
  rfl

theorem rcs_eq (R C : List Rat) : (List.zip R C).map (fun (r, c) => r + c) = List.zipWith (fun x_ y_ => x_ + y_) R C := by
  simp [List.zip_eq_zipWith, List.map_zipWith]

/-- `is_fuzzy_ergodic` with the caller's tolerance `a` in the trap-state test -/
def isFuzzyErgodicTol (a : Rat) (m : Mat) : Bool :=
  isTmat m &&
  (let rcs := (List.zip (rowSums m) (colSums m)).map (fun (r, c) => r + c)
   let trap := rcs.map (fun s => decide (absQ (s - 2) ≤ a) || decide (absQ s ≤ a))
   let p := powFast m (wielandtExp m.length)
   (List.range m.length).all (fun i => (List.range m.length).all (fun j =>
     decide (0 < entry p i j) || trap.getD i false || trap.getD j false)))

theorem isFuzzyErgodicTol_atol (m : Mat) : isFuzzyErgodicTol atol m = isFuzzyErgodic m := rfl

theorem is_fuzzy_ergodic_eq (m : List (List Rat)) (hne : m ≠ []) (hsq : isSquare m = true) (a : Rat) :
    Gen.UtilsTests.is_fuzzy_ergodic m a = .ok (isFuzzyErgodicTol a m) := by
  have hwf := WF_of_isSquare hsq
  have hlen : (rowSums m).length = (colSums m).length := by rw [length_rowSums, length_colSums hwf]
  unfold Gen.UtilsTests.is_fuzzy_ergodic isFuzzyErgodicTol
  simp only []
  rw [is_tmat_atol m hne hsq]
  simp only [bind, Except.bind]
  cases isTmat m with
  | false => rfl
  | true =>
    simp only [pyLen, exponent_eq _ (length_pos_of_ne hne), npMatrixPower_eq m hne hsq, npSumAxis1_eq, npSumAxis0_eq]
    rw [npBroadcast1_eq _ _ _ hlen]
    simp only []
    rw [npBroadcast1_eq _ _ _ (by simp)]
    simp only [rcs_eq]
    rw [trap_eq, fuzzy_core (WF_powFast hwf (wielandtExp m.length)) _ (by simp [length_rowSums, ← hlen])]
    simp [npAll2_tab2, pure, Except.pure, Bool.or_assoc]

theorem foldl_max_cast (xs : List Nat) (a : Nat) :
    (xs.map (fun c : Nat => (c : Int))).foldl max (a : Int) = ((xs.foldl max a : Nat) : Int) := by
  induction xs generalizing a with
  | nil => rfl
  | cons x xs ih =>
    simp only [List.map_cons, List.foldl_cons]
    rw [show max (a : Int) (x : Int) = ((max a x : Nat) : Int) by omega, ih]

theorem npMaxInt_cast (cnt : List Nat) (hne : cnt ≠ []) :
    npMaxInt (cnt.map (fun c : Nat => (c : Int))) = .ok ((cnt.foldl max 0 : Nat) : Int) := by
  cases cnt with
  | nil => exact absurd rfl hne
  | cons x xs =>
    simp only [List.map_cons, npMaxInt, foldl_max_cast, List.foldl_cons, Nat.zero_max]

theorem map_beq_cast (cnt : List Nat) (mx : Nat) :
    (cnt.map (fun c : Nat => (c : Int))).map (fun x_ => x_ == (mx : Int)) = cnt.map (fun c => c == mx) := by
  rw [List.map_map]
  apply List.map_congr_left
  intro c _
  rw [Bool.eq_iff_iff]
  simp

/-- the boolean relation of `ergodic_mask`: `i` and `j` reach each other in the power `p` above tolerance `a` -/
def maskB (p : Mat) (a : Rat) (i j : Nat) : Bool := decide (a < entry p i j) && decide (a < entry p j i)

/-- the row counts of `ergodic_mask` -/
def maskCounts (n : Nat) (p : Mat) (a : Rat) : List Nat :=
  (List.range n).map (fun i => ((List.range n).filter (fun j => maskB p a i j)).length)

theorem length_maskCounts (n : Nat) (p : Mat) (a : Rat) : (maskCounts n p a).length = n := by simp [maskCounts]

theorem maskCounts_ne_nil {n : Nat} (hn : 1 ≤ n) (p : Mat) (a : Rat) : maskCounts n p a ≠ [] := by
  intro h
  have := length_maskCounts n p a
  rw [h] at this
  simp at this
  omega

theorem mask_core {n : Nat} {p : Mat} (hp : WF n p) (a : Rat) :
    npBroadcast2 (fun x_ y_ => x_ && y_) (p.map (fun r_ => r_.map (fun x_ => decide (x_ > a))))
        (npTranspose (p.map (fun r_ => r_.map (fun x_ => decide (x_ > a)))))
      = .ok (tab2 n (maskB p a)) := by
  have e1 : p.map (fun r_ => r_.map (fun x_ => decide (x_ > a))) = tab2 n (fun i j => decide (entry p i j > a)) := by
    conv_lhs => rw [mat_eq_tab2 hp]
    rw [map_tab2]
  rw [e1, npTranspose_tab2, npBroadcast2_tab2]
  rfl

theorem npCountAxis1_mask (n : Nat) (p : Mat) (a : Rat) :
    npCountAxis1 (tab2 n (maskB p a)) = (maskCounts n p a).map (fun c : Nat => (c : Int)) := by
  rw [npCountAxis1_tab2, maskCounts, ← tab, map_tab]

/-- `ergodic_mask` with the caller's tolerance `a` in the reachability test; `none` = ValueError -/
def ergodicMaskTol (a : Rat) (m : Mat) : Option (List Bool) :=
  if !isTmat m then none else
    some ((maskCounts m.length (powFast m (wielandtExp m.length)) a).map
      (fun c => c == (maskCounts m.length (powFast m (wielandtExp m.length)) a).foldl max 0))

theorem ergodicMaskTol_atol (m : Mat) : ergodicMaskTol atol m = ergodicMask m := rfl

/-- option → Python result: `none` is the `ValueError` -/
def ofOption {α : Type} (o : Option α) : Py α := match o with | some b => .ok b | none => .error .value

theorem ergodic_mask_eq (m : List (List Rat)) (hne : m ≠ []) (hsq : isSquare m = true) (a : Rat) :
    Gen.UtilsTests.ergodic_mask m a = ofOption (ergodicMaskTol a m) := by
  have hwf := WF_of_isSquare hsq
  unfold Gen.UtilsTests.ergodic_mask ergodicMaskTol
  simp only []
  rw [is_tmat_atol m hne hsq]
  simp only [bind, Except.bind]
  cases isTmat m with
  | false => rfl
  | true =>
    simp only [pyLen, exponent_eq _ (length_pos_of_ne hne), npMatrixPower_eq m hne hsq]
    rw [mask_core (WF_powFast hwf (wielandtExp m.length))]
    simp only [npCountAxis1_mask]
    rw [npMaxInt_cast _ (maskCounts_ne_nil (length_pos_of_ne hne) _ _)]
    simp only [map_beq_cast, pure, Except.pure]
    rfl

/-! ### non-square input -/

theorem length_ne_of_not_square {m : Mat} (hrect : npRect m = true) (hne : m ≠ []) (hsq : isSquare m = false) :
    m.length ≠ (m.getD 0 []).length := by
  intro h
  have : isSquare m = true := by
    rw [isSquare_iff_of_rect hrect hne, npShape1_eq, npShape0, h]
  rw [this] at hsq
  cases hsq

theorem isTmat_of_not_square {m : Mat} (hsq : isSquare m = false) : isTmat m = false := by
  simp [isTmat, isQuadratic, hsq]

theorem is_ergodic_error (m : List (List Rat)) (a : Rat)
    (h : Gen.UtilsTests.is_transition_matrix m ((3022314549036573 : Rat) / (302231454903657293676544 : Rat)) = .error .value) :
    Gen.UtilsTests.is_ergodic m a = .error .value := by
  unfold Gen.UtilsTests.is_ergodic
  simp only []
  rw [h]
  rfl

theorem is_fuzzy_ergodic_error (m : List (List Rat)) (a : Rat)
    (h : Gen.UtilsTests.is_transition_matrix m ((3022314549036573 : Rat) / (302231454903657293676544 : Rat)) = .error .value) :
    Gen.UtilsTests.is_fuzzy_ergodic m a = .error .value := by
  unfold Gen.UtilsTests.is_fuzzy_ergodic
  simp only []
  rw [h]
  rfl

theorem ergodic_mask_error (m : List (List Rat)) (a : Rat)
    (h : Gen.UtilsTests.is_transition_matrix m ((3022314549036573 : Rat) / (302231454903657293676544 : Rat)) = .error .value) :
    Gen.UtilsTests.ergodic_mask m a = .error .value := by
  unfold Gen.UtilsTests.ergodic_mask
  simp only []
  rw [h]
  rfl

theorem is_ergodic_false (m : List (List Rat)) (a : Rat)
    (h : Gen.UtilsTests.is_transition_matrix m ((3022314549036573 : Rat) / (302231454903657293676544 : Rat)) = .ok false) :
    Gen.UtilsTests.is_ergodic m a = .ok false := by
  unfold Gen.UtilsTests.is_ergodic
  simp only []
  rw [h]
  rfl

theorem is_fuzzy_ergodic_false (m : List (List Rat)) (a : Rat)
    (h : Gen.UtilsTests.is_transition_matrix m ((3022314549036573 : Rat) / (302231454903657293676544 : Rat)) = .ok false) :
    Gen.UtilsTests.is_fuzzy_ergodic m a = .ok false := by
  unfold Gen.UtilsTests.is_fuzzy_ergodic
  simp only []
  rw [h]
  rfl

theorem ergodic_mask_false (m : List (List Rat)) (a : Rat)
    (h : Gen.UtilsTests.is_transition_matrix m ((3022314549036573 : Rat) / (302231454903657293676544 : Rat)) = .ok false) :
    Gen.UtilsTests.ergodic_mask m a = .error .value := by
  unfold Gen.UtilsTests.ergodic_mask
  simp only []
  rw [h]
  rfl

end MsmVerif.Refine.Ergodic
