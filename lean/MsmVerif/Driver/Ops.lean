/-
Driver/Ops.lean — dispatch of protocol operations to the executable models and `holds` oracles.
-/
import MsmVerif.Driver.JsonUtil
import MsmVerif.Model.Coring

open Lean

namespace MsmVerif.Driver
open MsmVerif.J

def opCoring (j : Json) : Except String Json := do
  let ts ← trajs? (← field j "trajs")
  let τ ← int? (← field j "tau")
  let iter ← bool? (← field j "iter")
  let model := Coring.dynamicalCoring ts τ iter
  let ref := Coring.refSet ts τ iter
  let base := [("model", ofExcept ofTrajs model), ("ref", ofExcept ofTrajs ref)]
  match j.getObjVal? "obs" with
  | .ok o =>
    let obs ← except? trajs? o
    return Json.mkObj (base ++ [("holds", Json.bool (Coring.holds ts τ iter obs))])
  | .error _ => return Json.mkObj base

def opCoringKernel (j : Json) : Except String Json := do
  let t ← ints? (← field j "traj")
  let τ ← nat? (← field j "tau")
  let iter ← bool? (← field j "iter")
  let r := Coring.kernelSingle τ iter t
  let fc := Coring.firstCoreSentinel τ t
  return Json.mkObj [
    ("model", match r with | some l => Json.mkObj [("ok", ofInts l)] | none => Json.mkObj [("err", "LagtimeError")]),
    ("first_core", ofInt fc)]

def dispatch (j : Json) : Except String Json := do
  let op ← str? (← field j "op")
  match op with
  | "ping" => return Json.mkObj [("pong", Json.bool true)]
  | "coring" => opCoring j
  | "coring_kernel" => opCoringKernel j
  | _ => throw s!"unknown op {op}"

end MsmVerif.Driver
