/-
Lemmas/Coring2.lean — helper lemmas for the second batch of coring theorems (core Lean only):
runs vs. `runLengths`, `Option`-monad bookkeeping (`mapM` / `foldlM`), equivariance under relabelling.
-/
import MsmVerif.Lemmas.Coring

namespace MsmVerif.Coring

/-! ### runs -/

theorem okFrom_one : ∀ (l : List Int) (c : Int) (k : Nat), 1 ≤ k → okFrom 1 c k l := by
  intro l
  induction l with
  | nil => intro c k hk; simpa [okFrom] using hk
  | cons x xs ih =>
    intro c k hk
    by_cases hx : x = c
    · subst hx
      simp only [okFrom, if_true]
      exact ih x (k + 1) (by omega)
    · simp only [okFrom, if_neg hx]
      exact ⟨hk, ih x 1 (Nat.le_refl _)⟩

theorem allRunsGE_one (t : List Int) : AllRunsGE 1 t := by
  cases t with
  | nil => simp [AllRunsGE]
  | cons x xs => exact okFrom_one xs x 1 (Nat.le_refl _)

theorem allRunsGE_mono {k k' : Nat} (h : k' ≤ k) (t : List Int) (ht : AllRunsGE k t) : AllRunsGE k' t := by
  cases t with
  | nil => simp [AllRunsGE]
  | cons x xs => exact okFrom_mono h xs x 1 ht

theorem runLengths_nil : runLengths [] = [] := by simp [runLengths]

theorem runLengths_singleton (x : Int) : runLengths [x] = [1] := by simp [runLengths]

theorem runLengths_cons_cons (x y : Int) (ys : List Int) :
    runLengths (x :: y :: ys) =
      match runLengths (y :: ys) with
      | n :: ns => if x = y then (n + 1) :: ns else 1 :: n :: ns
      | [] => [1] := by
  conv => lhs; unfold runLengths
  cases h : runLengths (y :: ys) <;> simp

/-- `okFrom` read off the list of run lengths: the first run (already `k` long before the list starts)
and all later runs are `≥ τ` -/
theorem okFrom_runLengths (τ : Nat) : ∀ (xs : List Int) (x : Int),
    ∃ n ns, runLengths (x :: xs) = n :: ns ∧
      ∀ k, (okFrom τ x (k + 1) xs ↔ τ ≤ n + k ∧ ∀ m ∈ ns, τ ≤ m) := by
  intro xs
  induction xs with
  | nil =>
    intro x
    refine ⟨1, [], runLengths_singleton x, ?_⟩
    intro k
    simp [okFrom]; omega
  | cons y ys ih =>
    intro x
    obtain ⟨n, ns, e, h⟩ := ih y
    by_cases hy : y = x
    · subst hy
      refine ⟨n + 1, ns, by rw [runLengths_cons_cons, e]; simp, ?_⟩
      intro k
      simp only [okFrom, if_true]
      rw [h (k + 1)]
      constructor <;> rintro ⟨h1, h2⟩ <;> exact ⟨by omega, h2⟩
    · have hxy : ¬ x = y := fun e => hy e.symm
      refine ⟨1, n :: ns, by rw [runLengths_cons_cons, e]; simp [hxy], ?_⟩
      intro k
      simp only [okFrom, if_neg hy]
      rw [h 0]
      simp only [List.mem_cons, forall_eq_or_imp, Nat.add_zero]
      constructor
      · rintro ⟨h1, h2, h3⟩; exact ⟨by omega, h2, h3⟩
      · rintro ⟨h1, h2, h3⟩; exact ⟨by omega, h2, h3⟩

theorem allRunsGE_iff_runLengths' (τ : Nat) (t : List Int) :
    AllRunsGE τ t ↔ ∀ n ∈ runLengths t, τ ≤ n := by
  cases t with
  | nil => simp [AllRunsGE, runLengths_nil]
  | cons x xs =>
    obtain ⟨n, ns, e, h⟩ := okFrom_runLengths τ xs x
    rw [e]
    have := h 0
    simp only [Nat.zero_add, Nat.add_zero] at this
    simp only [AllRunsGE, this, List.mem_cons, forall_eq_or_imp]

/-! ### `Option`-monad bookkeeping -/

theorem mapM_congr_opt {α β : Type} (f g : α → Option β) : ∀ (l : List α),
    (∀ x ∈ l, f x = g x) → l.mapM f = l.mapM g := by
  intro l
  induction l with
  | nil => intro _; rfl
  | cons x xs ih =>
    intro h
    simp only [List.mapM_cons]
    rw [h x (by simp), ih (fun y hy => h y (List.mem_cons_of_mem _ hy))]

/-- Kleisli composition commutes with `mapM` in `Option` (a failure carries no information) -/
theorem mapM_bind_opt {α β γ : Type} (f : α → Option β) (g : β → Option γ) : ∀ (l : List α),
    l.mapM (fun x => f x >>= g) = l.mapM f >>= fun r => r.mapM g := by
  intro l
  induction l with
  | nil => rfl
  | cons x xs ih =>
    simp only [List.mapM_cons, ih]
    cases hf : f x with
    | none => simp
    | some b =>
      cases hfs : xs.mapM f with
      | none => cases hg : g b <;> simp
      | some bs => simp

/-- processing a whole set stage by stage = processing every element through all stages -/
theorem foldlM_mapM_comm {α σ : Type} (f : σ → α → Option α) : ∀ (ss : List σ) (ts : List α),
    ss.foldlM (fun acc s => acc.mapM (f s)) ts = ts.mapM (fun t => ss.foldlM (fun a s => f s a) t) := by
  intro ss
  induction ss with
  | nil =>
    intro ts
    have := List.mapM_pure (m := Option) (l := ts) (f := id)
    simp only [id, List.map_id_fun] at this
    simpa using this.symm
  | cons s ss ih =>
    intro ts
    simp only [List.foldlM_cons]
    rw [mapM_bind_opt]
    cases h : ts.mapM (f s) with
    | none => simp
    | some r => simp [ih]

theorem mapM_eq_none_opt {α β : Type} (f : α → Option β) : ∀ (l : List α),
    l.mapM f = none ↔ ∃ x ∈ l, f x = none := by
  intro l
  induction l with
  | nil => simp
  | cons x xs ih =>
    simp only [List.mapM_cons, List.mem_cons, exists_eq_or_imp]
    cases hf : f x with
    | none => simp
    | some b =>
      cases hfs : xs.mapM f with
      | none => simpa [hfs] using ih
      | some bs => simpa [hfs] using ih

/-- a successful `mapM` relates input and output element by element, in order -/
theorem mapM_eq_some_opt {α β : Type} (f : α → Option β) : ∀ (l : List α) (r : List β),
    l.mapM f = some r ↔ r.length = l.length ∧ ∀ i (h : i < l.length), f l[i] = r[i]? := by
  intro l
  induction l with
  | nil => intro r; cases r <;> simp
  | cons x xs ih =>
    intro r
    simp only [List.mapM_cons]
    cases r with
    | nil =>
      cases hf : f x with
      | none => simp
      | some b => cases hfs : xs.mapM f <;> simp
    | cons y ys =>
      constructor
      · intro h
        cases hf : f x with
        | none => simp [hf] at h
        | some b =>
          cases hfs : xs.mapM f with
          | none => simp [hf, hfs] at h
          | some bs =>
            simp [hf, hfs] at h
            obtain ⟨rfl, rfl⟩ := h
            obtain ⟨h1, h2⟩ := (ih bs).mp hfs
            refine ⟨by simp [h1], ?_⟩
            intro i hi
            cases i with
            | zero => simp [hf]
            | succ i => simpa using h2 i (by simpa using hi)
      · rintro ⟨h1, h2⟩
        have h0 := h2 0 (by simp)
        simp at h0
        have : xs.mapM f = some ys := by
          apply (ih ys).mpr
          refine ⟨by simpa using h1, ?_⟩
          intro i hi
          have := h2 (i + 1) (by simpa using hi)
          simpa using this
        simp [h0, this]

theorem mapM_map_opt {α β γ : Type} (f : α → Option β) (k : β → γ) : ∀ (l : List α),
    l.mapM (fun x => (f x).map k) = (l.mapM f).map (·.map k) := by
  intro l
  induction l with
  | nil => rfl
  | cons x xs ih =>
    simp only [List.mapM_cons, ih]
    cases hf : f x with
    | none => simp
    | some b => cases hfs : xs.mapM f <;> simp

/-- stage-indexed congruence for `foldlM` over consecutive stages `s, s+1, …` under an invariant -/
theorem foldlM_range_congr {α : Type} (f g : Nat → α → Option α) (Inv : Nat → α → Prop)
    (hstep : ∀ s a, Inv s a → f s a = g s a)
    (hpres : ∀ s a b, Inv s a → g s a = some b → Inv (s + 1) b) :
    ∀ (n s : Nat) (a : α), Inv s a →
      ((List.range n).map (· + s)).foldlM (fun acc s => f s acc) a =
      ((List.range n).map (· + s)).foldlM (fun acc s => g s acc) a := by
  intro n
  induction n with
  | zero => intro s a _; simp
  | succ n ih =>
    intro s a h
    have e : (List.range (n + 1)).map (· + s) = s :: (List.range n).map (· + (s + 1)) := by
      rw [List.range_succ_eq_map]
      simp only [List.map_cons, List.map_map, Nat.zero_add, List.cons.injEq, true_and]
      apply List.map_congr_left
      intro i _
      simp only [Function.comp]
      omega
    rw [e]
    simp only [List.foldlM_cons, hstep s a h]
    cases hg : g s a with
    | none => rfl
    | some b => exact ih (s + 1) b (hpres s a b h hg)

/-! ### equivariance under a relabelling that is injective on the labels present -/

section Equivariance
variable (f : Int → Int) (S : List Int) (hinj : ∀ a ∈ S, ∀ b ∈ S, f a = f b → a = b)
include hinj

theorem remains_map (τ : Nat) (x : Int) (rest : List Int) (hx : x ∈ S) (hr : ∀ y ∈ rest, y ∈ S) :
    remains τ (f x :: rest.map f) = remains τ (x :: rest) := by
  simp only [remains, List.length_map]
  congr 1
  rw [← List.map_take, List.all_map]
  rw [Bool.eq_iff_iff]
  simp only [List.all_eq_true, Function.comp, beq_iff_eq]
  constructor
  · intro h y hy
    exact hinj y (hr y (List.mem_of_mem_take hy)) x hx (h y hy)
  · intro h y hy
    rw [h y hy]

theorem firstCore_map (τ : Nat) : ∀ (l : List Int), (∀ y ∈ l, y ∈ S) →
    firstCore τ (l.map f) = (firstCore τ l).map f := by
  intro l
  induction l with
  | nil => intro _; simp [firstCore]
  | cons x xs ih =>
    intro hl
    have hx : x ∈ S := hl x (by simp)
    have hxs : ∀ y ∈ xs, y ∈ S := fun y hy => hl y (List.mem_cons_of_mem _ hy)
    simp only [List.map_cons, firstCore, remains_map f S hinj τ x xs hx hxs]
    split
    · simp
    · exact ih hxs

theorem scanWith_map (τ : Nat) : ∀ (l : List Int) (c : Int), c ∈ S → (∀ y ∈ l, y ∈ S) →
    scanWith (remains τ) (f c) (l.map f) = (scanWith (remains τ) c l).map f := by
  intro l
  induction l with
  | nil => intro c _ _; simp [scanWith]
  | cons x xs ih =>
    intro c hc hl
    have hx : x ∈ S := hl x (by simp)
    have hxs : ∀ y ∈ xs, y ∈ S := fun y hy => hl y (List.mem_cons_of_mem _ hy)
    simp only [List.map_cons, scanWith, remains_map f S hinj τ x xs hx hxs]
    by_cases hxc : x = c
    · subst hxc
      simp [ih x hx hxs]
    · have hfx : ¬ f x = f c := fun e => hxc (hinj x hx c hc e)
      simp only [if_neg hxc, if_neg hfx]
      split
      · simp [ih x hx hxs]
      · simp [ih c hc hxs]

end Equivariance

theorem coreRef_map (f : Int → Int) (τ : Nat) (t : List Int)
    (hinj : ∀ a ∈ t, ∀ b ∈ t, f a = f b → a = b) :
    coreRef τ (t.map f) = (coreRef τ t).map (·.map f) := by
  simp only [coreRef, firstCore_map f t hinj τ t (fun _ h => h)]
  cases hc : firstCore τ t with
  | none => simp
  | some c =>
    simp only [Option.map_some]
    rw [scanWith_map f t hinj τ t c (firstCore_mem τ t c hc) (fun _ h => h)]

/-! ### the schedule and generic `foldlM` facts -/

theorem schedule_false (τ : Nat) : schedule τ false = [τ] := by simp [schedule]

theorem schedule_true_le_one (τ : Nat) (h : τ ≤ 1) : schedule τ true = [] := by
  have : τ - 1 = 0 := by omega
  simp [schedule, this]

theorem schedule_true_succ (τ : Nat) (h : 1 ≤ τ) : schedule (τ + 1) true = schedule τ true ++ [τ + 1] := by
  have e : τ + 1 - 1 = (τ - 1) + 1 := by omega
  simp only [schedule, if_true, e, List.range_succ, List.map_append, List.map_cons, List.map_nil]
  congr 2
  omega

theorem mem_schedule (τ : Nat) (iter : Bool) (hτ : 1 ≤ τ) (s : Nat) (hs : s ∈ schedule τ iter) :
    1 ≤ s ∧ s ≤ τ := by
  cases iter with
  | false => simp [schedule] at hs; omega
  | true =>
    simp only [schedule, if_true, List.mem_map, List.mem_range] at hs
    obtain ⟨i, hi, rfl⟩ := hs
    omega

/-- a relation that is reflexive, transitive and established by every successful step holds between
input and output of a successful `foldlM` -/
theorem foldlM_rel {α σ : Type} (f : σ → α → Option α) (R : α → α → Prop)
    (hrefl : ∀ a, R a a) (htrans : ∀ a b c, R a b → R b c → R a c)
    (hstep : ∀ s a b, f s a = some b → R a b) :
    ∀ (ss : List σ) (a b : α), ss.foldlM (fun acc s => f s acc) a = some b → R a b := by
  intro ss
  induction ss with
  | nil => intro a b h; simp at h; subst h; exact hrefl a
  | cons s ss ih =>
    intro a b h
    simp only [List.foldlM_cons] at h
    cases hf : f s a with
    | none => simp [hf] at h
    | some c =>
      simp [hf] at h
      exact htrans a c b (hstep s a c hf) (ih c b h)

/-- an element fixed by every stage is fixed by the whole pipeline -/
theorem foldlM_fixed {α σ : Type} (f : σ → α → Option α) (a : α) :
    ∀ (ss : List σ), (∀ s ∈ ss, f s a = some a) → ss.foldlM (fun acc s => f s acc) a = some a := by
  intro ss
  induction ss with
  | nil => intro _; simp
  | cons s ss ih =>
    intro h
    simp only [List.foldlM_cons, h s (by simp)]
    simpa using ih (fun s' hs' => h s' (List.mem_cons_of_mem _ hs'))

/-- the result of the pipeline is either the untouched input (iterative mode with `τ ≤ 1`: no stage at all)
or the output of a final stage with window `τ` -/
theorem refOne_last (τ : Nat) (iter : Bool) (t r : List Int) (h : refOne τ iter t = some r) :
    (iter = true ∧ τ ≤ 1 ∧ r = t) ∨ ∃ r', coreRef τ r' = some r := by
  cases iter with
  | false =>
    right
    simp only [refOne, schedule_false, List.foldlM_cons, List.foldlM_nil] at h
    refine ⟨t, ?_⟩
    cases hc : coreRef τ t with
    | none => simp [hc] at h
    | some c => simpa [hc] using h
  | true =>
    by_cases hτ : τ ≤ 1
    · left
      simp only [refOne, schedule_true_le_one τ hτ, List.foldlM_nil] at h
      exact ⟨rfl, hτ, (Option.some.inj h).symm⟩
    · right
      obtain ⟨k, rfl⟩ : ∃ k, τ = k + 1 := ⟨τ - 1, by omega⟩
      simp only [refOne, schedule_true_succ k (by omega), List.foldlM_append, List.foldlM_cons,
        List.foldlM_nil] at h
      cases hc : (schedule k true).foldlM (fun acc s => coreRef s acc) t with
      | none => simp [hc] at h
      | some r' =>
        refine ⟨r', ?_⟩
        cases hc' : coreRef (k + 1) r' with
        | none => simp [hc, hc'] at h
        | some c => simpa [hc, hc'] using h

theorem coreRef_ne_nil (τ : Nat) (t r : List Int) (h : coreRef τ t = some r) : r ≠ [] := by
  simp only [coreRef, Option.map_eq_some_iff] at h
  obtain ⟨c, hc, rfl⟩ := h
  have hm := firstCore_mem τ t c hc
  intro e
  have hl := scanWith_length (remains τ) t c
  rw [e] at hl
  have : t = [] := List.eq_nil_of_length_eq_zero hl.symm
  subst this
  simp at hm

theorem mapM_some_mem_opt {α β : Type} (g : α → Option β) (l : List α) (r : List β)
    (h : l.mapM g = some r) : ∀ q ∈ r, ∃ t ∈ l, g t = some q := by
  obtain ⟨h1, h2⟩ := (mapM_eq_some_opt g l r).mp h
  intro q hq
  obtain ⟨i, hi, rfl⟩ := List.mem_iff_getElem.mp hq
  have hi' : i < l.length := by omega
  refine ⟨l[i], List.getElem_mem hi', ?_⟩
  rw [h2 i hi', List.getElem?_eq_getElem hi]

end MsmVerif.Coring
