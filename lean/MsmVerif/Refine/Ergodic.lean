/-
Refine/Ergodic.lean — task RP6 (properties C14, C04): the predicates TRANSLATED from `src/msmhelper/utils/tests.py`
(`Gen.UtilsTests.is_quadratic`, `is_transition_matrix`, `is_ergodic`, `is_fuzzy_ergodic`, `ergodic_mask`; array dialect over the numpy
runtime `Gen/NpRt.lean`) compute exactly the hand-written models of `Model/Linalg.lean` (`isQuadratic`, `isTmat`, `isErgodic`,
`isFuzzyErgodic`, `ergodicMask`) on every well-formed input (non-empty rectangular 2-d array), and the runtime's matrix operations
(`npTranspose`, `npMul`, `npEye`, `npPowNat`) are the model's (`transpose`, `mul`, `identity`, `powFast`).

Input classes (for a non-empty rectangular array `m` with `rows = m.length`, `cols` = length of the first row):
* square (`Linalg.isSquare m = true`): translated = model for all five functions;
* non-square and "thick" (`rows ≠ 1` and `cols ≠ 1`): `is_transition_matrix` raises `ValueError` (numpy cannot broadcast the row sums
  against the column sums), hence so do `is_ergodic`, `is_fuzzy_ergodic`, `ergodic_mask`; the model says `false` / `none`;
* non-square and "thin" (`rows = 1` or `cols = 1`): translated = model (`false`, resp. `ValueError` for the mask).
The translated `is_ergodic`/`is_fuzzy_ergodic`/`ergodic_mask` call `is_transition_matrix` with the literal default tolerance, not with
their own `atol` argument (as the Python source does); the `…_general` theorems describe them for an arbitrary `atol` argument.
-/
import MsmVerif.Refine.ErgodicLemmas

namespace MsmVerif.Refine.Ergodic
open MsmVerif MsmVerif.Gen MsmVerif.Linalg

/-! ### the runtime's matrix operations are the model's (no hypothesis needed) -/

/-- the runtime's transpose of a rational 2-d array is the model's transpose (for every list of lists, even ragged ones) -/
theorem npTranspose_eq_transpose (b : List (List Rat)) : Gen.npTranspose b = Linalg.transpose b :=
  npTranspose_eq b

/-- the runtime's matrix product is the model's matrix product (for every pair of lists of lists) -/
theorem npMul_eq_mul (a b : List (List Rat)) : Gen.npMul a b = Linalg.mul a b :=
  npMul_eq a b

/-- the runtime's identity matrix `np.eye(n)` is the model's identity matrix -/
theorem npEye_eq_identity (n : Nat) : Gen.npEye n = Linalg.identity n :=
  npEye_eq n

/-- matrix power: the runtime's repeated squaring is the model's repeated squaring, for every array and every exponent -/
theorem npPowNat_eq_powFast (m : List (List Rat)) (k : Nat) : Gen.npPowNat m k = Linalg.powFast m k :=
  npPowNat_eq m k

/-- on a non-empty square array `np.linalg.matrix_power(m, k)` (for `k ≥ 0`) raises nothing and returns the model's `k`-th power
    (`Linalg.pow`, the plain iterated product) -/
theorem npMatrixPower_refines (m : List (List Rat)) (hne : m ≠ []) (hsq : Linalg.isSquare m = true) (k : Nat) :
    Gen.npMatrixPower m (k : Int) = .ok (Linalg.pow m k) := by
  rw [npMatrixPower_eq m hne hsq, powFast_eq_pow (WF_of_isSquare hsq)]

example : Gen.npMatrixPower [[1/2, 1/2], [1, 0]] 2 = .ok [[3/4, 1/4], [1/2, 1/2]] := by decide +kernel

/-- row sums and column sums of the runtime are the model's (for every list of lists) -/
theorem npSums_eq (m : List (List Rat)) :
    Gen.npSumAxis1 m = Linalg.rowSums m ∧ Gen.npSumAxis0 m = Linalg.colSums m :=
  ⟨npSumAxis1_eq m, npSumAxis0_eq m⟩

/-! ### `is_quadratic` -/

/-- `is_quadratic`: on every non-empty rectangular 2-d array the translated function returns (without exception) the model's answer:
    square and not 1×1 -/
theorem is_quadratic_refines (m : List (List Rat)) (hrect : Gen.npRect m = true) (hne : m ≠ []) :
    Gen.UtilsTests.is_quadratic m = .ok (Linalg.isQuadratic m) :=
  is_quadratic_eq m hrect hne

-- non-vacuity
example : Gen.npRect [[(1 : Rat) / 2, 1 / 2], [1, 0]] = true ∧ [[(1 : Rat) / 2, 1 / 2], [1, 0]] ≠ [] := by decide +kernel
example : Gen.UtilsTests.is_quadratic [[(1 : Rat) / 2, 1 / 2], [1, 0]] = .ok true := by decide +kernel
example : Gen.UtilsTests.is_quadratic [[(1 : Rat) / 2, 1 / 2, 0], [1, 0, 0]] = .ok false := by decide +kernel
-- `hne` is needed: on the empty list (which `np.atleast_2d` never produces; its shape would be `(0, 0)`) the translation says `True`,
-- the model `false`
example : Gen.UtilsTests.is_quadratic [] = .ok true ∧ Linalg.isQuadratic [] = false := by decide +kernel
-- `hrect` is needed: on a ragged list the shape `(2, 2)` is read off the first row only
example : Gen.UtilsTests.is_quadratic [[1, 2], [3]] = .ok true ∧ Linalg.isQuadratic [[1, 2], [3]] = false := by decide +kernel

/-! ### `is_transition_matrix` -/

/-- `is_transition_matrix(m)` with the default tolerance: on a non-empty SQUARE array it returns (without exception) the model's answer
    `Linalg.isTmat m`. (A square array is rectangular, so no separate `npRect` hypothesis is needed.) -/
theorem is_tmat_refines (m : List (List Rat)) (hne : m ≠ []) (hsq : Linalg.isSquare m = true) :
    Gen.UtilsTests.is_transition_matrix m Linalg.atol = .ok (Linalg.isTmat m) :=
  is_tmat_eq m hne hsq atol

/-- `is_transition_matrix(m, atol=a)` for an arbitrary tolerance `a` on a non-empty square array: quadratic (square, not 1×1) and every
    row sum `r` with column sum `c` of the same index satisfies `|r - 1| ≤ a` or `r = 0 ∧ c = 0` -/
theorem is_tmat_general (m : List (List Rat)) (hne : m ≠ []) (hsq : Linalg.isSquare m = true) (a : Rat) :
    Gen.UtilsTests.is_transition_matrix m a
      = .ok (Linalg.isQuadratic m && (List.zip (Linalg.rowSums m) (Linalg.colSums m)).all
          (fun p => decide (Linalg.absQ (p.1 - 1) ≤ a) || !(p.1 != 0 || p.2 != 0))) :=
  is_tmat_eq m hne hsq a

/-- a square array is rectangular -/
theorem npRect_of_square (m : List (List Rat)) (hsq : Linalg.isSquare m = true) : Gen.npRect m = true :=
  npRect_of_isSquare hsq

/-- for a non-empty rectangular array, "square" in the model's sense means that the two entries of the numpy shape agree -/
theorem isSquare_iff_shape (m : List (List Rat)) (hrect : Gen.npRect m = true) (hne : m ≠ []) :
    Linalg.isSquare m = true ↔ Gen.npShape0 m = Gen.npShape1 m :=
  isSquare_iff_of_rect hrect hne

/-- `is_transition_matrix` on a non-square rectangular array whose number of rows and number of columns are both different
    from 1: the row sums (length = rows) cannot be broadcast against the column sums (length = cols), numpy raises `ValueError`
    — for every tolerance. The model (and the harness) treat this as "not a transition matrix" (`Linalg.isTmat m = false`). -/
theorem is_tmat_nonsquare (m : List (List Rat)) (hrect : Gen.npRect m = true) (hne : m ≠ [])
    (hsq : Linalg.isSquare m = false) (hrows : m.length ≠ 1) (hcols : (m.getD 0 []).length ≠ 1) (a : Rat) :
    Gen.UtilsTests.is_transition_matrix m a = .error .value ∧ Linalg.isTmat m = false :=
  ⟨is_tmat_error m (length_ne_of_not_square hrect hne hsq) hrows hcols a, isTmat_of_not_square hsq⟩

/-- `is_transition_matrix` on a non-square rectangular array that has exactly one row or exactly one column: broadcasting succeeds,
    `is_quadratic` fails, the answer is `False` — the model's answer -/
theorem is_tmat_nonsquare_thin (m : List (List Rat)) (hrect : Gen.npRect m = true) (hne : m ≠ [])
    (hsq : Linalg.isSquare m = false) (h : m.length = 1 ∨ (m.getD 0 []).length = 1) (a : Rat) :
    Gen.UtilsTests.is_transition_matrix m a = .ok (Linalg.isTmat m) := by
  rw [isTmat_of_not_square hsq]
  exact is_tmat_thin m hrect hne hsq h a

-- non-vacuity
example : Linalg.isSquare [[(1 : Rat) / 2, 1 / 2], [1, 0]] = true := by decide +kernel
example : Gen.UtilsTests.is_transition_matrix [[(1 : Rat) / 2, 1 / 2], [1, 0]] Linalg.atol = .ok true := by decide +kernel
example : Gen.UtilsTests.is_transition_matrix [[(1 : Rat) / 2, 1 / 3], [1, 0]] Linalg.atol = .ok false := by decide +kernel
example : Gen.UtilsTests.is_transition_matrix [[(1 : Rat) / 2, 1 / 2, 0], [0, 0, 0], [1, 0, 0]] Linalg.atol = .ok false := by
  decide +kernel
example : Gen.UtilsTests.is_transition_matrix [[(1 : Rat) / 2, 0, 1 / 2], [0, 0, 0], [1, 0, 0]] Linalg.atol = .ok true := by
  decide +kernel
-- `hsq` is needed in `is_tmat_refines` (2×3: exception instead of the model's `false`); hypotheses of `is_tmat_nonsquare` hold here
example : Gen.UtilsTests.is_transition_matrix [[(1 : Rat) / 2, 1 / 2, 0], [1, 0, 0]] Linalg.atol = .error .value
    ∧ Linalg.isTmat [[(1 : Rat) / 2, 1 / 2, 0], [1, 0, 0]] = false
    ∧ Gen.npRect [[(1 : Rat) / 2, 1 / 2, 0], [1, 0, 0]] = true
    ∧ Linalg.isSquare [[(1 : Rat) / 2, 1 / 2, 0], [1, 0, 0]] = false := by decide +kernel
-- the thin case: one row
example : Gen.UtilsTests.is_transition_matrix [[(1 : Rat) / 2, 1 / 2, 0]] Linalg.atol = .ok false := by decide +kernel
-- the thin case: one column
example : Gen.UtilsTests.is_transition_matrix [[(1 : Rat)], [1], [0]] Linalg.atol = .ok false := by decide +kernel

/-! ### `is_ergodic` -/

/-- `is_ergodic(m)` with the default tolerance on a non-empty square array: no exception, and the answer is the model's
    `Linalg.isErgodic m` — in particular the exponent computed from `len(matrix)` is Wielandt's `(n-1)² + 1` and
    `np.linalg.matrix_power` is the model's power -/
theorem is_ergodic_refines (m : List (List Rat)) (hne : m ≠ []) (hsq : Linalg.isSquare m = true) :
    Gen.UtilsTests.is_ergodic m Linalg.atol = .ok (Linalg.isErgodic m) :=
  is_ergodic_eq m hne hsq atol

/-- `is_ergodic(m, atol=a)` for an arbitrary `a` on a non-empty square array: a transition matrix w.r.t. the DEFAULT tolerance
    (the argument `a` is not passed on to `is_transition_matrix`) all of whose entries of the `((n-1)²+1)`-th power exceed `a` -/
theorem is_ergodic_general (m : List (List Rat)) (hne : m ≠ []) (hsq : Linalg.isSquare m = true) (a : Rat) :
    Gen.UtilsTests.is_ergodic m a
      = .ok (Linalg.isTmat m &&
          (Linalg.pow m ((m.length - 1) * (m.length - 1) + 1)).all (fun r => r.all (fun x => decide (a < x)))) := by
  rw [is_ergodic_eq m hne hsq a, isErgodicTol, powFast_eq_pow (WF_of_isSquare hsq)]
  rfl

/-- the exponent computed by the translated code in `Int` arithmetic, `(len - 1)**2 + 1`, is the model's `wielandtExp` -/
theorem exponent_refines (n : Nat) (hn : 1 ≤ n) : (((n : Int) - 1) ^ 2 + 1) = ((Linalg.wielandtExp n : Nat) : Int) :=
  exponent_eq n hn

/-- `is_ergodic` on a non-square rectangular array with `rows ≠ 1`, `cols ≠ 1` raises `ValueError` (from `is_transition_matrix`),
    whereas the model answers `false`: the hypothesis `hsq` of `is_ergodic_refines` cannot be dropped -/
theorem is_ergodic_nonsquare (m : List (List Rat)) (hrect : Gen.npRect m = true) (hne : m ≠ [])
    (hsq : Linalg.isSquare m = false) (hrows : m.length ≠ 1) (hcols : (m.getD 0 []).length ≠ 1) (a : Rat) :
    Gen.UtilsTests.is_ergodic m a = .error .value :=
  is_ergodic_error m a (is_tmat_error m (length_ne_of_not_square hrect hne hsq) hrows hcols _)

/-- `is_ergodic` on a non-square rectangular array with one row or one column: `False`, as the model says -/
theorem is_ergodic_nonsquare_thin (m : List (List Rat)) (hrect : Gen.npRect m = true) (hne : m ≠ [])
    (hsq : Linalg.isSquare m = false) (h : m.length = 1 ∨ (m.getD 0 []).length = 1) (a : Rat) :
    Gen.UtilsTests.is_ergodic m a = .ok (Linalg.isErgodic m) := by
  rw [is_ergodic_false m a (is_tmat_thin m hrect hne hsq h _)]
  simp [isErgodic, isTmat_of_not_square hsq]

-- non-vacuity
example : Gen.UtilsTests.is_ergodic [[(1 : Rat) / 2, 1 / 2], [1, 0]] Linalg.atol = .ok true := by decide +kernel
example : Gen.UtilsTests.is_ergodic [[(0 : Rat), 1], [1, 0]] Linalg.atol = .ok false := by decide +kernel
example : Gen.UtilsTests.is_ergodic [[(0 : Rat), 1, 0], [0, 0, 1], [1 / 2, 1 / 2, 0]] Linalg.atol = .ok true := by decide +kernel
example : Gen.UtilsTests.is_ergodic [[(1 : Rat) / 2, 1 / 2, 0], [1, 0, 0]] Linalg.atol = .error .value
    ∧ Linalg.isErgodic [[(1 : Rat) / 2, 1 / 2, 0], [1, 0, 0]] = false := by decide +kernel

/-! ### `is_fuzzy_ergodic` -/

/-- `is_fuzzy_ergodic(m)` with the default tolerance on a non-empty square array: no exception, and the answer is the model's
    `Linalg.isFuzzyErgodic m` -/
theorem is_fuzzy_ergodic_refines (m : List (List Rat)) (hne : m ≠ []) (hsq : Linalg.isSquare m = true) :
    Gen.UtilsTests.is_fuzzy_ergodic m Linalg.atol = .ok (Linalg.isFuzzyErgodic m) :=
  is_fuzzy_ergodic_eq m hne hsq atol

/-- `is_fuzzy_ergodic(m, atol=a)` for an arbitrary `a` on a non-empty square array: a transition matrix w.r.t. the default tolerance such
    that for all `i, j` the `(i,j)` entry of the `((n-1)²+1)`-th power is positive or `i` or `j` is a "trap" state, i.e. its
    row sum + column sum is within `a` of 2 or of 0 -/
theorem is_fuzzy_ergodic_general (m : List (List Rat)) (hne : m ≠ []) (hsq : Linalg.isSquare m = true) (a : Rat) :
    Gen.UtilsTests.is_fuzzy_ergodic m a
      = .ok (Linalg.isTmat m &&
          (let trap := ((List.zip (Linalg.rowSums m) (Linalg.colSums m)).map (fun p => p.1 + p.2)).map
              (fun s => decide (Linalg.absQ (s - 2) ≤ a) || decide (Linalg.absQ s ≤ a))
           let p := Linalg.pow m ((m.length - 1) * (m.length - 1) + 1)
           (List.range m.length).all (fun i => (List.range m.length).all (fun j =>
             decide (0 < Linalg.entry p i j) || trap.getD i false || trap.getD j false)))) := by
  rw [is_fuzzy_ergodic_eq m hne hsq a, isFuzzyErgodicTol, powFast_eq_pow (WF_of_isSquare hsq)]
  rfl

/-- `is_fuzzy_ergodic` on a non-square rectangular array with `rows ≠ 1`, `cols ≠ 1` raises `ValueError`; the model answers `false` -/
theorem is_fuzzy_ergodic_nonsquare (m : List (List Rat)) (hrect : Gen.npRect m = true) (hne : m ≠ [])
    (hsq : Linalg.isSquare m = false) (hrows : m.length ≠ 1) (hcols : (m.getD 0 []).length ≠ 1) (a : Rat) :
    Gen.UtilsTests.is_fuzzy_ergodic m a = .error .value :=
  is_fuzzy_ergodic_error m a (is_tmat_error m (length_ne_of_not_square hrect hne hsq) hrows hcols _)

/-- `is_fuzzy_ergodic` on a non-square rectangular array with one row or one column: `False`, as the model says -/
theorem is_fuzzy_ergodic_nonsquare_thin (m : List (List Rat)) (hrect : Gen.npRect m = true) (hne : m ≠ [])
    (hsq : Linalg.isSquare m = false) (h : m.length = 1 ∨ (m.getD 0 []).length = 1) (a : Rat) :
    Gen.UtilsTests.is_fuzzy_ergodic m a = .ok (Linalg.isFuzzyErgodic m) := by
  rw [is_fuzzy_ergodic_false m a (is_tmat_thin m hrect hne hsq h _)]
  simp [isFuzzyErgodic, isTmat_of_not_square hsq]

-- non-vacuity
example : Gen.UtilsTests.is_fuzzy_ergodic [[(1 : Rat) / 2, 1 / 2], [1, 0]] Linalg.atol = .ok true := by decide +kernel
example : Gen.UtilsTests.is_fuzzy_ergodic [[(1 : Rat) / 2, 1 / 2, 0], [1, 0, 0], [0, 0, 1]] Linalg.atol = .ok true := by
  decide +kernel
example : Gen.UtilsTests.is_ergodic [[(1 : Rat) / 2, 1 / 2, 0], [1, 0, 0], [0, 0, 1]] Linalg.atol = .ok false := by
  decide +kernel
example : Gen.UtilsTests.is_fuzzy_ergodic [[(1 : Rat) / 2, 1 / 2, 0], [0, 1, 0], [0, 1 / 2, 1 / 2]] Linalg.atol = .ok false := by
  decide +kernel

/-! ### `ergodic_mask` -/

/-- `ergodic_mask(m)` with the default tolerance, for EVERY non-empty rectangular array (square or not): it raises `ValueError` exactly
    when the model returns `none` (not a transition matrix — this includes all non-square arrays, where the exception comes either from
    the explicit `raise` or from numpy's broadcasting), and otherwise returns the model's mask -/
theorem ergodic_mask_refines (m : List (List Rat)) (hrect : Gen.npRect m = true) (hne : m ≠ []) :
    Gen.UtilsTests.ergodic_mask m Linalg.atol
      = (match Linalg.ergodicMask m with | some b => .ok b | none => .error .value) := by
  cases hsq : isSquare m with
  | true =>
    rw [ergodic_mask_eq m hne hsq atol, ergodicMaskTol_atol]
    cases ergodicMask m <;> rfl
  | false =>
    have hm : ergodicMask m = none := by simp [ergodicMask, isTmat_of_not_square hsq]
    rw [hm]
    by_cases h : m.length = 1 ∨ (m.getD 0 []).length = 1
    · exact ergodic_mask_false m _ (is_tmat_thin m hrect hne hsq h _)
    · exact ergodic_mask_error m _
        (is_tmat_error m (length_ne_of_not_square hrect hne hsq) (fun e => h (Or.inl e)) (fun e => h (Or.inr e)) _)

/-- `ergodic_mask(m, atol=a)` for an arbitrary `a` on a non-empty square array: `ValueError` iff `m` is not a transition matrix w.r.t.
    the default tolerance; otherwise state `i` is marked iff its count `#{j : P[i][j] > a ∧ P[j][i] > a}` (`P` the
    `((n-1)²+1)`-th power) is the maximal count -/
theorem ergodic_mask_general (m : List (List Rat)) (hne : m ≠ []) (hsq : Linalg.isSquare m = true) (a : Rat) :
    Gen.UtilsTests.ergodic_mask m a
      = if Linalg.isTmat m then
          (let p := Linalg.pow m ((m.length - 1) * (m.length - 1) + 1)
           let cnt := (List.range m.length).map (fun i => ((List.range m.length).filter
              (fun j => decide (a < Linalg.entry p i j) && decide (a < Linalg.entry p j i))).length)
           .ok (cnt.map (fun c => c == cnt.foldl max 0)))
        else .error .value := by
  rw [ergodic_mask_eq m hne hsq a, ergodicMaskTol, powFast_eq_pow (WF_of_isSquare hsq)]
  cases isTmat m <;> rfl

/-- when `ergodic_mask` succeeds the mask has one entry per state -/
theorem ergodic_mask_length (m : List (List Rat)) (hrect : Gen.npRect m = true) (hne : m ≠ []) (mask : List Bool)
    (h : Gen.UtilsTests.ergodic_mask m Linalg.atol = .ok mask) : mask.length = m.length := by
  rw [ergodic_mask_refines m hrect hne] at h
  cases hm : ergodicMask m with
  | none => rw [hm] at h; cases h
  | some b =>
    rw [hm] at h
    cases h
    exact length_ergodicMask hm

-- non-vacuity
example : Gen.UtilsTests.ergodic_mask [[(1 : Rat) / 2, 1 / 2, 0], [1, 0, 0], [0, 0, 1]] Linalg.atol
    = .ok [true, true, false] := by decide +kernel
example : Gen.UtilsTests.ergodic_mask [[(1 : Rat) / 2, 1 / 2], [1, 0]] Linalg.atol = .ok [true, true] := by decide +kernel
example : Gen.UtilsTests.ergodic_mask [[(1 : Rat) / 2, 1 / 3], [1, 0]] Linalg.atol = .error .value
    ∧ Linalg.ergodicMask [[(1 : Rat) / 2, 1 / 3], [1, 0]] = none := by decide +kernel
example : Gen.UtilsTests.ergodic_mask [[(1 : Rat) / 2, 1 / 2, 0], [1, 0, 0]] Linalg.atol = .error .value := by decide +kernel
example : Gen.UtilsTests.ergodic_mask [[(1 : Rat) / 2, 1 / 2, 0]] Linalg.atol = .error .value := by decide +kernel

end MsmVerif.Refine.Ergodic
