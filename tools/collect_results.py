#!/usr/bin/env python3
"""tools/collect_results.py <trial-log> … (chronological) — append the outcomes printed by tools/trial.sh to seeded/RESULTS.json and
rewrite seeded/RESULTS.md (one row per seeded change × check: every attempt in order, the last one counts)."""
import json, os, re, sys, time
HOME = os.path.dirname(os.path.dirname(os.path.abspath(__file__)))
jpath = os.path.join(HOME, 'seeded', 'RESULTS.json')
data = json.load(open(jpath)) if os.path.exists(jpath) else {'attempts': []}
seen = {(a['id'], a['check'], a['log'], a['line']) for a in data['attempts']}
for log in sys.argv[1:]:
    for n, line in enumerate(open(log)):
        m = re.match(r'(\S+) (C\d\d) (quick|thorough) exit=(\d+)\s*(.*)$', line.strip())
        if not m:
            continue
        key = (m.group(1), m.group(2), os.path.basename(log), n)
        if key in seen:
            continue
        rest = m.group(5)
        outcome = 'missed'
        if int(m.group(4)) == 1 and 'VIOLATION' in rest:
            outcome = 'reported (no-failing-input-found)' if 'no-failing-input-found' in rest else 'reported with failing input'
        elif int(m.group(4)) not in (0, 1):
            outcome = 'machinery exit %s' % m.group(4)
        data['attempts'].append({'id': m.group(1), 'check': m.group(2), 'tier': m.group(3), 'exit': int(m.group(4)), 'outcome': outcome,
                                 'log': os.path.basename(log), 'line': n, 'date': time.strftime('%Y-%m-%d')})
json.dump(data, open(jpath, 'w'), indent=1)
rows = {}
for a in data['attempts']:
    rows.setdefault((a['id'], a['check']), []).append(a['outcome'])
out = ['# Mutation trials', '',
       'Each seeded change applied in a scratch worktree (`tools/trial.sh <id> <Cxx> <worktree>`), the check of the named property run against it',
       '(quick tier unless noted). "reported with failing input" = exit 1 with a VIOLATION line and a replay holding a concrete input on which the',
       'property fails on the changed code. Attempts are listed in order; checks were strengthened between attempts (DESIGN §10).', '',
       '| seeded change | check | attempts (in order) | final |', '|---|---|---|---|']
nrep = 0
for (i, c), outs in sorted(rows.items()):
    final = outs[-1]
    nrep += final.startswith('reported')
    out.append('| %s | %s | %s | %s |' % (i, c, ' → '.join(outs), final))
out += ['', '%d (change, check) pairs, %d reported at the last attempt.' % (len(rows), nrep), '']
open(os.path.join(HOME, 'seeded', 'RESULTS.md'), 'w').write('\n'.join(out))
print(len(rows), nrep)
