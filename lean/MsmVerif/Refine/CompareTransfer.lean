/-
Refine/CompareTransfer.lean — task RP36: the laws of C13 (`md.compare_discretization`) and C15 (the relabelling utilities of
`utils/_utils.py`) stated DIRECTLY about the TRANSLATED public functions (`Gen.MdCompareApi.compare_discretization_api_*`,
`Gen.UtilsRelabel.shift_data / rename_by_index / unique`), obtained by combining the refinement theorems
(`Refine/Public2.lean`, `Refine/Relabel.lean`: translated function = model) with the property theorems
(`Props/C13.lean`, `Props/C15.lean`: the model satisfies the law).
-/
import MsmVerif.Refine.Public2
import MsmVerif.Refine.Relabel
import MsmVerif.Props.C13
import MsmVerif.Props.C15
import MsmVerif.Lemmas.Relabelling
open MsmVerif MsmVerif.Gen

namespace MsmVerif.Refine.CompareTransfer
open MsmVerif.Compare MsmVerif.Relabelling

/-! ## 0. notation and hypotheses -/

/-- notation: the translated public `compare_discretization(..., method='symmetric')` called on the attributes
(`index_trajs_flatten`, `nstates`, `nframes`) of two `StateTraj` objects -/
abbrev symApi (s1 s2 : StateTraj) (flag : Bool) : Py Rat :=
  Gen.MdCompareApi.compare_discretization_api_symmetric s1.idx.flatten s1.nstates s1.nframes s2.idx.flatten s2.nstates
    s2.nframes flag

/-- notation: the translated public `compare_discretization(..., method='directed')` called on the attributes of two objects -/
abbrev dirApi (s1 s2 : StateTraj) (flag : Bool) : Py Rat :=
  Gen.MdCompareApi.compare_discretization_api_directed s1.idx.flatten s1.nstates s1.nframes s2.idx.flatten s2.nstates
    s2.nframes flag

/-- the hypotheses of the refinement theorem `Public2.compare_api_refines`: `s1`, `s2` are the objects the constructor builds from
the trajectory sets `t1`, `t2`, whose labels lie in `[-2^29, 2^29]`, and not both sets are without any frame -/
structure Admissible (t1 t2 : Trajs) (s1 s2 : StateTraj) : Prop where
  mk1 : StateTraj.mk' t1 = .ok s1
  mk2 : StateTraj.mk' t2 = .ok s2
  guard1 : LabelGuard t1
  guard2 : LabelGuard t2
  nonempty : t1.flatten ≠ [] ∨ t2.flatten ≠ []

/-- the input is rejected by the documented checks: unequal frame counts or a labeling with exactly one distinct label -/
def Rejected (t1 t2 : Trajs) : Prop :=
  t1.flatten.length ≠ t2.flatten.length ∨ (states t1).length = 1 ∨ (states t2).length = 1

theorem Admissible.swap {t1 t2 : Trajs} {s1 s2 : StateTraj} (H : Admissible t1 t2 s1 s2) : Admissible t2 t1 s2 s1 :=
  ⟨H.mk2, H.mk1, H.guard2, H.guard1, H.nonempty.symm⟩

theorem Rejected.swap {t1 t2 : Trajs} (h : Rejected t1 t2) : Rejected t2 t1 := by
  unfold Rejected at *
  rcases h with h | h | h
  · exact Or.inl (fun e => h e.symm)
  · exact Or.inr (Or.inr h)
  · exact Or.inr (Or.inl h)

/-- non-vacuity of `Admissible` (and of `¬ Rejected`): two ragged sets with 4 frames, labels `1, 5` and `3, 4` -/
example : Admissible [[1, 1], [5, 5]] [[3, 4, 4], [4]] ⟨[[0, 0], [1, 1]], [1, 5]⟩ ⟨[[0, 1, 1], [1]], [3, 4]⟩ :=
  ⟨by decide +kernel, by decide +kernel, by decide, by decide, Or.inl (by decide)⟩
example : ¬ Rejected [[1, 1], [5, 5]] [[3, 4, 4], [4]] := by unfold Rejected; decide +kernel

/-! ## 1. C13 for the translated `compare_discretization` -/

/-- **C13, value.**  On admissible input that is not rejected the translated public function returns — no error, either flag — the
per-frame similarity of the RAW labels: `symmetricFrames` for `method='symmetric'`, `directedFrames` for `method='directed'`. -/
theorem api_value {t1 t2 : Trajs} {s1 s2 : StateTraj} (H : Admissible t1 t2 s1 s2) (hr : ¬ Rejected t1 t2) (flag : Bool) :
    symApi s1 s2 flag = .ok (symmetricFrames t1.flatten t2.flatten) ∧
    dirApi s1 s2 flag = .ok (directedFrames t1.flatten t2.flatten) := by
  unfold Rejected at hr
  have hlen : t1.flatten.length = t2.flatten.length := by
    by_cases h : t1.flatten.length = t2.flatten.length
    · exact h
    · exact absurd (Or.inl h) hr
  have hs1 : (states t1).length ≠ 1 := fun h => hr (Or.inr (Or.inl h))
  have hs2 : (states t2).length ≠ 1 := fun h => hr (Or.inr (Or.inr h))
  have hne : t1.flatten ≠ [] := by
    rcases H.nonempty with h | h
    · exact h
    · intro h0
      apply h
      rw [h0] at hlen
      exact List.eq_nil_of_length_eq_zero hlen.symm
  have := Public2.compare_api_meets_spec t1 t2 s1 s2 H.mk1 H.mk2 H.guard1 H.guard2 hne hlen hs1 hs2 flag
  rw [C13.frames_eq_spec_symmetric, C13.frames_eq_spec_directed]
  exact this

/-- **C13, rejection (clause "unequal frame counts / single-state labelings are rejected").**  On admissible input the translated
public function (either method, either flag) raises `ValueError` exactly when the frame counts differ or one labeling has exactly
one distinct label. -/
theorem api_error_iff {t1 t2 : Trajs} {s1 s2 : StateTraj} (H : Admissible t1 t2 s1 s2) (flag : Bool) :
    (symApi s1 s2 flag = .error .value ↔ Rejected t1 t2) ∧ (dirApi s1 s2 flag = .error .value ↔ Rejected t1 t2) :=
  Public2.compare_api_value_error_iff t1 t2 s1 s2 H.mk1 H.mk2 H.guard1 H.guard2 H.nonempty flag

/-- **C13, rejection of unequal frame counts.** -/
theorem api_rejects_unequal_frames {t1 t2 : Trajs} {s1 s2 : StateTraj} (H : Admissible t1 t2 s1 s2)
    (h : t1.flatten.length ≠ t2.flatten.length) (flag : Bool) :
    symApi s1 s2 flag = .error .value ∧ dirApi s1 s2 flag = .error .value :=
  ⟨(api_error_iff H flag).1.mpr (Or.inl h), (api_error_iff H flag).2.mpr (Or.inl h)⟩

/-- **C13, rejection of a single-state labeling** (either argument). -/
theorem api_rejects_single_state {t1 t2 : Trajs} {s1 s2 : StateTraj} (H : Admissible t1 t2 s1 s2)
    (h : (states t1).length = 1 ∨ (states t2).length = 1) (flag : Bool) :
    symApi s1 s2 flag = .error .value ∧ dirApi s1 s2 flag = .error .value :=
  ⟨(api_error_iff H flag).1.mpr (Or.inr h), (api_error_iff H flag).2.mpr (Or.inr h)⟩

/-- **C13, clause "the value lies in [0,1]".**  On admissible, not rejected input both translated methods return a value `v`
(no error) with `0 ≤ v ≤ 1`. -/
theorem api_range {t1 t2 : Trajs} {s1 s2 : StateTraj} (H : Admissible t1 t2 s1 s2) (hr : ¬ Rejected t1 t2) (flag : Bool) :
    (∃ v, symApi s1 s2 flag = .ok v ∧ 0 ≤ v ∧ v ≤ 1) ∧ (∃ v, dirApi s1 s2 flag = .ok v ∧ 0 ≤ v ∧ v ≤ 1) :=
  ⟨⟨_, (api_value H hr flag).1, C13.range_symmetric _ _⟩, ⟨_, (api_value H hr flag).2, C13.range_directed _ _⟩⟩

/-- **C13, clause "the value lies in [0,1]", without the acceptance hypothesis.**  On admissible input, WHATEVER the translated
function returns as a value lies in `[0,1]`. -/
theorem api_range_of_ok {t1 t2 : Trajs} {s1 s2 : StateTraj} (H : Admissible t1 t2 s1 s2) (flag : Bool) (v : Rat)
    (hv : symApi s1 s2 flag = .ok v ∨ dirApi s1 s2 flag = .ok v) : 0 ≤ v ∧ v ≤ 1 := by
  by_cases hr : Rejected t1 t2
  · rcases hv with hv | hv
    · rw [(api_error_iff H flag).1.mpr hr] at hv; cases hv
    · rw [(api_error_iff H flag).2.mpr hr] at hv; cases hv
  · rcases hv with hv | hv
    · rw [(api_value H hr flag).1] at hv
      cases hv
      exact C13.range_symmetric _ _
    · rw [(api_value H hr flag).2] at hv
      cases hv
      exact C13.range_directed _ _

/-- **C13, clause "identical partitions give 1".**  A trajectory set (labels within the guard, at least one frame, not exactly one
distinct label) compared with itself gives exactly `1`, for both methods. -/
theorem api_identical {t : Trajs} {s : StateTraj} (hmk : StateTraj.mk' t = .ok s) (hg : LabelGuard t) (hne : t.flatten ≠ [])
    (hs : (states t).length ≠ 1) (flag : Bool) :
    symApi s s flag = .ok 1 ∧ dirApi s s flag = .ok 1 := by
  have H : Admissible t t s s := ⟨hmk, hmk, hg, hg, Or.inl hne⟩
  have hr : ¬ Rejected t t := by
    unfold Rejected
    rintro (h | h | h)
    · exact h rfl
    · exact hs h
    · exact hs h
  have := api_value H hr flag
  rw [C13.identical_symmetric _ hne, C13.identical_directed _ hne] at this
  exact this

example : StateTraj.mk' [[1, 1], [5, 5]] = .ok ⟨[[0, 0], [1, 1]], [1, 5]⟩ ∧ LabelGuard [[1, 1], [5, 5]] ∧
    ([[1, 1], [5, 5]] : Trajs).flatten ≠ [] ∧ (states [[1, 1], [5, 5]]).length ≠ 1 := by decide +kernel
example : symApi ⟨[[0, 0], [1, 1]], [1, 5]⟩ ⟨[[0, 0], [1, 1]], [1, 5]⟩ true = .ok 1 := by decide +kernel

/-- **C13, clause "symmetric ≥ directed".**  On admissible, not rejected input both methods return values and the symmetric one is
at least the directed one. -/
theorem api_sym_ge_dir {t1 t2 : Trajs} {s1 s2 : StateTraj} (H : Admissible t1 t2 s1 s2) (hr : ¬ Rejected t1 t2) (flag flag' : Bool) :
    ∃ vs vd, symApi s1 s2 flag = .ok vs ∧ dirApi s1 s2 flag' = .ok vd ∧ vd ≤ vs :=
  ⟨_, _, (api_value H hr flag).1, (api_value H hr flag').2, C13.sym_ge_dir _ _⟩

/-- **C13, clause "the symmetric value is unchanged when the arguments are swapped"** — errors included: on admissible input the
translated `method='symmetric'` call returns the same result (value or `ValueError`) for `(s1, s2)` and `(s2, s1)`. -/
theorem api_sym_swap {t1 t2 : Trajs} {s1 s2 : StateTraj} (H : Admissible t1 t2 s1 s2) (flag flag' : Bool) :
    symApi s1 s2 flag = symApi s2 s1 flag' := by
  by_cases hr : Rejected t1 t2
  · rw [(api_error_iff H flag).1.mpr hr, (api_error_iff H.swap flag').1.mpr hr.swap]
  · have hr' : ¬ Rejected t2 t1 := fun h => hr h.swap
    rw [(api_value H hr flag).1, (api_value H.swap hr' flag').1]
    have hlen : t1.flatten.length = t2.flatten.length := by
      by_cases h : t1.flatten.length = t2.flatten.length
      · exact h
      · exact absurd (Or.inl h) hr
    rw [C13.sym_swap _ _ hlen]

/-- **C13, clause "directed = 1 iff the second labeling refines the first".**  On admissible, not rejected input the translated
`method='directed'` call returns exactly `1` if and only if any two frames with equal label in the second set have equal label in the
first set (frames as pairs `(label in t1, label in t2)` of the concatenated trajectories). -/
theorem api_directed_one_iff {t1 t2 : Trajs} {s1 s2 : StateTraj} (H : Admissible t1 t2 s1 s2) (hr : ¬ Rejected t1 t2) (flag : Bool) :
    dirApi s1 s2 flag = .ok 1 ↔
      ∀ p ∈ t1.flatten.zip t2.flatten, ∀ q ∈ t1.flatten.zip t2.flatten, p.2 = q.2 → p.1 = q.1 := by
  have hlen : t1.flatten.length = t2.flatten.length := by
    by_cases h : t1.flatten.length = t2.flatten.length
    · exact h
    · exact absurd (Or.inl h) hr
  have hne : t1.flatten ≠ [] := by
    rcases H.nonempty with h | h
    · exact h
    · intro h0
      apply h
      rw [h0] at hlen
      exact List.eq_nil_of_length_eq_zero hlen.symm
  rw [(api_value H hr flag).2, ← C13.refines_iff _ _ hlen hne]
  constructor
  · intro h; exact Except.ok.inj h
  · intro h; rw [h]

/-- **C13, clause "invariance under renaming labels"** — errors included.  Rename the labels of the first set by `f` and of the second
by `g`, each injective on the labels that occur, such that the renamed sets are again within the label guard; let `s1'`, `s2'` be the
objects built from the renamed sets.  Then both translated methods return on `(s1', s2')` exactly what they return on `(s1, s2)`. -/
theorem api_rename {t1 t2 : Trajs} {s1 s2 s1' s2' : StateTraj} (H : Admissible t1 t2 s1 s2) (f g : Int → Int)
    (hf : InjOn f t1.flatten) (hg : InjOn g t2.flatten)
    (hmk1 : StateTraj.mk' (relabel f t1) = .ok s1') (hmk2 : StateTraj.mk' (relabel g t2) = .ok s2')
    (hg1 : LabelGuard (relabel f t1)) (hg2 : LabelGuard (relabel g t2)) (flag flag' : Bool) :
    symApi s1' s2' flag = symApi s1 s2 flag' ∧ dirApi s1' s2' flag = dirApi s1 s2 flag' := by
  have H' : Admissible (relabel f t1) (relabel g t2) s1' s2' := by
    refine ⟨hmk1, hmk2, hg1, hg2, ?_⟩
    rw [relabel_flatten, relabel_flatten]
    rcases H.nonempty with h | h
    · exact Or.inl (by simpa using h)
    · exact Or.inr (by simpa using h)
  have hrr : Rejected (relabel f t1) (relabel g t2) ↔ Rejected t1 t2 := by
    unfold Rejected
    rw [states_relabel_length hf, states_relabel_length hg, relabel_flatten, relabel_flatten, List.length_map, List.length_map]
  by_cases hr : Rejected t1 t2
  · rw [(api_error_iff H flag').1.mpr hr, (api_error_iff H flag').2.mpr hr,
      (api_error_iff H' flag).1.mpr (hrr.mpr hr), (api_error_iff H' flag).2.mpr (hrr.mpr hr)]
    exact ⟨rfl, rfl⟩
  · have hr' : ¬ Rejected (relabel f t1) (relabel g t2) := fun h => hr (hrr.mp h)
    have hlen : t1.flatten.length = t2.flatten.length := by
      by_cases h : t1.flatten.length = t2.flatten.length
      · exact h
      · exact absurd (Or.inl h) hr
    rw [(api_value H hr flag').1, (api_value H hr flag').2, (api_value H' hr' flag).1, (api_value H' hr' flag).2,
      relabel_flatten, relabel_flatten, C13.rename_symmetric _ _ hlen f g hf hg, C13.rename_directed _ _ hlen f g hf hg]
    exact ⟨rfl, rfl⟩

/-- non-vacuity of `api_rename`: `x ↦ x*x` is injective on the labels `1, 5` (not globally), `x ↦ -x` on `3, 4` -/
example : InjOn (fun x => x * x) ([[1, 1], [5, 5]] : Trajs).flatten ∧ InjOn (fun x => -x) ([[3, 4, 4], [4]] : Trajs).flatten ∧
    StateTraj.mk' (relabel (fun x => x * x) [[1, 1], [5, 5]]) = .ok ⟨[[0, 0], [1, 1]], [1, 25]⟩ ∧
    StateTraj.mk' (relabel (fun x => -x) [[3, 4, 4], [4]]) = .ok ⟨[[1, 0, 0], [0]], [-4, -3]⟩ ∧
    LabelGuard (relabel (fun x => x * x) [[1, 1], [5, 5]]) ∧ LabelGuard (relabel (fun x => -x) [[3, 4, 4], [4]]) := by
  unfold InjOn
  decide +kernel

/-! ## 2. C15 for the translated relabelling utilities -/

/-- **C15, clause "`shift_data` is the simultaneous substitution and keeps the structure".**  Under the documented guard on the
concatenated values (`Relabel.guardOk`: data and `val_new` non-empty, as many old as new values, old values within the data range, total
range below `2^31`) the translated `shift_data` returns — no error — the same list of trajectories (same lengths) with every value `x`
replaced by `Relabel.subst old new x`. -/
theorem shift_data_subst {ts : Trajs} {old new : List Int} (h : MsmVerif.Relabel.guardOk ts.flatten old new = true) :
    Gen.UtilsRelabel.shift_data ts old new = .ok (ts.map (·.map (MsmVerif.Relabel.subst old new))) := by
  obtain ⟨_, _, _, _, _, _, _, _, hlen, _⟩ := MsmVerif.Relabel.guardOk_spec h
  rw [Relabel.shift_data_refines ts old new (Or.inl hlen)]
  exact C15.shift_list_of_arrays h

example : MsmVerif.Relabel.guardOk [[3, 5], [3, 8, 8]].flatten [3, 5] [5, 3] = true := by decide
example : Gen.UtilsRelabel.shift_data [[3, 5], [3, 8, 8]] [3, 5] [5, 3] = .ok [[5, 3], [5, 8, 8]] := by decide +kernel

/-- **C15, clauses "simultaneous substitution" + "other values untouched" + "structure kept", in one statement about the translated
function.**  Under the guard, with pairwise distinct old values, the translated `shift_data` returns the trajectories mapped value by
value through ONE function `σ` with `σ old[k] = new[k]` for every `k` (whether or not `new[k]` is itself an old value: no chaining) and
`σ x = x` for every `x` that is not an old value; the result has the same trajectory lengths. -/
theorem shift_data_simultaneous {ts : Trajs} {old new : List Int} (h : MsmVerif.Relabel.guardOk ts.flatten old new = true)
    (hnd : old.Nodup) :
    ∃ σ : Int → Int, Gen.UtilsRelabel.shift_data ts old new = .ok (ts.map (·.map σ)) ∧
      (∀ (k : Nat) (hk : k < old.length) (hk' : k < new.length), σ old[k] = new[k]) ∧
      (∀ x, x ∉ old → σ x = x) ∧
      (ts.map (·.map σ)).map List.length = ts.map List.length :=
  ⟨MsmVerif.Relabel.subst old new, shift_data_subst h, fun _ hk hk' => C15.simultaneous hnd hk hk',
    fun _ hx => C15.subst_not_mem hx, by simp⟩

/-- **C15, clause "swaps".**  Under the guard, `shift_data(trajs, [a, b], [b, a])` with `a ≠ b` exchanges `a` and `b` and leaves every
other value untouched. -/
theorem shift_data_swap {ts : Trajs} {a b : Int} (hab : a ≠ b) (h : MsmVerif.Relabel.guardOk ts.flatten [a, b] [b, a] = true) :
    Gen.UtilsRelabel.shift_data ts [a, b] [b, a] = .ok (ts.map (·.map (fun x => if x = a then b else if x = b then a else x))) := by
  rw [shift_data_subst h]
  congr 2
  funext t
  congr 1
  funext x
  obtain ⟨h1, h2, h3⟩ := C15.simultaneous_swap a b hab x
  by_cases hxa : x = a
  · subst hxa; simp [h1]
  · by_cases hxb : x = b
    · subst hxb; simp [h2, hxa]
    · simp [hxa, hxb, h3 hxa hxb]

/-- **C15, clause "cycles".**  Under the guard, `shift_data(trajs, [a, b, c], [b, c, a])` with pairwise distinct `a, b, c` sends
`a ↦ b`, `b ↦ c`, `c ↦ a` and leaves every other value untouched. -/
theorem shift_data_cycle {ts : Trajs} {a b c : Int} (hab : a ≠ b) (hac : a ≠ c) (hbc : b ≠ c)
    (h : MsmVerif.Relabel.guardOk ts.flatten [a, b, c] [b, c, a] = true) :
    Gen.UtilsRelabel.shift_data ts [a, b, c] [b, c, a]
      = .ok (ts.map (·.map (fun x => if x = a then b else if x = b then c else if x = c then a else x))) := by
  rw [shift_data_subst h]
  congr 2
  funext t
  congr 1
  funext x
  obtain ⟨h1, h2, h3, h4⟩ := C15.simultaneous_cycle a b c hab hac hbc x
  by_cases hxa : x = a
  · subst hxa; simp [h1]
  · by_cases hxb : x = b
    · subst hxb; simp [h2, hxa]
    · by_cases hxc : x = c
      · subst hxc; simp [h3, hxa, hxb]
      · simp [hxa, hxb, hxc, h4 hxa hxb hxc]

example : MsmVerif.Relabel.guardOk [[1, 2], [3, 4, 1]].flatten [1, 2, 3] [2, 3, 1] = true := by decide
example : Gen.UtilsRelabel.shift_data [[1, 2], [3, 4, 1]] [1, 2, 3] [2, 3, 1] = .ok [[2, 3], [1, 4, 2]] := by decide +kernel

/-- **C15, clause "leaves other values untouched".**  Under the guard, if no value of the data is an old value, the translated
`shift_data` returns the data unchanged. -/
theorem shift_data_untouched {ts : Trajs} {old new : List Int} (h : MsmVerif.Relabel.guardOk ts.flatten old new = true)
    (hno : ∀ x ∈ ts.flatten, x ∉ old) : Gen.UtilsRelabel.shift_data ts old new = .ok ts := by
  rw [shift_data_subst h]
  congr 1
  conv => rhs; rw [← List.map_id ts]
  apply List.map_congr_left
  intro t ht
  conv => rhs; rw [id, ← List.map_id t]
  apply List.map_congr_left
  intro x hx
  exact C15.subst_not_mem (hno x (List.mem_flatten.mpr ⟨t, ht, hx⟩))

/-- **C15, clause "`rename_by_index` maps to ranks and returns the permutation with `perm[renamed] = input`".**  On non-empty data with
all labels in `[-2^29, 2^29]` the translated `rename_by_index(trajs, return_permutation=True)` returns — no error — the pair
`(renamed, perm)` where `perm` is the ascending list of distinct labels, `renamed` has every label replaced by its rank in `perm`
(list structure kept), every renamed value is a valid index `0 ≤ v < len perm`, and indexing `perm` with `renamed` gives back the input. -/
theorem rename_by_index_law {ts : Trajs} (hg : LabelGuard ts) (hne : ts.flatten ≠ []) :
    ∃ renamed perm, Gen.UtilsRelabel.rename_by_index ts = .ok (renamed, perm) ∧
      perm = states ts ∧ renamed = ts.map (·.map (fun x => (rank perm x : Int))) ∧
      (∀ v ∈ renamed.flatten, 0 ≤ v ∧ v < perm.length) ∧
      renamed.map (·.map (fun i => perm.getD i.toNat 0)) = ts := by
  refine ⟨_, _, Relabel.rename_by_index_rank ts hg.window hne, rfl, rfl, ?_, ?_⟩
  · intro v hv
    obtain ⟨t', ht', hv⟩ := List.mem_flatten.mp hv
    obtain ⟨t, ht, rfl⟩ := List.mem_map.mp ht'
    obtain ⟨x, hx, rfl⟩ := List.mem_map.mp hv
    have := rank_lt (mem_states.mpr (List.mem_flatten.mpr ⟨t, ht, hx⟩))
    omega
  · unfold rankTrajs
    rw [List.map_map]
    conv => rhs; rw [← List.map_id ts]
    apply List.map_congr_left
    intro t ht
    simp only [Function.comp, List.map_map, id]
    conv => rhs; rw [← List.map_id t]
    apply List.map_congr_left
    intro x hx
    exact labelOf_rank' (mem_states.mpr (List.mem_flatten.mpr ⟨t, ht, hx⟩))

example : LabelGuard [[5, -2], [], [3, 5, 5]] ∧ ([[5, -2], [], [3, 5, 5]] : Trajs).flatten ≠ [] := by decide
example : Gen.UtilsRelabel.rename_by_index [[5, -2], [], [3, 5, 5]] = .ok ([[2, 0], [], [1, 2, 2]], [-2, 3, 5]) := by decide +kernel

/-- **C15, clause "`unique` is the ascending duplicate-free list".**  For every input the translated `unique(trajs)` returns — no
error — a strictly ascending (hence duplicate-free) list whose members are exactly the values occurring in the trajectories. -/
theorem unique_law (ts : Trajs) :
    ∃ u, Gen.UtilsRelabel.unique ts = .ok u ∧ u.Pairwise (· < ·) ∧ u.Nodup ∧ ∀ x, x ∈ u ↔ x ∈ ts.flatten :=
  ⟨_, Relabel.unique_refines ts, states_pairwise ts, states_nodup ts, fun _ => mem_states⟩

example : Gen.UtilsRelabel.unique [[5, -2], [], [3, 5, 5]] = .ok [-2, 3, 5] := by decide +kernel

/-- **C15, `rename_by_population` (position in the returned permutation).**  On non-empty data with all labels in `[-2^29, 2^29]`, if the
sorting oracle (`np.argsort` of the populations) answers with a permutation `p` of `0 … n-1`, the translated
`rename_by_population(trajs, return_permutation=True)` returns — no error — `(renamed, perm)` where `perm` (the distinct labels in the
order `p[::-1]`) is a rearrangement of the distinct labels and every label `x` is replaced by `1 +` its position in `perm` (list
structure kept). -/
theorem rename_by_population_law (ext : List Int → Py (List Int)) {ts : Trajs} (p : List Int)
    (horacle : ext ((counts ts).map Int.ofNat) = .ok p)
    (hperm : p.Perm ((List.range (states ts).length).map Int.ofNat)) (hg : LabelGuard ts) (hne : ts.flatten ≠ []) :
    ∃ renamed perm, Gen.UtilsRelabel.rename_by_population ext ts = .ok (renamed, perm) ∧
      perm.Perm (states ts) ∧ renamed = ts.map (·.map (fun x => ((perm.idxOf x : Nat) : Int) + 1)) :=
  ⟨_, _, Relabel.rename_by_population_position ext ts p horacle hperm hg (by decide) (by decide) hne,
    (Relabel.rename_by_population_perm ts p hperm).2, rfl⟩

example : ((fun _ => .ok [0, 1, 2]) : List Int → Py (List Int)) ((counts [[5, -2], [], [3, 5, 5]]).map Int.ofNat) = .ok [0, 1, 2] ∧
    ([0, 1, 2] : List Int).Perm ((List.range (states [[5, -2], [], [3, 5, 5]]).length).map Int.ofNat) := by decide +kernel

end MsmVerif.Refine.CompareTransfer
