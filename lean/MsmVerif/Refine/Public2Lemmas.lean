/-
Refine/Public2Lemmas.lean — helper lemmas for `Refine/Public2.lean` (task RP21, properties C13 and C07): the translated public
`md.compare_discretization` (`Gen/MdCompareApi.lean`, one translation per value of `method`) against `Compare.compare`, and the
translated `utils.datasets.propagate_tmat` (`Gen/UtilsDatasets.lean`, `start` given / `start=None`) against `Msm.rowNormalizeQ`,
`Mcmc.cumsum` and the identity permutation.

Contents: the two guards of the public comparison for arbitrary attribute values; the object `StateTraj.mk'` returns under the label
guard (rank trajectories: entries in range, every state occurs); the all-empty case; `propagate_tmat` factored as "check, then one
call of the kernel" for EVERY list of lists (`start_eq`, `random_eq`); the answer of the translated check on every non-empty
rectangular array (`check_cases`); well-formedness of the pair handed to the kernel and its acceptance by C07's oracle.
-/
import MsmVerif.Gen.UtilsDatasets
import MsmVerif.Refine.CompareApi
import MsmVerif.Refine.Ergodic
import MsmVerif.Refine.Norm
import MsmVerif.Refine.Cummat
import MsmVerif.Refine.Mcmc
import MsmVerif.Props.C13
import MsmVerif.Props.C07
import MsmVerif.Lemmas.StateTraj
open MsmVerif MsmVerif.Gen

namespace MsmVerif.Refine.Public2

/-! ## compare -/

/-- both guards pass: the public function (symmetric) is the glue -/
theorem api_symmetric_accept (f1 f2 : List Int) (n1 n2 nf1 nf2 : Int) (flag : Bool)
    (hf : nf1 = nf2) (h1 : n1 ≠ 1) (h2 : n2 ≠ 1) :
    Gen.MdCompareApi.compare_discretization_api_symmetric f1 n1 nf1 f2 n2 nf2 flag
      = Gen.MdCompareApi.compare_discretization_symmetric f1 n1 f2 n2 flag := by
  unfold Gen.MdCompareApi.compare_discretization_api_symmetric
  simp [hf, h1, h2]

/-- both guards pass: the public function (directed) is the glue -/
theorem api_directed_accept (f1 f2 : List Int) (n1 n2 nf1 nf2 : Int) (flag : Bool)
    (hf : nf1 = nf2) (h1 : n1 ≠ 1) (h2 : n2 ≠ 1) :
    Gen.MdCompareApi.compare_discretization_api_directed f1 n1 nf1 f2 n2 nf2 flag
      = Gen.MdCompareApi.compare_discretization_directed f1 n1 f2 n2 flag := by
  unfold Gen.MdCompareApi.compare_discretization_api_directed
  simp [hf, h1, h2]

/-- first guard: unequal frame counts -/
theorem api_unequal (f1 f2 : List Int) (n1 n2 nf1 nf2 : Int) (flag : Bool) (h : nf1 ≠ nf2) :
    Gen.MdCompareApi.compare_discretization_api_symmetric f1 n1 nf1 f2 n2 nf2 flag = .error .value ∧
    Gen.MdCompareApi.compare_discretization_api_directed f1 n1 nf1 f2 n2 nf2 flag = .error .value := by
  unfold Gen.MdCompareApi.compare_discretization_api_symmetric Gen.MdCompareApi.compare_discretization_api_directed
  simp [h]
  constructor <;> rfl

/-- second guard: a single state on either side (whether or not the first guard fires, the error kind is the same) -/
theorem api_single (f1 f2 : List Int) (n1 n2 nf1 nf2 : Int) (flag : Bool) (h : n1 = 1 ∨ n2 = 1) :
    Gen.MdCompareApi.compare_discretization_api_symmetric f1 n1 nf1 f2 n2 nf2 flag = .error .value ∧
    Gen.MdCompareApi.compare_discretization_api_directed f1 n1 nf1 f2 n2 nf2 flag = .error .value := by
  unfold Gen.MdCompareApi.compare_discretization_api_symmetric Gen.MdCompareApi.compare_discretization_api_directed
  by_cases hf : nf1 = nf2
  · simp [hf, h]; constructor <;> rfl
  · simp [hf]; constructor <;> rfl

/-- the number of frames of an object is the length of its flattened index trajectory -/
theorem nframes_eq (s : StateTraj) : s.nframes = s.idx.flatten.length := by
  unfold StateTraj.nframes
  rw [List.length_flatten]

/-- under the guard the object built from `ts` holds the rank trajectories and the ascending labels -/
theorem of_mk' {ts : Trajs} {s : StateTraj} (hg : LabelGuard ts) (h : StateTraj.mk' ts = .ok s) :
    s = ⟨rankTrajs ts, states ts⟩ := by
  rw [mk'_eq_rank hg] at h
  exact (Except.ok.inj h).symm

/-- the entries of the rank trajectories are state indices -/
theorem rank_inrange (ts : Trajs) : ∀ x ∈ (rankTrajs ts).flatten, 0 ≤ x ∧ x < (((states ts).length : Nat) : Int) := by
  intro x hx
  obtain ⟨y, hy, rfl⟩ := mem_rankTrajs_flatten.mp hx
  have := rank_lt (mem_states.mpr hy)
  omega

/-- every state index occurs in the rank trajectories -/
theorem rank_occurs (ts : Trajs) : ∀ k : Nat, k < (states ts).length → (k : Int) ∈ (rankTrajs ts).flatten :=
  fun _ hk => natCast_mem_rankTrajs hk

/-- ranking keeps the number of frames -/
theorem rank_flatten_length (ts : Trajs) : (rankTrajs ts).flatten.length = ts.flatten.length := by
  rw [List.length_flatten, List.length_flatten, rankTrajs_map_length]


/-- the model of the public comparison for a known method, on the objects the constructor returns -/
theorem compare_known (t1 t2 : Trajs) (s1 s2 : StateTraj) (h1 : StateTraj.mk' t1 = .ok s1) (h2 : StateTraj.mk' t2 = .ok s2)
    (m : Nat) (hm : m ≤ 1) :
    Compare.compare t1 t2 m =
      if s1.nframes ≠ s2.nframes then .error .value
      else if s1.nstates = 1 ∨ s2.nstates = 1 then .error .value
      else .ok (Compare.similarityIdx s1.idx.flatten s2.idx.flatten s1.nstates s2.nstates (m == 0)) := by
  unfold Compare.compare
  simp only [h1, h2]
  rw [if_neg (by omega)]

/-- the model of the public comparison for an unknown method -/
theorem compare_unknown (t1 t2 : Trajs) (s1 s2 : StateTraj) (h1 : StateTraj.mk' t1 = .ok s1) (h2 : StateTraj.mk' t2 = .ok s2)
    (m : Nat) (hm : 2 ≤ m) : Compare.compare t1 t2 m = .error .value := by
  unfold Compare.compare
  simp only [h1, h2]
  rw [if_pos (by omega)]

/-- the translated public function (symmetric) on the attributes of the rank object: the model's case distinction -/
theorem api_symmetric_rank (t1 t2 : Trajs) (hne : t1.flatten ≠ [] ∨ t2.flatten ≠ []) (flag : Bool) :
    Gen.MdCompareApi.compare_discretization_api_symmetric (rankTrajs t1).flatten (((states t1).length : Nat) : Int)
        (((rankTrajs t1).flatten.length : Nat) : Int) (rankTrajs t2).flatten (((states t2).length : Nat) : Int)
        (((rankTrajs t2).flatten.length : Nat) : Int) flag
      = if (rankTrajs t1).flatten.length ≠ (rankTrajs t2).flatten.length then .error .value
        else if (states t1).length = 1 ∨ (states t2).length = 1 then .error .value
        else .ok (Compare.similarityIdx (rankTrajs t1).flatten (rankTrajs t2).flatten (states t1).length (states t2).length true) := by
  by_cases hf : (rankTrajs t1).flatten.length = (rankTrajs t2).flatten.length
  · rw [if_neg (by omega)]
    by_cases hs : (states t1).length = 1 ∨ (states t2).length = 1
    · rw [if_pos hs]
      exact (api_single _ _ _ _ _ _ flag (by omega)).1
    · rw [if_neg hs, api_symmetric_accept _ _ _ _ _ _ flag (by omega) (by omega) (by omega)]
      refine CompareApi.compare_discretization_symmetric_refines _ _ _ _ flag hf ?_ (rank_inrange t1) (rank_inrange t2)
        (rank_occurs t1) (rank_occurs t2)
      have e1 := rank_flatten_length t1
      have e2 := rank_flatten_length t2
      rcases hne with h | h
      · have := List.length_pos_iff.mpr h; omega
      · have := List.length_pos_iff.mpr h; omega
  · rw [if_pos hf]
    exact (api_unequal _ _ _ _ _ _ flag (by omega)).1

/-- the translated public function (directed) on the attributes of the rank object: the model's case distinction -/
theorem api_directed_rank (t1 t2 : Trajs) (hne : t1.flatten ≠ [] ∨ t2.flatten ≠ []) (flag : Bool) :
    Gen.MdCompareApi.compare_discretization_api_directed (rankTrajs t1).flatten (((states t1).length : Nat) : Int)
        (((rankTrajs t1).flatten.length : Nat) : Int) (rankTrajs t2).flatten (((states t2).length : Nat) : Int)
        (((rankTrajs t2).flatten.length : Nat) : Int) flag
      = if (rankTrajs t1).flatten.length ≠ (rankTrajs t2).flatten.length then .error .value
        else if (states t1).length = 1 ∨ (states t2).length = 1 then .error .value
        else .ok (Compare.similarityIdx (rankTrajs t1).flatten (rankTrajs t2).flatten (states t1).length (states t2).length false) := by
  by_cases hf : (rankTrajs t1).flatten.length = (rankTrajs t2).flatten.length
  · rw [if_neg (by omega)]
    by_cases hs : (states t1).length = 1 ∨ (states t2).length = 1
    · rw [if_pos hs]
      exact (api_single _ _ _ _ _ _ flag (by omega)).2
    · rw [if_neg hs, api_directed_accept _ _ _ _ _ _ flag (by omega) (by omega) (by omega)]
      refine CompareApi.compare_discretization_directed_refines _ _ _ _ flag hf ?_ (rank_inrange t1) (rank_inrange t2)
        (rank_occurs t1) (rank_occurs t2)
      have e1 := rank_flatten_length t1
      have e2 := rank_flatten_length t2
      rcases hne with h | h
      · have := List.length_pos_iff.mpr h; omega
      · have := List.length_pos_iff.mpr h; omega
  · rw [if_pos hf]
    exact (api_unequal _ _ _ _ _ _ flag (by omega)).2

/-- translated public function (symmetric) on the constructed objects = public model, method 0 -/
theorem api_symmetric_refines (t1 t2 : Trajs) (s1 s2 : StateTraj) (h1 : StateTraj.mk' t1 = .ok s1) (h2 : StateTraj.mk' t2 = .ok s2)
    (hg1 : LabelGuard t1) (hg2 : LabelGuard t2) (hne : t1.flatten ≠ [] ∨ t2.flatten ≠ []) (flag : Bool) :
    Gen.MdCompareApi.compare_discretization_api_symmetric s1.idx.flatten s1.nstates s1.nframes s2.idx.flatten s2.nstates
        s2.nframes flag = Compare.compare t1 t2 0 := by
  rw [compare_known t1 t2 s1 s2 h1 h2 0 (by omega), nframes_eq, nframes_eq]
  obtain rfl := of_mk' hg1 h1
  obtain rfl := of_mk' hg2 h2
  exact api_symmetric_rank t1 t2 hne flag

/-- translated public function (directed) on the constructed objects = public model, method 1 -/
theorem api_directed_refines (t1 t2 : Trajs) (s1 s2 : StateTraj) (h1 : StateTraj.mk' t1 = .ok s1) (h2 : StateTraj.mk' t2 = .ok s2)
    (hg1 : LabelGuard t1) (hg2 : LabelGuard t2) (hne : t1.flatten ≠ [] ∨ t2.flatten ≠ []) (flag : Bool) :
    Gen.MdCompareApi.compare_discretization_api_directed s1.idx.flatten s1.nstates s1.nframes s2.idx.flatten s2.nstates
        s2.nframes flag = Compare.compare t1 t2 1 := by
  rw [compare_known t1 t2 s1 s2 h1 h2 1 (by omega), nframes_eq, nframes_eq]
  obtain rfl := of_mk' hg1 h1
  obtain rfl := of_mk' hg2 h2
  exact api_directed_rank t1 t2 hne flag


/-! ## all-empty data -/

/-- on all-empty data the constructor takes its first branch: no state, the trajectories unchanged -/
theorem mk'_empty (ts : Trajs) (he : ts.flatten = []) : StateTraj.mk' ts = .ok ⟨ts, []⟩ := by
  unfold StateTraj.mk'
  simp [states, he, sortDedup, isArange]

/-- the translated public comparison on two objects without frames and without states: `ZeroDivisionError` -/
theorem api_empty (flag : Bool) :
    Gen.MdCompareApi.compare_discretization_api_symmetric [] ((0 : Nat) : Int) ((0 : Nat) : Int) [] ((0 : Nat) : Int) ((0 : Nat) : Int) flag = .error .other ∧
    Gen.MdCompareApi.compare_discretization_api_directed [] ((0 : Nat) : Int) ((0 : Nat) : Int) [] ((0 : Nat) : Int) ((0 : Nat) : Int) flag = .error .other := by
  cases flag <;> exact ⟨rfl, rfl⟩

/-- the model's similarity of two empty labelings is `0 / 0 = 0` -/
theorem sim_empty (b : Bool) : Compare.similarityIdx [] [] 0 0 b = 0 := by
  cases b <;> decide +kernel

/-! ## `propagate_tmat` -/

/-- the identity permutation in every row: `np.tile(np.arange(n), (n, 1))` as naturals -/
def idPerm (n : Nat) : List (List Nat) := List.replicate n (List.range n)

/-- the pair `(cummat, cummat_perm)` that `propagate_tmat` hands to the chain kernel for the matrix `T` -/
def kernelArg (T : List (List Rat)) : List (List Rat) × List (List Int) :=
  ((Msm.rowNormalizeQ T).map Mcmc.cumsum, Mcmc.permI (idPerm T.length))

/-- `np.tile(np.arange(n), (n, 1))` of the translation is the identity permutation as the kernel sees it -/
theorem tile_eq (n : Nat) :
    List.replicate ((n : Int)).toNat (npArange 0 (n : Int)) = Mcmc.permI (idPerm n) := by
  unfold Mcmc.permI idPerm npArange pyRange
  simp [List.map_replicate]

/-- the literal tolerance of the translated text is the model's `atol` -/
theorem atol_literal : ((3022314549036573 : Rat) / (302231454903657293676544 : Rat)) = Linalg.atol := rfl

/-- `propagate_tmat(tmat, nsteps, start)`, for EVERY list of lists: check, then one call of the kernel -/
theorem start_eq (ext : (List (List Rat) × List (List Int)) → Int → Int → Py (List Int)) (T : List (List Rat)) (nsteps start : Int) :
    Gen.UtilsDatasets.propagate_tmat_start ext T nsteps start
      = (do let b ← Gen.UtilsTests.is_transition_matrix T Linalg.atol
            if !b then throw Err.value else ext (kernelArg T) start nsteps) := by
  unfold Gen.UtilsDatasets.propagate_tmat_start kernelArg
  rw [atol_literal]
  cases hb : Gen.UtilsTests.is_transition_matrix T Linalg.atol with
  | error e => rfl
  | ok b =>
    cases b with
    | false => rfl
    | true =>
      have hc : npCumsum = Mcmc.cumsum := funext Cummat.npCumsum_eq_cumsum
      simp only [bind, Except.bind, Norm.row_normalize_refines_any, pyLen, tile_eq, hc]
      rfl


/-- `propagate_tmat(tmat, nsteps)` with `start=None`, for EVERY list of lists: check, random index, one call of the kernel -/
theorem random_eq (ext : (List (List Rat) × List (List Int)) → Int → Int → Py (List Int)) (rnd : Int → Py Int)
    (T : List (List Rat)) (nsteps : Int) :
    Gen.UtilsDatasets.propagate_tmat_random ext rnd T nsteps
      = (do let b ← Gen.UtilsTests.is_transition_matrix T Linalg.atol
            if !b then throw Err.value else do
              let s ← rnd (T.length : Int)
              ext (kernelArg T) s nsteps) := by
  unfold Gen.UtilsDatasets.propagate_tmat_random kernelArg
  rw [atol_literal]
  cases hb : Gen.UtilsTests.is_transition_matrix T Linalg.atol with
  | error e => rfl
  | ok b =>
    cases b with
    | false => rfl
    | true =>
      have hc : npCumsum = Mcmc.cumsum := funext Cummat.npCumsum_eq_cumsum
      simp only [bind, Except.bind, Norm.row_normalize_refines_any, pyLen, tile_eq, hc]
      cases rnd (T.length : Int) <;> rfl

/-- a transition matrix in the model's sense is non-empty and square -/
theorem of_isTmat {T : List (List Rat)} (h : Linalg.isTmat T = true) : T ≠ [] ∧ Linalg.isSquare T = true ∧ 2 ≤ T.length := by
  unfold Linalg.isTmat Linalg.isQuadratic at h
  simp only [Bool.and_eq_true, bne_iff_ne, ne_eq] at h
  obtain ⟨⟨⟨hsq, h1⟩, h0⟩, -⟩ := h
  refine ⟨fun e => h0 (by rw [e]; rfl), hsq, ?_⟩
  omega

/-- the answer of the translated check on every non-empty rectangular array: the model's answer, or `ValueError` when the model says
`false` (non-square with neither one row nor one column) -/
theorem check_cases (T : List (List Rat)) (hrect : Gen.npRect T = true) (hne : T ≠ []) :
    Gen.UtilsTests.is_transition_matrix T Linalg.atol = .ok (Linalg.isTmat T) ∨
    (Gen.UtilsTests.is_transition_matrix T Linalg.atol = .error .value ∧ Linalg.isTmat T = false) := by
  cases hsq : Linalg.isSquare T with
  | true => exact Or.inl (Ergodic.is_tmat_refines T hne hsq)
  | false =>
    by_cases hthin : T.length = 1 ∨ (T.getD 0 []).length = 1
    · exact Or.inl (Ergodic.is_tmat_nonsquare_thin T hrect hne hsq hthin _)
    · exact Or.inr (Ergodic.is_tmat_nonsquare T hrect hne hsq (fun h => hthin (Or.inl h)) (fun h => hthin (Or.inr h)) _)


/-- every row of a square matrix has as many entries as the matrix has rows -/
theorem rows_of_isSquare {T : List (List Rat)} (h : Linalg.isSquare T = true) : ∀ r ∈ T, r.length = T.length := by
  unfold Linalg.isSquare at h
  simpa using h

/-- row normalisation keeps the number of rows -/
theorem rowNormalizeQ_length (T : List (List Rat)) : (Msm.rowNormalizeQ T).length = T.length := by
  simp [Msm.rowNormalizeQ]

/-- row normalisation keeps the row lengths -/
theorem rowNormalizeQ_rows {T : List (List Rat)} {n : Nat} (h : ∀ r ∈ T, r.length = n) :
    ∀ r ∈ Msm.rowNormalizeQ T, r.length = n := by
  intro r hr
  simp only [Msm.rowNormalizeQ, List.mem_map] at hr
  obtain ⟨a, ha, rfl⟩ := hr
  simpa using h a ha

/-- the pair handed to the kernel is well formed in the sense of the chain refinement -/
theorem kernelArg_wf {T : List (List Rat)} (hsq : Linalg.isSquare T = true) (hpos : 1 ≤ T.length) :
    Mcmc.WF ((Msm.rowNormalizeQ T).map Mcmc.cumsum) (idPerm T.length) T.length := by
  refine ⟨hpos, by simp [rowNormalizeQ_length], by simp [idPerm], ?_, ?_, ?_⟩
  · intro r hr
    obtain ⟨a, ha, rfl⟩ := List.mem_map.mp hr
    rw [Mcmc.length_cumsum]
    exact rowNormalizeQ_rows (rows_of_isSquare hsq) a ha
  · intro r hr
    obtain ⟨-, rfl⟩ := List.mem_replicate.mp hr
    simp
  · intro r hr j hj
    obtain ⟨-, rfl⟩ := List.mem_replicate.mp hr
    exact List.mem_range.mp hj

/-- error 0 is within the tolerance `n·2⁻⁵³` of C07's oracle -/
theorem absQ_self_le (a : Rat) (n : Nat) : Msm.absQ (a - a) ≤ (n : Rat) / 9007199254740992 := by
  have h0 : a - a = 0 := by simp
  rw [h0]
  have : Msm.absQ 0 = 0 := by simp [Msm.absQ]
  rw [this]
  exact div_nonneg (Nat.cast_nonneg n) (by norm_num)

/-- a list zipped with itself only holds pairs of equal components -/
theorem mem_zip_self {α : Type} (l : List α) (p : α × α) (h : p ∈ l.zip l) : p.1 = p.2 := by
  induction l with
  | nil => simp at h
  | cons x xs ih =>
    rcases List.mem_cons.mp h with rfl | h
    · rfl
    · exact ih h

/-- C07's oracle accepts the pair handed to the kernel, exactly -/
theorem kernelArg_holds {T : List (List Rat)} (hsq : Linalg.isSquare T = true) :
    Mcmc.holdsCumTmat T ((Msm.rowNormalizeQ T).map Mcmc.cumsum) (idPerm T.length) = true := by
  unfold Mcmc.holdsCumTmat
  simp only [Bool.and_eq_true, beq_iff_eq, List.all_eq_true, List.mem_range]
  refine ⟨⟨by simp [rowNormalizeQ_length], by simp [idPerm]⟩, ?_⟩
  intro i hi
  have hi' : i < (Msm.rowNormalizeQ T).length := by rw [rowNormalizeQ_length]; exact hi
  refine ⟨by simp [idPerm, List.getD_eq_getElem?_getD, hi], ?_, ?_⟩
  · simp only [List.getD_eq_getElem?_getD, List.getElem?_map, List.getElem?_eq_getElem hi', Option.map_some, Option.getD_some,
      Mcmc.length_cumsum]
    exact rowNormalizeQ_rows (rows_of_isSquare hsq) _ (List.getElem_mem hi')
  · intro p hp
    simp only [List.getD_eq_getElem?_getD, List.getElem?_map, List.getElem?_eq_getElem hi', Option.map_some, Option.getD_some] at hp
    obtain ⟨a, b⟩ := p
    obtain rfl : a = b := mem_zip_self _ _ hp
    exact decide_eq_true (absQ_self_le a T.length)

end MsmVerif.Refine.Public2
