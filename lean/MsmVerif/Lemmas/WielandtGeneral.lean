/-
Lemmas/WielandtGeneral.lean — Wielandt's bound `(n-1)² + 1` for the exponent of a primitive digraph on `n` vertices
(all `n`), proved on an abstract finite digraph `adj : V → V → Prop` and transported to `Walk` on list-of-lists
boolean patterns; and the uniqueness of the stationary vector of an irreducible row-stochastic matrix.

Part A (namespace `MsmVerif.Digraph`): `W adj k u v` = walk of exact length `k`; `AllW adj k` = all ordered pairs are
joined by walks of length `k`.  Route: upward closure (`AllW.succ`, `AllW.mono`), shortest-walk counting
(`hit_bound`), a closed walk of length `≤ n-1` (`short_closed_walk`), the vertices `C` on shortest closed walks
(`card_shortest_cycle`), walking inside `C` (`stay_in_cycle`), the power graph (`W_pow`) and the final assembly
(`wielandt_abstract`).  Bridge to `Linalg.Walk`: `walk_iff_W`, `wielandt_pattern`.

Part B (namespace `MsmVerif.Linalg`): `fixed_abs` (the entrywise absolute value of a fixed row vector of a
row-stochastic matrix is fixed), `fixed_pos_walk` (positivity of a non-negative fixed vector propagates along walks),
`fixed_nonpos` (a fixed vector with zero sum has no positive entry: apply propagation to `|z| + z`), `fixed_pos`
(a fixed vector with positive sum is entrywise positive), `stationary_unique`, `stationary_pos`.
-/
import MsmVerif.Lemmas.Linalg
import Mathlib.Data.Fintype.Card
import Mathlib.Data.Fintype.EquivFin
import Mathlib.Data.Finset.Card
import Mathlib.Algebra.Order.BigOperators.Group.Finset
import Mathlib.Algebra.Order.Ring.Abs

namespace MsmVerif.Digraph

variable {V : Type} (adj : V → V → Prop)

/-- `W adj k u v`: there is a walk `u = v₀ → v₁ → … → v_k = v` of length exactly `k` along `adj` -/
def W : Nat → V → V → Prop
  | 0, u, v => u = v
  | k + 1, u, v => ∃ l, W k u l ∧ adj l v

/-- all ordered pairs are joined by a walk of length exactly `k` -/
def AllW (k : Nat) : Prop := ∀ u v, W adj k u v

variable {adj}

theorem W.zero_iff {u v : V} : W adj 0 u v ↔ u = v := Iff.rfl

theorem W.succ_iff {k : Nat} {u v : V} : W adj (k + 1) u v ↔ ∃ l, W adj k u l ∧ adj l v := Iff.rfl

theorem W.one_iff {u v : V} : W adj 1 u v ↔ adj u v := by
  constructor
  · rintro ⟨l, h1, h2⟩
    have : u = l := h1
    rw [this]; exact h2
  · intro h; exact ⟨u, rfl, h⟩

theorem W.add_iff (a c : Nat) (u v : V) : W adj (a + c) u v ↔ ∃ l, W adj a u l ∧ W adj c l v := by
  induction c generalizing v with
  | zero =>
    constructor
    · intro h; exact ⟨v, h, rfl⟩
    · rintro ⟨l, h1, h2⟩
      have : l = v := h2
      rw [← this]; exact h1
  | succ c ih =>
    constructor
    · rintro ⟨l', h1, h2⟩
      obtain ⟨l, h3, h4⟩ := (ih l').mp h1
      exact ⟨l, h3, l', h4, h2⟩
    · rintro ⟨l, h3, l', h4, h2⟩
      exact ⟨l', (ih l').mpr ⟨l, h3, h4⟩, h2⟩

theorem W.trans {a c : Nat} {u l v : V} (h1 : W adj a u l) (h2 : W adj c l v) : W adj (a + c) u v :=
  (W.add_iff a c u v).mpr ⟨l, h1, h2⟩

theorem W.cast {a c : Nat} {u v : V} (h : W adj a u v) (e : a = c) : W adj c u v := e ▸ h

/-- split a walk of length `m` at position `j ≤ m` -/
theorem W.split {m : Nat} {u v : V} (h : W adj m u v) (j : Nat) (hj : j ≤ m) :
    ∃ x, W adj j u x ∧ W adj (m - j) x v := by
  have e : m = j + (m - j) := by omega
  rw [e] at h
  exact (W.add_iff j (m - j) u v).mp h

/-- a closed walk can be repeated -/
theorem W.iterate {s : Nat} {w : V} (h : W adj s w w) (t : Nat) : W adj (s * t) w w := by
  induction t with
  | zero => exact rfl
  | succ t ih => exact (ih.trans h).cast (by rw [Nat.mul_succ])

/-- walks in the `s`-step graph are walks of `s`-fold length -/
theorem W_pow (s k : Nat) (u v : V) : W (W adj s) k u v ↔ W adj (s * k) u v := by
  induction k generalizing v with
  | zero => exact Iff.rfl
  | succ k ih =>
    rw [W.succ_iff, Nat.mul_succ, W.add_iff]
    constructor
    · rintro ⟨l, h1, h2⟩; exact ⟨l, (ih l).mp h1, h2⟩
    · rintro ⟨l, h1, h2⟩; exact ⟨l, (ih l).mpr h1, h2⟩

/-! ### upward closure -/

theorem AllW.succ {k : Nat} (hk : 1 ≤ k) (h : AllW adj k) : AllW adj (k + 1) := by
  intro u v
  obtain ⟨k', rfl⟩ : ∃ k', k = k' + 1 := ⟨k - 1, by omega⟩
  obtain ⟨l, _, he⟩ := h v v
  exact ⟨l, h u l, he⟩

theorem AllW.mono {k k' : Nat} (hk : 1 ≤ k) (h : AllW adj k) (hle : k ≤ k') : AllW adj k' := by
  induction k' with
  | zero => omega
  | succ k' ih =>
    by_cases e : k = k' + 1
    · rw [← e]; exact h
    · exact AllW.succ (by omega) (ih (by omega))

theorem AllW.mul {k : Nat} (h : AllW adj k) (t : Nat) (ht : 1 ≤ t) : AllW adj (k * t) := by
  induction t with
  | zero => omega
  | succ t ih =>
    by_cases e : t = 0
    · subst e; rw [Nat.mul_one]; exact h
    · intro u v
      exact ((ih (by omega) u u).trans (h u v)).cast (by rw [Nat.mul_succ])

/-- a graph in which every vertex has at most one out-neighbour has at most one walk endpoint per length -/
theorem W.functional (hfun : ∀ u a b, adj u a → adj u b → a = b) {k : Nat} {u v v' : V}
    (h : W adj k u v) (h' : W adj k u v') : v = v' := by
  induction k generalizing v v' with
  | zero => exact (h.symm.trans h')
  | succ k ih =>
    obtain ⟨l, h1, h2⟩ := h
    obtain ⟨l', h1', h2'⟩ := h'
    have := ih h1 h1'
    subst this
    exact hfun _ _ _ h2 h2'

/-- from a vertex on a closed walk of length `s` one can walk any number of steps and end on such a vertex -/
theorem stay_in_cycle {s : Nat} (hs : 1 ≤ s) {w : V} (hw : W adj s w w) (t : Nat) :
    ∃ w', W adj s w' w' ∧ W adj t w w' := by
  induction t with
  | zero => exact ⟨w, hw, rfl⟩
  | succ t ih =>
    obtain ⟨w', hw', hww'⟩ := ih
    obtain ⟨x, h1, h2⟩ := hw'.split 1 hs
    refine ⟨x, (h2.trans h1).cast (by omega), ?_⟩
    exact hww'.trans h1

/-! ### counting along shortest walks -/

section Finite
variable [Fintype V] [DecidableEq V]

omit [Fintype V] in
theorem le_card_of_injective {m : Nat} (f : Fin m → V) (hf : Function.Injective f) (S : Finset V)
    (hS : ∀ j, f j ∈ S) : m ≤ S.card := by
  have h1 : (Finset.univ.image f).card = m := by
    rw [Finset.card_image_of_injective _ hf, Finset.card_univ, Fintype.card_fin]
  rw [← h1]
  apply Finset.card_le_card
  intro x hx
  obtain ⟨j, _, rfl⟩ := Finset.mem_image.mp hx
  exact hS j

/-- **shortest walks to a set**: if `u` reaches the set `T` at all, it reaches it within `n - |T|` steps -/
theorem hit_bound (T : Finset V) (u : V) (h : ∃ k, ∃ w ∈ T, W adj k u w) :
    ∃ k, ∃ w ∈ T, W adj k u w ∧ k + T.card ≤ Fintype.card V := by
  classical
  obtain ⟨w, hwT, hw⟩ := Nat.find_spec h
  have hmin : ∀ j, j < Nat.find h → ∀ x ∈ T, ¬ W adj j u x := by
    intro j hj x hx hc
    exact Nat.find_min h hj ⟨x, hx, hc⟩
  generalize Nat.find h = m at hw hmin
  refine ⟨m, w, hwT, hw, ?_⟩
  have hsplit : ∀ j : Fin m, ∃ x, W adj j u x ∧ W adj (m - j) x w := fun j => hw.split j (by omega)
  choose f hf1 hf2 using hsplit
  have hlt : ∀ i j : Fin m, i < j → f i ≠ f j := by
    intro i j hij hc
    have h1 := hf1 i
    rw [hc] at h1
    exact hmin _ (by have := j.2; have : (i : Nat) < j := hij; omega) w hwT (h1.trans (hf2 j))
  have hinj : Function.Injective f := by
    intro i j hij
    rcases lt_trichotomy i j with h | h | h
    · exact absurd hij (hlt i j h)
    · exact h
    · exact absurd hij.symm (hlt j i h)
  have hc : ∀ j, f j ∈ Tᶜ := by
    intro j
    rw [Finset.mem_compl]
    intro hj
    exact hmin j j.2 _ hj (hf1 j)
  have := le_card_of_injective f hinj _ hc
  rw [Finset.card_compl] at this
  have := Finset.card_le_univ T
  omega

/-- a primitive digraph on `n ≥ 2` vertices has a closed walk of length between `1` and `n - 1` -/
theorem short_closed_walk {k0 : Nat} (h : AllW adj k0) (hn : 2 ≤ Fintype.card V) :
    ∃ v k, 1 ≤ k ∧ k + 1 ≤ Fintype.card V ∧ W adj k v v := by
  classical
  -- a vertex with two distinct out-neighbours
  have hbr : ∃ u a b, adj u a ∧ adj u b ∧ a ≠ b := by
    by_contra hc
    have hfun : ∀ u a b, adj u a → adj u b → a = b := by
      intro u a b h1 h2
      by_contra hne
      exact hc ⟨u, a, b, h1, h2, hne⟩
    obtain ⟨x, y, hxy⟩ := Fintype.exists_pair_of_one_lt_card (α := V) (by omega)
    exact hxy (W.functional hfun (h x x) (h x y))
  obtain ⟨u, a, b, hua, hub, hab⟩ := hbr
  have hex : ∃ k, W adj k a u := ⟨k0, h a u⟩
  have hspec := Nat.find_spec hex
  have hmin : ∀ j, j < Nat.find hex → ¬ W adj j a u := fun j hj => Nat.find_min hex hj
  have hle : Nat.find hex + 1 ≤ Fintype.card V := by
    obtain ⟨k, w, hw, hk, hb⟩ := hit_bound (adj := adj) {u} a ⟨k0, u, Finset.mem_singleton_self u, h a u⟩
    rw [Finset.mem_singleton] at hw
    subst hw
    have := Nat.find_min' hex hk
    rw [Finset.card_singleton] at hb
    omega
  generalize Nat.find hex = m at hspec hmin hle
  by_cases hm : m + 2 ≤ Fintype.card V
  · refine ⟨u, m + 1, by omega, by omega, ?_⟩
    exact ((W.one_iff.mpr hua).trans hspec).cast (by omega)
  · have hcard : Fintype.card V = m + 1 := by omega
    have hsplit : ∀ j : Fin (m + 1), ∃ x, W adj j a x ∧ W adj (m - j) x u := fun j => hspec.split j (by omega)
    choose f hf1 hf2 using hsplit
    have hlt : ∀ i j : Fin (m + 1), i < j → f i ≠ f j := by
      intro i j hij hc
      have h1 := hf1 i
      rw [hc] at h1
      exact hmin _ (by have := j.2; have : (i : Nat) < j := hij; omega) (h1.trans (hf2 j))
    have hinj : Function.Injective f := by
      intro i j hij
      rcases lt_trichotomy i j with h | h | h
      · exact absurd hij (hlt i j h)
      · exact h
      · exact absurd hij.symm (hlt j i h)
    have hbij : Function.Bijective f :=
      (Fintype.bijective_iff_injective_and_card f).mpr ⟨hinj, by rw [Fintype.card_fin, hcard]⟩
    obtain ⟨j, hj⟩ := hbij.2 b
    have hj0 : (j : Nat) ≠ 0 := by
      intro h0
      have h1 := hf1 j
      rw [h0, hj] at h1
      exact hab h1
    refine ⟨u, 1 + (m - j), by omega, by omega, ?_⟩
    have h2 := hf2 j
    rw [hj] at h2
    exact (W.one_iff.mpr hub).trans h2

omit [Fintype V] in
/-- the vertices lying on a closed walk of the minimal length `s` are at least `s` many -/
theorem card_shortest_cycle {s : Nat} {v0 : V} (hv0 : W adj s v0 v0)
    (hmin : ∀ j, 1 ≤ j → j < s → ∀ v, ¬ W adj j v v) (C : Finset V) (hC : ∀ v, W adj s v v → v ∈ C) :
    s ≤ C.card := by
  have hsplit : ∀ j : Fin s, ∃ x, W adj j v0 x ∧ W adj (s - j) x v0 := fun j => hv0.split j (by omega)
  choose f hf1 hf2 using hsplit
  have hlt : ∀ i j : Fin s, i < j → f i ≠ f j := by
    intro i j hij hc
    have h1 := hf1 i
    rw [hc] at h1
    have hij' : (i : Nat) < j := hij
    exact hmin _ (by have := j.2; omega) (by have := j.2; omega) v0 (h1.trans (hf2 j))
  have hinj : Function.Injective f := by
    intro i j hij
    rcases lt_trichotomy i j with h | h | h
    · exact absurd hij (hlt i j h)
    · exact h
    · exact absurd hij.symm (hlt j i h)
  apply le_card_of_injective f hinj
  intro j
  exact hC _ (((hf2 j).trans (hf1 j)).cast (by have := j.2; omega))

/-- **Wielandt's theorem** on an abstract finite digraph: a primitive digraph on `n` vertices has walks of length
exactly `(n-1)² + 1` between all ordered pairs of vertices -/
theorem wielandt_abstract {k0 : Nat} (hk0 : 1 ≤ k0) (h : AllW adj k0) :
    AllW adj ((Fintype.card V - 1) ^ 2 + 1) := by
  classical
  by_cases hn : Fintype.card V ≤ 1
  · -- at most one vertex: `k0`-walks give a loop
    have hsub : ∀ a b : V, a = b := fun a b => (Fintype.card_le_one_iff.mp hn) a b
    have e : (Fintype.card V - 1) ^ 2 + 1 = 1 := by
      have : Fintype.card V - 1 = 0 := by omega
      rw [this]; rfl
    rw [e]
    intro u v
    obtain ⟨k', rfl⟩ : ∃ k', k0 = k' + 1 := ⟨k0 - 1, by omega⟩
    obtain ⟨l, _, he⟩ := h v v
    rw [W.one_iff, hsub u l]
    exact he
  · have hn2 : 2 ≤ Fintype.card V := by omega
    -- the minimal length `s` of a closed walk
    have hex : ∃ k, 1 ≤ k ∧ ∃ v, W adj k v v := by
      obtain ⟨v, k, hk1, _, hk⟩ := short_closed_walk h hn2
      exact ⟨k, hk1, v, hk⟩
    obtain ⟨hs1, v0, hv0⟩ := Nat.find_spec hex
    have hmin : ∀ j, 1 ≤ j → j < Nat.find hex → ∀ v, ¬ W adj j v v :=
      fun j hj1 hj v hv => Nat.find_min hex hj ⟨hj1, v, hv⟩
    have hsn : Nat.find hex + 1 ≤ Fintype.card V := by
      obtain ⟨v, k, hk1, hk2, hk⟩ := short_closed_walk h hn2
      have := Nat.find_min' hex ⟨hk1, v, hk⟩
      omega
    generalize Nat.find hex = s at hs1 hv0 hmin hsn
    have hC := card_shortest_cycle hv0 hmin (Finset.univ.filter (fun v => W adj s v v))
      (fun v hv => Finset.mem_filter.mpr ⟨Finset.mem_univ _, hv⟩)
    -- every pair is joined by a walk of length `(n - s) + s (n - 1)`
    have hall : AllW adj ((Fintype.card V - s) + s * (Fintype.card V - 1)) := by
      intro u v
      -- reach the cycle in exactly `n - s` steps
      obtain ⟨k1, w1, hw1, hk1, hb1⟩ := hit_bound (adj := adj) (Finset.univ.filter (fun v => W adj s v v)) u
        ⟨k0, v0, Finset.mem_filter.mpr ⟨Finset.mem_univ _, hv0⟩, h u v0⟩
      have hw1' := (Finset.mem_filter.mp hw1).2
      obtain ⟨w2, hw2, hk2⟩ := stay_in_cycle hs1 hw1' (Fintype.card V - s - k1)
      have hreach : W adj (Fintype.card V - s) u w2 := (hk1.trans hk2).cast (by omega)
      -- from a vertex with a loop in the `s`-step graph, reach `v` in exactly `n - 1` steps of that graph
      have hallS : AllW adj (s * k0) := by
        rw [Nat.mul_comm]; exact h.mul s hs1
      obtain ⟨k3, w3, hw3, hk3, hb3⟩ := hit_bound (adj := W adj s) {v} w2
        ⟨k0, v, Finset.mem_singleton_self v, (W_pow s k0 w2 v).mpr (hallS w2 v)⟩
      rw [Finset.mem_singleton] at hw3
      subst hw3
      rw [Finset.card_singleton] at hb3
      have hloop : W adj (s * (Fintype.card V - 1 - k3)) w2 w2 := hw2.iterate _
      have hk3' := (W_pow s k3 w2 w3).mp hk3
      have hgo : W adj (s * (Fintype.card V - 1)) w2 w3 := by
        refine (hloop.trans hk3').cast ?_
        rw [← Nat.mul_add]
        congr 1
        omega
      exact hreach.trans hgo
    refine AllW.mono (by omega) hall ?_
    -- arithmetic: `n - s + s (n-1) ≤ (n-1)² + 1` for `1 ≤ s ≤ n - 1`
    obtain ⟨m, hm⟩ : ∃ m, Fintype.card V = m + 2 := ⟨Fintype.card V - 2, by omega⟩
    rw [hm]
    have hsm : s ≤ m + 1 := by omega
    have e1 : m + 2 - 1 = m + 1 := by omega
    rw [e1]
    have h1 : s * (m + 1) = s * m + s := by rw [Nat.mul_succ]
    have h2 : s * m ≤ (m + 1) * m := Nat.mul_le_mul_right m hsm
    have h3 : (m + 1) ^ 2 = (m + 1) * m + (m + 1) := by rw [Nat.pow_two, Nat.mul_succ]
    omega

end Finite

end MsmVerif.Digraph

/-! ## Bridge to `Linalg.Walk` on boolean list-of-lists patterns -/

namespace MsmVerif.Linalg
open MsmVerif.Msm MsmVerif.Digraph

/-- the digraph on `Fin n` described by the boolean pattern `b` -/
def patAdj (b : List (List Bool)) (n : Nat) : Fin n → Fin n → Prop := fun i j => bent b i j = true

/-- `Walk` on a pattern with at most `n` rows is the abstract walk relation of the digraph on `Fin n` -/
theorem walk_iff_W {b : List (List Bool)} {n : Nat} (hb : b.length ≤ n) (k : Nat) (i j : Fin n) :
    Walk b k i j ↔ W (patAdj b n) k i j := by
  induction k generalizing j with
  | zero => exact Fin.val_inj
  | succ k ih =>
    constructor
    · rintro ⟨l, h1, h2⟩
      have hl : l < n := Nat.lt_of_lt_of_le (bent_lt_length h2) hb
      exact ⟨⟨l, hl⟩, (ih ⟨l, hl⟩).mp h1, h2⟩
    · rintro ⟨l, h1, h2⟩
      exact ⟨l, (ih l).mpr h1, h2⟩

/-- **Wielandt's bound for boolean patterns, every `n`**: if some `k ≥ 1` has walks of length exactly `k` between all
ordered pairs of indices `< n`, then so does `(n-1)² + 1`.  (Only `b.length ≤ n` is needed.) -/
theorem wielandt_pattern {n : Nat} {b : List (List Bool)} (hb : b.length ≤ n) {k : Nat} (hk : 1 ≤ k)
    (hw : ∀ i j, i < n → j < n → Walk b k i j) :
    ∀ i j, i < n → j < n → Walk b ((n - 1) ^ 2 + 1) i j := by
  have hall : AllW (patAdj b n) k := fun u v => (walk_iff_W hb k u v).mp (hw u v u.2 v.2)
  have := wielandt_abstract hk hall
  rw [Fintype.card_fin] at this
  intro i j hi hj
  exact (walk_iff_W hb _ ⟨i, hi⟩ ⟨j, hj⟩).mpr (this ⟨i, hi⟩ ⟨j, hj⟩)

/-- … and so does every `k' ≥ (n-1)² + 1` -/
theorem wielandt_pattern_ge {n : Nat} {b : List (List Bool)} (hb : b.length ≤ n) {k : Nat} (hk : 1 ≤ k)
    (hw : ∀ i j, i < n → j < n → Walk b k i j) {k' : Nat} (hk' : (n - 1) ^ 2 + 1 ≤ k') :
    ∀ i j, i < n → j < n → Walk b k' i j := by
  have hall : AllW (patAdj b n) k := fun u v => (walk_iff_W hb k u v).mp (hw u v u.2 v.2)
  have := wielandt_abstract hk hall
  rw [Fintype.card_fin] at this
  have := AllW.mono (by omega) this hk'
  intro i j hi hj
  exact (walk_iff_W hb _ ⟨i, hi⟩ ⟨j, hj⟩).mpr (this ⟨i, hi⟩ ⟨j, hj⟩)

theorem wielandtExp_eq (n : Nat) : wielandtExp n = (n - 1) ^ 2 + 1 := by
  unfold wielandtExp; rw [Nat.pow_two]

theorem WF_support {n : Nat} {m : Mat} (h : WF n m) :
    (support m).length = n ∧ ∀ r ∈ support m, r.length = n := by
  refine ⟨by rw [support_length, h.1], ?_⟩
  intro r hr
  simp only [support, List.mem_map] at hr
  obtain ⟨r', hr', rfl⟩ := hr
  rw [List.length_map, h.2 r' hr']

/-! ## Part B: fixed row vectors of irreducible row-stochastic matrices -/

section Fixed
variable {n : Nat}

/-- the entrywise absolute value of a fixed row vector of a non-negative matrix with unit row sums is again fixed -/
theorem fixed_abs {t : Nat → Nat → Rat} (ht : ∀ i j, 0 ≤ t i j)
    (hrow : ∀ i, i < n → ∑ j ∈ Finset.range n, t i j = 1)
    {z : Nat → Rat} (hz : ∀ j, j < n → ∑ k ∈ Finset.range n, z k * t k j = z j) :
    ∀ j, j < n → ∑ k ∈ Finset.range n, |z k| * t k j = |z j| := by
  have hge : ∀ j ∈ Finset.range n, 0 ≤ ∑ k ∈ Finset.range n, |z k| * t k j - |z j| := by
    intro j hj
    have hj' := Finset.mem_range.mp hj
    rw [sub_nonneg]
    calc |z j| = |∑ k ∈ Finset.range n, z k * t k j| := by rw [hz j hj']
      _ ≤ ∑ k ∈ Finset.range n, |z k * t k j| := Finset.abs_sum_le_sum_abs _ _
      _ = ∑ k ∈ Finset.range n, |z k| * t k j := by
          apply Finset.sum_congr rfl
          intro k _
          rw [abs_mul, abs_of_nonneg (ht k j)]
  have hsum : ∑ j ∈ Finset.range n, (∑ k ∈ Finset.range n, |z k| * t k j - |z j|) = 0 := by
    rw [Finset.sum_sub_distrib, Finset.sum_comm]
    have : ∀ k ∈ Finset.range n, ∑ j ∈ Finset.range n, |z k| * t k j = |z k| := by
      intro k hk
      rw [← Finset.mul_sum, hrow k (Finset.mem_range.mp hk), mul_one]
    rw [Finset.sum_congr rfl this, sub_self]
  intro j hj
  have := (Finset.sum_eq_zero_iff_of_nonneg hge).mp hsum j (Finset.mem_range.mpr hj)
  linarith

/-- positivity of a non-negative fixed row vector propagates along an edge -/
theorem fixed_pos_step {t : Nat → Nat → Rat} (ht : ∀ i j, 0 ≤ t i j) {w : Nat → Rat} (hw0 : ∀ k, 0 ≤ w k)
    (hw : ∀ j, j < n → ∑ k ∈ Finset.range n, w k * t k j = w j) {i j : Nat} (hi : i < n) (hj : j < n)
    (hwi : 0 < w i) (hij : 0 < t i j) : 0 < w j := by
  rw [← hw j hj]
  have := Finset.single_le_sum (f := fun k => w k * t k j) (fun k _ => mul_nonneg (hw0 k) (ht k j))
    (Finset.mem_range.mpr hi)
  exact lt_of_lt_of_le (mul_pos hwi hij) this

/-- positivity of a non-negative fixed row vector propagates along walks of the support graph -/
theorem fixed_pos_walk {T : Mat} (h : WF n T) (p : NonNeg T) {w : Nat → Rat} (hw0 : ∀ k, 0 ≤ w k)
    (hw : ∀ j, j < n → ∑ k ∈ Finset.range n, w k * entry T k j = w j) {k i j : Nat} (hi : i < n)
    (hwalk : Walk (support T) k i j) (hwi : 0 < w i) : j < n ∧ 0 < w j := by
  induction k generalizing j with
  | zero =>
    have : i = j := hwalk
    subst this
    exact ⟨hi, hwi⟩
  | succ k ih =>
    obtain ⟨l, h1, h2⟩ := hwalk
    obtain ⟨hl, hwl⟩ := ih h1
    have hpos := (bent_support_pos p l j).mp h2
    have hj : j < n := by
      by_contra hc
      rw [entry_of_ge_right h l (by omega)] at hpos
      exact lt_irrefl _ hpos
    exact ⟨hj, fixed_pos_step (fun a b => p.entry a b) hw0 hw hl hj hwl hpos⟩

/-- a fixed row vector with zero sum of an irreducible row-stochastic matrix has no positive entry -/
theorem fixed_nonpos {T : Mat} (h : WF n T) (p : NonNeg T)
    (hrow : ∀ i, i < n → ∑ j ∈ Finset.range n, entry T i j = 1)
    (hirr : ∀ i j, i < n → j < n → ∃ k, Walk (support T) k i j)
    {z : Nat → Rat} (hz : ∀ j, j < n → ∑ k ∈ Finset.range n, z k * entry T k j = z j)
    (hsum : ∑ k ∈ Finset.range n, z k = 0) : ∀ i, i < n → z i ≤ 0 := by
  intro i0 hi0
  by_contra hc
  have hc : 0 < z i0 := not_le.mp hc
  have habs := fixed_abs (fun a b => p.entry a b) hrow hz
  have hw0 : ∀ k, 0 ≤ |z k| + z k := fun k => by
    have := neg_abs_le (z k)
    linarith
  have hw : ∀ j, j < n → ∑ k ∈ Finset.range n, (|z k| + z k) * entry T k j = |z j| + z j := by
    intro j hj
    rw [← habs j hj, ← hz j hj, ← Finset.sum_add_distrib]
    apply Finset.sum_congr rfl
    intro k _
    rw [add_mul]
  have hpos : ∀ j, j < n → 0 < z j := by
    intro j hj
    obtain ⟨k, hk⟩ := hirr i0 j hi0 hj
    have h1 := (fixed_pos_walk h p hw0 hw hi0 hk (by have := abs_nonneg (z i0); linarith)).2
    by_contra hneg
    have hneg : z j ≤ 0 := not_lt.mp hneg
    rw [abs_of_nonpos hneg] at h1
    linarith
  have : 0 < ∑ k ∈ Finset.range n, z k :=
    Finset.sum_pos (fun k hk => hpos k (Finset.mem_range.mp hk)) ⟨i0, Finset.mem_range.mpr hi0⟩
  linarith

/-- a fixed row vector with positive entry sum of an irreducible row-stochastic matrix is entrywise positive -/
theorem fixed_pos {T : Mat} (h : WF n T) (p : NonNeg T)
    (hrow : ∀ i, i < n → ∑ j ∈ Finset.range n, entry T i j = 1)
    (hirr : ∀ i j, i < n → j < n → ∃ k, Walk (support T) k i j)
    {z : Nat → Rat} (hz : ∀ j, j < n → ∑ k ∈ Finset.range n, z k * entry T k j = z j)
    (hsum : 0 < ∑ k ∈ Finset.range n, z k) : ∀ i, i < n → 0 < z i := by
  have habs := fixed_abs (fun a b => p.entry a b) hrow hz
  -- `|z| - z` is a non-negative fixed vector; if it had a positive entry all entries of `z` would be negative
  have hw0 : ∀ k, 0 ≤ |z k| - z k := fun k => by
    have := le_abs_self (z k)
    linarith
  have hw : ∀ j, j < n → ∑ k ∈ Finset.range n, (|z k| - z k) * entry T k j = |z j| - z j := by
    intro j hj
    rw [← habs j hj, ← hz j hj, ← Finset.sum_sub_distrib]
    apply Finset.sum_congr rfl
    intro k _
    rw [sub_mul]
  have hnn : ∀ i, i < n → |z i| = z i := by
    intro i0 hi0
    by_contra hc
    have hc' : 0 < |z i0| - z i0 := lt_of_le_of_ne (hw0 i0) (fun e => hc (by linarith))
    have hneg : ∀ j ∈ Finset.range n, z j ≤ 0 := by
      intro j hj
      have hj' := Finset.mem_range.mp hj
      obtain ⟨k, hk⟩ := hirr i0 j hi0 hj'
      have h1 := (fixed_pos_walk h p hw0 hw hi0 hk hc').2
      by_contra hpos
      have hpos : 0 ≤ z j := le_of_lt (not_le.mp hpos)
      rw [abs_of_nonneg hpos] at h1
      linarith
    have := Finset.sum_nonpos hneg
    linarith
  have ha0 : ∀ k, 0 ≤ |z k| := fun k => abs_nonneg _
  have hsum' : 0 < ∑ k ∈ Finset.range n, |z k| := by
    rw [Finset.sum_congr rfl (fun k hk => hnn k (Finset.mem_range.mp hk))]
    exact hsum
  obtain ⟨i0, hi0, hpos0⟩ : ∃ i0, i0 < n ∧ 0 < |z i0| := by
    by_contra hc
    have : ∑ k ∈ Finset.range n, |z k| ≤ 0 := by
      apply Finset.sum_nonpos
      intro k hk
      by_contra hk'
      exact hc ⟨k, Finset.mem_range.mp hk, not_le.mp hk'⟩
    linarith
  intro j hj
  obtain ⟨k, hk⟩ := hirr i0 j hi0 hj
  have := (fixed_pos_walk h p ha0 habs hi0 hk hpos0).2
  rw [hnn j hj] at this
  exact this

end Fixed

theorem row_sum_entry {n : Nat} {T : Mat} (h : WF n T) (hrow : ∀ r ∈ T, r.sum = 1) :
    ∀ i, i < n → ∑ j ∈ Finset.range n, entry T i j = 1 := by
  intro i hi
  have hi' : i < T.length := by rw [h.1]; exact hi
  have hmem : T.getD i [] ∈ T := by rw [getD_of_lt T [] hi']; exact List.getElem_mem hi'
  rw [← hrow _ hmem, sum_eq_rsum, h.row_length hi, rsum_eq_finset]
  rfl

/-- **uniqueness of the stationary vector**: a non-negative well-formed matrix with unit row sums whose support graph
is strongly connected has at most one fixed row vector with entry sum one -/
theorem stationary_unique {n : Nat} {T : Mat} {x y : Vec} (h : WF n T) (p : NonNeg T)
    (hrow : ∀ r ∈ T, r.sum = 1)
    (hirr : ∀ i j, i < n → j < n → ∃ k, Walk (support T) k i j)
    (hx : vecMat x T = x) (hy : vecMat y T = y) (hxs : x.sum = 1) (hys : y.sum = 1) : x = y := by
  have hxl : x.length = n := by rw [← hx]; exact length_vecMat h x
  have hyl : y.length = n := by rw [← hy]; exact length_vecMat h y
  have hrow' := row_sum_entry h hrow
  have hfx : ∀ j, j < n → ∑ k ∈ Finset.range n, x.getD k 0 * entry T k j = x.getD j 0 := by
    intro j hj
    rw [← rsum_eq_finset, ← getD_vecMat h hxl hj, hx]
  have hfy : ∀ j, j < n → ∑ k ∈ Finset.range n, y.getD k 0 * entry T k j = y.getD j 0 := by
    intro j hj
    rw [← rsum_eq_finset, ← getD_vecMat h hyl hj, hy]
  have hsx : ∑ k ∈ Finset.range n, x.getD k 0 = 1 := by
    rw [← rsum_eq_finset, ← hxl, ← sum_eq_rsum, hxs]
  have hsy : ∑ k ∈ Finset.range n, y.getD k 0 = 1 := by
    rw [← rsum_eq_finset, ← hyl, ← sum_eq_rsum, hys]
  have h1 := fixed_nonpos h p hrow' hirr (z := fun k => x.getD k 0 - y.getD k 0)
    (by intro j hj; simp only [sub_mul, Finset.sum_sub_distrib]; rw [hfx j hj, hfy j hj])
    (by rw [Finset.sum_sub_distrib, hsx, hsy, sub_self])
  have h2 := fixed_nonpos h p hrow' hirr (z := fun k => y.getD k 0 - x.getD k 0)
    (by intro j hj; simp only [sub_mul, Finset.sum_sub_distrib]; rw [hfx j hj, hfy j hj])
    (by rw [Finset.sum_sub_distrib, hsx, hsy, sub_self])
  apply vec_ext hxl hyl
  intro i hi
  have a := h1 i hi
  have b := h2 i hi
  linarith

/-- a fixed row vector with entry sum one of an irreducible row-stochastic matrix is entrywise positive -/
theorem stationary_pos {n : Nat} {T : Mat} {x : Vec} (h : WF n T) (p : NonNeg T)
    (hrow : ∀ r ∈ T, r.sum = 1)
    (hirr : ∀ i j, i < n → j < n → ∃ k, Walk (support T) k i j)
    (hx : vecMat x T = x) (hxs : x.sum = 1) : ∀ i, i < n → 0 < x.getD i 0 := by
  have hxl : x.length = n := by rw [← hx]; exact length_vecMat h x
  have hrow' := row_sum_entry h hrow
  have hfx : ∀ j, j < n → ∑ k ∈ Finset.range n, x.getD k 0 * entry T k j = x.getD j 0 := by
    intro j hj
    rw [← rsum_eq_finset, ← getD_vecMat h hxl hj, hx]
  have hsx : ∑ k ∈ Finset.range n, x.getD k 0 = 1 := by
    rw [← rsum_eq_finset, ← hxl, ← sum_eq_rsum, hxs]
  exact fixed_pos h p hrow' hirr (z := fun k => x.getD k 0) hfx (by rw [hsx]; norm_num)

end MsmVerif.Linalg
