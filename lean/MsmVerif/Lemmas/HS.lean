/-
Lemmas/HS.lean — the Hummer–Szabo projection formula (C03).

Part A (Mathlib matrices over ℚ): for a row-stochastic `T` with stationary probability vector `π`, an assignment
`f` of micro- to macrostates, and certificates `(1 + 1πᵀ − T) Z = 1`, `(Aᵀ D_π Z A) M = 1`, the matrix
`hs = 1 + 1π_Aᵀ − M D_{π_A}` has rows summing to one, has `π_A` as stationary vector and is `Pᵀ T P` for a
bijective `f`.  Row normalisation is a no-op on row-stochastic matrices; clipping + row normalisation gives a
non-negative matrix whose non-zero rows sum to one.

Part C (list level): the pieces of `Linalg.hsProject` (`aggrL`, `lumpL`, `kMatL`, `nMatL`, `hsL`, `clipIf`),
transported through `Lemmas/MatBridge.lean`; `stationary_spec`/`stationary_sum` (the micro stationary vector is
stationary and normalised), `certOk_of_wf` (the driver's certificates always hold, by `Bridge.inverse_correct`) and
`model_core` (the values computed by the model satisfy `Setup`, and the output is `rowNormalizeQ (clip? hs)`).
-/
import Mathlib.LinearAlgebra.Matrix.NonsingularInverse
import Mathlib.Algebra.Order.Ring.Rat
import Mathlib.Algebra.Order.Field.Rat
import Mathlib.Algebra.Order.BigOperators.Group.List
import Mathlib.Algebra.BigOperators.Fin
import Mathlib.Tactic.Ring
import Mathlib.Tactic.Linarith
import Mathlib.Tactic.Abel
import Mathlib.Tactic.FinCases
import Mathlib.Tactic.NormNum
import MsmVerif.Model.Linalg
import MsmVerif.Lemmas.MatBridge

set_option linter.unusedSectionVars false

namespace MsmVerif.HS
open Matrix MsmVerif.Msm

variable {ι κ : Type*} [Fintype ι] [Fintype κ] [DecidableEq ι] [DecidableEq κ]

/-- aggregation matrix of an assignment `f` of micro- to macrostates: row `i` is the unit vector `e_{f i}` -/
def aggr (f : ι → κ) : Matrix ι κ ℚ := Matrix.of fun i j => if f i = j then 1 else 0

/-- the matrix all of whose rows equal `v` (`1 vᵀ`) -/
def rowsEq (ι : Type*) (v : κ → ℚ) : Matrix ι κ ℚ := Matrix.of fun _ j => v j

def kMat (T : Matrix ι ι ℚ) (π : ι → ℚ) : Matrix ι ι ℚ := 1 + rowsEq ι π - T
def nMat (f : ι → κ) (π : ι → ℚ) (Z : Matrix ι ι ℚ) : Matrix κ κ ℚ := (aggr f)ᵀ * diagonal π * Z * aggr f
def lump (f : ι → κ) (π : ι → ℚ) : κ → ℚ := (aggr f)ᵀ *ᵥ π
def hs (M : Matrix κ κ ℚ) (πA : κ → ℚ) : Matrix κ κ ℚ := 1 + rowsEq κ πA - M * diagonal πA

@[simp] theorem aggr_apply (f : ι → κ) (i j) : aggr f i j = if f i = j then 1 else 0 := rfl
@[simp] theorem rowsEq_apply (v : κ → ℚ) (i : ι) (j) : rowsEq ι v i j = v j := rfl

theorem rowsEq_mulVec (v w : κ → ℚ) : rowsEq ι v *ᵥ w = fun _ => v ⬝ᵥ w := by
  ext i; simp [mulVec, dotProduct]

theorem vecMul_rowsEq (u : ι → ℚ) (v : κ → ℚ) : u ᵥ* rowsEq ι v = (∑ i, u i) • v := by
  ext j; simp [vecMul, dotProduct, Finset.sum_mul]

theorem aggr_mulVec_one (f : ι → κ) : aggr f *ᵥ 1 = 1 := by
  ext i; simp [mulVec, dotProduct]

theorem one_vecMul_aggr_transpose (f : ι → κ) : 1 ᵥ* (aggr f)ᵀ = 1 := by
  rw [vecMul_transpose, aggr_mulVec_one]

theorem lump_apply (f : ι → κ) (π : ι → ℚ) (a : κ) : lump f π a = ∑ i, if f i = a then π i else 0 := by
  simp [lump, mulVec, dotProduct]

theorem sum_lump (f : ι → κ) (π : ι → ℚ) : ∑ a, lump f π a = ∑ i, π i := by
  have : lump f π ⬝ᵥ 1 = π ⬝ᵥ 1 := by
    rw [lump, dotProduct_comm, dotProduct_mulVec, one_vecMul_aggr_transpose, dotProduct_comm]
  simpa [dotProduct] using this

structure Setup (T : Matrix ι ι ℚ) (π : ι → ℚ) (f : ι → κ) (Z : Matrix ι ι ℚ) (M : Matrix κ κ ℚ) : Prop where
  rowsum : T *ᵥ 1 = 1
  stat : π ᵥ* T = π
  norm : ∑ i, π i = 1
  certZ : kMat T π * Z = 1
  certM : nMat f π Z * M = 1

variable {T : Matrix ι ι ℚ} {π : ι → ℚ} {f : ι → κ} {Z : Matrix ι ι ℚ} {M : Matrix κ κ ℚ}

theorem kMat_mulVec_one (h : Setup T π f Z M) : kMat T π *ᵥ 1 = 1 := by
  have : π ⬝ᵥ 1 = 1 := by simpa [dotProduct] using h.norm
  rw [kMat, sub_mulVec, add_mulVec, one_mulVec, rowsEq_mulVec, h.rowsum, this]
  ext i; simp

theorem vecMul_kMat (h : Setup T π f Z M) : π ᵥ* kMat T π = π := by
  rw [kMat, vecMul_sub, vecMul_add, vecMul_one, vecMul_rowsEq, h.stat, h.norm]
  simp

theorem Z_mul_kMat (h : Setup T π f Z M) : Z * kMat T π = 1 := mul_eq_one_comm.mp h.certZ

theorem Z_ones (h : Setup T π f Z M) : Z *ᵥ 1 = 1 ∧ π ᵥ* Z = π := by
  constructor
  · calc Z *ᵥ 1 = Z *ᵥ (kMat T π *ᵥ 1) := by rw [kMat_mulVec_one h]
      _ = 1 := by rw [mulVec_mulVec, Z_mul_kMat h, one_mulVec]
  · calc π ᵥ* Z = (π ᵥ* kMat T π) ᵥ* Z := by rw [vecMul_kMat h]
      _ = π := by rw [vecMul_vecMul, h.certZ, vecMul_one]

theorem nMat_mulVec_one (h : Setup T π f Z M) : nMat f π Z *ᵥ 1 = lump f π := by
  rw [nMat, ← mulVec_mulVec, aggr_mulVec_one, ← mulVec_mulVec, (Z_ones h).1, ← mulVec_mulVec]
  congr 1
  ext i; simp [mulVec, dotProduct, diagonal_apply]

theorem one_vecMul_nMat (h : Setup T π f Z M) : 1 ᵥ* nMat f π Z = lump f π := by
  rw [nMat, ← vecMul_vecMul, ← vecMul_vecMul, ← vecMul_vecMul, one_vecMul_aggr_transpose]
  have : (1 : ι → ℚ) ᵥ* diagonal π = π := by ext i; simp [vecMul, dotProduct, diagonal_apply]
  rw [this, (Z_ones h).2, lump, mulVec_transpose]

theorem M_mul_nMat (h : Setup T π f Z M) : M * nMat f π Z = 1 := mul_eq_one_comm.mp h.certM

theorem M_mulVec_lump (h : Setup T π f Z M) : M *ᵥ lump f π = 1 := by
  rw [← nMat_mulVec_one h, mulVec_mulVec, M_mul_nMat h, one_mulVec]

theorem lump_vecMul_M (h : Setup T π f Z M) : lump f π ᵥ* M = 1 := by
  rw [← one_vecMul_nMat h, vecMul_vecMul, h.certM, vecMul_one]

theorem sum_lump_eq_one (h : Setup T π f Z M) : ∑ a, lump f π a = 1 := by
  rw [sum_lump, h.norm]

theorem diagonal_mulVec_one (v : κ → ℚ) : diagonal v *ᵥ 1 = v := by
  ext i; simp [mulVec, dotProduct, diagonal_apply]

theorem one_vecMul_diagonal (v : κ → ℚ) : 1 ᵥ* diagonal v = v := by
  ext i; simp [vecMul, dotProduct, diagonal_apply]

/-- rows of the Hummer–Szabo matrix sum to one -/
theorem row_sum (h : Setup T π f Z M) : hs M (lump f π) *ᵥ 1 = 1 := by
  have h1 : lump f π ⬝ᵥ 1 = 1 := by simpa [dotProduct] using sum_lump_eq_one h
  rw [hs, sub_mulVec, add_mulVec, one_mulVec, rowsEq_mulVec, ← mulVec_mulVec, diagonal_mulVec_one,
    M_mulVec_lump h, h1]
  ext i; simp

theorem stationary (h : Setup T π f Z M) :
    lump f π ᵥ* hs M (lump f π) = lump f π ∧ ∑ a, lump f π a = 1 := by
  refine ⟨?_, sum_lump_eq_one h⟩
  rw [hs, vecMul_sub, vecMul_add, vecMul_one, vecMul_rowsEq, sum_lump_eq_one h, ← vecMul_vecMul,
    lump_vecMul_M h, one_vecMul_diagonal]
  simp

/-! ### identity lumping -/

theorem rowsEq_mul {ι' : Type*} (v : ι → ℚ) (B : Matrix ι κ ℚ) : rowsEq ι' v * B = rowsEq ι' (v ᵥ* B) := by
  ext i j; simp [Matrix.mul_apply, vecMul, dotProduct]

theorem mul_rowsEq_of_mulVec_one (B : Matrix κ ι ℚ) (hB : B *ᵥ 1 = 1) (v : ι → ℚ) :
    B * rowsEq ι v = rowsEq κ v := by
  ext a j
  have := congrFun hB a
  simp only [mulVec, dotProduct, Pi.one_apply, mul_one] at this
  simp [Matrix.mul_apply, ← Finset.sum_mul, this]

theorem diagonal_lump (f : ι → κ) (π : ι → ℚ) :
    diagonal (lump f π) = (aggr f)ᵀ * diagonal π * aggr f := by
  ext a b
  simp only [diagonal_apply, lump_apply, Matrix.mul_apply, transpose_apply, aggr_apply]
  have h1 : ∀ j, (∑ j_1, (if f j_1 = a then (1:ℚ) else 0) * if j_1 = j then π j_1 else 0)
      = if f j = a then π j else 0 := by
    intro j
    rw [Finset.sum_eq_single j]
    · simp
    · intro i _ hij; simp [hij]
    · intro hj; exact absurd (Finset.mem_univ j) hj
  simp only [h1]
  split
  · subst ‹a = b›
    apply Finset.sum_congr rfl
    intro j _
    by_cases hj : f j = a <;> simp [hj]
  · rename_i hab
    symm
    apply Finset.sum_eq_zero
    intro j _
    by_cases hj : f j = a
    · have : ¬ f j = b := fun hb => hab (hj ▸ hb)
      simp [this]
    · simp [hj]

/-- For a bijective relabelling `f` (so that `aggr f` is a permutation matrix `P`), the Hummer–Szabo matrix is
the relabelled micro matrix `Pᵀ T P`.  (The non-vanishing of `π` is implied by the certificate `certM`.) -/
theorem identity_lumping {f : ι → ι} {M : Matrix ι ι ℚ} (h : Setup T π f Z M) (hf : Function.Injective f) :
    hs M (lump f π) = (aggr f)ᵀ * T * aggr f := by
  have hPPt : aggr f * (aggr f)ᵀ = 1 := by
    ext i j
    simp only [Matrix.mul_apply, transpose_apply, aggr_apply, Matrix.one_apply]
    rw [Finset.sum_eq_single (f i)]
    · by_cases hij : i = j
      · simp [hij]
      · have : ¬ f j = f i := fun e => hij (hf e.symm)
        simp [hij, this]
    · intro b _ hb; simp [Ne.symm hb]
    · intro hj; exact absurd (Finset.mem_univ _) hj
  have hPtP : (aggr f)ᵀ * aggr f = 1 := mul_eq_one_comm.mp hPPt
  have hPt1 : (aggr f)ᵀ *ᵥ 1 = 1 := by
    rw [← aggr_mulVec_one f, mulVec_mulVec, hPtP, one_mulVec, aggr_mulVec_one]
  have hMD : M * diagonal (lump f π) = (aggr f)ᵀ * kMat T π * aggr f := by
    have : nMat f π Z * ((aggr f)ᵀ * kMat T π * aggr f) = diagonal (lump f π) := by
      rw [diagonal_lump, nMat]
      calc (aggr f)ᵀ * diagonal π * Z * aggr f * ((aggr f)ᵀ * kMat T π * aggr f)
          = (aggr f)ᵀ * diagonal π * Z * (aggr f * (aggr f)ᵀ) * kMat T π * aggr f := by
            simp only [Matrix.mul_assoc]
        _ = (aggr f)ᵀ * diagonal π * (Z * kMat T π) * aggr f := by
            rw [hPPt]; simp only [Matrix.mul_assoc, Matrix.one_mul]
        _ = (aggr f)ᵀ * diagonal π * aggr f := by rw [Z_mul_kMat h, Matrix.mul_one]
    rw [← this, ← Matrix.mul_assoc, M_mul_nMat h, Matrix.one_mul]
  rw [hs, hMD, kMat, Matrix.mul_sub, Matrix.sub_mul, Matrix.mul_add, Matrix.add_mul, Matrix.mul_one, hPtP,
    mul_rowsEq_of_mulVec_one _ hPt1, rowsEq_mul, lump, mulVec_transpose]
  abel

/-- entrywise form of `identity_lumping`: the entry of the lumped matrix at `(f i, f j)` is `T i j` -/
theorem identity_lumping_apply {f : ι → ι} {M : Matrix ι ι ℚ} (h : Setup T π f Z M) (hf : Function.Injective f)
    (i j : ι) : hs M (lump f π) (f i) (f j) = T i j := by
  rw [identity_lumping h hf]
  simp only [Matrix.mul_apply, transpose_apply, aggr_apply]
  rw [Finset.sum_eq_single j]
  · rw [Finset.sum_eq_single i]
    · simp
    · intro b _ hb
      have : ¬ f b = f i := fun e => hb (hf e)
      simp [this]
    · intro hi; exact absurd (Finset.mem_univ _) hi
  · intro b _ hb
    have : ¬ f b = f j := fun e => hb (hf e)
    simp [this]
  · intro hj; exact absurd (Finset.mem_univ _) hj

/-- identity lumping returns the micro matrix itself -/
theorem identity_lumping_id {M : Matrix ι ι ℚ} (h : Setup T π (id : ι → ι) Z M) :
    hs M (lump id π) = T := by
  rw [identity_lumping h Function.injective_id]
  have : aggr (id : ι → ι) = 1 := by ext i j; simp [Matrix.one_apply]
  rw [this]; simp


/-- non-vacuity: a 3-state chain lumped into 2 macrostates satisfies all hypotheses -/
example : Setup (ι := Fin 3) (κ := Fin 2)
    !![1/2, 1/4, 1/4; 1/4, 1/2, 1/4; 1/3, 1/3, 1/3] ![4/11, 4/11, 3/11] ![0, 0, 1]
    !![428/363, -56/363, -3/121; -56/363, 428/363, -3/121; -4/121, -4/121, 129/121]
    !![43/32, 1/12; 1/12, 31/9] := by
  constructor
  · ext i; fin_cases i <;> simp [mulVec, dotProduct, Fin.sum_univ_succ] <;> norm_num
  · ext i; fin_cases i <;> simp [vecMul, dotProduct, Fin.sum_univ_succ] <;> norm_num
  · simp [Fin.sum_univ_succ]; norm_num
  · ext i j; fin_cases i <;> fin_cases j <;>
      simp [kMat, Matrix.mul_apply, Fin.sum_univ_succ, Matrix.one_apply] <;> norm_num
  · ext i j; fin_cases i <;> fin_cases j <;>
      simp [nMat, Matrix.mul_apply, Fin.sum_univ_succ, diagonal_apply] <;> norm_num

/-- non-vacuity of `identity_lumping_id`: a 2-state chain with the identity assignment -/
example : Setup (ι := Fin 2) (κ := Fin 2)
    !![1/2, 1/2; 1/4, 3/4] ![1/3, 2/3] id !![11/9, -2/9; -1/9, 10/9] !![5/2, 1/4; 1/4, 11/8] := by
  constructor
  · ext i; fin_cases i <;> simp [mulVec, dotProduct, Fin.sum_univ_succ] <;> norm_num
  · ext i; fin_cases i <;> simp [vecMul, dotProduct, Fin.sum_univ_succ] <;> norm_num
  · simp [Fin.sum_univ_succ]; norm_num
  · ext i j; fin_cases i <;> fin_cases j <;>
      simp [kMat, Matrix.mul_apply, Fin.sum_univ_succ, Matrix.one_apply] <;> norm_num
  · ext i j; fin_cases i <;> fin_cases j <;>
      simp [nMat, Matrix.mul_apply, Fin.sum_univ_succ, diagonal_apply] <;> norm_num

/-! ### row normalisation and clipping -/

def rowNormalize (X : Matrix ι κ ℚ) : Matrix ι κ ℚ :=
  Matrix.of fun i j => X i j / (if ∑ k, X i k = 0 then 1 else ∑ k, X i k)

theorem rownorm_noop (X : Matrix ι κ ℚ) (h : X *ᵥ 1 = 1) : rowNormalize X = X := by
  ext i j
  have := congrFun h i
  simp only [mulVec, dotProduct, Pi.one_apply, mul_one] at this
  simp [rowNormalize, this]

theorem sum_map_div (l : List ℚ) (d : ℚ) : (l.map (fun c => c / d)).sum = l.sum / d := by
  induction l with
  | nil => simp
  | cons a l ih => simp [ih, add_div]

theorem rowNormalizeQ_noop (X : List (List ℚ)) (h : ∀ row ∈ X, row.sum = 1) : rowNormalizeQ X = X := by
  unfold rowNormalizeQ
  conv => rhs; rw [← List.map_id X]
  apply List.map_congr_left
  intro row hrow
  simp [h row hrow]

example : ∀ row ∈ ([[1/2, 1/2], [1/4, 3/4]] : List (List ℚ)), row.sum = 1 := by decide +kernel

/-- negative entries set to zero (`np.clip(·, 0, None)` as used by `hsProject` with `positive = true`) -/
def clip (X : List (List ℚ)) : List (List ℚ) := X.map (fun r => r.map (fun x => if x < 0 then 0 else x))

theorem normRow_props (c : List ℚ) (hc0 : ∀ x ∈ c, 0 ≤ x) :
    let row := c.map (fun x => x / (if c.sum = 0 then 1 else c.sum))
    (∀ x ∈ row, 0 ≤ x) ∧ (row.sum ≠ 0 → row.sum = 1) := by
  intro row
  have hs0 : 0 ≤ c.sum := List.sum_nonneg hc0
  constructor
  · intro x hx
    simp only [row, List.mem_map] at hx
    obtain ⟨y, hy, rfl⟩ := hx
    apply div_nonneg (hc0 y hy)
    split <;> [exact zero_le_one; exact hs0]
  · simp only [row, sum_map_div]
    by_cases h0 : c.sum = 0
    · simp [h0]
    · simp [h0]

theorem positive (X : List (List ℚ)) :
    ∀ row ∈ rowNormalizeQ (clip X), (∀ x ∈ row, 0 ≤ x) ∧ (row.sum ≠ 0 → row.sum = 1) := by
  intro row hrow
  simp only [rowNormalizeQ, List.mem_map] at hrow
  obtain ⟨c, hc, rfl⟩ := hrow
  apply normRow_props
  simp only [clip, List.mem_map] at hc
  obtain ⟨r, -, rfl⟩ := hc
  intro x hx
  simp only [List.mem_map] at hx
  obtain ⟨y, -, rfl⟩ := hx
  split <;> [exact le_refl _; exact not_lt.mp ‹_›]

theorem sum_le_sum_clipRow (r : List ℚ) : r.sum ≤ (r.map (fun x => if x < 0 then 0 else x)).sum := by
  induction r with
  | nil => simp
  | cons a r ih =>
    simp only [List.map_cons, List.sum_cons]
    have : a ≤ (if a < 0 then 0 else a) := by split <;> [exact le_of_lt ‹_›; exact le_refl _]
    exact add_le_add this ih

/-- if the rows of `X` sum to one, clipping and renormalising gives non-negative rows that still sum to one -/
theorem positive_of_rowSums (X : List (List ℚ)) (hX : ∀ row ∈ X, row.sum = 1) :
    ∀ row ∈ rowNormalizeQ (clip X), (∀ x ∈ row, 0 ≤ x) ∧ row.sum = 1 := by
  intro row hrow
  obtain ⟨h0, h1⟩ := positive X row hrow
  refine ⟨h0, h1 ?_⟩
  simp only [rowNormalizeQ, List.mem_map] at hrow
  obtain ⟨c, hc, rfl⟩ := hrow
  simp only [clip, List.mem_map] at hc
  obtain ⟨r, hr, rfl⟩ := hc
  have hge : 1 ≤ (r.map (fun x => if x < 0 then 0 else x)).sum := hX r hr ▸ sum_le_sum_clipRow r
  have hne : (r.map (fun x => if x < 0 then 0 else x)).sum ≠ 0 := by
    intro h; rw [h] at hge; exact absurd hge (by norm_num)
  rw [sum_map_div, if_neg hne, div_self hne]
  exact one_ne_zero

/-! ## Part C: the list-level model `Linalg.hsProject` -/

section ListLevel
open MsmVerif.Linalg MsmVerif.Bridge

/-! ### the pieces of `hsProject` -/

/-- aggregation matrix built by `hsProject` -/
def aggrL (assign : List ℕ) (m : ℕ) : Mat :=
  assign.map (fun s => (List.range m).map (fun a => if s = a then 1 else 0))

/-- per-macrostate sums of `pi` -/
def lumpL (pi : Vec) (assign : List ℕ) (m : ℕ) : Vec :=
  (List.range m).map (fun a => ((List.zip pi assign).filterMap (fun (p, s) => if s = a then some p else none)).sum)

/-- `1 + 1πᵀ − T` -/
def kMatL (T : Mat) (pi : Vec) : Mat := sub (add (identity T.length) (List.replicate T.length pi)) T

/-- `Aᵀ D_π Z A` -/
def nMatL (pi : Vec) (assign : List ℕ) (m : ℕ) (Z : Mat) : Mat :=
  mul (mul (mul (transpose (aggrL assign m)) (diag pi)) Z) (aggrL assign m)

/-- `1 + 1π_Aᵀ − M D_{π_A}` -/
def hsL (M : Mat) (piA : Vec) (m : ℕ) : Mat := sub (add (identity m) (List.replicate m piA)) (mul M (diag piA))

def clipIf (positive : Bool) (X : Mat) : Mat := if positive then clip X else X

theorem hsProject_eq_some_iff {T : Mat} {assign : List ℕ} {m : ℕ} {positive : Bool} {R : Mat} :
    hsProject T assign m positive = some R ↔
      ∃ pi Z M, Linalg.stationary T = some pi ∧ inverse (kMatL T pi) = some Z ∧
        inverse (nMatL pi assign m Z) = some M ∧
        R = rowNormalizeQ (clipIf positive (hsL M (lumpL pi assign m) m)) := by
  unfold hsProject
  simp only [Option.bind_eq_bind, Option.bind_eq_some_iff, Option.pure_def, Option.some.injEq]
  constructor
  · rintro ⟨pi, hpi, Z, hZ, M, hM, rfl⟩
    exact ⟨pi, Z, M, hpi, hZ, hM, rfl⟩
  · rintro ⟨pi, Z, M, hpi, hZ, hM, rfl⟩
    exact ⟨pi, hpi, Z, hZ, M, hM, rfl⟩

theorem stationary_spec {n : ℕ} {T : Mat} {pi : Vec} (hT : WF n n T) (h : Linalg.stationary T = some pi) :
    0 < n ∧ pi.length = n ∧ vecMat pi T = pi := by
  unfold Linalg.stationary at h
  simp only [hT.1] at h
  split at h
  · exact absurd h (by simp)
  · rename_i hn
    have hn : 0 < n := Nat.pos_of_ne_zero hn
    split at h
    · exact absurd h (by simp)
    · split at h
      · rename_i hv
        simp only [Option.some.injEq] at h
        subst h
        have hv := eq_of_beq hv
        refine ⟨hn, ?_, hv⟩
        rw [← hv]
        exact length_vecMat hT hn _
      · exact absurd h (by simp)

/-- the vector returned by `Linalg.stationary` sums to one -/
theorem stationary_sum {n : ℕ} {T : Mat} {pi : Vec} (hT : WF n n T) (h : Linalg.stationary T = some pi) :
    pi.sum = 1 := by
  unfold Linalg.stationary at h
  simp only [hT.1] at h
  split at h
  · exact absurd h (by simp)
  · rename_i hn
    have hn : 0 < n := Nat.pos_of_ne_zero hn
    split at h
    · exact absurd h (by simp)
    · rename_i inv hinv
      split at h
      · simp only [Option.some.injEq] at h
        subst h
        have wA0 : WF n n (sub (Linalg.transpose T) (identity n)) := (hT.transpose hn).sub (WF.identity n)
        have wA : WF n n ((sub (Linalg.transpose T) (identity n)).take (n - 1) ++ [List.replicate n (1 : ℚ)]) := by
          refine ⟨by simp [wA0.1]; omega, ?_⟩
          intro row hrow
          rcases List.mem_append.mp hrow with h1 | h1
          · exact wA0.2 _ (List.mem_of_mem_take h1)
          · simp only [List.mem_singleton] at h1
            simp [h1]
        obtain ⟨wI, hmul, -⟩ := inverse_correct wA hinv
        have hlast : ∀ k, entry ((sub (Linalg.transpose T) (identity n)).take (n - 1) ++ [List.replicate n (1 : ℚ)])
            (n - 1) k = if k < n then 1 else 0 := by
          intro k
          have hl : ((sub (Linalg.transpose T) (identity n)).take (n - 1)).length = n - 1 := by
            simp [wA0.1]
          simp only [entry, List.getD_eq_getElem?_getD]
          rw [List.getElem?_append_right (by omega), hl, Nat.sub_self]
          by_cases hk : k < n <;> simp [hk]
        have := congrFun (congrFun hmul ⟨n - 1, by omega⟩) ⟨n - 1, by omega⟩
        simp only [Matrix.mul_apply, toMatrix_apply, hlast, Matrix.one_apply_eq] at this
        rw [sum_map_eq_sum_fin (n := n) _ wI.1 _ []]
        rw [← this]
        apply Finset.sum_congr rfl
        intro k _
        simp [entry]
      · exact absurd h (by simp)

/-! ### bridge for the aggregation matrix and the lumped populations -/

theorem wf_aggrL {n : ℕ} {assign : List ℕ} (hlen : assign.length = n) (m : ℕ) : WF n m (aggrL assign m) := by
  refine ⟨by simpa [aggrL] using hlen, ?_⟩
  intro row hrow
  simp only [aggrL, List.mem_map] at hrow
  obtain ⟨s, -, rfl⟩ := hrow
  simp

theorem entry_aggrL {assign : List ℕ} {m i j : ℕ} (hi : i < assign.length) (hj : j < m) :
    entry (aggrL assign m) i j = if assign[i] = j then 1 else 0 := by
  simp [aggrL, entry, List.getD_eq_getElem?_getD, hi, hj]

theorem toMatrix_aggrL {n m : ℕ} {assign : List ℕ} (hlen : assign.length = n) (f : Fin n → Fin m)
    (hf : ∀ i, (f i : ℕ) = assign.getD i 0) : toMatrix n m (aggrL assign m) = aggr f := by
  ext i j
  have hi : (i : ℕ) < assign.length := hlen ▸ i.2
  have := hf i
  simp only [List.getD_eq_getElem?_getD, List.getElem?_eq_getElem hi, Option.getD_some] at this
  simp [entry_aggrL hi j.2, ← this, Fin.ext_iff]

theorem sum_filterMap_ite {α : Type} (l : List (ℚ × α)) (P : α → Prop) [DecidablePred P] :
    (l.filterMap (fun (p, s) => if P s then some p else none)).sum
      = (l.map (fun (p, s) => if P s then p else 0)).sum := by
  induction l with
  | nil => rfl
  | cons x l ih =>
    obtain ⟨p, s⟩ := x
    by_cases h : P s <;> simp [h, ih]

theorem length_lumpL (pi : Vec) (assign : List ℕ) (m : ℕ) : (lumpL pi assign m).length = m := by
  simp [lumpL]

theorem toVec_lumpL {n m : ℕ} {pi : Vec} {assign : List ℕ} (hpi : pi.length = n) (hlen : assign.length = n)
    (f : Fin n → Fin m) (hf : ∀ i, (f i : ℕ) = assign.getD i 0) :
    toVec m (lumpL pi assign m) = lump f (toVec n pi) := by
  ext a
  rw [lump_apply, toVec_apply]
  have : (lumpL pi assign m).getD a 0
      = ((List.zip pi assign).map (fun (p, s) => if s = (a : ℕ) then p else 0)).sum := by
    simp only [lumpL, List.getD_eq_getElem?_getD]
    rw [List.getElem?_map, List.getElem?_range a.2]
    simp only [Option.map_some, Option.getD_some]
    exact sum_filterMap_ite _ (fun s => s = (a : ℕ))
  rw [this, sum_map_eq_sum_fin (n := n) _ (by simp [hpi, hlen]) _ (0, 0)]
  apply Finset.sum_congr rfl
  intro i _
  have h1 : (i : ℕ) < pi.length := hpi ▸ i.2
  have h2 : (i : ℕ) < assign.length := hlen ▸ i.2
  have := hf i
  simp only [List.getD_eq_getElem?_getD, List.getElem?_eq_getElem h2, Option.getD_some] at this
  simp [List.getD_eq_getElem?_getD, h1, h2, ← this, Fin.ext_iff]

/-! ### the model satisfies the hypotheses of part A -/

/-- the assignment as a function on `Fin n` -/
def assignFn {n m : ℕ} (assign : List ℕ) (hlen : assign.length = n) (hlt : ∀ s ∈ assign, s < m) : Fin n → Fin m :=
  fun i => ⟨assign.getD i 0, by
    have hi : (i : ℕ) < assign.length := hlen ▸ i.2
    rw [List.getD_eq_getElem?_getD, List.getElem?_eq_getElem hi]
    exact hlt _ (List.getElem_mem hi)⟩

theorem assignFn_val {n m : ℕ} (assign : List ℕ) (hlen : assign.length = n) (hlt : ∀ s ∈ assign, s < m) (i : Fin n) :
    (assignFn assign hlen hlt i : ℕ) = assign.getD i 0 := rfl

theorem pos_of_assign {n m : ℕ} {assign : List ℕ} (hlen : assign.length = n) (hlt : ∀ s ∈ assign, s < m)
    (hn : 0 < n) : 0 < m := by
  have h0 : 0 < assign.length := hlen ▸ hn
  exact Nat.zero_lt_of_lt (hlt _ (List.getElem_mem h0))

theorem wf_kMatL {n : ℕ} {T : Mat} {pi : Vec} (hT : WF n n T) (hpi : pi.length = n) : WF n n (kMatL T pi) := by
  unfold kMatL
  rw [hT.1]
  exact ((WF.identity n).add (WF.replicate hpi)).sub hT

theorem toMatrix_kMatL {n : ℕ} {T : Mat} {pi : Vec} (hT : WF n n T) (hpi : pi.length = n) :
    toMatrix n n (kMatL T pi) = kMat (toMatrix n n T) (toVec n pi) := by
  unfold kMatL kMat
  rw [hT.1, toMatrix_sub ((WF.identity n).add (WF.replicate hpi)) hT,
    toMatrix_add (WF.identity n) (WF.replicate hpi), toMatrix_identity, toMatrix_replicate]
  rfl

theorem wf_nMatL {n m : ℕ} {pi : Vec} {assign : List ℕ} {Z : Mat} (hn : 0 < n) (hpi : pi.length = n)
    (hlen : assign.length = n) (hZ : WF n n Z) : WF m m (nMatL pi assign m Z) :=
  ((((wf_aggrL hlen m).transpose hn).mul (WF.diag hpi) hn).mul hZ hn).mul (wf_aggrL hlen m) hn

theorem toMatrix_nMatL {n m : ℕ} {pi : Vec} {assign : List ℕ} {Z : Mat} (hn : 0 < n) (hpi : pi.length = n)
    (hlen : assign.length = n) (hZ : WF n n Z) (f : Fin n → Fin m) (hf : ∀ i, (f i : ℕ) = assign.getD i 0) :
    toMatrix m m (nMatL pi assign m Z) = nMat f (toVec n pi) (toMatrix n n Z) := by
  have wA := wf_aggrL hlen m
  have wAt := wA.transpose hn
  have wD : WF n n (diag pi) := WF.diag hpi
  unfold nMatL nMat
  rw [toMatrix_mul ((wAt.mul wD hn).mul hZ hn) wA, toMatrix_mul (wAt.mul wD hn) hZ, toMatrix_mul wAt wD,
    toMatrix_transpose wA, toMatrix_diag hpi, toMatrix_aggrL hlen f hf]

theorem setup_of_model {n m : ℕ} {T : Mat} {assign : List ℕ} {pi : Vec} {Z M : Mat}
    (hT : WF n n T) (hsum : ∀ row ∈ T, row.sum = 1) (hlen : assign.length = n) (hlt : ∀ s ∈ assign, s < m)
    (hpi : Linalg.stationary T = some pi) (hZ : inverse (kMatL T pi) = some Z)
    (hM : inverse (nMatL pi assign m Z) = some M)
    (hnorm : pi.sum = 1) (cZ : isInverse (kMatL T pi) Z = true)
    (cM : isInverse (nMatL pi assign m Z) M = true) :
    Setup (toMatrix n n T) (toVec n pi) (assignFn assign hlen hlt) (toMatrix n n Z) (toMatrix m m M) := by
  obtain ⟨hn, hpilen, hstat⟩ := stationary_spec hT hpi
  have wK := wf_kMatL hT hpilen
  have wZ := wf_inverse wK hZ
  have wN : WF m m (nMatL pi assign m Z) := wf_nMatL hn hpilen hlen wZ
  have wM := wf_inverse wN hM
  refine ⟨?_, ?_, ?_, ?_, ?_⟩
  · ext i
    rw [← rowSum_eq_mulVec_one hT i]
    have hi : (i : ℕ) < T.length := hT.1 ▸ i.2
    rw [List.getD_eq_getElem?_getD, List.getElem?_eq_getElem hi]
    exact hsum _ (List.getElem_mem hi)
  · rw [← toVec_vecMat hpilen hT, hstat]
  · rw [← sum_eq_toVec hpilen, hnorm]
  · rw [← toMatrix_kMatL hT hpilen]
    exact (isInverse_iff wK wZ).mp cZ
  · rw [← toMatrix_nMatL hn hpilen hlen wZ _ (assignFn_val assign hlen hlt)]
    exact (isInverse_iff wN wM).mp cM

/-! ### the output matrix -/

theorem wf_hsL {m : ℕ} {M : Mat} {piA : Vec} (hm : 0 < m) (hM : WF m m M) (hp : piA.length = m) :
    WF m m (hsL M piA m) :=
  ((WF.identity m).add (WF.replicate hp)).sub (hM.mul (WF.diag hp) hm)

theorem toMatrix_hsL {m : ℕ} {M : Mat} {piA : Vec} (hm : 0 < m) (hM : WF m m M) (hp : piA.length = m) :
    toMatrix m m (hsL M piA m) = hs (toMatrix m m M) (toVec m piA) := by
  unfold hsL hs
  rw [toMatrix_sub ((WF.identity m).add (WF.replicate hp)) (hM.mul (WF.diag hp) hm),
    toMatrix_add (WF.identity m) (WF.replicate hp), toMatrix_identity, toMatrix_replicate,
    toMatrix_mul hM (WF.diag hp), toMatrix_diag hp]
  rfl

/-- matrix version of `clip` -/
def clipM {ι κ : Type*} (X : Matrix ι κ ℚ) : Matrix ι κ ℚ := Matrix.of fun i j => if X i j < 0 then 0 else X i j

theorem wf_clip {n m : ℕ} {X : Mat} (hX : WF n m X) : WF n m (clip X) := by
  refine ⟨by simpa [clip] using hX.1, ?_⟩
  intro row hrow
  simp only [clip, List.mem_map] at hrow
  obtain ⟨r, hr, rfl⟩ := hrow
  simpa using hX.2 r hr

theorem toMatrix_clip {n m : ℕ} {X : Mat} (hX : WF n m X) : toMatrix n m (clip X) = clipM (toMatrix n m X) := by
  ext i j
  have hi : (i : ℕ) < X.length := hX.1 ▸ i.2
  have hj : (j : ℕ) < (X[(i : ℕ)]).length := (hX.2 _ (List.getElem_mem hi)) ▸ j.2
  simp [clip, clipM, entry, List.getD_eq_getElem?_getD, hi, hj]

theorem wf_rowNormalizeQ {n m : ℕ} {X : Mat} (hX : WF n m X) : WF n m (rowNormalizeQ X) := by
  refine ⟨by simpa [rowNormalizeQ] using hX.1, ?_⟩
  intro row hrow
  simp only [rowNormalizeQ, List.mem_map] at hrow
  obtain ⟨r, hr, rfl⟩ := hrow
  simpa using hX.2 r hr

theorem toMatrix_rowNormalizeQ {n m : ℕ} {X : Mat} (hX : WF n m X) :
    toMatrix n m (rowNormalizeQ X) = rowNormalize (toMatrix n m X) := by
  ext i j
  have hi : (i : ℕ) < X.length := hX.1 ▸ i.2
  have hj : (j : ℕ) < (X[(i : ℕ)]).length := (hX.2 _ (List.getElem_mem hi)) ▸ j.2
  have hs : (X[(i : ℕ)]).sum = ∑ k : Fin m, toMatrix n m X i k := by
    have := rowSum_eq hX i.2
    rwa [List.getD_eq_getElem?_getD, List.getElem?_eq_getElem hi] at this
  simp only [rowNormalize, Matrix.of_apply, ← hs]
  simp [rowNormalizeQ, entry, List.getD_eq_getElem?_getD, hi, hj]

/-- matrix version of `clipIf` -/
def clipIfM {ι κ : Type*} (positive : Bool) (X : Matrix ι κ ℚ) : Matrix ι κ ℚ := if positive then clipM X else X

theorem wf_clipIf {n m : ℕ} {X : Mat} (hX : WF n m X) (b : Bool) : WF n m (clipIf b X) := by
  unfold clipIf; split <;> [exact wf_clip hX; exact hX]

theorem toMatrix_clipIf {n m : ℕ} {X : Mat} (hX : WF n m X) (b : Bool) :
    toMatrix n m (clipIf b X) = clipIfM b (toMatrix n m X) := by
  unfold clipIf clipIfM; split <;> [exact toMatrix_clip hX; rfl]

theorem rowSums_of_mulVec_one {n m : ℕ} {X : Mat} (hX : WF n m X) (h : toMatrix n m X *ᵥ 1 = 1) :
    ∀ row ∈ X, row.sum = 1 := by
  intro row hrow
  obtain ⟨i, hi, rfl⟩ := List.getElem_of_mem hrow
  have := rowSum_eq_mulVec_one hX ⟨i, hX.1 ▸ hi⟩
  rw [h] at this
  simpa [List.getD_eq_getElem?_getD, hi] using this

/-- certificate check: the stationary vector is normalised and both Gauss–Jordan results are true inverses -/
def certOk (T : Mat) (assign : List ℕ) (m : ℕ) : Bool :=
  match Linalg.stationary T with
  | none => true
  | some pi => decide (pi.sum = 1) &&
    match inverse (kMatL T pi) with
    | none => true
    | some Z => isInverse (kMatL T pi) Z &&
      match inverse (nMatL pi assign m Z) with
      | none => true
      | some M => isInverse (nMatL pi assign m Z) M

theorem certOk_spec {T : Mat} {assign : List ℕ} {m : ℕ} {pi : Vec} {Z M : Mat} (h : certOk T assign m = true)
    (hpi : Linalg.stationary T = some pi) (hZ : inverse (kMatL T pi) = some Z)
    (hM : inverse (nMatL pi assign m Z) = some M) :
    pi.sum = 1 ∧ isInverse (kMatL T pi) Z = true ∧ isInverse (nMatL pi assign m Z) M = true := by
  simp only [certOk, hpi, hZ, hM, Bool.and_eq_true, decide_eq_true_eq] at h
  exact h

/-- **The certificates always hold** on well-formed input: Gauss–Jordan is correct (`Bridge.inverse_correct`) and
the vector returned by `stationary` is normalised. -/
theorem certOk_of_wf {n : ℕ} {T : Mat} {assign : List ℕ} (m : ℕ) (hT : WF n n T) (hlen : assign.length = n) :
    certOk T assign m = true := by
  unfold certOk
  split
  · rfl
  · rename_i pi hpi
    obtain ⟨hn, hpilen, -⟩ := stationary_spec hT hpi
    have wK := wf_kMatL hT hpilen
    simp only [stationary_sum hT hpi, decide_true, Bool.true_and]
    split
    · rfl
    · rename_i Z hZ
      have wZ := wf_inverse wK hZ
      have wN : WF m m (nMatL pi assign m Z) := wf_nMatL hn hpilen hlen wZ
      simp only [isInverse_inverse wK hZ, Bool.true_and]
      split
      · rfl
      · rename_i M hM
        exact isInverse_inverse wN hM

/-- Everything the model computes, with the part-A hypotheses, the shape of the result and the matrix formula. -/
theorem model_core {n m : ℕ} {T : Mat} {assign : List ℕ} {positive : Bool} {R : Mat}
    (hT : WF n n T) (hsum : ∀ row ∈ T, row.sum = 1) (hlen : assign.length = n) (hlt : ∀ s ∈ assign, s < m)
    (h : hsProject T assign m positive = some R) :
    ∃ pi Z M, Linalg.stationary T = some pi ∧ inverse (kMatL T pi) = some Z ∧
      inverse (nMatL pi assign m Z) = some M ∧ pi.length = n ∧ 0 < n ∧ 0 < m ∧ WF m m M ∧
      R = rowNormalizeQ (clipIf positive (hsL M (lumpL pi assign m) m)) ∧
      Setup (toMatrix n n T) (toVec n pi) (assignFn assign hlen hlt) (toMatrix n n Z) (toMatrix m m M) ∧
      toVec m (lumpL pi assign m) = lump (assignFn assign hlen hlt) (toVec n pi) ∧
      toMatrix m m (hsL M (lumpL pi assign m) m)
        = hs (toMatrix m m M) (lump (assignFn assign hlen hlt) (toVec n pi)) := by
  obtain ⟨pi, Z, M, hpi, hZ, hM, hR⟩ := hsProject_eq_some_iff.mp h
  obtain ⟨hnorm, cZ, cM⟩ := certOk_spec (certOk_of_wf m hT hlen) hpi hZ hM
  obtain ⟨hn, hpilen, -⟩ := stationary_spec hT hpi
  have hm := pos_of_assign hlen hlt hn
  have wZ := wf_inverse (wf_kMatL hT hpilen) hZ
  have wM := wf_inverse (wf_nMatL (m := m) hn hpilen hlen wZ) hM
  have hl := toVec_lumpL hpilen hlen _ (assignFn_val assign hlen hlt)
  refine ⟨pi, Z, M, hpi, hZ, hM, hpilen, hn, hm, wM, hR,
    setup_of_model hT hsum hlen hlt hpi hZ hM hnorm cZ cM, hl, ?_⟩
  rw [toMatrix_hsL hm wM (length_lumpL _ _ _), hl]

end ListLevel

end MsmVerif.HS
