/-
Lemmas/Linalg.lean — helper lemmas for C14 (ergodicity predicates) and C04 (equilibrium population).
All statements are about the exact rational list-of-lists model `Model/Linalg.lean`.

Main tools: `WF n m` (well-formed `n × n` matrix), `rsum n f = Σ_{k<n} f k` with a bridge to `Finset.sum`,
the entry formula `entry_mul`, extensionality `Mat.ext`, associativity of `mul`, `powFast = pow`,
walks in the boolean support graph (`Walk`) and their relation to positive entries of powers (`pow_pos_iff_walk`),
`ergodicMask` (`maskRel`, `maskCnt`), the linear system of `stationary` (`statMatrix`, `eq_of_left_inverse`),
`restrict`/`embed` (`embed_stationary_aux`), correctness of the Gauss–Jordan inverse (`gjStep_spec`, `gjStep_phi_iff`,
`gjStep_unit_cols`, `gjRun_spec`, `inverse_spec`, `stationary_spec`) and block matrices `T ⊕ (d)` (`addState`).
-/
import MsmVerif.Model.Linalg
import Mathlib.Tactic.Linarith
import Mathlib.Tactic.Ring
import Mathlib.Algebra.Order.Ring.Rat
import Mathlib.Algebra.BigOperators.Group.Finset.Basic
import Mathlib.Algebra.BigOperators.Ring.Finset
import Mathlib.Algebra.BigOperators.Field
import Mathlib.Algebra.Order.BigOperators.Group.Finset

namespace MsmVerif.Linalg
open MsmVerif.Msm

/-! ### basic list facts -/

theorem getD_of_lt {α : Type} (l : List α) (d : α) {k : Nat} (h : k < l.length) : l.getD k d = l[k] := by
  rw [List.getD_eq_getElem?_getD, List.getElem?_eq_getElem h]
  rfl

theorem getD_of_ge {α : Type} (l : List α) (d : α) {k : Nat} (h : l.length ≤ k) : l.getD k d = d := by
  rw [List.getD_eq_getElem?_getD, List.getElem?_eq_none h]
  rfl

/-! ### well-formed square matrices -/

/-- `m` is a well-formed `n × n` matrix -/
def WF (n : Nat) (m : Mat) : Prop := m.length = n ∧ ∀ r ∈ m, r.length = n

instance (n : Nat) (m : Mat) : Decidable (WF n m) := by unfold WF; infer_instance

/-- all entries are non-negative -/
def NonNeg (m : Mat) : Prop := ∀ r ∈ m, ∀ x ∈ r, 0 ≤ x

instance (m : Mat) : Decidable (NonNeg m) := by unfold NonNeg; infer_instance

theorem WF.row_length {n : Nat} {m : Mat} (h : WF n m) {i : Nat} (hi : i < n) : (m.getD i []).length = n := by
  have hi' : i < m.length := by rw [h.1]; exact hi
  rw [getD_of_lt m [] hi']
  exact h.2 _ (List.getElem_mem hi')

theorem entry_eq_getElem {n : Nat} {m : Mat} (h : WF n m) {i j : Nat} (hi : i < n) (hj : j < n) :
    entry m i j = (m[i]'(by rw [h.1]; exact hi))[j]'(by
      rw [h.2 _ (List.getElem_mem _)]; exact hj) := by
  have hi' : i < m.length := by rw [h.1]; exact hi
  unfold entry
  rw [getD_of_lt m [] hi', getD_of_lt]

/-- extensionality: two well-formed `n × n` matrices with equal entries are equal -/
theorem Mat.ext {n : Nat} {a b : Mat} (ha : WF n a) (hb : WF n b)
    (h : ∀ i j, i < n → j < n → entry a i j = entry b i j) : a = b := by
  apply List.ext_getElem (by rw [ha.1, hb.1])
  intro i h1 h2
  have hi : i < n := by rw [← ha.1]; exact h1
  apply List.ext_getElem (by rw [ha.2 _ (List.getElem_mem h1), hb.2 _ (List.getElem_mem h2)])
  intro j h3 h4
  have hj : j < n := by rw [← ha.2 _ (List.getElem_mem h1)]; exact h3
  have := h i j hi hj
  rw [entry_eq_getElem ha hi hj, entry_eq_getElem hb hi hj] at this
  exact this

theorem NonNeg.entry {m : Mat} (h : NonNeg m) (i j : Nat) : 0 ≤ entry m i j := by
  unfold Linalg.entry
  by_cases hi : i < m.length
  · rw [getD_of_lt m [] hi]
    by_cases hj : j < m[i].length
    · rw [getD_of_lt _ _ hj]
      exact h _ (List.getElem_mem hi) _ (List.getElem_mem hj)
    · rw [getD_of_ge _ _ (Nat.le_of_not_lt hj)]
  · rw [getD_of_ge m [] (Nat.le_of_not_lt hi)]
    simp

/-! ### sums over `range n` -/

/-- `Σ_{k<n} f k` as a list sum -/
def rsum (n : Nat) (f : Nat → Rat) : Rat := ((List.range n).map f).sum

theorem rsum_succ (n : Nat) (f : Nat → Rat) : rsum (n + 1) f = rsum n f + f n := by
  unfold rsum
  rw [List.range_succ, List.map_append, List.sum_append]
  simp

theorem rsum_eq_finset (n : Nat) (f : Nat → Rat) : rsum n f = ∑ k ∈ Finset.range n, f k := by
  induction n with
  | zero => simp [rsum]
  | succ n ih => rw [rsum_succ, Finset.sum_range_succ, ih]

theorem rsum_congr {n : Nat} {f g : Nat → Rat} (h : ∀ k, k < n → f k = g k) : rsum n f = rsum n g := by
  rw [rsum_eq_finset, rsum_eq_finset]
  exact Finset.sum_congr rfl (fun k hk => h k (Finset.mem_range.mp hk))

/-- a list sum is the sum of its entries by position -/
theorem sum_eq_rsum (l : List Rat) : l.sum = rsum l.length (fun k => l.getD k 0) := by
  induction l using List.reverseRecOn with
  | nil => simp [rsum]
  | append_singleton l x ih =>
    rw [List.sum_append, List.length_append, List.length_singleton, rsum_succ, ih]
    congr 1
    · apply rsum_congr
      intro k hk
      rw [getD_of_lt _ _ hk, getD_of_lt _ _ (by simp; omega), List.getElem_append_left hk]
    · simp

theorem dot_eq_rsum {n : Nat} {a b : Vec} (ha : a.length = n) (hb : b.length = n) :
    dot a b = rsum n (fun k => a.getD k 0 * b.getD k 0) := by
  unfold dot
  rw [sum_eq_rsum]
  have hl : ((a.zip b).map (fun p => p.1 * p.2)).length = n := by simp [ha, hb]
  rw [hl]
  apply rsum_congr
  intro k hk
  rw [getD_of_lt _ _ (by rw [hl]; exact hk), getD_of_lt a _ (by omega), getD_of_lt b _ (by omega)]
  simp

/-! ### transpose, product, identity -/

theorem getD_map_range {α : Type} (n : Nat) (f : Nat → α) (d : α) {i : Nat} (hi : i < n) :
    ((List.range n).map f).getD i d = f i := by
  rw [getD_of_lt _ _ (by simpa using hi)]
  simp

theorem getD_map {α β : Type} (a : List α) (f : α → β) (d : β) {i : Nat} (hi : i < a.length) :
    (a.map f).getD i d = f a[i] := by
  rw [getD_of_lt _ _ (by simpa using hi)]
  simp

theorem transpose_eq {n : Nat} {b : Mat} (h : WF n b) :
    transpose b = (List.range n).map (fun j => b.map (fun row => row.getD j 0)) := by
  cases b with
  | nil =>
    have : n = 0 := by simpa using h.1.symm
    subst this; simp [transpose]
  | cons r rs =>
    have : r.length = n := h.2 r (by simp)
    simp [transpose, this]

theorem WF_transpose {n : Nat} {b : Mat} (h : WF n b) : WF n (transpose b) := by
  rw [transpose_eq h]
  refine ⟨by simp, ?_⟩
  intro r hr
  simp only [List.mem_map, List.mem_range] at hr
  obtain ⟨j, _, rfl⟩ := hr
  simp [h.1]

theorem entry_transpose {n : Nat} {b : Mat} (h : WF n b) {i j : Nat} (hi : i < n) (hj : j < n) :
    entry (transpose b) i j = entry b j i := by
  unfold entry
  rw [transpose_eq h, getD_map_range _ _ _ hi, getD_map _ _ _ (by rw [h.1]; exact hj),
    getD_of_lt b _ (by rw [h.1]; exact hj)]

theorem WF_mul {n : Nat} {a b : Mat} (ha : WF n a) (hb : WF n b) : WF n (mul a b) := by
  unfold mul
  refine ⟨by simp [ha.1], ?_⟩
  intro r hr
  simp only [List.mem_map] at hr
  obtain ⟨row, _, rfl⟩ := hr
  simp [(WF_transpose hb).1]

theorem entry_mul {n : Nat} {a b : Mat} (ha : WF n a) (hb : WF n b) {i j : Nat} (hi : i < n) (hj : j < n) :
    entry (mul a b) i j = rsum n (fun k => entry a i k * entry b k j) := by
  have hi' : i < a.length := by rw [ha.1]; exact hi
  have hj' : j < (transpose b).length := by rw [(WF_transpose hb).1]; exact hj
  have e1 : entry (mul a b) i j = dot (a.getD i []) ((transpose b).getD j []) := by
    unfold entry mul
    rw [getD_map _ _ _ hi', getD_map _ _ _ hj', getD_of_lt a _ hi', getD_of_lt _ _ hj']
  rw [e1, dot_eq_rsum (ha.row_length hi) ((WF_transpose hb).row_length hj)]
  apply rsum_congr
  intro k hk
  have := entry_transpose hb hj hk
  unfold entry at this ⊢
  rw [this]

theorem WF_identity (n : Nat) : WF n (identity n) := by
  unfold identity
  refine ⟨by simp, ?_⟩
  intro r hr
  simp only [List.mem_map, List.mem_range] at hr
  obtain ⟨j, _, rfl⟩ := hr
  simp

theorem entry_identity {n i j : Nat} (hi : i < n) (hj : j < n) :
    entry (identity n) i j = if i = j then 1 else 0 := by
  unfold entry identity
  rw [getD_map_range _ _ _ hi, getD_map_range _ _ _ hj]

/-! ### ring laws of `mul` on well-formed matrices, powers -/

theorem mul_assoc' {n : Nat} {a b c : Mat} (ha : WF n a) (hb : WF n b) (hc : WF n c) :
    mul (mul a b) c = mul a (mul b c) := by
  apply Mat.ext (WF_mul (WF_mul ha hb) hc) (WF_mul ha (WF_mul hb hc))
  intro i j hi hj
  rw [entry_mul (WF_mul ha hb) hc hi hj, entry_mul ha (WF_mul hb hc) hi hj]
  rw [rsum_congr (g := fun k => rsum n (fun l => entry a i l * entry b l k * entry c k j))
    (fun k hk => by rw [entry_mul ha hb hi hk]; simp only [rsum_eq_finset]; rw [Finset.sum_mul])]
  rw [rsum_congr (f := fun k => entry a i k * entry (mul b c) k j)
    (g := fun l => rsum n (fun k => entry a i l * entry b l k * entry c k j))
    (fun l hl => by rw [entry_mul hb hc hl hj]; simp only [rsum_eq_finset]; rw [Finset.mul_sum]
                    exact Finset.sum_congr rfl (fun _ _ => (mul_assoc _ _ _).symm))]
  simp only [rsum_eq_finset]
  exact Finset.sum_comm

theorem mul_identity {n : Nat} {a : Mat} (ha : WF n a) : mul a (identity n) = a := by
  apply Mat.ext (WF_mul ha (WF_identity n)) ha
  intro i j hi hj
  rw [entry_mul ha (WF_identity n) hi hj, rsum_eq_finset]
  rw [Finset.sum_eq_single j]
  · rw [entry_identity hj hj]; simp
  · intro k hk hkj
    rw [entry_identity (Finset.mem_range.mp hk) hj]; simp [hkj]
  · intro h; exact absurd (Finset.mem_range.mpr hj) h

theorem identity_mul {n : Nat} {a : Mat} (ha : WF n a) : mul (identity n) a = a := by
  apply Mat.ext (WF_mul (WF_identity n) ha) ha
  intro i j hi hj
  rw [entry_mul (WF_identity n) ha hi hj, rsum_eq_finset]
  rw [Finset.sum_eq_single i]
  · rw [entry_identity hi hi]; simp
  · intro k hk hki
    rw [entry_identity hi (Finset.mem_range.mp hk)]; simp [Ne.symm hki]
  · intro h; exact absurd (Finset.mem_range.mpr hi) h

theorem WF_pow {n : Nat} {m : Mat} (h : WF n m) (k : Nat) : WF n (pow m k) := by
  induction k with
  | zero => rw [pow, h.1]; exact WF_identity n
  | succ k ih => rw [pow]; exact WF_mul ih h

theorem pow_add {n : Nat} {m : Mat} (h : WF n m) (a b : Nat) :
    pow m (a + b) = mul (pow m a) (pow m b) := by
  induction b with
  | zero => rw [Nat.add_zero, pow, h.1, mul_identity (WF_pow h a)]
  | succ b ih =>
    rw [← Nat.add_assoc, pow, pow, ih, mul_assoc' (WF_pow h a) (WF_pow h b) h]

theorem pow_one {n : Nat} {m : Mat} (h : WF n m) : pow m 1 = m := by
  rw [pow, pow, h.1, identity_mul h]

/-- repeated squaring computes the same matrix as the naive power -/
theorem powFast_eq_pow {n : Nat} {m : Mat} (h : WF n m) (k : Nat) : powFast m k = pow m k := by
  induction k using Nat.strongRecOn with
  | _ k ih =>
    rw [powFast]
    split
    · next hk => subst hk; rfl
    · next hk =>
      simp only
      rw [ih (k / 2) (by omega), ← pow_add h]
      split
      · next hodd =>
        have : k = k / 2 + k / 2 + 1 := by omega
        conv => rhs; rw [this, pow]
      · next hev =>
        have : k = k / 2 + k / 2 := by omega
        conv => rhs; rw [this]

theorem WF_powFast {n : Nat} {m : Mat} (h : WF n m) (k : Nat) : WF n (powFast m k) := by
  rw [powFast_eq_pow h]; exact WF_pow h k

/-! ### the predicates of `utils/tests.py` -/

theorem atol_pos : 0 < atol := by unfold atol; norm_num

theorem WF_of_isSquare {m : Mat} (h : isSquare m = true) : WF m.length m := by
  refine ⟨rfl, ?_⟩
  intro r hr
  have := List.all_eq_true.mp h r hr
  simpa using this

theorem isQuadratic_of_isTmat {m : Mat} (h : isTmat m = true) : isQuadratic m = true := by
  unfold isTmat at h
  exact (Bool.and_eq_true _ _ ▸ h).1

theorem WF_of_isTmat {m : Mat} (h : isTmat m = true) : WF m.length m := by
  have := isQuadratic_of_isTmat h
  unfold isQuadratic at this
  simp only [Bool.and_eq_true] at this
  exact WF_of_isSquare this.1.1

theorem two_le_of_isTmat {m : Mat} (h : isTmat m = true) : 2 ≤ m.length := by
  have := isQuadratic_of_isTmat h
  unfold isQuadratic at this
  simp only [Bool.and_eq_true, bne_iff_ne, ne_eq] at this
  omega

theorem isTmat_of_isErgodic {m : Mat} (h : isErgodic m = true) : isTmat m = true := by
  unfold isErgodic at h
  exact (Bool.and_eq_true _ _ ▸ h).1

/-- a property of all stored entries holds for `entry m i j` inside the matrix -/
theorem entry_of_forall {n : Nat} {m : Mat} (h : WF n m) {P : Rat → Prop}
    (hP : ∀ r ∈ m, ∀ x ∈ r, P x) {i j : Nat} (hi : i < n) (hj : j < n) : P (entry m i j) := by
  rw [entry_eq_getElem h hi hj]
  exact hP _ (List.getElem_mem _) _ (List.getElem_mem _)

theorem forall_of_entry {n : Nat} {m : Mat} (h : WF n m) {P : Rat → Prop}
    (hP : ∀ i j, i < n → j < n → P (entry m i j)) : ∀ r ∈ m, ∀ x ∈ r, P x := by
  intro r hr x hx
  obtain ⟨i, hi, rfl⟩ := List.getElem_of_mem hr
  obtain ⟨j, hj, rfl⟩ := List.getElem_of_mem hx
  have hi' : i < n := by rw [← h.1]; exact hi
  have hj' : j < n := by rw [← h.2 _ (List.getElem_mem hi)]; exact hj
  have := hP i j hi' hj'
  rw [entry_eq_getElem h hi' hj'] at this
  exact this

/-- `isErgodic` unfolded: stochastic and every entry of the `K`-th power exceeds `atol` -/
theorem isErgodic_iff (m : Mat) : isErgodic m = true ↔
    isTmat m = true ∧ ∀ i j, i < m.length → j < m.length → atol < entry (pow m (wielandtExp m.length)) i j := by
  unfold isErgodic
  rw [Bool.and_eq_true]
  constructor
  · rintro ⟨ht, hp⟩
    refine ⟨ht, ?_⟩
    have hw := WF_of_isTmat ht
    rw [powFast_eq_pow hw] at hp
    intro i j hi hj
    apply entry_of_forall (WF_pow hw _) (P := fun x => atol < x) _ hi hj
    intro r hr x hx
    have := List.all_eq_true.mp (List.all_eq_true.mp hp r hr) x hx
    simpa using this
  · rintro ⟨ht, hp⟩
    refine ⟨ht, ?_⟩
    have hw := WF_of_isTmat ht
    rw [powFast_eq_pow hw]
    have := forall_of_entry (WF_pow hw (wielandtExp m.length)) (P := fun x => atol < x) hp
    rw [List.all_eq_true]
    intro r hr
    rw [List.all_eq_true]
    intro x hx
    simpa using this r hr x hx

theorem isFuzzyErgodic_of_isErgodic {m : Mat} (h : isErgodic m = true) : isFuzzyErgodic m = true := by
  obtain ⟨ht, hp⟩ := (isErgodic_iff m).mp h
  unfold isFuzzyErgodic
  rw [Bool.and_eq_true]
  refine ⟨ht, ?_⟩
  simp only [List.all_eq_true, List.mem_range]
  intro i hi j hj
  rw [powFast_eq_pow (WF_of_isTmat ht)]
  have := lt_trans atol_pos (hp i j hi hj)
  simp [this]

theorem not_isErgodic_of_not_isTmat {m : Mat} (h : isTmat m = false) :
    isErgodic m = false ∧ isFuzzyErgodic m = false ∧ ergodicMask m = none := by
  unfold isErgodic isFuzzyErgodic ergodicMask
  simp [h]

theorem dot_map_div (v c : Vec) (s : Rat) : dot (v.map (· / s)) c = dot v c / s := by
  unfold dot
  induction v generalizing c with
  | nil => simp
  | cons x xs ih =>
    cases c with
    | nil => simp
    | cons y ys =>
      simp only [List.map_cons, List.zip_cons_cons, List.sum_cons]
      rw [ih ys]
      ring

theorem sum_map_div (v : Vec) (s : Rat) : (v.map (· / s)).sum = v.sum / s := by
  induction v with
  | nil => simp
  | cons x xs ih => simp only [List.map_cons, List.sum_cons]; rw [ih]; ring

theorem vecMat_map_div (v : Vec) (T : Mat) (s : Rat) : vecMat (v.map (· / s)) T = (vecMat v T).map (· / s) := by
  unfold vecMat
  rw [List.map_map]
  apply List.map_congr_left
  intro c _
  exact dot_map_div v c s

/-! ### non-negativity is preserved by products and powers -/

theorem NonNeg_mul {n : Nat} {a b : Mat} (ha : WF n a) (hb : WF n b) (pa : NonNeg a) (pb : NonNeg b) :
    NonNeg (mul a b) := by
  apply forall_of_entry (WF_mul ha hb) (P := fun x => 0 ≤ x)
  intro i j hi hj
  rw [entry_mul ha hb hi hj, rsum_eq_finset]
  exact Finset.sum_nonneg (fun k _ => mul_nonneg (pa.entry i k) (pb.entry k j))

theorem NonNeg_identity (n : Nat) : NonNeg (identity n) := by
  apply forall_of_entry (WF_identity n) (P := fun x => 0 ≤ x)
  intro i j hi hj
  rw [entry_identity hi hj]
  split <;> norm_num

theorem NonNeg_pow {n : Nat} {m : Mat} (h : WF n m) (p : NonNeg m) (k : Nat) : NonNeg (pow m k) := by
  induction k with
  | zero => rw [pow]; exact NonNeg_identity _
  | succ k ih => rw [pow]; exact NonNeg_mul (WF_pow h k) h ih p

/-! ### walks in the support graph -/

/-- `Walk b k i j`: there is a walk `i = v₀ → v₁ → … → v_k = j` of length `k` along edges of the boolean graph `b`
(`bent b u v = true`). -/
def Walk (b : List (List Bool)) : Nat → Nat → Nat → Prop
  | 0, i, j => i = j
  | k + 1, i, j => ∃ l, Walk b k i l ∧ bent b l j = true

theorem entry_of_ge_left (m : Mat) {i : Nat} (j : Nat) (h : m.length ≤ i) : entry m i j = 0 := by
  unfold entry
  rw [getD_of_ge m _ h]
  rfl

theorem bent_support (m : Mat) (i j : Nat) : bent (support m) i j = (entry m i j != 0) := by
  unfold bent support entry
  by_cases hi : i < m.length
  · rw [getD_map _ _ _ hi, getD_of_lt m _ hi]
    by_cases hj : j < m[i].length
    · rw [getD_map _ _ _ hj, getD_of_lt _ _ hj]
    · rw [getD_of_ge _ _ (by simpa using hj), getD_of_ge _ _ (by simpa using hj)]
      simp
  · have hi' : m.length ≤ i := Nat.le_of_not_lt hi
    rw [getD_of_ge (List.map _ m) _ (by simpa using hi'), getD_of_ge m _ hi']
    simp

theorem bent_support_pos {m : Mat} (p : NonNeg m) (i j : Nat) :
    bent (support m) i j = true ↔ 0 < entry m i j := by
  rw [bent_support]
  have := p.entry i j
  constructor
  · intro h
    have h' : entry m i j ≠ 0 := by simpa using h
    exact lt_of_le_of_ne this (Ne.symm h')
  · intro h
    simpa using ne_of_gt h

/-- for a non-negative matrix, `(m^k)_ij > 0` iff there is a walk of length `k` from `i` to `j` in the support graph -/
theorem pow_pos_iff_walk {n : Nat} {m : Mat} (h : WF n m) (p : NonNeg m) (k : Nat) {i j : Nat}
    (hi : i < n) (hj : j < n) : 0 < entry (pow m k) i j ↔ Walk (support m) k i j := by
  induction k generalizing j with
  | zero =>
    rw [pow, h.1, entry_identity hi hj]
    unfold Walk
    split <;> simp_all
  | succ k ih =>
    rw [pow, entry_mul (WF_pow h k) h hi hj, rsum_eq_finset]
    rw [Finset.sum_pos_iff_of_nonneg (fun l _ => mul_nonneg ((NonNeg_pow h p k).entry i l) (p.entry l j))]
    unfold Walk
    constructor
    · rintro ⟨l, hl, hpos⟩
      have hl' := Finset.mem_range.mp hl
      have h1 : 0 ≤ entry (pow m k) i l := (NonNeg_pow h p k).entry i l
      have h2 : 0 ≤ entry m l j := p.entry l j
      have h3 : 0 < entry (pow m k) i l := by
        rcases lt_or_eq_of_le h1 with h | h
        · exact h
        · rw [← h] at hpos; simp at hpos
      have h4 : 0 < entry m l j := by
        rcases lt_or_eq_of_le h2 with h | h
        · exact h
        · rw [← h] at hpos; simp at hpos
      exact ⟨l, (ih hl').mp h3, (bent_support_pos p l j).mpr h4⟩
    · rintro ⟨l, hw, he⟩
      have h4 := (bent_support_pos p l j).mp he
      have hl : l < n := by
        by_contra hc
        rw [entry_of_ge_left m j (by rw [h.1]; omega)] at h4
        exact lt_irrefl _ h4
      exact ⟨l, Finset.mem_range.mpr hl, mul_pos ((ih hl).mpr hw) h4⟩

theorem wielandtExp_pos (n : Nat) : 1 ≤ wielandtExp n := by unfold wielandtExp; omega

/-- a walk of positive length ends with an edge -/
theorem Walk.last_edge {b : List (List Bool)} {k i j : Nat} (h : Walk b (k + 1) i j) :
    ∃ l, Walk b k i l ∧ bent b l j = true := h

theorem bent_lt_length {b : List (List Bool)} {i j : Nat} (h : bent b i j = true) : i < b.length := by
  by_contra hc
  unfold bent at h
  rw [getD_of_ge b _ (Nat.le_of_not_lt hc)] at h
  simp at h

/-- `isErgodic` for a non-negative matrix: every pair is joined by a walk of length exactly `K` -/
theorem walk_of_isErgodic {m : Mat} (p : NonNeg m) (h : isErgodic m = true) {i j : Nat}
    (hi : i < m.length) (hj : j < m.length) : Walk (support m) (wielandtExp m.length) i j := by
  obtain ⟨ht, hp⟩ := (isErgodic_iff m).mp h
  exact (pow_pos_iff_walk (WF_of_isTmat ht) p _ hi hj).mp (lt_trans atol_pos (hp i j hi hj))

theorem support_length (m : Mat) : (support m).length = m.length := by simp [support]

/-- closed walks of two consecutive lengths through every state -/
theorem consecutive_closed_walks {m : Mat} (p : NonNeg m) (h : isErgodic m = true) {i : Nat} (hi : i < m.length) :
    Walk (support m) (wielandtExp m.length) i i ∧ Walk (support m) (wielandtExp m.length + 1) i i := by
  have hK := walk_of_isErgodic p h hi hi
  refine ⟨hK, ?_⟩
  have : wielandtExp m.length = (wielandtExp m.length - 1) + 1 := by have := wielandtExp_pos m.length; omega
  rw [this] at hK
  obtain ⟨l, _, he⟩ := hK.last_edge
  have hl : l < m.length := by rw [← support_length]; exact bent_lt_length he
  exact ⟨l, walk_of_isErgodic p h hi hl, he⟩

/-! ### `ergodicMask` -/

/-- the symmetric relation used by `ergodic_mask`: both `(T^K)_ij` and `(T^K)_ji` exceed `atol` -/
def maskRel (m : Mat) (i j : Nat) : Bool :=
  decide (atol < entry (pow m (wielandtExp m.length)) i j) && decide (atol < entry (pow m (wielandtExp m.length)) j i)

/-- row count of the relation: number of `j < n` related to `i` -/
def maskCnt (m : Mat) (i : Nat) : Nat := ((List.range m.length).filter (fun j => maskRel m i j)).length

theorem le_foldl_max (l : List Nat) (a : Nat) : a ≤ l.foldl max a ∧ ∀ x ∈ l, x ≤ l.foldl max a := by
  induction l generalizing a with
  | nil => simp
  | cons y ys ih =>
    simp only [List.foldl_cons, List.mem_cons, forall_eq_or_imp]
    have := ih (max a y)
    refine ⟨by omega, by omega, this.2⟩

theorem foldl_max_mem (l : List Nat) (a : Nat) : l.foldl max a = a ∨ l.foldl max a ∈ l := by
  induction l generalizing a with
  | nil => simp
  | cons y ys ih =>
    simp only [List.foldl_cons, List.mem_cons]
    rcases ih (max a y) with h | h
    · rw [h]
      rcases Nat.le_total a y with h' | h'
      · right; left; omega
      · left; omega
    · right; right; exact h

/-- `c = foldl max 0 l` for a member `c` of `l` iff `c` is a largest element -/
theorem eq_foldl_max_iff (l : List Nat) {c : Nat} (hc : c ∈ l) : c = l.foldl max 0 ↔ ∀ x ∈ l, x ≤ c := by
  constructor
  · intro h x hx; rw [h]; exact (le_foldl_max l 0).2 x hx
  · intro h
    have h1 := (le_foldl_max l 0).2 c hc
    rcases foldl_max_mem l 0 with h2 | h2
    · omega
    · have := h _ h2; omega

theorem ergodicMask_eq {m : Mat} (ht : isTmat m = true) :
    ergodicMask m = some (((List.range m.length).map (maskCnt m)).map
      (fun c => c == ((List.range m.length).map (maskCnt m)).foldl max 0)) := by
  unfold ergodicMask
  simp only [ht, Bool.not_true, Bool.false_eq_true, ↓reduceIte]
  rw [powFast_eq_pow (WF_of_isTmat ht)]
  rfl

theorem isTmat_of_ergodicMask {m : Mat} {mask : List Bool} (h : ergodicMask m = some mask) : isTmat m = true := by
  cases ht : isTmat m
  · rw [(not_isErgodic_of_not_isTmat ht).2.2] at h; cases h
  · rfl

/-! ### the linear system of `stationary` -/

theorem WF_sub {n : Nat} {a b : Mat} (ha : WF n a) (hb : WF n b) : WF n (sub a b) := by
  unfold sub
  refine ⟨by simp [ha.1, hb.1], ?_⟩
  intro r hr
  simp only [List.mem_map] at hr
  obtain ⟨⟨r1, r2⟩, hmem, rfl⟩ := hr
  have h1 := ha.2 _ (List.of_mem_zip hmem).1
  have h2 := hb.2 _ (List.of_mem_zip hmem).2
  simp [h1, h2]

theorem entry_sub {n : Nat} {a b : Mat} (ha : WF n a) (hb : WF n b) {i j : Nat} (hi : i < n) (hj : j < n) :
    entry (sub a b) i j = entry a i j - entry b i j := by
  rw [entry_eq_getElem (WF_sub ha hb) hi hj, entry_eq_getElem ha hi hj, entry_eq_getElem hb hi hj]
  simp [sub]

/-- the matrix `[Tᵀ - 1 without its last row ; 1ᵀ]` inverted by `stationary` -/
def statMatrix (T : Mat) : Mat :=
  (sub (transpose T) (identity T.length)).take (T.length - 1) ++ [List.replicate T.length (1 : Rat)]

theorem WF_statMatrix {n : Nat} {T : Mat} (h : WF n T) (hn : 1 ≤ n) : WF n (statMatrix T) := by
  have hs := WF_sub (WF_transpose h) (WF_identity n)
  unfold statMatrix
  rw [h.1]
  refine ⟨by simp [hs.1]; omega, ?_⟩
  intro r hr
  rw [List.mem_append] at hr
  rcases hr with hr | hr
  · exact hs.2 r (List.mem_of_mem_take hr)
  · simp at hr; subst hr; simp

theorem entry_statMatrix_lt {n : Nat} {T : Mat} (h : WF n T) {l k : Nat} (hl : l < n - 1) (hk : k < n) :
    entry (statMatrix T) l k = entry T k l - (if l = k then 1 else 0) := by
  have hs := WF_sub (WF_transpose h) (WF_identity n)
  have hl' : l < n := by omega
  have e : entry (statMatrix T) l k = entry (sub (transpose T) (identity n)) l k := by
    unfold entry statMatrix
    rw [h.1]
    congr 1
    rw [List.getD_eq_getElem?_getD, List.getD_eq_getElem?_getD,
      List.getElem?_append_left (by simp [hs.1]; omega), List.getElem?_take_of_lt hl]
  rw [e, entry_sub (WF_transpose h) (WF_identity n) hl' hk, entry_transpose h hl' hk, entry_identity hl' hk]

theorem entry_statMatrix_last {n : Nat} {T : Mat} (h : WF n T) {k : Nat} (hk : k < n) :
    entry (statMatrix T) (n - 1) k = 1 := by
  have hs := WF_sub (WF_transpose h) (WF_identity n)
  have e : (statMatrix T).getD (n - 1) [] = List.replicate n 1 := by
    unfold statMatrix
    rw [h.1, List.getD_eq_getElem?_getD, List.getElem?_append_right (by simp [hs.1])]
    have : n - 1 - (List.take (n - 1) (sub (transpose T) (identity n))).length = 0 := by simp [hs.1]
    rw [this]
    simp
  unfold entry
  rw [e, getD_of_lt _ _ (by simpa using hk)]
  simp

theorem getD_vecMat {n : Nat} {T : Mat} {v : Vec} (h : WF n T) (hv : v.length = n) {j : Nat} (hj : j < n) :
    (vecMat v T).getD j 0 = rsum n (fun k => v.getD k 0 * entry T k j) := by
  unfold vecMat
  rw [getD_map _ _ _ (by rw [(WF_transpose h).1]; exact hj),
    ← getD_of_lt _ [] (by rw [(WF_transpose h).1]; exact hj),
    dot_eq_rsum hv ((WF_transpose h).row_length hj)]
  apply rsum_congr
  intro k hk
  have := entry_transpose h hj hk
  unfold entry at this ⊢
  rw [this]

theorem length_vecMat {n : Nat} {T : Mat} (h : WF n T) (v : Vec) : (vecMat v T).length = n := by
  unfold vecMat; simp [(WF_transpose h).1]

/-- a probability vector fixed by `T` solves `A x = e_{n-1}` for `A = statMatrix T` -/
theorem statMatrix_apply {n : Nat} {T : Mat} {x : Vec} (h : WF n T) (hx : x.length = n)
    (hfix : vecMat x T = x) (hsum : x.sum = 1) {l : Nat} (hl : l < n) :
    rsum n (fun k => entry (statMatrix T) l k * x.getD k 0) = if l = n - 1 then 1 else 0 := by
  split
  · next hl' =>
    subst hl'
    rw [← hsum, sum_eq_rsum, hx]
    apply rsum_congr
    intro k hk
    rw [entry_statMatrix_last h hk, one_mul]
  · next hl' =>
    have hl2 : l < n - 1 := by omega
    rw [rsum_congr (g := fun k => x.getD k 0 * entry T k l - (if l = k then x.getD k 0 else 0))
      (fun k hk => by rw [entry_statMatrix_lt h hl2 hk]; split <;> ring)]
    simp only [rsum_eq_finset, Finset.sum_sub_distrib]
    rw [← rsum_eq_finset, ← getD_vecMat h hx hl, hfix]
    simp [Finset.mem_range.mpr hl]

/-- if `L A = 1` then `A y = e` has at most the solution `y = L e` -/
theorem eq_of_left_inverse {n : Nat} {L A : Mat} (hL : WF n L) (hA : WF n A) (hLA : mul L A = identity n)
    (x : Vec) (e : Nat → Rat) (hx : ∀ l, l < n → rsum n (fun k => entry A l k * x.getD k 0) = e l)
    {i : Nat} (hi : i < n) : x.getD i 0 = rsum n (fun l => entry L i l * e l) := by
  have h1 : x.getD i 0 = rsum n (fun k => entry (identity n) i k * x.getD k 0) := by
    rw [rsum_eq_finset, Finset.sum_eq_single i]
    · rw [entry_identity hi hi]; simp
    · intro k hk hki
      rw [entry_identity hi (Finset.mem_range.mp hk)]; simp [Ne.symm hki]
    · intro h; exact absurd (Finset.mem_range.mpr hi) h
  rw [h1, ← hLA]
  rw [rsum_congr (g := fun k => rsum n (fun l => entry L i l * entry A l k * x.getD k 0))
    (fun k hk => by rw [entry_mul hL hA hi hk]; simp only [rsum_eq_finset]; rw [Finset.sum_mul])]
  rw [rsum_congr (f := fun l => entry L i l * e l)
    (g := fun l => rsum n (fun k => entry L i l * entry A l k * x.getD k 0))
    (fun l hl => by rw [← hx l hl]; simp only [rsum_eq_finset]; rw [Finset.mul_sum]
                    exact Finset.sum_congr rfl (fun _ _ => (mul_assoc _ _ _).symm))]
  simp only [rsum_eq_finset]
  exact Finset.sum_comm

theorem vec_ext {n : Nat} {x y : Vec} (hx : x.length = n) (hy : y.length = n)
    (h : ∀ i, i < n → x.getD i 0 = y.getD i 0) : x = y := by
  apply List.ext_getElem (by rw [hx, hy])
  intro i h1 h2
  have := h i (by omega)
  rwa [getD_of_lt _ _ h1, getD_of_lt _ _ h2] at this

/-! ### `restrict` / `embed` -/

/-- the indices selected by a mask, ascending -/
def maskIdx (n : Nat) (mask : List Bool) : List Nat := (List.range n).filter (fun i => mask.getD i false)

theorem maskIdx_nodup (n : Nat) (mask : List Bool) : (maskIdx n mask).Nodup :=
  List.Nodup.sublist List.filter_sublist List.nodup_range

theorem mem_maskIdx {n : Nat} {mask : List Bool} {i : Nat} :
    i ∈ maskIdx n mask ↔ i < n ∧ mask.getD i false = true := by
  simp [maskIdx]

theorem idxOf?_getElem_of_nodup {l : List Nat} (hl : l.Nodup) {a : Nat} (ha : a < l.length) :
    l.idxOf? l[a] = some a := by
  rw [List.idxOf?_eq_some_iff]
  refine ⟨ha, rfl, ?_⟩
  intro j hj hc
  have := (List.Nodup.getElem_inj_iff hl).mp hc
  omega

/-- sum over the selected indices = sum over all indices of the masked summand -/
theorem sum_filter_map (l : List Nat) (p : Nat → Bool) (f : Nat → Rat) :
    ((l.filter p).map f).sum = (l.map (fun i => if p i then f i else 0)).sum := by
  induction l with
  | nil => simp
  | cons x xs ih =>
    by_cases hp : p x = true
    · simp [hp, ih]
    · simp [hp, ih]

theorem rsum_maskIdx (n : Nat) (mask : List Bool) (f : Nat → Rat) :
    rsum (maskIdx n mask).length (fun a => f ((maskIdx n mask).getD a 0)) =
      rsum n (fun i => if mask.getD i false then f i else 0) := by
  have h1 : ((maskIdx n mask).map f).sum = rsum n (fun i => if mask.getD i false then f i else 0) := by
    unfold maskIdx rsum
    exact sum_filter_map _ _ _
  rw [← h1, sum_eq_rsum, List.length_map]
  apply rsum_congr
  intro a ha
  rw [getD_map _ _ _ ha, getD_of_lt _ _ ha]

theorem embed_eq (v : Vec) (mask : List Bool) :
    embed v mask = (List.range mask.length).map (fun i =>
      match (maskIdx mask.length mask).idxOf? i with
      | some k => v.getD k 0
      | none => 0) := rfl

theorem length_embed (v : Vec) (mask : List Bool) : (embed v mask).length = mask.length := by
  rw [embed_eq]; simp

theorem getD_embed_of_mem (v : Vec) (mask : List Bool) {a : Nat} (ha : a < (maskIdx mask.length mask).length) :
    (embed v mask).getD ((maskIdx mask.length mask)[a]) 0 = v.getD a 0 := by
  have hm := (mem_maskIdx.mp (List.getElem_mem ha)).1
  rw [embed_eq, getD_map_range _ _ _ hm, idxOf?_getElem_of_nodup (maskIdx_nodup _ _) ha]

theorem getD_embed_of_not (v : Vec) (mask : List Bool) {i : Nat} (hi : mask.getD i false = false) :
    (embed v mask).getD i 0 = 0 := by
  by_cases hl : i < mask.length
  · rw [embed_eq, getD_map_range _ _ _ hl]
    have : (maskIdx mask.length mask).idxOf? i = none := by
      rw [List.idxOf?_eq_none_iff, mem_maskIdx, hi]
      simp
    rw [this]
  · rw [getD_of_ge _ _ (by rw [length_embed]; omega)]

theorem restrict_eq (m : Mat) (mask : List Bool) :
    restrict m mask = (maskIdx m.length mask).map (fun i => (maskIdx m.length mask).map (fun j => entry m i j)) := rfl

theorem WF_restrict (m : Mat) (mask : List Bool) : WF (maskIdx m.length mask).length (restrict m mask) := by
  rw [restrict_eq]
  refine ⟨by simp, ?_⟩
  intro r hr
  simp only [List.mem_map] at hr
  obtain ⟨i, _, rfl⟩ := hr
  simp

theorem entry_restrict (m : Mat) (mask : List Bool) {a b : Nat} (ha : a < (maskIdx m.length mask).length)
    (hb : b < (maskIdx m.length mask).length) :
    entry (restrict m mask) a b = entry m (maskIdx m.length mask)[a] (maskIdx m.length mask)[b] := by
  rw [restrict_eq]
  unfold entry
  rw [getD_map _ _ _ ha, getD_map _ _ _ hb]

theorem rowNormalizeQ_eq_self {m : Mat} (h : ∀ r ∈ m, r.sum = 1) : rowNormalizeQ m = m := by
  unfold rowNormalizeQ
  conv => rhs; rw [← List.map_id m]
  apply List.map_congr_left
  intro r hr
  simp [h r hr]

/-- rows of `T` inside a closed mask that sum to one still sum to one after restriction -/
theorem restrict_row_sum {n : Nat} {T : Mat} {mask : List Bool} (h : WF n T)
    (hclosed : ∀ i j, i < n → j < n → mask.getD i false = true → mask.getD j false = false → entry T i j = 0)
    (hrow : ∀ i, i < n → mask.getD i false = true → (T.getD i []).sum = 1) :
    ∀ r ∈ restrict T mask, r.sum = 1 := by
  intro r hr
  rw [restrict_eq, h.1] at hr
  simp only [List.mem_map] at hr
  obtain ⟨i, hi, rfl⟩ := hr
  obtain ⟨hin, him⟩ := mem_maskIdx.mp hi
  rw [← hrow i hin him, sum_eq_rsum (T.getD i []), h.row_length hin]
  have := sum_filter_map (List.range n) (fun j => mask.getD j false) (fun j => entry T i j)
  unfold maskIdx
  rw [this]
  apply rsum_congr
  intro j hj
  by_cases hm : mask.getD j false = true
  · simp only [hm, ↓reduceIte]; rfl
  · have hm' : mask.getD j false = false := by simpa using hm
    simp only [hm', Bool.false_eq_true, ↓reduceIte]
    have := hclosed i j hin hj him hm'
    unfold entry at this
    exact this.symm

/-- zero-padding a stationary vector of the restricted matrix gives a stationary vector of `T` (closed mask) -/
theorem embed_stationary_aux {n : Nat} {T : Mat} {mask : List Bool} {μ : Vec} (h : WF n T) (hm : mask.length = n)
    (hclosed : ∀ i j, i < n → j < n → mask.getD i false = true → mask.getD j false = false → entry T i j = 0)
    (hμ : μ.length = (maskIdx n mask).length)
    (hfix : vecMat μ (restrict T mask) = μ) :
    vecMat (embed μ mask) T = embed μ mask ∧ (embed μ mask).sum = μ.sum := by
  have hel : (embed μ mask).length = n := by rw [length_embed, hm]
  -- sums over all indices reduce to sums over the selected ones
  have key : ∀ f : Nat → Rat, rsum n (fun i => (embed μ mask).getD i 0 * f i) =
      rsum (maskIdx n mask).length (fun a => μ.getD a 0 * f ((maskIdx n mask).getD a 0)) := by
    intro f
    have := rsum_maskIdx n mask (fun i => (embed μ mask).getD i 0 * f i)
    rw [rsum_congr (g := fun i => if mask.getD i false = true then (embed μ mask).getD i 0 * f i else 0)]
    · rw [← this]
      apply rsum_congr
      intro a ha
      rw [getD_of_lt _ _ ha]
      have := getD_embed_of_mem μ mask (a := a) (by rw [hm]; exact ha)
      simp only [hm] at this
      rw [this]
    · intro i _
      by_cases hmi : mask.getD i false = true
      · rw [if_pos hmi]
      · have hmi' : mask.getD i false = false := by simpa using hmi
        rw [if_neg hmi, getD_embed_of_not μ mask hmi', zero_mul]
  constructor
  · apply vec_ext (length_vecMat h _) hel
    intro j hj
    rw [getD_vecMat h hel hj, key (fun i => entry T i j)]
    by_cases hmj : mask.getD j false = true
    · obtain ⟨b, hb, hbj⟩ := List.getElem_of_mem (mem_maskIdx.mpr ⟨hj, hmj⟩)
      have hb' : b < (maskIdx T.length mask).length := by rw [h.1]; exact hb
      have e1 := getD_embed_of_mem μ mask (a := b) (by rw [hm]; exact hb)
      simp only [hm] at e1
      rw [hbj] at e1
      rw [e1, ← congrArg (fun l => l.getD b 0) hfix,
        getD_vecMat (WF_restrict T mask) (by rw [h.1]; exact hμ) hb']
      rw [h.1]
      apply rsum_congr
      intro a ha
      have ha' : a < (maskIdx T.length mask).length := by rw [h.1]; exact ha
      rw [entry_restrict T mask ha' hb', getD_of_lt _ _ ha]
      simp only [h.1, hbj]
    · have hmj' : mask.getD j false = false := by simpa using hmj
      rw [getD_embed_of_not μ mask hmj', rsum_eq_finset]
      apply Finset.sum_eq_zero
      intro a ha
      have ha' := Finset.mem_range.mp ha
      rw [getD_of_lt _ _ ha']
      obtain ⟨hin, him⟩ := mem_maskIdx.mp (List.getElem_mem ha')
      rw [hclosed _ j hin hj him hmj', mul_zero]
  · rw [sum_eq_rsum, hel, sum_eq_rsum μ, hμ]
    have := key (fun _ => 1)
    simp only [mul_one] at this
    exact this

/-! ### Gauss–Jordan elimination: specification of one round -/

/-- rectangular `n × N` matrix -/
def RWF (n N : Nat) (a : Mat) : Prop := a.length = n ∧ ∀ r ∈ a, r.length = N

theorem RWF.row_length {n N : Nat} {a : Mat} (h : RWF n N a) {i : Nat} (hi : i < n) : (a.getD i []).length = N := by
  have hi' : i < a.length := by rw [h.1]; exact hi
  rw [getD_of_lt a [] hi']
  exact h.2 _ (List.getElem_mem hi')

/-- the row permutation of one round: rows `p` and `c` are exchanged -/
def gjSwap (p c r : Nat) : Nat := if r = c then p else if r = p then c else r

theorem getD_set {α : Type} (l : List α) (i j : Nat) (a d : α) :
    (l.set i a).getD j d = if i = j ∧ i < l.length then a else l.getD j d := by
  rw [List.getD_eq_getElem?_getD, List.getD_eq_getElem?_getD, List.getElem?_set]
  by_cases hij : i = j
  · subst hij
    by_cases hl : i < l.length
    · simp [hl]
    · simp [hl]
  · simp [hij]

theorem getD_swapped (aug : Mat) {p c : Nat} (hp : p < aug.length) (hc : c < aug.length) (r : Nat) :
    ((aug.set p (aug.getD c [])).set c (aug.getD p [])).getD r [] = aug.getD (gjSwap p c r) [] := by
  rw [getD_set, getD_set, List.length_set]
  unfold gjSwap
  by_cases h1 : r = c
  · subst h1; simp [hc]
  · by_cases h2 : r = p
    · subst h2; simp [h1, Ne.symm h1, hp]
    · simp [h1, h2, Ne.symm h1, Ne.symm h2]

theorem getD_zip_sub (row np : List Rat) (f : Rat) {k : Nat} (h1 : k < row.length) (h2 : k < np.length) :
    ((row.zip np).map (fun q => q.1 - f * q.2)).getD k 0 = row.getD k 0 - f * np.getD k 0 := by
  rw [getD_of_lt _ _ (by simp; omega), getD_of_lt _ _ h1, getD_of_lt _ _ h2]
  simp

/-- entry-level description of a successful elimination round -/
theorem gjStep_spec {n N : Nat} {aug new : Mat} {c : Nat} (h : RWF n N aug) (hc : c < n)
    (hs : gjStep aug c = some new) :
    ∃ p, c ≤ p ∧ p < n ∧ entry aug p c ≠ 0 ∧ RWF n N new ∧
      (∀ k, k < N → entry new c k = entry aug p k / entry aug p c) ∧
      (∀ r k, r < n → r ≠ c → k < N →
        entry new r k = entry aug (gjSwap p c r) k - entry aug (gjSwap p c r) c * (entry aug p k / entry aug p c)) := by
  unfold gjStep at hs
  simp only at hs
  split at hs
  · cases hs
  · next p hp =>
    injection hs with hs
    have hmem : p ∈ (List.range aug.length).filter (fun r => decide (c ≤ r) && entry aug r c != 0) :=
      List.mem_of_mem_head? (by rw [hp]; rfl)
    simp only [List.mem_filter, List.mem_range, Bool.and_eq_true, decide_eq_true_eq, bne_iff_ne, ne_eq] at hmem
    obtain ⟨hpn, hcp, hne⟩ := hmem
    have hcn : c < aug.length := by rw [h.1]; exact hc
    have hpN : (aug.getD p []).length = N := h.row_length (by rw [← h.1]; exact hpn)
    refine ⟨p, hcp, by rw [← h.1]; exact hpn, hne, ?_, ?_, ?_⟩
    · subst hs
      refine ⟨by simp [h.1], ?_⟩
      intro row hrow
      simp only [List.mem_map, List.mem_range] at hrow
      obtain ⟨r, hr, rfl⟩ := hrow
      split
      · rw [List.length_map]; exact hpN
      · rw [getD_swapped aug hpn hcn]
        have : gjSwap p c r < n := by
          unfold gjSwap; split
          · rw [← h.1]; exact hpn
          · split
            · exact hc
            · rw [← h.1]; exact hr
        rw [List.length_map, List.length_zip, List.length_map, hpN, h.row_length this]
        exact Nat.min_self N
    · intro k hk
      subst hs
      have hk' : k < (aug.getD p []).length := by rw [hpN]; exact hk
      unfold entry
      rw [getD_map_range _ _ _ hcn, if_pos rfl, getD_map _ _ _ hk', getD_of_lt (aug.getD p []) 0 (k := k) hk']
    · intro r k hr hrc hk
      subst hs
      have hsw : gjSwap p c r < n := by
        unfold gjSwap; split
        · rw [← h.1]; exact hpn
        · split
          · exact hc
          · exact hr
      have hk' : k < (aug.getD p []).length := by rw [hpN]; exact hk
      unfold entry
      rw [getD_map_range _ _ _ (by rw [h.1]; exact hr), if_neg hrc, getD_swapped aug hpn hcn,
        getD_zip_sub _ _ _ (k := k) (by rw [h.row_length hsw]; exact hk) (by rw [List.length_map]; exact hk'),
        getD_map _ _ _ hk', getD_of_lt (aug.getD p []) 0 (k := k) hk']

/-- weighted row sum `Σ_{k<N} a_rk w_k` -/
def rowPhi (N : Nat) (w : Nat → Rat) (a : Mat) (r : Nat) : Rat := rsum N (fun k => entry a r k * w k)

theorem gjSwap_lt {n p c r : Nat} (hp : p < n) (hc : c < n) (hr : r < n) : gjSwap p c r < n := by
  unfold gjSwap; split
  · exact hp
  · split
    · exact hc
    · exact hr

/-- one elimination round preserves (in both directions) the set of weight vectors annihilating all rows -/
theorem gjStep_phi_iff {n N : Nat} {aug new : Mat} {c : Nat} (h : RWF n N aug) (hc : c < n)
    (hs : gjStep aug c = some new) (w : Nat → Rat) :
    (∀ r, r < n → rowPhi N w aug r = 0) ↔ (∀ r, r < n → rowPhi N w new r = 0) := by
  obtain ⟨p, hcp, hpn, hne, _, e1, e2⟩ := gjStep_spec h hc hs
  have hc1 : rowPhi N w new c = rowPhi N w aug p / entry aug p c := by
    unfold rowPhi
    rw [rsum_congr (fun k hk => by rw [e1 k hk])]
    simp only [rsum_eq_finset]
    rw [Finset.sum_div]
    exact Finset.sum_congr rfl (fun k _ => by ring)
  have hr1 : ∀ r, r < n → r ≠ c → rowPhi N w new r =
      rowPhi N w aug (gjSwap p c r) - entry aug (gjSwap p c r) c * rowPhi N w new c := by
    intro r hr hrc
    rw [hc1]
    unfold rowPhi
    rw [rsum_congr (fun k hk => by rw [e2 r k hr hrc hk])]
    simp only [rsum_eq_finset]
    rw [Finset.sum_div, Finset.mul_sum, ← Finset.sum_sub_distrib]
    exact Finset.sum_congr rfl (fun k _ => by ring)
  constructor
  · intro hz r hr
    have hcz : rowPhi N w new c = 0 := by rw [hc1, hz p hpn, zero_div]
    by_cases hrc : r = c
    · rw [hrc]; exact hcz
    · rw [hr1 r hr hrc, hz _ (gjSwap_lt hpn hc hr), hcz]; ring
  · intro hz
    have hpz : rowPhi N w aug p = 0 := by
      have := hz c hc
      rw [hc1] at this
      rcases div_eq_zero_iff.mp this with h0 | h0
      · exact h0
      · exact absurd h0 hne
    intro r hr
    by_cases hrp : r = p
    · rw [hrp]; exact hpz
    · -- `r = gjSwap p c r'` for `r' = if r = c then p else r`, and `r' ≠ c`
      by_cases hrc : r = c
      · have hpc : p ≠ c := fun hh => hrp (hrc.trans hh.symm)
        have := hr1 p hpn hpc
        rw [hz p hpn, hz c hc] at this
        have e : gjSwap p c p = c := by unfold gjSwap; simp [hpc]
        rw [e] at this
        rw [hrc]; linarith
      · have := hr1 r hr hrc
        rw [hz r hr, hz c hc] at this
        have e : gjSwap p c r = r := by unfold gjSwap; simp [hrc, hrp]
        rw [e] at this
        linarith

/-- after round `c` the first `c + 1` columns are unit vectors -/
theorem gjStep_unit_cols {n N : Nat} {aug new : Mat} {c : Nat} (h : RWF n N aug) (hc : c < n) (hcN : c < N)
    (hs : gjStep aug c = some new)
    (hI : ∀ r k, r < n → k < c → entry aug r k = if r = k then 1 else 0) :
    ∀ r k, r < n → k < c + 1 → entry new r k = if r = k then 1 else 0 := by
  obtain ⟨p, hcp, hpn, hne, _, e1, e2⟩ := gjStep_spec h hc hs
  intro r k hr hk
  by_cases hrc : r = c
  · subst hrc
    rw [e1 k (by omega)]
    by_cases hkc : k = r
    · subst hkc; simp [div_self hne]
    · rw [hI p k hpn (by omega), if_neg (by omega), if_neg (Ne.symm hkc), zero_div]
  · have hsw := gjSwap_lt hpn hc hr
    rw [e2 r k hr hrc (by omega)]
    by_cases hkc : k = c
    · subst hkc
      rw [div_self hne, if_neg hrc]; ring
    · have hk' : k < c := by omega
      rw [hI p k hpn hk', if_neg (by omega), zero_div, mul_zero, sub_zero, hI _ k hsw hk']
      unfold gjSwap
      rw [if_neg hrc]
      split
      · next hrp => rw [if_neg (by omega), if_neg (by omega)]
      · rfl

/-! ### the whole elimination and `inverse` -/

/-- the first `c` elimination rounds -/
def gjRun (aug : Mat) (c : Nat) : Option Mat :=
  (List.range c).foldl (fun (acc : Option Mat) c => acc.bind (fun a => gjStep a c)) (some aug)

theorem gjRun_succ (aug : Mat) (c : Nat) : gjRun aug (c + 1) = (gjRun aug c).bind (fun a => gjStep a c) := by
  unfold gjRun
  rw [List.range_succ, List.foldl_append]
  rfl

theorem gjRun_spec {n N : Nat} {aug : Mat} (h : RWF n N aug) (hN : n ≤ N) (c : Nat) (hc : c ≤ n) {a : Mat}
    (hr : gjRun aug c = some a) :
    RWF n N a ∧ (∀ r k, r < n → k < c → entry a r k = if r = k then 1 else 0) ∧
      ∀ w : Nat → Rat, (∀ r, r < n → rowPhi N w aug r = 0) ↔ (∀ r, r < n → rowPhi N w a r = 0) := by
  induction c generalizing a with
  | zero =>
    have : a = aug := by
      unfold gjRun at hr; simp at hr; exact hr.symm
    subst this
    exact ⟨h, fun r k _ hk => absurd hk (Nat.not_lt_zero k), fun w => Iff.rfl⟩
  | succ c ih =>
    rw [gjRun_succ] at hr
    cases hprev : gjRun aug c with
    | none => rw [hprev] at hr; cases hr
    | some a' =>
      rw [hprev] at hr
      have hs : gjStep a' c = some a := hr
      obtain ⟨hw, hI, hphi⟩ := ih (by omega) hprev
      obtain ⟨p, _, _, _, hw', _, _⟩ := gjStep_spec hw (by omega) hs
      refine ⟨hw', gjStep_unit_cols hw (by omega) (by omega) hs hI, ?_⟩
      intro w
      rw [hphi w]
      exact gjStep_phi_iff hw (by omega) hs w

theorem getD_append_left' {α : Type} (l1 l2 : List α) (d : α) {k : Nat} (h : k < l1.length) :
    (l1 ++ l2).getD k d = l1.getD k d := by
  simp only [List.getD_eq_getElem?_getD]
  rw [List.getElem?_append_left h]

theorem getD_append_right' {α : Type} (l1 l2 : List α) (d : α) {k : Nat} (h : l1.length ≤ k) :
    (l1 ++ l2).getD k d = l2.getD (k - l1.length) d := by
  simp only [List.getD_eq_getElem?_getD]
  rw [List.getElem?_append_right h]

theorem getD_drop' {α : Type} (l : List α) (d : α) (n k : Nat) : (l.drop n).getD k d = l.getD (n + k) d := by
  simp only [List.getD_eq_getElem?_getD]
  rw [List.getElem?_drop]

/-- the augmented start matrix `[m | 1]` -/
def aug0 (m : Mat) : Mat := (List.zip m (identity m.length)).map (fun p => p.1 ++ p.2)

theorem inverse_eq (m : Mat) : inverse m = (gjRun (aug0 m) m.length).map (fun a => a.map (fun row => row.drop m.length)) := rfl

theorem getD_aug0 {n : Nat} {m : Mat} (h : WF n m) {r : Nat} (hr : r < n) :
    (aug0 m).getD r [] = m.getD r [] ++ (identity n).getD r [] := by
  have h1 : r < m.length := by rw [h.1]; exact hr
  have h2 : r < (identity n).length := by rw [(WF_identity n).1]; exact hr
  unfold aug0
  rw [h.1, getD_map _ _ _ (by rw [List.length_zip, h.1, (WF_identity n).1, Nat.min_self]; exact hr),
    getD_of_lt m _ h1, getD_of_lt _ _ h2]
  simp

theorem RWF_aug0 {n : Nat} {m : Mat} (h : WF n m) : RWF n (n + n) (aug0 m) := by
  unfold aug0
  refine ⟨by rw [List.length_map, List.length_zip, h.1, (WF_identity n).1, Nat.min_self], ?_⟩
  intro row hrow
  simp only [List.mem_map] at hrow
  obtain ⟨⟨r1, r2⟩, hmem, rfl⟩ := hrow
  rw [h.1] at hmem
  rw [List.length_append, h.2 _ (List.of_mem_zip hmem).1, (WF_identity n).2 _ (List.of_mem_zip hmem).2]

theorem entry_aug0_left {n : Nat} {m : Mat} (h : WF n m) {r k : Nat} (hr : r < n) (hk : k < n) :
    entry (aug0 m) r k = entry m r k := by
  unfold entry
  rw [getD_aug0 h hr, getD_append_left' _ _ _ (by rw [h.row_length hr]; exact hk)]

theorem entry_aug0_right {n : Nat} {m : Mat} (h : WF n m) {r k : Nat} (hr : r < n) (hk : k < n) :
    entry (aug0 m) r (n + k) = if r = k then 1 else 0 := by
  rw [← entry_identity hr hk]
  unfold entry
  rw [getD_aug0 h hr, getD_append_right' _ _ _ (by rw [h.row_length hr]; omega), h.row_length hr,
    Nat.add_sub_cancel_left]

theorem rsum_add (n m : Nat) (f : Nat → Rat) : rsum (n + m) f = rsum n f + rsum m (fun k => f (n + k)) := by
  simp only [rsum_eq_finset]
  exact Finset.sum_range_add f n m

theorem rsum_ite_eq {n r : Nat} (hr : r < n) (f : Nat → Rat) :
    rsum n (fun k => (if r = k then 1 else 0) * f k) = f r := by
  rw [rsum_eq_finset, Finset.sum_eq_single r]
  · simp
  · intro k _ hk; simp [Ne.symm hk]
  · intro h; exact absurd (Finset.mem_range.mpr hr) h

theorem rowPhi_aug0 {n : Nat} {m : Mat} (h : WF n m) (w : Nat → Rat) {r : Nat} (hr : r < n) :
    rowPhi (n + n) w (aug0 m) r = rsum n (fun k => entry m r k * w k) + w (n + r) := by
  unfold rowPhi
  rw [rsum_add]
  congr 1
  · exact rsum_congr (fun k hk => by rw [entry_aug0_left h hr hk])
  · rw [rsum_congr (fun k hk => by rw [entry_aug0_right h hr hk])]
    exact rsum_ite_eq hr (fun k => w (n + k))

/-- correctness of the exact Gauss–Jordan inverse: a returned matrix is a well-formed two-sided inverse -/
theorem inverse_spec {n : Nat} {m inv : Mat} (h : WF n m) (hi : inverse m = some inv) :
    WF n inv ∧ mul m inv = identity n ∧ mul inv m = identity n := by
  rw [inverse_eq, h.1] at hi
  cases hrun : gjRun (aug0 m) n with
  | none => rw [hrun] at hi; cases hi
  | some a =>
    rw [hrun] at hi
    injection hi with hi
    obtain ⟨hw, hI, hphi⟩ := gjRun_spec (RWF_aug0 h) (Nat.le_add_right n n) n (Nat.le_refl n) hrun
    have hinv : WF n inv := by
      subst hi
      refine ⟨by rw [List.length_map, hw.1], ?_⟩
      intro row hrow
      simp only [List.mem_map] at hrow
      obtain ⟨r, hr, rfl⟩ := hrow
      rw [List.length_drop, hw.2 r hr, Nat.add_sub_cancel]
    have hent : ∀ r k, r < n → k < n → entry a r (n + k) = entry inv r k := by
      intro r k hr _
      subst hi
      unfold entry
      rw [getD_map _ _ _ (by rw [hw.1]; exact hr), getD_of_lt a _ (by rw [hw.1]; exact hr), getD_drop']
    have hphia : ∀ (w : Nat → Rat) r, r < n →
        rowPhi (n + n) w a r = w r + rsum n (fun k => entry inv r k * w (n + k)) := by
      intro w r hr
      unfold rowPhi
      rw [rsum_add]
      congr 1
      · rw [rsum_congr (fun k hk => by rw [hI r k hr hk])]
        exact rsum_ite_eq hr w
      · exact rsum_congr (fun k hk => by rw [hent r k hr hk])
    refine ⟨hinv, ?_, ?_⟩
    · -- right inverse: weights `(inv column j ; -e_j)`
      apply Mat.ext (WF_mul h hinv) (WF_identity n)
      intro i j hi' hj
      rw [entry_mul h hinv hi' hj, entry_identity hi' hj]
      let w : Nat → Rat := fun k => if k < n then entry inv k j else -(if k - n = j then 1 else 0)
      have hz : ∀ r, r < n → rowPhi (n + n) w a r = 0 := by
        intro r hr
        rw [hphia w r hr]
        have : rsum n (fun k => entry inv r k * w (n + k)) = -entry inv r j := by
          rw [rsum_congr (g := fun k => (if j = k then 1 else 0) * (-entry inv r k))
            (fun k hk => by
              show entry inv r k * (if n + k < n then _ else _) = _
              rw [if_neg (by omega), Nat.add_sub_cancel_left]
              by_cases hkj : k = j
              · subst hkj; simp
              · simp [hkj, Ne.symm hkj])]
          exact rsum_ite_eq hj (fun k => -entry inv r k)
        rw [this]
        show (if r < n then entry inv r j else _) + _ = 0
        rw [if_pos hr]; ring
      have := ((hphi w).mpr hz) i hi'
      rw [rowPhi_aug0 h w hi'] at this
      have e1 : rsum n (fun k => entry m i k * w k) = rsum n (fun k => entry m i k * entry inv k j) :=
        rsum_congr (fun k hk => by show _ * (if k < n then _ else _) = _; rw [if_pos hk])
      have e2 : w (n + i) = -(if i = j then 1 else 0) := by
        show (if n + i < n then _ else _) = _
        rw [if_neg (by omega), Nat.add_sub_cancel_left]
      rw [e1, e2] at this
      linarith
    · -- left inverse: weights `(e_j ; -m column j)`
      apply Mat.ext (WF_mul hinv h) (WF_identity n)
      intro i j hi' hj
      rw [entry_mul hinv h hi' hj, entry_identity hi' hj]
      let w : Nat → Rat := fun k => if k < n then (if k = j then 1 else 0) else -entry m (k - n) j
      have hz : ∀ r, r < n → rowPhi (n + n) w (aug0 m) r = 0 := by
        intro r hr
        rw [rowPhi_aug0 h w hr]
        have : rsum n (fun k => entry m r k * w k) = entry m r j := by
          rw [rsum_congr (g := fun k => (if j = k then 1 else 0) * entry m r k)
            (fun k hk => by
              show entry m r k * (if k < n then _ else _) = _
              rw [if_pos hk]
              by_cases hkj : k = j
              · subst hkj; simp
              · simp [hkj, Ne.symm hkj])]
          exact rsum_ite_eq hj (fun k => entry m r k)
        rw [this]
        show _ + (if n + r < n then _ else _) = 0
        rw [if_neg (by omega), Nat.add_sub_cancel_left]; ring
      have := ((hphi w).mp hz) i hi'
      rw [hphia w i hi'] at this
      have e1 : rsum n (fun k => entry inv i k * w (n + k)) = -rsum n (fun k => entry inv i k * entry m k j) := by
        simp only [rsum_eq_finset]
        rw [← Finset.sum_neg_distrib]
        apply Finset.sum_congr rfl
        intro k _
        show _ * (if n + k < n then _ else _) = _
        rw [if_neg (by omega), Nat.add_sub_cancel_left]; ring
      have e2 : w i = if i = j then 1 else 0 := by
        show (if i < n then _ else _) = _
        rw [if_pos hi']
      rw [e1, e2] at this
      linarith

/-! ### `stationary` -/

theorem stationary_eq (T : Mat) :
    stationary T =
      if T.length = 0 then none else
      match inverse (statMatrix T) with
      | none => none
      | some inv =>
        let x := inv.map (fun row => row.getD (T.length - 1) 0)
        if vecMat x T == x then some x else none := rfl

theorem stationary_some {T : Mat} {x : Vec} (hs : stationary T = some x) :
    1 ≤ T.length ∧ vecMat x T = x ∧
      ∃ inv, inverse (statMatrix T) = some inv ∧ x = inv.map (fun row => row.getD (T.length - 1) 0) := by
  rw [stationary_eq] at hs
  split at hs
  · cases hs
  · next hn =>
    split at hs
    · cases hs
    · next inv hinv =>
      simp only at hs
      split at hs
      · next hfix =>
        injection hs with hs
        subst hs
        exact ⟨by omega, by simpa using hfix, inv, hinv, rfl⟩
      · cases hs

/-- a returned vector is a left fixed vector with sum one, and it is the last column of a two-sided inverse of `statMatrix T` -/
theorem stationary_spec {n : Nat} {T : Mat} {x : Vec} (h : WF n T) (hs : stationary T = some x) :
    vecMat x T = x ∧ x.sum = 1 ∧
      ∃ inv, WF n inv ∧ mul inv (statMatrix T) = identity n := by
  obtain ⟨hn, hfix, inv, hinv, hx⟩ := stationary_some hs
  rw [h.1] at hn hx
  have hA := WF_statMatrix h hn
  obtain ⟨hw, hr, hl⟩ := inverse_spec hA hinv
  refine ⟨hfix, ?_, inv, hw, hl⟩
  have hxl : x.length = n := by rw [hx, List.length_map, hw.1]
  have hxk : ∀ k, k < n → x.getD k 0 = entry inv k (n - 1) := by
    intro k hk
    rw [hx, getD_map _ _ _ (by rw [hw.1]; exact hk)]
    unfold entry
    rw [getD_of_lt inv _ (by rw [hw.1]; exact hk)]
  have h1 : entry (mul (statMatrix T) inv) (n - 1) (n - 1) = 1 := by
    rw [hr, entry_identity (by omega) (by omega), if_pos rfl]
  rw [entry_mul hA hw (by omega) (by omega)] at h1
  rw [sum_eq_rsum, hxl, ← h1]
  apply rsum_congr
  intro k hk
  rw [entry_statMatrix_last h hk, one_mul, hxk k hk]

/-! ### adding an isolated state (`T ⊕ (d)`) -/

/-- block matrix `T ⊕ (d)`: one more state that is isolated from the others and has self-transition weight `d` -/
def addState (T : Mat) (d : Rat) : Mat := T.map (fun r => r ++ [0]) ++ [List.replicate T.length 0 ++ [d]]

theorem WF_addState {n : Nat} {T : Mat} (h : WF n T) (d : Rat) : WF (n + 1) (addState T d) := by
  unfold addState
  refine ⟨by simp [h.1], ?_⟩
  intro r hr
  rw [List.mem_append] at hr
  rcases hr with hr | hr
  · simp only [List.mem_map] at hr
    obtain ⟨r', hr', rfl⟩ := hr
    simp [h.2 r' hr']
  · simp only [List.mem_singleton] at hr
    subst hr; simp [h.1]

theorem entry_addState_lt {n : Nat} {T : Mat} (h : WF n T) (d : Rat) {i j : Nat} (hi : i < n) (hj : j < n) :
    entry (addState T d) i j = entry T i j := by
  have hi' : i < T.length := by rw [h.1]; exact hi
  unfold entry addState
  rw [getD_append_left' _ _ _ (by rw [List.length_map]; exact hi'), getD_map _ _ _ hi', getD_of_lt T _ hi',
    getD_append_left' _ _ _ (by rw [h.2 _ (List.getElem_mem hi')]; exact hj)]

theorem NonNeg_addState {T : Mat} (p : NonNeg T) {d : Rat} (hd : 0 ≤ d) : NonNeg (addState T d) := by
  unfold addState
  intro r hr x hx
  rw [List.mem_append] at hr
  rcases hr with hr | hr
  · simp only [List.mem_map] at hr
    obtain ⟨r', hr', rfl⟩ := hr
    rw [List.mem_append] at hx
    rcases hx with hx | hx
    · exact p r' hr' x hx
    · simp only [List.mem_singleton] at hx; rw [hx]
  · simp only [List.mem_singleton] at hr
    subst hr
    rw [List.mem_append] at hx
    rcases hx with hx | hx
    · rw [(List.mem_replicate.mp hx).2]
    · simp only [List.mem_singleton] at hx; rw [hx]; exact hd

theorem sum_replicate_zero (n : Nat) : (List.replicate n (0 : Rat)).sum = 0 := by
  induction n with
  | zero => rfl
  | succ n ih => rw [List.replicate_succ, List.sum_cons, ih, add_zero]

theorem rowSums_addState (T : Mat) (d : Rat) : rowSums (addState T d) = rowSums T ++ [d] := by
  unfold rowSums addState
  rw [List.map_append, List.map_map]
  congr 1
  · apply List.map_congr_left
    intro r _
    simp
  · simp

theorem colSums_eq {n : Nat} {T : Mat} (h : WF n T) :
    colSums T = (List.range n).map (fun j => (T.map (fun row => row.getD j 0)).sum) := by
  unfold colSums
  rw [transpose_eq h, List.map_map]
  rfl

theorem colSums_addState {n : Nat} {T : Mat} (h : WF n T) (d : Rat) :
    colSums (addState T d) = colSums T ++ [d] := by
  rw [colSums_eq (WF_addState h d), colSums_eq h, List.range_succ, List.map_append]
  congr 1
  · apply List.map_congr_left
    intro j hj
    have hj' : j < n := List.mem_range.mp hj
    unfold addState
    rw [List.map_append, List.sum_append, List.map_map]
    have e1 : List.map ((fun row => row.getD j 0) ∘ fun r => r ++ [0]) T = T.map (fun row => row.getD j 0) := by
      apply List.map_congr_left
      intro r hr
      exact getD_append_left' _ _ _ (by rw [h.2 r hr]; exact hj')
    rw [e1]
    have e2 : (List.replicate T.length (0 : Rat) ++ [d]).getD j 0 = 0 := by
      rw [getD_append_left' _ _ _ (by rw [List.length_replicate, h.1]; exact hj'),
        getD_of_lt _ _ (by rw [List.length_replicate, h.1]; exact hj')]
      simp
    simp only [List.map_cons, List.map_nil, List.sum_cons, List.sum_nil]
    rw [e2]; ring
  · unfold addState
    simp only [List.map_cons, List.map_nil]
    rw [List.map_append, List.sum_append, List.map_map]
    have e1 : List.map ((fun row => row.getD n 0) ∘ fun r => r ++ [0]) T = T.map (fun _ => (0 : Rat)) := by
      apply List.map_congr_left
      intro r hr
      show (r ++ [0]).getD n 0 = 0
      rw [getD_append_right' _ _ _ (by rw [h.2 r hr]), h.2 r hr, Nat.sub_self]
      rfl
    have e2 : (List.replicate T.length (0 : Rat) ++ [d]).getD n 0 = d := by
      rw [getD_append_right' _ _ _ (by rw [List.length_replicate, h.1]), List.length_replicate, h.1, Nat.sub_self]
      rfl
    have e3 : (T.map (fun _ => (0 : Rat))).sum = 0 := by
      rw [List.map_const']; exact sum_replicate_zero _
    rw [e1, e3]
    simp only [List.map_cons, List.map_nil, List.sum_cons, List.sum_nil]
    rw [e2]; congr 1; ring

theorem isSquare_of_WF {m : Mat} (h : WF m.length m) : isSquare m = true := by
  unfold isSquare
  rw [List.all_eq_true]
  intro r hr
  simp [h.2 r hr]

theorem length_rowSums (m : Mat) : (rowSums m).length = m.length := by simp [rowSums]

theorem length_colSums {n : Nat} {m : Mat} (h : WF n m) : (colSums m).length = n := by
  rw [colSums_eq h]; simp

theorem absQ_zero : absQ 0 = 0 := by unfold absQ; simp

/-- the row condition of `is_transition_matrix` -/
def tmatRowOK (p : Rat × Rat) : Bool :=
  decide (absQ (p.1 - 1) ≤ atol) || !(p.1 != 0 || p.2 != 0)

theorem isTmat_eq (m : Mat) :
    isTmat m = (isQuadratic m && (List.zip (rowSums m) (colSums m)).all tmatRowOK) := rfl

theorem isTmat_addState {T : Mat} (h : isTmat T = true) {d : Rat} (hd : d = 0 ∨ d = 1) :
    isTmat (addState T d) = true := by
  have hw := WF_of_isTmat h
  have h2 := two_le_of_isTmat h
  have hw' := WF_addState hw d
  rw [isTmat_eq, Bool.and_eq_true] at h ⊢
  constructor
  · unfold isQuadratic
    have hl : (addState T d).length = T.length + 1 := hw'.1
    rw [isSquare_of_WF (by rw [hl]; exact hw'), hl]
    simp only [Bool.true_and, Bool.and_eq_true, bne_iff_ne, ne_eq]
    omega
  · rw [rowSums_addState, colSums_addState hw,
      List.zip_append (by rw [length_rowSums, length_colSums hw]), List.all_append, Bool.and_eq_true]
    refine ⟨h.2, ?_⟩
    simp only [List.zip_cons_cons, List.zip_nil_right, List.all_cons, List.all_nil, Bool.and_true]
    unfold tmatRowOK
    rcases hd with rfl | rfl
    · simp
    · simp [absQ_zero, le_of_lt atol_pos]

theorem entry_of_ge_right {n : Nat} {m : Mat} (h : WF n m) (i : Nat) {j : Nat} (hj : n ≤ j) : entry m i j = 0 := by
  by_cases hi : i < n
  · unfold entry
    rw [getD_of_ge _ _ (by rw [h.row_length hi]; exact hj)]
  · exact entry_of_ge_left m j (by rw [h.1]; omega)

theorem Walk.mono {b b' : List (List Bool)} (h : ∀ l j, bent b l j = true → bent b' l j = true)
    {k i j : Nat} (hw : Walk b k i j) : Walk b' k i j := by
  induction k generalizing j with
  | zero => exact hw
  | succ k ih =>
    obtain ⟨l, h1, h2⟩ := hw
    exact ⟨l, ih h1, h l j h2⟩

theorem bent_support_addState {n : Nat} {T : Mat} (h : WF n T) (d : Rat) (l j : Nat)
    (he : bent (support T) l j = true) : bent (support (addState T d)) l j = true := by
  rw [bent_support] at he ⊢
  have hne : entry T l j ≠ 0 := by simpa using he
  have hl : l < n := by
    by_contra hc
    exact hne (entry_of_ge_left T j (by rw [h.1]; omega))
  have hj : j < n := by
    by_contra hc
    exact hne (entry_of_ge_right h l (by omega))
  rw [entry_addState_lt h d hl hj]
  exact he

/-- an accepted non-negative matrix has walks of every length `k ≥ K` between all pairs -/
theorem walk_ge_of_isErgodic {m : Mat} (p : NonNeg m) (h : isErgodic m = true) (k : Nat)
    (hk : wielandtExp m.length ≤ k) {i j : Nat} (hi : i < m.length) (hj : j < m.length) :
    Walk (support m) k i j := by
  induction k generalizing j with
  | zero => have := wielandtExp_pos m.length; omega
  | succ k ih =>
    by_cases hk' : wielandtExp m.length = k + 1
    · rw [← hk']; exact walk_of_isErgodic p h hi hj
    · -- an in-neighbour of `j`
      have hK := walk_of_isErgodic p h hj hj
      have : wielandtExp m.length = (wielandtExp m.length - 1) + 1 := by have := wielandtExp_pos m.length; omega
      rw [this] at hK
      obtain ⟨l, _, he⟩ := hK.last_edge
      have hl : l < m.length := by rw [← support_length]; exact bent_lt_length he
      exact ⟨l, ih (by omega) hl, he⟩

theorem wielandtExp_mono {a b : Nat} (h : a ≤ b) : wielandtExp a ≤ wielandtExp b := by
  unfold wielandtExp
  exact Nat.add_le_add_right (Nat.mul_le_mul (Nat.sub_le_sub_right h 1) (Nat.sub_le_sub_right h 1)) 1

/-- `T ⊕ (1)` (isolated absorbing state) and `T ⊕ (0)` (never-visited state) are fuzzy-ergodic for ergodic `T` -/
theorem isFuzzyErgodic_addState {T : Mat} (p : NonNeg T) (h : isErgodic T = true) {d : Rat} (hd : d = 0 ∨ d = 1) :
    isFuzzyErgodic (addState T d) = true := by
  have ht := isTmat_of_isErgodic h
  have hw := WF_of_isTmat ht
  have hw' := WF_addState hw d
  have hl : (addState T d).length = T.length + 1 := hw'.1
  have ht' := isTmat_addState ht hd
  have hd0 : 0 ≤ d := by rcases hd with rfl | rfl <;> norm_num
  have p' := NonNeg_addState p hd0
  unfold isFuzzyErgodic
  rw [Bool.and_eq_true]
  refine ⟨ht', ?_⟩
  simp only [List.all_eq_true, List.mem_range]
  -- the new state is a trap state
  have htrap : ((List.map (fun x => match x with | (r, c) => r + c)
      ((rowSums (addState T d)).zip (colSums (addState T d)))).map
      (fun s => decide (absQ (s - 2) ≤ atol) || decide (absQ s ≤ atol))).getD T.length false = true := by
    rw [rowSums_addState, colSums_addState hw, List.zip_append (by rw [length_rowSums, length_colSums hw]),
      List.map_append, List.map_append,
      getD_append_right' _ _ _ (by simp [length_rowSums, length_colSums hw])]
    have : T.length - (List.map (fun s => decide (absQ (s - 2) ≤ atol) || decide (absQ s ≤ atol))
        (List.map (fun x => match x with | (r, c) => r + c) ((rowSums T).zip (colSums T)))).length = 0 := by
      simp [length_rowSums, length_colSums hw]
    rw [this]
    rcases hd with rfl | rfl
    · simp [absQ_zero, le_of_lt atol_pos]
    · have : (1 : Rat) + 1 - 2 = 0 := by norm_num
      simp [this, absQ_zero, le_of_lt atol_pos]
  intro i hi j hj
  rw [hl] at hi hj
  by_cases hin : i = T.length
  · subst hin; rw [htrap]; simp
  · by_cases hjn : j = T.length
    · subst hjn; rw [htrap]; simp
    · have hi' : i < T.length := by omega
      have hj' : j < T.length := by omega
      have hwalk : Walk (support T) (wielandtExp (addState T d).length) i j := by
        apply walk_ge_of_isErgodic p h _ _ hi' hj'
        rw [hl]; exact wielandtExp_mono (Nat.le_succ _)
      have hwalk' := hwalk.mono (bent_support_addState hw d)
      have hpos := (pow_pos_iff_walk hw' p' _ (by omega) (by omega)).mpr hwalk'
      rw [powFast_eq_pow hw']
      simp [hpos]

theorem length_ergodicMask {m : Mat} {mask : List Bool} (h : ergodicMask m = some mask) : mask.length = m.length := by
  rw [ergodicMask_eq (isTmat_of_ergodicMask h)] at h
  injection h with h
  subst h
  simp

theorem map_div_one (v : Vec) : v.map (· / (1 : Rat)) = v := by
  conv => rhs; rw [← List.map_id v]
  apply List.map_congr_left
  intro x _
  simp

theorem Walk.one_iff (b : List (List Bool)) (i j : Nat) : Walk b 1 i j ↔ bent b i j = true := by
  constructor
  · rintro ⟨l, h1, h2⟩
    have : i = l := h1
    rw [this]; exact h2
  · intro h; exact ⟨i, rfl, h⟩

theorem Walk.add_iff (b : List (List Bool)) (a c i j : Nat) :
    Walk b (a + c) i j ↔ ∃ l, Walk b a i l ∧ Walk b c l j := by
  induction c generalizing j with
  | zero =>
    constructor
    · intro h; exact ⟨j, h, rfl⟩
    · rintro ⟨l, h1, h2⟩
      have : l = j := h2
      rw [← this]; exact h1
  | succ c ih =>
    constructor
    · rintro ⟨l', h1, h2⟩
      obtain ⟨l, h3, h4⟩ := (ih l').mp h1
      exact ⟨l, h3, l', h4, h2⟩
    · rintro ⟨l, h3, l', h4, h2⟩
      exact ⟨l', (ih l').mpr ⟨l, h3, h4⟩, h2⟩

end MsmVerif.Linalg
