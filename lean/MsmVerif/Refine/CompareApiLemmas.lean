/-
Refine/CompareApiLemmas.lean — helper lemmas for `Refine/CompareApi.lean` (task RP14, property C13): the numpy glue of the
TRANSLATED `_compare_discretization` (`Gen/MdCompareApi.lean`): `np.where(flat == state)[0]`, the broadcasting division
`npMatCol`, `npTranspose`, and the class sizes that are the divisors of the normalisation.
-/
import MsmVerif.Gen.MdCompareApi
import MsmVerif.Refine.Compare
open MsmVerif MsmVerif.Gen

namespace MsmVerif.Refine.CompareApi
open MsmVerif.Refine.Compare

/-! ### `np.where(flat == state)[0]` and the per-state frame lists -/

theorem npWhere1_map_beq (flat : List Int) (s : Int) :
    Gen.npWhere1 (flat.map (fun x => x == s)) = Compare.frameIdx flat s := by
  unfold Gen.npWhere1 Compare.frameIdx
  rw [List.length_map]
  congr 1
  apply List.filter_congr
  intro i hi
  have hi' : i < flat.length := by simpa using hi
  simp [List.getD_eq_getElem?_getD, hi']

theorem pyRange_zero_nat (n : Nat) : pyRange 0 (n : Int) = (List.range n).map (fun (k : Nat) => (k : Int)) := by
  unfold pyRange
  simp

/-- the translated list comprehension `[np.where(flat == state)[0] for state in range(nstates)]` -/
theorem idx_eq_idxLists (f : List Int) (n : Nat) :
    (pyRange 0 (n : Int)).map (fun state => Gen.npWhere1 (f.map (fun x_ => x_ == state))) = idxLists f n := by
  rw [pyRange_zero_nat, List.map_map]
  unfold idxLists
  apply List.map_congr_left
  intro s _
  exact npWhere1_map_beq f s

/-! ### broadcasting `matrix ∘ column` without a shape error -/

/-- a 2-d array with as many rows as the column has entries: no `ValueError`, row `i` is combined with entry `i` -/
theorem npMatCol_of_length {α β γ : Type} (f : α → β → γ) (m : List (List α)) (c : List β)
    (h : m.length = c.length) :
    Gen.npMatCol f m c = .ok (List.zipWith (fun r y => r.map (fun x => f x y)) m c) := by
  unfold Gen.npMatCol
  split
  · rename_i r
    match c, h with
    | [y], _ => rfl
  · rename_i y hne
    match m, h with
    | [r], _ => exact absurd rfl (hne r)
  · rw [if_pos h]

theorem zipWith_congr_right {α β γ : Type} (f g : α → β → γ) (m : List α) (c : List β)
    (h : ∀ y ∈ c, ∀ x, f x y = g x y) : List.zipWith f m c = List.zipWith g m c := by
  induction m generalizing c with
  | nil => rfl
  | cons r rs ih =>
    cases c with
    | nil => rfl
    | cons y ys =>
      simp only [List.zipWith_cons_cons]
      rw [h y (by simp), ih ys (fun y' hy' => h y' (by simp [hy']))]

/-- `npMatCol` only applies the operation to entries of the column -/
theorem npMatCol_congr {α β γ : Type} (f g : α → β → γ) (m : List (List α)) (c : List β)
    (h : ∀ y ∈ c, ∀ x, f x y = g x y) : Gen.npMatCol f m c = Gen.npMatCol g m c := by
  unfold Gen.npMatCol
  split
  · congr 1
    apply List.map_congr_left
    intro y hy
    apply List.map_congr_left
    intro x _
    exact h y hy x
  · rename_i y _
    congr 1
    apply List.map_congr_left
    intro r _
    apply List.map_congr_left
    intro x _
    exact h y (by simp) x
  · split
    · congr 1
      apply zipWith_congr_right
      intro y hy r
      apply List.map_congr_left
      intro x _
      exact h y hy x
    · rfl

/-! ### the two normalisations -/

/-- `intersect / lengths1[:, newaxis]` entry by entry -/
theorem divRow_eq_norm12 (inter : List (List Rat)) (idx1 : List (List Int)) (n2 : Nat)
    (hl : inter.length = idx1.length) (hr : ∀ r ∈ inter, r.length = n2) :
    List.zipWith (fun r y => r.map (fun x => x / ((y : Int) : Rat))) inter (idx1.map (fun idx => pyLen idx))
      = norm12 inter idx1 n2 := by
  unfold norm12
  apply List.ext_getElem
  · simp [hl]
  · intro i h1 h2
    have hi1 : i < inter.length := by simp at h1; omega
    have hi2 : i < idx1.length := by omega
    simp only [List.getElem_zipWith, List.getElem_map, List.getElem_range]
    have hrow := hr _ (List.getElem_mem hi1)
    apply List.ext_getElem
    · simp [hrow]
    · intro j h3 h4
      have hj : j < inter[i].length := by simpa using h3
      simp only [List.getElem_map, List.getElem_range, pyLen, Rat.intCast_natCast]
      simp [List.getD_eq_getElem?_getD, hi1, hi2, hj]

/-- `.T` of a non-empty rectangular table with `n2` columns -/
theorem npTranspose_eq (inter : List (List Rat)) (n2 : Nat) (hne : inter ≠ [])
    (hr : ∀ r ∈ inter, r.length = n2) :
    Gen.npTranspose inter = (List.range n2).map (fun j => inter.map (fun r => r.getD j 0)) := by
  unfold Gen.npTranspose Gen.npCol
  have : (Gen.npShape1 inter).toNat = n2 := by
    cases inter with
    | nil => exact absurd rfl hne
    | cons r rs => simp [Gen.npShape1, hr r (by simp)]
  rw [this]
  rfl

/-- `intersect.T / lengths2[:, newaxis]` entry by entry -/
theorem divCol_eq_norm21 (inter : List (List Rat)) (idx2 : List (List Int)) (n1 : Nat)
    (hl : inter.length = n1) :
    List.zipWith (fun r y => r.map (fun x => x / ((y : Int) : Rat)))
        ((List.range idx2.length).map (fun j => inter.map (fun r => r.getD j 0))) (idx2.map (fun idx => pyLen idx))
      = norm21 inter idx2 n1 := by
  unfold norm21
  apply List.ext_getElem
  · simp
  · intro j h1 h2
    have hj : j < idx2.length := by simpa using h2
    simp only [List.getElem_zipWith, List.getElem_map, List.getElem_range]
    apply List.ext_getElem
    · simp [hl]
    · intro i h3 h4
      have hi : i < inter.length := by simpa using h3
      simp only [List.getElem_map, List.getElem_range, pyLen, Rat.intCast_natCast]
      simp [List.getD_eq_getElem?_getD, hi, hj]

/-! ### class sizes -/

theorem frameIdx_length_pos (f : List Int) (s : Int) (h : s ∈ f) : 1 ≤ (Compare.frameIdx f s).length := by
  obtain ⟨i, hi, rfl⟩ := List.getElem_of_mem h
  unfold Compare.frameIdx
  rw [List.length_map]
  apply List.length_pos_of_mem (a := i)
  rw [List.mem_filter]
  exact ⟨List.mem_range.2 hi, by simp [List.getD_eq_getElem?_getD, hi]⟩

theorem sizes_pos (f : List Int) (n : Nat) (ho : ∀ s : Nat, s < n → (s : Int) ∈ f) :
    ∀ y ∈ (idxLists f n).map (fun idx => pyLen idx), (1 : Int) ≤ y := by
  intro y hy
  simp only [idxLists, List.map_map, List.mem_map, List.mem_range, Function.comp_apply] at hy
  obtain ⟨s, hs, rfl⟩ := hy
  have := frameIdx_length_pos f s (ho s hs)
  simp only [pyLen]
  omega

/-- a state that does not occur has an empty frame list (then the normalisation divides by zero) -/
theorem frameIdx_eq_nil (f : List Int) (s : Int) (h : s ∉ f) : Compare.frameIdx f s = [] := by
  unfold Compare.frameIdx
  rw [List.map_eq_nil_iff, List.filter_eq_nil_iff]
  intro i hi
  have hi' : i < f.length := List.mem_range.1 hi
  have : f[i] ≠ s := fun e => h (e ▸ List.getElem_mem hi')
  simp [List.getD_eq_getElem?_getD, hi', this]

theorem intCast_ne_zero_of_pos (y : Int) (h : 1 ≤ y) : ((y : Int) : Rat) ≠ 0 := by
  intro e
  have : ((y : Int) : Rat) = ((0 : Int) : Rat) := by simpa using e
  have := Rat.intCast_inj.1 this
  omega

end MsmVerif.Refine.CompareApi
