/-
Props/C16.lean — property theorems for C16 (`msmhelper.io`: `savetxt`/`opentxt` text round-trip, comment header,
`usecols` order, limits splitting, dtype of `openmicrostates`).  Helper lemmas live in Lemmas/TextIO.lean.

Model of the code (Model/TextIO.lean): a file is a list of lines, a line a `List Char`.  `writeTable hdr fmt tbl` is what
`np.savetxt(fmt='%.0f' | '%.5f', header=hdr)` writes for an integer table (every header line prefixed by `"# "`, then one
space-joined line per row), `readTable` is what `opentxt` reads (comment cut at `#`, empty lines dropped, whitespace
tokens, integer-valued tokens), `selectColsCode` the sort-then-swap-back path of `usecols`, `splitLimits` the limits
splitting, `microDtype` the dtype decision of `openmicrostates`.
-/
import MsmVerif.Lemmas.TextIO

namespace MsmVerif.C16
open MsmVerif MsmVerif.TextIO

/-! ### 1. a written number parses back to itself -/

/-- The decimal digits of a natural number parse back to that number. -/
theorem digits_roundtrip (n : Nat) : parseNat (natDigits n) = some n := parseNat_natDigits n

/-- The digit string of a number is never empty. -/
theorem digits_ne_nil (n : Nat) : natDigits n ≠ [] := natDigits_ne_nil n

/-- Both formats (`'%.0f'`, `'%.5f'`) of every integer `v` parse back to exactly `v`. -/
theorem fmt_parse (v : Int) : parseTok (fmt0 v) = some v ∧ parseTok (fmt5 v) = some v :=
  ⟨parseTok_fmt0 v, parseTok_fmt5 v⟩

/-- A written token is non-empty and contains no blank, no tab and no comment character `#`. -/
theorem fmt_token_chars (fmt : Fmt) (v : Int) :
    fmt.apply v ≠ [] ∧ ∀ c ∈ fmt.apply v, c ≠ ' ' ∧ c ≠ '\t' ∧ c ≠ '#' :=
  ⟨fmt_ne_nil fmt v, fmt_tokChar fmt v⟩

example : fmt0 (-120) = "-120".toList ∧ fmt5 7 = "7.00000".toList := by decide +kernel
example : parseTok "-120".toList = some (-120) ∧ parseTok "7.00000".toList = some 7 ∧
    parseTok "7.5".toList = none ∧ parseTok "x".toList = none := by decide +kernel

/-! ### 2. the tokeniser inverts joining with single blanks -/

/-- For tokens that are non-empty and contain neither blank nor tab, splitting the space-joined line at whitespace
returns exactly the tokens. -/
theorem tokens_join (ts : List Line) (h : ∀ t ∈ ts, t ≠ [] ∧ ∀ c ∈ t, c ≠ ' ' ∧ c ≠ '\t') :
    tokens (joinSp ts) = ts :=
  tokens_joinSp ts (fun t ht => ⟨(h t ht).1, fun c hc hb => by
    rcases hb with e | e
    · exact ((h t ht).2 c hc).1 e
    · exact ((h t ht).2 c hc).2 e⟩)

example : ∀ t ∈ ["12".toList, "-3".toList, "4.00000".toList], t ≠ [] ∧ ∀ c ∈ t, c ≠ ' ' ∧ c ≠ '\t' := by decide
example : tokens "12 -3 4.00000".toList = ["12".toList, "-3".toList, "4.00000".toList] := by decide +kernel

/-! ### 3. header lines are comments -/

/-- Every written header line `"# " ++ l` yields no tokens — whatever the text `l` (it may itself contain `#`). -/
theorem header_is_comment (l : Line) : tokens (cutComment ('#' :: ' ' :: l)) = [] :=
  tokens_cut_header l

/-- Hence a complete header block (any text, any number of lines) followed by data reads as the data alone. -/
theorem header_block_ignored (hdr : List Char) (data : List Line) :
    readTable ((splitNl hdr).map (fun l => '#' :: ' ' :: l) ++ data) = readTable data :=
  readTable_append_header (splitNl hdr) data

example : splitNl "a#b\n\nc".toList = ["a#b".toList, [], "c".toList] := by decide +kernel

/-! ### 4. write then read is the identity -/

/-- For every header text, both number formats and every table all of whose rows have at least one column:
reading the written file returns exactly the table. -/
theorem roundtrip (hdr : List Char) (fmt : Fmt) (tbl : List (List Int)) (h : ∀ r ∈ tbl, r ≠ []) :
    readTable (writeTable hdr fmt tbl) = some tbl :=
  readTable_writeTable hdr fmt tbl h

example : ∀ r ∈ ([[1, -20], [300, 4]] : List (List Int)), r ≠ [] := by decide
example : writeTable "x\n#y".toList .f0 [[1, -20], [300, 4]]
    = ["# x".toList, "# #y".toList, "1 -20".toList, "300 4".toList] := by decide +kernel
/-- the hypothesis cannot be dropped: a row without columns is written as an empty line, which the reader skips -/
example : readTable (writeTable [] .f0 [[1], [], [2]]) = some [[1], [2]] := by decide +kernel

/-! ### 5. `usecols` returns the columns in the requested order -/

/-- For distinct requested columns the code path (columns in ascending file order, then swapped back with
`idx = argsort(cols)`) returns column `m` = file column `cols[m]`. -/
theorem usecols (cols : List Nat) (hn : cols.Nodup) (tbl : List (List Int)) :
    selectColsCode cols tbl = selectCols cols tbl :=
  selectColsCode_eq cols hn tbl

/-- `sortAsc cols` is an ascending permutation of `cols`. -/
theorem sortAsc_sorted_perm (cols : List Nat) : (sortAsc cols).Pairwise (· ≤ ·) ∧ (sortAsc cols).Perm cols :=
  ⟨sortAsc_sorted cols, sortAsc_perm cols⟩

example : ([2, 0, 1] : List Nat).Nodup := by decide
example : selectColsCode [2, 0, 1] [[10, 11, 12], [20, 21, 22]] = [[12, 10, 11], [22, 20, 21]] := by decide

/-! ### 6. limits -/

/-- If the limits are accepted, the pieces have exactly the requested lengths and concatenate to the data. -/
theorem limits {α : Type} (lims : List Nat) (rows : List α) (pieces : List (List α))
    (h : splitLimits lims rows = some pieces) : pieces.map List.length = lims ∧ pieces.flatten = rows :=
  (splitLimits_some lims rows pieces h).2

/-- The limits are rejected (`ValueError`) exactly when they do not sum to the number of rows. -/
theorem limits_reject {α : Type} (lims : List Nat) (rows : List α) :
    splitLimits lims rows = none ↔ lims.sum ≠ rows.length :=
  splitLimits_none lims rows

example : splitLimits [2, 0, 3] [1, 2, 3, 4, 5] = some [[1, 2], [], [3, 4, 5]] := by decide
example : splitLimits [2, 2] [1, 2, 3, 4, 5] = none := by decide

/-! ### 7. dtype of `openmicrostates` -/

/-- Microstates are returned in the requested integer dtype, and in 16 bit only by default. -/
theorem micro_dtype (d : IntDtype) : microDtype (some d) = d ∧ microDtype none = .i16 := ⟨rfl, rfl⟩

/-! ### 8. a single column -/

/-- A single-column file round-trips to the 1-d column. -/
theorem single_column (hdr : List Char) (fmt : Fmt) (col : List Int) :
    (readTable (writeTable hdr fmt (col.map (fun v => [v])))).map (fun t => t.map (fun r => r.getD 0 0)) = some col := by
  rw [readTable_write_single, Option.map_some, firstCol_single]

example : (readTable (writeTable "h".toList .f5 [[3], [-1]])).map (fun t => t.map (fun r => r.getD 0 0)) = some [3, -1] := by
  decide +kernel

end MsmVerif.C16
