"""C06 — trajectory waiting times and pathways are exact event extractions."""
import itertools

import numpy as np

import core
import gen

PID = 'C06'
ANCHORS = [('src/msmhelper/md/timescales.py', ['estimate_waiting_times', '_estimate_waiting_times',
                                               '_estimate_waiting_times_singletraj', 'estimate_paths', '_estimate_paths',
                                               '_estimate_events_singletraj', '_estimate_paths_singletraj']),
           ('src/msmhelper/md/comparison.py', ['_intersect'])]
RULE = ('exhaustive: every trajectory over 4 labels up to length 5 (quick) / 7 (thorough) x every pair of disjoint non-empty '
        '(start, final) subsets of the occurring labels, waiting times and pathways; random: 1-5 trajectories, basins of '
        'several states, loops re-entering the start basin, arbitrary labels; malformed stream: overlapping / absent labels. '
        'Non-trivial = >=1 event; distinct by (trajs, start, final, function).')
RELATION = 'canon(md.estimate_waiting_times / md.estimate_paths) = Events.mdWaitingTimes / groupPaths (Events.mdPaths)'


def _mk(fn, trajs, S, F, form='list_of_arrays', src='rand'):
    return {'op': fn, 'trajs': trajs, 'start': S, 'final': F, 'form': form, 'src': src}


def disjoint_pairs(labels):
    labels = sorted(labels)
    n = len(labels)
    for assign in itertools.product(range(3), repeat=n):
        S = [l for l, a in zip(labels, assign) if a == 1]
        F = [l for l, a in zip(labels, assign) if a == 2]
        if S and F:
            yield S, F


def cases(tier, rng, boost=1):
    # many states (beyond the 8-bit range, labels beyond the 16-bit range), narrow per-array dtypes
    brng = core.Rng(43)
    for lo, hi in ((0, 300), (-150, 150), (32000, 33100), (65000, 66000)):
        t = [[brng.randrange(lo, hi) if brng.random() < 0.7 else lo for _ in range(500)] for _k in range(2)]
        occ = sorted({x for tt in t for x in tt})
        S, F = [lo, occ[1]], [occ[-1], occ[-2]]
        for form in ('per_array_narrow', 'list_of_lists'):
            yield _mk('md_wt', t, S, F, form=form, src='corpus-big')
            yield _mk('md_paths', t, S, F, form=form, src='corpus-big')
    for lt, _N in gen.long_sets('quick'):          # (the pathway model is quadratic in the event length: the 65 537-frame set of the thorough tier is left to C05)
        yield _mk('md_wt', lt, [0], [3, 2], src='corpus-long')
        yield _mk('md_paths', lt, [0, 1], [3], form='statetraj', src='corpus-long')
    yield _mk('md_wt', [[1, 2, 3, 1, 3], [3, 1, 2, 3]], [1], [3], src='corpus')
    # a lumped object (macrostate trajectories as given, two microstates under each): events are extracted from the MACROstate trajectories
    yield _mk('md_wt', [[4, 4, 7, 9, 7, 4, 9, 9, 4, 7, 7, 9]], [4], [9], form='lumped_statetraj', src='corpus')
    yield _mk('md_paths', [[4, 4, 7, 9, 7, 4, 9, 9, 4, 7, 7, 9], [9, 4, 7, 4, 9]], [4], [9], form='lumped_statetraj', src='corpus')
    yield _mk('md_paths', [[1, 2, 1, 2, 4, 2, 3]], [1], [3], src='corpus')
    yield _mk('md_wt', [[1, 2, 3]], [1, 7], [3], src='corpus')            # absent label mixed with present
    yield _mk('md_wt', [[1, 2, 3]], [1, 3], [3], src='corpus')            # overlap
    maxlen = {'quick': 5, 'thorough': 7, 'search': 6}[tier]
    for t in gen.all_trajs(4, maxlen, minlen=2):
        labs = set(t)
        if len(labs) < 2:
            continue
        for S, F in disjoint_pairs(labs):
            yield _mk('md_wt', [t], S, F, src='enum')
            yield _mk('md_paths', [t], S, F, src='enum')
    nrand = {'quick': 2500, 'thorough': 30000, 'search': 8000}[tier] * boost
    for _ in range(nrand):
        n = rng.randint(2, 7)
        labs, _ = gen.alphabet(rng, n)
        trajs = gen.relabel(gen.random_trajs(rng, n, rng.randint(1, 5), 1, 50, sticky=rng.choice([0.1, 0.4, 0.7])), labs)
        occ = sorted({x for t in trajs for x in t})
        r = rng.random()
        pool = list(occ)
        rng.shuffle(pool)
        ns = rng.randint(1, max(1, len(pool) // 2))
        S = pool[:ns]
        F = pool[ns:ns + rng.randint(1, max(1, len(pool) - ns))] or [pool[0]]
        if r < 0.08:       # malformed: overlap
            F = F + [S[0]]
        elif r < 0.16:     # malformed: absent label, mixed with present ones
            absent = max(occ) + rng.randint(1, 5)
            if rng.random() < 0.5:
                S = S + [absent]
            else:
                F = F + [absent]
        elif r < 0.2:      # all absent
            S = [max(occ) + 3]
        if rng.random() < 0.3:   # duplicates / unsorted argument lists
            S = S + S[:1]
            rng.shuffle(S)
        fn = rng.choice(['md_wt', 'md_paths'])
        yield _mk(fn, trajs, S, F, form=(rng.choice(gen.FORMS) if rng.random() < 0.88 else 'lumped_statetraj'), src='rand')


def real(case):
    import msmhelper as mh
    rng = core.Rng(hash(str(case['trajs'])) & 0xffff)
    def mkarg():
        return gen.to_form(case['trajs'], case.get('form', 'list_of_arrays'), rng)
    S = case['start'] if len(case['start']) != 1 or rng.random() < 0.5 else case['start'][0]
    F = case['final'] if len(case['final']) != 1 or rng.random() < 0.5 else case['final'][0]

    def run():
        arg = mkarg()
        if case['op'] == 'md_wt':
            return [int(x) for x in mh.md.estimate_waiting_times(arg, S, F)]
        d = mh.md.estimate_paths(arg, S, F)
        return sorted([[int(x) for x in k], sorted(int(v) for v in vs)] for k, vs in d.items())
    out = core.call(run)
    out.pop('msg', None)
    return out


def request(case, obs):
    return {'op': case['op'], 'trajs': case['trajs'], 'start': case['start'], 'final': case['final'], 'obs': obs}


def group(tuples):
    d = {}
    for p, t in tuples:
        d.setdefault(tuple(p), []).append(t)
    return sorted([list(k), sorted(v)] for k, v in d.items())


def agree(case, obs, reply):
    m = reply['model']
    if 'err' in m or 'err' in obs:
        return m == obs
    if case['op'] == 'md_wt':
        return m['ok'] == obs['ok']
    return group(m['ok']) == obs['ok']


def holds(case, obs, reply):
    return bool(reply['holds'])


def nontrivial(case, obs, reply):
    return bool(obs.get('ok'))


def key(case):
    return [case['op'], case['trajs'], case['start'], case['final']]


def classify(case, obs, reply):
    return '%s/%s/%s' % (case['src'], case['op'], obs.get('err', 'events' if obs.get('ok') else 'none'))


def known_match(k, case, obs, reply):
    return False


def shrink(case):
    ts = case['trajs']
    if len(ts) > 1:
        for i in range(len(ts)):
            yield dict(case, trajs=ts[:i] + ts[i + 1:])
    for i, t in enumerate(ts):
        if len(t) > 1:
            for j in range(len(t)):
                yield dict(case, trajs=ts[:i] + [t[:j] + t[j + 1:]] + ts[i + 1:])
    for k in ('start', 'final'):
        if len(case[k]) > 1:
            for j in range(len(case[k])):
                yield dict(case, **{k: case[k][:j] + case[k][j + 1:]})
    if case.get('form') != 'list_of_arrays':
        yield dict(case, form='list_of_arrays')
