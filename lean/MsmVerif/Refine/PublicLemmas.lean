/-
Refine/PublicLemmas.lean — helper definitions and lemmas for task RP20 (`Refine/Public.lean`): the translated public estimators
`StateTraj.estimate_markov_model` (`Gen/StateTrajEst.lean`) and `LumpedStateTraj.estimate_markov_model` (`Gen/LumpedEst.lean`)
evaluated on the object state the constructors leave (rank trajectories, ascending state lists, first-occurrence assignment).
`microT` is the micro transition matrix (the `T` of `Msm.estimate`), `assignIdx` the macro index of every micro state.
Last section: an ergodic micro model has unit row sums and the model's solver finds its stationary vector (`micro_stationary`).
-/
import MsmVerif.Gen.StateTrajEst
import MsmVerif.Gen.LumpedEst
import MsmVerif.Refine.Init
import MsmVerif.Refine.Small
import MsmVerif.Refine.Ergodic
import MsmVerif.Refine.HS
import MsmVerif.Refine.Accessors
import MsmVerif.Props.C01
import MsmVerif.Props.C03
import MsmVerif.Lemmas.MaskClasses

namespace MsmVerif.Refine.Public
open MsmVerif MsmVerif.Gen

/-- the micro transition matrix: row-normalised lagged counts of the rank trajectories over the ascending state list
    (the `T` of `Msm.estimate ts lag` under the label guard, see `estimate_eq`) -/
def microT (ts : Trajs) (lag : Nat) : List (List Rat) :=
  Msm.rowNormalize (Msm.countMatrix (rankTrajs ts) lag (states ts).length)

theorem rank_range (ts : Trajs) : ∀ t ∈ rankTrajs ts, ∀ x ∈ t, 0 ≤ x ∧ x < ((states ts).length : Int) := by
  intro t ht x hx
  have hmem : x ∈ (rankTrajs ts).flatten := List.mem_flatten.mpr ⟨t, ht, hx⟩
  obtain ⟨y, hy, rfl⟩ := mem_rankTrajs_flatten.mp hmem
  have := rank_lt (mem_states.mpr hy)
  omega

theorem estimate_eq {ts : Trajs} (hg : LabelGuard ts) (lag : Nat) :
    Msm.estimate ts lag = .ok (Msm.countMatrix (rankTrajs ts) lag (states ts).length, microT ts lag, states ts) := by
  unfold Msm.estimate
  rw [mk'_eq_rank hg]
  rfl

theorem est_on_rank (ts : Trajs) (lag : Nat) (hlag : 1 ≤ lag) (flag : Bool) :
    Gen.StateTrajEst.estimate_markov_model (rankTrajs ts) (states ts) (lag : Int) flag
      = .ok (microT ts lag, states ts) := by
  unfold Gen.StateTrajEst.estimate_markov_model
  rw [List.map_id']
  show (Gen.MsmEstimate.estimate_markov_model_perm (rankTrajs ts) (lag : Int) (((states ts).length : Nat) : Int) (states ts) flag) = _
  rw [Small.estimate_markov_model_perm_refines _ lag _ hlag (rank_range ts)]
  rfl

theorem microT_wf (ts : Trajs) (lag : Nat) : Bridge.WF (states ts).length (states ts).length (microT ts lag) := by
  obtain ⟨h1, h2⟩ := C01.countMatrix_dims (rankTrajs ts) lag (states ts).length
  unfold microT Msm.rowNormalize
  refine ⟨by rw [List.length_map, h1], ?_⟩
  intro row hrow
  obtain ⟨r, hr, rfl⟩ := List.mem_map.mp hrow
  simp only [List.length_map]
  exact h2 r hr

theorem microT_square (ts : Trajs) (lag : Nat) : Linalg.isSquare (microT ts lag) = true := by
  obtain ⟨h1, h2⟩ := microT_wf ts lag
  unfold Linalg.isSquare
  rw [List.all_eq_true]
  intro r hr
  rw [h2 r hr, h1]
  simp

theorem states_ne_nil {ts : Trajs} (h : ts.flatten ≠ []) : states ts ≠ [] := by
  obtain ⟨x, hx⟩ := List.exists_mem_of_ne_nil _ h
  exact List.ne_nil_of_mem (mem_states.mpr hx)

theorem microT_ne_nil {ts : Trajs} (h : ts.flatten ≠ []) (lag : Nat) : microT ts lag ≠ [] := by
  intro he
  have := (microT_wf ts lag).1
  rw [he] at this
  exact states_ne_nil h (List.eq_nil_of_length_eq_zero this.symm)

theorem lumped_est_unfold (ext_peq : List (List Rat) → Py (List Rat)) (mic : Trajs) (ms asg : List Int) (pos : Bool)
    (lag : Nat) (hlag : 1 ≤ lag) (flag : Bool) :
    Gen.LumpedEst.estimate_markov_model ext_peq (rankTrajs mic) (states mic) ms asg pos (lag : Int) flag
      = (Gen.UtilsTests.is_ergodic (microT mic lag) Linalg.atol >>= fun b =>
          if b then
            (Gen.LumpedAcc.state_assignment_idx ms asg >>= fun t4 =>
              Gen.StateTrajHS.estimate_markov_model ext_peq (states mic) ms asg t4 ((states mic).length : Int) (ms.length : Int) pos
                (microT mic lag) >>= fun t5 => pure (t5, ms))
          else .error .type) := by
  unfold Gen.LumpedEst.estimate_markov_model
  rw [List.map_id']
  have h := Small.estimate_markov_model_perm_refines _ lag _ hlag (rank_range mic) (states mic) flag
  simp only [pyLen] at h ⊢
  rw [h]
  show (Gen.UtilsTests.is_ergodic (microT mic lag) Linalg.atol >>= _) = _
  congr 1
  funext b
  cases b <;> rfl


/-- macro index (position in the ascending macro state list) of every micro state -/
def assignIdx (mic mac : Trajs) : List Nat := (Heap.assignment mic mac).map (rank (states mac))

theorem assignment_length (mic mac : Trajs) : (Heap.assignment mic mac).length = (states mic).length := by
  simp [Heap.assignment]

theorem lumped_est_ergodic (ext_peq : List (List Rat) → Py (List Rat)) (mic mac : Trajs) (pos : Bool)
    (lag : Nat) (hlag : 1 ≤ lag) (flag : Bool) (hne : mic.flatten ≠ [])
    (hsub : ∀ a ∈ Heap.assignment mic mac, a ∈ states mac) (hsup : ∀ m ∈ states mac, m ∈ Heap.assignment mic mac)
    (hga : ∀ a ∈ Heap.assignment mic mac, -536870912 ≤ a ∧ a ≤ 536870912) (hsize : (states mac).length ≤ 1073741825)
    (herg : Linalg.isErgodic (microT mic lag) = true)
    (pi : List Rat) (hstat : Linalg.stationary (microT mic lag) = some pi) (hpeq : ext_peq (microT mic lag) = .ok pi) :
    Gen.LumpedEst.estimate_markov_model ext_peq (rankTrajs mic) (states mic) (states mac) (Heap.assignment mic mac) pos
        (lag : Int) flag
      = (match Linalg.hsProject (microT mic lag) (assignIdx mic mac) (states mac).length pos with
         | some M => .ok (M, states mac) | none => .error .other) := by
  have hasg : Heap.assignment mic mac ≠ [] := by
    intro he
    have := assignment_length mic mac
    rw [he] at this
    exact states_ne_nil hne (List.eq_nil_of_length_eq_zero this.symm)
  rw [lumped_est_unfold _ _ _ _ _ _ hlag, Ergodic.is_ergodic_refines _ (microT_ne_nil hne lag) (microT_square mic lag), herg]
  show (Gen.LumpedAcc.state_assignment_idx _ _ >>= _) = _
  rw [Accessors.lumped_state_assignment_idx_refines _ _ (states_nodup mac) hasg hsub hsup hga hsize]
  show (Gen.StateTrajHS.estimate_markov_model _ _ _ _ _ _ _ _ _ >>= _) = _
  rw [HS.hs_refines ext_peq (states mic) (states mac) (Heap.assignment mic mac) _ (assignIdx mic mac)
    (states mic).length (states mac).length pos (microT mic lag) pi (microT_wf mic lag) rfl rfl (states_nodup mac)
    (by simp [assignIdx, assignment_length]) ?_ ?_ ?_ hstat hpeq]
  · cases Linalg.hsProject (microT mic lag) (assignIdx mic mac) (states mac).length pos <;> rfl
  · intro s hs
    obtain ⟨a, ha, rfl⟩ := List.mem_map.mp hs
    exact rank_lt (hsub a ha)
  · unfold assignIdx
    rw [List.map_map]
    conv_lhs => rw [← List.map_id (Heap.assignment mic mac)]
    apply List.map_congr_left
    intro a ha
    have := labelOf_rank' (hsub a ha)
    simp only [labelOf, Int.toNat_natCast] at this
    simp only [Function.comp_apply, id_eq, this]
  · unfold assignIdx
    rw [List.map_map]
    rfl


theorem lumped_est_not_ergodic (ext_peq : List (List Rat) → Py (List Rat)) (mic : Trajs) (ms asg : List Int) (pos : Bool)
    (lag : Nat) (hlag : 1 ≤ lag) (flag : Bool) (hne : mic.flatten ≠ [])
    (herg : Linalg.isErgodic (microT mic lag) = false) :
    Gen.LumpedEst.estimate_markov_model ext_peq (rankTrajs mic) (states mic) ms asg pos (lag : Int) flag
      = .error .type := by
  rw [lumped_est_unfold _ _ _ _ _ _ hlag, Ergodic.is_ergodic_refines _ (microT_ne_nil hne lag) (microT_square mic lag), herg]
  rfl

theorem lumped_est_oracle_error (ext_peq : List (List Rat) → Py (List Rat)) (mic mac : Trajs) (pos : Bool)
    (lag : Nat) (hlag : 1 ≤ lag) (flag : Bool) (hne : mic.flatten ≠ [])
    (hsub : ∀ a ∈ Heap.assignment mic mac, a ∈ states mac) (hsup : ∀ m ∈ states mac, m ∈ Heap.assignment mic mac)
    (hga : ∀ a ∈ Heap.assignment mic mac, -536870912 ≤ a ∧ a ≤ 536870912) (hsize : (states mac).length ≤ 1073741825)
    (herg : Linalg.isErgodic (microT mic lag) = true)
    (e : Err) (hpeq : ext_peq (microT mic lag) = .error e) :
    Gen.LumpedEst.estimate_markov_model ext_peq (rankTrajs mic) (states mic) (states mac) (Heap.assignment mic mac) pos
        (lag : Int) flag = .error e := by
  have hasg : Heap.assignment mic mac ≠ [] := by
    intro he
    have := assignment_length mic mac
    rw [he] at this
    exact states_ne_nil hne (List.eq_nil_of_length_eq_zero this.symm)
  rw [lumped_est_unfold _ _ _ _ _ _ hlag, Ergodic.is_ergodic_refines _ (microT_ne_nil hne lag) (microT_square mic lag), herg]
  show (Gen.LumpedAcc.state_assignment_idx _ _ >>= _) = _
  rw [Accessors.lumped_state_assignment_idx_refines _ _ (states_nodup mac) hasg hsub hsup hga hsize]
  show (Gen.StateTrajHS.estimate_markov_model _ _ _ _ _ _ _ _ _ >>= _) = _
  rw [HS.hs_oracle_error _ _ _ _ _ _ _ _ _ e hpeq]
  rfl

/-- with macro and micro data of the same shape every assigned label is a macro state -/
theorem assignment_mem {mic mac : Trajs} (hshape : mac.map List.length = mic.map List.length) :
    ∀ a ∈ Heap.assignment mic mac, a ∈ states mac := by
  have hl : mac.flatten.length = mic.flatten.length := by
    rw [List.length_flatten, List.length_flatten, hshape]
  intro a ha
  unfold Heap.assignment at ha
  obtain ⟨s, hs, rfl⟩ := List.mem_map.mp ha
  have hlt : mic.flatten.idxOf s < mac.flatten.length := hl ▸ List.idxOf_lt_length_of_mem (mem_states.mp hs)
  rw [mem_states, List.getD_eq_getElem?_getD, List.getElem?_eq_getElem hlt]
  exact List.getElem_mem _

/-! consistent lumping -/

theorem consistent_facts {mic mac : Trajs} {f : Int → Int} (hf : mac = mic.map (·.map f)) (hguardM : LabelGuard mac) :
    Heap.assignment mic mac = (states mic).map f ∧
    (∀ a ∈ Heap.assignment mic mac, a ∈ states mac) ∧ (∀ m ∈ states mac, m ∈ Heap.assignment mic mac) ∧
    (∀ a ∈ Heap.assignment mic mac, -536870912 ≤ a ∧ a ≤ 536870912) := by
  have hasg := Heap.assignment_of_consistent mic f
  rw [← hf] at hasg
  have hsub : ∀ a ∈ Heap.assignment mic mac, a ∈ states mac := by
    rw [hasg]
    intro a ha
    obtain ⟨s, hs, rfl⟩ := List.mem_map.mp ha
    rw [mem_states, hf, ← List.map_flatten]
    exact List.mem_map.mpr ⟨s, mem_states.mp hs, rfl⟩
  refine ⟨hasg, hsub, ?_, ?_⟩
  · rw [hasg]
    intro m hm
    rw [mem_states, hf, ← List.map_flatten] at hm
    obtain ⟨s, hs, rfl⟩ := List.mem_map.mp hm
    exact List.mem_map.mpr ⟨s, mem_states.mpr hs, rfl⟩
  · intro a ha
    exact hguardM a (mem_states.mp (hsub a ha))

theorem assignIdx_consistent {mic mac : Trajs} {f : Int → Int} (hf : mac = mic.map (·.map f)) :
    assignIdx mic mac = (states mic).map (fun s => rank (states mac) (f s)) := by
  have hasg := Heap.assignment_of_consistent mic f
  rw [← hf] at hasg
  unfold assignIdx
  rw [hasg, List.map_map]
  rfl


theorem of_estimate {ts : Trajs} (hg : LabelGuard ts) {lag : Nat} {c : Msm.NatMat} {T : Msm.RatMat} {ss : List Int}
    (h : Msm.estimate ts lag = .ok (c, T, ss)) : T = microT ts lag ∧ ss = states ts := by
  rw [estimate_eq hg, Except.ok.injEq, Prod.mk.injEq, Prod.mk.injEq] at h
  exact ⟨h.2.1.symm, h.2.2.symm⟩

/-- the estimator on the object state of a relabelled set: same matrix, the given state list passed through -/
theorem est_on_rank_perm (ts : Trajs) (perm : List Int) (hperm : perm.length = (states ts).length) (lag : Nat) (hlag : 1 ≤ lag)
    (flag : Bool) :
    Gen.StateTrajEst.estimate_markov_model (rankTrajs ts) perm (lag : Int) flag = .ok (microT ts lag, perm) := by
  unfold Gen.StateTrajEst.estimate_markov_model
  rw [List.map_id']
  show (Gen.MsmEstimate.estimate_markov_model_perm (rankTrajs ts) (lag : Int) ((perm.length : Nat) : Int) perm flag) = _
  rw [hperm, Small.estimate_markov_model_perm_refines _ lag _ hlag (rank_range ts)]
  rfl

/-! ### an ergodic micro model has unit row sums and a stationary vector -/

theorem microT_eq_specT {ts : Trajs} (hg : LabelGuard ts) (lag : Nat) (hlag : 1 ≤ lag) : microT ts lag = Msm.specT ts lag := by
  have h := C01.model_meets_spec ts lag hlag hg
  rw [estimate_eq hg, Except.ok.injEq, Prod.mk.injEq, Prod.mk.injEq] at h
  exact h.2.1

theorem specT_nonneg (ts : Trajs) (lag : Nat) : Linalg.NonNeg (Msm.specT ts lag) := by
  intro r hr x hx
  unfold Msm.specT at hr
  obtain ⟨a, -, rfl⟩ := List.mem_map.mp hr
  obtain ⟨b, -, rfl⟩ := List.mem_map.mp hx
  exact Msm.T_nonneg ts lag a b

theorem specT_row (ts : Trajs) (lag : Nat) : ∀ r ∈ Msm.specT ts lag, r.sum = 1 ∨ ∀ x ∈ r, x = 0 := by
  intro r hr
  unfold Msm.specT at hr
  obtain ⟨a, -, rfl⟩ := List.mem_map.mp hr
  by_cases h0 : Msm.rowTotal ts lag a = 0
  · right
    intro x hx
    obtain ⟨b, -, rfl⟩ := List.mem_map.mp hx
    unfold Msm.T
    rw [if_pos h0]
  · left
    rw [C01.row_sum, if_neg h0]

theorem first_step {b : List (List Bool)} {k i j : Nat} (h : Linalg.Walk b (k + 1) i j) : ∃ l, Linalg.bent b i l = true := by
  induction k generalizing j with
  | zero =>
    obtain ⟨l, hl, hb⟩ := h
    have : i = l := hl
    subst this
    exact ⟨j, hb⟩
  | succ k ih =>
    obtain ⟨l, hl, -⟩ := h
    exact ih hl

theorem rows_of_ergodic {T : Linalg.Mat} (p : Linalg.NonNeg T) (hrow : ∀ r ∈ T, r.sum = 1 ∨ ∀ x ∈ r, x = 0)
    (h : Linalg.isErgodic T = true) : ∀ r ∈ T, r.sum = 1 := by
  intro r hr
  rcases hrow r hr with h1 | h0
  · exact h1
  · exfalso
    obtain ⟨i, hi, rfl⟩ := List.getElem_of_mem hr
    have hn := Linalg.two_le_of_isTmat (Linalg.isTmat_of_isErgodic h)
    have hw := Linalg.walk_of_isErgodic p h hi (j := 0) (by omega)
    obtain ⟨l, hl⟩ := first_step (k := (T.length - 1) * (T.length - 1)) hw
    rw [Linalg.bent_support] at hl
    have hne : Linalg.entry T i l ≠ 0 := by simpa using hl
    apply hne
    unfold Linalg.entry
    have hrow_i : T.getD i [] = T[i] := by
      rw [List.getD_eq_getElem?_getD, List.getElem?_eq_getElem hi, Option.getD_some]
    rw [hrow_i, List.getD_eq_getElem?_getD]
    by_cases hl' : l < T[i].length
    · rw [List.getElem?_eq_getElem hl', Option.getD_some]
      exact h0 _ (List.getElem_mem _)
    · rw [List.getElem?_eq_none (by omega)]
      rfl

/-- an ergodic micro model has unit row sums and a stationary vector -/
theorem micro_stationary {ts : Trajs} (hg : LabelGuard ts) (lag : Nat) (hlag : 1 ≤ lag)
    (h : Linalg.isErgodic (microT ts lag) = true) :
    (∀ r ∈ microT ts lag, r.sum = 1) ∧ ∃ pi, Linalg.stationary (microT ts lag) = some pi := by
  rw [microT_eq_specT hg lag hlag] at h ⊢
  have hrows := rows_of_ergodic (specT_nonneg ts lag) (specT_row ts lag) h
  exact ⟨hrows, Linalg.stationary_of_isErgodic (specT_nonneg ts lag) hrows h⟩

end MsmVerif.Refine.Public
