/-
Props/C09.lean — property theorems for C09 (`msm/tests.py`: Chapman–Kolmogorov test — time grids, matrix powers, curves).
Helper lemmas live in Lemmas/Misc.lean.

Model of the code (`Model/Timescales.lean`, `Model/Linalg.lean`): `ckTimes lag tmax` is `_calc_times`
(`lagtime * arange(1, floor(tmax / lagtime) + 1)`), `pow T k` is `np.linalg.matrix_power` over exact rationals,
`ckCurves T lag tmax` holds for every state `s` the diagonal entries `(T^k)_{ss}`, `k = 1 … tmax / lag`, and
`refGridOk` is the oracle's predicate on the reference time grid.
-/
import MsmVerif.Lemmas.Misc

namespace MsmVerif.C09
open MsmVerif MsmVerif.Timescales MsmVerif.Linalg MsmVerif.Misc

/-! ### 1. the time grid -/

/-- For a lag time `≥ 1` the grid is exactly `[lag, 2·lag, …, (tmax / lag)·lag]`: it has `tmax / lag` entries, the
`k`-th one (counted from 0) is `(k+1)·lag`, every entry is a multiple of the lag time with `lag ≤ t ≤ tmax`, the grid
is strictly increasing, and the next multiple `(tmax / lag + 1)·lag` no longer fits below `tmax`. -/
theorem times (lag tmax : Nat) (hlag : 1 ≤ lag) :
    (ckTimes lag tmax).length = tmax / lag ∧
    (∀ k (hk : k < (ckTimes lag tmax).length), (ckTimes lag tmax)[k] = (k + 1) * lag) ∧
    (∀ t ∈ ckTimes lag tmax, t ≤ tmax ∧ lag ∣ t ∧ lag ≤ t) ∧
    (ckTimes lag tmax).Pairwise (· < ·) ∧
    tmax < (tmax / lag + 1) * lag :=
  ⟨ckTimes_length lag tmax, ckTimes_getElem lag tmax, fun _ ht => ckTimes_mem_bounds ht,
    ckTimes_pairwise lag tmax hlag, ckTimes_next_gt lag tmax hlag⟩

/-- The grid is empty exactly when not even one lag time fits (`tmax < lag`). -/
theorem times_nil (lag tmax : Nat) (hlag : 1 ≤ lag) : ckTimes lag tmax = [] ↔ tmax < lag :=
  ckTimes_eq_nil lag tmax hlag

example : ckTimes 3 10 = [3, 6, 9] := by decide
example : ckTimes 3 2 = [] := by decide

/-! ### 2. powers of a sub-stochastic matrix -/

/-- For an `n × n` matrix with non-negative entries whose rows each sum to at most one (sub-stochastic; all-zero rows,
as produced for unvisited states, are allowed) every power `T^k`, `k ≥ 0`, is again `n × n`, all of its entries lie in
`[0, 1]` (also `entry`'s default `0` outside the matrix) and each of its rows sums to at most one. -/
theorem pow_unit (T : Mat) (n : Nat) (hlen : T.length = n) (hrows : ∀ r ∈ T, r.length = n)
    (h0 : ∀ r ∈ T, ∀ v ∈ r, 0 ≤ v) (h1 : ∀ r ∈ T, r.sum ≤ 1) (k : Nat) :
    (∀ i j, 0 ≤ entry (pow T k) i j ∧ entry (pow T k) i j ≤ 1) ∧
    (∀ r ∈ pow T k, r.sum ≤ 1) ∧
    (pow T k).length = n ∧ (∀ r ∈ pow T k, r.length = n) := by
  have h := subStoch_pow (n := n) (T := T) ⟨hlen, hrows, h0, h1⟩ k
  exact ⟨subStoch_entry_unit h, h.2.2.2, h.1, h.2.1⟩

example : SubStoch 3 [[1/2, 1/2, 0], [1/4, 1/4, 1/2], [0, 0, 0]] := by
  refine ⟨by decide, by decide, by decide +kernel, by decide +kernel⟩
example : pow [[1/2, 1/2, 0], [1/4, 1/4, 1/2], [0, 0, 0]] 2 = [[3/8, 3/8, 1/4], [3/16, 3/16, 1/8], [0, 0, 0]] := by
  decide +kernel

/-! ### 3. shape and values of the curves -/

/-- There is one curve per state (row of `T`), every curve has one value per grid time, and the `k`-th value of the
curve of state `s` is the diagonal entry `(T^(k+1))_{ss}`. -/
theorem curves_shape (T : Mat) (lag tmax : Nat) :
    (ckCurves T lag tmax).length = T.length ∧
    (∀ c ∈ ckCurves T lag tmax, c.length = (ckTimes lag tmax).length) ∧
    (∀ s k (hs : s < (ckCurves T lag tmax).length) (hk : k < ((ckCurves T lag tmax)[s]).length),
      ((ckCurves T lag tmax)[s])[k] = entry (pow T (k + 1)) s s) :=
  ⟨ckCurves_length T lag tmax, ckCurves_curve_length T lag tmax, ckCurves_getElem T lag tmax⟩

example : ckCurves [[1/2, 1/2], [1/4, 3/4]] 2 5 = [[1/2, 3/8], [3/4, 11/16]] := by decide +kernel

/-! ### 4. the reference grid predicate -/

/-- Readable form of the oracle's grid predicate: the grid starts with `tmin`, never exceeds `tmax` and is strictly
increasing (every earlier entry is smaller than every later one). -/
theorem refGrid (times : List Nat) (tmin tmax : Nat) :
    refGridOk times tmin tmax = true ↔
      times.head? = some tmin ∧ (∀ t ∈ times, t ≤ tmax) ∧ times.Pairwise (· < ·) :=
  refGridOk_iff times tmin tmax

example : refGridOk [1, 2, 5, 10] 1 10 = true := by decide
example : refGridOk [1, 5, 2] 1 10 = false := by decide

end MsmVerif.C09
