"""Translator validation: the TRANSLATED kernels (lean/MsmVerif/Gen/*.lean, produced by py2lean.py from the working tree) are run
on the same inputs as the REAL numba kernels (compiled dispatchers, and their `.py_func` for inputs that would be undefined
behaviour when compiled) and the results are compared exactly (floats: 1e-12).

This is what ties "what the translator says the Python means" to CPython/numba.  It runs inside the check of every property that
owns refinement theorems (see KERNELS_OF) and its counts go into the evidence (`translator_validation`).
A disagreement is a broken correspondence (never by itself a violation): the check then searches for a failing input.
"""
import json
import os
import subprocess
import sys
from fractions import Fraction

import core

# property -> (Gen module, [kernels])
KERNELS_OF = {
    'C01': [('MsmMsm', ['_generate_transition_count_matrix'])],
    'C11': [('MsmMsm', ['_generate_transition_count_matrix'])],
    'C05': [('MdCorrections', ['_remains_in_core', '_find_first_core', '_dynamical_coring_single_traj',
                               '_dynamical_coring_single_lagtime', '_dynamical_coring'])],
    'C06': [('MdTimescales', ['_estimate_events_singletraj', '_estimate_waiting_times_singletraj', '_estimate_waiting_times',
                              '_estimate_paths_singletraj', '_estimate_paths']),
            ('MdComparison', ['_intersect'])],
    'C07': [('MsmTimescales', ['_propagate_MCMC_step', '_propagate_MCMC'])],
    'C08': [('MsmTimescales', ['_estimate_waiting_times', '_estimate_transition_times'])],
    'C13': [('MdComparison', ['_intersect', '_intersect_array', '_compare_trajs_symmetric', '_compare_trajs_directed'])],
    'C12': [('UtilsUtils', ['find_first'])],
}
# array dialect (harness/np2lean.py): numpy-vectorised functions
NP_OF = {
    'C14': [('UtilsTests', ['is_quadratic', 'is_transition_matrix', 'is_ergodic', 'is_fuzzy_ergodic', 'ergodic_mask'])],
    'C04': [('UtilsTests', ['is_ergodic', 'ergodic_mask']), ('MsmNorm', ['row_normalize_matrix', 'equilibrium_population'])],
    'C01': [('StateTrajEst', ['estimate_markov_model']), ('StateTrajInit', ['init']), ('MsmNorm', ['row_normalize_matrix']), ('MsmEstimate', ['estimate_markov_model_perm', 'estimate_markov_model_default'])],
    'C03': [('StateTrajHS', ['_estimate_markov_model']), ('MsmNorm', ['row_normalize_matrix']), ('LumpedEst', ['estimate_markov_model'])],
    'C09': [('MsmTests', ['_calc_times', '_chapman_kolmogorov_test', '_chapman_kolmogorov_test_md']), ('MsmCkApi', ['chapman_kolmogorov_test'])],
    'C19': [('PlotCkTest', ['_split_array'])],
    'C05': [('MdCoringApi', ['dynamical_coring'])],
    'C20': [('UtilsFiltering', ['runningmean']), ('UtilsGauss', ['gaussian_filter_1d', 'gaussian_filter_2d', 'gaussian_filter_3d'])],
    'C15': [('UtilsRelabel', ['unique', 'unique_counts', 'shift_data', 'shift_data_1d', 'rename_by_index', 'rename_by_population'])],
    'C02': [('StateTrajInit', ['init']), ('StateTrajAcc', ['states', 'nstates', 'ntrajs', 'nframes', 'index_trajs', 'index_trajs_flatten', 'trajs', 'trajs_flatten']),
            ('LumpedAcc', ['microstate_trajs', 'microstate_trajs_flatten', 'state_assignment_idx', 'trajs', 'index_trajs', 'init'])],
    'C17': [('StateTrajInit', ['init']), ('UtilsRelabel', ['rename_by_index']),
            ('MdCompareApi', ['compare_discretization_symmetric', 'compare_discretization_directed'])],
    'C16': [('IoLimits', ['open_limits_file', 'open_limits_none']), ('UtilsSwap', ['_asindex', 'swapcols']),
            ('IoOpen', ['opentxt_cols_1d', 'opentxt_cols_2d', 'opentxt_all_1d', 'opentxt_all_2d',
                        'opentxt_limits_1d_none', 'opentxt_limits_1d_file', 'opentxt_limits_2d_none', 'opentxt_limits_2d_file',
                        'openmicrostates_default_1d_none', 'openmicrostates_default_1d_file', 'openmicrostates_default_2d_none',
                        'openmicrostates_default_2d_file', 'openmicrostates_int_1d_none', 'openmicrostates_int_1d_file', 'openmicrostates_nonint_1d_none'])],
    'C06': [('MdTimesApi', ['estimate_waiting_times', 'estimate_paths'])],
    'C13': [('MdCompareApi', ['compare_discretization_symmetric', 'compare_discretization_directed', 'compare_discretization_api_symmetric',
                              'compare_discretization_api_directed', 'compare_discretization_api_other'])],
    'C07': [('MsmCummat', ['_get_cummat']), ('MsmMcmcApi', ['propagate_MCMC']), ('UtilsDatasets', ['propagate_tmat_start', 'propagate_tmat_random'])],
    'C08': [('MsmCummat', ['_get_cummat']), ('MsmTimes', ['estimate_times_list', 'estimate_times_hist']), ('StateTrajBase', ['state_to_idx']),
            ('MsmTimesApi', ['estimate_waiting_times_list', 'estimate_waiting_times_hist', 'estimate_transition_times_list', 'estimate_transition_times_hist',
                             'estimate_paths'])],
    'C10': [('MsmLinalg', ['eigenvectors_n', 'eigenvectors_all', 'eigenvalues_n', 'eigenvalues_all', 'left_eigenvectors_n', 'left_eigenvectors_all',
                           'right_eigenvectors_n', 'right_eigenvectors_all', 'left_eigenvalues_n', 'left_eigenvalues_all', 'right_eigenvalues_n',
                           'right_eigenvalues_all']),
            ('MsmIts', ['_implied_timescales', 'implied_timescales_default', 'implied_timescales_n'])],
}
# every public function that accepts raw trajectories goes through the StateTraj constructor: its translation is validated (and its being translatable
# is an obligation) for those properties too
for _pid in ('C05', 'C06', 'C07', 'C08', 'C09', 'C10', 'C11', 'C13'):
    if not any(m == 'StateTrajInit' for m, _k in NP_OF.get(_pid, [])):
        NP_OF.setdefault(_pid, []).append(('StateTrajInit', ['init']))
for _pid, _mods in NP_OF.items():
    KERNELS_OF.setdefault(_pid, [])
    KERNELS_OF[_pid] = KERNELS_OF[_pid] + _mods
SOURCE_OF = {'MsmMsm': 'msm/msm.py', 'MdCorrections': 'md/corrections.py', 'MdTimescales': 'md/timescales.py',
             'MsmTimescales': 'msm/timescales.py', 'MdComparison': 'md/comparison.py', 'UtilsUtils': 'utils/_utils.py',
             'UtilsTests': 'utils/tests.py', 'MsmNorm': 'msm/msm.py', 'PlotCkTest': 'plot/_ck_test.py', 'MsmTests': 'msm/tests.py',
             'StateTrajHS': 'statetraj.py', 'MsmCummat': 'msm/timescales.py', 'MsmTimes': 'msm/timescales.py', 'StateTrajBase': 'statetraj.py',
             'UtilsRelabel': 'utils/_utils.py', 'StateTrajInit': 'statetraj.py', 'StateTrajAcc': 'statetraj.py', 'LumpedAcc': 'statetraj.py', 'StateTrajEst': 'statetraj.py', 'LumpedEst': 'statetraj.py', 'MsmEstimate': 'msm/msm.py', 'MsmMcmcApi': 'msm/timescales.py', 'UtilsFiltering': 'utils/filtering.py', 'IoLimits': 'io.py',
             'UtilsDatasets': 'utils/datasets.py', 'MsmCkApi': 'msm/tests.py', 'MdCompareApi': 'md/comparison.py', 'MdTimesApi': 'md/timescales.py', 'MdCoringApi': 'md/corrections.py',
             'MsmLinalg': 'msm/utils/linalg.py', 'MsmIts': 'msm/timescales.py', 'UtilsSwap': 'utils/_utils.py', 'IoOpen': 'io.py', 'MsmTimesApi': 'msm/timescales.py', 'UtilsGauss': 'utils/filtering.py'}
ATOL = 1e-8
G = 1 << 53


def _traj(rng, n, lo, hi):
    return [rng.randint(lo, hi) for _ in range(n)]


def _sticky(rng, n, k):
    out, cur = [], rng.randrange(k)
    for _ in range(n):
        if rng.random() < 0.45:
            cur = rng.randrange(k)
        out.append(cur)
    return out


def _cummat(rng, n):
    """a plausible (cummat_perm, state_perm) pair of float64 / int64 arrays, as exact dyadic rationals"""
    import numpy as np
    cum, perm = [], []
    for _ in range(n):
        w = [rng.random() if rng.random() < 0.7 else 0.0 for _ in range(n)]
        if sum(w) == 0:
            w[rng.randrange(n)] = 1.0
        row = np.array(w) / sum(w)
        order = np.argsort(row)[::-1]
        c = np.cumsum(row[order])
        npos = int(np.count_nonzero(row))
        c[npos - 1:] = 1
        cum.append([float(v) for v in c])
        perm.append([int(v) for v in order])
    return cum, perm


def gen_cases(module, kernel, rng, n):
    """yields {'k', 'args' (JSON for the Gen driver), 'mode': 'jit'|'py', extras}"""
    for _ in range(n):
        if kernel == '_generate_transition_count_matrix':
            ns = rng.randint(1, 5)
            trajs = [_traj(rng, rng.randint(0, 9), 0, ns - 1) for _ in range(rng.randint(1, 4))]
            lag = rng.randint(1, 6)
            if rng.random() < 0.15:      # out-of-range index: IndexError in Python, UB when compiled
                t = rng.choice(trajs)
                if t:
                    t[rng.randrange(len(t))] = rng.choice([ns, ns + 1, -ns - 1, -1])
                yield {'k': kernel, 'args': [trajs, lag, ns], 'mode': 'py'}
            else:
                yield {'k': kernel, 'args': [trajs, lag, ns], 'mode': rng.choice(['jit', 'py'])}
        elif kernel == '_remains_in_core':
            t = _sticky(rng, rng.randint(1, 10), 3)
            lag = rng.randint(1, 6)
            if rng.random() < 0.15:
                yield {'k': kernel, 'args': [rng.randint(-len(t) - 2, len(t) + 2), t, rng.randint(0, 6), rng.random() < 0.5], 'mode': 'py'}
            else:
                yield {'k': kernel, 'args': [rng.randrange(len(t)), t, lag, rng.random() < 0.5], 'mode': rng.choice(['jit', 'py'])}
        elif kernel == '_find_first_core':
            t = _sticky(rng, rng.randint(0, 10), 3) if rng.random() < 0.8 else _traj(rng, rng.randint(1, 8), -2, 2)
            yield {'k': kernel, 'args': [t, rng.randint(1, 6)], 'mode': 'jit' if t else 'py'}
        elif kernel == '_dynamical_coring_single_traj':
            t = _sticky(rng, rng.randint(1, 12), 3)
            yield {'k': kernel, 'args': [t, rng.randint(1, 5), rng.random() < 0.5], 'mode': rng.choice(['jit', 'py'])}
        elif kernel in ('_dynamical_coring_single_lagtime', '_dynamical_coring'):
            ts = [_sticky(rng, rng.randint(1, 12), 3) for _ in range(rng.randint(1, 3))]
            yield {'k': kernel, 'args': [ts, rng.randint(1, 5), rng.random() < 0.5], 'mode': 'jit'}
        elif kernel in ('_estimate_events_singletraj', '_estimate_waiting_times_singletraj', '_estimate_paths_singletraj'):
            t = _traj(rng, rng.randint(1, 14), 0, 4)
            S, F = _sf(rng)
            yield {'k': kernel, 'args': [t, S, F], 'mode': rng.choice(['jit', 'py'])}
        elif kernel in ('_estimate_waiting_times', '_estimate_paths') and module == 'MdTimescales':
            ts = [_traj(rng, rng.randint(1, 12), 0, 4) for _ in range(rng.randint(1, 3))]
            S, F = _sf(rng)
            yield {'k': kernel, 'args': [ts, S, F], 'mode': 'jit'}
        elif kernel == '_intersect':
            a = sorted(set(_traj(rng, rng.randint(0, 8), 0, 12)))
            b = sorted(set(_traj(rng, rng.randint(0, 8), 0, 12)))
            yield {'k': kernel, 'args': [a, b], 'fuel': len(a) + len(b) + rng.randint(0, 2), 'mode': 'jit' if (a and b) else 'py'}
        elif kernel == '_intersect_array':
            A = [sorted(set(_traj(rng, rng.randint(1, 6), 0, 10))) for _ in range(rng.randint(1, 3))]
            B = [sorted(set(_traj(rng, rng.randint(1, 6), 0, 10))) for _ in range(rng.randint(1, 3))]
            yield {'k': kernel, 'args': [A, B], 'fuel': 40, 'mode': 'jit'}
        elif kernel in ('_compare_trajs_symmetric', '_compare_trajs_directed'):
            n1, n2, N = rng.randint(1, 4), rng.randint(1, 4), rng.randint(1, 12)
            f1, f2 = _traj(rng, N, 0, n1 - 1), _traj(rng, N, 0, n2 - 1)
            i12 = [[rng.randint(0, 8) / 8 for _ in range(n2)] for _ in range(n1)]
            i21 = [[rng.randint(0, 8) / 8 for _ in range(n1)] for _ in range(n2)]
            yield {'k': kernel, 'args': [f1, f2, _ratmat(i12), _ratmat(i21)], 'floats': [i12, i21], 'mode': 'jit'}
        elif kernel == 'find_first':
            a = _traj(rng, rng.randint(0, 8), -2, 3)
            yield {'k': kernel, 'args': [rng.randint(-2, 3), a], 'mode': 'jit' if a else 'py'}
        elif kernel in ('_propagate_MCMC_step', '_propagate_MCMC', '_estimate_waiting_times', '_estimate_transition_times'):
            n = rng.randint(1, 5)
            cum, perm = _cummat(rng, n)
            nd = rng.randint(1, 40)
            ks = []
            for _i in range(nd + 2):
                r = rng.random()
                if r < 0.5:
                    row = rng.choice(cum)
                    c = Fraction(rng.choice(row))
                    k = int(c * G) + rng.choice([-1, 0, 1])
                    ks.append(min(max(k, 0), G - 1))
                else:
                    ks.append(rng.randrange(G))
            draws = ['%d/%d' % (k, G) for k in ks]
            cm = [_ratmat(cum), perm]
            start = rng.randrange(n)
            if kernel == '_propagate_MCMC_step':
                yield {'k': kernel, 'args': [cm, start], 'draws': draws[:1], 'ks': ks[:1], 'floats': cum, 'mode': 'jit'}
            elif kernel == '_propagate_MCMC':
                yield {'k': kernel, 'args': [cm, start, nd + 1], 'draws': draws[:nd], 'ks': ks[:nd], 'floats': cum, 'mode': 'jit'}
            else:
                pool = list(range(n))
                rng.shuffle(pool)
                a = rng.randint(0, n)
                S, F = sorted(pool[:a]), sorted(pool[a:a + rng.randint(0, n - a)])
                yield {'k': kernel, 'args': [cm, start, S, F, nd], 'draws': draws[:nd], 'ks': ks[:nd], 'floats': cum, 'mode': 'jit'}
        elif module == 'UtilsTests':
            m = _np_matrix(rng)
            if m is None:
                continue
            atol = ATOL if rng.random() < 0.85 else rng.choice([1e-3, 0.2, 1e-10])
            args = [_ratmat(m)] if kernel == 'is_quadratic' else [_ratmat(m), core.rat_str(atol)]
            yield {'k': kernel, 'args': args, 'floats': m, 'atol': atol, 'mode': 'py'}
        elif module == 'MsmNorm' and kernel == 'equilibrium_population':
            m = None
            while m is None or len(m) != len(m[0]) or len(m) < 2:
                m = _np_matrix(rng)
            yield {'k': kernel, 'args': None, 'floats': m, 'allow': rng.random() < 0.75, 'mode': 'py'}
        elif module == 'MsmNorm':
            r_, c_ = rng.randint(1, 5), rng.randint(1, 5)
            kind = rng.random()
            if kind < 0.5:
                m = [[float(rng.choice([0, 0, 1, 2, 3, 7, 20])) for _ in range(c_)] for _ in range(r_)]
            elif kind < 0.8:
                # signed entries as multiples of 1/8: the float row sums are exact (no cancellation error to argue about)
                m = [[rng.choice([0.0, rng.randint(1, 16) / 8, -rng.randint(1, 16) / 8]) for _ in range(c_)] for _ in range(r_)]
            else:
                m = [[float(rng.choice([-1, 0, 1])) for _ in range(c_)] for _ in range(r_)]
            yield {'k': kernel, 'args': [_ratmat(m)], 'floats': m, 'mode': rng.choice(['jit', 'py'])}
        elif module == 'PlotCkTest':
            n = rng.randint(0, 24)
            arr = sorted(rng.sample(range(-5, 60), n))
            yield {'k': kernel, 'args': [arr, rng.choice([0, 1, 1, 2, 3, 4, 5, 6, 7, 12, 30])], 'mode': 'py'}
        elif module in ('MsmLinalg', 'MsmIts') and kernel not in ('implied_timescales_default', 'implied_timescales_n'):
            # square (mostly stochastic) float matrices: random dense / sparse, symmetric, cyclic (complex spectrum), with a trap, non-square
            n_ = rng.randint(1, 5)
            form = rng.choice(['dense', 'dense', 'sparse', 'sym', 'cycle', 'cycle_noise', 'signed', 'nonsquare', 'periodic2'])
            import numpy as _np
            if form == 'cycle' or form == 'cycle_noise':
                n_ = max(n_, 3)
                m = _np.roll(_np.eye(n_), 1, axis=1)
                if form == 'cycle_noise':
                    m = 0.75 * m + 0.25 * _np.array([[rng.random() for _ in range(n_)] for _ in range(n_)])
            elif form == 'periodic2':
                n_ = 2
                m = _np.array([[0.0, 1.0], [1.0, 0.0]])
            else:
                m = _np.array([[rng.random() if (form != 'sparse' or rng.random() < 0.5) else 0.0 for _ in range(n_)] for _ in range(n_)])
                if form == 'sym':
                    m = m + m.T
                if form == 'signed':
                    m = m - 0.5
                if form == 'nonsquare':
                    m = m[:, : max(1, n_ - 1)] if n_ > 1 else _np.array([[0.5, 0.5]])
            if form != 'signed':
                rs = m.sum(axis=1, keepdims=True)
                rs[rs == 0] = 1
                m = m / rs
            nv = rng.randint(1, n_) if rng.random() < 0.9 else n_ + 1
            c_ = {'k': kernel, 'args': None, 'floats': m.tolist(), 'nvals': nv, 'lag': rng.choice([1, 2, 5, 10]), 'mode': 'py', 'form': form}
            yield c_
        elif module == 'MsmIts':
            ns_ = rng.choice([1, 2, 2, 3, 3, 3, 4, 4])
            labs = sorted(rng.sample(range(-5, 30), ns_))
            if rng.random() < 0.3 and ns_ >= 3:
                t = [labs[i % ns_] for i in range(rng.randint(8, 20))]          # a cyclic walk: complex eigenvalues
            else:
                t = [labs[i] for i in _sticky(rng, rng.randint(8, 24), ns_)]
            for l_ in labs:
                if l_ not in t:
                    t.append(l_)
            lags = [rng.randint(1, 4) for _ in range(rng.randint(1, 3))]
            if rng.random() < 0.08:
                lags[rng.randrange(len(lags))] = rng.choice([0, -1])
            nts = (rng.randint(1, max(1, ns_ - 1)) if rng.random() < 0.85 else rng.choice([0, ns_, -1])) if kernel == 'implied_timescales_n' else None
            yield {'k': kernel, 'args': None, 'trajs': [t], 'lags': lags, 'nts': nts, 'reversible': rng.random() < 0.05, 'mode': 'py'}
        elif module == 'MsmCkApi':
            ns_ = rng.randint(2, 3)
            labs = sorted(rng.sample(range(-5, 30), ns_))
            t = [labs[i] for i in _sticky(rng, rng.randint(8, 20), ns_)]
            for l_ in labs:
                if l_ not in t:
                    t.append(l_)
            lags = rng.sample([1, 2, 3, 4], rng.randint(1, 3))
            if rng.random() < 0.1:
                lags = lags + [0]
            yield {'k': kernel, 'args': None, 'trajs': [t], 'lags': lags, 'tmax': rng.choice([-1, 2, 5, 9, 14]), 'mode': 'py'}
        elif module == 'MsmTests' and kernel != '_calc_times':
            ns_ = rng.randint(2, 3)
            labs = sorted(rng.sample(range(-5, 30), ns_))
            t = [labs[i] for i in _sticky(rng, rng.randint(8, 20), ns_)]
            for l_ in labs:
                if l_ not in t:
                    t.append(l_)
            lag = rng.randint(1, 3)
            yield {'k': kernel, 'args': None, 'trajs': [t], 'lag': lag, 'tmax': rng.randint(lag, 14), 'steps': rng.choice([3, 5, 30]), 'mode': 'py'}
        elif module == 'MsmTests':
            yield {'k': kernel, 'args': [rng.choice([0, 1, 1, 2, 3, 4, 5, 7, 10, 25]), rng.randint(0, 80)], 'mode': 'py'}
        elif module in ('MdCompareApi', 'MdTimesApi', 'MdCoringApi'):
            ns_ = rng.randint(1, 5)
            labs = sorted(rng.sample(range(-6, 30), ns_))
            trajs = [[labs[i] for i in _sticky(rng, rng.randint(1, 14), ns_)] for _ in range(rng.randint(1, 3))]
            if module == 'MdCompareApi':
                other = [[(x * 7 + 3) % rng.choice([2, 3, 4]) for x in t] for t in trajs]
                if 'api' in kernel:
                    r_ = rng.random()
                    if r_ < 0.15:
                        other = [o[:-1] for o in other if len(o) > 1] or [[0, 1]]          # unequal frame counts
                    elif r_ < 0.3:
                        other = [[5 for _ in t] for t in other]                               # a single-state labeling
                yield {'k': kernel, 'args': None, 't1': trajs, 't2': other, 'mode': 'py'}
            elif module == 'MdTimesApi':
                occ = sorted({x for t in trajs for x in t})
                S = [rng.choice(occ)]
                F = [rng.choice([o for o in occ if o not in S] or [occ[0] + 50])]
                r_ = rng.random()
                if r_ < 0.1:
                    F = F + S
                elif r_ < 0.2:
                    S = S + [max(occ) + 7]
                elif r_ < 0.4 and len(occ) > 2:
                    S = S + [rng.choice([o for o in occ if o not in F])]
                yield {'k': kernel, 'args': None, 'trajs': trajs, 'S': S, 'F': F, 'mode': 'py'}
            else:
                yield {'k': kernel, 'args': None, 'trajs': trajs, 'lag': rng.choice([-1, 0, 1, 2, 2, 3, 3, 4]), 'iterative': rng.random() < 0.5,
                       'lumped': rng.random() < 0.08, 'mode': 'py'}
        elif module in ('StateTrajEst', 'LumpedEst'):
            ns_ = rng.randint(2, 5)
            labs = sorted(rng.sample(range(-9, 40), ns_))
            micro = [[labs[i] for i in _sticky(rng, rng.randint(10, 40), ns_)] for _ in range(rng.randint(1, 2))]
            nm_ = rng.randint(1, ns_)
            ml = rng.sample(range(-9, 50), nm_)
            asg = [rng.randrange(nm_) for _ in range(ns_)]
            lump = dict(zip(labs, [ml[a_] for a_ in asg]))
            macro = [[lump[x] for x in t] for t in micro]
            yield {'k': kernel, 'args': None, 'micro': micro, 'macro': macro, 'positive': rng.random() < 0.5, 'lag': rng.randint(1, 3), 'mode': 'py'}
        elif module in ('StateTrajAcc', 'LumpedAcc'):
            ns_ = rng.randint(1, 6)
            cls = rng.choice(['zero', 'one', 'gapped', 'negative', 'unsorted'])
            labs = list(range(ns_)) if cls == 'zero' else (list(range(1, ns_ + 1)) if cls == 'one' else rng.sample(range(-40 if cls != 'gapped' else 0, 60), ns_))
            idx = [[rng.randrange(ns_) for _ in range(rng.randint(1, 9))] for _ in range(rng.randint(1, 3))]
            micro = [[labs[i] for i in t] for t in idx]
            nm_ = rng.randint(1, ns_)
            ml = rng.sample(range(-9, 50), nm_) if rng.random() < 0.6 else (list(range(nm_)) if rng.random() < 0.5 else list(range(1, nm_ + 1)))
            asg = [rng.randrange(nm_) for _ in range(ns_)]
            macro = [[ml[asg[i]] for i in t] for t in idx]
            yield {'k': kernel, 'args': None, 'micro': micro, 'macro': macro, 'positive': rng.random() < 0.5, 'mode': 'py'}
        elif module in ('UtilsRelabel', 'StateTrajInit'):
            ns_ = rng.randint(1, 6)
            cls = rng.choice(['zero', 'one', 'gapped', 'negative', 'negative', 'unsorted'])
            if cls == 'zero':
                labs = list(range(ns_))
            elif cls == 'one':
                labs = list(range(1, ns_ + 1))
            else:
                labs = rng.sample(range(-40 if cls != 'gapped' else 0, 60), ns_)
            trajs = [[rng.choice(labs) for _ in range(rng.randint(0 if rng.random() < 0.1 else 1, 10))] for _ in range(rng.randint(1, 3))]
            if not any(trajs):
                trajs[0] = [labs[0]]
            if kernel == 'shift_data_1d':
                trajs = trajs[0] or [labs[0]]
            if kernel in ('shift_data', 'shift_data_1d'):
                occ = sorted({x for t in (trajs if kernel == 'shift_data' else [trajs]) for x in t})
                kind = rng.random()
                if kind < 0.5:
                    old = rng.sample(occ, rng.randint(1, len(occ)))
                    new = old[:]
                    rng.shuffle(new)                         # a permutation of some labels (swaps, cycles)
                elif kind < 0.8:
                    old = rng.sample(occ, rng.randint(1, len(occ)))
                    new = [rng.randint(-30, 90) for _ in old]
                elif kind < 0.9:
                    old = [rng.randint(min(occ) - 5, max(occ) + 5) for _ in range(rng.randint(1, 4))]      # old values that may not occur / lie outside
                    new = [rng.randint(-30, 90) for _ in old]
                else:
                    old = rng.sample(occ, min(2, len(occ)))
                    new = [rng.randint(-5, 5) for _ in range(rng.choice([1, 3]))]                            # length mismatch (one value broadcasts)
                yield {'k': kernel, 'args': [trajs, old, new], 'mode': 'py'}
            elif kernel == 'rename_by_population':
                import numpy as np
                flat = np.concatenate([np.array(t, dtype=np.int64) for t in trajs])
                _u, cnt = np.unique(flat, return_counts=True)
                yield {'k': kernel, 'args': [trajs], 'oracle': {'argsort': [int(i) for i in np.argsort(cnt)]}, 'mode': 'py'}
            else:
                yield {'k': kernel, 'args': [trajs], 'mode': 'py'}
        elif module == 'MsmEstimate':
            ns_ = rng.randint(1, 5)
            trajs = [_traj(rng, rng.randint(0, 12), 0, ns_ - 1) for _ in range(rng.randint(1, 3))]
            if not any(trajs):
                trajs[0] = [0]
            lag = rng.randint(1, 5)
            if kernel.endswith('perm'):
                yield {'k': kernel, 'args': [trajs, lag, ns_, sorted(rng.sample(range(-9, 40), ns_)), False], 'mode': 'py'}
            else:
                yield {'k': kernel, 'args': [trajs, lag, ns_, False], 'mode': 'py'}
        elif module == 'UtilsDatasets':
            m = None
            while m is None or len(m) != len(m[0]):
                m = _np_matrix(rng)
            n_ = len(m)
            if kernel.endswith('start'):
                yield {'k': kernel, 'args': [_ratmat(m), rng.randint(1, 30), rng.randrange(n_)], 'floats': m, 'mode': 'py'}
            else:
                yield {'k': kernel, 'args': [_ratmat(m), rng.randint(1, 30)], 'floats': m, 'oracle': {'randint': rng.randrange(n_)}, 'mode': 'py'}
        elif module == 'MsmMcmcApi':
            labs = sorted(rng.sample(range(-6, 30), rng.randint(1, 6)))
            steps = rng.randint(1, 12)
            chain_idx = [rng.randrange(len(labs)) for _ in range(steps)]
            start = rng.choice(labs + [-1, 44])
            yield {'k': kernel, 'args': [labs, rng.randint(1, 3), steps, start], 'chain': chain_idx, 'mode': 'py'}
        elif module == 'UtilsFiltering':
            n_ = rng.randint(1, 12)
            arr = [rng.randint(-16, 16) / 4 for _ in range(n_)]
            yield {'k': kernel, 'args': [[core.rat_str(v) for v in arr], rng.randint(1, 14)], 'floats': arr, 'mode': 'py'}
        elif module == 'UtilsGauss':
            r_, c_ = rng.randint(1, 8), rng.randint(1, 4)
            sig = rng.choice([0.5, 1.0, 2.0, 3.5])
            if kernel.endswith('1d'):
                arr = [rng.randint(-16, 16) / 4 for _ in range(r_)]
            elif kernel.endswith('2d'):
                arr = [[rng.randint(-16, 16) / 4 for _ in range(c_)] for _ in range(r_)]
            else:
                arr = [[[rng.randint(-4, 4) / 2 for _ in range(rng.choice([1, 2]))] for _ in range(c_)] for _ in range(r_)]
            yield {'k': kernel, 'args': None, 'floats': arr, 'sigma': sig, 'mode': 'py'}
        elif module == 'IoLimits' and kernel == 'open_limits_none':
            yield {'k': kernel, 'args': [rng.randint(0, 50)], 'mode': 'py'}
        elif module == 'UtilsSwap' and kernel == '_asindex':
            yield {'k': kernel, 'args': [[rng.randint(-5, 5) for _ in range(rng.randint(0, 5))]], 'mode': 'py'}
        elif module == 'UtilsSwap':
            r_, c_ = rng.randint(1, 5), rng.randint(1, 5)
            tbl = [[rng.randint(-20, 20) for _ in range(c_)] for _ in range(r_)]
            form = rng.choice(['perm', 'perm', 'subset', 'same', 'unequal', 'range', 'negative', 'dup'])
            old = rng.sample(range(c_), rng.randint(1, c_))
            new = list(old)
            rng.shuffle(new)
            if form == 'subset':
                new = rng.sample(range(c_), len(old))
            elif form == 'same':
                new = list(old)
            elif form == 'unequal':
                new = new + [0]
            elif form == 'range':
                old[rng.randrange(len(old))] = c_ + rng.randint(0, 1)
            elif form == 'negative':
                old[rng.randrange(len(old))] -= c_
            elif form == 'dup' and len(old) > 1:
                old[0] = old[1]
            yield {'k': kernel, 'args': [tbl, old, new], 'mode': 'py'}
        elif module == 'IoOpen':
            r_ = rng.randint(1, 7)
            one = ('_1d' in kernel) != (rng.random() < 0.08)          # a few inputs violate the guarded assumption of the specialisation
            filec = rng.randint(1, 5)
            tbl = [[rng.randint(-300, 300) for _ in range(filec)] for _ in range(r_)]
            c_ = {'k': kernel, 'args': None, 'table': tbl, 'mode': 'py'}
            if kernel.startswith('opentxt_cols'):
                k_ = 1 if one else (rng.randint(2, filec) if filec > 1 else 1)
                c_['usecols'] = rng.sample(range(filec), k_)
                c_['violates'] = (len(c_['usecols']) == 1) != ('_1d' in kernel) and max(c_['usecols']) < filec
            elif kernel.startswith('opentxt_all'):
                if one:
                    c_['table'] = [row[:1] for row in tbl]
                elif filec == 1:
                    c_['table'] = [row + [rng.randint(-9, 9)] for row in tbl]
                c_['violates'] = (len(c_['table'][0]) == 1) != ('_1d' in kernel)
            else:
                two_d = '_2d' in kernel
                if not two_d:
                    c_['table'] = [row[:1] for row in tbl]
                elif filec == 1:
                    c_['table'] = [row + [rng.randint(-9, 9)] for row in tbl]
                if kernel.endswith('_file'):
                    parts, left = [], r_
                    while left > 0:
                        x = rng.randint(1, left)
                        parts.append(x)
                        left -= x
                    if rng.random() < 0.15:
                        parts[-1] += rng.choice([1, -1])
                    c_['limits'] = parts
                c_['dtype'] = {'default': None, 'int': rng.choice(['int32', 'int64']), 'nonint': 'float64'}.get(kernel.split('_')[1] if kernel.startswith('openmicro') else '', 'int64')
            c_['nrows'] = rng.choice([None, None, rng.randint(1, r_)])
            yield c_
        elif module == 'IoLimits':
            lim = [rng.randint(0, 9) for _ in range(rng.randint(0, 5))]
            total = sum(lim) + rng.choice([0, 0, 0, 1, -1])
            yield {'k': kernel, 'args': [total, 7], 'oracle': {'opentxt': lim}, 'limits': lim, 'mode': 'py'}
        elif module == 'StateTrajBase':
            labs = sorted(rng.sample(range(-6, 30), rng.randint(1, 6)))
            yield {'k': kernel, 'args': [labs, rng.choice(labs + [rng.randint(-8, 32)])], 'mode': 'py'}
        elif module in ('MsmTimes', 'MsmTimesApi'):
            labs = sorted(rng.sample(range(-6, 30), rng.randint(2, 6)))
            pool = list(labs)
            rng.shuffle(pool)
            a_ = rng.randint(1, len(pool) - 1)
            S, F = pool[:a_], pool[a_:a_ + rng.randint(1, len(pool) - a_)]
            r_ = rng.random()
            if r_ < 0.08:
                F = F + [S[0]]                       # overlap
            elif r_ < 0.16:
                S = S + [max(labs) + 3]              # absent state
            elif r_ < 0.3:
                S = S + [S[0]]                       # duplicates are merged by np.unique
            rng.shuffle(S)
            keys = rng.sample(range(1, 40), rng.randint(0, 6)) if rng.random() < 0.9 else []
            d = [[k_, rng.randint(1, 5)] for k_ in keys]
            c_ = {'k': kernel, 'args': [labs, rng.choice([1, 2, 3, 10]), S, F, rng.randint(1, 500), False], 'dict': d, 'mode': 'py'}
            if module == 'MsmTimesApi':
                c_['dict_tt'] = [[k_ + 1, v_ + 1] for k_, v_ in d] + [[77, 1]]          # what the OTHER kernel would answer
                c_['chain'] = [rng.randrange(len(labs)) for _ in range(rng.randint(1, 12))]          # the kernel answers an INDEX chain
                c_['paths'] = [[[S[0], F[0]], [rng.randint(1, 9) for _ in range(rng.randint(1, 3))]]] if rng.random() < 0.8 else []
            yield c_
        elif module == 'MsmCummat':
            import numpy as np
            n = rng.randint(1, 6)
            kind = rng.random()
            if kind < 0.1:
                m = [[0.0] + [0.1] * 10 + [0.0]] + [[1.0 if j == i else 0.0 for j in range(12)] for i in range(1, 12)]     # D3 row
            else:
                cnt = [[rng.choice([0, 0, 1, 1, 2, 3, 7, 50]) for _ in range(n)] for _ in range(n)]
                if rng.random() < 0.3:
                    cnt[rng.randrange(n)] = [0] * n
                a_ = np.array(cnt, dtype=np.float64)
                rs = a_.sum(axis=1, keepdims=True)
                rs[rs == 0] = 1
                m = (a_ / rs).tolist()
                if kind > 0.93:
                    m[rng.randrange(n)][rng.randrange(n)] = -0.25
            table = [[[core.rat_str(v) for v in row], [int(i) for i in np.argsort(np.array(row, dtype=np.float64))]] for row in m]
            yield {'k': kernel, 'args': [_ratmat(m)], 'floats': m, 'oracle': {'argsort': table}, 'mode': 'py'}
        elif module == 'StateTrajHS':
            nm = rng.randint(2, 6)
            na = rng.randint(1, min(nm, 4))
            labels = sorted(rng.sample(range(0, 30), nm))
            macro_labels = rng.sample(range(0, 30), na)
            assign = [rng.randrange(na) for _ in range(nm)]
            for a_ in range(na):
                assign[rng.randrange(nm)] = a_ if a_ not in assign else assign[rng.randrange(nm)]
            micro = [[rng.choice(labels) for _ in range(rng.randint(15, 60))] for _ in range(rng.randint(1, 3))]
            lump = {l: macro_labels[assign[i]] for i, l in enumerate(labels)}
            macro = [[lump[x] for x in t] for t in micro]
            yield {'k': kernel, 'micro': micro, 'macro': macro, 'lag': rng.randint(1, 3), 'positive': rng.random() < 0.5,
                   'args': None, 'mode': 'py'}
        else:
            raise core.HarnessError('genval: no generator for %s.%s' % (module, kernel))


def _np_matrix(rng):
    """a float matrix for the ergodicity predicates whose float evaluation is exact or far from every threshold"""
    kind = rng.random()
    if kind < 0.08:      # non-square / 1x1 / scalar-like
        r_, c_ = rng.choice([(1, 1), (2, 3), (3, 2), (1, 3), (3, 1)])
        return [[rng.choice([0.0, 0.5, 1.0]) for _ in range(c_)] for _ in range(r_)]
    n = rng.randint(2, 6)
    den = 4 if n <= 4 else 2          # entries k/den: every power entry is exact in floats and either 0 or > 1e-8
    m = []
    for _i in range(n):
        row = [0] * n
        mode = rng.random()
        if mode < 0.12:
            pass                                         # all-zero row (unvisited or trap-like)
        elif mode < 0.3:
            row[rng.randrange(n)] = den                  # deterministic jump / absorbing
        else:
            left = den
            while left > 0:
                k = rng.randint(1, left)
                row[rng.randrange(n)] += k
                left -= k
        m.append([v / den for v in row])
    pert = rng.random()
    if pert < 0.1:           # clearly non-stochastic row
        i = rng.randrange(n)
        m[i][rng.randrange(n)] += rng.choice([0.25, -0.25, 1e-6, -1e-6, 3e-7])
    elif pert < 0.15:        # deviation far below the tolerance
        i = rng.randrange(n)
        j = rng.randrange(n)
        if m[i][j] > 0:
            m[i][j] += rng.choice([1e-12, -1e-12])
    return m


def _sf(rng):
    pool = list(range(5))
    rng.shuffle(pool)
    a = rng.randint(1, 3)
    S, F = pool[:a], pool[a:a + rng.randint(1, 2)]
    if rng.random() < 0.1:
        F = F + [S[0]]            # overlapping sets are legal for the kernels themselves
    return sorted(S), sorted(F)


def _ratmat(m):
    return [[core.rat_str(float(v)) for v in row] for row in m]


# --------------------------------------------------------------------------- real side (runs in a worker subprocess)

def real_one(module, case):
    import importlib
    import numba
    import numpy as np
    import rng_inject
    modname = 'msmhelper.' + SOURCE_OF[module][:-3].replace('/', '.')
    mod = importlib.import_module(modname)
    k, a, mode = case['k'], case['args'], case['mode']
    if module == 'StateTrajHS':
        # the method is run on a real LumpedStateTraj; its inputs (object attributes, micro model, oracle answer) are
        # reported back so that the translated function can be run on exactly the same values
        import msmhelper as mh
        try:
            obj = mh.LumpedStateTraj(case['macro'], case['micro'], positive=case['positive'])
            msm_i, _ = mh.msm.msm._estimate_markov_model(obj.microstate_index_trajs, case['lag'], obj.nmicrostates, obj.microstates)
        except Exception as e:  # noqa
            return {'skip': core.err_name(e)}
        case = dict(case, _obj=obj, _msm_i=msm_i)
        inputs = {'args': [[int(v) for v in obj.microstates], [int(v) for v in obj.states], [int(v) for v in obj.state_assignment],
                           [int(v) for v in obj._state_assignment_idx], int(obj.nmicrostates), int(obj.nstates), bool(obj.positive),
                           _ratmat(msm_i.tolist())]}
        try:
            inputs['oracle'] = {'peq': [core.rat_str(float(v)) for v in mh.msm.peq(msm_i)]}
        except Exception as e:  # noqa
            inputs['oracle'] = {'peq_err': core.err_name(e)}
        fn = None
    elif module == 'MsmMcmcApi':
        inputs = {'args': case['args'], 'oracle': {'choice': case['args'][0][0], 'cummat': [[['1']], [[0]]], 'propagate': case['chain']}}
        fn = None
    elif module in ('MsmEstimate', 'UtilsRelabel', 'StateTrajInit', 'UtilsDatasets'):
        inputs, fn = None, None
    elif module == 'UtilsGauss':
        # the two scipy filters are spied: their answers are the oracle answers, and they must be called with exactly the documented keywords
        fn = None
        rec = {}
        r1, r2 = mod._gaussian_filter_1d, mod._gaussian_filter

        def rats(x):
            x = np.asarray(x)
            return [core.rat_str(float(v)) for v in x] if x.ndim == 1 else [[core.rat_str(float(v)) for v in row] for row in x]

        def s1(arr_, **kw_):
            if set(kw_) != {'sigma', 'mode'} or kw_['mode'] != 'nearest':
                raise core.HarnessError('gaussian_filter1d called with %r' % (kw_,))
            out_ = r1(arr_, **kw_)
            rec['filter1d'] = rats(out_)
            return out_

        def s2(arr_, **kw_):
            if set(kw_) != {'sigma', 'mode'} or kw_['mode'] != 'nearest' or tuple(kw_['sigma'])[1:] != (0,) or np.asarray(arr_).ndim != 2:
                raise core.HarnessError('gaussian_filter called with %r' % (kw_,))
            out_ = r2(arr_, **kw_)
            rec['filter2d'] = rats(out_)
            return out_

        def _run():
            mod._gaussian_filter_1d, mod._gaussian_filter = s1, s2
            try:
                return rats(mod.gaussian_filter(np.array(case['floats'], dtype=np.float64), case['sigma']))
            finally:
                mod._gaussian_filter_1d, mod._gaussian_filter = r1, r2

        def ratn(x):
            return [ratn(y) for y in x] if isinstance(x, list) else core.rat_str(float(x))
        inputs = {'args': [ratn(case['floats']), core.rat_str(case['sigma'])], '_rec3': rec}
        case = dict(case, _run=_run)
    elif module in ('UtilsSwap', 'IoOpen'):
        inputs, fn = None, None
        if module == 'IoOpen':
            import tempfile
            import pandas as pd
            tmpd = tempfile.mkdtemp(prefix='genval_io_')
            fdata, flim = os.path.join(tmpd, 'data.dat'), os.path.join(tmpd, 'limits.dat')
            with open(fdata, 'w') as fh:
                fh.write('# a comment line\n')
                for row in case['table']:
                    fh.write(' '.join(str(v) for v in row) + '\n')
            if case.get('limits') is not None:
                with open(flim, 'w') as fh:
                    fh.write('\n'.join(str(v) for v in case['limits']) + '\n')
            rec = {}
            dt = {None: None, 'int32': np.int32, 'int64': np.int64, 'float64': np.float64}[case.get('dtype')]
            tok = {None: 16, 'int32': 32, 'int64': 64, 'float64': 0}[case.get('dtype')]
            nrows_tok = -1 if case['nrows'] is None else case['nrows']

            def canon(x):
                x = np.asarray(x)
                return [int(v) for v in x] if x.ndim == 1 else [[int(v) for v in row] for row in x]
            if k.startswith('opentxt_cols') or k.startswith('opentxt_all'):
                real_csv = pd.read_csv

                def spy_csv(*a_, **kw_):
                    try:
                        df = real_csv(*a_, **kw_)
                    except Exception as e_:  # noqa
                        rec['read_csv_err'] = core.err_name(e_)
                        raise
                    rec['read_csv'] = [[int(v) for v in row] for row in df.values]
                    return df

                def _run():
                    mod.pd.read_csv = spy_csv
                    try:
                        kw_ = {'dtype': np.int64, 'nrows': case['nrows']}
                        if 'usecols' in case:
                            kw_['usecols'] = case['usecols']
                        return canon(mod.opentxt(fdata, **kw_))
                    finally:
                        mod.pd.read_csv = real_csv
                inputs = {'args': [0, nrows_tok] + ([case['usecols']] if 'usecols' in case else []), '_rec3': rec}
                if 'usecols' in case:
                    rec['argsort'] = [int(i) for i in np.argsort(case['usecols'])]
            else:
                real_open = mod.opentxt

                def spy_open(fname, **kw_):
                    out_ = real_open(fname, **kw_)
                    if fname == fdata:
                        rec['data'] = canon(out_)
                    else:
                        rec['opentxt'] = canon(out_)
                    return out_
                has_lim = k.endswith('_file')

                def _run():
                    mod.opentxt = spy_open
                    try:
                        if k.startswith('opentxt_limits'):
                            res = mod.opentxt_limits(fdata, flim if has_lim else None, dtype=dt)
                        elif 'default' in k:
                            res = mod.openmicrostates(fdata, flim if has_lim else None)
                        else:
                            res = mod.openmicrostates(fdata, flim if has_lim else None, dtype=dt)
                        if 'default' in k and any(np.asarray(p_).dtype != np.int16 for p_ in res):
                            raise core.HarnessError('default microstate dtype is not int16')
                        return [canon(p_) for p_ in res]
                    finally:
                        mod.opentxt = real_open
                inputs = {'args': [0] + ([1] if has_lim else []) + ([] if 'default' in k else [tok]), '_rec3': rec}
            case = dict(case, _run=_run, _tmpd=tmpd)
    elif module in ('StateTrajBase', 'UtilsFiltering', 'IoLimits'):
        inputs, fn = None, None
        if module != 'StateTrajBase':
            fn = getattr(mod, 'runningmean' if module == 'UtilsFiltering' else 'open_limits')
    elif module in ('MsmLinalg', 'MsmIts'):
        import msmhelper as mh
        import warnings
        fn = None
        lin = importlib.import_module('msmhelper.msm.utils.linalg')
        rec = {'eig': [], 'argsort_cx': [], 'log': []}

        def cx(z):
            z = complex(z)
            if z != z:
                return None
            return [core.rat_str(z.real), core.rat_str(z.imag)]

        def cxs(v):
            return [cx(z) for z in np.asarray(v).ravel()] if np.asarray(v).ndim == 1 else [[cx(z) for z in row] for row in np.asarray(v)]

        real_eig = np.linalg.eig

        def spy_eig(mat):
            w, v = real_eig(mat)
            rec['eig'].append([_ratmat(np.asarray(mat, dtype=np.float64).tolist()), [cxs(w), cxs(v)]])
            rec['argsort_cx'].append([cxs(w), [int(i) for i in w.argsort()]])
            for z in w:
                # what `np.log` answers on this eigenvalue (as it is, and as its real part — `real_if_close` may have dropped the imaginary part)
                for zz in (complex(z), complex(z.real, 0.0)):
                    if zz == zz and zz != 0:
                        with np.errstate(all='ignore'):
                            lg = np.log(zz.real) if (zz.imag == 0 and zz.real > 0) else np.log(zz)
                        rec['log'].append([cx(zz), cx(lg)])
            return w, v

        def with_spy(thunk):
            def _run():
                np.linalg.eig = spy_eig
                try:
                    with warnings.catch_warnings():
                        warnings.simplefilter('ignore')
                        return thunk()
                finally:
                    np.linalg.eig = real_eig
            return _run
        if 'floats' in case:
            mat = np.array(case['floats'], dtype=np.float64)
            if k == '_implied_timescales':
                inputs = {'args': [_ratmat(case['floats']), case['lag'], case['nvals'] - 1], '_rec3': rec}
                case = dict(case, _run=with_spy(lambda: cxs(mod._implied_timescales(mat, case['lag'], case['nvals'] - 1))))
            else:
                pyname = k[:-2] if k.endswith('_n') else k[:-4]
                pyname = pyname if pyname.startswith(('left', 'right')) else '_' + pyname
                f_ = getattr(lin, pyname)
                allv = k.endswith('_all')
                inputs = {'args': [_ratmat(case['floats'])] + ([] if allv else [case['nvals']]), '_rec3': rec}

                def thunk():
                    res = f_(mat, None if allv else case['nvals'])
                    return [cxs(res[0]), cxs(res[1])] if isinstance(res, tuple) else cxs(res)
                case = dict(case, _run=with_spy(thunk))
        else:
            try:
                obj = mh.StateTraj([np.array(t, dtype=np.int64) for t in case['trajs']])
            except Exception as e:  # noqa
                return {'skip': core.err_name(e)}
            table = []
            for l_ in sorted(set(x for x in case['lags'] if x > 0)):
                try:
                    T, st_ = obj.estimate_markov_model(int(l_))
                    table.append([int(l_), [_ratmat(np.asarray(T).tolist()), [int(x) for x in st_]]])
                except Exception:  # noqa
                    pass
            rec['estimate'] = table
            inputs = {'args': [int(obj.nstates), case['lags']] + ([] if case['nts'] is None else [case['nts']]) + [bool(case['reversible'])], '_rec3': rec}
            case = dict(case, _run=with_spy(lambda: cxs(mod.implied_timescales(obj, case['lags'], ntimescales=case['nts'], reversible=case['reversible']))))
    elif module == 'MsmCkApi':
        import msmhelper as mh
        fn = None
        try:
            obj = mh.StateTraj([np.array(t, dtype=np.int64) for t in case['trajs']])
            sts = [int(x) for x in obj.states]
            lags = sorted(case['lags'])
            need = set(l_ for l_ in lags if l_ > 0)
            grid = []
            if lags and lags[0] > 0 and case['tmax'] >= 0:
                grid = np.around(np.geomspace(start=lags[0], stop=case['tmax'], num=30)).astype(np.int64) if case['tmax'] > 0 else np.array([0])
                need |= set(int(x) for x in np.unique(grid) if x > 0)
            table = []
            for l_ in sorted(need):
                try:
                    T, st_ = obj.estimate_markov_model(int(l_))
                    table.append([int(l_), [_ratmat(np.asarray(T).tolist()), [int(x) for x in st_]]])
                except Exception:  # noqa
                    pass
            inputs = {'args': [int(obj.nstates), sts, case['lags'], case['tmax']], 'oracle': {'estimate': table, 'times': [int(x) for x in grid]}}

            def ckc(d, lists):
                out = [[[int(k_), [core.rat_str(float(v)) for v in vals]] for k_, vals in d['ck'].items()], [int(x) for x in d['time']]]
                out += ([[bool(x) for x in d['is_ergodic']], [bool(x) for x in d['is_fuzzy_ergodic']]] if lists
                        else [bool(d['is_ergodic']), bool(d['is_fuzzy_ergodic'])])
                return out

            def _run():
                res = mod.chapman_kolmogorov_test(obj, case['lags'], case['tmax'])
                return [[[int(k_), ckc(v_, False)] for k_, v_ in res.items() if k_ != 'md'], ckc(res['md'], True)]
            case = dict(case, _run=_run)
        except Exception as e:  # noqa
            return {'skip': core.err_name(e)}
    elif module == 'MsmTests' and case['k'] != '_calc_times':
        import msmhelper as mh
        fn = None
        try:
            obj = mh.StateTraj([np.array(t, dtype=np.int64) for t in case['trajs']])
            sts = [int(x) for x in obj.states]

            def est(lag_):
                T, st_ = obj.estimate_markov_model(int(lag_))
                return [int(lag_), [_ratmat(np.asarray(T).tolist()), [int(x) for x in st_]]]

            def canon(d, lists):
                out = [[[int(k_), [core.rat_str(float(v)) for v in vals]] for k_, vals in d['ck'].items()], [int(x) for x in d['time']]]
                if lists:
                    out += [[bool(x) for x in d['is_ergodic']], [bool(x) for x in d['is_fuzzy_ergodic']]]
                else:
                    out += [bool(d['is_ergodic']), bool(d['is_fuzzy_ergodic'])]
                return out
            if case['k'] == '_chapman_kolmogorov_test':
                inputs = {'args': [int(obj.nstates), sts, case['lag'], case['tmax']], 'oracle': {'estimate': [est(case['lag'])]}}
                case = dict(case, _run=lambda: canon(mod._chapman_kolmogorov_test(obj, case['lag'], case['tmax']), False))
            else:
                grid = np.around(np.geomspace(start=case['lag'], stop=case['tmax'], num=case['steps'])).astype(np.int64)
                inputs = {'args': [int(obj.nstates), sts, case['lag'], case['tmax'], case['steps']],
                          'oracle': {'times': [int(x) for x in grid], 'estimate': [est(x) for x in np.unique(grid)]}}
                case = dict(case, _run=lambda: canon(mod._chapman_kolmogorov_test_md(obj, tmin=case['lag'], tmax=case['tmax'], steps=case['steps']), True))
        except Exception as e:  # noqa
            return {'skip': core.err_name(e)}
    elif module in ('StateTrajEst', 'LumpedEst'):
        import msmhelper as mh
        fn = None
        flag = bool(numba.config.DISABLE_JIT)

        def ints(v):
            return [[int(x) for x in t] for t in v] if isinstance(v, list) else [int(x) for x in v]
        try:
            micro = [np.array(t, dtype=np.int64) for t in case['micro']]
            if module == 'StateTrajEst':
                o1 = mh.StateTraj(micro)
                inputs = {'args': [ints(o1._trajs), ints(o1._states), case['lag'], flag]}
            else:
                o1 = mh.LumpedStateTraj([np.array(t, dtype=np.int64) for t in case['macro']], micro, positive=case['positive'])
                inputs = {'args': [ints(o1._trajs), ints(o1._states), ints(o1._macrostates), ints(o1._state_assignment), bool(o1.positive), case['lag'], flag]}
                try:
                    msm_i, _ = mh.msm.msm._estimate_markov_model(o1.microstate_index_trajs, case['lag'], o1.nmicrostates, o1.microstates)
                    inputs['oracle'] = {'peq': [core.rat_str(float(v)) for v in mh.msm.peq(msm_i)]}
                except Exception as e:  # noqa
                    inputs['oracle'] = {'peq_err': core.err_name(e)}

            def _run():
                T, st_ = o1.estimate_markov_model(case['lag'])
                return [[[core.rat_str(float(v)) for v in row] for row in np.asarray(T)], [int(x) for x in st_]]
            case = dict(case, _run=_run)
        except Exception as e:  # noqa
            return {'skip': core.err_name(e)}
    elif module in ('StateTrajAcc', 'LumpedAcc'):
        import msmhelper as mh
        fn = None

        def to_l(v):
            v = np.asarray(v) if not isinstance(v, list) else v
            if isinstance(v, list):
                return [[int(x) for x in t] for t in v]
            return [int(x) for x in v] if v.ndim else int(v)
        try:
            micro = [np.array(t, dtype=np.int64) for t in case['micro']]
            if module == 'StateTrajAcc':
                o1 = mh.StateTraj(micro)
                priv = {'_trajs': to_l(o1._trajs), '_states': to_l(o1._states)}
                need = {'states': ['_states'], 'nstates': ['_states'], 'ntrajs': ['_trajs'], 'nframes': ['_trajs'], 'index_trajs': ['_trajs'],
                        'index_trajs_flatten': ['_trajs'], 'trajs': ['_trajs', '_states'], 'trajs_flatten': ['_trajs', '_states']}[case['k']]
                inputs = {'args': [priv[n_] for n_ in need]}
                case = dict(case, _run=lambda: to_l(getattr(o1, case['k'])))
            elif case['k'] == 'init':
                macro = [np.array(t, dtype=np.int64) for t in case['macro']]
                inputs = {'args': [case['macro'], case['micro'], bool(case['positive'])]}

                def _run():
                    o2 = mh.LumpedStateTraj(macro, micro, positive=case['positive'])
                    return [bool(o2.positive), to_l(o2._macrostates), to_l(o2._trajs), to_l(o2._states), to_l(o2._state_assignment)]
                case = dict(case, _run=_run)
            else:
                macro = [np.array(t, dtype=np.int64) for t in case['macro']]
                o2 = mh.LumpedStateTraj(macro, micro)
                priv = {'_trajs': to_l(o2._trajs), '_states': to_l(o2._states), '_macrostates': to_l(o2._macrostates), '_state_assignment': to_l(o2._state_assignment)}
                need = {'microstate_trajs': ['_trajs', '_states', '_macrostates'], 'microstate_trajs_flatten': ['_trajs', '_states', '_macrostates'],
                        'state_assignment_idx': ['_macrostates', '_state_assignment'], 'trajs': ['_trajs', '_states', '_state_assignment'],
                        'index_trajs': ['_trajs', '_states', '_macrostates', '_state_assignment']}[case['k']]
                inputs = {'args': [priv[n_] for n_ in need]}
                attr = '_state_assignment_idx' if case['k'] == 'state_assignment_idx' else case['k']
                case = dict(case, _run=lambda: to_l(getattr(o2, attr)))
        except Exception as e:  # noqa
            return {'skip': core.err_name(e)}
    elif module in ('MdCompareApi', 'MdTimesApi', 'MdCoringApi'):
        import msmhelper as mh
        flag = bool(numba.config.DISABLE_JIT)
        fn = None
        try:
            if module == 'MdCompareApi':
                o1 = mh.StateTraj([np.array(t, dtype=np.int64) for t in case['t1']])
                o2 = mh.StateTraj([np.array(t, dtype=np.int64) for t in case['t2']])
                meth = 'symmetric' if case['k'].endswith('symmetric') else ('directed' if case['k'].endswith('directed') else 'jaccard')
                if 'api' in case['k']:
                    inputs = {'args': [[int(x) for x in o1.index_trajs_flatten], int(o1.nstates), int(o1.nframes),
                                       [int(x) for x in o2.index_trajs_flatten], int(o2.nstates), int(o2.nframes), flag]}
                    case = dict(case, _run=lambda: core.rat_str(float(mod.compare_discretization(o1, o2, method=meth))))
                else:
                    inputs = {'args': [[int(x) for x in o1.index_trajs_flatten], int(o1.nstates), [int(x) for x in o2.index_trajs_flatten], int(o2.nstates), flag]}
                    case = dict(case, _run=lambda: core.rat_str(float(mod._compare_discretization(o1, o2, meth))))
            elif module == 'MdTimesApi':
                o1 = mh.StateTraj([np.array(t, dtype=np.int64) for t in case['trajs']])
                inputs = {'args': [[int(x) for x in o1.states], [[int(x) for x in t] for t in o1.trajs], case['S'], case['F'], flag]}
                if case['k'] == 'estimate_waiting_times':
                    case = dict(case, _run=lambda: [int(x) for x in mod.estimate_waiting_times(o1, case['S'], case['F'])])
                else:
                    case = dict(case, _run=lambda: [[[int(x) for x in k_], [int(x) for x in v_]] for k_, v_ in mod.estimate_paths(o1, case['S'], case['F']).items()])
            else:
                arrs = [np.array(t, dtype=np.int64) for t in case['trajs']]
                o1 = mh.LumpedStateTraj(arrs, arrs) if case['lumped'] else mh.StateTraj(arrs)
                inputs = {'args': [[int(x) for x in o1.states], [[int(x) for x in t] for t in o1.index_trajs], [[int(x) for x in t] for t in o1.trajs],
                                   bool(case['lumped']), case['lag'], bool(case['iterative']), flag]}
                case = dict(case, _run=lambda: [[int(x) for x in t] for t in mod.dynamical_coring(o1, case['lag'], iterative=case['iterative']).trajs])
        except Exception as e:  # noqa
            return {'skip': core.err_name(e)}
    elif module == 'MsmTimes':
        # `_estimate_times` with a stub estimator; the three oracles (start choice, cumulative matrix, estimator) are recorded
        import msmhelper as mh
        labs, lag, S, F, steps, _flag = case['args']
        rec = {}
        dummy = (np.array([[1.0]]), np.array([[0]], dtype=np.int64))

        def stub(cummat, start, states_from, states_to, steps):
            rec['estimator'] = [[int(k_), int(v_)] for k_, v_ in case['dict']]
            rec['est_args'] = [int(start), [int(x) for x in states_from], [int(x) for x in states_to], int(steps)]
            return {int(k_): int(v_) for k_, v_ in case['dict']}

        def _run():
            o_cm, o_ch = mod._get_cummat, np.random.choice

            def choice(xs):
                rec['choice'] = int(xs[0] if len(xs) else 0)
                return xs[0]

            def gc(trajs, lagtime):
                rec['cummat'] = [[['1']], [[0]]]
                return dummy
            mod._get_cummat, np.random.choice = gc, choice
            try:
                r = mod._estimate_times(trajs=mh.StateTraj([np.array(labs, dtype=np.int64)]), lagtime=lag, start=S, final=F, steps=steps,
                                        estimator=stub, return_list=(case['k'] == 'estimate_times_list'))
            finally:
                mod._get_cummat, np.random.choice = o_cm, o_ch
            if case['k'] == 'estimate_times_list':
                return [int(x) for x in r]
            return [[core.rat_str(float(v)) for v in r[0]], [int(v) for v in r[1]]]
        case = dict(case, _run=_run)
        inputs = {'args': [labs, lag, S, F, steps, bool(numba.config.DISABLE_JIT)], '_rec2': rec}
        fn = None
    elif module == 'MsmTimesApi':
        # the public wrappers with stub kernels: each kernel answers its own dictionary, so a wrapper that hands over the wrong one is seen
        import msmhelper as mh
        labs, lag, S, F, steps, _flag = case['args']
        rec = {}
        dummy = (np.array([[1.0]]), np.array([[0]], dtype=np.int64))

        def mk(key, dct):
            def stub(cummat, start, states_from, states_to, steps):
                rec[key] = [[int(k_), int(v_)] for k_, v_ in dct]
                return {int(k_): int(v_) for k_, v_ in dct}
            return stub

        def _run():
            saved = (mod._get_cummat, np.random.choice, mod._estimate_waiting_times, mod._estimate_transition_times, mod._propagate_MCMC, mod.md_estimate_paths)

            def choice(xs):
                rec['choice'] = int(xs[0] if len(xs) else 0)
                return xs[0]

            def gc(trajs, lagtime):
                rec['cummat'] = [[['1']], [[0]]]
                return dummy

            def prop(cummat, start, steps):
                rec['propagate'] = [int(v) for v in case['chain']]
                return np.array(case['chain'], dtype=np.int64)

            def mdp(trajs, start, final):
                rec['md_paths'] = case['paths']
                rec['md_paths_args'] = [[int(v) for v in np.asarray(trajs).ravel()], [int(v) for v in np.atleast_1d(start)], [int(v) for v in np.atleast_1d(final)]]
                return {tuple(p_): np.array(t_) for p_, t_ in case['paths']}
            mod._get_cummat, np.random.choice = gc, choice
            mod._estimate_waiting_times, mod._estimate_transition_times = mk('estimator', case['dict']), mk('estimator_tt', case['dict_tt'])
            mod._propagate_MCMC, mod.md_estimate_paths = prop, mdp
            try:
                obj = mh.StateTraj([np.array(labs, dtype=np.int64)])
                if case['k'] == 'estimate_paths':
                    r = mod.estimate_paths(trajs=obj, lagtime=lag, start=S, final=F, steps=steps)
                    # the chain handed to the md function is the label chain (states[index chain])
                    if rec.get('md_paths_args') and rec['md_paths_args'][1:] != [[int(v) for v in S], [int(v) for v in F]]:
                        raise core.HarnessError('estimate_paths passed other start/final states on')
                    return [[[int(x) for x in p_], [int(x) for x in t_]] for p_, t_ in r.items()]
                f_ = getattr(mod, case['k'].rsplit('_', 1)[0])
                r = f_(trajs=obj, lagtime=lag, start=S, final=F, steps=steps, return_list=case['k'].endswith('_list'))
            finally:
                (mod._get_cummat, np.random.choice, mod._estimate_waiting_times, mod._estimate_transition_times, mod._propagate_MCMC, mod.md_estimate_paths) = saved
            if case['k'].endswith('_list'):
                return [int(x) for x in r]
            return [[core.rat_str(float(v)) for v in r[0]], [int(v) for v in r[1]]]
        case = dict(case, _run=_run)
        inputs = {'args': [labs, lag, S, F, steps] + ([] if case['k'] == 'estimate_paths' else [bool(numba.config.DISABLE_JIT)]), '_rec4': rec}
        fn = None
    elif module == 'MsmNorm' and case['k'] == 'equilibrium_population':
        # the eigen-solver is an oracle of the translated function: record what it returned in the real run
        mat = np.array(case['floats'], dtype=np.float64)
        rec = {}
        orig = mod.linalg.left_eigenvectors

        def spy(matrix, nvals=None):
            try:
                vals, vecs = orig(matrix, nvals=nvals)
            except Exception as e:  # noqa
                rec['err'] = core.err_name(e)
                raise
            rec['eig'] = (np.asarray(vals), np.asarray(vecs))
            return vals, vecs

        def _run():
            mod.linalg.left_eigenvectors = spy
            try:
                return mod.equilibrium_population(mat, allow_non_ergodic=case['allow'])
            finally:
                mod.linalg.left_eigenvectors = orig
        case = dict(case, _run=_run)
        inputs = {'args': [_ratmat(case['floats']), bool(case['allow'])], '_rec': rec}
        fn = None
    else:
        inputs = None
        fn = getattr(mod, case['k'])
    call = fn if mode == 'jit' else getattr(fn, 'py_func', fn)

    def arr(x):
        return np.array(x, dtype=np.int64)

    def tl(xs):
        if mode == 'py':
            return [arr(x) for x in xs]
        L = numba.typed.List()
        for x in xs:
            L.append(arr(x))
        return L

    def ints(xs):
        if mode == 'py':
            return list(xs)
        L = numba.typed.List.empty_list(numba.int64)
        for x in xs:
            L.append(int(x))
        return L

    def run():
        if k == '_generate_transition_count_matrix':
            return call(tl(a[0]), a[1], a[2]).tolist()
        if k == '_remains_in_core':
            return bool(call(a[0], arr(a[1]), a[2], a[3]))
        if k == '_find_first_core':
            return int(call(arr(a[0]), a[1]))
        if k == '_dynamical_coring_single_traj':
            return call(arr(a[0]), a[1], a[2]).tolist()
        if k in ('_dynamical_coring_single_lagtime', '_dynamical_coring'):
            return [x.tolist() for x in call(tl(a[0]), a[1], a[2])]
        if k == '_estimate_events_singletraj':
            return [[int(i), int(j)] for i, j in call(arr(a[0]), ints(a[1]), ints(a[2]))]
        if k == '_estimate_waiting_times_singletraj':
            return [int(v) for v in call(arr(a[0]), ints(a[1]), ints(a[2]))]
        if k == '_estimate_paths_singletraj':
            return [[[int(s) for s in p], int(t)] for p, t in call(arr(a[0]), ints(a[1]), ints(a[2]))]
        if k == '_estimate_waiting_times' and module == 'MdTimescales':
            return [int(v) for v in call(tl(a[0]), ints(a[1]), ints(a[2]))]
        if k == '_estimate_paths':
            return [[[int(s) for s in p], int(t)] for p, t in call(tl(a[0]), ints(a[1]), ints(a[2]))]
        if k == '_intersect':
            return int(call(arr(a[0]), arr(a[1])))
        if k == '_intersect_array':
            return [[core.rat_str(float(v)) for v in row] for row in call(tl(a[0]), tl(a[1]))]
        if k in ('_compare_trajs_symmetric', '_compare_trajs_directed'):
            i12, i21 = (np.array(m, dtype=np.float64) for m in case['floats'])
            return core.rat_str(float(call(arr(a[0]), arr(a[1]), i12, i21)))
        if k == 'find_first':
            return int(call(a[0], arr(a[1])))
        if module == 'UtilsTests':
            mat = np.array(case['floats'], dtype=np.float64)
            if k == 'is_quadratic':
                return bool(call(mat))
            res = call(mat, atol=case['atol'])
            return [bool(v) for v in res] if k == 'ergodic_mask' else bool(res)
        if module == 'MsmNorm' and k == 'equilibrium_population':
            return [core.rat_str(float(v)) for v in case['_run']()]
        if module == 'MsmNorm':
            res = call(np.array(case['floats'], dtype=np.float64))
            return [[core.rat_str(float(v)) for v in row] for row in res]
        if module == 'PlotCkTest':
            return [[int(v) for v in ch] for ch in call(np.array(a[0], dtype=np.int64), a[1])]
        if module == 'MsmTests' and k == '_calc_times':
            return [int(v) for v in call(a[0], a[1])]
        if module == 'StateTrajHS':
            return [[core.rat_str(float(v)) for v in row] for row in case['_obj']._estimate_markov_model(case['_msm_i'])]
        if module == 'StateTrajBase':
            import msmhelper as mh
            return int(mh.StateTraj([np.array(a[0], dtype=np.int64)]).state_to_idx(a[1]))
        if module in ('UtilsRelabel', 'StateTrajInit'):
            import msmhelper as mh
            arrs = [np.array(t, dtype=np.int64) for t in a[0]] if k != 'shift_data_1d' else None
            if module == 'StateTrajInit':
                o = mh.StateTraj(arrs)
                return [[[int(x) for x in t] for t in o._trajs], [int(x) for x in o._states]]
            if k == 'unique':
                return [int(x) for x in mh.unique(arrs)]
            if k == 'unique_counts':
                u, c = mh.unique(arrs, return_counts=True)
                return [[int(x) for x in u], [int(x) for x in c]]
            if k == 'shift_data':
                return [[int(x) for x in t] for t in mh.shift_data(arrs, a[1], a[2])]
            if k == 'shift_data_1d':
                return [int(x) for x in mh.shift_data(np.array(a[0], dtype=np.int64), a[1], a[2])]
            fn_ = mh.rename_by_index if k == 'rename_by_index' else mh.rename_by_population
            r, perm = fn_(arrs, return_permutation=True)
            return [[[int(x) for x in t] for t in r], [int(x) for x in perm]]
        if module == 'MsmEstimate':
            if k.endswith('perm'):
                T, perm = mod._estimate_markov_model([np.array(t, dtype=np.int64) for t in a[0]], a[1], a[2], np.array(a[3]))
            else:
                T, perm = mod._estimate_markov_model([np.array(t, dtype=np.int64) for t in a[0]], a[1], a[2])
            return [[[core.rat_str(float(v)) for v in row] for row in T], [int(v) for v in perm]]
        if module == 'UtilsFiltering':
            return [core.rat_str(float(v)) for v in mod.runningmean(np.array(case['floats'], dtype=np.float64), a[1])]
        if module == 'IoLimits' and k == 'open_limits_none':
            return [int(v) for v in mod.open_limits(a[0])]
        if module == 'UtilsSwap':
            if k == '_asindex':
                return [int(v) for v in mod._asindex(a[0])]
            return [[int(v) for v in row] for row in mod.swapcols(np.array(a[0], dtype=np.int64), a[1], a[2])]
        if module == 'IoOpen':
            import shutil
            try:
                return case['_run']()
            finally:
                shutil.rmtree(case['_tmpd'], ignore_errors=True)
        if module == 'IoLimits':
            saved = mod.opentxt
            mod.opentxt = lambda _f: np.array(case['limits'], dtype=np.int64)
            try:
                return [int(v) for v in mod.open_limits(a[0], limits_file='limits.dat')]
            finally:
                mod.opentxt = saved
        if module == 'UtilsDatasets':
            import math
            o_pr, o_ri = mod._propagate_MCMC, np.random.randint

            def echo(cummat, start, steps):
                cm, perm = cummat
                return np.array([int(start), int(steps)] + [int(math.floor(float(x) * 1024 + 0.5)) for x in np.asarray(cm).reshape(-1)] +
                                [int(x) for x in np.asarray(perm).reshape(-1)], dtype=np.int64)
            mod._propagate_MCMC = echo
            if 'oracle' in case:
                np.random.randint = lambda n_: case['oracle']['randint']
            try:
                mat = np.array(case['floats'], dtype=np.float64)
                res = mod.propagate_tmat(mat, a[1], a[2]) if k.endswith('start') else mod.propagate_tmat(mat, a[1])
                return [int(v) for v in res]
            finally:
                mod._propagate_MCMC, np.random.randint = o_pr, o_ri
        if module == 'MsmMcmcApi':
            import msmhelper as mh
            o_cm, o_pr, o_ch = mod._get_cummat, mod._propagate_MCMC, np.random.choice
            mod._get_cummat = lambda trajs, lagtime: (np.array([[1.0]]), np.array([[0]]))
            mod._propagate_MCMC = lambda cummat, start, steps: np.array(case['chain'], dtype=np.int32)
            np.random.choice = lambda xs: xs[0]
            try:
                return [int(v) for v in mod.propagate_MCMC(mh.StateTraj([np.array(a[0], dtype=np.int64)]), a[1], a[2], start=a[3])]
            finally:
                mod._get_cummat, mod._propagate_MCMC, np.random.choice = o_cm, o_pr, o_ch
        if module in ('MsmCkApi', 'MsmLinalg', 'MsmIts', 'MsmTimesApi', 'UtilsGauss'):
            return case['_run']()
        if module in ('MsmTimes', 'MdCompareApi', 'MdTimesApi', 'MdCoringApi', 'StateTrajAcc', 'LumpedAcc', 'StateTrajEst', 'LumpedEst') or (module == 'MsmTests' and k != '_calc_times'):
            return case['_run']()
        if module == 'MsmCummat':
            # the function estimates its matrix from trajectories: feed the chosen matrix through a stub of the estimator
            msm = np.array(case['floats'], dtype=np.float64)

            class _Stub:
                def __init__(self, *_a, **_k):
                    pass

                def estimate_markov_model(self, _lag):
                    return msm.copy(), None
            saved = mod.StateTraj
            mod.StateTraj = _Stub
            try:
                cm, sp = call(None, 1)
            finally:
                mod.StateTraj = saved
            return [[[core.rat_str(float(v)) for v in row] for row in cm], [[int(v) for v in row] for row in sp]]
        if module == 'MsmTimescales':
            cum = (np.array(case['floats'], dtype=np.float64), np.array(a[0][1], dtype=np.int64))
            rng_inject.inject([Fraction(q, G) for q in case['ks']] + [Fraction(1, 2)] * 4)
            try:
                if k == '_propagate_MCMC_step':
                    return int(call(cum, a[1]))
                if k == '_propagate_MCMC':
                    return [int(v) for v in call(cum, a[1], a[2])]
                S = numba.typed.List.empty_list(numba.int64)
                F = numba.typed.List.empty_list(numba.int64)
                for x in a[2]:
                    S.append(x)
                for x in a[3]:
                    F.append(x)
                if not a[2] or not a[3]:
                    # empty typed lists are fine for numba (typed), keep them
                    pass
                d = call(cum, a[1], S, F, a[4])
                return [[int(kk), int(vv)] for kk, vv in d.items()]
            finally:
                rng_inject.restore()
        raise core.HarnessError('genval: no real runner for %s' % k)

    try:
        out = {'ok': run()}
    except core.HarnessError:
        raise
    except Exception as e:  # noqa
        out = {'err': core.err_name(e)}
    if inputs is not None:
        rec2 = inputs.pop('_rec2', None)
        if rec2 is not None:
            inputs['oracle'] = {k_: rec2[k_] for k_ in ('choice', 'cummat', 'estimator') if k_ in rec2}
        rec4 = inputs.pop('_rec4', None)
        if rec4 is not None:
            inputs['oracle'] = {k_: v_ for k_, v_ in rec4.items() if k_ != 'md_paths_args'}
        rec3 = inputs.pop('_rec3', None)
        if rec3 is not None:
            inputs['oracle'] = rec3
        rec = inputs.pop('_rec', None)
        if rec is not None:
            if 'eig' in rec:
                vals, vecs = rec['eig']
                if np.any(np.abs(np.imag(vals)) > 0) or np.any(np.abs(np.imag(vecs)) > 0):
                    return {'skip': 'complex oracle answer'}
                inputs['oracle'] = {'eig': [[core.rat_str(float(np.real(v))) for v in vals],
                                            [[core.rat_str(float(np.real(x))) for x in row] for row in vecs]]}
            elif 'err' in rec:
                inputs['oracle'] = {'eig_err': rec['err']}
            else:
                inputs['oracle'] = {}
        out['inputs'] = inputs
    return out


def worker_main(argv):
    """python genval.py --worker <module> <in.jsonl> <out.jsonl>"""
    module, fin, fout = argv
    with open(fout, 'a') as out:
        for line in open(fin):
            case = json.loads(line)
            out.write(json.dumps(real_one(module, case)) + '\n')
            out.flush()
    return 0


# --------------------------------------------------------------------------- Gen side + comparison

def run_gen(module, cases):
    reqs = []
    for c in cases:
        r = {'k': c['k'], 'args': c['args']}
        if 'fuel' in c:
            r['fuel'] = c['fuel']
        if 'draws' in c:
            r['draws'] = c['draws']
        if 'oracle' in c:
            r['oracle'] = c['oracle']
        reqs.append(r)
    data = '\n'.join(json.dumps(r, separators=(',', ':')) for r in reqs) + '\n'
    p = subprocess.run(['lake', 'env', 'lean', '--run', 'MsmVerif/Gen/%sRun.lean' % module], cwd=core.LEAN_DIR, input=data,
                       capture_output=True, text=True, timeout=1200)
    lines = [l for l in p.stdout.split('\n') if l.strip()]
    if len(lines) != len(reqs):
        return None, (p.stderr or p.stdout)[-600:]
    return [json.loads(l) for l in lines], ''


def run_real(module, cases):
    import tempfile
    tmp = tempfile.mkdtemp(prefix='genval_')
    res, pos = [], 0
    env = dict(os.environ)
    env.setdefault('NUMBA_NUM_THREADS', '2')
    src = os.path.join(core.REPO, 'src')          # the working tree, never an installed copy
    if src not in env.get('PYTHONPATH', '').split(os.pathsep):
        env['PYTHONPATH'] = src + os.pathsep + os.path.dirname(os.path.abspath(__file__)) + (os.pathsep + env['PYTHONPATH'] if env.get('PYTHONPATH') else '')
    attempts = 0
    while pos < len(cases) and attempts < 6:
        attempts += 1
        fin, fout = os.path.join(tmp, 'in%d' % attempts), os.path.join(tmp, 'out%d' % attempts)
        with open(fin, 'w') as fh:
            for c in cases[pos:]:
                fh.write(json.dumps(c) + '\n')
        open(fout, 'w').close()
        subprocess.run([sys.executable, '-W', 'ignore', os.path.abspath(__file__), '--worker', module, fin, fout], env=env,
                       capture_output=True, text=True, timeout=1200)
        got = [json.loads(l) for l in open(fout).read().split('\n') if l.strip()]
        res.extend(got)
        pos += len(got)
        if pos < len(cases):
            res.append({'err': 'Crash'})
            pos += 1
    while len(res) < len(cases):
        res.append({'err': 'NotRun'})
    import shutil
    shutil.rmtree(tmp, ignore_errors=True)
    return res


def same(case, real, gen):
    if case.get('violates') and 'err' not in real:
        # outside the guarded domain of the specialisation: the translated function must say so, whatever the real one returned
        return gen.get('err', '').startswith('Other')
    if 'err' in real or 'err' in gen:
        if real.get('err') == 'NotRun':
            return True
        a, b = real.get('err'), gen.get('err')
        if a and b and a.startswith('Other') and b.startswith('Other'):
            return True
        return a == b
    r, g = real['ok'], gen['ok']
    k = case['k']
    if k == '_get_cummat':
        if r[1] != g[1] or len(r[0]) != len(g[0]):
            return False
        for rr, gg in zip(r[0], g[0]):
            if len(rr) != len(gg):
                return False
            for x, y in zip(rr, gg):
                fx, fy = Fraction(x), Fraction(y)
                if fy == 1 and fx != 1:
                    return False          # a forced 1 must be exactly 1
                if abs(fx - fy) > Fraction(1, 10 ** 14):
                    return False
        return True
    if case.get('np') and (k.startswith(('eigen', 'left_eigen', 'right_eigen')) or 'implied_timescales' in k):
        exact = 'implied' not in k

        def cx_same(x, y):
            if x is None or y is None:
                return x is None and y is None
            if isinstance(x, list) and len(x) == 2 and not isinstance(x[0], list) and isinstance(x[0], str):
                for u, v in zip(x, y):
                    fu, fv = Fraction(u), Fraction(v)
                    if exact:
                        if fu != fv:
                            return False
                    elif abs(fu - fv) > Fraction(1, 10 ** 11) * (abs(fu) + abs(fv)):
                        return False
                return True
            return isinstance(y, list) and len(x) == len(y) and all(cx_same(u, v) for u, v in zip(x, y))
        return cx_same(r, g)
    if k == 'chapman_kolmogorov_test':
        def unnest(cur, n_):
            flat = []
            while isinstance(cur, list) and len(cur) == 2 and len(flat) < n_ - 1:
                flat.append(cur[0])
                cur = cur[1]
            flat.append(cur)
            return flat

        def ck_same(a_, b_):
            if len(a_) != 4 or len(b_) != 4 or a_[1:] != b_[1:] or len(a_[0]) != len(b_[0]):
                return False
            return all(ka == kb and len(va) == len(vb) and all(abs(Fraction(x) - Fraction(y)) <= Fraction(1, 10 ** 9) for x, y in zip(va, vb))
                       for (ka, va), (kb, vb) in zip(a_[0], b_[0]))
        if len(g) != 2 or len(r[0]) != len(g[0]):
            return False
        for (la, ca), (lb, cb) in zip(r[0], g[0]):
            if la != lb or not ck_same(ca, unnest(cb, 4)):
                return False
        return ck_same(r[1], unnest(g[1], 4))
    if k in ('_chapman_kolmogorov_test', '_chapman_kolmogorov_test_md'):
        flat, cur = [], g
        while isinstance(cur, list) and len(cur) == 2 and len(flat) < 3:
            flat.append(cur[0])
            cur = cur[1]
        flat.append(cur)
        if len(flat) != 4 or flat[1:] != r[1:] or len(flat[0]) != len(r[0]):
            return False
        for (ka, va), (kb, vb) in zip(r[0], flat[0]):
            if ka != kb or len(va) != len(vb) or any(abs(Fraction(x) - Fraction(y)) > Fraction(1, 10 ** 9) for x, y in zip(va, vb)):
                return False
        return True
    if k == 'init' and case.get('macro') is not None:
        flat = []
        cur = g
        while isinstance(cur, list) and len(cur) == 2 and len(flat) < 4:      # right-nested pairs of the Lean tuple
            flat.append(cur[0])
            cur = cur[1]
        flat.append(cur)
        return r == flat
    if k == 'runningmean':
        return len(r) == len(g) and all(abs(Fraction(x) - Fraction(y)) <= Fraction(1, 10 ** 13) for x, y in zip(r, g))
    if k == 'estimate_markov_model' and case.get('micro') is not None:
        return r[1] == g[1] and len(r[0]) == len(g[0]) and all(
            len(a_) == len(b_) and all(abs(Fraction(x) - Fraction(y)) <= Fraction(1, 10 ** 8) for x, y in zip(a_, b_)) for a_, b_ in zip(r[0], g[0]))
    if k.startswith('estimate_markov_model_'):
        return r[1] == g[1] and len(r[0]) == len(g[0]) and all(
            len(a_) == len(b_) and all(abs(Fraction(x) - Fraction(y)) <= Fraction(1, 10 ** 15) for x, y in zip(a_, b_)) for a_, b_ in zip(r[0], g[0]))
    if k.startswith('compare_discretization_'):
        return abs(Fraction(r) - Fraction(g)) <= Fraction(1, 10 ** 12)
    if k in ('estimate_times_hist', 'estimate_waiting_times_hist', 'estimate_transition_times_hist'):
        return r[1] == g[1] and len(r[0]) == len(g[0]) and all(abs(Fraction(x) - Fraction(y)) <= Fraction(1, 10 ** 15) for x, y in zip(r[0], g[0]))
    if k == 'equilibrium_population':
        return len(r) == len(g) and all(abs(Fraction(x) - Fraction(y)) <= Fraction(1, 10 ** 12) for x, y in zip(r, g))
    if k in ('row_normalize_matrix', '_estimate_markov_model') and case.get('np'):
        tol = Fraction(1, 10 ** 14) if k == 'row_normalize_matrix' else Fraction(1, 10 ** 8)
        if len(r) != len(g) or any(len(x) != len(y) for x, y in zip(r, g)):
            return False
        return all(abs(Fraction(x) - Fraction(y)) <= tol * max(1, abs(Fraction(y))) for rr, gg in zip(r, g) for x, y in zip(rr, gg))
    if k in ('_compare_trajs_symmetric', '_compare_trajs_directed'):
        return abs(Fraction(r) - Fraction(g)) <= Fraction(1, 10 ** 12)
    if k == '_intersect_array':
        return [[Fraction(v) for v in row] for row in r] == [[Fraction(v) for v in row] for row in g]
    return r == g


def validate(pid, tier, rng, problems):
    """returns (summary dict for the evidence, list of disagreement records)"""
    per = {'quick': 60, 'thorough': 600, 'search': 250}[tier]
    summary, dis = {}, []
    for module, kernels in KERNELS_OF.get(pid, []):
        if problems.get(module + '.lean'):
            summary[module] = {'translated': False, 'problems': problems[module + '.lean']}
            dis.append({'kind': 'translator', 'module': module, 'problems': problems[module + '.lean']})
            continue
        cases = []
        for k in kernels:
            cases.extend(gen_cases(module, k, rng, per if module != 'StateTrajHS' else max(20, per // 3)))
        is_np = any(module == m for mods in NP_OF.values() for m, _ in mods)
        for c in cases:
            if is_np:
                c['np'] = True
        real = run_real(module, cases)
        # functions run on real objects report the inputs they actually received (attributes, oracle answers)
        kept_c, kept_r, skipped = [], [], 0
        for c, r in zip(cases, real):
            if 'skip' in r:
                skipped += 1
                continue
            if 'inputs' in r:
                c = dict(c, **r['inputs'])
            if c.get('args') is None:
                skipped += 1
                continue
            kept_c.append(c)
            kept_r.append(r)
        cases, real = kept_c, kept_r
        gen, err = run_gen(module, cases)
        if gen is None:
            summary[module] = {'translated': True, 'runs': False, 'error': err}
            dis.append({'kind': 'gen-driver', 'module': module, 'error': err})
            continue
        cnt = {}
        for c, r, g in zip(cases, real, gen):
            ent = cnt.setdefault(c['k'], {'cases': 0, 'errors': 0, 'py_mode': 0, 'disagree': 0})
            ent['cases'] += 1
            ent['errors'] += 1 if 'err' in g else 0
            ent['py_mode'] += 1 if c['mode'] == 'py' else 0
            if not same(c, r, g):
                ent['disagree'] += 1
                if len(dis) < 20:
                    dis.append({'kind': 'kernel', 'module': module, 'case': {x: c[x] for x in c if x not in ('floats',)},
                                'real': {x: r[x] for x in r if x != 'inputs'}, 'translated': g})
        summary[module] = {'translated': True, 'kernels': cnt}
        if skipped:
            summary[module]['skipped_constructor_errors'] = skipped
    return summary, dis


if __name__ == '__main__':
    if len(sys.argv) > 1 and sys.argv[1] == '--worker':
        sys.exit(worker_main(sys.argv[2:]))
    # stand-alone: python genval.py C05 [tier]
    pid = sys.argv[1]
    tier = sys.argv[2] if len(sys.argv) > 2 else 'quick'
    import py2lean
    _files, probs = py2lean.translate_all(core.REPO)
    s, d = validate(pid, tier, core.Rng(core.seed()), probs)
    print(json.dumps(s, indent=1))
    print('disagreements:', json.dumps(d, indent=1)[:3000])
