/-
Refine/TimesApi.lean — task RP13 (property C06): the TRANSLATED public wrappers `md.estimate_waiting_times` and
`md.estimate_paths` of `src/msmhelper/md/timescales.py` (`Gen/MdTimesApi.lean`) compute exactly the public model
(`Events.mdWaitingTimes`, `Events.mdPaths`) — validation block, kernels, and the final grouping into a dictionary.
The `StateTraj` object is given by its attributes: `trajs_states = st.sts`, `trajs_iter = ts` for `StateTraj.mk' ts = .ok st`.

Key order of the dictionary: the Python `dict` (and the translation) keeps keys in order of FIRST appearance
(`groupFirst`), the model's `Events.groupPaths` in order of LAST appearance; the buckets are identical.
-/
import MsmVerif.Refine.TimesApiLemmas
import MsmVerif.Props.C06

namespace MsmVerif.Refine.TimesApi
open MsmVerif MsmVerif.Gen MsmVerif.Events

/-! ### `np.unique` -/

/-- The runtime's `np.unique` (ascending distinct values) is the model's `sortDedup`. -/
theorem npUnique_refines (v : List Int) : npUnique v = sortDedup v := npUnique_eq_sortDedup v

/-! ### the validation block -/

/-- The validation block of `estimate_waiting_times` is the model's `validate`: `np.unique` of both lists, ValueError iff
`_intersect(start, final) ≠ 0` or `_intersect(states, trajs.states) ≠ len(states)` for one of the two lists (the merge
loops never run out of fuel and never raise `IndexError`); otherwise the kernel is called on the unique-sorted lists —
for both values of `numba.config.DISABLE_JIT`. -/
theorem estimate_waiting_times_validate (sts : List Int) (ts : List (List Int)) (start final : List Int) (flag : Bool) :
    Gen.MdTimesApi.estimate_waiting_times sts ts start final flag =
      match validate start final sts with
      | .error e => .error e
      | .ok (S, F) => Gen.MdTimescales.estimate_waiting_times ts S F := by
  unfold Gen.MdTimesApi.estimate_waiting_times validate
  simp only [npUnique_eq_sortDedup, List.forIn_cons, List.forIn_nil]
  rw [Compare.intersect_refines _ _ _ (by omega), Compare.intersect_refines _ sts _ (by omega),
    Compare.intersect_refines _ sts _ (by omega)]
  simp only [bind, Except.bind, pure, Except.pure, throw, throwThe, MonadExceptOf.throw, pyLen, natCast_bne,
    natCast_bne_zero]
  by_cases h1 : intersect (sortDedup start) (sortDedup final) ≠ 0
  · simp only [if_pos h1]
  · simp only [if_neg h1]
    by_cases h2 : intersect (sortDedup start) sts ≠ (sortDedup start).length
    · simp only [if_pos h2]
    · simp only [if_neg h2]
      by_cases h3 : intersect (sortDedup final) sts ≠ (sortDedup final).length
      · simp only [if_pos h3]
      · simp only [if_neg h3, ite_self]

/-- The validation block of `estimate_paths` is the model's `validate` as well; after it the kernel `_estimate_paths` is
called on the unique-sorted lists and its tuples are folded into the dictionary with `d[tuple(path)].append(time)`. -/
theorem estimate_paths_validate (sts : List Int) (ts : List (List Int)) (start final : List Int) (flag : Bool) :
    Gen.MdTimesApi.estimate_paths sts ts start final flag =
      match validate start final sts with
      | .error e => .error e
      | .ok (S, F) => (Gen.MdTimescales.estimate_paths ts S F).map
          (fun l => l.foldl (fun d pt => pyGroupAppend d pt.1 pt.2) []) := by
  unfold Gen.MdTimesApi.estimate_paths validate
  simp only [npUnique_eq_sortDedup, List.forIn_cons, List.forIn_nil]
  rw [Compare.intersect_refines _ _ _ (by omega), Compare.intersect_refines _ sts _ (by omega),
    Compare.intersect_refines _ sts _ (by omega)]
  simp only [bind, Except.bind, pure, Except.pure, throw, throwThe, MonadExceptOf.throw, pyLen, natCast_bne,
    natCast_bne_zero]
  by_cases h1 : intersect (sortDedup start) (sortDedup final) ≠ 0
  · simp only [if_pos h1]
  · simp only [if_neg h1]
    by_cases h2 : intersect (sortDedup start) sts ≠ (sortDedup start).length
    · simp only [if_pos h2]
    · simp only [if_neg h2]
      by_cases h3 : intersect (sortDedup final) sts ≠ (sortDedup final).length
      · simp only [if_pos h3]
      · simp only [if_neg h3, ite_self]
        cases MdTimescales.estimate_paths ts (sortDedup start) (sortDedup final) with
        | error e => rfl
        | ok v =>
          simp only [Except.map]
          rw [Events.forIn_yield v _ (fun d pt => pyGroupAppend d pt.1 pt.2) [] (fun _ _ _ => rfl)]

/-! ### waiting times -/

/-- **`md.estimate_waiting_times` refines the public model**: for every trajectory set `ts` (whose `StateTraj` object is
`st`), every `start` and `final` list and both values of the configuration flag, the translated wrapper returns exactly
what `Events.mdWaitingTimes` returns — the same ValueError on overlapping / absent states, otherwise the same waiting
times (as Python integers), in the same order; no other exception is possible. -/
theorem estimate_waiting_times_api_refines (ts : Trajs) (st : StateTraj) (h : StateTraj.mk' ts = .ok st)
    (start final : List Int) (flag : Bool) :
    Gen.MdTimesApi.estimate_waiting_times st.sts ts start final flag
      = (Events.mdWaitingTimes ts start final).map (·.map Int.ofNat) := by
  rw [estimate_waiting_times_validate]
  unfold mdWaitingTimes
  rw [h]
  simp only
  cases validate start final st.sts with
  | error e => rfl
  | ok p =>
    obtain ⟨S, F⟩ := p
    simp only [Except.map]
    exact Events.wt_refines ts S F

/-- The result of the translated `estimate_waiting_times` does not depend on `numba.config.DISABLE_JIT`. -/
theorem estimate_waiting_times_api_flag_irrelevant (sts : List Int) (ts : Trajs) (start final : List Int) (f1 f2 : Bool) :
    Gen.MdTimesApi.estimate_waiting_times sts ts start final f1
      = Gen.MdTimesApi.estimate_waiting_times sts ts start final f2 := by
  rw [estimate_waiting_times_validate, estimate_waiting_times_validate]

/-- The translated `estimate_waiting_times` raises ValueError exactly when `start` and `final` share a label or one of
them contains a label that does not occur in the trajectories. -/
theorem estimate_waiting_times_api_reject (ts : Trajs) (st : StateTraj) (h : StateTraj.mk' ts = .ok st)
    (start final : List Int) (flag : Bool) :
    Gen.MdTimesApi.estimate_waiting_times st.sts ts start final flag = .error .value ↔
      (∃ x ∈ start, x ∈ final) ∨ (∃ x ∈ start, x ∉ ts.flatten) ∨ (∃ x ∈ final, x ∉ ts.flatten) := by
  rw [estimate_waiting_times_api_refines ts st h, ← C06.reject ts start final st h]
  cases mdWaitingTimes ts start final <;> simp [Except.map]

/-- Otherwise it returns (no exception) the model's waiting times for the unique-sorted sets. -/
theorem estimate_waiting_times_api_accept (ts : Trajs) (st : StateTraj) (h : StateTraj.mk' ts = .ok st)
    (start final : List Int) (flag : Bool)
    (hok : ¬ ((∃ x ∈ start, x ∈ final) ∨ (∃ x ∈ start, x ∉ ts.flatten) ∨ (∃ x ∈ final, x ∉ ts.flatten))) :
    Gen.MdTimesApi.estimate_waiting_times st.sts ts start final flag
      = .ok ((waitingTimes (sortDedup start) (sortDedup final) ts).map Int.ofNat) := by
  rw [estimate_waiting_times_api_refines ts st h, C06.accept ts start final st h hok]
  rfl

/-! ### the dictionary -/

/-- **the translated dictionary loop**: folding `d[tuple(path)].append(time)` over a tuple list, starting from the empty
dictionary, gives the association list `groupFirst`: keys in order of FIRST appearance, and under each key the times of the
tuples with that path, in order of occurrence. -/
theorem pyGroupAppend_fold_eq_groupFirst (l : List (List Int × Int)) :
    l.foldl (fun d pt => pyGroupAppend d pt.1 pt.2) [] = groupFirst l := by
  have h := fold_groupFirst l []
  rw [List.nil_append] at h
  exact h

/-- The model's `groupPaths` has the same buckets but lists its keys in order of LAST appearance. -/
theorem groupPaths_eq_groupLast (l : List (List Int × Nat)) :
    groupPaths l = (lastKeys (l.map (·.1))).map (fun k => (k, bucket l k)) := groupPaths_eq_lastKeys l

/-- Order of last appearance is the order of first appearance of the reversed list, reversed. -/
theorem lastKeys_eq_reverse_firstKeys (ks : List (List Int)) : lastKeys ks = (firstKeys ks.reverse).reverse :=
  lastKeys_eq_reverse ks

/-- **relation between the translated dictionary and the model's `groupPaths`**: the fold of `pyGroupAppend` over the
(integer-cast) tuples is a PERMUTATION of the model's dictionary (with integer-cast buckets): same keys, identical
value lists under each key; only the key order differs (first vs. last appearance). -/
theorem pyGroupAppend_fold_perm_groupPaths (l : List (List Int × Nat)) :
    ((l.map (fun p => (p.1, (p.2 : Int)))).foldl (fun d pt => pyGroupAppend d pt.1 pt.2) []).Perm
      (dictI (groupPaths l)) := by
  rw [fold_eq_dictI]
  exact (groupFirst_perm_groupPaths l).map _

/-- The insertion-ordered dictionary has pairwise different keys. -/
theorem groupFirst_keys_nodup (l : List (List Int × Nat)) : ((groupFirst l).map (·.1)).Nodup := by
  rw [groupFirst_keys]; exact firstKeys_nodup _

/-- The insertion-ordered dictionary has a bucket `(k, ds)` iff path `k` occurs, and then `ds` are exactly the durations
of the tuples with path `k`, in order of occurrence (the same characterisation as `C06.dict_bucket` for `groupPaths`). -/
theorem groupFirst_bucket (l : List (List Int × Nat)) (k : List Int) (ds : List Nat) :
    (k, ds) ∈ groupFirst l ↔ ds ≠ [] ∧ ds = (l.filter (fun e => e.1 == k)).map (·.2) :=
  mem_groupFirst_iff l k ds

/-- The insertion-ordered dictionary and the model's `groupPaths` are the same finite map (`sameDict`), also after the
oracle's canonicalisation. -/
theorem groupFirst_sameDict_groupPaths (l : List (List Int × Nat)) :
    sameDict (groupFirst l) (groupPaths l) = true ∧
    sameDict (canonDict (groupFirst l)) (canonDict (groupPaths l)) = true :=
  ⟨sameDict_of_perm _ _ (groupFirst_perm_groupPaths l) (groupFirst_keys_nodup l), sameDict_canon_groupFirst l⟩

/-- Equality with `groupPaths` itself is FALSE in general (key order): a path that recurs after another path appeared. -/
example :
    ([([1, 2], 3), ([1, 3, 2], 5), ([1, 2], 1)] : List (List Int × Int)).foldl (fun d pt => pyGroupAppend d pt.1 pt.2) []
      = [([1, 2], [3, 1]), ([1, 3, 2], [5])]
    ∧ groupPaths [([1, 2], 3), ([1, 3, 2], 5), ([1, 2], 1)] = [([1, 3, 2], [5]), ([1, 2], [3, 1])] := by decide

/-! ### pathways -/

/-- **`md.estimate_paths` refines the public model**: for every trajectory set, `start`/`final` lists and both flag
values the translated wrapper raises the same ValueError as `Events.mdPaths`, and otherwise returns the dictionary
(insertion-ordered association list) obtained from the model's (path, time) tuples by grouping by path: keys in order
of first appearance, under each key the times (as Python integers) in order of occurrence.  This is the model's
`groupPaths` up to the order of the keys (`pyGroupAppend_fold_perm_groupPaths`, `groupFirst_sameDict_groupPaths`). -/
theorem estimate_paths_api_refines (ts : Trajs) (st : StateTraj) (h : StateTraj.mk' ts = .ok st)
    (start final : List Int) (flag : Bool) :
    Gen.MdTimesApi.estimate_paths st.sts ts start final flag
      = (Events.mdPaths ts start final).map (fun l => dictI (groupFirst l)) := by
  rw [estimate_paths_validate]
  unfold mdPaths
  rw [h]
  simp only
  cases validate start final st.sts with
  | error e => rfl
  | ok p =>
    obtain ⟨S, F⟩ := p
    simp only [Except.map]
    rw [Events.paths_refines]
    simp only
    rw [fold_eq_dictI]

/-- Hence the translated `estimate_paths` returns a permutation of the model's dictionary `groupPaths` of the model's
tuples (same keys, identical buckets; the key order is first appearance instead of last appearance). -/
theorem estimate_paths_api_perm (ts : Trajs) (st : StateTraj) (h : StateTraj.mk' ts = .ok st)
    (start final : List Int) (flag : Bool) (l : List (List Int × Nat)) (hl : Events.mdPaths ts start final = .ok l) :
    ∃ d, Gen.MdTimesApi.estimate_paths st.sts ts start final flag = .ok d ∧ d.Perm (dictI (groupPaths l)) := by
  rw [estimate_paths_api_refines ts st h, hl]
  exact ⟨_, rfl, (groupFirst_perm_groupPaths l).map _⟩

/-- The dictionary returned by the translated `estimate_paths` (read back as natural numbers: it is `dictI` of
`groupFirst`) satisfies the differential oracle `holdsPaths` of property C06. -/
theorem estimate_paths_api_holds (ts : Trajs) (st : StateTraj) (h : StateTraj.mk' ts = .ok st)
    (start final : List Int) :
    holdsPaths ts start final ((mdPaths ts start final).map groupFirst) = true := by
  rw [mdPaths_eq ts start final st h]
  by_cases hb : badSets (sortDedup start) (sortDedup final) (states ts) = true
  · rw [if_pos hb]
    unfold badSets at hb
    simp only [holdsPaths, hb, Except.map]
    rfl
  · rw [if_neg hb]
    have hb' : badSets (sortDedup start) (sortDedup final) (states ts) = false := by simpa using hb
    unfold badSets at hb'
    simp only [holdsPaths, hb', Except.map, ← pathsAll_eq_specTuples]
    rw [sameDict_canon_groupFirst]
    rfl

/-- The result of the translated `estimate_paths` does not depend on `numba.config.DISABLE_JIT`. -/
theorem estimate_paths_api_flag_irrelevant (sts : List Int) (ts : Trajs) (start final : List Int) (f1 f2 : Bool) :
    Gen.MdTimesApi.estimate_paths sts ts start final f1 = Gen.MdTimesApi.estimate_paths sts ts start final f2 := by
  rw [estimate_paths_validate, estimate_paths_validate]

/-- The translated `estimate_paths` raises ValueError exactly when `start` and `final` share a label or one of them
contains a label that does not occur in the trajectories. -/
theorem estimate_paths_api_reject (ts : Trajs) (st : StateTraj) (h : StateTraj.mk' ts = .ok st)
    (start final : List Int) (flag : Bool) :
    Gen.MdTimesApi.estimate_paths st.sts ts start final flag = .error .value ↔
      (∃ x ∈ start, x ∈ final) ∨ (∃ x ∈ start, x ∉ ts.flatten) ∨ (∃ x ∈ final, x ∉ ts.flatten) := by
  rw [estimate_paths_api_refines ts st h, ← C06.reject_paths ts start final st h]
  cases mdPaths ts start final <;> simp [Except.map]

/-- Otherwise it returns (no exception) the insertion-ordered dictionary of the model's tuples for the unique-sorted sets. -/
theorem estimate_paths_api_accept (ts : Trajs) (st : StateTraj) (h : StateTraj.mk' ts = .ok st)
    (start final : List Int) (flag : Bool)
    (hok : ¬ ((∃ x ∈ start, x ∈ final) ∨ (∃ x ∈ start, x ∉ ts.flatten) ∨ (∃ x ∈ final, x ∉ ts.flatten))) :
    Gen.MdTimesApi.estimate_paths st.sts ts start final flag
      = .ok (dictI (groupFirst (pathsAll (sortDedup start) (sortDedup final) ts))) := by
  rw [estimate_paths_api_refines ts st h, mdPaths_eq ts start final st h]
  have hb := badSets_eq_true_iff (sortDedup start) (sortDedup final) (states ts)
  simp only [mem_sortDedup, mem_states] at hb
  rw [← hb] at hok
  rw [if_neg hok]
  rfl

/-! ### non-vacuity: two trajectories, an open event at a trajectory end (dropped), an event that closes on the last
frame of a trajectory, loops `2,4,2` that are erased, and a path that recurs (key order first ≠ last appearance) -/

/-- first trajectory: event `0..4` with the loop `2,4,2`, then an event opened at frame 5 that never closes;
second trajectory: event `1..3`, then event `4..8` (loop `2,4,2`) closing on the very last frame -/
def exTs : Trajs := [[0, 2, 4, 2, 3, 1, 2], [4, 1, 2, 3, 0, 2, 4, 2, 3]]
/-- the `StateTraj` object of `exTs` (labels already `0..4`, so the index trajectories are the label trajectories) -/
def exSt : StateTraj := ⟨exTs, [0, 1, 2, 3, 4]⟩

example : StateTraj.mk' exTs = .ok exSt := by decide

example (flag : Bool) : Gen.MdTimesApi.estimate_waiting_times exSt.sts exTs [1, 0, 0] [3] flag = .ok [4, 2, 4] := by
  rw [estimate_waiting_times_api_accept exTs exSt (by decide) _ _ _ (by decide)]; decide

example (flag : Bool) : Gen.MdTimesApi.estimate_paths exSt.sts exTs [1, 0, 0] [3] flag
    = .ok [([0, 2, 3], [4, 4]), ([1, 2, 3], [2])] := by
  rw [estimate_paths_api_accept exTs exSt (by decide) _ _ _ (by decide)]; decide

/-- the model's dictionary for the same input: same buckets, the other key order -/
example : (mdPaths exTs [1, 0, 0] [3]).map groupPaths = .ok [([1, 2, 3], [2]), ([0, 2, 3], [4, 4])] := by
  rw [mdPaths_eq exTs _ _ exSt (by decide)]; decide

/-- overlapping sets and an absent label are refused with ValueError -/
example (flag : Bool) : Gen.MdTimesApi.estimate_waiting_times exSt.sts exTs [0, 3] [3] flag = .error .value :=
  (estimate_waiting_times_api_reject exTs exSt (by decide) _ _ flag).mpr (by decide)
example (flag : Bool) : Gen.MdTimesApi.estimate_paths exSt.sts exTs [0] [7] flag = .error .value :=
  (estimate_paths_api_reject exTs exSt (by decide) _ _ flag).mpr (by decide)

/-- the hypotheses of the rejection theorems on the concrete input -/
example : ¬ ((∃ x ∈ ([1, 0, 0] : List Int), x ∈ ([3] : List Int)) ∨ (∃ x ∈ ([1, 0, 0] : List Int), x ∉ exTs.flatten) ∨
    (∃ x ∈ ([3] : List Int), x ∉ exTs.flatten)) := by decide

end MsmVerif.Refine.TimesApi
