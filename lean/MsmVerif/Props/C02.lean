/-
Props/C02.lean — property theorems for C02 (StateTraj / LumpedStateTraj are faithful, isolated views) on the heap
model of Model/Heap.lean.  Helper lemmas live in Lemmas/Heap.lean and Lemmas/StateTraj.lean.

Reading of the property: arrays live at heap addresses.  The object keeps PRIVATE addresses (`Obj.addrs`), the
caller holds the KNOWN addresses (arrays it created, among them the constructor arguments, and every array an
accessor returned) and can write into those only.  `report s` is everything the object can report (the contents of
its private arrays); every accessor is a function `Acc.eval` of the report.  `Inv s` says that all addresses are
allocated and no private address is known to the caller.

Guard: the lookup-table branch of the constructor goes through an `int32` table, so the round-trip theorems assume
`LabelGuard ts` (all labels in `[-2^29, 2^29]`).
-/
import MsmVerif.Lemmas.Heap

namespace MsmVerif.C02
open MsmVerif MsmVerif.Heap

/-! ### 1. the separation invariant -/

/-- A state without object in which every known address is allocated satisfies the invariant. -/
theorem inv_init (h : List (List Int)) (k : List Addr) (hk : ∀ a ∈ k, a < h.length) :
    Inv { heap := h, obj := none, known := k } :=
  ⟨hk, trivial⟩

/-- Every operation preserves the invariant: allocation only appends to the heap, the caller only learns freshly
allocated addresses (never a private one), constructors put the object on fresh addresses, writes keep all sizes. -/
theorem step_inv (s : State) (op : Op) (h : Inv s) : Inv (step s op).1 := inv_step s op h

/-- Every sequence of operations preserves the invariant. -/
theorem run_inv (s : State) (ops : List Op) (h : Inv s) : Inv (run s ops).1 := inv_run s ops h

example : Inv exState := inv_init _ _ (by decide)
example : Inv (run exState (.construct [0, 1] :: exOps)).1 := run_inv _ _ (inv_init _ _ (by decide))
example : (run exState (.construct [0, 1] :: exOps)).1.obj = some { idx := [2, 3], sts := 4 } := by decide
example : (run exState (.construct [0, 1] :: exOps)).1.known = [0, 1, 5, 6, 7, 8, 9, 10] := by decide

/-! ### 2. allocated arrays keep their contents -/

/-- No operation changes the contents of an already allocated address `a`, except a `write a _ _`. -/
theorem heap_prefix {s : State} {op : Op} {a : Addr} (ha : a < s.heap.length)
    (hw : ∀ pos v, op ≠ .write a pos v) : (step s op).1.read a = s.read a :=
  read_step_of_lt ha hw

/-- A `write a _ _` into an address the caller does not know is a no-op (state unchanged). -/
theorem heap_prefix_write_unknown {s : State} {a : Addr} (pos : Nat) (v : Int) (h : a ∉ s.known) :
    step s (.write a pos v) = (s, []) := step_write_unknown pos v h

/-- A `write a' _ _` changes no address other than `a'`. -/
theorem heap_prefix_write_other {s : State} {a a' : Addr} (pos : Nat) (v : Int) (hne : a' ≠ a) :
    (step s (.write a' pos v)).1.read a = s.read a := read_write_ne pos v hne

/-- What a write does to its target: entry `pos` is set to `v` if the caller knows the address, nothing otherwise. -/
theorem write_target (s : State) (a : Addr) (pos : Nat) (v : Int) :
    (step s (.write a pos v)).1.read a = if a ∈ s.known then (s.read a).set pos v else s.read a :=
  read_write_self s a pos v

/-- The heap never shrinks: allocated addresses stay allocated. -/
theorem heap_mono (s : State) (op : Op) : s.heap.length ≤ (step s op).1.heap.length := heap_length_step s op

example : (step exState (.write 0 1 42)).1.read 0 = [3, 42, 3] ∧ (step exState (.write 0 1 42)).1.read 1 = [7, 5] := by
  decide
example : (step exState (.write 7 1 42)).1.read 0 = [3, 5, 3] := by decide

/-! ### 3. isolation -/

/-- Under the invariant, an operation that is not a constructor call does not change anything the object reports. -/
theorem report_step {s : State} {op : Op} (h : Inv s) (hc : op.isCtor = false) :
    report (step s op).1 = report s := report_step_of_inv h hc

/-- Isolation: under the invariant no sequence of reads, of writes into returned arrays, of writes into the arrays
handed to the constructor, or of new caller arrays changes anything the object reports. -/
theorem isolated {s : State} {ops : List Op} (h : Inv s) (hc : NoCtor ops) :
    report (run s ops).1 = report s := report_run_of_inv h hc

example : NoCtor exOps := by decide
/-- the example session: construct, read, overwrite a returned array and a constructor argument, read again -/
example : report (run (step exState (.construct [0, 1])).1 exOps).1
    = some { idxTrajs := [[0, 1, 0], [2, 1]], sts := [3, 5, 7], macroSts := none, assign := none } := by decide
example : (run (step exState (.construct [0, 1])).1 exOps).1.read 5 = [99, 5, 3] ∧
    (run (step exState (.construct [0, 1])).1 exOps).1.read 0 = [3, 42, 3] := by decide

/-! ### 4. accessors return fresh arrays -/

/-- An accessor call on an object reporting `r` returns `acc.eval r`; the returned arrays sit at the next free
addresses `new` (beyond everything allocated before, hence different from every private address and from every
address the caller knew), they hold exactly `acc.eval r`, the caller learns exactly these addresses, and the
object is unchanged. -/
theorem access_fresh {s : State} (acc : Acc) {r : Report} (hr : report s = some r) :
    let res := step s (.access acc)
    let new := (List.range (acc.eval r).length).map (· + s.heap.length)
    res.2 = acc.eval r ∧ res.1.known = s.known ++ new ∧ res.1.obj = s.obj ∧
    (∀ a ∈ new, s.heap.length ≤ a ∧ a < res.1.heap.length) ∧
    new.map res.1.read = acc.eval r := by
  intro res new
  have hres : res = _ := step_access_some acc hr
  rw [hres]
  refine ⟨rfl, rfl, rfl, ?_, map_getD_alloc _ _⟩
  intro a ha
  have := mem_alloc_addrs.mp ha
  simp only [List.length_append]
  exact this

/-- Under the invariant the addresses returned by an accessor are disjoint from the private addresses of the object
and from the addresses the caller already knew. -/
theorem access_disjoint {s : State} (acc : Acc) {r : Report} (hinv : Inv s) (hr : report s = some r) :
    ∀ a ∈ (List.range (acc.eval r).length).map (· + s.heap.length),
      a ∉ s.known ∧ ∀ o, (step s (.access acc)).1.obj = some o → a ∉ o.addrs := by
  intro a ha
  have hlow := (mem_alloc_addrs.mp ha).1
  rw [inv_iff] at hinv
  refine ⟨fun hk => Nat.lt_irrefl _ (Nat.lt_of_lt_of_le (hinv.1 a hk) hlow), ?_⟩
  intro o ho hmem
  rw [(access_fresh acc hr).2.2.1] at ho
  exact Nat.lt_irrefl _ (Nat.lt_of_lt_of_le (hinv.2 o ho a hmem).1 hlow)

example : (step (step exState (.construct [0, 1])).1 (.access .trajs)).2 = [[3, 5, 3], [7, 5]] := by decide
example : (step (step exState (.construct [0, 1])).1 (.access .trajs)).1.known = [0, 1, 5, 6] := by decide

/-! ### 5. round trip of `StateTraj` -/

/-- `StateTraj(ts)` for the arrays `ts` at `args` (labels within the 32-bit guard): the object reports the ascending
distinct labels `states ts` and the rank of every label as index trajectories; `trajs` gives back `ts`,
`states` the state list, `index_trajs` the ranks, the flattened variants and `[k]` accordingly; the counters are
`ntrajs = ts.length`, `nframes = Σ len`, `nstates = (states ts).length`. -/
theorem roundtrip {s : State} {args : List Addr} {ts : Trajs} (hts : args.map s.read = ts)
    (hg : LabelGuard ts) :
    ∃ r, report (step s (.construct args)).1 = some r ∧
      r.sts = states ts ∧ r.idxTrajs = rankTrajs ts ∧ r.macroSts = none ∧ r.assign = none ∧
      Acc.trajs.eval r = ts ∧
      Acc.states.eval r = [states ts] ∧
      Acc.indexTrajs.eval r = ts.map (·.map (fun x => (rank (states ts) x : Int))) ∧
      Acc.trajsFlatten.eval r = [ts.flatten] ∧
      Acc.indexTrajsFlatten.eval r = [ts.flatten.map (fun x => (rank (states ts) x : Int))] ∧
      (∀ k, (Acc.getitem k).eval r = [ts.getD k []]) ∧
      r.idxTrajs.length = ts.length ∧
      (r.idxTrajs.map List.length).sum = (ts.map List.length).sum ∧
      r.sts.length = (states ts).length := by
  subst hts
  refine ⟨_, report_construct_guard hg, rfl, rfl, rfl, rfl, ?_, rfl, rfl, ?_, ?_, ?_, ?_, ?_, rfl⟩
  · exact evalTrajs_plain _ _
  · simp only [Acc.eval, evalTrajs_plain]
  · simp only [Acc.eval, evalIndexTrajs_plain]
    simp only [rankTrajs, List.map_flatten]
  · intro k
    simp only [Acc.eval, evalTrajs_plain]
  · simp [rankTrajs]
  · simp only [rankTrajs, List.map_map, Function.comp_def, List.length_map]

/-- Construction copies: after a successful `StateTraj(ts)` every private address of the new object is freshly
allocated, so it is none of the argument addresses (all allocated before) and none of the known addresses;
the argument arrays themselves are untouched. -/
theorem construct_fresh {s : State} {args : List Addr} (hg : LabelGuard (args.map s.read)) :
    ∃ o, (step s (.construct args)).1.obj = some o ∧
      (∀ a ∈ o.addrs, s.heap.length ≤ a) ∧
      ((∀ a ∈ args, a < s.heap.length) → ∀ a ∈ o.addrs, a ∉ args) ∧
      (Inv s → ∀ a ∈ o.addrs, a ∉ s.known) ∧
      (∀ a, a < s.heap.length → (step s (.construct args)).1.read a = s.read a) := by
  obtain ⟨o, ho, hfresh⟩ := addrs_construct_ok (mk'_eq_rank hg)
  refine ⟨o, ho, hfresh, ?_, ?_, ?_⟩
  · intro hargs a ha hmem
    exact Nat.lt_irrefl _ (Nat.lt_of_lt_of_le (hargs a hmem) (hfresh a ha))
  · intro hinv a ha hmem
    exact Nat.lt_irrefl _ (Nat.lt_of_lt_of_le (hinv.1 a hmem) (hfresh a ha))
  · intro a ha
    exact heap_prefix ha (fun _ _ h => by cases h)

example : LabelGuard ([0, 1].map exState.read) := by decide
example : [0, 1].map exState.read = [[3, 5, 3], [7, 5]] := by decide
example : report (step exState (.construct [0, 1])).1
    = some { idxTrajs := [[0, 1, 0], [2, 1]], sts := [3, 5, 7], macroSts := none, assign := none } := by decide

/-! ### 6. round trip of `LumpedStateTraj` -/

/-- `LumpedStateTraj(mac, mic)` for a consistent lumping `mac = f ∘ mic` (hence of equal shapes) with micro labels
within the 32-bit guard: the micro accessors give back `mic`, its state list and the ranks; the state assignment is
`f` on the microstates; `trajs` gives back `mac`, `states` the macrostate list and `index_trajs` the rank of every
macro label. -/
theorem lumped_roundtrip {s : State} {macroArgs microArgs : List Addr} {mic mac : Trajs} (f : Int → Int)
    (hmic : microArgs.map s.read = mic) (hmac : macroArgs.map s.read = mac)
    (hf : mac = mic.map (·.map f)) (hg : LabelGuard mic) :
    ∃ r, report (step s (.constructLumped macroArgs microArgs)).1 = some r ∧
      Acc.microTrajs.eval r = mic ∧
      Acc.microstates.eval r = [states mic] ∧
      Acc.microIndexTrajs.eval r = mic.map (·.map (fun x => (rank (states mic) x : Int))) ∧
      Acc.stateAssignment.eval r = [(states mic).map f] ∧
      Acc.trajs.eval r = mac ∧
      Acc.states.eval r = [states mac] ∧
      Acc.indexTrajs.eval r = mac.map (·.map (fun x => (rank (states mac) x : Int))) ∧
      Acc.trajsFlatten.eval r = [mac.flatten] ∧
      (∀ k, (Acc.getitem k).eval r = [mac.getD k []]) := by
  subst hmic hmac
  have hasg := assignment_of_consistent (microArgs.map s.read) f
  rw [← hf] at hasg
  refine ⟨_, report_constructLumped_guard hg, decode_rankTrajs _, rfl, rfl, ?_, ?_, rfl, ?_, ?_, ?_⟩
  · simp only [Acc.eval, hasg, Option.getD_some]
  · simp only [Acc.eval, hasg, evalTrajs_lumped]
    exact hf.symm
  · simp only [Acc.eval, hasg, evalIndexTrajs_lumped]
    rw [← hf]
  · simp only [Acc.eval, hasg, evalTrajs_lumped]
    rw [← hf]
  · intro k
    simp only [Acc.eval, hasg, evalTrajs_lumped]
    rw [← hf]

/-- Construction of a lumped object copies as well: all private addresses are freshly allocated. -/
theorem lumped_construct_fresh {s : State} {macroArgs microArgs : List Addr}
    (hg : LabelGuard (microArgs.map s.read)) :
    ∃ o, (step s (.constructLumped macroArgs microArgs)).1.obj = some o ∧
      (∀ a ∈ o.addrs, s.heap.length ≤ a) ∧
      ((∀ a ∈ macroArgs ++ microArgs, a < s.heap.length) → ∀ a ∈ o.addrs, a ∉ macroArgs ++ microArgs) := by
  obtain ⟨o, ho, hfresh⟩ := addrs_constructLumped_ok (macroArgs := macroArgs) (mk'_eq_rank hg)
  refine ⟨o, ho, hfresh, ?_⟩
  intro hargs a ha hmem
  exact Nat.lt_irrefl _ (Nat.lt_of_lt_of_le (hargs a hmem) (hfresh a ha))

/-- non-vacuity: micro trajectories `[3,5,3]`, `[7,5]` lumped by `3, 5 ↦ 1` and `7 ↦ 2` -/
example : (⟨[[3, 5, 3], [7, 5], [1, 1, 1], [2, 1]], none, [0, 1, 2, 3]⟩ : State).read 2 = [1, 1, 1] := by decide
example : ([2, 3].map (⟨[[3, 5, 3], [7, 5], [1, 1, 1], [2, 1]], none, [0, 1, 2, 3]⟩ : State).read)
    = ([0, 1].map (⟨[[3, 5, 3], [7, 5], [1, 1, 1], [2, 1]], none, [0, 1, 2, 3]⟩ : State).read).map
        (·.map (fun x => if x = 7 then 2 else 1)) := by decide
example : report (step ⟨[[3, 5, 3], [7, 5], [1, 1, 1], [2, 1]], none, [0, 1, 2, 3]⟩ (.constructLumped [2, 3] [0, 1])).1
    = some { idxTrajs := [[0, 1, 0], [2, 1]], sts := [3, 5, 7], macroSts := some [1, 2], assign := some [1, 1, 2] } := by
  decide

/-! ### 7. constructing from an existing object -/

/-- `StateTraj(obj)` returns that same object: the state is unchanged and no array is created. -/
theorem reconstruct_id (s : State) : step s .reconstruct = (s, []) := rfl

end MsmVerif.C02
