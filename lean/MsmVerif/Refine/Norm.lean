/-
Refine/Norm.lean — task RP7 (properties C01, C03, C04, C19, C09): the numpy-vectorised functions TRANSLATED from Python
(`Gen.MsmNorm.row_normalize_matrix`, `Gen.PlotCkTest.split_array`, `Gen.MsmTests.calc_times`) compute exactly the hand-written
models (`Msm.rowNormalizeQ` / `Msm.rowNormalize`, `TextIO.chunks`, `Timescales.ckTimes`), raise no error in the caller's range,
raise `ZeroDivisionError` for a zero chunk size / lag time, and `row_normalize_matrix` never divides by zero.
-/
import MsmVerif.Refine.NormLemmas

namespace MsmVerif.Refine.Norm
open MsmVerif MsmVerif.Gen

/-! ### `row_normalize_matrix` -/

/-- the column of divisors of `row_normalize_matrix`: for every row its sum, or 1 where that sum is 0 -/
def divisors (m : List (List Rat)) : List Rat := m.map (fun row => if row.sum = 0 then 1 else row.sum)

/-- For every rational matrix (any number of rows, rows of any lengths — also the empty matrix and a single row, where the
    broadcasting rule of `npMatCol` takes its special first branch) the translated `row_normalize_matrix` raises no error and returns
    exactly the model's `rowNormalizeQ`: every row divided by its sum, rows with sum 0 divided by 1. -/
theorem row_normalize_refines_any (m : List (List Rat)) :
    Gen.MsmNorm.row_normalize_matrix m = .ok (Msm.rowNormalizeQ m) := by
  rw [row_normalize_eq_matCol, matCol_eq _ _ _ (by simp [npSumAxis1])]
  unfold npSumAxis1 Msm.rowNormalizeQ
  rw [List.map_map, zipWith_map_self]
  rfl

/-- `row_normalize_matrix` on any non-empty rational matrix: no error, and the result equals the model's `rowNormalizeQ`.
    (The hypothesis `m ≠ []` is what the Python caller guarantees — numpy has no 0×0 `atleast_2d` array; the Lean statement holds without
    it, see `row_normalize_refines_any`.) -/
theorem row_normalize_refines (m : List (List Rat)) (_hne : m ≠ []) :
    Gen.MsmNorm.row_normalize_matrix m = .ok (Msm.rowNormalizeQ m) :=
  row_normalize_refines_any m

example : ([[1, 2], [0, 0], [3, -3]] : List (List Rat)) ≠ [] := by simp
example : Gen.MsmNorm.row_normalize_matrix [[1, 2], [0, 0], [3, -3]] = .ok [[1/3, 2/3], [0, 0], [3, -3]] := by
  rw [row_normalize_refines _ (by simp)]; simp [Msm.rowNormalizeQ]; grind
example : Gen.MsmNorm.row_normalize_matrix [[1, 2, 5]] = .ok [[1/8, 1/4, 5/8]] := by
  rw [row_normalize_refines _ (by simp)]; simp [Msm.rowNormalizeQ]; grind

/-- On a count matrix (what `estimate_markov_model` passes, entries cast to rationals): `row_normalize_matrix` raises no error and
    returns exactly the model's `rowNormalize` (every count divided by its row total; rows without counts stay zero). -/
theorem row_normalize_counts (c : List (List Nat)) (_hne : c ≠ []) :
    Gen.MsmNorm.row_normalize_matrix (c.map (·.map (fun (k : Nat) => (k : Rat)))) = .ok (Msm.rowNormalize c) := by
  rw [row_normalize_refines_any, rowNormalizeQ_cast]

example : ([[1, 3], [0, 0]] : List (List Nat)) ≠ [] := by simp
example : Gen.MsmNorm.row_normalize_matrix [[((1 : Nat) : Rat), ((3 : Nat) : Rat)], [((0 : Nat) : Rat), ((0 : Nat) : Rat)]]
    = .ok [[1/4, 3/4], [0, 0]] := by
  rw [show ([[((1 : Nat) : Rat), ((3 : Nat) : Rat)], [((0 : Nat) : Rat), ((0 : Nat) : Rat)]] : List (List Rat))
      = ([[1, 3], [0, 0]] : List (List Nat)).map (·.map (fun (k : Nat) => (k : Rat))) from rfl,
    row_normalize_counts _ (by simp)]
  simp [Msm.rowNormalize]; grind

/-- The guard of `row_normalize_matrix` makes every divisor non-zero, in three parts:
    (1) the only division the function evaluates is the broadcast `mat / column` (`npMatCol`) with the column `divisors m`
        (row sum, or 1 where the row sum is 0) — whichever branch of the `if not row_sum.all()` guard is taken;
    (2) no entry of that column is 0;
    (3) consequently the result does not depend on what `x / 0` means: replacing `/` by ANY operation `dv` that agrees with `/`
        on non-zero divisors (e.g. one that returns `inf`/`nan` or anything else for a zero divisor) gives the same result. -/
theorem row_normalize_divisors_nonzero (m : List (List Rat)) :
    Gen.MsmNorm.row_normalize_matrix m = npMatCol (fun x y => x / y) m (divisors m)
    ∧ (∀ d ∈ divisors m, d ≠ 0)
    ∧ (∀ dv : Rat → Rat → Rat, (∀ x y, y ≠ 0 → dv x y = x / y) →
        npMatCol dv m (divisors m) = Gen.MsmNorm.row_normalize_matrix m) := by
  have hd : divisors m = (npSumAxis1 m).map guard1 := by
    unfold divisors npSumAxis1; rw [List.map_map]; rfl
  have hnz : ∀ d ∈ divisors m, d ≠ 0 := by
    intro d hmem
    rw [hd] at hmem
    obtain ⟨s, _, rfl⟩ := List.mem_map.1 hmem
    exact guard1_ne_zero s
  refine ⟨by rw [hd]; exact row_normalize_eq_matCol m, hnz, ?_⟩
  intro dv hdv
  rw [row_normalize_eq_matCol, ← hd]
  exact matCol_congr _ _ _ _ (fun x y hy => hdv x y (hnz y hy))

example : divisors [[1, 2], [0, 0], [3, -3]] = [3, 1, 1] := by simp [divisors]; grind

/-! ### `_split_array` -/

/-- `_split_array(array, chunksize)` for every array and every chunksize ≥ 1 raises no error (no `ZeroDivisionError`, no `IndexError` at
    `split[-1]`) and returns exactly the model's `chunks`: consecutive chunks of `chunksize` entries, a shorter last chunk for the
    remainder, no empty chunk (properties of `chunks`: `C19.chunks`). -/
theorem split_array_refines (a : List Int) (c : Nat) (hc : 1 ≤ c) :
    Gen.PlotCkTest.split_array a (c : Int) = .ok (TextIO.chunks a c) := by
  unfold Gen.PlotCkTest.split_array pyTrueDiv
  rw [if_neg (intCast_ne_zero _ (by omega))]
  simp only [bind, Except.bind, pure, Except.pure, pyLen]
  rw [trunc_div _ _ (by omega) (by omega)]
  have hq : ((a.length : Int) / (c : Int)) = ((a.length / c : Nat) : Int) := by simp
  have := split_go a c (a.length / c) 0 (by rw [Nat.zero_add]; exact Nat.div_mul_le_self _ _)
  simp only [Nat.zero_mul, Int.natCast_zero, Int.zero_add, Nat.zero_add, List.drop_zero] at this
  unfold npSplit
  rw [hq, this, pyGet_last]
  have hR : TextIO.chunks a c = fullChunks c (a.length / c) a ++
      (if a.length % c = 0 then [] else [a.drop (a.length / c * c)]) := by
    unfold TextIO.chunks
    rw [if_neg (show ¬ c = 0 by omega)]
    exact chunks_go c hc (a.length / c) a a.length (a.length % c)
      (by rw [Nat.mul_comm]; exact (Nat.div_add_mod _ _).symm) (Nat.mod_lt _ (by omega)) (Nat.le_refl _)
  have hm : a.length - a.length / c * c = a.length % c := by
    have := Nat.div_add_mod a.length c
    rw [Nat.mul_comm] at this
    omega
  rw [hR]
  simp only [List.length_drop, hm]
  by_cases h0 : a.length % c = 0
  · rw [h0]; simp [pySlice_dropLast]
  · rw [if_neg h0]
    have : ¬ ((((a.length % c : Nat) : Int) == 0) = true) := by
      rw [beq_iff_eq]; omega
    rw [if_neg this]

example : Gen.PlotCkTest.split_array [1, 2, 3, 4, 5] ((2 : Nat) : Int) = .ok [[1, 2], [3, 4], [5]] := by
  rw [split_array_refines _ _ (by decide)]; congr 1
example : Gen.PlotCkTest.split_array [1, 2, 3, 4] ((2 : Nat) : Int) = .ok [[1, 2], [3, 4]] := by
  rw [split_array_refines _ _ (by decide)]; congr 1

/-- `_split_array(array, 0)` raises `ZeroDivisionError` (translated as `Err.other`) for every array. -/
theorem split_array_zero (a : List Int) : Gen.PlotCkTest.split_array a 0 = .error .other := by
  unfold Gen.PlotCkTest.split_array pyTrueDiv
  rw [if_pos (by rfl)]
  rfl

/-! ### `_calc_times` -/

/-- `_calc_times(lagtime, tmax)` for every lag time ≥ 1 and every `tmax ≥ 0` raises no error and returns exactly the model's time grid
    `lag, 2·lag, …, ⌊tmax / lag⌋·lag`. -/
theorem calc_times_refines (lag tmax : Nat) (hlag : 1 ≤ lag) :
    Gen.MsmTests.calc_times (lag : Int) (tmax : Int) = .ok ((Timescales.ckTimes lag tmax).map Int.ofNat) := by
  unfold Gen.MsmTests.calc_times pyTrueDiv
  rw [if_neg (intCast_ne_zero _ (by omega))]
  simp only [bind, Except.bind, pure, Except.pure, npFloor]
  rw [floor_div_int _ _ (by omega), trunc_intCast _ (Int.ediv_nonneg (by omega) (by omega))]
  congr 1
  unfold npArange pyRange Timescales.ckTimes
  simp only [List.map_map]
  have : ((tmax : Int) / (lag : Int) + 1 - 1).toNat = tmax / lag := by
    rw [Int.add_sub_cancel, ← Int.natCast_ediv, Int.toNat_natCast]
  rw [this]
  apply List.map_congr_left
  intro k _
  simp only [Function.comp, Int.ofNat_eq_natCast, Int.natCast_mul, Int.natCast_add, Int.natCast_one]
  rw [Int.mul_comm, Int.add_comm]

example : Gen.MsmTests.calc_times ((3 : Nat) : Int) ((10 : Nat) : Int) = .ok [3, 6, 9] := by
  rw [calc_times_refines _ _ (by decide)]; congr 1

/-- `_calc_times(0, tmax)` raises `ZeroDivisionError` (translated as `Err.other`) for every `tmax`. -/
theorem calc_times_zero (tmax : Int) : Gen.MsmTests.calc_times 0 tmax = .error .other := by
  unfold Gen.MsmTests.calc_times pyTrueDiv
  rw [if_pos (by rfl)]
  rfl

end MsmVerif.Refine.Norm

section AxiomCheck
open MsmVerif.Refine.Norm
end AxiomCheck
