"""C08 — MSM waiting / transition times are first-passage statistics of the chain (exact coupling)."""
from fractions import Fraction

import numpy as np

import core
import gen
import rng_inject
from props.c03 import sample_chain
from props.c07 import G, _choose_draws

PID = 'C08'
ANCHORS = [('src/msmhelper/msm/timescales.py', ['_estimate_times', 'estimate_waiting_times', 'estimate_transition_times',
                                                '_estimate_waiting_times', '_estimate_transition_times', 'estimate_paths',
                                                'propagate_MCMC', '_get_cummat', '_propagate_MCMC_step'])]
RULE = ('models estimated from random trajectories (2-6 states, any labels, lags 1-3), disjoint start/final sets of 1-3 states, 1-300 steps, '
        'waiting times / transition times in list and histogram form and msm.estimate_paths; the draws of the compiled generator are injected, so '
        'the realised chain is known and the output must be EXACTLY the event statistics of that chain (list: sorted durations x lag; histogram: '
        'counts/(total*lag), edges k*lag); deterministic cyclic models with > 2^20 steps judged against the md extraction on the reconstructed '
        'realisation; before each call the same frames split differently are analysed in the same process. Malformed: overlapping / absent states. Non-trivial = >=1 event; distinct by (model, sets, steps, draws).')
RELATION = ('estimate_waiting_times / estimate_transition_times / estimate_paths under injected draws = Events.msmWtLoop / msmTtLoop / mdPaths on '
            'Mcmc.realised / Mcmc.chain of the code\'s own cumulative matrix (which C07 judges against the exact model)')
TRUSTED = ['RNG state injection as in C07; np.random.choice of the start state is reseeded and recomputed by the harness',
           'the distributional clause (first-passage law of T) is a prose corollary of C07.step_interval + C08.wt_is_md_events, not formalised']
PARTIAL = 'distribution clause in prose'


def _mk(kind, trajs, lag, S, F, steps, return_list, useed, src='rand', bad=None, stretch=1):
    # stretch = L: the real code gets every frame repeated L times (narrowest dtype) and lag time lag*L; the pairs (i, i+lag*L) of the
    # stretched trajectory are L copies of the pairs (k, k+lag) of the base trajectory, so T is the same matrix (checked: the captured
    # cumulative matrix is judged against the exact model of the BASE trajectory) while all times are multiplied by lag*L — this reaches
    # time values beyond 2^31 frames with chains of a few hundred steps
    return {'op': kind, 'trajs': trajs, 'lag': lag, 'S': S, 'F': F, 'steps': steps, 'return_list': return_list, 'useed': useed,
            'src': src, 'bad': bad, 'stretch': stretch}


def cases(tier, rng, boost=1):
    yield _mk('wt', [[0, 1, 2, 1, 0, 0, 1, 2, 2, 1, 0, 1, 1, 2, 0, 2, 1, 0]], 1, [0], [2], 200, True, 11, src='corpus')   # D4: unsorted list
    # rare transition T_01 = T_02 < 1e-5: the tail of the cumulative row must stay reachable
    yield _mk('wt', [[0] * 120000 + [1, 0, 2, 1, 2, 0, 0, 1, 1, 2, 2, 0]], 1, [0], [2], 40, True, 12, src='corpus')
    # very long lag time (stretched trajectory): durations of ~300 steps x lag 7.2e6 exceed 2^31 frames (32-bit time arithmetic wraps there)
    # (base chain 0 <-> 1 with a rare exit 1 -> 2; draws: always the most probable move, then the least probable one = one event of ~300 steps)
    BIG = [[0, 1, 0, 1, 0, 1, 2, 0, 1, 0, 1, 0]]
    yield dict(_mk('wt', BIG, 1, [0], [2], 310, True, 13, src='corpus-biglag', stretch=7200000), draws='long')
    if tier != 'quick':
        yield dict(_mk('tt', BIG, 1, [1], [2], 310, True, 14, src='corpus-biglag', stretch=7200000), draws='long')
        yield dict(_mk('wt', BIG, 1, [0], [2], 310, False, 15, src='corpus-biglag', stretch=7200000), draws='long')
    # deterministic chains (every row of T has a single 1): the realisation does not depend on the draws, so runs far longer than the
    # ~300 injectable draws can be judged exactly: the result must be the md extraction on the (reconstructed) realisation
    for steps in ((1 << 20) + 5, 5 * (1 << 19) + 7) if tier == 'quick' else ((1 << 20), (1 << 20) + 5, 5 * (1 << 19) + 7, 3 * (1 << 20) + 1):
        yield _mk('det_paths', [[3, 5, 9] * 6], 1, [3, 5], [9], steps, True, 21, src='corpus-det')
    yield _mk('det_paths', [[1, 2, 3, 4, 5] * 4], 2, [1], [4], (1 << 20) + 77, True, 22, src='corpus-det')
    n = {'quick': 250, 'thorough': 4000, 'search': 800}[tier] * boost
    for _ in range(n):
        ns = rng.randint(2, 6)
        labs, _ = gen.alphabet(rng, ns)
        idx = [sample_chain(rng, ns, rng.choice([30, 80])) for _ in range(rng.randint(1, 2))]
        trajs = gen.relabel(idx, labs)
        occ = sorted({x for t in trajs for x in t})
        if len(occ) < 2:
            continue
        pool = list(occ)
        rng.shuffle(pool)
        a = rng.randint(1, min(3, len(pool) - 1))
        S, F = pool[:a], pool[a:a + rng.randint(1, min(3, len(pool) - a))]
        bad = None
        r = rng.random()
        if r < 0.05:
            F = F + [S[0]]
            bad = 'overlap'
        elif r < 0.1:
            S = S + [max(occ) + 4]
            bad = 'absent'
        kind = rng.choice(['wt', 'wt', 'tt', 'paths'])
        yield _mk(kind, trajs, rng.randint(1, 3), S, F, rng.choice([1, 2, 5, 20, 60, 150, 300]), rng.random() < 0.5,
                  rng.randrange(1 << 30), bad=bad)


def real(case):
    import msmhelper as mh
    from msmhelper.msm import timescales as ts
    rng = core.Rng(case['useed'])
    L = case.get('stretch', 1)
    if L == 1:
        trajs = [np.array(t, dtype=np.int64) for t in case['trajs']]
    else:
        trajs = [np.repeat(np.array(t, dtype=np.int8), L) for t in case['trajs']]
    cap = {}
    if not case['bad'] and L == 1 and case['op'] != 'det_paths':
        # the same frames, split differently, analysed just before in the same process: nothing may leak into this call
        flat = np.concatenate(trajs)
        decoy = [flat] if len(trajs) > 1 else [flat[:len(flat) // 2], flat[len(flat) // 2:]]
        try:
            ts.propagate_MCMC(decoy, case['lag'], 2)
        except Exception:  # noqa
            pass
        # … and a LUMPED object with exactly these macrostate trajectories (finer microstates underneath): equal as a state trajectory, another model
        try:
            micro = [np.array([2 * int(x) + (1 if (i * 7919 + 3 * int(x)) % 13 < 6 else 0) for i, x in enumerate(t)], dtype=np.int64) for t in trajs]     # aperiodic split
            ts.propagate_MCMC(mh.LumpedStateTraj([t.copy() for t in trajs], micro), case['lag'], 2)
        except Exception:  # noqa
            pass
    np.random.seed(case['useed'] & 0x7fffffff)
    if case['op'] == 'det_paths':
        orig = ts._propagate_MCMC

        def wrapper(cummat, start, steps):
            cap['cum'], cap['perm'], cap['start'], cap['steps'] = cummat[0].copy(), cummat[1].copy(), int(start), int(steps)
            return orig(cummat=cummat, start=start, steps=steps)
        ts._propagate_MCMC = wrapper
        try:
            res = core.call(lambda: mh.msm.estimate_paths(trajs=trajs, lagtime=case['lag'], start=case['S'], final=case['F'], steps=case['steps']))
        finally:
            ts._propagate_MCMC = orig
        if 'err' in res:
            return {'err': res['err']}
        states = np.unique(np.concatenate(trajs))
        # reconstruct the only possible realisation: every cumulative row jumps to 1 at its first column
        if not all(row[0] == 1.0 for row in cap['cum']):
            return {'err': 'HarnessException', 'msg': 'model is not deterministic'}
        nxt = [int(row[0]) for row in cap['perm']]
        chain = np.empty(cap['steps'], dtype=np.int64)
        cur = cap['start']
        period = []
        while cur not in period:
            period.append(cur)
            cur = nxt[cur]
        if cur != period[0]:
            return {'err': 'HarnessException', 'msg': 'not a pure cycle'}
        chain = np.array(period, dtype=np.int64)[np.arange(cap['steps']) % len(period)]
        exp = mh.md.estimate_paths([states[chain]], case['S'], case['F'])

        def canon(d, mult=1):
            return sorted([[int(x) for x in k], sorted(int(v) * mult for v in vs)] for k, vs in d.items())
        return {'ok': {'dict': canon(res['ok']), 'expected': canon(exp), 'steps': cap['steps']}}
    if case['op'] == 'paths':
        orig = ts._propagate_MCMC

        def wrapper(cummat, start, steps):
            cap['cum'], cap['perm'], cap['start'], cap['steps'] = cummat[0].copy(), cummat[1].copy(), int(start), int(steps)
            cap['us'] = []
            ks, _ = _choose_draws(cap['cum'], cap['perm'], cap['start'], max(steps - 1, 0), rng)
            cap['us'] = ks
            rng_inject.inject([Fraction(k, G) for k in ks])
            return orig(cummat=cummat, start=start, steps=steps)
        ts._propagate_MCMC = wrapper
        try:
            res = core.call(lambda: mh.msm.estimate_paths(trajs=trajs, lagtime=case['lag'] * L, start=case['S'], final=case['F'],
                                                          steps=case['steps']))
        finally:
            ts._propagate_MCMC = orig
            rng_inject.restore()
        if 'err' in res:
            out = {'err': res['err']}
            if cap:
                out['cap'] = _cap(cap, trajs)
            return out
        d = res['ok']
        return {'ok': {'dict': sorted([[int(x) for x in k], sorted(int(v) for v in vs)] for k, vs in d.items())}, 'cap': _cap(cap, trajs)}
    name = '_estimate_waiting_times' if case['op'] == 'wt' else '_estimate_transition_times'
    orig = getattr(ts, name)

    def wrapper(cummat, start, states_from, states_to, steps):
        cap['cum'], cap['perm'], cap['start'], cap['steps'] = cummat[0].copy(), cummat[1].copy(), int(start), int(steps)
        cap['Sidx'], cap['Fidx'] = [int(x) for x in states_from], [int(x) for x in states_to]
        cap['us'] = []
        if case.get('draws') == 'long':
            # u = 0 always takes the most probable transition; the last two draws take the least probable one: one long event
            ks = [0] * (steps - 2) + [G - 1] * 2
        else:
            ks, _ = _choose_draws(cap['cum'], cap['perm'], cap['start'], steps, rng)
        cap['us'] = ks
        rng_inject.inject([Fraction(k, G) for k in ks])
        return orig(cummat=cummat, start=start, states_from=states_from, states_to=states_to, steps=steps)
    setattr(ts, name, wrapper)
    fn = mh.msm.estimate_waiting_times if case['op'] == 'wt' else ts.estimate_transition_times
    try:
        res = core.call(lambda: fn(trajs=trajs, lagtime=case['lag'] * L, start=case['S'], final=case['F'], steps=case['steps'],
                                   return_list=case['return_list']))
    finally:
        setattr(ts, name, orig)
        rng_inject.restore()
    if 'err' in res:
        out = {'err': res['err']}
        if cap:
            out['cap'] = _cap(cap, trajs)
        return out
    r = res['ok']
    if case['return_list']:
        return {'ok': {'list': [int(x) for x in np.asarray(r)]}, 'cap': _cap(cap, trajs)}
    dens, edges = r
    return {'ok': {'density': [core.rat_str(float(v)) for v in dens], 'edges': [int(e) for e in edges]}, 'cap': _cap(cap, trajs)}


def _cap(cap, trajs):
    d = {'cum': [[core.rat_str(v) for v in row] for row in cap['cum']], 'perm': [[int(v) for v in row] for row in cap['perm']],
         'start': cap['start'], 'steps': cap['steps'], 'us': cap['us'],
         'states': sorted({int(s) for t in trajs for s in np.unique(t)})}
    if 'Sidx' in cap:
        d['Sidx'], d['Fidx'] = cap['Sidx'], cap['Fidx']
    return d


def request(case, obs):
    if 'cap' not in obs or case['op'] == 'det_paths':
        return {'op': 'ping'}
    c = obs['cap']
    us = ['%d/%d' % (k, G) for k in c['us']]
    if case['op'] == 'paths':
        return {'op': 'msm_paths', 'cum': c['cum'], 'perm': c['perm'], 'start': c['start'], 'steps': c['steps'], 'us': us,
                'states': c['states'], 'S': case['S'], 'F': case['F'], 'trajs': case['trajs'], 'lag': case['lag']}
    return {'op': 'msm_times', 'cum': c['cum'], 'perm': c['perm'], 'start': c['start'], 'steps': c['steps'], 'us': us,
            'S': c['Sidx'], 'F': c['Fidx'], 'lag': case['lag'], 'kind': case['op'], 'trajs': case['trajs']}


def _group(tuples):
    d = {}
    for p, t in tuples:
        d.setdefault(tuple(p), []).append(t)
    return sorted([list(k), sorted(v)] for k, v in d.items())


def agree(case, obs, reply):
    if case['bad']:
        return obs.get('err') == 'ValueError'
    if case['op'] == 'det_paths':
        return 'ok' in obs and obs['ok']['steps'] == case['steps'] and obs['ok']['dict'] == obs['ok']['expected']
    if 'cap' not in obs:
        return False
    if obs['cap']['steps'] != case['steps'] or not reply.get('cum_ok', False):
        return False      # the chain must be driven by the cumulative matrix of THIS model (judged against the exact T)
    # the start state handed to the estimator must be one of the final states (idx), as documented in the wrapper
    m = reply['model']
    if case['op'] == 'paths':
        if 'err' in m or 'err' in obs:
            return m.get('err') == obs.get('err')
        return _group(m['ok']) == obs['ok']['dict']
    mo = m['ok']
    L = case.get('stretch', 1)
    if L != 1:
        mo = dict(mo, list=[v * L for v in mo['list']], edges=[e * L for e in mo['edges']],
                  density=[str(Fraction(d) / L) for d in mo['density']])
    if 'err' in obs:
        # histogram form without a single event: max() of an empty sequence → ValueError
        return obs['err'] == 'ValueError' and not case['return_list'] and not mo['hist']
    if case['return_list']:
        return mo['list'] == obs['ok']['list']
    if not mo['hist']:
        return False
    return (mo['edges'] == obs['ok']['edges'] and len(mo['density']) == len(obs['ok']['density']) and
            all(float(Fraction(a)) == float(Fraction(b)) for a, b in zip(mo['density'], obs['ok']['density'])))


def holds(case, obs, reply):
    ok = agree(case, obs, reply)
    if case['op'] == 'det_paths':
        return ok
    if ok and 'ok' in obs and case['op'] != 'paths' and not case['return_list']:
        # density integrates to one over the returned edges
        dens = [Fraction(v) for v in obs['ok']['density']]
        edges = obs['ok']['edges']
        integral = sum(d * (b - a) for d, a, b in zip(dens, edges, edges[1:]))
        lagt = case['lag'] * case.get('stretch', 1)
        ok = abs(integral - 1) <= Fraction(1, 10 ** 12) and all(b - a == lagt for a, b in zip(edges, edges[1:])) and edges[0] == 0
    if ok and 'ok' in obs and case['op'] != 'paths' and case['return_list']:
        lst = obs['ok']['list']
        ok = all(a <= b for a, b in zip(lst, lst[1:])) and all(v % (case['lag'] * case.get('stretch', 1)) == 0 for v in lst)
    return ok


def nontrivial(case, obs, reply):
    if 'ok' not in obs:
        return False
    o = obs['ok']
    return bool(o.get('list') or o.get('density') or o.get('dict'))


def key(case):
    return [case['op'], case['trajs'], case['lag'], case['S'], case['F'], case['steps'], case['return_list'], case['useed'], case.get('stretch', 1)]


def classify(case, obs, reply):
    return '%s/%s/%s/%s' % (case['op'], 'list' if case['return_list'] else 'hist', case['bad'] or 'valid', obs.get('err', 'ok'))


def known_match(k, case, obs, reply):
    return False


def shrink(case):
    if case['steps'] > 1:
        yield dict(case, steps=case['steps'] // 2)
        yield dict(case, steps=case['steps'] - 1)
