/-
Refine/TimesPublicLemmas.lean — helper lemmas for Refine/TimesPublic.lean (task RP26, property C08): the translated public
`msm.estimate_paths` of `src/msmhelper/msm/timescales.py` is "validate, then `propagate_MCMC(trajs, lagtime, steps)`, then the md
pathway extraction on the ORIGINAL start / final lists".
-/
import MsmVerif.Gen.MsmTimesApi
import MsmVerif.Refine.Times
import MsmVerif.Refine.Small

namespace MsmVerif.Refine.TimesPublic
open MsmVerif MsmVerif.Gen MsmVerif.Events

theorem natCast_bne_zero' (n : Nat) : (((n : Int) != 0) = true) ↔ n ≠ 0 := by
  simp

theorem natCast_bne' (n m : Nat) : (((n : Int) != (m : Int)) = true) ↔ n ≠ m := by
  simp

/-- `do let t ← x; return t` is `x` (the public wrappers of `_estimate_times` are exactly this) -/
theorem bind_pure_py {α : Type} (x : Py α) : (do let t ← x; return t) = x := by
  cases x <;> rfl

/-- **the translated `msm.estimate_paths`, completely** (every state list, every start / final list, every oracle): the validation block is
the model's `Events.validate` (the same block as in `md.estimate_paths`, `_estimate_times`); if it fails the result is its `ValueError` and no
oracle is consulted; otherwise the chain is `propagate_MCMC(trajs, lagtime, steps)` with the default start `-1`, and the result is the md
pathway oracle applied to that chain and the ORIGINAL `start` / `final` lists. -/
theorem paths_unfold
    (mdp : List Int → List Int → List Int → Py (List (List Int × List Int)))
    (choice : List Int → Py Int) (getc : Int → Py (List (List Rat) × List (List Int)))
    (prop : List (List Rat) × List (List Int) → Int → Int → Py (List Int))
    (ss : List Int) (lag : Int) (S F : List Int) (steps : Int) :
    Gen.MsmTimesApi.estimate_paths mdp choice getc prop ss lag S F steps =
      match validate S F ss with
      | .error e => .error e
      | .ok _ => Gen.MsmMcmcApi.propagate_MCMC choice getc prop ss lag steps (-1) >>= fun chain => mdp chain S F := by
  unfold Gen.MsmTimesApi.estimate_paths validate
  simp only [Times.npUnique_eq_sortDedup, List.forIn_cons, List.forIn_nil]
  rw [Compare.intersect_refines _ _ _ (by omega), Compare.intersect_refines _ ss _ (by omega),
    Compare.intersect_refines _ ss _ (by omega)]
  simp only [bind, Except.bind, pure, Except.pure, throw, throwThe, MonadExceptOf.throw, pyLen, natCast_bne',
    natCast_bne_zero']
  by_cases h1 : intersect (sortDedup S) (sortDedup F) ≠ 0
  · simp only [if_pos h1]
  · simp only [if_neg h1]
    by_cases h2 : intersect (sortDedup S) ss ≠ (sortDedup S).length
    · simp only [if_pos h2]
    · simp only [if_neg h2]
      by_cases h3 : intersect (sortDedup F) ss ≠ (sortDedup F).length
      · simp only [if_pos h3]
      · simp only [if_neg h3]

/-- on an ascending state list the validation accepts exactly the disjoint start / final sets of existing states -/
theorem validate_ok (ss S F : List Int) (hss : ss.Pairwise (· < ·)) (hd : ∀ x ∈ S, x ∉ F)
    (hS : ∀ x ∈ S, x ∈ ss) (hF : ∀ x ∈ F, x ∈ ss) :
    validate S F ss = .ok (sortDedup S, sortDedup F) := by
  rw [validate_eq S F ss hss, if_neg]
  rw [badSets_eq_true_iff]
  rintro (⟨x, hx, hx'⟩ | ⟨x, hx, hx'⟩ | ⟨x, hx, hx'⟩)
  · exact hd x ((Events.mem_sortDedup S x).mp hx) ((Events.mem_sortDedup F x).mp hx')
  · exact hx' (hS x ((Events.mem_sortDedup S x).mp hx))
  · exact hx' (hF x ((Events.mem_sortDedup F x).mp hx))

theorem validate_bad (ss S F : List Int) (hss : ss.Pairwise (· < ·))
    (h : (∃ x, x ∈ S ∧ x ∈ F) ∨ (∃ x ∈ S ++ F, x ∉ ss)) :
    validate S F ss = .error .value := by
  rw [validate_eq S F ss hss, if_pos]
  rw [badSets_eq_true_iff]
  rcases h with ⟨x, hx, hx'⟩ | ⟨x, hx, hxs⟩
  · exact Or.inl ⟨x, (Events.mem_sortDedup S x).mpr hx, (Events.mem_sortDedup F x).mpr hx'⟩
  · rcases List.mem_append.mp hx with hx | hx
    · exact Or.inr (Or.inl ⟨x, (Events.mem_sortDedup S x).mpr hx, hxs⟩)
    · exact Or.inr (Or.inr ⟨x, (Events.mem_sortDedup F x).mpr hx, hxs⟩)

/-- conversely, a `ValueError` of the validation means overlapping sets or an absent state -/
theorem validate_error_iff (ss S F : List Int) (hss : ss.Pairwise (· < ·)) :
    (∃ e, validate S F ss = .error e) ↔ ((∃ x, x ∈ S ∧ x ∈ F) ∨ (∃ x ∈ S ++ F, x ∉ ss)) := by
  constructor
  · rintro ⟨e, he⟩
    by_cases hd : ∀ x ∈ S, x ∉ F
    · by_cases hS : ∀ x ∈ S, x ∈ ss
      · by_cases hF : ∀ x ∈ F, x ∈ ss
        · rw [validate_ok ss S F hss hd hS hF] at he; cases he
        · simp only [not_forall] at hF
          obtain ⟨x, hx, hxs⟩ := hF
          exact Or.inr ⟨x, List.mem_append.mpr (Or.inr hx), hxs⟩
      · simp only [not_forall] at hS
        obtain ⟨x, hx, hxs⟩ := hS
        exact Or.inr ⟨x, List.mem_append.mpr (Or.inl hx), hxs⟩
    · simp only [not_forall, Decidable.not_not] at hd
      obtain ⟨x, hx, hx'⟩ := hd
      exact Or.inl ⟨x, hx, hx'⟩
  · intro h
    exact ⟨_, validate_bad ss S F hss h⟩

end MsmVerif.Refine.TimesPublic
