/-
Refine/Accessors.lean — task RP18 (property C02; also C03 / C17): the TRANSLATED accessors of `StateTraj`
(`Gen/StateTrajAcc.lean`: `states`, `nstates`, `ntrajs`, `nframes`, `index_trajs`, `index_trajs_flatten`, `trajs`,
`trajs_flatten`) and the TRANSLATED constructor and accessors of `LumpedStateTraj` (`Gen/LumpedAcc.lean`: `init`,
`microstate_trajs`, `microstate_trajs_flatten`, `state_assignment_idx`, `trajs`, `index_trajs`) of
`src/msmhelper/statetraj.py` compute what the hand-written models say: `StateTraj.trajs`, `StateTraj.nstates` …
(`Model/Basic.lean`) and the accessor values `Acc.eval` of the heap model's `Report` (`Model/Heap.lean`), on which the C02
theorems (`Props/C02.lean`: `roundtrip`, `lumped_roundtrip`) are stated.

Sections: 1 plain object, accessor by accessor (unconditional);  2 plain object, construct-then-read;  3 the lumped
constructor;  4 the lumped accessors on an arbitrary object state (under the invariant `DecodeOk`);  5 lumped object,
construct-then-read;  6 the link to the heap model;  7 discrepancies and quirks, with concrete inputs.

Findings (details and `example`s in section 7):
* `LumpedStateTraj.microstate_trajs` tests `microstates == arange(1, nstates + 1)` with the number of MACRO states.  This is
  harmless on every object the constructor can build (`lumped_microstate_trajs_constructed`: the result is the micro input for
  EVERY macro state list) and on every object state satisfying the invariant (`lumped_microstate_trajs_eval`); it differs
  from `StateTraj.trajs` only on object states no constructor produces (`microstate_trajs_quirk`).
* `find_first` returns `-1` only for a value that does not occur (`find_first_absent`); the constructor searches for the
  distinct labels OF the micro data in the micro data, so the `-1` branch is dead — this is where `mem_states` is used in
  `lumped_init_of_first` (no hypothesis of the theorem is needed for it).  What CAN go wrong is a macro input shorter than the first occurrence of some micro state:
  then `macrotrajs_flatten[idx_first]` is an `IndexError` (`lumped_init_index_error`).
* On an object built from all-empty trajectories the translated `LumpedStateTraj.trajs` / `index_trajs` (like the real code:
  `np.min` of an empty array) raise `ValueError`, while the heap model's `Acc.eval` returns the empty trajectories; hence the
  hypothesis `mic.flatten ≠ []` in the lumped read-back theorems (`lumped_trajs_empty`).

Helper lemmas: `Refine/AccessorsLemmas.lean`.
-/
import MsmVerif.Refine.AccessorsLemmas
open MsmVerif MsmVerif.Gen

namespace MsmVerif.Refine.Accessors

/-! ## 1. plain object: every accessor, on an arbitrary object state `(idx, sts)` -/

/-- **`StateTraj.states`** returns the stored state list `_states`, and raises nothing. -/
theorem states_refines (st : StateTraj) : StateTrajAcc.states st.sts = .ok st.sts := rfl

/-- **`StateTraj.nstates`** is the model's `nstates` (length of the state list). -/
theorem nstates_refines (st : StateTraj) : StateTrajAcc.nstates st.sts = .ok (st.nstates : Int) := rfl

/-- **`StateTraj.ntrajs`** is the model's `ntrajs` (number of index trajectories). -/
theorem ntrajs_refines (st : StateTraj) : StateTrajAcc.ntrajs st.idx = .ok (st.ntrajs : Int) := rfl

/-- **`StateTraj.nframes`** is the model's `nframes` (sum of the lengths of all index trajectories). -/
theorem nframes_refines (st : StateTraj) : StateTrajAcc.nframes st.idx = .ok (st.nframes : Int) := by
  unfold StateTrajAcc.nframes StateTraj.nframes
  rw [sum_map_pyLen]; rfl

/-- **`StateTraj.index_trajs`** returns (copies of) the stored index trajectories, unchanged. -/
theorem index_trajs_refines (st : StateTraj) : StateTrajAcc.index_trajs st.idx = .ok st.idx := by
  unfold StateTrajAcc.index_trajs
  rw [List.map_id']; rfl

/-- **`StateTraj.index_trajs_flatten`** returns the concatenation of the stored index trajectories. -/
theorem index_trajs_flatten_refines (st : StateTraj) :
    StateTrajAcc.index_trajs_flatten st.idx = .ok st.idx.flatten := by
  unfold StateTrajAcc.index_trajs_flatten
  rw [List.map_id']; rfl

/-- **`StateTraj.trajs` is the model's `StateTraj.trajs`**, for EVERY object state: the same three branches (state list
`1 … n`: index plus one; state list `0 … n-1`: the indices themselves; otherwise the lookup table `shift_data` from
`0 … n-1` to the state list), the same result and the same error (`ValueError` / `IndexError` of the table branch). -/
theorem trajs_refines (st : StateTraj) : StateTrajAcc.trajs st.idx st.sts = StateTraj.trajs st :=
  trajs_eq_model st.idx st.sts

/-- **`StateTraj.trajs_flatten`** is the concatenation of the model's `StateTraj.trajs` (or the same error). -/
theorem trajs_flatten_refines (st : StateTraj) :
    StateTrajAcc.trajs_flatten st.idx st.sts = (StateTraj.trajs st).map List.flatten := by
  unfold StateTrajAcc.trajs_flatten
  rw [trajs_eq_model]
  cases StateTraj.trajs ⟨st.idx, st.sts⟩ <;> rfl

/-- **The accessors that need no invariant, against the heap model**: for every report `r` of a plain (not lumped) object,
`states`, `index_trajs`, `index_trajs_flatten` return exactly the arrays `Acc.eval r` lists for them. -/
theorem plain_eval (r : Heap.Report) (hm : r.macroSts = none) (ha : r.assign = none) :
    (StateTrajAcc.states r.sts).map (fun a => [a]) = .ok (Heap.Acc.states.eval r) ∧
    StateTrajAcc.index_trajs r.idxTrajs = .ok (Heap.Acc.indexTrajs.eval r) ∧
    (StateTrajAcc.index_trajs_flatten r.idxTrajs).map (fun a => [a]) = .ok (Heap.Acc.indexTrajsFlatten.eval r) := by
  have e : Heap.evalIndexTrajs r = r.idxTrajs := by simp [Heap.evalIndexTrajs, ha]
  refine ⟨?_, ?_, ?_⟩
  · simp only [Heap.Acc.eval, hm]; rfl
  · rw [index_trajs_refines ⟨r.idxTrajs, r.sts⟩]; simp only [Heap.Acc.eval, e]
  · rw [index_trajs_flatten_refines ⟨r.idxTrajs, r.sts⟩]; simp only [Heap.Acc.eval, e]; rfl

/-- **`StateTraj.trajs` against the heap model**: on every plain object state satisfying the invariant `DecodeOk` (non-empty,
stored indices are exactly the positions of the state list, labels within `[-2^29, 2^29]`), `trajs` raises nothing and
returns `Acc.trajs.eval r` — every stored index `i` decoded as `states[i]`, through whichever of the three branches. -/
theorem trajs_eval (r : Heap.Report) (ha : r.assign = none) (h : DecodeOk r.idxTrajs r.sts) :
    StateTrajAcc.trajs r.idxTrajs r.sts = .ok (Heap.Acc.trajs.eval r) := by
  have e : Heap.Acc.trajs.eval r = r.idxTrajs.map (Heap.decode r.sts) := by simp [Heap.Acc.eval, Heap.evalTrajs, ha]
  rw [e, trajs_eq_model]
  unfold StateTraj.trajs
  refine threeBranch_decode r.idxTrajs r.sts (isArange 1 r.sts) id (lo := -536870912) (hi := 1073741824)
    h.ne h.range h.onto ?_ (by omega)
  intro x hx
  rcases List.mem_append.mp hx with hx | hx
  · have := h.range x hx; have := h.size; omega
  · have := h.guard x hx; omega

/-! ## 2. plain object: construct, then read -/

/-- **C02's central clause tied to the source.**  For every list of integer trajectories `ts` (ragged, empty ones allowed)
with labels in `[-2^29, 2^29]`: running the translated constructor and then the translated `trajs` on the object state it
left raises nothing and gives back exactly `ts`. -/
theorem construct_then_trajs (ts : List (List Int)) (hguard : LabelGuard ts) :
    (do let (i, s) ← StateTrajInit.init ts; StateTrajAcc.trajs i s) = .ok ts := by
  rw [Init.init_eq_rank ts hguard]
  show StateTrajAcc.trajs (rankTrajs ts) (states ts) = .ok ts
  rw [trajs_eq_model]
  exact trajs_rank_of_window hguard.window

/-- the same under the general window guard (all labels in `[lo, hi]`, `lo ≤ 0`, `hi - 2·lo < 2^31`) -/
theorem construct_then_trajs_of_window (ts : List (List Int)) {lo hi : Int} (hw : LabelWindow ts lo hi) :
    (do let (i, s) ← StateTrajInit.init ts; StateTrajAcc.trajs i s) = .ok ts := by
  rw [Init.init_eq_rank_of_window ts hw]
  show StateTrajAcc.trajs (rankTrajs ts) (states ts) = .ok ts
  rw [trajs_eq_model]
  exact trajs_rank_of_window hw

/-- **construct, then `trajs_flatten`**: under the guard the concatenation of the input comes back. -/
theorem construct_then_trajs_flatten (ts : List (List Int)) (hguard : LabelGuard ts) :
    (do let (i, s) ← StateTrajInit.init ts; StateTrajAcc.trajs_flatten i s) = .ok ts.flatten := by
  rw [Init.init_eq_rank ts hguard]
  show StateTrajAcc.trajs_flatten (rankTrajs ts) (states ts) = .ok ts.flatten
  rw [trajs_flatten_refines ⟨rankTrajs ts, states ts⟩, trajs_rank_of_window hguard.window]
  rfl

/-- **construct, then `states` / `nstates`** — for EVERY input (no guard): the constructor raises nothing, `states` is the
ascending list of the distinct labels of the input and `nstates` their number. -/
theorem construct_then_states (ts : List (List Int)) :
    (do let (_, s) ← StateTrajInit.init ts; StateTrajAcc.states s) = .ok (states ts) ∧
    (do let (_, s) ← StateTrajInit.init ts; StateTrajAcc.nstates s) = .ok ((states ts).length : Int) := by
  obtain ⟨idx, sts, h⟩ := Init.init_ok ts
  have hs := Init.init_states_eq ts h
  subst hs
  rw [h]
  exact ⟨rfl, rfl⟩

/-- **construct, then the counters** — for EVERY input (no guard): `ntrajs` is the number of input trajectories and `nframes`
the total number of input frames (the constructor keeps the shape in all three branches, int32 wrap or not). -/
theorem construct_then_counters (ts : List (List Int)) :
    (do let (i, _) ← StateTrajInit.init ts; StateTrajAcc.ntrajs i) = .ok (ts.length : Int) ∧
    (do let (i, _) ← StateTrajInit.init ts; StateTrajAcc.nframes i) = .ok (((ts.map List.length).sum : Nat) : Int) := by
  obtain ⟨idx, sts, h⟩ := Init.init_ok ts
  have hshape := init_shape ts h
  rw [h]
  constructor
  · show StateTrajAcc.ntrajs idx = _
    have : idx.length = ts.length := by simpa using congrArg List.length hshape
    rw [← this]; rfl
  · show StateTrajAcc.nframes idx = _
    rw [nframes_refines ⟨idx, sts⟩, StateTraj.nframes, hshape]

/-- **construct, then `index_trajs` / `index_trajs_flatten`**: under the guard, the rank of every label in the ascending
state list, in the shape of the input resp. concatenated. -/
theorem construct_then_index_trajs (ts : List (List Int)) (hguard : LabelGuard ts) :
    (do let (i, _) ← StateTrajInit.init ts; StateTrajAcc.index_trajs i) = .ok (rankTrajs ts) ∧
    (do let (i, _) ← StateTrajInit.init ts; StateTrajAcc.index_trajs_flatten i)
      = .ok (ts.flatten.map (fun x => (rank (states ts) x : Int))) := by
  rw [Init.init_eq_rank ts hguard]
  refine ⟨index_trajs_refines ⟨rankTrajs ts, states ts⟩, ?_⟩
  show StateTrajAcc.index_trajs_flatten (rankTrajs ts) = _
  rw [index_trajs_flatten_refines ⟨rankTrajs ts, states ts⟩]
  simp only [rankTrajs, List.map_flatten]

/-- the object state the constructor leaves for guarded, not all-empty data satisfies the invariant `DecodeOk` of section 1
(so `trajs_eval` applies to it) -/
theorem construct_decodeOk (ts : List (List Int)) (hguard : LabelGuard ts) (hne : ts.flatten ≠ []) :
    StateTrajInit.init ts = .ok (rankTrajs ts, states ts) ∧ DecodeOk (rankTrajs ts) (states ts) :=
  ⟨Init.init_eq_rank ts hguard, decodeOk_states hguard hne⟩

/-! ## 3. the lumped constructor -/

/-- **The lumped constructor, general form.**  If the micro labels lie in a 32-bit window and the first occurrence of every
micro state (position in the concatenated micro data) is a valid position of the concatenated macro data, the translated
`LumpedStateTraj.__init__` raises nothing and stores: the flag `positive`; the ascending distinct macro labels; the object
state of the plain constructor for the micro data (rank trajectories, ascending distinct micro labels); and for every micro
state the macro label at its first occurrence (`Heap.assignment`).  The macro labels are arbitrary.  The `find_first = -1`
branch is excluded by `mem_states`: the states searched for are labels of the data. -/
theorem lumped_init_of_first (mac mic : List (List Int)) (pos : Bool) {lo hi : Int} (hw : LabelWindow mic lo hi)
    (hfirst : ∀ s ∈ mic.flatten, mic.flatten.idxOf s < mac.flatten.length) :
    LumpedAcc.init mac mic pos
      = .ok (pos, states mac, rankTrajs mic, states mic, Heap.assignment mic mac) :=
  lumped_init_of_window mac mic pos hw hfirst

/-- **The lumped constructor stores what the model says.**  For macro and micro trajectories of the same shape (same number
of trajectories, same lengths) and micro labels in `[-2^29, 2^29]`: no error, and the stored object state is
`(positive, states macro, rank trajectories of micro, states micro, Heap.assignment micro macro)`. -/
theorem lumped_init_refines (mac mic : List (List Int)) (pos : Bool)
    (hshape : mac.map List.length = mic.map List.length) (hguard : LabelGuard mic) :
    LumpedAcc.init mac mic pos
      = .ok (pos, states mac, rankTrajs mic, states mic, Heap.assignment mic mac) := by
  apply lumped_init_of_window mac mic pos hguard.window
  intro s hs
  have hl : mac.flatten.length = mic.flatten.length := by
    rw [List.length_flatten, List.length_flatten, hshape]
  rw [hl]
  exact List.idxOf_lt_length_of_mem hs

/-- **`IndexError` of the lumped constructor.**  If (micro labels guarded) some micro state occurs for the first time at a
position beyond the end of the concatenated macro data, `macrotrajs_flatten[idx_first]` raises `IndexError`. -/
theorem lumped_init_index_error (mac mic : List (List Int)) (pos : Bool) {lo hi : Int} (hw : LabelWindow mic lo hi)
    (hbad : ∃ s ∈ mic.flatten, mac.flatten.length ≤ mic.flatten.idxOf s) :
    LumpedAcc.init mac mic pos = .error .index := by
  have hloop := assign_loop_error mic.flatten mac.flatten
    (fun x st => assignStep mic.flatten mac.flatten x st) (fun _ _ => rfl) (states mic)
    (fun s hs => mem_states.mp hs)
    (by obtain ⟨s, hs, hb⟩ := hbad; exact ⟨s, mem_states.mpr hs, hb⟩) 0 default
    (List.replicate (states mic).length 0) (by simp)
  unfold LumpedAcc.init LumpedAcc.microstate_trajs_flatten
  simp only [Relabel.unique_refines, Init.init_eq_rank_of_window mic hw, microstate_trajs_rank hw, bind, Except.bind,
    pure, Except.pure, pyEnumerate_eq]
  have hfull : pyFull1 (pyLen (states mic)) (0 : Int) = List.replicate (states mic).length 0 := by
    simp [pyFull1, pyLen]
  rw [hfull]
  simp only [assignStep, bind, Except.bind, pure, Except.pure] at hloop
  rw [hloop]

/-- `find_first` answers `-1` exactly for a value that does not occur in the array; for a value that occurs it answers its
first position (so `-1` never reaches `macrotrajs_flatten[idx_first]` in the constructor) -/
theorem find_first_absent (s : Int) (a : List Int) :
    (s ∉ a → UtilsUtils.find_first s a = .ok (-1)) ∧
    (s ∈ a → UtilsUtils.find_first s a = .ok ((a.idxOf s : Nat) : Int) ∧ a.idxOf s < a.length) :=
  ⟨find_first_not_mem, fun h => ⟨find_first_mem h, List.idxOf_lt_length_of_mem h⟩⟩

/-! ## 4. the lumped accessors on an arbitrary object state -/

/-- **`LumpedStateTraj.microstate_trajs`, all inputs**: three branches — micro state list equal to `1 … nmacro` (the number of
MACRO states): index plus one; micro state list `0 … n-1`: the indices; otherwise the model's lookup table from `0 … n-1` to
the micro state list (same errors). -/
theorem lumped_microstate_trajs_branches (idx : List (List Int)) (sts ms : List Int) :
    LumpedAcc.microstate_trajs idx sts ms
      = if sts == npArange 1 (pyLen ms + 1) then .ok (idx.map (·.map (· + 1)))
        else if isArange 0 sts then .ok idx
        else shiftTrajs idx ((List.range sts.length).map (fun (i : Nat) => (i : Int))) sts :=
  microstate_trajs_unfold idx sts ms

/-- **`microstate_trajs` is the model's `StateTraj.trajs` of the micro object** — same result, same error — on every object
state in which the quirk cannot bite: as many macro as micro states, or a micro state list that is not `1 … n`. -/
theorem lumped_microstate_trajs_refines (idx : List (List Int)) (sts ms : List Int)
    (h : ms.length = sts.length ∨ isArange 1 sts = false) :
    LumpedAcc.microstate_trajs idx sts ms = StateTraj.trajs ⟨idx, sts⟩ := by
  rw [microstate_trajs_unfold]
  unfold StateTraj.trajs
  by_cases h1 : isArange 1 sts = true
  · have hl : sts.length = ms.length := by
      rcases h with h | h
      · exact h.symm
      · rw [h1] at h; cases h
    rw [if_pos ((first_test_iff sts ms).mpr ⟨h1, hl⟩), if_pos h1]
  · have : ¬ ((sts == npArange 1 (pyLen ms + 1)) = true) := fun h' => h1 ((first_test_iff sts ms).mp h').1
    rw [if_neg this, if_neg h1]

/-- **`microstate_trajs` against the heap model, quirk included**: on every object state satisfying the invariant `DecodeOk`
for the micro state list — and for EVERY macro state list `ms`, of any length — the result is `Acc.microTrajs.eval r`: each
stored index decoded as `microstates[i]`.  (If the micro states are `1 … n` with `n ≠ nmacro` the first test fails and the
lookup-table branch computes the same.) -/
theorem lumped_microstate_trajs_eval (r : Heap.Report) (ms : List Int) (h : DecodeOk r.idxTrajs r.sts) :
    LumpedAcc.microstate_trajs r.idxTrajs r.sts ms = .ok (Heap.Acc.microTrajs.eval r) := by
  rw [microstate_trajs_unfold]
  refine threeBranch_decode r.idxTrajs r.sts (r.sts == npArange 1 (pyLen ms + 1))
    (fun hb => ((first_test_iff _ _).mp hb).1) (lo := -536870912) (hi := 1073741824) h.ne h.range h.onto ?_ (by omega)
  intro x hx
  rcases List.mem_append.mp hx with hx | hx
  · have := h.range x hx; have := h.size; omega
  · have := h.guard x hx; omega

/-- **`microstate_trajs` on every constructed object** (micro labels in a 32-bit window; all-empty data included): the micro
input comes back, whatever the macro state list is — the test against `1 … nmacro` never changes the result. -/
theorem lumped_microstate_trajs_constructed (mic : List (List Int)) {lo hi : Int} (hw : LabelWindow mic lo hi)
    (ms : List Int) :
    LumpedAcc.microstate_trajs (rankTrajs mic) (states mic) ms = .ok mic ∧
    LumpedAcc.microstate_trajs_flatten (rankTrajs mic) (states mic) ms = .ok mic.flatten := by
  refine ⟨microstate_trajs_rank hw ms, ?_⟩
  unfold LumpedAcc.microstate_trajs_flatten
  rw [microstate_trajs_rank hw ms]
  rfl

/-- **`LumpedStateTraj.trajs`, all inputs with an assignment as long as the micro state list**: it is the model's lookup
table `shiftTrajs` from `0 … n-1` to the assignment (same result, same error). -/
theorem lumped_trajs_shift (idx : List (List Int)) (sts asg : List Int) (hlen : asg.length = sts.length) :
    LumpedAcc.trajs idx sts asg
      = shiftTrajs idx ((List.range sts.length).map (fun (i : Nat) => (i : Int))) asg := by
  unfold LumpedAcc.trajs
  rw [Relabel.shift_data_refines _ _ _ (Or.inl (by simp [arange0_len, hlen])), arange0_len]

/-- **`LumpedStateTraj.trajs` decodes the micro index trajectories through the assignment**: on every lumped object state
with one assignment entry per micro state and the invariant `DecodeOk` for the assignment, `trajs` raises nothing and returns
`Acc.trajs.eval r` — frame by frame `state_assignment[i]` for the stored micro index `i`. -/
theorem lumped_trajs_refines (idx : List (List Int)) (sts asg : List Int) (ms : Option (List Int))
    (hlen : asg.length = sts.length) (h : DecodeOk idx asg) :
    LumpedAcc.trajs idx sts asg = .ok (Heap.Acc.trajs.eval ⟨idx, sts, ms, some asg⟩) := by
  rw [lumped_trajs_shift idx sts asg hlen, ← hlen, h.decode]
  rfl

/-- **`_state_assignment_idx`**: if the macro state list is duplicate free, assignment and macro state list have the same
members (every micro state is assigned a macro state, every macro state is hit), and the labels are guarded, the result is
the rank of every assigned macro label in the macro state list. -/
theorem lumped_state_assignment_idx_refines (ms asg : List Int) (hnd : ms.Nodup) (hne : asg ≠ [])
    (hsub : ∀ a ∈ asg, a ∈ ms) (hsup : ∀ m ∈ ms, m ∈ asg)
    (hguard : ∀ a ∈ asg, -536870912 ≤ a ∧ a ≤ 536870912) (hsize : ms.length ≤ 1073741825) :
    LumpedAcc.state_assignment_idx ms asg = .ok (asg.map (fun a => (rank ms a : Int))) :=
  state_assignment_idx_rank ms asg (lo := -536870912) (hi := 1073741824) hnd hne hsub hsup
    (fun x hx => by have := hguard x hx; omega) (by omega) (by omega) (by omega)

/-- **`LumpedStateTraj.index_trajs`**: on every lumped object state with one assignment entry per micro state, the invariant
`DecodeOk` for the assignment, a duplicate-free macro state list with the same members as the assignment and at most
`2^30 + 1` entries, `index_trajs` raises nothing and returns `Acc.indexTrajs.eval r` — frame by frame the rank, in the macro
state list, of the macro label assigned to the stored micro index. -/
theorem lumped_index_trajs_refines (idx : List (List Int)) (sts ms asg : List Int)
    (hlen : asg.length = sts.length) (h : DecodeOk idx asg) (hnd : ms.Nodup)
    (hsub : ∀ a ∈ asg, a ∈ ms) (hsup : ∀ m ∈ ms, m ∈ asg) (hsize : ms.length ≤ 1073741825) :
    LumpedAcc.index_trajs idx sts ms asg = .ok (Heap.Acc.indexTrajs.eval ⟨idx, sts, some ms, some asg⟩) := by
  obtain ⟨i0, hi0⟩ := List.exists_mem_of_ne_nil _ h.ne
  have hasg : asg ≠ [] := by
    intro he; have := h.range i0 hi0; simp [he] at this; omega
  unfold LumpedAcc.index_trajs
  rw [lumped_state_assignment_idx_refines ms asg hnd hasg hsub hsup h.guard hsize]
  simp only [bind, Except.bind]
  rw [Relabel.shift_data_refines _ _ _ (Or.inl (by simp [arange0_len, hlen])), arange0_len]
  have hl : sts.length = (asg.map (fun a => (rank ms a : Int))).length := by simp [hlen]
  rw [hl, shiftTrajs_decode idx _ (lo := 0) (hi := 1073741824) h.ne (by simpa using h.range)
    (by simpa using h.onto) ?_ (by omega)]
  · show _ = Except.ok (Heap.evalIndexTrajs ⟨idx, sts, some ms, some asg⟩)
    simp only [Heap.evalIndexTrajs]
    congr 1
    apply map_map_congr
    intro x hx
    have hx' := h.range x hx
    have hk : x.toNat < asg.length := by omega
    simp only [labelOf, List.getD_eq_getElem?_getD, List.getElem?_map, List.getElem?_eq_getElem hk, Option.map_some,
      Option.getD_some]
  · intro x hx
    rcases List.mem_append.mp hx with hx | hx
    · have := h.range x hx; have := h.size; omega
    · obtain ⟨a, ha, rfl⟩ := List.mem_map.mp hx
      have := rank_lt (hsub a ha)
      omega

/-! ## 5. lumped object: construct, then read -/

/-- **construct, then `microstate_trajs`**: for macro and micro input of the same shape and micro labels in
`[-2^29, 2^29]` (no condition on the lumping), the micro input comes back. -/
theorem lumped_construct_then_microstate_trajs (mac mic : List (List Int)) (pos : Bool)
    (hshape : mac.map List.length = mic.map List.length) (hguard : LabelGuard mic) :
    (do let (_, ms, i, s, _) ← LumpedAcc.init mac mic pos; LumpedAcc.microstate_trajs i s ms) = .ok mic := by
  rw [lumped_init_refines mac mic pos hshape hguard]
  exact microstate_trajs_rank hguard.window _

/-- **construct, then `trajs`, for ANY lumping** (same shape, micro and macro labels in `[-2^29, 2^29]`, not all-empty):
every frame shows the macro label found at the FIRST occurrence of its micro state — the macro input itself only where the
lumping is consistent. -/
theorem lumped_construct_then_trajs_first (mac mic : List (List Int)) (pos : Bool)
    (hshape : mac.map List.length = mic.map List.length) (hguard : LabelGuard mic) (hguardM : LabelGuard mac)
    (hne : mic.flatten ≠ []) :
    (do let (_, _, i, s, a) ← LumpedAcc.init mac mic pos; LumpedAcc.trajs i s a)
      = .ok (mic.map (·.map (firstMacro mic.flatten mac.flatten))) := by
  have hl : mac.flatten.length = mic.flatten.length := by
    rw [List.length_flatten, List.length_flatten, hshape]
  have hfirst : ∀ s ∈ mic.flatten, mic.flatten.idxOf s < mac.flatten.length :=
    fun s hs => hl ▸ List.idxOf_lt_length_of_mem hs
  rw [lumped_init_refines mac mic pos hshape hguard]
  show LumpedAcc.trajs (rankTrajs mic) (states mic) (Heap.assignment mic mac) = _
  rw [lumped_trajs_refines _ _ _ none (by simp [Heap.assignment]) (decodeOk_assignment hguard hguardM hne hfirst)]
  show Except.ok ((rankTrajs mic).map (·.map (labelOf (Heap.assignment mic mac)))) = _
  rw [rankTrajs_map_map, assignment_eq]
  congr 1
  exact map_map_congr (fun x hx => Heap.labelOf_map_rank _ (mem_states.mpr hx))

/-- **construct, then `trajs`, consistent lumping**: if every micro state has ONE macro label (`mac = f ∘ mic`) and all labels
lie in `[-2^29, 2^29]` (data not all-empty), constructing and reading `trajs` back gives the macro input. -/
theorem lumped_construct_then_trajs (mac mic : List (List Int)) (f : Int → Int) (pos : Bool)
    (hf : mac = mic.map (·.map f)) (hguard : LabelGuard mic) (hguardM : LabelGuard mac) (hne : mic.flatten ≠ []) :
    (do let (_, _, i, s, a) ← LumpedAcc.init mac mic pos; LumpedAcc.trajs i s a) = .ok mac := by
  rw [lumped_construct_then_trajs_first mac mic pos (by rw [hf]; simp) hguard hguardM hne]
  subst hf
  congr 1
  apply map_map_congr
  intro x hx
  unfold firstMacro
  rw [← List.map_flatten, List.getD_eq_getElem?_getD, List.getElem?_map,
    List.getElem?_eq_getElem (List.idxOf_lt_length_of_mem hx), List.getElem_idxOf]
  rfl

/-- **construct, then `index_trajs`, consistent lumping** (same hypotheses): the rank of every macro label in the ascending
macro state list, in the shape of the input. -/
theorem lumped_construct_then_index_trajs (mac mic : List (List Int)) (f : Int → Int) (pos : Bool)
    (hf : mac = mic.map (·.map f)) (hguard : LabelGuard mic) (hguardM : LabelGuard mac) (hne : mic.flatten ≠ []) :
    (do let (_, ms, i, s, a) ← LumpedAcc.init mac mic pos; LumpedAcc.index_trajs i s ms a)
      = .ok (rankTrajs mac) := by
  have hshape : mac.map List.length = mic.map List.length := by rw [hf]; simp
  have hfirst : ∀ s ∈ mic.flatten, mic.flatten.idxOf s < mac.flatten.length := by
    intro s hs
    rw [hf, ← List.map_flatten, List.length_map]
    exact List.idxOf_lt_length_of_mem hs
  have hasg := Heap.assignment_of_consistent mic f
  rw [← hf] at hasg
  rw [lumped_init_refines mac mic pos hshape hguard]
  show LumpedAcc.index_trajs (rankTrajs mic) (states mic) (states mac) (Heap.assignment mic mac) = _
  rw [lumped_index_trajs_refines _ _ _ _ (by simp [Heap.assignment])
    (decodeOk_assignment hguard hguardM hne hfirst) (states_nodup _) ?_ ?_ (states_length_le hguardM)]
  · rw [hasg]
    simp only [Heap.Acc.eval]
    rw [Heap.evalIndexTrajs_lumped, ← hf]
    rfl
  · rw [hasg]
    intro a ha
    obtain ⟨s, hs, rfl⟩ := List.mem_map.mp ha
    rw [mem_states, hf, ← List.map_flatten]
    exact List.mem_map.mpr ⟨s, mem_states.mp hs, rfl⟩
  · rw [hasg]
    intro m hm
    rw [mem_states, hf, ← List.map_flatten] at hm
    obtain ⟨s, hs, rfl⟩ := List.mem_map.mp hm
    exact List.mem_map.mpr ⟨s, mem_states.mpr hs, rfl⟩

/-! ## 6. the link to the heap model of C02 -/

/-- **Plain object, source and heap model side by side.**  For the arrays `ts` at `args` (labels in `[-2^29, 2^29]`): the
object which the heap model's `construct` step creates reports exactly the state the translated constructor computes, and
every translated accessor applied to that state returns what `Acc.eval` says — which by `C02.roundtrip` is the input `ts`,
its distinct labels, its ranks, and the counters of its shape. -/
theorem construct_then_eval {s : Heap.State} {args : List Heap.Addr} {ts : Trajs} (hts : args.map s.read = ts)
    (hguard : LabelGuard ts) :
    ∃ r, Heap.report (Heap.step s (.construct args)).1 = some r ∧
      StateTrajInit.init ts = .ok (r.idxTrajs, r.sts) ∧
      StateTrajAcc.trajs r.idxTrajs r.sts = .ok (Heap.Acc.trajs.eval r) ∧ Heap.Acc.trajs.eval r = ts ∧
      (StateTrajAcc.trajs_flatten r.idxTrajs r.sts).map (fun a => [a]) = .ok (Heap.Acc.trajsFlatten.eval r) ∧
      (StateTrajAcc.states r.sts).map (fun a => [a]) = .ok (Heap.Acc.states.eval r) ∧
      Heap.Acc.states.eval r = [states ts] ∧
      StateTrajAcc.index_trajs r.idxTrajs = .ok (Heap.Acc.indexTrajs.eval r) ∧
      (StateTrajAcc.index_trajs_flatten r.idxTrajs).map (fun a => [a]) = .ok (Heap.Acc.indexTrajsFlatten.eval r) ∧
      StateTrajAcc.ntrajs r.idxTrajs = .ok (ts.length : Int) ∧
      StateTrajAcc.nframes r.idxTrajs = .ok (((ts.map List.length).sum : Nat) : Int) ∧
      StateTrajAcc.nstates r.sts = .ok ((states ts).length : Int) := by
  obtain ⟨r, hr, hs, hi, hm, ha, htr, hst, _, htf, _, _, hnt, hnf, hns⟩ := C02.roundtrip hts hguard
  have hT : StateTrajAcc.trajs r.idxTrajs r.sts = .ok ts := by
    rw [hs, hi, trajs_eq_model]; exact trajs_rank_of_window hguard.window
  obtain ⟨p1, p2, p3⟩ := plain_eval r hm ha
  refine ⟨r, hr, by rw [hs, hi]; exact Init.init_eq_rank ts hguard, by rw [hT, htr], htr, ?_, p1, hst, p2, p3, ?_, ?_, ?_⟩
  · unfold StateTrajAcc.trajs_flatten
    rw [hT, htf]; rfl
  · rw [ntrajs_refines ⟨r.idxTrajs, r.sts⟩, StateTraj.ntrajs, hnt]
  · rw [nframes_refines ⟨r.idxTrajs, r.sts⟩, StateTraj.nframes, hnf]
  · rw [nstates_refines ⟨r.idxTrajs, r.sts⟩, StateTraj.nstates, hns]

/-- **Lumped object, source and heap model side by side.**  For a consistent lumping `mac = f ∘ mic` of the arrays at
`microArgs` / `macroArgs` (all labels in `[-2^29, 2^29]`, data not all-empty): the object which the heap model's
`constructLumped` step creates reports exactly the state the translated `LumpedStateTraj.__init__` computes, and the
translated `trajs`, `microstate_trajs`, `index_trajs` applied to that state return what `Acc.eval` says — by
`C02.lumped_roundtrip` the macro input, the micro input, and the ranks of the macro labels. -/
theorem lumped_construct_then_eval {s : Heap.State} {macroArgs microArgs : List Heap.Addr} {mic mac : Trajs}
    (f : Int → Int) (pos : Bool) (hmic : microArgs.map s.read = mic) (hmac : macroArgs.map s.read = mac)
    (hf : mac = mic.map (·.map f)) (hguard : LabelGuard mic) (hguardM : LabelGuard mac) (hne : mic.flatten ≠ []) :
    ∃ r ms asg, Heap.report (Heap.step s (.constructLumped macroArgs microArgs)).1 = some r ∧
      r.macroSts = some ms ∧ r.assign = some asg ∧
      LumpedAcc.init mac mic pos = .ok (pos, ms, r.idxTrajs, r.sts, asg) ∧
      LumpedAcc.trajs r.idxTrajs r.sts asg = .ok (Heap.Acc.trajs.eval r) ∧ Heap.Acc.trajs.eval r = mac ∧
      LumpedAcc.microstate_trajs r.idxTrajs r.sts ms = .ok (Heap.Acc.microTrajs.eval r) ∧
      Heap.Acc.microTrajs.eval r = mic ∧
      LumpedAcc.index_trajs r.idxTrajs r.sts ms asg = .ok (Heap.Acc.indexTrajs.eval r) ∧
      Heap.Acc.indexTrajs.eval r = rankTrajs mac := by
  subst hmic hmac
  have hshape : (macroArgs.map s.read).map List.length = (microArgs.map s.read).map List.length := by
    rw [hf]; simp
  have hl : (macroArgs.map s.read).flatten.length = (microArgs.map s.read).flatten.length := by
    rw [List.length_flatten, List.length_flatten, hshape]
  have hfirst : ∀ x ∈ (microArgs.map s.read).flatten,
      (microArgs.map s.read).flatten.idxOf x < (macroArgs.map s.read).flatten.length :=
    fun x hx => hl ▸ List.idxOf_lt_length_of_mem hx
  have hdec := decodeOk_assignment hguard hguardM hne hfirst
  obtain ⟨r, hr, hmt, _, _, _, htr, _, hit, _, _⟩ := C02.lumped_roundtrip f rfl rfl hf hguard
  have hr' := Heap.report_constructLumped_guard (macroArgs := macroArgs) hguard
  rw [hr] at hr'
  simp only [Option.some.injEq] at hr'
  subst hr'
  refine ⟨_, _, _, hr, rfl, rfl, lumped_init_refines _ _ pos hshape hguard, ?_, htr, ?_, hmt, ?_, ?_⟩
  · exact lumped_trajs_refines _ _ _ _ (by simp [Heap.assignment]) hdec
  · exact (lumped_microstate_trajs_constructed _ hguard.window _).1.trans (by rw [hmt])
  · have hasg := Heap.assignment_of_consistent (microArgs.map s.read) f
    rw [← hf] at hasg
    refine lumped_index_trajs_refines _ _ _ _ (by simp [Heap.assignment]) hdec (states_nodup _) ?_ ?_
      (states_length_le hguardM)
    · rw [hasg]
      intro a ha
      obtain ⟨x, hx, rfl⟩ := List.mem_map.mp ha
      rw [mem_states, hf, ← List.map_flatten]
      exact List.mem_map.mpr ⟨x, mem_states.mp hx, rfl⟩
    · rw [hasg]
      intro m hm
      rw [mem_states, hf, ← List.map_flatten] at hm
      obtain ⟨x, hx, rfl⟩ := List.mem_map.mp hm
      exact List.mem_map.mpr ⟨x, mem_states.mpr hx, rfl⟩
  · rw [hit]; rfl

/-! ## 7. quirks and discrepancies, on concrete inputs -/

/-- **The `nstates` quirk of `microstate_trajs` in action.**  Micro states `1 … 4` but three macro states: the test against
`arange(1, nstates + 1)` fails, the lookup-table branch runs — and returns the same micro trajectories the `+ 1` branch
would have returned.  With two micro and one macro state likewise. -/
theorem microstate_trajs_quirk_harmless :
    LumpedAcc.microstate_trajs [[0, 1, 0], [2, 3], []] [1, 2, 3, 4] [-1, 1, 2] = .ok [[1, 2, 1], [3, 4], []] ∧
    LumpedAcc.microstate_trajs [[0, 1]] [1, 2] [5] = .ok [[1, 2]] ∧
    StateTraj.trajs ⟨[[0, 1]], [1, 2]⟩ = .ok [[1, 2]] := by decide +kernel

/-- **Where the quirk makes `microstate_trajs` differ from the model's `StateTraj.trajs`**: only on object states that no
constructor produces (they violate `DecodeOk`) — an index trajectory next to an EMPTY state list (translation: the indices;
model: indices plus one), and all-empty index trajectories next to the state list `1, 2` with one macro state (translation:
`ValueError` of the lookup table; model: the empty trajectories).  Hence the hypothesis of
`lumped_microstate_trajs_refines`. -/
theorem microstate_trajs_quirk :
    LumpedAcc.microstate_trajs [[5]] [] [1] = .ok [[5]] ∧ StateTraj.trajs ⟨[[5]], []⟩ = .ok [[6]] ∧
    LumpedAcc.microstate_trajs [[]] [1, 2] [1] = .error .value ∧ StateTraj.trajs ⟨[[]], [1, 2]⟩ = .ok [[]] := by
  decide +kernel

/-- **All-empty data: translation and heap model differ.**  The lumped constructor accepts all-empty trajectories, but on the
resulting object the translated `trajs` and `index_trajs` raise `ValueError` (`np.min` of an empty array inside
`shift_data`), whereas the heap model's `Acc.eval` returns the empty trajectories.  Hence `mic.flatten ≠ []` in section 5. -/
theorem lumped_trajs_empty :
    LumpedAcc.init [[], []] [[], []] false = .ok (false, [], [[], []], [], []) ∧
    LumpedAcc.trajs [[], []] [] [] = .error .value ∧
    LumpedAcc.index_trajs [[], []] [] [] [] = .error .value ∧
    Heap.Acc.trajs.eval ⟨[[], []], [], some [], some []⟩ = [[], []] ∧
    Heap.Acc.indexTrajs.eval ⟨[[], []], [], some [], some []⟩ = [[], []] :=
  ⟨by decide +kernel, by decide +kernel, by decide +kernel, by decide +kernel, by decide +kernel⟩

/-- **Inconsistent lumping: translation and heap model differ.**  Micro `[[1, 1]]`, macro `[[1, 2]]` (the one micro state has two
macro labels): the constructor succeeds with the assignment `[1]`; `trajs` returns `[[1, 1]]` (first-occurrence label, not the
macro input); `index_trajs` raises `IndexError` (macro state `2` is outside the table built from the assignment), whereas the
heap model's `Acc.indexTrajs.eval` answers `[[0, 0]]`.  Hence the consistency hypothesis in section 5. -/
theorem lumped_inconsistent :
    LumpedAcc.init [[1, 2]] [[1, 1]] false = .ok (false, [1, 2], [[0, 0]], [1], [1]) ∧
    LumpedAcc.trajs [[0, 0]] [1] [1] = .ok [[1, 1]] ∧
    LumpedAcc.index_trajs [[0, 0]] [1] [1, 2] [1] = .error .index ∧
    Heap.Acc.indexTrajs.eval ⟨[[0, 0]], [1], some [1, 2], some [1]⟩ = [[0, 0]] :=
  ⟨by decide +kernel, by decide +kernel, by decide +kernel, by decide +kernel⟩

/-- a macro input that is too short: the micro state `4` first occurs at position 4, the macro data has 4 entries -/
example : LumpedAcc.init [[1, 1], [2, -1], []] [[3, -5, 3], [7, 4], []] true = .error .index :=
  lumped_init_index_error _ _ _ (LabelGuard.window (by decide)) ⟨4, by decide, by decide⟩

/-! ## non-vacuity: a ragged micro / macro pair with negative labels and an empty trajectory

micro `[[3, -5, 3], [7, 4], []]`, macro `[[1, 1, 1], [2, -1], []]`, lumping `3, -5 ↦ 1`, `7 ↦ 2`, `4 ↦ -1`. -/

/-- the lumping function of the examples -/
def exF (x : Int) : Int := if x = 7 then 2 else if x = 4 then -1 else 1

example : LabelGuard [[3, -5, 3], [7, 4], []] ∧ LabelGuard [[1, 1, 1], [2, -1], []] ∧
    ([[3, -5, 3], [7, 4], []] : Trajs).flatten ≠ [] ∧
    ([[1, 1, 1], [2, -1], []] : Trajs) = ([[3, -5, 3], [7, 4], []] : Trajs).map (·.map exF) ∧
    ([[1, 1, 1], [2, -1], []] : Trajs).map List.length = ([[3, -5, 3], [7, 4], []] : Trajs).map List.length := by
  decide

/-- every accessor of the plain object on the state `([[1, 0, 1], [3, 2], []], [-5, 3, 4, 7])` -/
example : StateTrajAcc.trajs [[1, 0, 1], [3, 2], []] [-5, 3, 4, 7] = .ok [[3, -5, 3], [7, 4], []] ∧
    StateTrajAcc.trajs_flatten [[1, 0, 1], [3, 2], []] [-5, 3, 4, 7] = .ok [3, -5, 3, 7, 4] ∧
    StateTrajAcc.nframes [[1, 0, 1], [3, 2], []] = .ok 5 ∧ StateTrajAcc.ntrajs [[1, 0, 1], [3, 2], []] = .ok 3 ∧
    StateTrajAcc.nstates [-5, 3, 4, 7] = .ok 4 := by decide +kernel
/-- an error case of `trajs_refines`: all-empty index trajectories next to a state list: `ValueError` in both -/
example : StateTrajAcc.trajs [[], []] [-5, 3, 4, 7] = .error .value ∧
    StateTraj.trajs ⟨[[], []], [-5, 3, 4, 7]⟩ = .error .value := by decide +kernel
/-- the three branches of `trajs_refines` -/
example : StateTrajAcc.trajs [[0, 1], [2]] [1, 2, 3] = .ok [[1, 2], [3]] ∧
    StateTrajAcc.trajs [[0, 1], [2]] [0, 1, 2] = .ok [[0, 1], [2]] ∧
    StateTrajAcc.trajs [[0, 1], [2]] [-4, 0, 9] = .ok [[-4, 0], [9]] := by decide +kernel

example : (do let (i, s) ← StateTrajInit.init [[3, -5, 3], [7, 4], []]; StateTrajAcc.trajs i s)
    = .ok [[3, -5, 3], [7, 4], []] := construct_then_trajs _ (by decide)
example : (do let (i, s) ← StateTrajInit.init [[3, -5, 3], [7, 4], []]; StateTrajAcc.trajs i s)
    = .ok [[3, -5, 3], [7, 4], []] := by decide +kernel
example : DecodeOk (rankTrajs [[3, -5, 3], [7, 4], []]) (states [[3, -5, 3], [7, 4], []]) :=
  (construct_decodeOk _ (by decide) (by decide)).2
example : rankTrajs [[3, -5, 3], [7, 4], []] = [[1, 0, 1], [3, 2], []] ∧
    states [[3, -5, 3], [7, 4], []] = [-5, 3, 4, 7] := by decide +kernel

example : LumpedAcc.init [[1, 1, 1], [2, -1], []] [[3, -5, 3], [7, 4], []] true
    = .ok (true, [-1, 1, 2], [[1, 0, 1], [3, 2], []], [-5, 3, 4, 7], [1, 1, -1, 2]) := by decide +kernel
example : LumpedAcc.init [[1, 1, 1], [2, -1], []] [[3, -5, 3], [7, 4], []] true
    = .ok (true, states [[1, 1, 1], [2, -1], []], rankTrajs [[3, -5, 3], [7, 4], []], states [[3, -5, 3], [7, 4], []],
        Heap.assignment [[3, -5, 3], [7, 4], []] [[1, 1, 1], [2, -1], []]) :=
  lumped_init_refines _ _ _ (by decide) (by decide)
example : Heap.assignment [[3, -5, 3], [7, 4], []] [[1, 1, 1], [2, -1], []] = [1, 1, -1, 2] := by decide +kernel
example : DecodeOk (rankTrajs [[3, -5, 3], [7, 4], []])
    (Heap.assignment [[3, -5, 3], [7, 4], []] [[1, 1, 1], [2, -1], []]) :=
  decodeOk_assignment (by decide) (by decide) (by decide) (by decide)

example : LumpedAcc.trajs [[1, 0, 1], [3, 2], []] [-5, 3, 4, 7] [1, 1, -1, 2] = .ok [[1, 1, 1], [2, -1], []] ∧
    LumpedAcc.index_trajs [[1, 0, 1], [3, 2], []] [-5, 3, 4, 7] [-1, 1, 2] [1, 1, -1, 2] = .ok [[1, 1, 1], [2, 0], []] ∧
    LumpedAcc.microstate_trajs [[1, 0, 1], [3, 2], []] [-5, 3, 4, 7] [-1, 1, 2] = .ok [[3, -5, 3], [7, 4], []] ∧
    LumpedAcc.state_assignment_idx [-1, 1, 2] [1, 1, -1, 2] = .ok [1, 1, 0, 2] := by decide +kernel

example : (do let (_, _, i, s, a) ← LumpedAcc.init [[1, 1, 1], [2, -1], []] [[3, -5, 3], [7, 4], []] true
              LumpedAcc.trajs i s a) = .ok [[1, 1, 1], [2, -1], []] :=
  lumped_construct_then_trajs _ _ exF _ (by decide) (by decide) (by decide) (by decide)
example : (do let (_, ms, i, s, a) ← LumpedAcc.init [[1, 1, 1], [2, -1], []] [[3, -5, 3], [7, 4], []] true
              LumpedAcc.index_trajs i s ms a) = .ok (rankTrajs [[1, 1, 1], [2, -1], []]) :=
  lumped_construct_then_index_trajs _ _ exF _ (by decide) (by decide) (by decide) (by decide)
example : (do let (_, ms, i, s, _) ← LumpedAcc.init [[1, 1, 1], [2, -1], []] [[3, -5, 3], [7, 4], []] true
              LumpedAcc.microstate_trajs i s ms) = .ok [[3, -5, 3], [7, 4], []] :=
  lumped_construct_then_microstate_trajs _ _ _ (by decide) (by decide)

/-- the heap-model link on a concrete session: micro arrays at addresses 0, 1, 2, macro arrays at 3, 4, 5 -/
example : ∃ r ms asg,
    Heap.report (Heap.step ⟨[[3, -5, 3], [7, 4], [], [1, 1, 1], [2, -1], []], none, [0, 1, 2, 3, 4, 5]⟩
      (.constructLumped [3, 4, 5] [0, 1, 2])).1 = some r ∧ r.macroSts = some ms ∧ r.assign = some asg ∧
    LumpedAcc.trajs r.idxTrajs r.sts asg = .ok (Heap.Acc.trajs.eval r) ∧
    Heap.Acc.trajs.eval r = [[1, 1, 1], [2, -1], []] := by
  obtain ⟨r, ms, asg, h1, h2, h3, _, h5, h6, _⟩ :=
    lumped_construct_then_eval (s := ⟨[[3, -5, 3], [7, 4], [], [1, 1, 1], [2, -1], []], none, [0, 1, 2, 3, 4, 5]⟩)
      (macroArgs := [3, 4, 5]) (microArgs := [0, 1, 2]) exF true rfl rfl (by decide) (by decide) (by decide) (by decide)
  exact ⟨r, ms, asg, h1, h2, h3, h5, h6⟩

end MsmVerif.Refine.Accessors
