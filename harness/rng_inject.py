"""Drive numba's compiled `random.random()` (and, with NUMBA_DISABLE_JIT=1, the module global `random`)
with CHOSEN uniform draws u = k / 2^53, without touching the library source.

numba: random.random() = ((a >> 5) * 2^26 + (b >> 6)) / 2^53 for two consecutive MT19937 outputs a, b.
We write an MT state whose next tempered outputs are the words we want (index 0, so no twist happens for
the first 624 words = 312 draws).
"""
import fractions

MAXDRAWS = 311


def _untemper(y):
    y &= 0xffffffff
    # y ^= y >> 18
    y ^= y >> 18
    # y ^= (y << 15) & 0xefc60000
    y ^= (y << 15) & 0xefc60000
    # y ^= (y << 7) & 0x9d2c5680   (invert step by step)
    t = y
    for _ in range(5):
        t = y ^ ((t << 7) & 0x9d2c5680)
    y = t & 0xffffffff
    # y ^= y >> 11
    t = y
    for _ in range(3):
        t = y ^ (t >> 11)
    return t & 0xffffffff


def k_of(u):
    """u (float or Fraction, multiple of 2^-53 in [0,1)) -> integer k with u = k/2^53"""
    f = fractions.Fraction(u)
    k = f * (1 << 53)
    assert k.denominator == 1 and 0 <= k < (1 << 53), u
    return int(k)


def inject(us):
    """make the next len(us) draws of numba's random.random() equal `us` (each a multiple of 2^-53)."""
    import numba
    from numba import _helperlib
    assert len(us) <= MAXDRAWS + 1
    words = []
    for u in us:
        k = k_of(u)
        a, b = k >> 26, k & ((1 << 26) - 1)
        words += [_untemper(a << 5), _untemper(b << 6)]
    words += [_untemper(0x12345678)] * (624 - len(words))
    if numba.config.DISABLE_JIT:
        import msmhelper.msm.timescales as ts

        class _Stub:
            def __init__(self, seq):
                self.seq = [float(fractions.Fraction(u)) for u in seq]
                self.i = 0

            def random(self):
                v = self.seq[self.i] if self.i < len(self.seq) else 0.5
                self.i += 1
                return v
        ts.random = _Stub(us)
        return
    ptr = _helperlib.rnd_get_py_state_ptr()
    _helperlib.rnd_set_state(ptr, (0, [int(w) for w in words[:624]]))


def restore():
    import numba
    if numba.config.DISABLE_JIT:
        import random
        import msmhelper.msm.timescales as ts
        ts.random = random
