/-
Refine/TextIOLemmas.lean — helper lemmas for task RP25 (property C16): the translated `swapcols` (`utils/_utils.py`), `opentxt`,
`opentxt_limits`, `openmicrostates` (`io.py`).  Runtime facts (`npBroadcast1`, `npAll1`, `npTake`, `npAssignAt`, `npTranspose`, `pySlice`,
`npSplit` on natural-number positions), the decomposition ("head") of each translated function into its oracle calls, the row function
`swapRow` describing `swapcols`, and `np.split(traj, cumsum(limits))[:-1] = TextIO.splitLimits.go`.
-/
import MsmVerif.Gen.IoOpen
import MsmVerif.Refine.Small
import MsmVerif.Props.C16

namespace MsmVerif.Refine.TextIO
open MsmVerif MsmVerif.Gen

/-! ### runtime basics -/

theorem asindex_eq (idx : List Int) : Gen.UtilsSwap.asindex idx = .ok idx := by
  unfold Gen.UtilsSwap.asindex
  simp [pyLen, pure, Except.pure]

theorem npBroadcast1_same_len {α β γ : Type} (f : α → β → γ) (a : List α) (b : List β) (h : a.length = b.length) :
    npBroadcast1 f a b = .ok (List.zipWith f a b) := by
  unfold npBroadcast1
  split
  · next x =>
    match b, h with
    | [y], _ => rfl
  · next y _ =>
    match a, h with
    | [x], _ => rfl
  · rw [if_pos h]

theorem npAll1_zipWith_beq (a b : List Int) (h : a.length = b.length) :
    npAll1 (List.zipWith (fun x y => x == y) a b) = decide (a = b) := by
  unfold npAll1
  induction a generalizing b with
  | nil =>
    cases b with
    | nil => simp
    | cons y ys => simp at h
  | cons x xs ih =>
    cases b with
    | nil => simp at h
    | cons y ys =>
      simp only [List.length_cons, Nat.add_right_cancel_iff] at h
      simp only [List.zipWith_cons_cons, List.all_cons, ih ys h, id]
      by_cases hxy : x = y <;> simp [hxy]

theorem pyGet_nat {α : Type} (l : List α) (k : Nat) (h : k < l.length) : pyGet l (Int.ofNat k) = .ok l[k] := by
  have h0 : (0 : Int) ≤ Int.ofNat k := by simp
  have h1 : Int.ofNat k < (l.length : Int) := by simp; omega
  simp only [pyGet, normIdx, h0, h1, if_true]
  simp [List.getElem?_eq_getElem h]

theorem pySet_nat {α : Type} (l : List α) (k : Nat) (v : α) (h : k < l.length) :
    pySet l (Int.ofNat k) v = .ok (l.set k v) := by
  have h0 : (0 : Int) ≤ Int.ofNat k := by simp
  have h1 : Int.ofNat k < (l.length : Int) := by simp; omega
  simp only [pySet, normIdx, h0, h1, if_true]
  simp

theorem npTake_nat {α : Type} (v : List α) (d : α) (idx : List Nat) (h : ∀ k ∈ idx, k < v.length) :
    npTake v (idx.map Int.ofNat) = .ok (idx.map (fun k => v.getD k d)) := by
  unfold npTake
  induction idx with
  | nil => rfl
  | cons k ks ih =>
    have hk := h k (by simp)
    rw [List.map_cons, List.mapM_cons, pyGet_nat v k hk, ih (fun j hj => h j (by simp [hj]))]
    simp [pure, Except.pure, bind, Except.bind, List.getD_eq_getElem?_getD, List.getElem?_eq_getElem hk]

/-- sequential assignment `T[old[k]] = vals[k]` with natural-number positions -/
def assignNat {α : Type} (T : List α) (old : List Nat) (vals : List α) : List α :=
  (old.zip vals).foldl (fun acc p => acc.set p.1 p.2) T

theorem assignNat_length {α : Type} (T : List α) (old : List Nat) (vals : List α) :
    (assignNat T old vals).length = T.length := by
  unfold assignNat
  induction old generalizing T vals with
  | nil => simp
  | cons o os ih =>
    cases vals with
    | nil => simp
    | cons v vs => simp only [List.zip_cons_cons, List.foldl_cons]; rw [ih]; simp

theorem assignNat_getD {α : Type} (T : List α) (old : List Nat) (vals : List α) (d : α) (hn : old.Nodup)
    (hl : old.length = vals.length) (j : Nat) (hj : j < T.length) :
    (assignNat T old vals).getD j d = if j ∈ old then vals.getD (old.idxOf j) d else T.getD j d := by
  unfold assignNat
  induction old generalizing T vals with
  | nil => simp
  | cons o os ih =>
    cases vals with
    | nil => simp at hl
    | cons v vs =>
      simp only [List.length_cons, Nat.add_right_cancel_iff] at hl
      obtain ⟨ho, hos⟩ := List.nodup_cons.mp hn
      simp only [List.zip_cons_cons, List.foldl_cons]
      rw [ih (T.set o v) vs hos hl (by simpa using hj)]
      by_cases hjo : j = o
      · subst hjo
        simp [ho, List.getD_eq_getElem?_getD, hj]
      · have hoj : ¬ o = j := fun e => hjo e.symm
        have hb : (o == j) = false := by simpa using hoj
        simp only [List.mem_cons, hjo, false_or, List.idxOf_cons, hb, cond_false]
        by_cases hm : j ∈ os
        · simp [hm, List.getD_eq_getElem?_getD]
        · simp [hm, List.getD_eq_getElem?_getD, hoj]

theorem foldlM_pySet_nat {α : Type} (T : List α) (old : List Nat) (vals : List α) (h : ∀ o ∈ old, o < T.length) :
    ((old.map Int.ofNat).zip vals).foldlM (fun acc p => pySet acc p.1 p.2) T = .ok (assignNat T old vals) := by
  unfold assignNat
  induction old generalizing T vals with
  | nil => rfl
  | cons o os ih =>
    cases vals with
    | nil => rfl
    | cons v vs =>
      simp only [List.map_cons, List.zip_cons_cons, List.foldlM_cons, List.foldl_cons]
      rw [pySet_nat T o v (h o (by simp))]
      simp only [bind, Except.bind]
      exact ih (T.set o v) vs (fun o' ho' => by simpa using h o' (by simp [ho']))

theorem npAssignAt_same_len {α : Type} (conv : List α) (idx : List Int) (vals : List α) (h : idx.length = vals.length) :
    npAssignAt conv idx vals = (idx.zip vals).foldlM (fun acc p => pySet acc p.1 p.2) conv := by
  unfold npAssignAt
  split
  · next x =>
    match idx, h with
    | [i], _ => rfl
  · rw [if_neg (by simpa using h)]

/-! ### transposition of a table given by a formula -/

theorem npShape1_of_rect {α : Type} (m : List (List α)) (c : Nat) (hne : m ≠ []) (h : ∀ r ∈ m, r.length = c) :
    npShape1 m = (c : Int) := by
  cases m with
  | nil => exact absurd rfl hne
  | cons r rs => simp [npShape1, h r (by simp)]

theorem npTranspose_rect (m : List (List Int)) (c : Nat) (hne : m ≠ []) (h : ∀ r ∈ m, r.length = c) :
    npTranspose m = (List.range c).map (fun j => m.map (fun row => row.getD j 0)) := by
  unfold npTranspose
  rw [npShape1_of_rect m c hne h]
  simp only [Int.toNat_natCast]
  rfl

/-- transposing the table whose row `j` is `m.map (g j)` (`c ≥ 1` rows) gives the table whose rows are `(g 0 row, …, g (c-1) row)` -/
theorem npTranspose_tab (m : List (List Int)) (c : Nat) (hc : 0 < c) (g : Nat → List Int → Int) :
    npTranspose ((List.range c).map (fun j => m.map (g j))) = m.map (fun row => (List.range c).map (fun j => g j row)) := by
  unfold npTranspose
  have hs : npShape1 ((List.range c).map (fun j => m.map (g j))) = (m.length : Int) := by
    cases c with
    | zero => omega
    | succ c => simp [List.range_succ_eq_map, npShape1]
  rw [hs]
  simp only [Int.toNat_natCast]
  apply List.ext_getElem
  · simp
  · intro i h1 h2
    simp only [List.length_map, List.length_range] at h1
    simp only [List.getElem_map, List.getElem_range, npCol, List.map_map, Function.comp_def]
    apply List.map_congr_left
    intro j _
    simp [List.getD_eq_getElem?_getD, h1]


/-! ### `swapcols` -/

/-- one row after `swapcols`: position `old[k]` holds the entry at `new[k]`, every other position is unchanged -/
def swapRow (c : Nat) (old new : List Nat) (row : List Int) : List Int :=
  (List.range c).map (fun j => if j ∈ old then row.getD (new.getD (old.idxOf j) 0) 0 else row.getD j 0)

theorem swapcols_head (array : List (List Int)) (old new : List Int) :
    Gen.UtilsSwap.swapcols array old new
      = if new.length ≠ old.length then .error .value
        else if new = old then .ok array
        else (npTake (npTranspose array) new >>= fun t4 =>
              npAssignAt (npTranspose array) old t4 >>= fun st => .ok (npTranspose st)) := by
  unfold Gen.UtilsSwap.swapcols
  simp only [asindex_eq, bind, Except.bind, pure, Except.pure]
  by_cases hl : new.length = old.length
  · have h1 : (pyLen new != pyLen old) = false := by simp [pyLen, hl]
    simp only [h1, Bool.false_eq_true, if_false, npBroadcast1_same_len _ new old hl, npAll1_zipWith_beq new old hl,
      ne_eq, hl, not_true_eq_false]
    by_cases he : new = old
    · simp [he]
    · simp only [he, decide_false, Bool.false_eq_true, if_false]
  · have h1 : (pyLen new != pyLen old) = true := by
      simp only [pyLen, bne_iff_ne, ne_eq]; omega
    simp only [h1, if_true, ne_eq, hl, not_false_eq_true]
    rfl

theorem map_ofNat_inj {a b : List Nat} (h : a.map Int.ofNat = b.map Int.ofNat) : a = b := by
  apply List.map_injective_iff.mpr _ h
  intro x y e
  exact Int.ofNat.inj e

theorem swapRow_same (c : Nat) (old : List Nat) (row : List Int) (hr : row.length = c) :
    swapRow c old old row = row := by
  unfold swapRow
  apply List.ext_getElem
  · simp [hr]
  · intro j h1 h2
    simp only [List.getElem_map, List.getElem_range]
    by_cases hm : j ∈ old
    · have hlt : old.idxOf j < old.length := List.idxOf_lt_length_iff.mpr hm
      simp [hm, List.getD_eq_getElem?_getD, List.getElem?_eq_getElem hlt, List.getElem_idxOf hlt, h2]
    · simp [hm, List.getD_eq_getElem?_getD, h2]

theorem swapcols_eq (array : List (List Int)) (c : Nat) (old new : List Nat) (hne : array ≠ [])
    (hrect : ∀ r ∈ array, r.length = c) (hold : ∀ j ∈ old, j < c) (hnew : ∀ j ∈ new, j < c) (hnd : old.Nodup)
    (hlen : old.length = new.length) :
    Gen.UtilsSwap.swapcols array (old.map Int.ofNat) (new.map Int.ofNat) = .ok (array.map (swapRow c old new)) := by
  rw [swapcols_head]
  rw [if_neg (by simp [hlen])]
  by_cases he : new.map Int.ofNat = old.map Int.ofNat
  · rw [if_pos he]
    have : new = old := map_ofNat_inj he
    subst this
    congr 1
    symm
    conv => rhs; rw [← List.map_id array]
    apply List.map_congr_left
    intro row hrow
    exact swapRow_same c new row (hrect row hrow)
  · rw [if_neg he]
    have hc : 0 < c := by
      cases old with
      | nil =>
        cases new with
        | nil => exact absurd rfl he
        | cons _ _ => simp at hlen
      | cons o os => have := hold o (by simp); omega
    rw [npTranspose_rect array c hne hrect]
    rw [npTake_nat _ [] new (by simpa using hnew)]
    simp only [bind, Except.bind]
    rw [npAssignAt_same_len _ _ _ (by simp [hlen]), foldlM_pySet_nat _ _ _ (by simpa using hold)]
    simp only []
    have key : assignNat ((List.range c).map (fun j => array.map (fun row => row.getD j 0))) old
          (new.map (fun k => ((List.range c).map (fun j => array.map (fun row => row.getD j 0))).getD k []))
        = (List.range c).map (fun j => array.map
            (fun row => if j ∈ old then row.getD (new.getD (old.idxOf j) 0) 0 else row.getD j 0)) := by
      apply List.ext_getElem
      · simp [assignNat_length]
      · intro j h1 h2
        simp only [List.length_map, List.length_range] at h2
        have hg := assignNat_getD ((List.range c).map (fun j => array.map (fun row => row.getD j 0))) old
          (new.map (fun k => ((List.range c).map (fun j => array.map (fun row => row.getD j 0))).getD k [])) []
          hnd (by simp [hlen]) j (by simpa using h2)
        rw [List.getD_eq_getElem?_getD, List.getElem?_eq_getElem h1, Option.getD_some] at hg
        rw [hg]
        simp only [List.getElem_map, List.getElem_range]
        by_cases hm : j ∈ old
        · have hlt : old.idxOf j < new.length := by rw [← hlen]; exact List.idxOf_lt_length_iff.mpr hm
          have hlt' : new[old.idxOf j] < c := hnew _ (List.getElem_mem _)
          simp [hm, List.getD_eq_getElem?_getD, hlt, hlt']
        · simp [hm, List.getD_eq_getElem?_getD, h2]
    rw [key, npTranspose_tab array c hc]
    rfl


/-! ### `opentxt` -/

theorem opentxt_cols_2d_head (rd : Int → Int → List Int → Py (List (List Int))) (as : List Int → Py (List Int))
    (file nrows : Int) (usecols : List Int) :
    Gen.IoOpen.opentxt_cols_2d rd as file nrows usecols
      = (as usecols >>= fun idx => npTake (usecols.map npWrap32) idx >>= fun cs => rd file nrows cs >>= fun A =>
          if npShape1 A = 1 then .error .other else Gen.UtilsSwap.swapcols A idx (npArange 0 (pyLen idx))) := by
  unfold Gen.IoOpen.opentxt_cols_2d
  simp only [bind, Except.bind, pure, Except.pure]
  cases as usecols with
  | error e => rfl
  | ok idx =>
    simp only []
    cases npTake (usecols.map npWrap32) idx with
    | error e => rfl
    | ok cs =>
      simp only []
      cases rd file nrows cs with
      | error e => rfl
      | ok A =>
        simp only []
        by_cases h : npShape1 A = 1
        · simp [h]; rfl
        · simp only [beq_iff_eq, h, if_false]
          cases Gen.UtilsSwap.swapcols A idx (npArange 0 (pyLen idx)) <;> rfl

theorem opentxt_cols_1d_head (rd : Int → Int → List Int → Py (List (List Int))) (as : List Int → Py (List Int))
    (file nrows : Int) (usecols : List Int) :
    Gen.IoOpen.opentxt_cols_1d rd as file nrows usecols
      = (as usecols >>= fun idx => npTake (usecols.map npWrap32) idx >>= fun cs => rd file nrows cs >>= fun A =>
          if npShape1 A = 1 then .ok A.flatten else .error .other) := by
  unfold Gen.IoOpen.opentxt_cols_1d
  simp only [bind, Except.bind, pure, Except.pure]
  cases as usecols with
  | error e => rfl
  | ok idx =>
    simp only []
    cases npTake (usecols.map npWrap32) idx with
    | error e => rfl
    | ok cs =>
      simp only []
      cases rd file nrows cs with
      | error e => rfl
      | ok A =>
        simp only []
        by_cases h : npShape1 A = 1
        · simp [h]
        · simp [h]; rfl

theorem opentxt_all_2d_head (rd : Int → Int → Py (List (List Int))) (file nrows : Int) :
    Gen.IoOpen.opentxt_all_2d rd file nrows
      = (rd file nrows >>= fun A => if npShape1 A = 1 then .error .other else .ok A) := by
  unfold Gen.IoOpen.opentxt_all_2d
  simp only [bind, Except.bind, pure, Except.pure]
  cases rd file nrows with
  | error e => rfl
  | ok A =>
    simp only []
    by_cases h : npShape1 A = 1
    · simp [h]; rfl
    · simp [h]

theorem opentxt_all_1d_head (rd : Int → Int → Py (List (List Int))) (file nrows : Int) :
    Gen.IoOpen.opentxt_all_1d rd file nrows
      = (rd file nrows >>= fun A => if npShape1 A = 1 then .ok A.flatten else .error .other) := by
  unfold Gen.IoOpen.opentxt_all_1d
  simp only [bind, Except.bind, pure, Except.pure]
  cases rd file nrows with
  | error e => rfl
  | ok A =>
    simp only []
    by_cases h : npShape1 A = 1
    · simp [h]
    · simp [h]; rfl

theorem npWrap32_small (c : Nat) (h : c < 2147483648) : npWrap32 (Int.ofNat c) = Int.ofNat c := by
  unfold npWrap32
  simp only [Int.ofNat_eq_natCast]
  omega

theorem map_wrap32 (cols : List Nat) (h : ∀ c ∈ cols, c < 2147483648) :
    (cols.map Int.ofNat).map npWrap32 = cols.map Int.ofNat := by
  induction cols with
  | nil => rfl
  | cons c cs ih =>
    rw [List.map_cons, List.map_cons, npWrap32_small c (h c (by simp)), ih (fun d hd => h d (by simp [hd]))]

theorem selectCols_shape1 (cs : List Nat) (F : List (List Int)) (hF : F ≠ []) :
    npShape1 (TextIO.selectCols cs F) = (cs.length : Int) := by
  cases F with
  | nil => exact absurd rfl hF
  | cons r rs => simp [TextIO.selectCols, npShape1]

/-- a table whose rows all have exactly one entry, flattened, is its column 0 -/
theorem flatten_single_col (A : List (List Int)) (h : ∀ r ∈ A, r.length = 1) : A.flatten = A.map (fun r => r.getD 0 0) := by
  induction A with
  | nil => rfl
  | cons r rs ih =>
    have hr := h r (by simp)
    match r, hr with
    | [x], _ =>
      rw [List.flatten_cons, ih (fun s hs => h s (by simp [hs]))]
      rfl

/-- the swap-back step of `opentxt`: the ascending columns `cs[k] = cols[p[k]]`, moved to the positions `p[k]`, are the columns `cols` -/
theorem swapRow_back (cols p : List Nat) (hperm : p.Perm (List.range cols.length)) (row : List Int) :
    swapRow cols.length p (List.range cols.length) ((p.map (fun k => cols.getD k 0)).map (fun c => row.getD c 0))
      = cols.map (fun c => row.getD c 0) := by
  unfold swapRow
  have hpl : p.length = cols.length := by rw [hperm.length_eq, List.length_range]
  apply List.ext_getElem
  · simp
  · intro j h1 h2
    simp only [List.length_map] at h2
    have hm : j ∈ p := hperm.mem_iff.mpr (List.mem_range.mpr h2)
    have hlt : p.idxOf j < p.length := List.idxOf_lt_length_iff.mpr hm
    have hlt' : p.idxOf j < cols.length := by omega
    simp only [List.getElem_map, List.getElem_range, hm, if_true]
    simp [List.getD_eq_getElem?_getD, hlt, hlt', List.getElem_idxOf hlt, h2]


/-! ### `np.split(traj, cumsum(limits))[:-1]` -/

open MsmVerif.Refine.Small in
theorem cumsums_cons (x : Int) (xs : List Int) : cumsums (x :: xs) = x :: (cumsums xs).map (fun y => x + y) := by
  unfold cumsums
  simp only [List.length_cons, List.range_succ_eq_map, List.map_cons, List.map_map, Function.comp_def,
    List.take_succ_cons, List.take_zero, List.sum_cons, List.sum_nil, Int.add_zero]

theorem pySlice_nat {α : Type} (v : List α) (p n : Nat) :
    pySlice v (some (p : Int)) (some ((p : Int) + (n : Int))) = (v.drop p).take n := by
  simp only [pySlice, pyBound]
  have h1 : ¬ ((p : Int) < 0) := by omega
  have h2 : ¬ ((p : Int) + (n : Int) < 0) := by omega
  have e1 : ((p : Int)).toNat = p := by omega
  have e2 : ((p : Int) + (n : Int)).toNat = p + n := by omega
  simp only [h1, h2, if_false, e1, e2]
  by_cases hp : p ≤ v.length
  · rw [Nat.min_eq_left hp, List.take_eq_take_iff, List.length_drop]
    omega
  · rw [List.drop_of_length_le (l := v) (i := p) (by omega), List.drop_of_length_le (by omega)]
    simp

theorem pySlice_from_nat {α : Type} (v : List α) (p : Nat) :
    pySlice v (some (p : Int)) none = v.drop p := by
  simp only [pySlice, pyBound]
  have h1 : ¬ ((p : Int) < 0) := by omega
  have e1 : ((p : Int)).toNat = p := by omega
  simp only [h1, if_false, e1]
  rw [List.take_of_length_le (Nat.le_of_eq List.length_drop)]
  by_cases hp : p ≤ v.length
  · rw [Nat.min_eq_left hp]
  · rw [List.drop_of_length_le (by omega), List.drop_of_length_le (by omega)]

theorem pySlice_init {α : Type} (L : List α) : pySlice L none (some (-1)) = L.take (L.length - 1) := by
  simp only [pySlice, pyBound, List.drop_zero]
  have h : ((-1 : Int) < 0) := by omega
  simp only [h, if_true]
  have : ((-1 : Int) + (L.length : Int)).toNat - 0 = L.length - 1 := by omega
  rw [this]

theorem pySlice_dropLast {α : Type} (L : List α) (z : α) : pySlice (L ++ [z]) none (some (-1)) = L := by
  rw [pySlice_init]
  simp

theorem npSplit_go_length {α : Type} (l : List α) (prev : Int) (limits : List Int) :
    (npSplit.go l prev limits).length = limits.length + 1 := by
  induction limits generalizing prev with
  | nil => simp [npSplit.go]
  | cons i rest ih => simp [npSplit.go, ih]

open MsmVerif.Refine.Small in
/-- `np.split` at the cumulative sums of natural-number lengths (starting the running sum at position `p`) -/
theorem npSplit_go_cumsums {α : Type} (l : List α) (lens : List Nat) (p : Nat) :
    npSplit.go l (p : Int) ((cumsums (lens.map Int.ofNat)).map (fun y => (p : Int) + y))
      = TextIO.splitLimits.go lens (l.drop p) ++ [l.drop (p + lens.sum)] := by
  induction lens generalizing p with
  | nil => simp [cumsums, npSplit.go, TextIO.splitLimits.go, pySlice_from_nat]
  | cons n ns ih =>
    simp only [List.map_cons, cumsums_cons, npSplit.go, TextIO.splitLimits.go, List.sum_cons, List.cons_append,
      Int.ofNat_eq_natCast, List.map_map, Function.comp_def]
    rw [pySlice_nat]
    have h := ih (p + n)
    simp only [Int.natCast_add, Int.add_assoc] at h
    rw [h, List.drop_drop, Nat.add_assoc]

open MsmVerif.Refine.Small in
theorem split_cumsums {α : Type} (rows : List α) (lim : List Nat) :
    pySlice (npSplit rows (cumsums (lim.map Int.ofNat))) none (some (-1)) = TextIO.splitLimits.go lim rows := by
  unfold npSplit
  have h := npSplit_go_cumsums rows lim 0
  simp only [Int.natCast_zero, Int.zero_add, List.map_id', List.drop_zero] at h
  rw [h, pySlice_dropLast]

theorem split_single {α : Type} (rows : List α) :
    pySlice (npSplit rows [pyLen rows]) none (some (-1)) = [rows] := by
  have h := split_cumsums rows [rows.length]
  simp only [List.map_cons, List.map_nil, Small.cumsums, List.length_cons, List.length_nil, List.range_succ_eq_map,
    List.range_zero, TextIO.splitLimits.go] at h
  simpa [pyLen] using h


/-! ### `opentxt_limits` -/

theorem limits_1d_file_head (d : Int → Int → Py (List Int)) (o : Int → Py (List Int)) (f lf dt : Int) :
    Gen.IoOpen.opentxt_limits_1d_file d o f lf dt
      = (d f dt >>= fun traj => Gen.IoLimits.open_limits_file o (pyLen traj) lf >>= fun limits =>
          .ok (pySlice (npSplit traj limits) none (some (-1)))) := by
  unfold Gen.IoOpen.opentxt_limits_1d_file
  rfl

theorem limits_2d_file_head (d : Int → Int → Py (List (List Int))) (o : Int → Py (List Int)) (f lf dt : Int) :
    Gen.IoOpen.opentxt_limits_2d_file d o f lf dt
      = (d f dt >>= fun traj => Gen.IoLimits.open_limits_file o (pyLen traj) lf >>= fun limits =>
          .ok (pySlice (npSplit traj limits) none (some (-1)))) := by
  unfold Gen.IoOpen.opentxt_limits_2d_file
  rfl

theorem limits_1d_none_head (d : Int → Int → Py (List Int)) (o : Int → Py (List Int)) (f dt : Int) :
    Gen.IoOpen.opentxt_limits_1d_none d o f dt = (d f dt >>= fun traj => .ok [traj]) := by
  unfold Gen.IoOpen.opentxt_limits_1d_none Gen.IoLimits.open_limits_none
  simp only [bind, Except.bind, pure, Except.pure, split_single]

theorem limits_2d_none_head (d : Int → Int → Py (List (List Int))) (o : Int → Py (List Int)) (f dt : Int) :
    Gen.IoOpen.opentxt_limits_2d_none d o f dt = (d f dt >>= fun traj => .ok [traj]) := by
  unfold Gen.IoOpen.opentxt_limits_2d_none Gen.IoLimits.open_limits_none
  simp only [bind, Except.bind, pure, Except.pure, split_single]

/-- the result of the split step is never empty when `open_limits` succeeded -/
theorem split_after_open_ne_nil {α : Type} (o : Int → Py (List Int)) (dl lf : Int) (limits : List Int) (traj : List α)
    (h : Gen.IoLimits.open_limits_file o dl lf = .ok limits) :
    pySlice (npSplit traj limits) none (some (-1)) ≠ [] := by
  rw [Small.open_limits_eq] at h
  cases ho : o lf with
  | error e => rw [ho] at h; cases h
  | ok lim =>
    rw [ho] at h
    simp only [bind, Except.bind] at h
    by_cases hl : lim = []
    · rw [if_pos hl] at h; cases h
    · rw [if_neg hl] at h
      by_cases hd : dl = lim.sum
      · rw [if_pos hd] at h
        cases h
        have h1 : 1 ≤ lim.length := by
          cases lim with
          | nil => exact absurd rfl hl
          | cons _ _ => simp
        intro hnil
        have h2 := congrArg List.length hnil
        rw [pySlice_init] at h2
        unfold npSplit at h2
        simp only [List.length_take, npSplit_go_length, Small.cumsums_length, List.length_nil] at h2
        omega
      · rw [if_neg hd] at h; cases h

/-- the final check of `openmicrostates` on 1-d pieces: `traj[0]` exists and `len(traj[0].shape) = 1`, so the pieces are returned -/
theorem micro_check (traj : List (List Int)) (h : traj ≠ []) :
    (pyGet traj (0 : Int) >>= fun t2 =>
      if (pyLen [(pyLen t2)] != (1 : Int)) = true then (throw Err.file : Py (List (List Int))) else pure traj) = .ok traj := by
  cases traj with
  | nil => exact absurd rfl h
  | cons t ts =>
    have : pyGet (t :: ts) (0 : Int) = .ok t := pyGet_nat (t :: ts) 0 (by simp)
    rw [this]
    simp [bind, Except.bind, pyLen, pure, Except.pure]


/-- the tail of `openmicrostates` (1-d pieces) after a computation `m` that never returns an empty list of pieces is `m` itself -/
theorem micro_bind (m : Py (List (List Int))) (h : ∀ traj, m = .ok traj → traj ≠ []) :
    (m >>= fun traj => pyGet traj (0 : Int) >>= fun t2 =>
      if (pyLen [(pyLen t2)] != (1 : Int)) = true then (throw Err.file : Py (List (List Int))) else pure traj) = m := by
  cases hm : m with
  | error e => rfl
  | ok traj => exact micro_check traj (h traj hm)

theorem limits_1d_none_ne_nil (d : Int → Int → Py (List Int)) (o : Int → Py (List Int)) (f dt : Int) :
    ∀ traj, Gen.IoOpen.opentxt_limits_1d_none d o f dt = .ok traj → traj ≠ [] := by
  intro traj h
  rw [limits_1d_none_head] at h
  cases hd : d f dt with
  | error e => rw [hd] at h; cases h
  | ok rows =>
    rw [hd] at h
    cases h
    simp

theorem limits_1d_file_ne_nil (d : Int → Int → Py (List Int)) (o : Int → Py (List Int)) (f lf dt : Int) :
    ∀ traj, Gen.IoOpen.opentxt_limits_1d_file d o f lf dt = .ok traj → traj ≠ [] := by
  intro traj h
  rw [limits_1d_file_head] at h
  cases hd : d f dt with
  | error e => rw [hd] at h; cases h
  | ok rows =>
    rw [hd] at h
    cases ho : Gen.IoLimits.open_limits_file o (pyLen rows) lf with
    | error e => simp only [bind, Except.bind, ho] at h; cases h
    | ok limits =>
      simp only [bind, Except.bind, ho] at h
      cases h
      exact split_after_open_ne_nil o _ lf limits rows ho

theorem micro_2d_none_head (d : Int → Int → Py (List (List Int))) (o : Int → Py (List Int)) (f : Int) :
    Gen.IoOpen.openmicrostates_default_2d_none d o f
      = (Gen.IoOpen.opentxt_limits_2d_none d o f 16 >>= fun _ => (.error .file : Py (List (List (List Int))))) := rfl

theorem micro_2d_file_head (d : Int → Int → Py (List (List Int))) (o : Int → Py (List Int)) (f lf : Int) :
    Gen.IoOpen.openmicrostates_default_2d_file d o f lf
      = (Gen.IoOpen.opentxt_limits_2d_file d o f lf 16 >>= fun _ => (.error .file : Py (List (List (List Int))))) := rfl


/-- reading `cols` through a permutation of its positions gives a permutation of `cols` -/
theorem perm_map_getD (cols p : List Nat) (hperm : p.Perm (List.range cols.length)) :
    (p.map (fun k => cols.getD k 0)).Perm cols := by
  have h1 := hperm.map (fun k => cols.getD k 0)
  have h2 : (List.range cols.length).map (fun k => cols.getD k 0) = cols := by
    apply List.ext_getElem
    · simp
    · intro i h1 h2
      simp [List.getD_eq_getElem?_getD, h2]
  rwa [h2] at h1

end MsmVerif.Refine.TextIO
