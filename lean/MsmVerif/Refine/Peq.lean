/-
Refine/Peq.lean — task RP10 (property C04): the function `equilibrium_population` TRANSLATED from `src/msmhelper/msm/msm.py`
(`Gen.MsmNorm.equilibrium_population`; array dialect over the numpy runtime `Gen/NpRt.lean`) against the hand-written model
`Linalg.equilibrium` of `Model/Linalg.lean`.

The translated function does NOT solve a linear system: it asks numpy/LAPACK for a left eigenvector (`linalg.left_eigenvectors(M, nvals=1)`),
which is an ORACLE parameter `ext` here, and returns `|v| / Σ|v|`.  The model solves `[Tᵀ - 1 ; 1ᵀ] x = e` exactly (`Linalg.stationary`).
The theorems show that both give the same vector for EVERY oracle that satisfies a contract (`EigOk` for one matrix, `EigContract` for all):
the answer is an exact, non-zero left fixed vector — any scaling, any signs.

Vocabulary: `absNormalize v = |v| / Σ|v|` (the last two lines of the Python function), `Linalg.restrict T mask` = `T[np.ix_(mask, mask)]`,
`Linalg.embed v mask` = zero vector with `v` written to the marked positions, `Msm.rowNormalizeQ` = `row_normalize_matrix`.

About the contract: the literal wording "for EVERY square k×k matrix (k ≥ 2) the oracle returns a non-zero `v` with `v M = v`" cannot be
satisfied by any oracle (`literal_contract_unsatisfiable`: `2·1` has no such vector), so `EigContract` only demands it for matrices that HAVE a
non-zero left fixed vector; that contract is satisfiable (`eigContract_satisfiable`).
-/
import MsmVerif.Refine.PeqLemmas

namespace MsmVerif.Refine.Peq
open MsmVerif MsmVerif.Gen MsmVerif.Linalg MsmVerif.Msm

/-! ### the oracle contract -/

/-- The oracle answers correctly AT the matrix `M`: `ext M 1` raises nothing and the first vector `v` it returns has one entry per state,
    is not the zero vector and is an exact left fixed vector, `v M = v` (eigenvalue 1; any scaling, any signs; the returned eigenvalues and
    any further vectors are irrelevant). -/
def EigOk (ext : Oracle) (M : Mat) : Prop :=
  ∃ (vals v : Vec) (rest : List Vec), ext M 1 = .ok (vals, v :: rest) ∧ v.length = M.length ∧ (∃ x ∈ v, x ≠ 0) ∧ vecMat v M = v

/-- Contract of the eigen-solver oracle `linalg.left_eigenvectors(M, nvals=1)`:
    * `fixed`: on every square `k × k` matrix with `k ≥ 2` that possesses a non-zero left fixed vector the oracle returns one (`EigOk`);
    * `refuse1`: a `1 × 1` matrix is refused with `TypeError` (`is_quadratic` is false for it). -/
structure EigContract (ext : Oracle) : Prop where
  fixed : ∀ M : Mat, isSquare M = true → 2 ≤ M.length →
    (∃ u : Vec, u.length = M.length ∧ (∃ x ∈ u, x ≠ 0) ∧ vecMat u M = u) → EigOk ext M
  refuse1 : ∀ M : Mat, isSquare M = true → M.length = 1 → ext M 1 = .error .type

/-- The contract in its literal wording ("on EVERY square matrix with at least two rows the oracle returns a non-zero left fixed vector")
    is satisfied by no oracle at all: the matrix `[[2,0],[0,2]]` has no non-zero vector with `v M = v`.  (This is why `EigContract.fixed`
    carries the extra premise that such a vector exists.) -/
theorem literal_contract_unsatisfiable :
    ¬ ∃ ext : Oracle, ∀ M : Mat, isSquare M = true → 2 ≤ M.length → EigOk ext M := by
  rintro ⟨ext, h⟩
  obtain ⟨_, v, _, _, hl, ⟨x, hx, hx0⟩, hfix⟩ := h [[2, 0], [0, 2]] (by decide) (by decide)
  match v, hl with
  | [a, b], _ =>
    have h2 : vecMat [a, b] [[2, 0], [0, 2]] = [a * 2 + (b * 0 + 0), a * 0 + (b * 2 + 0)] := rfl
    rw [h2] at hfix
    have ha : a = 0 := by
      have := (List.cons.inj hfix).1
      linarith
    have hb : b = 0 := by
      have := (List.cons.inj (List.cons.inj hfix).2).1
      linarith
    simp only [List.mem_cons, List.not_mem_nil, or_false] at hx
    rcases hx with rfl | rfl
    · exact hx0 ha
    · exact hx0 hb

/-- The contract `EigContract` is satisfiable: there is an oracle (chosen non-constructively) that fulfils it. -/
theorem eigContract_satisfiable : ∃ ext : Oracle, EigContract ext := by
  classical
  refine ⟨fun M _ =>
    if h : (∃ u : Vec, u.length = M.length ∧ (∃ x ∈ u, x ≠ 0) ∧ vecMat u M = u) ∧ M.length ≠ 1
    then .ok ([1], [Classical.choose h.1]) else .error .type, ?_, ?_⟩
  · intro M _ h2 hu
    have hc : (∃ u : Vec, u.length = M.length ∧ (∃ x ∈ u, x ≠ 0) ∧ vecMat u M = u) ∧ M.length ≠ 1 := ⟨hu, by omega⟩
    refine ⟨[1], Classical.choose hc.1, [], ?_, Classical.choose_spec hc.1⟩
    simp only [dif_pos hc]
  · intro M _ h1
    have hc : ¬ ((∃ u : Vec, u.length = M.length ∧ (∃ x ∈ u, x ≠ 0) ∧ vecMat u M = u) ∧ M.length ≠ 1) :=
      fun h => h.2 h1
    simp only [dif_neg hc]

/-! ### the numpy plumbing is the model's -/

/-- `tmat[np.ix_(mask, mask)]` is the model's `restrict`: for a square matrix and a mask with one entry per state the runtime's boolean
    double-mask read raises nothing and returns the sub-matrix of the marked rows and columns. -/
theorem npIx_eq_restrict (T : Mat) (mask : List Bool) (hsq : isSquare T = true) (hm : mask.length = T.length) :
    Gen.npIx T mask mask = .ok (Linalg.restrict T mask) :=
  npIx_eq T mask hsq hm

example : Gen.npIx [[(1 : Rat), 2, 3], [4, 5, 6], [7, 8, 9]] [true, false, true] [true, false, true] = .ok [[1, 3], [7, 9]] := by
  decide +kernel
example : isSquare [[(1 : Rat), 2, 3], [4, 5, 6], [7, 8, 9]] = true ∧
    restrict [[(1 : Rat), 2, 3], [4, 5, 6], [7, 8, 9]] [true, false, true] = [[1, 3], [7, 9]] := by decide +kernel

/-- `eigenvectors = np.zeros(len(tmat)); eigenvectors[mask] = w` is the model's `embed w mask`, provided the mask has one entry per state
    and `w` has exactly one entry per marked state (and is not a single number, which numpy would broadcast): no `ValueError`, no `IndexError`. -/
theorem npMaskAssign_eq_embed_zeros (T : Mat) (mask : List Bool) (w : Vec) (hm : mask.length = T.length)
    (hw : w.length = (restrict T mask).length) (h1 : w.length ≠ 1) :
    Gen.npMaskAssign (Gen.pyFull1 (Gen.pyLen T) (0 : Rat)) mask w = .ok (Linalg.embed w mask) := by
  rw [pyFull1_len]
  exact npMaskAssign_eq_embed T.length mask w hm (by rw [hw, length_restrict]) h1

example : Gen.npMaskAssign (Gen.pyFull1 (Gen.pyLen [[(1 : Rat), 2, 3], [4, 5, 6], [7, 8, 9]]) (0 : Rat)) [true, false, true] [5, 7]
    = .ok [5, 0, 7] ∧ Linalg.embed [5, 7] [true, false, true] = [5, 0, 7] := by decide +kernel

/-! ### refusal -/

/-- Refusal: for a non-empty square matrix that the model does not accept as ergodic, `equilibrium_population(T, allow_non_ergodic=False)`
    raises `ValueError` — for ANY oracle (the oracle is never called). -/
theorem peq_refused (ext : Oracle) (T : Mat) (hne : T ≠ []) (hsq : isSquare T = true) (h : isErgodic T = false) :
    Gen.MsmNorm.equilibrium_population ext T false = .error .value := by
  apply peq_case_refused
  rw [Ergodic.is_ergodic_refines T hne hsq, h]

/-- Refusal also for non-square input: for every non-empty rectangular array that is not ergodic (every non-square array is not),
    `allow_non_ergodic=False` gives `ValueError`, whether it comes from the explicit `raise` or from numpy's broadcasting inside
    `is_transition_matrix`. -/
theorem peq_refused_rect (ext : Oracle) (T : Mat) (hrect : Gen.npRect T = true) (hne : T ≠ []) (h : isErgodic T = false) :
    Gen.MsmNorm.equilibrium_population ext T false = .error .value := by
  cases hsq : isSquare T with
  | true => exact peq_refused ext T hne hsq h
  | false =>
    by_cases hthin : T.length = 1 ∨ (T.getD 0 []).length = 1
    · apply peq_case_refused
      rw [Ergodic.is_ergodic_nonsquare_thin T hrect hne hsq hthin, h]
    · exact peq_case_error ext T false .value
        (Ergodic.is_ergodic_nonsquare T hrect hne hsq (fun e => hthin (Or.inl e)) (fun e => hthin (Or.inr e)) _)

/-- The model agrees: it refuses exactly in this situation. -/
theorem peq_refused_model (ext : Oracle) (T : Mat) (hne : T ≠ []) (hsq : isSquare T = true) (h : isErgodic T = false) :
    Gen.MsmNorm.equilibrium_population ext T false = .error .value ∧ Linalg.equilibrium T false = .error .value :=
  ⟨peq_refused ext T hne hsq h, (C04.guard_error T).mpr h⟩

example : ([[0, 1], [1, 0]] : Mat) ≠ [] ∧ isSquare [[0, 1], [1, 0]] = true ∧ isErgodic [[0, 1], [1, 0]] = false := by
  decide +kernel
example : Gen.MsmNorm.equilibrium_population (fun _ _ => .error .other) [[0, 1], [1, 0]] false = .error .value := by decide +kernel

/-! ### the ergodic case (sentence 1 of the property) -/

/-- MAIN theorem, most general form.  Let `T` be a square matrix with non-negative entries and all row sums `≤ 1` which the model reports
    ergodic, and let the exact solver of the model succeed, `Linalg.stationary T = some π`.  Then for EVERY oracle whose answer at `T` is a
    non-zero exact left fixed vector `v` (`EigOk ext T`; any scaling, any signs) the translated function returns exactly `π`
    (`|v| / Σ|v| = π`), whatever the flag `allow_non_ergodic`.  (No exception, in particular no division by zero.) -/
theorem peq_ergodic_refines_at (ext : Oracle) (T : Mat) (π : Vec) (allow : Bool) (hok : EigOk ext T)
    (hnn : ∀ r ∈ T, ∀ x ∈ r, 0 ≤ x) (hrow : ∀ r ∈ T, r.sum ≤ 1)
    (herg : isErgodic T = true) (hπ : stationary T = some π) :
    Gen.MsmNorm.equilibrium_population ext T allow = .ok π := by
  have ht := isTmat_of_isErgodic herg
  have hT := WF_of_isTmat ht
  have hsq := isSquare_of_WF hT
  have hne : T ≠ [] := by
    intro h; have := two_le_of_isTmat ht; rw [h] at this; simp at this
  obtain ⟨vals, v, rest, hext, hl, hnz, hfix⟩ := hok
  rw [peq_case_ergodic ext T allow (by rw [Ergodic.is_ergodic_refines T hne hsq, herg]) vals v rest hext]
  exact congrArg Except.ok (absNormalize_eq_stationary hT hnn hrow hπ hl hnz hfix)

/-- MAIN theorem with the global contract, row sums `≤ 1`: as `peq_ergodic_refines_at`, for every oracle satisfying `EigContract` (the
    solver's own `π` witnesses that `T` has a non-zero left fixed vector, so the contract applies to `T`). -/
theorem peq_ergodic_refines_le (ext : Oracle) (T : Mat) (π : Vec) (allow : Bool) (hcontract : EigContract ext)
    (hnn : ∀ r ∈ T, ∀ x ∈ r, 0 ≤ x) (hrow : ∀ r ∈ T, r.sum ≤ 1)
    (herg : isErgodic T = true) (hπ : stationary T = some π) :
    Gen.MsmNorm.equilibrium_population ext T allow = .ok π := by
  have ht := isTmat_of_isErgodic herg
  have hT := WF_of_isTmat ht
  have hs := C04.stationary_sound T.length T π hT hπ
  have hlπ : π.length = T.length := by rw [← hs.1]; exact length_vecMat hT π
  have hok : EigOk ext T := hcontract.fixed T (isSquare_of_WF hT) (two_le_of_isTmat ht)
    ⟨π, hlπ, exists_ne_zero_of_sum_ne_zero (by rw [hs.2]; exact one_ne_zero), hs.1⟩
  exact peq_ergodic_refines_at ext T π allow hok hnn hrow herg hπ

/-- MAIN theorem (sentence 1 of the property, ergodic case): for a matrix with non-negative entries whose rows sum exactly to 1, which the
    model reports ergodic and whose exact stationary solver succeeds (`Linalg.stationary T = some π`), the translated function returns
    exactly `π` for EVERY oracle satisfying the contract `EigContract`: `|v| / Σ|v| = π`.  (Squareness and `T ≠ []` follow from `herg`.) -/
theorem peq_ergodic_refines (ext : Oracle) (T : Mat) (π : Vec) (allow : Bool) (hcontract : EigContract ext)
    (hnn : ∀ r ∈ T, ∀ x ∈ r, 0 ≤ x) (hrow : ∀ r ∈ T, r.sum = 1)
    (herg : isErgodic T = true) (hπ : stationary T = some π) :
    Gen.MsmNorm.equilibrium_population ext T allow = .ok π :=
  peq_ergodic_refines_le ext T π allow hcontract hnn (fun r hr => le_of_eq (hrow r hr)) herg hπ

/-- Corollary, agreement with the model in the ergodic case: under the hypotheses of the main theorem the translated function returns `π`
    and the model `Linalg.equilibrium T allow` returns `some π`. -/
theorem peq_ergodic_model (ext : Oracle) (T : Mat) (π : Vec) (allow : Bool) (hcontract : EigContract ext)
    (hnn : ∀ r ∈ T, ∀ x ∈ r, 0 ≤ x) (hrow : ∀ r ∈ T, r.sum = 1)
    (herg : isErgodic T = true) (hπ : stationary T = some π) :
    Gen.MsmNorm.equilibrium_population ext T allow = .ok π ∧ Linalg.equilibrium T allow = .ok (some π) :=
  ⟨peq_ergodic_refines ext T π allow hcontract hnn hrow herg hπ, by rw [C04.guard_ok T allow herg, hπ]⟩

/-- In the ergodic case an exception of the oracle is passed on unchanged (nothing is caught). -/
theorem peq_ergodic_oracle_error (ext : Oracle) (T : Mat) (allow : Bool) (hne : T ≠ []) (hsq : isSquare T = true)
    (herg : isErgodic T = true) (e : Err) (hext : ext T 1 = .error e) :
    Gen.MsmNorm.equilibrium_population ext T allow = .error e :=
  peq_case_ergodic_error ext T allow (by rw [Ergodic.is_ergodic_refines T hne hsq, herg]) e hext

/-- a concrete ergodic 3-state matrix -/
def exT : Mat := [[1/2, 1/2, 0], [1/4, 1/2, 1/4], [0, 1/2, 1/2]]
/-- its stationary vector -/
def exπ : Vec := [1/4, 1/2, 1/4]
/-- a concrete oracle: on `exT` it answers `(-2)·π` (wrong sign, wrong scale), everything else it refuses -/
def exOracle : Oracle := fun M _ => if M = exT then .ok ([1], [[-1/2, -1, -1/2]]) else .error .type

-- non-vacuity of the main theorem: all hypotheses hold for `exT`, `exπ`, `exOracle` …
example : EigOk exOracle exT := ⟨[1], [-1/2, -1, -1/2], [], by decide +kernel, by decide +kernel, ⟨-1, by decide +kernel⟩, by decide +kernel⟩
example : (∀ r ∈ exT, ∀ x ∈ r, 0 ≤ x) ∧ (∀ r ∈ exT, r.sum = 1) ∧ isErgodic exT = true ∧ stationary exT = some exπ := by
  decide +kernel
-- … and the result is `π` (evaluated directly, and obtained from the theorem)
example : Gen.MsmNorm.equilibrium_population exOracle exT false = .ok exπ := by decide +kernel
example : Gen.MsmNorm.equilibrium_population exOracle exT true = .ok exπ :=
  peq_ergodic_refines_at exOracle exT exπ true
    ⟨[1], [-1/2, -1, -1/2], [], by decide +kernel, by decide +kernel, ⟨-1, by decide +kernel⟩, by decide +kernel⟩
    (by decide +kernel) (by decide +kernel) (by decide +kernel) (by decide +kernel)
-- non-vacuity of `peq_ergodic_refines` / `peq_ergodic_model` (global contract): some oracle satisfies `EigContract`, and with it the result is `π`
example : ∃ ext : Oracle, EigContract ext ∧ Gen.MsmNorm.equilibrium_population ext exT false = .ok exπ ∧
    Linalg.equilibrium exT false = .ok (some exπ) := by
  obtain ⟨ext, h⟩ := eigContract_satisfiable
  exact ⟨ext, h, peq_ergodic_model ext exT exπ false h (by decide +kernel) (by decide +kernel) (by decide +kernel) (by decide +kernel)⟩

/-! ### the non-ergodic case with `allow_non_ergodic = True` -/

/-- Non-ergodic, allowed, no mask: for a non-empty rectangular array that is not ergodic and for which the model's `ergodicMask` is `none`
    (not a transition matrix), the translated function raises `ValueError` — as the model does — for any oracle. -/
theorem peq_nonergodic_value (ext : Oracle) (T : Mat) (hrect : Gen.npRect T = true) (hne : T ≠ []) (h : isErgodic T = false)
    (hmask : ergodicMask T = none) :
    Gen.MsmNorm.equilibrium_population ext T true = .error .value ∧ Linalg.equilibrium T true = .error .value := by
  constructor
  · have hm : Gen.UtilsTests.ergodic_mask T atol = .error .value := by
      rw [Ergodic.ergodic_mask_refines T hrect hne, hmask]
    cases hsq : isSquare T with
    | true => exact peq_case_mask_error ext T (by rw [Ergodic.is_ergodic_refines T hne hsq, h]) .value hm
    | false =>
      by_cases hthin : T.length = 1 ∨ (T.getD 0 []).length = 1
      · exact peq_case_mask_error ext T (by rw [Ergodic.is_ergodic_nonsquare_thin T hrect hne hsq hthin, h]) .value hm
      · exact peq_case_error ext T true .value
          (Ergodic.is_ergodic_nonsquare T hrect hne hsq (fun e => hthin (Or.inl e)) (fun e => hthin (Or.inr e)) _)
  · unfold equilibrium
    simp [h, hmask]

/-- Non-ergodic, allowed, the plumbing up to the oracle call: for a non-empty square non-ergodic `T` with mask `ergodicMask T = some mask`
    the oracle is called on exactly the model's matrix `rowNormalizeQ (restrict T mask)`, and an exception of the oracle is passed on. -/
theorem peq_nonergodic_oracle_error (ext : Oracle) (T : Mat) (hne : T ≠ []) (hsq : isSquare T = true) (h : isErgodic T = false)
    (mask : List Bool) (hmask : ergodicMask T = some mask) (e : Err)
    (hext : ext (rowNormalizeQ (restrict T mask)) 1 = .error e) :
    Gen.MsmNorm.equilibrium_population ext T true = .error e := by
  have hrect := Ergodic.npRect_of_square T hsq
  have hm : Gen.UtilsTests.ergodic_mask T atol = .ok mask := by
    rw [Ergodic.ergodic_mask_refines T hrect hne, hmask]
  exact peq_case_nonergodic_error ext T (by rw [Ergodic.is_ergodic_refines T hne hsq, h]) mask hm _ _
    (npIx_eq T mask hsq (length_ergodicMask hmask)) (Norm.row_normalize_refines_any _) e hext

/-- Non-ergodic, allowed, a single marked state: the restricted matrix is `1 × 1`, an oracle that refuses `1 × 1` input with `TypeError`
    (`EigContract.refuse1`) makes the translated function raise `TypeError` — exactly the model's answer. -/
theorem peq_nonergodic_type (ext : Oracle) (T : Mat) (hcontract : EigContract ext) (hne : T ≠ []) (hsq : isSquare T = true)
    (h : isErgodic T = false) (mask : List Bool) (hmask : ergodicMask T = some mask) (h1 : (restrict T mask).length = 1) :
    Gen.MsmNorm.equilibrium_population ext T true = .error .type ∧ Linalg.equilibrium T true = .error .type := by
  constructor
  · exact peq_nonergodic_oracle_error ext T hne hsq h mask hmask .type
      (hcontract.refuse1 _ (isSquare_normRestrict T mask) (by rw [length_normRestrict, h1]))
  · unfold equilibrium
    simp [h, hmask, h1]

/-- Non-ergodic, allowed, the plumbing with the oracle's vector explicit: let `T` be non-empty, square, not ergodic, `ergodicMask T = some mask`
    with more than one marked state, and let the oracle answer `v` (one entry per marked state) on the model's matrix
    `rowNormalizeQ (restrict T mask)`.  Then the translated function raises nothing and returns `|e| / Σ|e|` for `e = embed v mask`, the
    oracle's vector written into a zero vector at the marked positions.  (No assumption on `v` beyond its length.) -/
theorem peq_nonergodic_plumbing (ext : Oracle) (T : Mat) (hne : T ≠ []) (hsq : isSquare T = true) (h : isErgodic T = false)
    (mask : List Bool) (hmask : ergodicMask T = some mask) (h1 : (restrict T mask).length ≠ 1)
    (vals v : Vec) (rest : List Vec) (hext : ext (rowNormalizeQ (restrict T mask)) 1 = .ok (vals, v :: rest))
    (hv : v.length = (restrict T mask).length) :
    Gen.MsmNorm.equilibrium_population ext T true = .ok (absNormalize (embed v mask)) := by
  have hrect := Ergodic.npRect_of_square T hsq
  have hm : Gen.UtilsTests.ergodic_mask T atol = .ok mask := by
    rw [Ergodic.ergodic_mask_refines T hrect hne, hmask]
  exact peq_case_nonergodic ext T (by rw [Ergodic.is_ergodic_refines T hne hsq, h]) mask hm _ _
    (npIx_eq T mask hsq (length_ergodicMask hmask)) (Norm.row_normalize_refines_any _) vals v rest hext _
    (npMaskAssign_eq_embed_zeros T mask v (length_ergodicMask hmask) hv (by rw [hv]; exact h1))

/-- `absNormalize` written out: `absNormalize e = |e| / Σ|e|` entrywise. -/
theorem absNormalize_def (e : Vec) : absNormalize e = (e.map Gen.npAbs).map (fun x => x / (e.map Gen.npAbs).sum) := rfl

/-- `ergodic_mask` never returns an empty selection: at least one state is marked, so the restricted matrix has at least one row (and the
    only way to reach the oracle's `1 × 1` refusal is a single marked state). -/
theorem ergodicMask_marks_some (T : Mat) (mask : List Bool) (hmask : ergodicMask T = some mask) : 1 ≤ (restrict T mask).length :=
  one_le_length_restrict hmask

/-- STRETCH, the analogue of the main theorem for the non-ergodic branch, most general form: `T` non-empty, square, with non-negative entries,
    not ergodic, `ergodicMask T = some mask` with more than one marked state; the exact solver succeeds on the restricted renormalised matrix,
    `stationary (rowNormalizeQ (restrict T mask)) = some v₀`.  Then for every oracle that answers correctly at that matrix the translated
    function returns `embed v₀ mask` — the stationary vector of the marked class, zero elsewhere.  (No row-sum hypothesis is needed:
    after `row_normalize_matrix` every row sums to 1 or is zero.) -/
theorem peq_nonergodic_refines_at (ext : Oracle) (T : Mat) (hne : T ≠ []) (hsq : isSquare T = true)
    (hnn : ∀ r ∈ T, ∀ x ∈ r, 0 ≤ x) (h : isErgodic T = false)
    (mask : List Bool) (hmask : ergodicMask T = some mask) (h1 : (restrict T mask).length ≠ 1)
    (v₀ : Vec) (hv₀ : stationary (rowNormalizeQ (restrict T mask)) = some v₀)
    (hok : EigOk ext (rowNormalizeQ (restrict T mask))) :
    Gen.MsmNorm.equilibrium_population ext T true = .ok (embed v₀ mask) := by
  obtain ⟨vals, v, rest, hext, hl, hnz, hfix⟩ := hok
  rw [length_normRestrict] at hl
  rw [peq_nonergodic_plumbing ext T hne hsq h mask hmask h1 vals v rest hext hl]
  have hmk : mask.length = T.length := length_ergodicMask hmask
  rw [absNormalize_embed v mask (by rw [hl, length_restrict, hmk])]
  rw [absNormalize_eq_stationary (WF_normRestrict T mask) (NonNeg_rowNormalizeQ (NonNeg_restrict hnn mask))
    (rowNormalizeQ_row_sum_le _) hv₀ hl hnz hfix]

/-- STRETCH with the global contract, including agreement with the model: under the hypotheses above, for every oracle satisfying `EigContract`
    the translated function returns `p = embed v₀ mask`, and the model returns the same vector: `Linalg.equilibrium T true = .ok (some p)`. -/
theorem peq_nonergodic_model (ext : Oracle) (T : Mat) (hcontract : EigContract ext) (hne : T ≠ []) (hsq : isSquare T = true)
    (hnn : ∀ r ∈ T, ∀ x ∈ r, 0 ≤ x) (h : isErgodic T = false)
    (mask : List Bool) (hmask : ergodicMask T = some mask) (h1 : (restrict T mask).length ≠ 1)
    (v₀ : Vec) (hv₀ : stationary (rowNormalizeQ (restrict T mask)) = some v₀) :
    Gen.MsmNorm.equilibrium_population ext T true = .ok (embed v₀ mask) ∧
    Linalg.equilibrium T true = .ok (some (embed v₀ mask)) := by
  have hW := WF_normRestrict T mask
  have hs := C04.stationary_sound (restrict T mask).length _ v₀ hW hv₀
  have hl0 : v₀.length = (restrict T mask).length := by rw [← hs.1]; exact length_vecMat hW v₀
  have hk := one_le_length_restrict hmask
  have hok : EigOk ext (rowNormalizeQ (restrict T mask)) :=
    hcontract.fixed _ (isSquare_normRestrict T mask) (by rw [length_normRestrict]; omega)
      ⟨v₀, by rw [length_normRestrict]; exact hl0, exists_ne_zero_of_sum_ne_zero (by rw [hs.2]; exact one_ne_zero), hs.1⟩
  refine ⟨peq_nonergodic_refines_at ext T hne hsq hnn h mask hmask h1 v₀ hv₀ hok, ?_⟩
  have hmk : mask.length = T.length := length_ergodicMask hmask
  have hsum : (embed v₀ mask).sum = 1 := by
    rw [sum_embed v₀ mask (by rw [hl0, length_restrict, hmk]), hs.2]
  unfold equilibrium
  simp only [h, hmask, Bool.false_eq_true, ↓reduceIte, Bool.not_true, h1, hv₀, hsum, map_div_one]

/-- a concrete non-ergodic matrix: states 0 and 1 form a closed class, state 2 leaks into it -/
def exN : Mat := [[1/2, 1/2, 0], [1/3, 2/3, 0], [1/4, 1/4, 1/2]]
/-- a concrete oracle for it: on the restricted matrix it answers `(-10)·(2/5, 3/5)` -/
def exOracleN : Oracle := fun M _ => if M = [[1/2, 1/2], [1/3, 2/3]] then .ok ([1], [[-4, -6]]) else .error .type

-- non-vacuity: the hypotheses of `peq_nonergodic_refines_at` hold for `exN` …
example : exN ≠ [] ∧ isSquare exN = true ∧ (∀ r ∈ exN, ∀ x ∈ r, 0 ≤ x) ∧ isErgodic exN = false ∧
    ergodicMask exN = some [true, true, false] ∧ (restrict exN [true, true, false]).length ≠ 1 ∧
    stationary (rowNormalizeQ (restrict exN [true, true, false])) = some [2/5, 3/5] := by decide +kernel
example : EigOk exOracleN (rowNormalizeQ (restrict exN [true, true, false])) :=
  ⟨[1], [-4, -6], [], by decide +kernel, by decide +kernel, ⟨-4, by decide +kernel⟩, by decide +kernel⟩
-- … and the result is the zero-padded stationary vector of the closed class, for the translated function and for the model
example : Gen.MsmNorm.equilibrium_population exOracleN exN true = .ok [2/5, 3/5, 0] ∧
    Linalg.equilibrium exN true = .ok (some [2/5, 3/5, 0]) ∧ embed [2/5, 3/5] [true, true, false] = [2/5, 3/5, 0] := by
  decide +kernel
-- a single marked state: `TypeError` from the oracle's refusal of a 1×1 matrix, as in the model
example : isErgodic [[0, 1], [0, 1]] = false ∧ ergodicMask [[0, 1], [0, 1]] = some [false, true] ∧
    (restrict [[0, 1], [0, 1]] [false, true]).length = 1 ∧
    Gen.MsmNorm.equilibrium_population exOracleN [[0, 1], [0, 1]] true = .error .type ∧
    Linalg.equilibrium [[0, 1], [0, 1]] true = .error .type := by decide +kernel
-- not a transition matrix: `ValueError`
example : ergodicMask [[1/2, 1/3], [1, 0]] = none ∧
    Gen.MsmNorm.equilibrium_population exOracleN [[1/2, 1/3], [1, 0]] true = .error .value := by decide +kernel

/-! ### all cases together -/

/-- Summary: for every oracle satisfying the contract and every non-empty square matrix with non-negative entries and row sums `≤ 1`,
    the translated `equilibrium_population` agrees with the model `Linalg.equilibrium` wherever the model is specific:
    the same exception (`ValueError` for a refused matrix or a non-transition matrix, `TypeError` for a single marked state), and the same
    vector whenever the model's exact solver returns one.  (When the model returns `none` — the exact stationary vector is not unique — nothing
    is claimed: the oracle may pick any fixed vector.) -/
theorem peq_refines_model (ext : Oracle) (T : Mat) (allow : Bool) (hcontract : EigContract ext) (hne : T ≠ []) (hsq : isSquare T = true)
    (hnn : ∀ r ∈ T, ∀ x ∈ r, 0 ≤ x) (hrow : ∀ r ∈ T, r.sum ≤ 1) :
    match Linalg.equilibrium T allow with
    | .error e => Gen.MsmNorm.equilibrium_population ext T allow = .error e
    | .ok (some p) => Gen.MsmNorm.equilibrium_population ext T allow = .ok p
    | .ok none => True := by
  cases herg : isErgodic T with
  | true =>
    rw [C04.guard_ok T allow herg]
    cases hπ : stationary T with
    | none => trivial
    | some π => exact peq_ergodic_refines_le ext T π allow hcontract hnn hrow herg hπ
  | false =>
    cases allow with
    | false =>
      rw [(C04.guard_error T).mpr herg]
      exact peq_refused ext T hne hsq herg
    | true =>
      cases hmask : ergodicMask T with
      | none =>
        have := peq_nonergodic_value ext T (Ergodic.npRect_of_square T hsq) hne herg hmask
        rw [this.2]
        exact this.1
      | some mask =>
        by_cases h1 : (restrict T mask).length = 1
        · have := peq_nonergodic_type ext T hcontract hne hsq herg mask hmask h1
          rw [this.2]
          exact this.1
        · cases hv₀ : stationary (rowNormalizeQ (restrict T mask)) with
          | none =>
            have : Linalg.equilibrium T true = .ok none := by
              unfold equilibrium
              simp only [herg, hmask, Bool.false_eq_true, ↓reduceIte, Bool.not_true, h1, hv₀]
            rw [this]
            trivial
          | some v₀ =>
            have := peq_nonergodic_model ext T hcontract hne hsq hnn herg mask hmask h1 v₀ hv₀
            rw [this.2]
            exact this.1

end MsmVerif.Refine.Peq
