/-
Refine/TimesApiLemmas.lean — helper lemmas for task RP13 (`Refine/TimesApi.lean`): `np.unique` = `sortDedup`, keys of a
dictionary in order of first / last appearance, the insertion-ordered grouping `groupFirst`, its relation to
`pyGroupAppend` (translated `d[tuple(k)].append(v)`) and to the model's `Events.groupPaths`.
-/
import MsmVerif.Gen.MdTimesApi
import MsmVerif.Refine.Events
import MsmVerif.Refine.Compare
import MsmVerif.Lemmas.Events

namespace MsmVerif.Refine.TimesApi
open MsmVerif MsmVerif.Gen MsmVerif.Events

/-! ### `np.unique` -/

theorem npInsertUnique_eq (x : Int) (l : List Int) : npInsertUnique x l = insertSorted x l := by
  induction l with
  | nil => rfl
  | cons y ys ih => simp only [npInsertUnique, insertSorted, ih]

theorem npUnique_eq_sortDedup (v : List Int) : npUnique v = sortDedup v := by
  unfold npUnique sortDedup
  congr 1; funext x l; exact npInsertUnique_eq x l

theorem natCast_bne_zero (n : Nat) : (((n : Int) != 0) = true) ↔ n ≠ 0 := by
  simp

theorem natCast_bne (n m : Nat) : (((n : Int) != (m : Int)) = true) ↔ n ≠ m := by
  simp

/-! ### keys in order of first / last appearance -/

/-- distinct keys in order of FIRST appearance (the key order of a Python `dict`) -/
def firstKeys : List (List Int) → List (List Int)
  | [] => []
  | k :: ks => k :: (firstKeys ks).filter (· != k)

/-- distinct keys in order of LAST appearance (the key order of the model's `groupPaths`) -/
def lastKeys : List (List Int) → List (List Int)
  | [] => []
  | k :: ks => if k ∈ ks then lastKeys ks else k :: lastKeys ks

theorem mem_firstKeys (ks : List (List Int)) (k : List Int) : k ∈ firstKeys ks ↔ k ∈ ks := by
  induction ks with
  | nil => simp [firstKeys]
  | cons a ks ih =>
    simp only [firstKeys, List.mem_cons, List.mem_filter, ih, bne_iff_ne, ne_eq]
    by_cases h : k = a <;> simp [h]

theorem firstKeys_nodup (ks : List (List Int)) : (firstKeys ks).Nodup := by
  induction ks with
  | nil => simp [firstKeys]
  | cons a ks ih =>
    simp only [firstKeys, List.nodup_cons, List.mem_filter, bne_self_eq_false, Bool.false_eq_true, and_false,
      not_false_eq_true, true_and]
    exact ih.filter _

theorem firstKeys_snoc (ks : List (List Int)) (k : List Int) :
    firstKeys (ks ++ [k]) = if k ∈ ks then firstKeys ks else firstKeys ks ++ [k] := by
  induction ks with
  | nil => simp [firstKeys]
  | cons a ks ih =>
    simp only [List.cons_append, firstKeys, ih, List.mem_cons]
    by_cases h1 : k ∈ ks
    · simp [h1]
    · simp only [h1, if_false, or_false, List.filter_append]
      by_cases h2 : k = a
      · subst h2; simp
      · simp [h2]

theorem mem_lastKeys (ks : List (List Int)) (k : List Int) : k ∈ lastKeys ks ↔ k ∈ ks := by
  induction ks with
  | nil => simp [lastKeys]
  | cons a ks ih =>
    simp only [lastKeys]
    by_cases h : a ∈ ks
    · rw [if_pos h, ih, List.mem_cons]
      constructor
      · exact Or.inr
      · rintro (rfl | h') <;> assumption
    · rw [if_neg h, List.mem_cons, List.mem_cons, ih]

theorem lastKeys_nodup (ks : List (List Int)) : (lastKeys ks).Nodup := by
  induction ks with
  | nil => simp [lastKeys]
  | cons a ks ih =>
    simp only [lastKeys]
    by_cases h : a ∈ ks
    · rw [if_pos h]; exact ih
    · rw [if_neg h, List.nodup_cons, mem_lastKeys]; exact ⟨h, ih⟩

/-- last-appearance order is first-appearance order read from the back -/
theorem lastKeys_eq_reverse (ks : List (List Int)) : lastKeys ks = (firstKeys ks.reverse).reverse := by
  induction ks with
  | nil => rfl
  | cons a ks ih =>
    rw [List.reverse_cons, firstKeys_snoc, lastKeys, ih]
    by_cases h : a ∈ ks
    · simp [h]
    · simp [h]

theorem firstKeys_perm_lastKeys (ks : List (List Int)) : (firstKeys ks).Perm (lastKeys ks) :=
  (List.perm_ext_iff_of_nodup (firstKeys_nodup ks) (lastKeys_nodup ks)).mpr
    (fun k => by rw [mem_firstKeys, mem_lastKeys])

/-! ### buckets -/

/-- the values stored under key `k`, in order of occurrence -/
def bucket {β : Type} (l : List (List Int × β)) (k : List Int) : List β :=
  (l.filter (fun e => e.1 == k)).map (·.2)

theorem bucket_eq_durOf (l : List (List Int × Nat)) (k : List Int) : bucket l k = durOf l k := rfl

theorem bucket_snoc {β : Type} (l : List (List Int × β)) (p k : List Int) (t : β) :
    bucket (l ++ [(p, t)]) k = bucket l k ++ (if p = k then [t] else []) := by
  by_cases h : p = k <;> simp [bucket, List.filter_append, h]

theorem bucket_eq_nil {β : Type} (l : List (List Int × β)) (k : List Int) (h : k ∉ l.map (·.1)) :
    bucket l k = [] := by
  simp only [bucket, List.map_eq_nil_iff, List.filter_eq_nil_iff, beq_iff_eq]
  intro e he hk
  exact h (List.mem_map.mpr ⟨e, he, hk⟩)

theorem bucket_map {β γ : Type} (f : β → γ) (l : List (List Int × β)) (k : List Int) :
    bucket (l.map (fun e => (e.1, f e.2))) k = (bucket l k).map f := by
  simp [bucket, List.filter_map, List.map_map, Function.comp_def]

/-- the dictionary with keys in order of first appearance and, under each key, its values in order of occurrence -/
def groupFirst {β : Type} (l : List (List Int × β)) : List (List Int × List β) :=
  (firstKeys (l.map (·.1))).map (fun k => (k, bucket l k))

theorem groupFirst_snoc (l : List (List Int × Int)) (p : List Int) (t : Int) :
    groupFirst (l ++ [(p, t)]) = pyGroupAppend (groupFirst l) p t := by
  unfold groupFirst pyGroupAppend
  rw [List.map_append, List.map_cons, List.map_nil, firstKeys_snoc]
  by_cases h : p ∈ l.map (·.1)
  · have hany : ((firstKeys (l.map (·.1))).map (fun k => (k, bucket l k))).any (fun q => q.1 == p) = true := by
      rw [List.any_eq_true]
      exact ⟨(p, bucket l p), List.mem_map.mpr ⟨p, (mem_firstKeys _ _).mpr h, rfl⟩, by simp⟩
    rw [if_pos h, if_pos hany, List.map_map]
    apply List.map_congr_left
    intro k _
    simp only [Function.comp, bucket_snoc]
    by_cases hk : k = p
    · subst hk; simp
    · have hk' : ¬ p = k := fun h => hk h.symm
      simp [hk, hk']
  · have hany : ¬ ((firstKeys (l.map (·.1))).map (fun k => (k, bucket l k))).any (fun q => q.1 == p) = true := by
      rw [List.any_eq_true]
      rintro ⟨q, hq, hqp⟩
      obtain ⟨k, hk, rfl⟩ := List.mem_map.mp hq
      simp only [beq_iff_eq] at hqp
      subst hqp
      exact h ((mem_firstKeys _ _).mp hk)
    rw [if_neg h, if_neg hany, List.map_append, List.map_cons, List.map_nil]
    congr 1
    · apply List.map_congr_left
      intro k hk
      have : ¬ p = k := fun hpk => h (hpk ▸ (mem_firstKeys _ _).mp hk)
      simp [bucket_snoc, this]
    · simp [bucket_snoc, bucket_eq_nil l p h]

theorem fold_groupFirst (l pre : List (List Int × Int)) :
    l.foldl (fun d pt => pyGroupAppend d pt.1 pt.2) (groupFirst pre) = groupFirst (pre ++ l) := by
  induction l generalizing pre with
  | nil => simp
  | cons x l ih =>
    obtain ⟨p, t⟩ := x
    rw [List.foldl_cons, ← groupFirst_snoc, ih]
    simp

theorem groupFirst_map {β γ : Type} (f : β → γ) (l : List (List Int × β)) :
    groupFirst (l.map (fun e => (e.1, f e.2))) = (groupFirst l).map (fun e => (e.1, e.2.map f)) := by
  unfold groupFirst
  rw [List.map_map, List.map_map]
  have : ((fun (x : List Int × γ) => x.1) ∘ fun (e : List Int × β) => (e.1, f e.2)) = fun e => e.1 := rfl
  rw [this]
  apply List.map_congr_left
  intro k _
  simp [bucket_map]

/-! ### the model's `groupPaths` explicitly -/

theorem groupPaths_eq_lastKeys (l : List (List Int × Nat)) :
    groupPaths l = (lastKeys (l.map (·.1))).map (fun k => (k, bucket l k)) := by
  induction l with
  | nil => rfl
  | cons pd rest ih =>
    obtain ⟨p, d⟩ := pd
    rw [groupPaths_cons, List.map_cons, lastKeys]
    by_cases h : p ∈ rest.map (·.1)
    · rw [if_pos h]
      have : ∃ e, (groupPaths rest).find? (fun e => e.1 == p) = some e := by
        cases hf : (groupPaths rest).find? (fun e => e.1 == p) with
        | some e => exact ⟨e, rfl⟩
        | none =>
          exfalso
          rw [ih] at hf
          have := List.find?_eq_none.mp hf (p, bucket rest p)
            (List.mem_map.mpr ⟨p, (mem_lastKeys _ _).mpr h, rfl⟩)
          simp at this
      obtain ⟨e, he⟩ := this
      rw [he]
      simp only
      rw [ih, List.map_map]
      apply List.map_congr_left
      intro k _
      simp only [Function.comp, bump, bucket_eq_durOf]
      by_cases hk : k = p
      · subst hk; simp [durOf_cons_pos]
      · have hk' : p ≠ k := fun h => hk h.symm
        simp [hk, durOf_cons_neg _ _ _ _ hk']
    · rw [if_neg h]
      have : (groupPaths rest).find? (fun e => e.1 == p) = none := by
        rw [List.find?_eq_none, ih]
        intro e he
        obtain ⟨k, hk, rfl⟩ := List.mem_map.mp he
        simp only [beq_iff_eq]
        intro hkp
        exact h (hkp ▸ (mem_lastKeys _ _).mp hk)
      rw [this]
      simp only
      rw [ih, List.map_cons]
      congr 1
      · rw [bucket_eq_durOf, durOf_cons_pos, ← bucket_eq_durOf, bucket_eq_nil rest p h]
      · apply List.map_congr_left
        intro k hk
        have hk' : p ≠ k := fun hpk => h (hpk ▸ (mem_lastKeys _ _).mp hk)
        simp [bucket_eq_durOf, durOf_cons_neg _ _ _ _ hk']

theorem groupFirst_perm_groupPaths (l : List (List Int × Nat)) : (groupFirst l).Perm (groupPaths l) := by
  rw [groupPaths_eq_lastKeys]
  exact (firstKeys_perm_lastKeys _).map _

theorem groupFirst_keys {β : Type} (l : List (List Int × β)) : (groupFirst l).map (·.1) = firstKeys (l.map (·.1)) := by
  simp [groupFirst, List.map_map, Function.comp_def]

theorem sameDict_of_perm (a b : List (List Int × List Nat)) (h : a.Perm b) (hn : (a.map (·.1)).Nodup) :
    sameDict a b = true := by
  have hb : (b.map (·.1)).Nodup := (h.map _).nodup_iff.mp hn
  simp only [sameDict, Bool.and_eq_true, beq_iff_eq, decide_eq_true_eq, List.all_eq_true, List.any_eq_true]
  exact ⟨⟨⟨h.length_eq, hn⟩, hb⟩, fun e he => ⟨e, h.mem_iff.mp he, rfl, rfl⟩⟩

/-- a bucket `(k, ds)` is in the insertion-ordered dictionary iff `k` occurs and `ds` are its durations in order of occurrence -/
theorem mem_groupFirst_iff (l : List (List Int × Nat)) (k : List Int) (ds : List Nat) :
    (k, ds) ∈ groupFirst l ↔ ds ≠ [] ∧ ds = durOf l k := by
  rw [(groupFirst_perm_groupPaths l).mem_iff]
  exact mem_groupPaths_iff l k ds

/-- durations as Python integers -/
def dictI (d : List (List Int × List Nat)) : List (List Int × List Int) :=
  d.map (fun e => (e.1, e.2.map Int.ofNat))

theorem fold_eq_dictI (l : List (List Int × Nat)) :
    (l.map (fun p => (p.1, (p.2 : Int)))).foldl (fun d pt => pyGroupAppend d pt.1 pt.2) [] = dictI (groupFirst l) := by
  have h := fold_groupFirst (l.map (fun p => (p.1, (p.2 : Int)))) []
  rw [List.nil_append] at h
  have h0 : groupFirst ([] : List (List Int × Int)) = [] := rfl
  rw [h0] at h
  rw [h]
  exact groupFirst_map (fun (n : Nat) => (n : Int)) l

theorem sameDict_canon_groupFirst (l : List (List Int × Nat)) :
    sameDict (canonDict (groupFirst l)) (canonDict (groupPaths l)) = true := by
  apply sameDict_of_perm
  · exact (groupFirst_perm_groupPaths l).map _
  · rw [canonDict_keys, groupFirst_keys]
    exact firstKeys_nodup _

end MsmVerif.Refine.TimesApi
