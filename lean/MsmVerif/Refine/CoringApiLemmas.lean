/-
Refine/CoringApiLemmas.lean — helper lemmas for `Refine/CoringApi.lean` (task RP12):
* `StateTraj.mk'` characterised for EVERY trajectory set (no 32-bit guard): it never fails, the state list is
  `states ts`, and the index of a label `x` is `enc ts x` — the rank of `x` pushed through the `int32` cast of
  `shift_data` in the lookup-table branch; consequences: indices are always `< number of states`, and they are the ranks
  (hence `≥ 0`) when the cast is harmless;
* the cored trajectories returned by the model kernel `Coring.kernelAll` contain only entries of the input;
* `npTake states idx` on in-range indices is `idx.map (labelOf states)`.
-/
import MsmVerif.Gen.MdCoringApi
import MsmVerif.Model.Coring
import MsmVerif.Lemmas.StateTraj
import MsmVerif.Lemmas.Coring
import MsmVerif.Lemmas.Coring2
import MsmVerif.Refine.Coring

namespace MsmVerif.Refine.CoringApi
open MsmVerif MsmVerif.Gen

/-! ### `shift_data` without the 32-bit guard -/

/-- `shiftFlat` under the documented guard of the real code only (no 32-bit hypothesis): every entry is replaced by its
substitute, shifted by the table offset, cast to `int32` (`wrap32`) and shifted back. -/
theorem shiftFlat_eq_wrap {data old new : List Int} {dmin nmin dmax : Int}
    (hdmin : minimum? data = some dmin) (hnmin : minimum? new = some nmin)
    (hdmax : maximum? data = some dmax)
    (hlen : old.length = new.length)
    (hold : ∀ o ∈ old, min dmin nmin ≤ o ∧ o ≤ dmax) :
    shiftFlat data old new
      = .ok (data.map (fun x => wrap32 (subst old new x - min dmin nmin) + min dmin nmin)) := by
  have hdmin' := minimum?_spec hdmin
  have hdmax' := maximum?_spec hdmax
  unfold shiftFlat
  simp only [hdmin, hnmin, hdmax, hlen, ne_eq, not_true_eq_false, if_false]
  rw [assignAll_eq_foldl]
  · simp only [Except.ok.injEq]
    apply List.map_congr_left
    intro x hx
    have hx0 : min dmin nmin ≤ x := by have := hdmin'.2 x hx; omega
    have hx1 : x ≤ dmax := hdmax'.2 x hx
    rw [getD_foldl_set]
    · have hget : ((List.range (dmax - min dmin nmin + 1).toNat).map (fun (i : Nat) => (i : Int))).getD
          (x - min dmin nmin).toNat 0 = x - min dmin nmin := by
        rw [List.getD_eq_getElem?_getD, List.getElem?_map, List.getElem?_range (by omega)]
        simp only [Option.map_some, Option.getD_some]
        omega
      rw [hget, foldl_shift old new _ x x hx0 (fun o ho => (hold o ho).1)]
      rfl
    · simp only [List.length_map, List.length_range]; omega
  · intro p hp
    simp only [List.length_map, List.length_range]
    obtain ⟨o, v⟩ := p
    have := (List.of_mem_zip hp).1
    simp only [List.mem_map] at this
    obtain ⟨o', ho', rfl⟩ := this
    have := hold o' ho'
    simp only
    omega

/-! ### the constructor for every trajectory set -/

/-- offset of the lookup table built by the constructor's third branch: `min (smallest label) 0` -/
def encOff (ts : Trajs) : Int := min ((minimum? ts.flatten).getD 0) 0

/-- index the constructor's lookup-table branch assigns to label `x`: the rank of `x`, shifted by the table offset,
cast to `int32`, shifted back -/
def encWrap (ts : Trajs) (x : Int) : Int := wrap32 ((rank (states ts) x : Int) - encOff ts) + encOff ts

/-- the index the constructor assigns to label `x`, branch by branch -/
def enc (ts : Trajs) (x : Int) : Int :=
  if isArange 0 (states ts) then x
  else if isArange 1 (states ts) then x - 1
  else encWrap ts x

theorem encOff_nonpos (ts : Trajs) : encOff ts ≤ 0 := by unfold encOff; omega

theorem minimum?_arange_zero {n : Nat} (hn : 0 < n) : minimum? (arange 0 n) = some 0 := by
  have hne : arange 0 n ≠ [] := by
    intro e
    have : (arange 0 n).length = 0 := by rw [e]; rfl
    simp [arange] at this
    omega
  obtain ⟨m, hm⟩ := minimum?_isSome hne
  have h := minimum?_spec hm
  have h1 := mem_arange.mp h.1
  have h2 := h.2 0 (mem_arange.mpr ⟨by omega, by omega⟩)
  rw [hm]
  congr 1
  omega

theorem subst_states_arange {ts : Trajs} {x : Int} (hx : x ∈ ts.flatten) :
    subst (states ts) (arange 0 (states ts).length) x = (rank (states ts) x : Int) := by
  have hx' := mem_states.mpr hx
  have := subst_getElem_of_nodup (new := arange 0 (states ts).length) (states_nodup ts)
    (rank_lt hx') (by simpa [arange] using rank_lt hx')
  rw [getElem_rank hx'] at this
  rw [this]
  simp [arange]

/-- the lookup-table branch of the constructor never fails (no 32-bit guard needed) and assigns `encWrap` -/
theorem shiftFlat_states_eq_encWrap {ts : Trajs} (hne : ts.flatten ≠ []) :
    shiftFlat ts.flatten (states ts) (arange 0 (states ts).length)
      = .ok (ts.flatten.map (encWrap ts)) := by
  obtain ⟨dmin, hdmin⟩ := minimum?_isSome hne
  obtain ⟨dmax, hdmax⟩ := maximum?_isSome hne
  have hdmin' := minimum?_spec hdmin
  have hdmax' := maximum?_spec hdmax
  have hpos : 0 < (states ts).length := by
    obtain ⟨x, hx⟩ := List.exists_mem_of_ne_nil _ hne
    exact List.length_pos_of_mem (mem_states.mpr hx)
  rw [shiftFlat_eq_wrap hdmin (minimum?_arange_zero hpos) hdmax (by simp [arange])]
  · congr 1
    apply List.map_congr_left
    intro x hx
    rw [subst_states_arange hx]
    simp [encWrap, encOff, hdmin]
  · intro o ho
    have ho' := mem_states.mp ho
    have := hdmin'.2 o ho'
    have := hdmax'.2 o ho'
    omega

/-- **the constructor, for every trajectory set**: `StateTraj.mk'` never fails; the states are the ascending distinct
labels and every frame is replaced by `enc ts` of its label -/
theorem mk'_eq_enc (ts : Trajs) :
    StateTraj.mk' ts = .ok ⟨ts.map (·.map (enc ts)), states ts⟩ := by
  unfold StateTraj.mk'
  simp only
  split
  · next h =>
    have : enc ts = id := by funext x; simp [enc, h]
    rw [this]; simp
  · split
    · next h0 h1 =>
      have : enc ts = (· - 1) := by funext x; simp [enc, h0, h1]
      rw [this]
    · next h0 h1 =>
      have : enc ts = encWrap ts := by funext x; simp [enc, h0, h1]
      rw [this]
      have hne : ts.flatten ≠ [] := by
        intro he
        apply h0
        simp [states, he, sortDedup, isArange]
      rw [natCast_range_eq_arange]
      simp only [shiftTrajs, shiftFlat_states_eq_encWrap hne, Except.map, unflatten_map_flatten]

theorem wrap32_le {v : Int} (h : 0 ≤ v) : wrap32 v ≤ v := by unfold wrap32; omega

/-- the index of a label that occurs is always below the number of states — in every branch, cast or no cast -/
theorem enc_lt {ts : Trajs} {x : Int} (hx : x ∈ ts.flatten) : enc ts x < (states ts).length := by
  have hx' := mem_states.mpr hx
  unfold enc
  split
  · next h =>
    rw [isArange_iff] at h
    rw [h] at hx'
    have := mem_arange.mp hx'
    omega
  · split
    · next h =>
      rw [isArange_iff] at h
      rw [h] at hx'
      have := mem_arange.mp hx'
      omega
    · have h1 := rank_lt hx'
      have h2 := encOff_nonpos ts
      have h3 := wrap32_le (v := (rank (states ts) x : Int) - encOff ts) (by omega)
      unfold encWrap
      omega

/-- where the `int32` cast of the lookup-table branch is harmless the index is the rank -/
theorem enc_eq_rank {ts : Trajs} {x : Int} (hx : x ∈ ts.flatten)
    (hcast : ((states ts).length : Int) - encOff ts ≤ 2147483648) : enc ts x = (rank (states ts) x : Int) := by
  have hx' := mem_states.mpr hx
  unfold enc
  split
  · next h =>
    rw [isArange_iff] at h
    rw [h] at hx' ⊢
    rw [rank_arange hx']
    have := mem_arange.mp hx'
    omega
  · split
    · next h =>
      rw [isArange_iff] at h
      rw [h] at hx' ⊢
      rw [rank_arange hx']
      have := mem_arange.mp hx'
      omega
    · have h1 := rank_lt hx'
      have h2 := encOff_nonpos ts
      unfold encWrap
      rw [wrap32_of_range (by omega) (by omega)]
      omega

/-- what `mk' ts = .ok st` gives, for every `ts` -/
theorem mk'_ok {ts : Trajs} {st : StateTraj} (h : StateTraj.mk' ts = .ok st) :
    st.sts = states ts ∧ st.idx = ts.map (·.map (enc ts)) := by
  rw [mk'_eq_enc, Except.ok.injEq] at h
  subst h
  exact ⟨rfl, rfl⟩

/-- every index trajectory entry of the constructed object is below the number of states -/
theorem idx_lt_of_mk' {ts : Trajs} {st : StateTraj} (h : StateTraj.mk' ts = .ok st) :
    ∀ t ∈ st.idx, ∀ i ∈ t, i < st.sts.length := by
  obtain ⟨h1, h2⟩ := mk'_ok h
  rw [h1, h2]
  intro t' ht' i hi
  obtain ⟨t, ht, rfl⟩ := List.mem_map.mp ht'
  obtain ⟨x, hx, rfl⟩ := List.mem_map.mp hi
  exact enc_lt (List.mem_flatten.mpr ⟨t, ht, hx⟩)

/-- if the cast is harmless, every index trajectory entry is `≥ 0` -/
theorem idx_nonneg_of_mk' {ts : Trajs} {st : StateTraj} (h : StateTraj.mk' ts = .ok st)
    (hcast : ((states ts).length : Int) - encOff ts ≤ 2147483648) :
    ∀ t ∈ st.idx, ∀ i ∈ t, 0 ≤ i := by
  obtain ⟨_, h2⟩ := mk'_ok h
  rw [h2]
  intro t' ht' i hi
  obtain ⟨t, ht, rfl⟩ := List.mem_map.mp ht'
  obtain ⟨x, hx, rfl⟩ := List.mem_map.mp hi
  rw [enc_eq_rank (List.mem_flatten.mpr ⟨t, ht, hx⟩) hcast]
  omega

/-- the general label window of `Lemmas/StateTraj.lean` makes the cast harmless -/
theorem cast_ok_of_window {ts : Trajs} {lo hi : Int} (hw : LabelWindow ts lo hi) :
    ((states ts).length : Int) - encOff ts ≤ 2147483648 := by
  by_cases hne : ts.flatten = []
  · have : states ts = [] := by simp [states, hne, sortDedup]
    simp [this, encOff, hne, minimum?]
  · obtain ⟨dmin, hdmin⟩ := minimum?_isSome hne
    have hd := minimum?_spec hdmin
    have hpos : 0 < (states ts).length := List.length_pos_of_mem (mem_states.mpr hd.1)
    have h1 := rank_le_of_window hw (k := (states ts).length - 1) (by omega)
    have h2 := (hw.mem dmin hd.1).1
    have h3 := hw.lo_nonpos
    have h4 := hw.narrow
    simp only [encOff, hdmin, Option.getD_some]
    omega

/-! ### the kernel returns only entries of its input -/

theorem kernelSingle_mem {τ : Nat} {iter : Bool} {t r : List Int} (h : Coring.kernelSingle τ iter t = some r) :
    ∀ y ∈ r, y ∈ t := by
  unfold Coring.kernelSingle at h
  simp only at h
  split at h
  · exact absurd h (by simp)
  · next hc =>
    simp only [Option.some.injEq] at h
    subst h
    intro y hy
    rcases Coring.scanWith_mem _ _ _ _ hy with h | h
    · subst h
      unfold Coring.firstCoreSentinel at hc ⊢
      cases hf : Coring.firstCore τ t with
      | none => simp [hf] at hc
      | some c => simpa using Coring.firstCore_mem τ t c hf
    · exact h

theorem kernelStage_mem {τ : Nat} {iter : Bool} {ts r : Trajs} (h : Coring.kernelStage τ iter ts = some r) :
    ∀ q ∈ r, ∀ y ∈ q, y ∈ ts.flatten := by
  intro q hq y hy
  obtain ⟨t, ht, hq'⟩ := Coring.mapM_some_mem_opt _ ts r h q hq
  exact List.mem_flatten.mpr ⟨t, ht, kernelSingle_mem hq' y hy⟩

/-- every entry of every cored trajectory is an entry of the input set -/
theorem kernelAll_mem {τ : Nat} {iter : Bool} {ts r : Trajs} (h : Coring.kernelAll τ iter ts = some r) :
    ∀ q ∈ r, ∀ y ∈ q, y ∈ ts.flatten := by
  refine Coring.foldlM_rel (fun s a => Coring.kernelStage s iter a)
    (fun a b => ∀ q ∈ b, ∀ y ∈ q, y ∈ a.flatten) ?_ ?_ ?_ (Coring.schedule τ iter) ts r h
  · intro a q hq y hy
    exact List.mem_flatten.mpr ⟨q, hq, hy⟩
  · intro a b c hab hbc q hq y hy
    obtain ⟨q', hq', hy'⟩ := List.mem_flatten.mp (hbc q hq y hy)
    exact hab q' hq' y hy'
  · intro s a b hb
    exact kernelStage_mem hb

/-! ### `states[idx]` -/

theorem pyGet_inrange (ss : List Int) (i : Int) (h0 : 0 ≤ i) (h1 : i < ss.length) :
    pyGet ss i = .ok (labelOf ss i) := by
  obtain ⟨k, rfl⟩ := Int.eq_ofNat_of_zero_le h0
  have hk : k < ss.length := by omega
  rw [Coring.pyGet_nat ss k hk, labelOf_natCast, List.getD_eq_getElem?_getD, List.getElem?_eq_getElem hk]
  rfl

/-- a fancy read with in-range indices raises no `IndexError` and is the model's `labelOf` entry by entry -/
theorem npTake_inrange (ss : List Int) (q : List Int) (h : ∀ i ∈ q, 0 ≤ i ∧ i < ss.length) :
    npTake ss q = .ok (q.map (labelOf ss)) := by
  unfold npTake
  induction q with
  | nil => rfl
  | cons i q ih =>
    have hi := h i List.mem_cons_self
    rw [List.mapM_cons, pyGet_inrange ss i hi.1 hi.2, ih (fun j hj => h j (List.mem_cons_of_mem _ hj))]
    rfl

/-- the decoding loop of the wrapper over all cored trajectories -/
theorem mapM_npTake_inrange (ss : List Int) (r : List (List Int))
    (h : ∀ q ∈ r, ∀ i ∈ q, 0 ≤ i ∧ i < ss.length) :
    r.mapM (fun cored_traj => do let t3 ← npTake ss cored_traj; pure t3)
      = (.ok (r.map (·.map (labelOf ss))) : Py (List (List Int))) := by
  induction r with
  | nil => rfl
  | cons q r ih =>
    rw [List.mapM_cons, npTake_inrange ss q (h q List.mem_cons_self),
      ih (fun q' hq' => h q' (List.mem_cons_of_mem _ hq'))]
    rfl

end MsmVerif.Refine.CoringApi
