#!/bin/bash
# tools/trials_parallel.sh <jobs> <tier> <id:Cxx> [<id:Cxx> ...]
# Runs mutation trials (tools/trial.sh) for the given seeded changes in <jobs> scratch worktrees of /repo under /tmp/wt/,
# never touching /repo's working tree or the committed evidence.  Prints one line per trial; worktrees are removed at the end.
jobs="$1"; tier="$2"; shift 2
mkdir -p /tmp/wt /tmp/trial_out
for j in $(seq 1 "$jobs"); do
  [ -d /tmp/wt/t$$_$j ] || git -C /repo worktree add -q --detach /tmp/wt/t$$_$j HEAD
done
printf '%s\n' "$@" > /tmp/trial_out/queue.$$
worker() {
  j="$1"
  while true; do
    item=$(flock /tmp/trial_out/queue.$$.lock sh -c "head -1 /tmp/trial_out/queue.$$; sed -i 1d /tmp/trial_out/queue.$$")
    [ -z "$item" ] && break
    id="${item%%:*}"; pid="${item##*:}"
    /verif/tools/trial.sh "$id" "$pid" /tmp/wt/t$$_$j "$tier"
  done
}
for j in $(seq 1 "$jobs"); do worker $j & done
wait
for j in $(seq 1 "$jobs"); do git -C /repo worktree remove --force /tmp/wt/t$$_$j; done
rm -f /tmp/trial_out/queue.$$ /tmp/trial_out/queue.$$.lock
