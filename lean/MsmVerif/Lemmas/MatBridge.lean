/-
Lemmas/MatBridge.lean — bridge between the list-of-rows matrices of `Model/Linalg.lean` and Mathlib's
`Matrix (Fin n) (Fin m) ℚ`: `toMatrix`, `toVec`, well-formedness `WF n m X` (n rows of length m) and homomorphism
lemmas for `mul`, `add`, `sub`, `identity`, `transpose`, `diag`, `vecMat`, `List.replicate`, row sums; and the correctness of the Gauss–Jordan routine `Linalg.inverse`
(`inverse_correct`: a returned matrix is a well-formed two-sided inverse).
Nothing here is specific to a particular property.
-/
import Mathlib.Data.Matrix.Mul
import Mathlib.LinearAlgebra.Matrix.NonsingularInverse
import Mathlib.Algebra.BigOperators.Field
import Mathlib.Algebra.BigOperators.Fin
import Mathlib.Algebra.Order.Ring.Rat
import MsmVerif.Model.Linalg

namespace MsmVerif.Bridge
open MsmVerif.Linalg
open scoped Matrix

/-- the `n × m` Mathlib matrix read off a list-of-rows matrix (missing entries read as 0) -/
def toMatrix (n m : ℕ) (X : Mat) : Matrix (Fin n) (Fin m) ℚ := Matrix.of fun i j => entry X i j

/-- the length-`n` vector read off a list (missing entries read as 0) -/
def toVec (n : ℕ) (v : Vec) : Fin n → ℚ := fun i => v.getD i 0

/-- well-formed `n × m` list matrix: `n` rows, each of length `m` -/
def WF (n m : ℕ) (X : Mat) : Prop := X.length = n ∧ ∀ row ∈ X, row.length = m

@[simp] theorem toMatrix_apply (n m : ℕ) (X : Mat) (i : Fin n) (j : Fin m) :
    toMatrix n m X i j = entry X i j := rfl

@[simp] theorem toVec_apply (n : ℕ) (v : Vec) (i : Fin n) : toVec n v i = v.getD i 0 := rfl

/-! ### sums -/

theorem sum_eq_sum_fin {n : ℕ} (l : List ℚ) (h : l.length = n) : l.sum = ∑ i : Fin n, l.getD i 0 := by
  subst h
  rw [← Fin.sum_univ_getElem l]
  apply Finset.sum_congr rfl
  intro i _
  simp

theorem sum_map_eq_sum_fin {α : Type} {n : ℕ} (l : List α) (h : l.length = n) (g : α → ℚ) (d : α) :
    (l.map g).sum = ∑ i : Fin n, g (l.getD i d) := by
  rw [sum_eq_sum_fin (l.map g) (by simpa using h)]
  apply Finset.sum_congr rfl
  intro i _
  have : (i : ℕ) < l.length := h ▸ i.2
  simp [List.getD_eq_getElem?_getD, this]

theorem dot_eq_sum {n : ℕ} (a b : Vec) (ha : a.length = n) (hb : b.length = n) :
    dot a b = ∑ i : Fin n, a.getD i 0 * b.getD i 0 := by
  unfold dot
  rw [sum_map_eq_sum_fin (n := n) (a.zip b) (by simp [ha, hb]) _ (0, 0)]
  apply Finset.sum_congr rfl
  intro i _
  have h1 : (i : ℕ) < a.length := ha ▸ i.2
  have h2 : (i : ℕ) < b.length := hb ▸ i.2
  simp [List.getD_eq_getElem?_getD, h1, h2]

/-! ### shapes -/

theorem WF.getD_length {n m : ℕ} {X : Mat} (h : WF n m X) {i : ℕ} (hi : i < n) : (X.getD i []).length = m := by
  have : i < X.length := h.1 ▸ hi
  rw [List.getD_eq_getElem?_getD, List.getElem?_eq_getElem this]
  exact h.2 _ (List.getElem_mem this)

theorem entry_eq_getElem {X : Mat} {i j : ℕ} (hi : i < X.length) (hj : j < (X[i]).length) :
    entry X i j = X[i][j] := by
  simp [entry, List.getD_eq_getElem?_getD, hi, hj]

theorem WF.ext {n m : ℕ} {X Y : Mat} (hX : WF n m X) (hY : WF n m Y)
    (h : ∀ i j, i < n → j < m → entry X i j = entry Y i j) : X = Y := by
  apply List.ext_getElem (by rw [hX.1, hY.1])
  intro i h1 h2
  have hr1 : (X[i]).length = m := hX.2 _ (List.getElem_mem h1)
  have hr2 : (Y[i]).length = m := hY.2 _ (List.getElem_mem h2)
  apply List.ext_getElem (by rw [hr1, hr2])
  intro j h3 h4
  have := h i j (hX.1 ▸ h1) (hr1 ▸ h3)
  rwa [entry_eq_getElem h1 h3, entry_eq_getElem h2 h4] at this

theorem WF.ext_toMatrix {n m : ℕ} {X Y : Mat} (hX : WF n m X) (hY : WF n m Y)
    (h : toMatrix n m X = toMatrix n m Y) : X = Y :=
  WF.ext hX hY fun i j hi hj => by
    have := congrFun (congrFun h ⟨i, hi⟩) ⟨j, hj⟩
    simpa using this

theorem vec_ext_toVec {n : ℕ} {v w : Vec} (hv : v.length = n) (hw : w.length = n)
    (h : toVec n v = toVec n w) : v = w := by
  apply List.ext_getElem (by rw [hv, hw])
  intro i h1 h2
  have := congrFun h ⟨i, hv ▸ h1⟩
  simpa [List.getD_eq_getElem?_getD, h1, h2] using this

/-! ### transpose -/

theorem transpose_eq {n m : ℕ} {X : Mat} (h : WF n m X) (hn : 0 < n) :
    transpose X = (List.range m).map (fun j => X.map (fun row => row.getD j 0)) := by
  cases X with
  | nil => exact absurd h.1.symm (by simpa using Nat.ne_of_gt hn)
  | cons r rs => simp only [transpose, h.2 r List.mem_cons_self]

theorem WF.transpose {n m : ℕ} {X : Mat} (h : WF n m X) (hn : 0 < n) : WF m n (transpose X) := by
  rw [transpose_eq h hn]
  refine ⟨by simp, ?_⟩
  intro row hrow
  simp only [List.mem_map] at hrow
  obtain ⟨j, -, rfl⟩ := hrow
  simpa using h.1

theorem entry_map_map {α : Type} (l : List α) (l' : List α) (g : α → α → ℚ) {i j : ℕ}
    (hi : i < l.length) (hj : j < l'.length) :
    entry (l.map (fun a => l'.map (fun b => g a b))) i j = g l[i] l'[j] := by
  simp [entry, List.getD_eq_getElem?_getD, hi, hj]

theorem entry_transpose {n m : ℕ} {X : Mat} (h : WF n m X) {i j : ℕ} (hi : i < n) (hj : j < m) :
    entry (transpose X) j i = entry X i j := by
  rw [transpose_eq h (Nat.zero_lt_of_lt hi)]
  have hi' : i < X.length := h.1 ▸ hi
  simp [entry, List.getD_eq_getElem?_getD, hi', hj]

theorem toMatrix_transpose {n m : ℕ} {X : Mat} (h : WF n m X) :
    toMatrix m n (transpose X) = (toMatrix n m X)ᵀ := by
  ext j i
  simp [entry_transpose h i.2 j.2]

/-! ### product -/

theorem entry_mul {n p m : ℕ} {X Y : Mat} (hX : WF n p X) (hY : WF p m Y) {i j : ℕ} (hi : i < n) (hj : j < m) :
    entry (mul X Y) i j = ∑ k : Fin p, entry X i k * entry Y k j := by
  have hi' : i < X.length := hX.1 ▸ hi
  rcases Nat.eq_zero_or_pos p with hp | hp
  · subst hp
    have : Y = [] := List.eq_nil_of_length_eq_zero hY.1
    subst this
    simp [mul, transpose, entry, List.getD_eq_getElem?_getD, hi']
  · have hrow : (X[i]).length = p := hX.2 _ (List.getElem_mem hi')
    have hcol : (Y.map (fun row => row.getD j 0)).length = p := by simpa using hY.1
    have : entry (mul X Y) i j = dot X[i] (Y.map (fun row => row.getD j 0)) := by
      simp [mul, transpose_eq hY hp, entry, List.getD_eq_getElem?_getD, hi', hj]
    rw [this, dot_eq_sum _ _ hrow hcol]
    apply Finset.sum_congr rfl
    intro k _
    have hk : (k : ℕ) < Y.length := hY.1 ▸ k.2
    simp [entry, List.getD_eq_getElem?_getD, hi', hk]

theorem WF.mul {n p m : ℕ} {X Y : Mat} (hX : WF n p X) (hY : WF p m Y) (hp : 0 < p) : WF n m (mul X Y) := by
  refine ⟨by simpa [Linalg.mul] using hX.1, ?_⟩
  intro row hrow
  simp only [Linalg.mul, List.mem_map] at hrow
  obtain ⟨r, -, rfl⟩ := hrow
  simpa using (hY.transpose hp).1

theorem toMatrix_mul {n p m : ℕ} {X Y : Mat} (hX : WF n p X) (hY : WF p m Y) :
    toMatrix n m (mul X Y) = toMatrix n p X * toMatrix p m Y := by
  ext i j
  simp [Matrix.mul_apply, entry_mul hX hY i.2 j.2]

/-! ### sum, difference -/

theorem entry_zipWith {n m : ℕ} {X Y : Mat} (g : ℚ → ℚ → ℚ) (hX : WF n m X) (hY : WF n m Y) {i j : ℕ}
    (hi : i < n) (hj : j < m) :
    entry ((X.zip Y).map (fun p => (p.1.zip p.2).map (fun q => g q.1 q.2))) i j = g (entry X i j) (entry Y i j) := by
  have h1 : i < X.length := hX.1 ▸ hi
  have h2 : i < Y.length := hY.1 ▸ hi
  have h3 : j < (X[i]).length := (hX.2 _ (List.getElem_mem h1)) ▸ hj
  have h4 : j < (Y[i]).length := (hY.2 _ (List.getElem_mem h2)) ▸ hj
  simp [entry, List.getD_eq_getElem?_getD, h1, h2, h3, h4]

theorem WF.zipWith {n m : ℕ} {X Y : Mat} (g : ℚ → ℚ → ℚ) (hX : WF n m X) (hY : WF n m Y) :
    WF n m ((X.zip Y).map (fun p => (p.1.zip p.2).map (fun q => g q.1 q.2))) := by
  refine ⟨by simp [hX.1, hY.1], ?_⟩
  intro row hrow
  simp only [List.mem_map] at hrow
  obtain ⟨⟨a, b⟩, hab, rfl⟩ := hrow
  have := List.of_mem_zip hab
  simp [hX.2 a this.1, hY.2 b this.2]

theorem WF.add {n m : ℕ} {X Y : Mat} (hX : WF n m X) (hY : WF n m Y) : WF n m (add X Y) :=
  WF.zipWith (· + ·) hX hY

theorem WF.sub {n m : ℕ} {X Y : Mat} (hX : WF n m X) (hY : WF n m Y) : WF n m (sub X Y) :=
  WF.zipWith (· - ·) hX hY

theorem toMatrix_add {n m : ℕ} {X Y : Mat} (hX : WF n m X) (hY : WF n m Y) :
    toMatrix n m (add X Y) = toMatrix n m X + toMatrix n m Y := by
  ext i j
  exact entry_zipWith (· + ·) hX hY i.2 j.2

theorem toMatrix_sub {n m : ℕ} {X Y : Mat} (hX : WF n m X) (hY : WF n m Y) :
    toMatrix n m (sub X Y) = toMatrix n m X - toMatrix n m Y := by
  ext i j
  exact entry_zipWith (· - ·) hX hY i.2 j.2

/-! ### identity, diagonal, constant rows -/

theorem WF.identity (n : ℕ) : WF n n (identity n) := by
  refine ⟨by simp [Linalg.identity], ?_⟩
  intro row hrow
  simp only [Linalg.identity, List.mem_map] at hrow
  obtain ⟨i, -, rfl⟩ := hrow
  simp

theorem toMatrix_identity (n : ℕ) : toMatrix n n (identity n) = 1 := by
  ext i j
  simp [Linalg.identity, entry, List.getD_eq_getElem?_getD, Matrix.one_apply, Fin.ext_iff]

theorem WF.diag {n : ℕ} {v : Vec} (hv : v.length = n) : WF n n (diag v) := by
  refine ⟨by simp [Linalg.diag, hv], ?_⟩
  intro row hrow
  simp only [Linalg.diag, List.mem_map] at hrow
  obtain ⟨i, -, rfl⟩ := hrow
  simp [hv]

theorem toMatrix_diag {n : ℕ} {v : Vec} (hv : v.length = n) :
    toMatrix n n (diag v) = Matrix.diagonal (toVec n v) := by
  ext i j
  simp [Linalg.diag, entry, List.getD_eq_getElem?_getD, Matrix.diagonal_apply, Fin.ext_iff, hv]

theorem WF.replicate {n m : ℕ} {v : Vec} (hv : v.length = m) : WF n m (List.replicate n v) := by
  refine ⟨by simp, ?_⟩
  intro row hrow
  rw [List.eq_of_mem_replicate hrow, hv]

theorem toMatrix_replicate (n m : ℕ) (v : Vec) :
    toMatrix n m (List.replicate n v) = Matrix.of fun _ j => toVec m v j := by
  ext i j
  simp [entry, List.getD_eq_getElem?_getD]

/-! ### vector–matrix product, row sums -/

theorem length_vecMat {n m : ℕ} {X : Mat} (hX : WF n m X) (hn : 0 < n) (v : Vec) : (vecMat v X).length = m := by
  simpa [vecMat] using (hX.transpose hn).1

theorem toVec_vecMat {n m : ℕ} {X : Mat} {v : Vec} (hv : v.length = n) (hX : WF n m X) :
    toVec m (vecMat v X) = toVec n v ᵥ* toMatrix n m X := by
  ext j
  rcases Nat.eq_zero_or_pos n with hn | hn
  · subst hn
    have : X = [] := List.eq_nil_of_length_eq_zero hX.1
    subst this
    simp [vecMat, Linalg.transpose, Matrix.vecMul, dotProduct]
  · have hcol : (X.map (fun row => row.getD j 0)).length = n := by simpa using hX.1
    have : (vecMat v X).getD j 0 = dot v (X.map (fun row => row.getD j 0)) := by
      simp [vecMat, transpose_eq hX hn, List.getD_eq_getElem?_getD]
    rw [toVec_apply, this, dot_eq_sum _ _ hv hcol]
    simp only [Matrix.vecMul, dotProduct, toVec_apply, toMatrix_apply]
    apply Finset.sum_congr rfl
    intro k _
    have hk : (k : ℕ) < X.length := hX.1 ▸ k.2
    simp [entry, List.getD_eq_getElem?_getD, hk]

theorem rowSum_eq {n m : ℕ} {X : Mat} (hX : WF n m X) {i : ℕ} (hi : i < n) :
    (X.getD i []).sum = ∑ j : Fin m, entry X i j := by
  rw [sum_eq_sum_fin _ (hX.getD_length hi)]
  rfl

theorem rowSum_eq_mulVec_one {n m : ℕ} {X : Mat} (hX : WF n m X) (i : Fin n) :
    (X.getD i []).sum = (toMatrix n m X *ᵥ 1) i := by
  rw [rowSum_eq hX i.2]
  simp [Matrix.mulVec, dotProduct]

theorem sum_eq_toVec {n : ℕ} {v : Vec} (hv : v.length = n) : v.sum = ∑ i, toVec n v i :=
  sum_eq_sum_fin v hv

/-! ## Gauss–Jordan inverse -/

/-! ### shape of the Gauss–Jordan inverse -/

theorem wf_gjStep {n k : ℕ} {aug aug' : Mat} (h : WF n k aug) {c : ℕ} (hc : c < n)
    (hs : gjStep aug c = some aug') : WF n k aug' := by
  unfold Linalg.gjStep at hs
  simp only [h.1] at hs
  split at hs
  · exact absurd hs (by simp)
  · rename_i p hp
    have hpn : p < n := by
      have := List.mem_of_mem_head? hp
      simp only [List.mem_filter, List.mem_range] at this
      exact this.1
    simp only [Option.some.injEq] at hs
    subst hs
    refine ⟨by simp, ?_⟩
    intro row hrow
    simp only [List.mem_map, List.mem_range] at hrow
    obtain ⟨r, hr, rfl⟩ := hrow
    have hP : (aug.getD p []).length = k := h.getD_length hpn
    have hC : (aug.getD c []).length = k := h.getD_length hc
    split
    · simpa using hP
    · have hsw : WF n k ((aug.set p (aug.getD c [])).set c (aug.getD p [])) := by
        refine ⟨by simpa using h.1, ?_⟩
        intro row hrow
        rcases List.mem_or_eq_of_mem_set hrow with h1 | h1
        · rcases List.mem_or_eq_of_mem_set h1 with h2 | h2
          · exact h.2 _ h2
          · rw [h2, hC]
        · rw [h1, hP]
      simp only [List.length_map, List.length_zip, hsw.getD_length hr, hP, Nat.min_self]

theorem wf_inverse {n : ℕ} {X Z : Mat} (h : WF n n X) (hZ : inverse X = some Z) : WF n n Z := by
  unfold Linalg.inverse at hZ
  simp only [h.1, Option.map_eq_some_iff] at hZ
  obtain ⟨a, ha, rfl⟩ := hZ
  have h0 : WF n (n + n) ((List.zip X (identity n)).map (fun p => p.1 ++ p.2)) := by
    refine ⟨by simp [h.1, (WF.identity n).1], ?_⟩
    intro row hrow
    simp only [List.mem_map] at hrow
    obtain ⟨⟨x, y⟩, hxy, rfl⟩ := hrow
    have := List.of_mem_zip hxy
    simp [h.2 x this.1, (WF.identity n).2 y this.2]
  have key : ∀ (l : List ℕ) (acc : Option Mat), (∀ c ∈ l, c < n) → (∀ a, acc = some a → WF n (n + n) a) →
      ∀ a, l.foldl (fun (acc : Option Mat) c => acc.bind (fun a => gjStep a c)) acc = some a → WF n (n + n) a := by
    intro l
    induction l with
    | nil => intro acc _ hacc a ha; exact hacc a ha
    | cons c l ih =>
      intro acc hl hacc a ha
      rw [List.foldl_cons] at ha
      refine ih _ (fun c' hc' => hl c' (List.mem_cons_of_mem _ hc')) ?_ a ha
      intro b hb
      rw [Option.bind_eq_some_iff] at hb
      obtain ⟨a0, ha0, hstep⟩ := hb
      exact wf_gjStep (hacc a0 ha0) (hl c List.mem_cons_self) hstep
  have hw := key (List.range n) _ (fun c hc => List.mem_range.mp hc) (fun a ha => by cases ha; exact h0) a ha
  refine ⟨by simpa using hw.1, ?_⟩
  intro row hrow
  simp only [List.mem_map] at hrow
  obtain ⟨r, hr, rfl⟩ := hrow
  simp [hw.2 r hr]

/-- the certificate check `isInverse` means `X * Y = 1` -/
theorem isInverse_iff {n : ℕ} {X Y : Mat} (hX : WF n n X) (hY : WF n n Y) :
    isInverse X Y = true ↔ toMatrix n n X * toMatrix n n Y = 1 := by
  unfold isInverse
  rw [beq_iff_eq, hX.1, ← toMatrix_mul hX hY, ← toMatrix_identity]
  constructor
  · intro h; rw [h]
  · intro h
    rcases Nat.eq_zero_or_pos n with hn | hn
    · subst hn
      have : X = [] := List.eq_nil_of_length_eq_zero hX.1
      subst this
      rfl
    · exact WF.ext_toMatrix (hX.mul hY hn) (WF.identity n) h

/-! ### entrywise description of one elimination round and the two invariants -/

theorem gjStep_spec {n k : ℕ} {aug aug' : Mat} (h : WF n k aug) {c : ℕ} (hc : c < n)
    (hs : gjStep aug c = some aug') :
    ∃ p, c ≤ p ∧ p < n ∧ entry aug p c ≠ 0 ∧ ∀ r j, r < n → j < k →
      entry aug' r j = if r = c then entry aug p j / entry aug p c
        else (entry aug (if r = p then c else r) j
              - entry aug (if r = p then c else r) c * (entry aug p j / entry aug p c)) := by
  unfold Linalg.gjStep at hs
  simp only [h.1] at hs
  split at hs
  · exact absurd hs (by simp)
  · rename_i p hp
    have hmem := List.mem_of_mem_head? hp
    simp only [List.mem_filter, List.mem_range, Bool.and_eq_true, decide_eq_true_eq, bne_iff_ne] at hmem
    obtain ⟨hpn, hcp, hpiv⟩ := hmem
    refine ⟨p, hcp, hpn, hpiv, ?_⟩
    simp only [Option.some.injEq] at hs
    subst hs
    intro r j hr hj
    have hlenD : ∀ q, q < n → (aug[q]?.getD []).length = k := by
      intro q hq
      have := h.getD_length hq
      rwa [List.getD_eq_getElem?_getD] at this
    have hP := hlenD p hpn
    by_cases hrc : r = c
    · subst hrc
      have hj' : j < (aug[p]?.getD []).length := hP ▸ hj
      simp [entry, List.getD_eq_getElem?_getD, hr, hj']
    · have hsw : ((aug.set p (aug[c]?.getD [])).set c (aug[p]?.getD []))[r]?.getD []
          = aug[if r = p then c else r]?.getD [] := by
        rw [List.getElem?_set, if_neg (Ne.symm hrc), List.getElem?_set]
        by_cases hrp : r = p
        · subst hrp
          simp [h.1, hr]
        · simp [hrp, Ne.symm hrp]
      have hq : (if r = p then c else r) < n := by split <;> assumption
      have hR := hlenD _ hq
      simp only [entry, List.getD_eq_getElem?_getD, List.getElem?_map, List.getElem?_range hr, Option.map_some,
        Option.getD_some, if_neg hrc, hsw]
      generalize aug[if r = p then c else r]?.getD [] = row at hR ⊢
      have hj1 : j < row.length := hR ▸ hj
      have hj2 : j < (aug[p]?.getD []).length := hP ▸ hj
      simp [hj1, hj2]

/-- left block = right block · X, row by row -/
def GJLin (n : ℕ) (X a : Mat) : Prop :=
  ∀ r j, r < n → j < n → entry a r j = ∑ k : Fin n, entry a r (n + k) * entry X k j

/-- the first `c` columns are unit vectors -/
def GJCols (n c : ℕ) (a : Mat) : Prop :=
  ∀ r j, r < n → j < c → entry a r j = if r = j then 1 else 0

theorem gjStep_lin {n : ℕ} {X a a' : Mat} (h : WF n (n + n) a) {c : ℕ} (hc : c < n)
    (hs : gjStep a c = some a') (h1 : GJLin n X a) : GJLin n X a' := by
  obtain ⟨p, hcp, hpn, hpiv, hsp⟩ := gjStep_spec h hc hs
  intro r j hr hj
  have hjk : j < n + n := by omega
  rw [hsp r j hr hjk]
  have hR : ∀ k : Fin n, entry a' r (n + k) = _ := fun k => hsp r (n + k) hr (by omega)
  simp only [hR]
  by_cases hrc : r = c
  · simp only [if_pos hrc]
    rw [h1 p j hpn hj, Finset.sum_div]
    apply Finset.sum_congr rfl
    intro k _
    ring
  · simp only [if_neg hrc]
    have hq : (if r = p then c else r) < n := by split <;> assumption
    generalize (if r = p then c else r) = q at hq ⊢
    rw [h1 q j hq hj, h1 p j hpn hj]
    have : ∀ k : Fin n, (entry a q (n + k) - entry a q c * (entry a p (n + k) / entry a p c)) * entry X k j
        = entry a q (n + k) * entry X k j
          - (entry a q c / entry a p c) * (entry a p (n + k) * entry X k j) := by
      intro k; ring
    simp only [this, Finset.sum_sub_distrib, ← Finset.mul_sum]
    ring

theorem gjStep_cols {n : ℕ} {a a' : Mat} (h : WF n (n + n) a) {c : ℕ} (hc : c < n)
    (hs : gjStep a c = some a') (h2 : GJCols n c a) : GJCols n (c + 1) a' := by
  obtain ⟨p, hcp, hpn, hpiv, hsp⟩ := gjStep_spec h hc hs
  intro r j hr hj
  rw [hsp r j hr (by omega)]
  rcases Nat.lt_succ_iff_lt_or_eq.mp hj with hjc | hjc
  · have hp0 : entry a p j = 0 := by
      rw [h2 p j hpn hjc, if_neg (by omega)]
    by_cases hrc : r = c
    · rw [if_pos hrc, hp0, zero_div, if_neg (by omega)]
    · rw [if_neg hrc, hp0, zero_div, mul_zero, sub_zero]
      by_cases hrp : r = p
      · rw [if_pos hrp, h2 c j hc hjc, if_neg (by omega), if_neg (by omega)]
      · rw [if_neg hrp, h2 r j hr hjc]
  · subst hjc
    by_cases hrc : r = j
    · rw [if_pos hrc, if_pos hrc, div_self hpiv]
    · rw [if_neg hrc, if_neg hrc, div_self hpiv, mul_one, sub_self]

/-- the augmented matrix `[X | 1]` -/
def gjAug (X : Mat) : Mat := (List.zip X (identity X.length)).map (fun p => p.1 ++ p.2)

/-- the first `c` elimination rounds -/
def gjFold (X : Mat) (c : ℕ) : Option Mat :=
  (List.range c).foldl (fun (acc : Option Mat) c => acc.bind (fun a => gjStep a c)) (some (gjAug X))

theorem inverse_eq (X : Mat) :
    inverse X = (gjFold X X.length).map (fun a => a.map (fun row => row.drop X.length)) := rfl

theorem gjFold_succ (X : Mat) (c : ℕ) : gjFold X (c + 1) = (gjFold X c).bind (fun a => gjStep a c) := by
  simp [gjFold, List.range_succ]

theorem wf_gjAug {n : ℕ} {X : Mat} (h : WF n n X) : WF n (n + n) (gjAug X) := by
  unfold gjAug
  rw [h.1]
  refine ⟨by simp [h.1, (WF.identity n).1], ?_⟩
  intro row hrow
  simp only [List.mem_map] at hrow
  obtain ⟨⟨x, y⟩, hxy, rfl⟩ := hrow
  have := List.of_mem_zip hxy
  simp [h.2 x this.1, (WF.identity n).2 y this.2]

theorem entry_gjAug {n : ℕ} {X : Mat} (h : WF n n X) {r j : ℕ} (hr : r < n) :
    entry (gjAug X) r j = if j < n then entry X r j else entry (identity n) r (j - n) := by
  have hr1 : r < X.length := h.1 ▸ hr
  have hr2 : r < (identity n).length := (WF.identity n).1.symm ▸ hr
  have hl : (X[r]).length = n := h.2 _ (List.getElem_mem hr1)
  unfold gjAug
  rw [h.1]
  have hz : (List.zip X (identity n))[r]? = some (X[r], (identity n)[r]) := by
    rw [List.getElem?_eq_getElem (by simp [hr1, hr2])]; simp
  simp only [entry, List.getD_eq_getElem?_getD, List.getElem?_map, hz, Option.map_some, Option.getD_some,
    List.getElem?_eq_getElem hr1, List.getElem?_eq_getElem hr2]
  rw [List.getElem?_append, hl]
  split <;> rfl

theorem gjFold_inv {n : ℕ} {X : Mat} (h : WF n n X) :
    ∀ c, c ≤ n → ∀ a, gjFold X c = some a → WF n (n + n) a ∧ GJLin n X a ∧ GJCols n c a := by
  intro c
  induction c with
  | zero =>
    intro _ a ha
    simp only [gjFold, List.range_zero, List.foldl_nil, Option.some.injEq] at ha
    subst ha
    refine ⟨wf_gjAug h, ?_, fun r j _ hj => absurd hj (Nat.not_lt_zero _)⟩
    intro r j hr hj
    rw [entry_gjAug h hr, if_pos hj]
    have : ∀ k : Fin n, entry (gjAug X) r (n + k) = if r = k then 1 else 0 := by
      intro k
      rw [entry_gjAug h hr, if_neg (by omega), Nat.add_sub_cancel_left]
      have := congrFun (congrFun (toMatrix_identity n) ⟨r, hr⟩) k
      simpa [Matrix.one_apply, Fin.ext_iff] using this
    simp only [this]
    rw [Finset.sum_eq_single ⟨r, hr⟩]
    · simp
    · intro b _ hb
      have : ¬ r = (b : ℕ) := fun e => hb (Fin.ext e.symm)
      simp [this]
    · intro hh; exact absurd (Finset.mem_univ _) hh
  | succ c ih =>
    intro hc a ha
    rw [gjFold_succ, Option.bind_eq_some_iff] at ha
    obtain ⟨a0, ha0, hstep⟩ := ha
    obtain ⟨w0, l0, c0⟩ := ih (by omega) a0 ha0
    exact ⟨wf_gjStep w0 (by omega) hstep, gjStep_lin w0 (by omega) hstep l0, gjStep_cols w0 (by omega) hstep c0⟩

/-- **Gauss–Jordan is correct**: whenever `inverse X` succeeds on a well-formed square matrix, the result is a
well-formed two-sided inverse. -/
theorem inverse_correct {n : ℕ} {X Z : Mat} (h : WF n n X) (hZ : inverse X = some Z) :
    WF n n Z ∧ toMatrix n n X * toMatrix n n Z = 1 ∧ toMatrix n n Z * toMatrix n n X = 1 := by
  have wZ := wf_inverse h hZ
  rw [inverse_eq, h.1, Option.map_eq_some_iff] at hZ
  obtain ⟨a, ha, rfl⟩ := hZ
  obtain ⟨wa, hl, hcs⟩ := gjFold_inv h n (Nat.le_refl n) a ha
  have hent : ∀ r k, r < n → entry (a.map (fun row => row.drop n)) r k = entry a r (n + k) := by
    intro r k hr
    have hr' : r < a.length := wa.1 ▸ hr
    simp [entry, List.getD_eq_getElem?_getD, hr']
  have hleft : toMatrix n n (a.map (fun row => row.drop n)) * toMatrix n n X = 1 := by
    ext i j
    simp only [Matrix.mul_apply, toMatrix_apply, hent _ _ i.2]
    rw [← hl i j i.2 j.2, hcs i j i.2 j.2]
    simp [Matrix.one_apply, Fin.ext_iff]
  exact ⟨wZ, mul_eq_one_comm.mp hleft, hleft⟩

theorem isInverse_inverse {n : ℕ} {X Z : Mat} (h : WF n n X) (hZ : inverse X = some Z) : isInverse X Z = true := by
  obtain ⟨wZ, hr, -⟩ := inverse_correct h hZ
  exact (isInverse_iff h wZ).mpr hr

end MsmVerif.Bridge
