"""./bin/check <Cxx> quick|thorough | --replay <file>

Generic check loop (DESIGN §4):
 1. lake build + axiom audit of the theorems registered for the property + forbidden-token grep
 2. corpus, then generated cases: run the real msmhelper (from $VERIF_REPO/src) and the Lean model on the
    same inputs; compare (correspondence) and evaluate the Lean `holds` oracle on the REAL output
 3. holds = false  → violation at that input (unless listed in known_findings.json)
    disagreement with holds = true → failing-input search with an enlarged budget, judged by `holds`;
    nothing found → VIOLATION … no-failing-input-found
 4. evidence/<id>.json is rewritten on every run
Exit: 0 held / 1 violation / 2 machinery failure or timeout.
"""
import importlib
import json
import os
import sys
import time
import traceback

import core


def load_prop(pid):
    return importlib.import_module('props.' + pid.lower())


def anchors_drifted(prop):
    try:
        import anchors
        return anchors.drifted(getattr(prop, 'ANCHORS', []))
    except Exception as e:  # noqa
        return ['anchor check failed: %r' % (e,)]


def abbreviate(obj, maxlen=24):
    """evidence samples stay readable: long lists are cut to their head plus a length marker"""
    if isinstance(obj, list):
        if len(obj) > maxlen:
            return [abbreviate(x, maxlen) for x in obj[:maxlen]] + ['... (%d items in total)' % len(obj)]
        return [abbreviate(x, maxlen) for x in obj]
    if isinstance(obj, dict):
        return {k: abbreviate(v, maxlen) for k, v in obj.items()}
    if isinstance(obj, str) and len(obj) > 200:
        return obj[:200] + '... (%d chars)' % len(obj)
    return obj


def observe(prop, cases, nworkers=None):
    """real outputs for `cases` (crash-isolated worker processes; one column per configuration when the prop defines CONFIGS)"""
    if getattr(prop, 'INPROCESS', False):
        return [prop.real(c) for c in cases]
    if getattr(prop, 'CONFIGS', None):
        nw = nworkers or max(1, min(4, len(cases) // 400 + 1))
        # the configurations are independent processes: run them side by side
        import threading
        per_cfg = [None] * len(prop.CONFIGS)
        errs = []

        def one(k, env):
            try:
                per_cfg[k] = core.run_real(prop.PID, cases, env=env, nworkers=nw)
            except Exception as e:  # noqa
                errs.append(e)
        ths = [threading.Thread(target=one, args=(k, env)) for k, (_name, env) in enumerate(prop.CONFIGS)]
        for t in ths:
            t.start()
        for t in ths:
            t.join()
        if errs:
            raise errs[0]
        return [{'configs': {name: o for (name, _e), o in zip(prop.CONFIGS, col)}} for col in zip(*per_cfg)]
    return core.run_real(prop.PID, cases, env=getattr(prop, 'ENV', None), nworkers=nworkers)


def evaluate(prop, cases, stats, jobs=None):
    """Run real code + model on `cases`; returns (violations, disagreements, records)."""
    t0 = time.time()
    obs_list = observe(prop, cases)
    for o in obs_list:
        for oo in (o.get('configs', {}).values() if 'configs' in o else [o]):
            if oo.get('err') == 'HarnessException':
                raise core.HarnessError('real() failed inside the harness: %s' % oo.get('msg'))
        if o.get('err') == 'HarnessException':
            raise core.HarnessError('real() failed inside the harness: %s' % o.get('msg'))
    stats['t_real'] = stats.get('t_real', 0) + time.time() - t0
    t0 = time.time()
    reqs = [prop.request(c, o) for c, o in zip(cases, obs_list)]
    replies = core.lean_batch(reqs, shards=jobs)
    stats['t_lean'] = stats.get('t_lean', 0) + time.time() - t0
    viol, dis = [], []
    for c, o, r in zip(cases, obs_list, replies):
        if o.get('err') == 'NotRun':
            stats['not_run'] = stats.get('not_run', 0) + 1
            continue
        stats['evaluations'] += 1
        cls = prop.classify(c, o, r)
        stats['dist'][cls] = stats['dist'].get(cls, 0) + 1
        if prop.nontrivial(c, o, r):
            stats['nontrivial'].add(core.digest(prop.key(c)))
        ok_h = prop.holds(c, o, r)
        ok_a = prop.agree(c, o, r)
        if ok_a and ok_h:
            stats['validated'] += 1
        if not ok_h:
            viol.append((c, o, r))
        elif not ok_a:
            dis.append((c, o, r))
        if len(stats['samples']) < 3 and prop.nontrivial(c, o, r):
            stats['samples'].append(abbreviate({'case': c, 'observed': o, 'model': r.get('model')}))
    return viol, dis


def shrink(prop, case, known):
    """greedy shrinking with the prop's candidate generator; candidates of a round are evaluated as one crash-isolated batch"""
    if not hasattr(prop, 'shrink'):
        return case
    cur = case
    for _round in range(25):
        cands = []
        for cand in prop.shrink(cur):
            cands.append(cand)
            if len(cands) >= 40:
                break
        if not cands:
            break
        try:
            obs = observe(prop, cands, nworkers=1)
            reps = core.lean_batch([prop.request(c, o) for c, o in zip(cands, obs)], shards=1)
        except core.HarnessError:
            break
        nxt = None
        for c, o, r in zip(cands, obs, reps):
            if o.get('err') in ('HarnessException', 'NotRun') or any(
                    v.get('err') in ('HarnessException', 'NotRun') for v in o.get('configs', {}).values()):
                continue
            if any(prop.known_match(k, c, o, r) for k in known):
                continue
            if not prop.holds(c, o, r):
                nxt = c
                break
        if nxt is None:
            break
        cur = nxt
    return cur


def run_check(pid, tier):
    t_start = time.time()
    seed = core.seed()
    prop = load_prop(pid)
    rng = core.Rng(seed)
    stats = {'evaluations': 0, 'nontrivial': set(), 'dist': {}, 'samples': [], 'validated': 0}
    out_lines = []
    violations = 0
    notes = []

    # ---- 0. the translated kernels are regenerated from the working tree (tie of the Gen layer to the source)
    import genval
    try:
        core.sync_translation()
    except Exception as e:  # noqa
        traceback.print_exc()
        raise core.HarnessError('translator crashed: %r' % (e,))
    # ---- 1. Lean obligations: driver first, then every module of the property on its own
    t0 = time.time()
    reg = core.registry().get(pid, {})
    run_mods = ['MsmVerif.Gen.%sRun' % m for m, _k in genval.KERNELS_OF.get(pid, [])
                if not core.TRANSLATION['problems'].get(m + '.lean')]
    ok, log, _ = core.lean_build(targets=['MsmVerif.Driver.Ops'])
    built = core.lean_build_modules(reg.get('modules', []) + run_mods) if ok else {}
    t_build = time.time() - t0
    audit = core.axiom_audit(pid, built) if ok else []
    forb = core.forbidden_tokens()
    obligations = len(reg.get('theorems', []))
    discharged = sum(1 for a in audit if a['ok']) if ok and not forb else 0
    lean_broken = (not ok) or bool(forb) or discharged != obligations
    leanchecker = None
    if tier == 'thorough' and ok and os.environ.get('VERIF_LEANCHECKER', '1') == '1':
        mods = reg.get('modules', [])
        if mods:
            r = core._run(['lake', 'env', 'leanchecker'] + mods, cwd=core.LEAN_DIR, timeout=3000)
            leanchecker = {'cmd': 'lake env leanchecker ' + ' '.join(mods), 'exit': r.returncode,
                           'tail': (r.stdout + r.stderr)[-300:]}
            if r.returncode != 0:
                lean_broken = True

    # ---- 1b. static side conditions of the property (syntactic checks on the working tree; a failing one is an undischarged obligation, never a verdict)
    static = getattr(prop, 'static_obligations', lambda: [])()
    static_broken = [s_ for s_ in static if not s_['ok']]

    drift = anchors_drifted(prop)
    boost = 3 if (drift and tier == 'quick') else 1

    # ---- 2. correspondence + judge
    known = core.known_findings(pid)
    known_hit = {}
    viol_all, dis_all = [], []
    try:
        batch = []
        for c in prop.cases(tier, rng, boost):
            batch.append(c)
            if len(batch) >= getattr(prop, 'BATCH', 20000):
                v, d = evaluate(prop, batch, stats)
                viol_all += v
                dis_all += d
                batch = []
        if batch:
            v, d = evaluate(prop, batch, stats)
            viol_all += v
            dis_all += d

        # ---- 2b. translator validation: translated kernels vs the real kernels on the same inputs
        gen_summary, gen_dis = {}, []
        if genval.KERNELS_OF.get(pid):
            t0 = time.time()
            runnable = {m: built.get('MsmVerif.Gen.%sRun' % m, (False, ''))[0] for m, _k in genval.KERNELS_OF[pid]}
            probs = dict(core.TRANSLATION['problems'])
            for m, okm in runnable.items():
                if not okm and not probs.get(m + '.lean'):
                    probs[m + '.lean'] = ['translated module does not compile: ' + built.get('MsmVerif.Gen.%sRun' % m, (False, 'not built'))[1][-400:]]
            gen_summary, gen_dis = genval.validate(pid, 'thorough' if tier == 'thorough' else 'quick', core.Rng(seed + 7), probs)
            stats['t_genval'] = time.time() - t0

        # ---- 3. search when the correspondence (or a Lean obligation) broke without a property failure
        searched = 0
        if (dis_all or lean_broken or gen_dis or static_broken) and not viol_all:
            srng = core.Rng(seed + 1)
            sb = []
            for c in prop.cases('search', srng, 4):
                sb.append(c)
            if dis_all and hasattr(prop, 'mutate'):
                for (c, o, r) in dis_all[:20]:
                    sb.extend(prop.mutate(c, srng))
            st2 = {'evaluations': 0, 'nontrivial': set(), 'dist': {}, 'samples': [], 'validated': 0}
            v, d = evaluate(prop, sb, st2)
            searched = st2['evaluations']
            viol_all += v
    except core.HarnessError as e:
        print('HARNESS-ERROR %s' % e)
        traceback.print_exc()
        return 2

    # ---- 4. report
    reported = []
    if viol_all:
        # split known / new
        new = []
        for (c, o, r) in viol_all:
            hit = None
            for k in known:
                if prop.known_match(k, c, o, r):
                    hit = k
                    break
            if hit is not None:
                known_hit.setdefault(hit['id'], (hit, c, o))
            else:
                new.append((c, o, r))
        for kid, (k, c, o) in known_hit.items():
            out_lines.append('KNOWN-FINDING: property=%s %s' % (pid, k['what_fails']))
        if new:
            c, o, r = new[0]
            cmin = shrink(prop, c, known)
            omin = observe(prop, [cmin], nworkers=1)[0]
            rmin = core.lean_batch([prop.request(cmin, omin)], shards=1)[0]
            path = core.replay_path(pid, '%s-%d' % (tier, seed))
            core.write_json(path, {'property': pid, 'kind': 'property-fails-on-real-code', 'seed': seed, 'tier': tier,
                                   'case': cmin, 'observed': omin, 'lean_reply': rmin, 'original_case': c,
                                   'n_failing_cases': len(new),
                                   'other_failing_cases': [{'case': cc, 'observed': oo} for (cc, oo, rr) in new[1:12]],
                                   'how': './bin/check %s --replay %s' % (pid, os.path.relpath(path, core.HOME))})
            out_lines.append('VIOLATION property=%s replay=%s' % (pid, path))
            violations = len(new)
            reported.append(path)
    if not reported and (dis_all or lean_broken or gen_dis or static_broken):
        path = core.replay_path(pid, '%s-%d-unproved' % (tier, seed))
        what = {}
        if gen_dis:
            what['translation'] = {'relation': 'translated kernel (Gen/*.lean from the working tree) = real kernel on the same inputs',
                                   'diverging': gen_dis[:5], 'translator_problems': core.TRANSLATION['problems']}
        if static_broken:
            what['static'] = static_broken
        if lean_broken:
            what['lean'] = {'build_ok': ok, 'build_log_tail': log[-1500:] if not ok else '',
                            'forbidden_tokens': forb,
                            'undischarged': [a for a in audit if not a['ok']]}
        if dis_all:
            c, o, r = dis_all[0]
            what['correspondence'] = {'relation': getattr(prop, 'RELATION', 'canon(code(i)) = canon(Model.run i)'),
                                      'diverging_case': c, 'observed': o, 'lean_reply': r,
                                      'n_diverging': len(dis_all)}
        core.write_json(path, {'property': pid, 'kind': 'no-longer-shown-to-hold', 'seed': seed, 'tier': tier,
                               'no_longer_checks': what, 'search_evaluations': searched})
        out_lines.append('VIOLATION property=%s replay=%s no-failing-input-found' % (pid, path))
        violations = max(1, len(dis_all) + len(gen_dis) + len(static_broken))

    wall = time.time() - t_start
    trusted = ['Lean 4.33.0 kernel' + (' (+ leanchecker re-check)' if leanchecker else ''),
               'axioms per theorem: see coverage.theorems (allowed: propext, Classical.choice, Quot.sound; no native_decide)',
               'hand-written Lean model of the public behaviour tied to the code by this run\'s correspondence check on the explored cases',
               'translated functions (Gen/*.lean, regenerated from the working tree in this run): translator py2lean/np2lean + runtime libraries '
               'Gen/PyRt.lean, Gen/NpRt.lean are trusted, validated by executing the generated code against the real functions (coverage.translator_validation); '
               'refinement theorems (Refine/*.lean) are kernel-checked; oracle parameters (LAPACK, argsort, random choice, file reader) carry explicit contracts',
               'harness: generators, canonicalisation, float→exact-rational bridge, CPython/numpy/numba as executor']
    trusted += getattr(prop, 'TRUSTED', [])
    cov = {
        'obligations': max(obligations, 1) if obligations else 0,
        'discharged': discharged,
        'checker_cmd': 'python3 harness/py2lean.py --check && cd lean && lake build && lake env lean .lake/audit/Audit_%s_<Module>.lean  (#print axioms per theorem)' % pid,
        'trusted_base': trusted,
        'theorems': [{'name': a['name'], 'axioms': a['axioms'], 'ok': a['ok'], 'statement': a['statement']} for a in audit],
        'forbidden_token_hits': forb,
        'leanchecker': leanchecker,
        'evaluations': stats['evaluations'],
        'distinct_nontrivial': len(stats['nontrivial']),
        'traces_validated_against_impl': stats['validated'],
        'rule': getattr(prop, 'RULE', ''),
        'samples': stats['samples'][:3] or [{'note': 'no non-trivial sample'}],
        'input_distribution': stats['dist'],
        'anchors_drifted': drift,
        'translation': {'regenerated_from_source': core.TRANSLATION['regenerated'],
                        'identical_to_committed_gen': core.TRANSLATION['identical_to_committed'],
                        'changed_files': core.TRANSLATION['changed_files'], 'problems': core.TRANSLATION['problems'],
                        'modules_built': {m: v[0] for m, v in built.items()}},
        'translator_validation': gen_summary,
        'translator_disagreements': len(gen_dis),
        'static_checks': static,
        'budget_boost': boost,
        'disagreements': len(dis_all),
        'not_run_after_repeated_crashes': stats.get('not_run', 0),
        'known_findings_hit': sorted(known_hit),
        'timing_s': {'lean_build': round(t_build, 1), 'real_code': round(stats.get('t_real', 0), 1),
                     'lean_model': round(stats.get('t_lean', 0), 1)},
        'partial': getattr(prop, 'PARTIAL', ''),
    }
    if obligations == 0:
        cov.pop('obligations'); cov.pop('discharged')
    ev = {'property_id': pid, 'tier': tier, 'seed': seed, 'level': 'proof', 'coverage': cov,
          'assumptions': getattr(prop, 'ASSUMPTIONS', []), 'wall_s': round(wall, 2), 'violations': violations}
    core.write_json(os.path.join(core.OUT, 'evidence', '%s.json' % pid), ev)
    for l in out_lines:
        print(l)
    print('%s %s: %d cases, %d non-trivial distinct, %d/%d obligations, %d disagreements, %d violations, %.1fs'
          % (pid, tier, stats['evaluations'], len(stats['nontrivial']), discharged, obligations, len(dis_all) + len(gen_dis),
             violations, wall))
    return 1 if any(l.startswith('VIOLATION') for l in out_lines) else 0


def run_replay(pid, path):
    prop = load_prop(pid)
    data = json.load(open(path))
    if 'case' not in data:
        c = data.get('no_longer_checks', {}).get('correspondence', {}).get('diverging_case')
        if c is None:
            print(json.dumps(data, indent=1)[:3000])
            return 0
    else:
        c = data['case']
    ok, log, _ = core.lean_build()
    if not ok:
        print(log)
        return 2
    o = observe(prop, [c], nworkers=1)[0]
    drv = core.LeanDriver()
    try:
        r = drv.ask(prop.request(c, o))
    finally:
        drv.close()
    print(json.dumps({'case': c, 'observed': o, 'lean_reply': r, 'agree': prop.agree(c, o, r),
                      'holds': prop.holds(c, o, r)}, indent=1, default=str))
    if not prop.holds(c, o, r):
        print('VIOLATION property=%s replay=%s' % (pid, path))
        return 1
    return 0


def main(argv):
    if len(argv) < 3:
        print(__doc__)
        return 2
    pid = argv[1].upper()
    try:
        if argv[2] == '--replay':
            return run_replay(pid, argv[3])
        tier = argv[2]
        if tier not in ('quick', 'thorough'):
            tier = os.environ.get('VERIF_TIER', 'quick')
        return run_check(pid, tier)
    except core.HarnessError as e:
        print('HARNESS-ERROR %s' % e)
        return 2
    except Exception:  # noqa
        traceback.print_exc()
        return 2


if __name__ == '__main__':
    sys.exit(main(sys.argv))
