/-
Props/C01.lean — property theorems for C01 (Markov state model estimate).  Helper lemmas live in
Lemmas/Msm.lean and Lemmas/StateTraj.lean.

Reading of the property: for a set of label trajectories `ts` and a lag `lag ≥ 1`, the *spec* is
`Msm.count ts lag a b` = number of frame pairs `(i, i+lag)` lying inside one and the same trajectory with
labels `a → b`, `Msm.rowTotal` = the row sum over the ascending distinct labels `states ts`, and
`Msm.T = count / rowTotal` (0 for an empty row).  The *model of the code* is `Msm.estimate`
(`StateTraj` constructor with its three label→index branches, count matrix filled by index pairs, row
normalisation).  `Msm.holds` is the executable oracle used on the real output.

Guard: the lookup-table branch of the constructor goes through an `int32` table, so the theorems about
`estimate` assume `LabelGuard ts` (all labels in `[-2^29, 2^29]`) or, more generally, `LabelWindow ts lo hi`
(labels in `[lo, hi]`, `lo ≤ 0`, `hi - 2*lo < 2^31`).
-/
import MsmVerif.Lemmas.Msm

namespace MsmVerif.C01
open MsmVerif MsmVerif.Msm

/-- `pairs lag t` is exactly the list of frame pairs `(t[i], t[i+lag])` for `i = 0 … len-lag-1`, in order
(`getD … 0` is a plain lookup here because both indices are in range); none at all if `len ≤ lag`. -/
theorem pairs_eq_range (lag : Nat) (t : List Int) :
    pairs lag t = (List.range (t.length - lag)).map (fun i => (t.getD i 0, t.getD (i + lag) 0)) :=
  pairs_eq_range_getElem? lag t

/-- the `i`-th pair of `pairs lag t` is `(t[i], t[i+lag])`, and there are `len - lag` of them -/
theorem pairs_getElem (lag : Nat) (t : List Int) :
    (pairs lag t).length = t.length - lag ∧
    ∀ (i : Nat) (h : i < t.length - lag),
      (pairs lag t)[i]'(by rw [length_pairs]; exact h) = (t[i]'(by omega), t[i + lag]'(by omega)) :=
  ⟨length_pairs lag t, fun _ h => getElem_pairs (by rw [length_pairs]; exact h)⟩

/-- a trajectory not longer than the lag contributes no pair -/
theorem pairs_eq_nil_of_le {lag : Nat} {t : List Int} (h : t.length ≤ lag) : pairs lag t = [] := by
  rw [pairs_eq_range, Nat.sub_eq_zero_of_le h]; rfl

example : pairs 2 [5, 6, 7, 8] = [(5, 7), (6, 8)] := by decide
example : pairs 4 [5, 6, 7, 8] = [] := by decide

/-- On index trajectories with non-negative entries the count matrix is the `n × n` table whose entry `(i, j)`
is the number of pairs `(i, j)` in `pairs lag t`, summed over the trajectories `t`.
(Entries `≥ n` fall outside the table; the hypothesis `x < n` of the property is not needed for the equation,
it only says that no pair is dropped.) -/
theorem countMatrix_spec (idx : Trajs) (lag n : Nat) (h : ∀ t ∈ idx, ∀ x ∈ t, 0 ≤ x) :
    countMatrix idx lag n
      = (List.range n).map (fun (i : Nat) => (List.range n).map (fun (j : Nat) =>
          (idx.map (fun t => (pairs lag t).count ((i : Int), (j : Int)))).sum)) := by
  rw [countMatrix_eq_tab]
  apply tab_congr
  intro i j _ _
  congr 1
  apply List.map_congr_left
  intro t ht
  apply countP_toNat_eq_count
  intro p hp
  have := mem_of_mem_pairs hp
  exact ⟨h t ht _ this.1, h t ht _ this.2⟩

/-- the count matrix is `n × n` -/
theorem countMatrix_dims (idx : Trajs) (lag n : Nat) :
    (countMatrix idx lag n).length = n ∧ ∀ row ∈ countMatrix idx lag n, row.length = n := by
  rw [countMatrix_eq_tab]
  constructor
  · simp [tab]
  · intro row hrow
    simp only [tab, List.mem_map, List.mem_range] at hrow
    obtain ⟨i, _, rfl⟩ := hrow
    simp

/-- entry `(i, j)` of the count matrix, for `i, j < n` -/
theorem countMatrix_entry (idx : Trajs) (lag n : Nat) (h : ∀ t ∈ idx, ∀ x ∈ t, 0 ≤ x ∧ x < n)
    {i j : Nat} (hi : i < n) (hj : j < n) :
    ((countMatrix idx lag n).getD i []).getD j 0
      = (idx.map (fun t => (pairs lag t).count ((i : Int), (j : Int)))).sum := by
  rw [countMatrix_spec idx lag n (fun t ht x hx => (h t ht x hx).1)]
  simp [List.getD_eq_getElem?_getD, hi, hj]

example : (∀ t ∈ [[0, 1, 0, 1], [1, 1]], ∀ x ∈ t, (0 : Int) ≤ x ∧ x < (2 : Nat)) := by decide
example : countMatrix [[0, 1, 0, 1], [1, 1]] 1 2 = [[0, 2], [1, 1]] := by decide

/-- **The model of `estimate_markov_model` meets the spec** (general guard): the returned count matrix is
`specCounts` (entry `(a,b)` = `count ts lag a b` over the ascending labels), the returned transition matrix is
`specT` (entry `(a,b)` = `T ts lag a b`), and the returned states are the ascending distinct labels. -/
theorem model_meets_spec_of_window (ts : Trajs) (lag : Nat) (_hlag : 1 ≤ lag) {lo hi : Int}
    (hw : LabelWindow ts lo hi) :
    estimate ts lag = .ok (specCounts ts lag, specT ts lag, states ts) :=
  estimate_eq_spec_of_window hw lag

/-- **The model of `estimate_markov_model` meets the spec** for all trajectory sets whose labels lie in
`[-2^29, 2^29]`, all lags `≥ 1`, through all three constructor branches. -/
theorem model_meets_spec (ts : Trajs) (lag : Nat) (hlag : 1 ≤ lag) (hg : LabelGuard ts) :
    estimate ts lag = .ok (specCounts ts lag, specT ts lag, states ts) :=
  model_meets_spec_of_window ts lag hlag hg.window

example : LabelGuard [[3, 5, 3, 3], [7, 3]] ∧ 1 ≤ 1 := by decide
example : specCounts [[3, 5, 3, 3], [7, 3]] 1 = [[1, 1, 0], [1, 0, 0], [1, 0, 0]] := by decide

/-- every transition probability of a state column lies in `[0, 1]` -/
theorem entries_unit (ts : Trajs) (lag : Nat) (a b : Int) (hb : b ∈ states ts) :
    0 ≤ T ts lag a b ∧ T ts lag a b ≤ 1 :=
  ⟨T_nonneg ts lag a b, T_le_one hb⟩

example : (3 : Int) ∈ states [[3, 5, 3, 3], [7, 3]] := by decide

/-- each row of `T` sums to one over the states — or to zero when the state is never left within a
trajectory (`rowTotal = 0`; the code divides such a row by 1) -/
theorem row_sum (ts : Trajs) (lag : Nat) (a : Int) :
    ((states ts).map (fun b => T ts lag a b)).sum = if rowTotal ts lag a = 0 then 0 else 1 :=
  T_row_sum ts lag a

example : rowTotal [[3, 5, 3, 3], [7, 3]] 1 3 ≠ 0 ∧ rowTotal [[3, 5], [7]] 1 5 = 0 := by decide

/-- only the given lag is counted: `count ts lag a b` is the number of positions `i` with `i + lag` still
inside the same trajectory `t`, `t[i] = a` and `t[i+lag] = b`, summed over the trajectories -/
theorem no_other_lag (ts : Trajs) (lag : Nat) (a b : Int) :
    count ts lag a b
      = (ts.map (fun t => (List.range (t.length - lag)).countP
          (fun i => decide (t.getD i 0 = a ∧ t.getD (i + lag) 0 = b)))).sum := by
  unfold count
  congr 1
  apply List.map_congr_left
  intro t _
  rw [count_pairs_eq_countP]
  apply List.countP_congr
  intro i _
  simp [pairAt]

/-- no pair is counted across a seam: the count over a set is the sum of the counts of the single
trajectories, and gluing all trajectories into one can only add pairs (see `C11.count_cut` for exactly which) -/
theorem no_seam (ts : Trajs) (lag : Nat) (a b : Int) :
    count ts lag a b = (ts.map (fun t => count [t] lag a b)).sum ∧
    count ts lag a b ≤ count [ts.flatten] lag a b := by
  refine ⟨?_, count_le_count_flatten ts lag a b⟩
  simp [count]

/-- the seam pair of `[1] ++ [2]` is not counted for the set `[[1], [2]]` -/
example : count [[1], [2]] 1 1 2 = 0 ∧ count [[1, 2]] 1 1 2 = 1 := by decide

/-- sanity of the oracle: the exact answer (states = ascending distinct labels, matrix = `specT`) is accepted -/
theorem holds_of_exact (ts : Trajs) (lag : Nat) (obsStates : List Int) (obsT : RatMat)
    (hs : obsStates = states ts) (hT : obsT = specT ts lag) :
    holds ts lag obsStates obsT = true := by
  subst hs hT
  exact holds_specT ts lag

/-- the oracle accepts what the model of the code returns -/
theorem holds_of_estimate (ts : Trajs) (lag : Nat) (hlag : 1 ≤ lag) (hg : LabelGuard ts)
    {c : NatMat} {Tm : RatMat} {ss : List Int} (h : estimate ts lag = .ok (c, Tm, ss)) :
    holds ts lag ss Tm = true := by
  rw [model_meets_spec ts lag hlag hg, Except.ok.injEq, Prod.mk.injEq, Prod.mk.injEq] at h
  exact holds_of_exact ts lag ss Tm h.2.2.symm h.2.1.symm

end MsmVerif.C01
