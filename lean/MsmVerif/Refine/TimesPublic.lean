/-
Refine/TimesPublic.lean — task RP26 (property C08): the TRANSLATED public time estimators of `src/msmhelper/msm/timescales.py`
(`Gen/MsmTimesApi.lean`): `estimate_waiting_times`, `estimate_transition_times` (each once per value of `return_list`) and `estimate_paths`.

* The four wrappers are `_estimate_times` (`Gen/MsmTimes.lean`) with the event-loop oracle instantiated by THEIR compiled kernel
  (`_estimate_waiting_times` resp. `_estimate_transition_times`, visible as the parameter `kwt` / `ktt`) — nothing else happens.  Hence every
  theorem of `Refine/Times.lean` holds for them: rejection before any oracle is consulted, the sorted list `lag * duration`, the density over
  consecutive multiples of the lag time, error propagation.
* `estimate_paths`: the validation block (the model's `Events.validate`, as in `md.estimate_paths`), then `propagate_MCMC(trajs, lagtime, steps)`
  with the default random start, then the md pathway extraction (oracle) on that chain with the ORIGINAL `start` / `final` lists.

Helper lemmas: `Refine/TimesPublicLemmas.lean` (same namespace).
-/
import MsmVerif.Refine.TimesPublicLemmas

namespace MsmVerif.Refine.TimesPublic
open MsmVerif MsmVerif.Gen MsmVerif.Events
open MsmVerif.Refine.Times (dictI exChoice exCummat exEstimator)

section wrappers
variable (kwt ktt : List (List Rat) × List (List Int) → Int → List Int → List Int → Int → Py PyDict)
  (choice : List Int → Py Int) (cummat : Int → Py (List (List Rat) × List (List Int)))

/-! ### 1. the wrappers are `_estimate_times` with their kernel -/

/-- **`estimate_waiting_times(…, return_list=True)` is `_estimate_times(…, estimator=_estimate_waiting_times, return_list=True)`**: same
arguments in the same roles, the event-loop oracle is the WAITING-time kernel; the result (value or exception) is passed on unchanged. -/
theorem estimate_waiting_times_list_eq (ss : List Int) (lag : Int) (S F : List Int) (steps : Int) (jit : Bool) :
    Gen.MsmTimesApi.estimate_waiting_times_list kwt choice cummat ss lag S F steps jit
      = Gen.MsmTimes.estimate_times_list choice cummat kwt ss lag S F steps jit :=
  bind_pure_py _

/-- **`estimate_waiting_times(…, return_list=False)` is `_estimate_times` with the WAITING-time kernel, histogram form.** -/
theorem estimate_waiting_times_hist_eq (ss : List Int) (lag : Int) (S F : List Int) (steps : Int) (jit : Bool) :
    Gen.MsmTimesApi.estimate_waiting_times_hist kwt choice cummat ss lag S F steps jit
      = Gen.MsmTimes.estimate_times_hist choice cummat kwt ss lag S F steps jit :=
  bind_pure_py _

/-- **`estimate_transition_times(…, return_list=True)` is `_estimate_times` with the TRANSITION-time kernel, list form.** -/
theorem estimate_transition_times_list_eq (ss : List Int) (lag : Int) (S F : List Int) (steps : Int) (jit : Bool) :
    Gen.MsmTimesApi.estimate_transition_times_list ktt choice cummat ss lag S F steps jit
      = Gen.MsmTimes.estimate_times_list choice cummat ktt ss lag S F steps jit :=
  bind_pure_py _

/-- **`estimate_transition_times(…, return_list=False)` is `_estimate_times` with the TRANSITION-time kernel, histogram form.** -/
theorem estimate_transition_times_hist_eq (ss : List Int) (lag : Int) (S F : List Int) (steps : Int) (jit : Bool) :
    Gen.MsmTimesApi.estimate_transition_times_hist ktt choice cummat ss lag S F steps jit
      = Gen.MsmTimes.estimate_times_hist choice cummat ktt ss lag S F steps jit :=
  bind_pure_py _

/-- The two public functions differ ONLY in the kernel: given the same kernel they are the same function (both forms). -/
theorem waiting_eq_transition_of_same_kernel (k : List (List Rat) × List (List Int) → Int → List Int → List Int → Int → Py PyDict)
    (ss : List Int) (lag : Int) (S F : List Int) (steps : Int) (jit : Bool) :
    Gen.MsmTimesApi.estimate_waiting_times_list k choice cummat ss lag S F steps jit
        = Gen.MsmTimesApi.estimate_transition_times_list k choice cummat ss lag S F steps jit ∧
    Gen.MsmTimesApi.estimate_waiting_times_hist k choice cummat ss lag S F steps jit
        = Gen.MsmTimesApi.estimate_transition_times_hist k choice cummat ss lag S F steps jit :=
  ⟨rfl, rfl⟩

/-- **complete description of the four public forms** (every state list, every argument, every oracle): the shared front end `Times.front`
(validation and label → index conversion), then `np.random.choice(idxs_final)`, `_get_cummat(lagtime)`, THE kernel of the function, and the
post-processing `Times.listTail` / `Times.histTail` of the dictionary; every error is passed on. -/
theorem estimate_times_public_unfold (ss : List Int) (lag : Int) (S F : List Int) (steps : Int) (jit : Bool) :
    Gen.MsmTimesApi.estimate_waiting_times_list kwt choice cummat ss lag S F steps jit =
      (do let p ← Times.front ss S F; let c ← choice p.2; let cm ← cummat lag; let d ← kwt cm c p.1 p.2 steps; Times.listTail lag d) ∧
    Gen.MsmTimesApi.estimate_waiting_times_hist kwt choice cummat ss lag S F steps jit =
      (do let p ← Times.front ss S F; let c ← choice p.2; let cm ← cummat lag; let d ← kwt cm c p.1 p.2 steps; Times.histTail lag d) ∧
    Gen.MsmTimesApi.estimate_transition_times_list ktt choice cummat ss lag S F steps jit =
      (do let p ← Times.front ss S F; let c ← choice p.2; let cm ← cummat lag; let d ← ktt cm c p.1 p.2 steps; Times.listTail lag d) ∧
    Gen.MsmTimesApi.estimate_transition_times_hist ktt choice cummat ss lag S F steps jit =
      (do let p ← Times.front ss S F; let c ← choice p.2; let cm ← cummat lag; let d ← ktt cm c p.1 p.2 steps; Times.histTail lag d) := by
  rw [estimate_waiting_times_list_eq, estimate_waiting_times_hist_eq, estimate_transition_times_list_eq,
    estimate_transition_times_hist_eq]
  exact ⟨Times.list_unfold .., Times.hist_unfold .., Times.list_unfold .., Times.hist_unfold ..⟩

/-- The result of the four public forms does not depend on `numba.config.DISABLE_JIT` (the conversion to `numba.typed.List` is the identity
on values). -/
theorem estimate_times_public_flag_irrelevant (ss : List Int) (lag : Int) (S F : List Int) (steps : Int) (j1 j2 : Bool) :
    Gen.MsmTimesApi.estimate_waiting_times_list kwt choice cummat ss lag S F steps j1
      = Gen.MsmTimesApi.estimate_waiting_times_list kwt choice cummat ss lag S F steps j2 ∧
    Gen.MsmTimesApi.estimate_waiting_times_hist kwt choice cummat ss lag S F steps j1
      = Gen.MsmTimesApi.estimate_waiting_times_hist kwt choice cummat ss lag S F steps j2 ∧
    Gen.MsmTimesApi.estimate_transition_times_list ktt choice cummat ss lag S F steps j1
      = Gen.MsmTimesApi.estimate_transition_times_list ktt choice cummat ss lag S F steps j2 ∧
    Gen.MsmTimesApi.estimate_transition_times_hist ktt choice cummat ss lag S F steps j1
      = Gen.MsmTimesApi.estimate_transition_times_hist ktt choice cummat ss lag S F steps j2 := by
  have h1 := estimate_times_public_unfold kwt ktt choice cummat ss lag S F steps j1
  have h2 := estimate_times_public_unfold kwt ktt choice cummat ss lag S F steps j2
  exact ⟨h1.1.trans h2.1.symm, h1.2.1.trans h2.2.1.symm, h1.2.2.1.trans h2.2.2.1.symm, h1.2.2.2.trans h2.2.2.2.symm⟩

/-! ### 2. rejection -/

/-- **Rejection (all four public forms).**  On an ascending state list `ss`: if the start and final sets overlap, or some start / final state
is not a state of the trajectories, `estimate_waiting_times` and `estimate_transition_times` return `ValueError` in both result forms —
whatever the kernels and the other two oracles are (none is consulted: even oracles failing with another error do not change the result). -/
theorem estimate_times_public_rejects (ss : List Int) (lag : Int) (S F : List Int) (steps : Int) (jit : Bool)
    (hss : ss.Pairwise (· < ·))
    (h : (∃ x, x ∈ S ∧ x ∈ F) ∨ (∃ x ∈ S ++ F, x ∉ ss)) :
    Gen.MsmTimesApi.estimate_waiting_times_list kwt choice cummat ss lag S F steps jit = .error .value ∧
    Gen.MsmTimesApi.estimate_waiting_times_hist kwt choice cummat ss lag S F steps jit = .error .value ∧
    Gen.MsmTimesApi.estimate_transition_times_list ktt choice cummat ss lag S F steps jit = .error .value ∧
    Gen.MsmTimesApi.estimate_transition_times_hist ktt choice cummat ss lag S F steps jit = .error .value := by
  rw [estimate_waiting_times_list_eq, estimate_waiting_times_hist_eq, estimate_transition_times_list_eq,
    estimate_transition_times_hist_eq]
  exact ⟨(Times.estimate_times_rejects choice cummat kwt ss lag S F steps jit hss h).1,
    (Times.estimate_times_rejects choice cummat kwt ss lag S F steps jit hss h).2,
    (Times.estimate_times_rejects choice cummat ktt ss lag S F steps jit hss h).1,
    (Times.estimate_times_rejects choice cummat ktt ss lag S F steps jit hss h).2⟩

/-! ### 3. accepted input -/

/-- **`estimate_waiting_times`, list form, accepted input.**  `ss` ascending, `S`, `F` disjoint sets of states of `ss`.  Suppose
`np.random.choice`, called with the final indices `(sortDedup F).map (rank ss)`, returned `c`; `_get_cummat(lagtime)` returned `cm`; and the
WAITING-time kernel, called with EXACTLY `cm`, `c`, the start indices `(sortDedup S).map (rank ss)`, the final indices and `steps`, returned the
dictionary `d`.  Then the result is the model's `histList d lag`: the ascending list of durations (each repeated by its count) times `lag`. -/
theorem estimate_waiting_times_list_refines (ss : List Int) (lag : Nat) (S F : List Int) (steps : Int) (jit : Bool)
    (hss : ss.Pairwise (· < ·)) (hd : ∀ x ∈ S, x ∉ F) (hS : ∀ x ∈ S, x ∈ ss) (hF : ∀ x ∈ F, x ∈ ss)
    (c : Int) (cm : List (List Rat) × List (List Int)) (d : List (Nat × Nat))
    (hchoice : choice ((sortDedup F).map (fun x => ((rank ss x : Nat) : Int))) = .ok c)
    (hcm : cummat lag = .ok cm)
    (hest : kwt cm c ((sortDedup S).map (fun x => ((rank ss x : Nat) : Int)))
      ((sortDedup F).map (fun x => ((rank ss x : Nat) : Int))) steps = .ok (dictI d)) :
    Gen.MsmTimesApi.estimate_waiting_times_list kwt choice cummat ss lag S F steps jit
      = .ok ((Events.histList d lag).map Int.ofNat) := by
  rw [estimate_waiting_times_list_eq]
  exact Times.estimate_times_list_refines choice cummat kwt ss lag S F steps jit hss hd hS hF c cm d hchoice hcm hest

/-- **`estimate_transition_times`, list form, accepted input**: as `estimate_waiting_times_list_refines`, for the dictionary the
TRANSITION-time kernel returned at the same call. -/
theorem estimate_transition_times_list_refines (ss : List Int) (lag : Nat) (S F : List Int) (steps : Int) (jit : Bool)
    (hss : ss.Pairwise (· < ·)) (hd : ∀ x ∈ S, x ∉ F) (hS : ∀ x ∈ S, x ∈ ss) (hF : ∀ x ∈ F, x ∈ ss)
    (c : Int) (cm : List (List Rat) × List (List Int)) (d : List (Nat × Nat))
    (hchoice : choice ((sortDedup F).map (fun x => ((rank ss x : Nat) : Int))) = .ok c)
    (hcm : cummat lag = .ok cm)
    (hest : ktt cm c ((sortDedup S).map (fun x => ((rank ss x : Nat) : Int)))
      ((sortDedup F).map (fun x => ((rank ss x : Nat) : Int))) steps = .ok (dictI d)) :
    Gen.MsmTimesApi.estimate_transition_times_list ktt choice cummat ss lag S F steps jit
      = .ok ((Events.histList d lag).map Int.ofNat) := by
  rw [estimate_transition_times_list_eq]
  exact Times.estimate_times_list_refines choice cummat ktt ss lag S F steps jit hss hd hS hF c cm d hchoice hcm hest

/-- **list forms, arbitrary integer lag time** (no assumption that `lagtime` is a natural number): both public functions return the
ascending list of durations (`histList d 1`), each multiplied by `lagtime` — for the dictionary `d` THEIR kernel `k` returned. -/
theorem estimate_times_public_list_refines_anylag (ss : List Int) (lag : Int) (S F : List Int) (steps : Int) (jit : Bool)
    (hss : ss.Pairwise (· < ·)) (hd : ∀ x ∈ S, x ∉ F) (hS : ∀ x ∈ S, x ∈ ss) (hF : ∀ x ∈ F, x ∈ ss)
    (k : List (List Rat) × List (List Int) → Int → List Int → List Int → Int → Py PyDict)
    (c : Int) (cm : List (List Rat) × List (List Int)) (d : List (Nat × Nat))
    (hchoice : choice ((sortDedup F).map (fun x => ((rank ss x : Nat) : Int))) = .ok c)
    (hcm : cummat lag = .ok cm)
    (hest : k cm c ((sortDedup S).map (fun x => ((rank ss x : Nat) : Int)))
      ((sortDedup F).map (fun x => ((rank ss x : Nat) : Int))) steps = .ok (dictI d)) :
    Gen.MsmTimesApi.estimate_waiting_times_list k choice cummat ss lag S F steps jit
      = .ok (((Events.histList d 1).map Int.ofNat).map (· * lag)) ∧
    Gen.MsmTimesApi.estimate_transition_times_list k choice cummat ss lag S F steps jit
      = .ok (((Events.histList d 1).map Int.ofNat).map (· * lag)) := by
  rw [estimate_waiting_times_list_eq, estimate_transition_times_list_eq]
  exact ⟨Times.estimate_times_list_refines_anylag choice cummat k ss lag S F steps jit hss hd hS hF c cm d hchoice hcm hest,
    Times.estimate_times_list_refines_anylag choice cummat k ss lag S F steps jit hss hd hS hF c cm d hchoice hcm hest⟩

/-- **`estimate_waiting_times`, histogram form, accepted input.**  Hypotheses as in `estimate_waiting_times_list_refines`; if in addition the
dictionary `d` returned by the WAITING-time kernel is non-empty with distinct keys (as the keys of a `dict` are), the result is the model's
`histDensity d lag`: `pts[k] = count of duration k` (`k = 0 … maxkey`) divided by `sum(pts) * lagtime`, and the edges `k * lagtime`
(`k = 0 … maxkey + 1`), i.e. the density over consecutive multiples of the lag time.  No `IndexError`. -/
theorem estimate_waiting_times_hist_refines (ss : List Int) (lag : Nat) (S F : List Int) (steps : Int) (jit : Bool)
    (hss : ss.Pairwise (· < ·)) (hd : ∀ x ∈ S, x ∉ F) (hS : ∀ x ∈ S, x ∈ ss) (hF : ∀ x ∈ F, x ∈ ss)
    (c : Int) (cm : List (List Rat) × List (List Int)) (d : List (Nat × Nat))
    (hchoice : choice ((sortDedup F).map (fun x => ((rank ss x : Nat) : Int))) = .ok c)
    (hcm : cummat lag = .ok cm)
    (hest : kwt cm c ((sortDedup S).map (fun x => ((rank ss x : Nat) : Int)))
      ((sortDedup F).map (fun x => ((rank ss x : Nat) : Int))) steps = .ok (dictI d))
    (hne : d ≠ []) (hkeys : (d.map (·.1)).Nodup) :
    Gen.MsmTimesApi.estimate_waiting_times_hist kwt choice cummat ss lag S F steps jit
      = .ok ((Events.histDensity d lag).1, (Events.histDensity d lag).2.map Int.ofNat) := by
  rw [estimate_waiting_times_hist_eq]
  exact Times.estimate_times_hist_refines choice cummat kwt ss lag S F steps jit hss hd hS hF c cm d hchoice hcm hest hne hkeys

/-- **`estimate_transition_times`, histogram form, accepted input**: as `estimate_waiting_times_hist_refines`, for the dictionary the
TRANSITION-time kernel returned. -/
theorem estimate_transition_times_hist_refines (ss : List Int) (lag : Nat) (S F : List Int) (steps : Int) (jit : Bool)
    (hss : ss.Pairwise (· < ·)) (hd : ∀ x ∈ S, x ∉ F) (hS : ∀ x ∈ S, x ∈ ss) (hF : ∀ x ∈ F, x ∈ ss)
    (c : Int) (cm : List (List Rat) × List (List Int)) (d : List (Nat × Nat))
    (hchoice : choice ((sortDedup F).map (fun x => ((rank ss x : Nat) : Int))) = .ok c)
    (hcm : cummat lag = .ok cm)
    (hest : ktt cm c ((sortDedup S).map (fun x => ((rank ss x : Nat) : Int)))
      ((sortDedup F).map (fun x => ((rank ss x : Nat) : Int))) steps = .ok (dictI d))
    (hne : d ≠ []) (hkeys : (d.map (·.1)).Nodup) :
    Gen.MsmTimesApi.estimate_transition_times_hist ktt choice cummat ss lag S F steps jit
      = .ok ((Events.histDensity d lag).1, (Events.histDensity d lag).2.map Int.ofNat) := by
  rw [estimate_transition_times_hist_eq]
  exact Times.estimate_times_hist_refines choice cummat ktt ss lag S F steps jit hss hd hS hF c cm d hchoice hcm hest hne hkeys

/-- **histogram forms, no event**: if the kernel `k` returned the empty dictionary, both public functions return `ValueError`
(`max` of an empty sequence) in the histogram form; `lagtime` may be any integer. -/
theorem estimate_times_public_hist_empty (ss : List Int) (lag : Int) (S F : List Int) (steps : Int) (jit : Bool)
    (hss : ss.Pairwise (· < ·)) (hd : ∀ x ∈ S, x ∉ F) (hS : ∀ x ∈ S, x ∈ ss) (hF : ∀ x ∈ F, x ∈ ss)
    (k : List (List Rat) × List (List Int) → Int → List Int → List Int → Int → Py PyDict)
    (c : Int) (cm : List (List Rat) × List (List Int))
    (hchoice : choice ((sortDedup F).map (fun x => ((rank ss x : Nat) : Int))) = .ok c)
    (hcm : cummat lag = .ok cm)
    (hest : k cm c ((sortDedup S).map (fun x => ((rank ss x : Nat) : Int)))
      ((sortDedup F).map (fun x => ((rank ss x : Nat) : Int))) steps = .ok []) :
    Gen.MsmTimesApi.estimate_waiting_times_hist k choice cummat ss lag S F steps jit = .error .value ∧
    Gen.MsmTimesApi.estimate_transition_times_hist k choice cummat ss lag S F steps jit = .error .value := by
  rw [estimate_waiting_times_hist_eq, estimate_transition_times_hist_eq]
  exact ⟨Times.estimate_times_hist_empty choice cummat k ss lag S F steps jit hss hd hS hF c cm hchoice hcm hest,
    Times.estimate_times_hist_empty choice cummat k ss lag S F steps jit hss hd hS hF c cm hchoice hcm hest⟩

/-- **error propagation (all four public forms)**: on accepted input, if the kernel `k` fails at its call (after `np.random.choice` returned
`c` and `_get_cummat` returned `cm`), the public function fails with the same error. -/
theorem estimate_times_public_kernel_error (ss : List Int) (lag : Int) (S F : List Int) (steps : Int) (jit : Bool)
    (hss : ss.Pairwise (· < ·)) (hd : ∀ x ∈ S, x ∉ F) (hS : ∀ x ∈ S, x ∈ ss) (hF : ∀ x ∈ F, x ∈ ss)
    (k : List (List Rat) × List (List Int) → Int → List Int → List Int → Int → Py PyDict)
    (c : Int) (cm : List (List Rat) × List (List Int)) (e : Err)
    (hchoice : choice ((sortDedup F).map (fun x => ((rank ss x : Nat) : Int))) = .ok c)
    (hcm : cummat lag = .ok cm)
    (hest : k cm c ((sortDedup S).map (fun x => ((rank ss x : Nat) : Int)))
      ((sortDedup F).map (fun x => ((rank ss x : Nat) : Int))) steps = .error e) :
    Gen.MsmTimesApi.estimate_waiting_times_list k choice cummat ss lag S F steps jit = .error e ∧
    Gen.MsmTimesApi.estimate_waiting_times_hist k choice cummat ss lag S F steps jit = .error e ∧
    Gen.MsmTimesApi.estimate_transition_times_list k choice cummat ss lag S F steps jit = .error e ∧
    Gen.MsmTimesApi.estimate_transition_times_hist k choice cummat ss lag S F steps jit = .error e := by
  rw [estimate_waiting_times_list_eq, estimate_waiting_times_hist_eq, estimate_transition_times_list_eq,
    estimate_transition_times_hist_eq]
  have h := Times.estimate_times_estimator_error choice cummat k ss lag S F steps jit hss hd hS hF c cm e hchoice hcm hest
  exact ⟨h.1, h.2, h.1, h.2⟩

end wrappers

/-! ### 4. `estimate_paths` -/

section paths
variable (mdp : List Int → List Int → List Int → Py (List (List Int × List Int)))
  (choice : List Int → Py Int) (getc : Int → Py (List (List Rat) × List (List Int)))
  (prop : List (List Rat) × List (List Int) → Int → Int → Py (List Int))

/-- **`msm.estimate_paths`, completely** — for EVERY state list, start / final list and oracle quadruple: the validation block is the model's
`Events.validate` (`np.unique` of both lists; `ValueError` iff `intersect(start, final) ≠ 0` or `intersect(states, trajs.states) ≠ len(states)`
for one of them; the merge loops never run out of fuel, no `IndexError`) — the same block as in `md.estimate_paths`
(`TimesApi.estimate_paths_validate`).  If it fails no oracle is consulted.  Otherwise the result is the md pathway oracle applied to the
chain `propagate_MCMC(trajs, lagtime, steps)` (default `start = -1`) and the ORIGINAL `start` / `final` lists; an error of the chain propagates. -/
theorem msm_estimate_paths_validate (ss : List Int) (lag : Int) (S F : List Int) (steps : Int) :
    Gen.MsmTimesApi.estimate_paths mdp choice getc prop ss lag S F steps =
      match validate S F ss with
      | .error e => .error e
      | .ok _ => Gen.MsmMcmcApi.propagate_MCMC choice getc prop ss lag steps (-1) >>= fun chain => mdp chain S F :=
  paths_unfold mdp choice getc prop ss lag S F steps

/-- **Rejection.**  On an ascending state list: overlapping start / final sets, or a start or final state that is not a state of the
trajectories ⇒ `ValueError` — BEFORE any oracle is consulted (no chain is propagated; the statement holds for all four oracles, also for
oracles that would fail with another error). -/
theorem msm_estimate_paths_rejects (ss : List Int) (lag : Int) (S F : List Int) (steps : Int)
    (hss : ss.Pairwise (· < ·))
    (h : (∃ x, x ∈ S ∧ x ∈ F) ∨ (∃ x ∈ S ++ F, x ∉ ss)) :
    Gen.MsmTimesApi.estimate_paths mdp choice getc prop ss lag S F steps = .error .value := by
  rw [paths_unfold, validate_bad ss S F hss h]

/-- **Accepted input.**  `ss` ascending, `S`, `F` disjoint sets of states of `ss`: the result is the md pathway oracle applied to the chain
of `propagate_MCMC ss lag steps (-1)` (random start: the `choice` oracle) with the ORIGINAL `S` / `F` (not the deduplicated ones); an error of
the chain (or of the md oracle) is the result. -/
theorem msm_estimate_paths_refines (ss : List Int) (lag : Int) (S F : List Int) (steps : Int)
    (hss : ss.Pairwise (· < ·)) (hd : ∀ x ∈ S, x ∉ F) (hS : ∀ x ∈ S, x ∈ ss) (hF : ∀ x ∈ F, x ∈ ss) :
    Gen.MsmTimesApi.estimate_paths mdp choice getc prop ss lag S F steps =
      Gen.MsmMcmcApi.propagate_MCMC choice getc prop ss lag steps (-1) >>= fun chain => mdp chain S F := by
  rw [paths_unfold, validate_ok ss S F hss hd hS hF]

/-- The validation is the ONLY place where the function itself decides to fail: on an ascending state list, if the call is not rejected by
`msm_estimate_paths_rejects` (sets disjoint, all states present), every error comes from `propagate_MCMC` or from the md oracle — in
particular a successful chain and a successful md oracle give a successful result. -/
theorem msm_estimate_paths_ok (ss : List Int) (lag : Int) (S F : List Int) (steps : Int)
    (hss : ss.Pairwise (· < ·)) (hd : ∀ x ∈ S, x ∉ F) (hS : ∀ x ∈ S, x ∈ ss) (hF : ∀ x ∈ F, x ∈ ss)
    (chain : List Int) (hchain : Gen.MsmMcmcApi.propagate_MCMC choice getc prop ss lag steps (-1) = .ok chain) :
    Gen.MsmTimesApi.estimate_paths mdp choice getc prop ss lag S F steps = mdp chain S F := by
  rw [msm_estimate_paths_refines mdp choice getc prop ss lag S F steps hss hd hS hF, hchain]
  rfl

/-- **Rejection is exact**: on an ascending state list, when the chain propagation and the md oracle succeed, `estimate_paths` raises
`ValueError` (indeed: raises anything) exactly for overlapping sets or an absent start / final state. -/
theorem msm_estimate_paths_rejects_iff (ss : List Int) (lag : Int) (S F : List Int) (steps : Int)
    (hss : ss.Pairwise (· < ·)) (chain : List Int)
    (hchain : Gen.MsmMcmcApi.propagate_MCMC choice getc prop ss lag steps (-1) = .ok chain)
    (r : List (List Int × List Int)) (hmd : mdp chain S F = .ok r) :
    (∃ e, Gen.MsmTimesApi.estimate_paths mdp choice getc prop ss lag S F steps = .error e) ↔
      ((∃ x, x ∈ S ∧ x ∈ F) ∨ (∃ x ∈ S ++ F, x ∉ ss)) := by
  constructor
  · rintro ⟨e, he⟩
    rw [paths_unfold] at he
    cases hv : validate S F ss with
    | error e' => exact (validate_error_iff ss S F hss).mp ⟨e', hv⟩
    | ok p =>
      rw [hv, hchain] at he
      change mdp chain S F = _ at he
      rw [hmd] at he
      cases he
  · intro h
    exact ⟨_, msm_estimate_paths_rejects mdp choice getc prop ss lag S F steps hss h⟩

/-- An error of the chain propagation (`np.random.choice` on an empty state list, no cumulative matrix for this lag time, a failing chain
kernel, …) is the result of `estimate_paths`; the md oracle is not consulted. -/
theorem msm_estimate_paths_chain_error (ss : List Int) (lag : Int) (S F : List Int) (steps : Int)
    (hss : ss.Pairwise (· < ·)) (hd : ∀ x ∈ S, x ∉ F) (hS : ∀ x ∈ S, x ∈ ss) (hF : ∀ x ∈ F, x ∈ ss)
    (e : Err) (hchain : Gen.MsmMcmcApi.propagate_MCMC choice getc prop ss lag steps (-1) = .error e) :
    Gen.MsmTimesApi.estimate_paths mdp choice getc prop ss lag S F steps = .error e := by
  rw [msm_estimate_paths_refines mdp choice getc prop ss lag S F steps hss hd hS hF, hchain]
  rfl

/-- **The chain, spelled out** (with `Small.propagate_MCMC_api_random_start`).  Accepted input; `np.random.choice(trajs.states)` returned the
label `s`, a state; `_get_cummat(lagtime)` returned `cm`; the chain kernel, called with `cm`, the RANK of `s` and `steps`, returned the index
chain `c` with entries in `[0, |ss|)`.  Then the result is the md pathway oracle applied to the label chain `ss[c_i]` and the original
`S`, `F`. -/
theorem msm_estimate_paths_chain (ss : List Int) (lag : Int) (S F : List Int) (steps : Int)
    (hss : ss.Pairwise (· < ·)) (hd : ∀ x ∈ S, x ∉ F) (hS : ∀ x ∈ S, x ∈ ss) (hF : ∀ x ∈ F, x ∈ ss)
    (s : Int) (hs : choice ss = .ok s) (hmem : s ∈ ss)
    (cm : List (List Rat) × List (List Int)) (hcm : getc lag = .ok cm)
    (c : List Int) (hc : prop cm ((rank ss s : Nat) : Int) steps = .ok c)
    (hcb : ∀ i ∈ c, 0 ≤ i ∧ i < (ss.length : Int)) :
    Gen.MsmTimesApi.estimate_paths mdp choice getc prop ss lag S F steps = mdp (c.map (labelOf ss)) S F :=
  msm_estimate_paths_ok mdp choice getc prop ss lag S F steps hss hd hS hF _
    (Small.propagate_MCMC_api_random_start choice getc prop ss lag steps s hs hmem cm hcm c hc hcb)

/-- If `np.random.choice` returns the state at position `idx` of the (ascending, hence duplicate-free) state list — `choice (range |ss|)`
read through `states[·]` —, the chain kernel is called with exactly `idx`: the result is the md oracle on `ss[kernel(cummat lag, idx, steps)]`. -/
theorem msm_estimate_paths_chain_idx (ss : List Int) (lag : Int) (S F : List Int) (steps : Int)
    (hss : ss.Pairwise (· < ·)) (hd : ∀ x ∈ S, x ∉ F) (hS : ∀ x ∈ S, x ∈ ss) (hF : ∀ x ∈ F, x ∈ ss)
    (idx : Nat) (hidx : idx < ss.length) (hs : choice ss = .ok ss[idx])
    (cm : List (List Rat) × List (List Int)) (hcm : getc lag = .ok cm)
    (c : List Int) (hc : prop cm (idx : Int) steps = .ok c)
    (hcb : ∀ i ∈ c, 0 ≤ i ∧ i < (ss.length : Int)) :
    Gen.MsmTimesApi.estimate_paths mdp choice getc prop ss lag S F steps = mdp (c.map (labelOf ss)) S F := by
  have hr : rank ss ss[idx] = idx := rank_getElem (hss.imp (fun h => Int.ne_of_lt h)) hidx
  exact msm_estimate_paths_chain mdp choice getc prop ss lag S F steps hss hd hS hF ss[idx] hs (List.getElem_mem hidx) cm hcm c
    (by rw [hr]; exact hc) hcb

end paths

/-! ### 5. non-vacuity: concrete oracles (`exChoice`, `exCummat`, `exEstimator` of `Refine/Times.lean`) -/

/-- the cumulative matrix `exCummat` delivers for lag time 2 -/
def exCm : List (List Rat) × List (List Int) := ([[1/2, 1], [1, 1], [1/3, 1]], [[0, 1], [1, 0], [2, 0]])

/-- list form, waiting-time kernel answering `{3: 1, 1: 2}` (start given unsorted with a repetition): the theorem applies … -/
example : Gen.MsmTimesApi.estimate_waiting_times_list (exEstimator (.ok (dictI [(3, 1), (1, 2)]))) exChoice exCummat
      [1, 3, 5] (2 : Nat) [3, 1, 3] [5] 10 false = .ok ((Events.histList [(3, 1), (1, 2)] 2).map Int.ofNat) :=
  estimate_waiting_times_list_refines _ _ _ [1, 3, 5] 2 [3, 1, 3] [5] 10 false (by decide +kernel) (by decide +kernel)
    (by decide +kernel) (by decide +kernel) 2 exCm [(3, 1), (1, 2)] (by decide +kernel) (by decide +kernel) (by decide +kernel)
/-- … and the value is the ascending list of durations times the lag time -/
example : Gen.MsmTimesApi.estimate_waiting_times_list (exEstimator (.ok (dictI [(3, 1), (1, 2)]))) exChoice exCummat
      [1, 3, 5] 2 [3, 1, 3] [5] 10 false = .ok [2, 2, 6] := by decide +kernel

/-- histogram form, transition-time kernel answering `{2: 3, 1: 1}` -/
example : Gen.MsmTimesApi.estimate_transition_times_hist (exEstimator (.ok (dictI [(2, 3), (1, 1)]))) exChoice exCummat
      [1, 3, 5] (2 : Nat) [3, 1, 3] [5] 10 true
      = .ok ((Events.histDensity [(2, 3), (1, 1)] 2).1, (Events.histDensity [(2, 3), (1, 1)] 2).2.map Int.ofNat) :=
  estimate_transition_times_hist_refines _ _ _ [1, 3, 5] 2 [3, 1, 3] [5] 10 true (by decide +kernel) (by decide +kernel)
    (by decide +kernel) (by decide +kernel) 2 exCm [(2, 3), (1, 1)] (by decide +kernel) (by decide +kernel) (by decide +kernel)
    (by decide +kernel) (by decide +kernel)
example : Gen.MsmTimesApi.estimate_transition_times_hist (exEstimator (.ok (dictI [(2, 3), (1, 1)]))) exChoice exCummat
      [1, 3, 5] 2 [3, 1, 3] [5] 10 true = .ok ([0, 1/8, 3/8], [0, 2, 4, 6]) := by decide +kernel

/-- the remaining two forms on the same input -/
example : Gen.MsmTimesApi.estimate_waiting_times_hist (exEstimator (.ok (dictI [(3, 1), (1, 2)]))) exChoice exCummat
      [1, 3, 5] 2 [3, 1, 3] [5] 10 false = .ok ([0, 1/3, 0, 1/6], [0, 2, 4, 6, 8]) := by decide +kernel
example : Gen.MsmTimesApi.estimate_transition_times_list (exEstimator (.ok (dictI [(2, 3), (1, 1)]))) exChoice exCummat
      [1, 3, 5] 2 [3, 1, 3] [5] 10 false = .ok [2, 4, 4, 4] := by decide +kernel

/-- rejected calls, with oracles that would fail differently: overlap (waiting times); unknown final state (transition times) -/
example : Gen.MsmTimesApi.estimate_waiting_times_list (fun _ _ _ _ _ => .error .other) (fun _ => .error .other) (fun _ => .error .other)
      [1, 3, 5] 2 [3, 1] [5, 3] 10 false = .error .value :=
  (estimate_times_public_rejects (fun _ _ _ _ _ => .error .other) (fun _ _ _ _ _ => .error .other) _ _ [1, 3, 5] 2 [3, 1] [5, 3] 10 false
    (by decide +kernel) (Or.inl ⟨3, by decide, by decide⟩)).1
example : Gen.MsmTimesApi.estimate_transition_times_hist (fun _ _ _ _ _ => .error .other) (fun _ => .error .other) (fun _ => .error .other)
      [1, 3, 5] 2 [3, 1] [4] 10 false = .error .value :=
  (estimate_times_public_rejects (fun _ _ _ _ _ => .error .other) (fun _ _ _ _ _ => .error .other) _ _ [1, 3, 5] 2 [3, 1] [4] 10 false
    (by decide +kernel) (Or.inr ⟨4, by decide, by decide⟩)).2.2.2

/-- error propagation: the kernel fails with `Other` -/
example : Gen.MsmTimesApi.estimate_transition_times_list (exEstimator (.error .other)) exChoice exCummat
      [1, 3, 5] 2 [3, 1, 3] [5] 10 false = .error .other :=
  (estimate_times_public_kernel_error exChoice exCummat [1, 3, 5] 2 [3, 1, 3] [5] 10 false (by decide +kernel) (by decide +kernel)
    (by decide +kernel) (by decide +kernel) _ 2 exCm .other (by decide +kernel) (by decide +kernel) (by decide +kernel)).2.2.1

/-- a chain kernel that answers only to the cumulative matrix `exCm` and returns `start, 0, 1, 2, 0` -/
def exPropagate : List (List Rat) × List (List Int) → Int → Int → Py (List Int) :=
  fun cm i steps => if cm = exCm ∧ steps = 5 then .ok [i, 0, 1, 2, 0] else .error .assertion
/-- an md pathway "oracle" that just records the three arguments it was called with -/
def exMdPaths : List Int → List Int → List Int → Py (List (List Int × List Int)) :=
  fun chain S F => .ok [(chain, S), ([], F)]

/-- `estimate_paths`, accepted: `exChoice` picks the last state `5` (index 2), the kernel returns `[2, 0, 1, 2, 0]`, the label chain
`[5, 1, 3, 5, 1]` is handed to the md oracle together with the ORIGINAL `start = [3, 1, 3]` (not `[1, 3]`) and `final = [5]` -/
example : Gen.MsmTimesApi.estimate_paths exMdPaths exChoice exCummat exPropagate [1, 3, 5] 2 [3, 1, 3] [5] 5
      = exMdPaths ([2, 0, 1, 2, 0].map (labelOf [1, 3, 5])) [3, 1, 3] [5] :=
  msm_estimate_paths_chain _ _ _ _ [1, 3, 5] 2 [3, 1, 3] [5] 5 (by decide +kernel) (by decide +kernel) (by decide +kernel)
    (by decide +kernel) 5 (by decide +kernel) (by decide +kernel) exCm (by decide +kernel) [2, 0, 1, 2, 0] (by decide +kernel)
    (by decide +kernel)
example : Gen.MsmTimesApi.estimate_paths exMdPaths exChoice exCummat exPropagate [1, 3, 5] 2 [3, 1, 3] [5] 5
      = .ok [([5, 1, 3, 5, 1], [3, 1, 3]), ([], [5])] := by decide +kernel
/-- the same through the index form (`idx = 2`) -/
example : Gen.MsmTimesApi.estimate_paths exMdPaths exChoice exCummat exPropagate [1, 3, 5] 2 [3, 1, 3] [5] 5
      = exMdPaths ([2, 0, 1, 2, 0].map (labelOf [1, 3, 5])) [3, 1, 3] [5] :=
  msm_estimate_paths_chain_idx _ _ _ _ [1, 3, 5] 2 [3, 1, 3] [5] 5 (by decide +kernel) (by decide +kernel) (by decide +kernel)
    (by decide +kernel) 2 (by decide) (by decide +kernel) exCm (by decide +kernel) [2, 0, 1, 2, 0] (by decide +kernel)
    (by decide +kernel)

/-- `estimate_paths`, rejected before any oracle is consulted (all four oracles would fail with `Other`): overlap; absent start state -/
example : Gen.MsmTimesApi.estimate_paths (fun _ _ _ => .error .other) (fun _ => .error .other) (fun _ => .error .other)
      (fun _ _ _ => .error .other) [1, 3, 5] 2 [3, 1] [5, 3] 5 = .error .value :=
  msm_estimate_paths_rejects _ _ _ _ [1, 3, 5] 2 [3, 1] [5, 3] 5 (by decide +kernel) (Or.inl ⟨3, by decide, by decide⟩)
example : Gen.MsmTimesApi.estimate_paths (fun _ _ _ => .error .other) (fun _ => .error .other) (fun _ => .error .other)
      (fun _ _ _ => .error .other) [1, 3, 5] 2 [3, 2] [5] 5 = .error .value :=
  msm_estimate_paths_rejects _ _ _ _ [1, 3, 5] 2 [3, 2] [5] 5 (by decide +kernel) (Or.inr ⟨2, by decide, by decide⟩)

/-- `estimate_paths`, accepted input but no cumulative matrix for lag time 3: the `LagtimeError` of the chain propagation is the result -/
example : Gen.MsmTimesApi.estimate_paths exMdPaths exChoice exCummat exPropagate [1, 3, 5] 3 [3, 1, 3] [5] 5 = .error .lagtime :=
  msm_estimate_paths_chain_error _ _ _ _ [1, 3, 5] 3 [3, 1, 3] [5] 5 (by decide +kernel) (by decide +kernel) (by decide +kernel)
    (by decide +kernel) .lagtime (by decide +kernel)

end MsmVerif.Refine.TimesPublic
