/-
Refine/Transfer.lean — task RP33 (properties C11, C05, C06, C13): the order / cut / per-trajectory laws of the MODELS transferred to
the TRANSLATED public functions, by composing the end-to-end refinement theorems (`Refine/Public`, `CoringApi`, `TimesApi`, `Public2`)
with the model laws (`Props/C11`, `C05`, `C06`, `C13`).

* `translated_estimate_perm`, `translated_estimate_cut` — `StateTraj(trajs).estimate_markov_model(lag)` (translated constructor +
  translated method).
* `translated_coring_append`, `translated_coring_swap` — `md.dynamical_coring`.
* `translated_waiting_times_append`, `translated_waiting_times_perm` — `md.estimate_waiting_times`.
* `translated_compare_resplit` — `md.compare_discretization`.

Helper lemmas: `Refine/TransferLemmas.lean`.
-/
import MsmVerif.Refine.TransferLemmas

namespace MsmVerif.Refine.Transfer
open MsmVerif MsmVerif.Gen

/-! ## 1. the estimator (C11) -/

/-- **(C11) order of the trajectories.**  If `B` is a permutation of the list of trajectories `A`, the labels lie within the guard
`[-2^29, 2^29]` (for `A`, hence for `B`) and `lag ≥ 1`, then running the translated constructor and the translated
`estimate_markov_model` on `A` and on `B` (any values of the configuration flag) gives the same result: the same transition matrix
and the same state list (and no error, `Public.public_estimate_meets_spec`). -/
theorem translated_estimate_perm {A B : Trajs} (h : A.Perm B) (hgA : LabelGuard A) (lag : Nat) (hlag : 1 ≤ lag)
    (flagA flagB : Bool) :
    (do let (i, s) ← Gen.StateTrajInit.init A; Gen.StateTrajEst.estimate_markov_model i s (lag : Int) flagA)
      = (do let (i, s) ← Gen.StateTrajInit.init B; Gen.StateTrajEst.estimate_markov_model i s (lag : Int) flagB) := by
  rw [Public.public_estimate_refines A hgA lag hlag flagA,
    Public.public_estimate_refines B (guard_of_perm h hgA) lag hlag flagB, C11.estimate_perm h lag hgA]

example : ([[1, 2, 1], [2, 2], [3]] : Trajs).Perm [[3], [1, 2, 1], [2, 2]] ∧ LabelGuard [[1, 2, 1], [2, 2], [3]] := by decide
/-- both sides of `translated_estimate_perm` on the example, by evaluating the translated code -/
example :
    (do let (i, s) ← Gen.StateTrajInit.init [[1, 2, 1], [2, 2], [3]]; Gen.StateTrajEst.estimate_markov_model i s 1 true)
      = .ok ([[0, 1, 0], [1/2, 1/2, 0], [0, 0, 0]], [1, 2, 3]) ∧
    (do let (i, s) ← Gen.StateTrajInit.init [[3], [1, 2, 1], [2, 2]]; Gen.StateTrajEst.estimate_markov_model i s 1 false)
      = .ok ([[0, 1, 0], [1/2, 1/2, 0], [0, 0, 0]], [1, 2, 3]) := by decide +kernel

/-- **(C11) cutting a trajectory.**  Let the set `(t₁ ++ t₂) :: rest` lie within the label guard and `lag ≥ 1`.  The public model
`Msm.estimate` returns `(c, T, ss)` on the uncut set and `(c', T', ss)` on the set `t₁ :: t₂ :: rest` in which the first trajectory is
cut in two; the translated constructor + estimator returns exactly `(T, ss)` resp. `(T', ss)` (no error, any flag values) — the SAME
state list `ss` (the ascending distinct labels) — and the count behind every entry drops by exactly the number of frame pairs that
straddle the cut: `c[i][j] = c'[i][j] + straddle lag t₁ t₂ ss[i] ss[j]` (`T`, `T'` are the row-normalised `c`, `c'`; see
`C11.straddle_eq`, `C11.straddle_le` for `straddle`). -/
theorem translated_estimate_cut (t₁ t₂ : List Int) (rest : Trajs) (hg : LabelGuard ((t₁ ++ t₂) :: rest))
    (lag : Nat) (hlag : 1 ≤ lag) (flag flag' : Bool) :
    ∃ c c' T T' ss,
      Msm.estimate ((t₁ ++ t₂) :: rest) lag = .ok (c, T, ss) ∧ Msm.estimate (t₁ :: t₂ :: rest) lag = .ok (c', T', ss) ∧
      (do let (i, s) ← Gen.StateTrajInit.init ((t₁ ++ t₂) :: rest); Gen.StateTrajEst.estimate_markov_model i s (lag : Int) flag)
        = .ok (T, ss) ∧
      (do let (i, s) ← Gen.StateTrajInit.init (t₁ :: t₂ :: rest); Gen.StateTrajEst.estimate_markov_model i s (lag : Int) flag')
        = .ok (T', ss) ∧
      ss = states ((t₁ ++ t₂) :: rest) ∧ c.length = ss.length ∧ c'.length = ss.length ∧
      ∀ i j (hi : i < ss.length) (hj : j < ss.length),
        (c.getD i []).getD j 0 = (c'.getD i []).getD j 0 + Msm.straddle lag t₁ t₂ ss[i] ss[j] := by
  have hg' := guard_cut hg
  have e1 := Msm.estimate_eq_spec_of_window hg.window lag
  have e2 := Msm.estimate_eq_spec_of_window hg'.window lag
  have hs := C11.states_cut t₁ t₂ rest
  refine ⟨_, _, _, _, _, e1, hs ▸ e2, ?_, ?_, rfl, ?_, ?_, ?_⟩
  · rw [Public.public_estimate_refines _ hg lag hlag flag, e1]; rfl
  · rw [Public.public_estimate_refines _ hg' lag hlag flag', e2, hs]; rfl
  · simp [Msm.specCounts]
  · simp [Msm.specCounts, hs]
  · intro i j hi hj
    have hi' : i < (states (t₁ :: t₂ :: rest)).length := hs ▸ hi
    have hj' : j < (states (t₁ :: t₂ :: rest)).length := hs ▸ hj
    simp only [Msm.specCounts, List.getD_eq_getElem?_getD, List.getElem?_map, List.getElem?_eq_getElem hi,
      List.getElem?_eq_getElem hj, List.getElem?_eq_getElem hi', List.getElem?_eq_getElem hj', Option.map_some, Option.getD_some]
    rw [count_cut_rest]
    simp only [hs]

example : LabelGuard (([1, 1, 2] ++ [2, 2]) :: [[2, 1]]) := by decide
/-- the example: at lag 2 the cut of `[1, 1, 2, 2, 2]` after the third frame loses one pair `1 → 2` and one pair `2 → 2` -/
example : Msm.estimate (([1, 1, 2] ++ [2, 2]) :: [[2, 1]]) 2 = .ok ([[0, 2], [0, 1]], [[0, 1], [0, 1]], [1, 2]) ∧
    Msm.estimate ([1, 1, 2] :: [2, 2] :: [[2, 1]]) 2 = .ok ([[0, 1], [0, 0]], [[0, 1], [0, 0]], [1, 2]) ∧
    Msm.straddle 2 [1, 1, 2] [2, 2] 1 2 = 1 ∧ Msm.straddle 2 [1, 1, 2] [2, 2] 2 2 = 1 := by decide +kernel

/-! ## 2. `md.dynamical_coring` (C05 / C11) -/

/-- **(C11 / C05) coring works trajectory by trajectory.**  For a guarded union `A ++ B`, any lag time (any integer) and both modes,
the translated public `dynamical_coring` — fed with the attributes (state list, index trajectories, label trajectories) of the object
of the respective set — returns on `A ++ B` the concatenation of what it returns on `A` and on `B`; errors included (`ValueError` for
`lagtime ≤ 0`, `LagtimeError` iff it is raised for `A` or for `B`). -/
theorem translated_coring_append (A B : Trajs) (hg : LabelGuard (A ++ B)) (τ : Int) (iter flag : Bool) :
    MdCoringApi.dynamical_coring (states (A ++ B)) (rankTrajs (A ++ B)) (A ++ B) false τ iter flag
      = (do let a ← MdCoringApi.dynamical_coring (states A) (rankTrajs A) A false τ iter flag
            let b ← MdCoringApi.dynamical_coring (states B) (rankTrajs B) B false τ iter flag
            pure (a ++ b)) := by
  rw [coring_eq_refSet _ hg, coring_eq_refSet _ (guard_append_left hg), coring_eq_refSet _ (guard_append_right hg)]
  exact refSet_append A B τ iter

/-- **(C11) exchanging two blocks of trajectories exchanges the cored blocks.**  For a guarded union: either the translated public
`dynamical_coring` raises the same error on `A ++ B` and on `B ++ A`, or it returns `a` on `A`, `b` on `B`, `a ++ b` on `A ++ B` and
`b ++ a` on `B ++ A`. -/
theorem translated_coring_swap (A B : Trajs) (hg : LabelGuard (A ++ B)) (τ : Int) (iter flag : Bool) :
    (∃ e, MdCoringApi.dynamical_coring (states (A ++ B)) (rankTrajs (A ++ B)) (A ++ B) false τ iter flag = .error e ∧
          MdCoringApi.dynamical_coring (states (B ++ A)) (rankTrajs (B ++ A)) (B ++ A) false τ iter flag = .error e) ∨
    (∃ a b, MdCoringApi.dynamical_coring (states A) (rankTrajs A) A false τ iter flag = .ok a ∧
          MdCoringApi.dynamical_coring (states B) (rankTrajs B) B false τ iter flag = .ok b ∧
          MdCoringApi.dynamical_coring (states (A ++ B)) (rankTrajs (A ++ B)) (A ++ B) false τ iter flag = .ok (a ++ b) ∧
          MdCoringApi.dynamical_coring (states (B ++ A)) (rankTrajs (B ++ A)) (B ++ A) false τ iter flag = .ok (b ++ a)) := by
  rw [coring_eq_refSet _ hg, coring_eq_refSet _ (guard_append_left hg), coring_eq_refSet _ (guard_append_right hg),
    coring_eq_refSet _ (guard_of_perm List.perm_append_comm hg)]
  exact refSet_swap A B τ iter

example : LabelGuard ([[-1, -1, -1, 2, 2, 2, -1]] ++ [[5, 5, 2, 5]]) := by decide
/-- the three calls of `translated_coring_append` on the example, by evaluating the translated code -/
example : states ([[-1, -1, -1, 2, 2, 2, -1]] ++ [[5, 5, 2, 5]]) = [-1, 2, 5] ∧
    rankTrajs ([[-1, -1, -1, 2, 2, 2, -1]] ++ [[5, 5, 2, 5]]) = [[0, 0, 0, 1, 1, 1, 0], [2, 2, 1, 2]] ∧
    MdCoringApi.dynamical_coring [-1, 2, 5] [[0, 0, 0, 1, 1, 1, 0], [2, 2, 1, 2]] [[-1, -1, -1, 2, 2, 2, -1], [5, 5, 2, 5]]
      false 2 false true = .ok [[-1, -1, -1, 2, 2, 2, 2], [5, 5, 5, 5]] ∧
    states [[-1, -1, -1, 2, 2, 2, -1]] = [-1, 2] ∧ rankTrajs [[-1, -1, -1, 2, 2, 2, -1]] = [[0, 0, 0, 1, 1, 1, 0]] ∧
    MdCoringApi.dynamical_coring [-1, 2] [[0, 0, 0, 1, 1, 1, 0]] [[-1, -1, -1, 2, 2, 2, -1]] false 2 false true
      = .ok [[-1, -1, -1, 2, 2, 2, 2]] ∧
    states [[5, 5, 2, 5]] = [2, 5] ∧ rankTrajs [[5, 5, 2, 5]] = [[1, 1, 0, 1]] ∧
    MdCoringApi.dynamical_coring [2, 5] [[1, 1, 0, 1]] [[5, 5, 2, 5]] false 2 false true = .ok [[5, 5, 5, 5]] := by
  decide +kernel

/-! ## 3. `md.estimate_waiting_times` (C06 / C11) -/

/-- **(C06) waiting times are collected trajectory by trajectory.**  For a fixed state list `sts` of the object (the validation of
`start` / `final` looks at nothing else), the translated `md.estimate_waiting_times` on `A ++ B` returns the concatenation of what it
returns on the trajectories `A` and on the trajectories `B` — the same `ValueError` if the validation fails; no event spans two
trajectories. -/
theorem translated_waiting_times_append (sts : List Int) (A B : Trajs) (start final : List Int) (flag : Bool) :
    Gen.MdTimesApi.estimate_waiting_times sts (A ++ B) start final flag
      = (do let a ← Gen.MdTimesApi.estimate_waiting_times sts A start final flag
            let b ← Gen.MdTimesApi.estimate_waiting_times sts B start final flag
            pure (a ++ b)) := by
  simp only [wt_eq]
  cases Events.validate start final sts with
  | error e => rfl
  | ok p =>
    simp only [Except.bind, bind, pure, Except.pure, C06.per_traj, List.map_append]

/-- **(C06 / C11) order of the trajectories.**  If `B` is a permutation of the list of trajectories `A` (any labels), the translated
`md.estimate_waiting_times` on the objects of `A` and of `B` (state lists `states A`, `states B`; any flag values) either raises the
same error on both or returns two lists of waiting times that are permutations of each other (the same multiset). -/
theorem translated_waiting_times_perm {A B : Trajs} (h : A.Perm B) (start final : List Int) (flagA flagB : Bool) :
    (∃ e, Gen.MdTimesApi.estimate_waiting_times (states A) A start final flagA = .error e ∧
          Gen.MdTimesApi.estimate_waiting_times (states B) B start final flagB = .error e) ∨
    (∃ wa wb, Gen.MdTimesApi.estimate_waiting_times (states A) A start final flagA = .ok wa ∧
          Gen.MdTimesApi.estimate_waiting_times (states B) B start final flagB = .ok wb ∧ wa.Perm wb) := by
  simp only [wt_eq, ← C11.states_perm h]
  cases Events.validate start final (states A) with
  | error e => exact Or.inl ⟨e, rfl, rfl⟩
  | ok p =>
    refine Or.inr ⟨_, _, rfl, rfl, ?_⟩
    unfold Events.waitingTimes
    exact ((h.map _).flatten).map _

example : ([[0, 2, 4, 2, 3, 1, 2], [4, 1, 2, 3, 0, 2, 4, 2, 3]] : Trajs).Perm [[4, 1, 2, 3, 0, 2, 4, 2, 3], [0, 2, 4, 2, 3, 1, 2]] := by
  decide
/-- both orders on the example (the success branch of `translated_waiting_times_perm`), by evaluating the translated code -/
example : states [[0, 2, 4, 2, 3, 1, 2], [4, 1, 2, 3, 0, 2, 4, 2, 3]] = [0, 1, 2, 3, 4] ∧
    Gen.MdTimesApi.estimate_waiting_times [0, 1, 2, 3, 4] [[0, 2, 4, 2, 3, 1, 2], [4, 1, 2, 3, 0, 2, 4, 2, 3]] [1, 0, 0] [3] true
      = .ok [4, 2, 4] ∧
    Gen.MdTimesApi.estimate_waiting_times [0, 1, 2, 3, 4] [[4, 1, 2, 3, 0, 2, 4, 2, 3], [0, 2, 4, 2, 3, 1, 2]] [1, 0, 0] [3] false
      = .ok [2, 4, 4] ∧ ([4, 2, 4] : List Int).Perm [2, 4, 4] := by decide +kernel

/-! ## 4. `md.compare_discretization` (C13 / C11) -/

/-- **(C13 / C11) only the concatenated frames matter.**  Let `t1, t1'` be two trajectory sets with the same concatenation of frames
(the same frames split differently into trajectories), likewise `t2, t2'`; labels within the guard, not both without any frame; `s1`,
`s1'`, `s2`, `s2'` the objects the constructor builds.  The translated public `compare_discretization`, fed with the attributes of
`(s1, s2)` resp. of `(s1', s2')`, returns the same — value or `ValueError` — for `method='symmetric'` and for `method='directed'`, for
any flag values. -/
theorem translated_compare_resplit (t1 t2 t1' t2' : Trajs) (s1 s2 s1' s2' : StateTraj)
    (h1 : StateTraj.mk' t1 = .ok s1) (h2 : StateTraj.mk' t2 = .ok s2)
    (h1' : StateTraj.mk' t1' = .ok s1') (h2' : StateTraj.mk' t2' = .ok s2')
    (hguard1 : LabelGuard t1) (hguard2 : LabelGuard t2) (hne : t1.flatten ≠ [] ∨ t2.flatten ≠ [])
    (e1 : t1.flatten = t1'.flatten) (e2 : t2.flatten = t2'.flatten) (flag flag' : Bool) :
    Gen.MdCompareApi.compare_discretization_api_symmetric s1.idx.flatten s1.nstates s1.nframes s2.idx.flatten s2.nstates
        s2.nframes flag
      = Gen.MdCompareApi.compare_discretization_api_symmetric s1'.idx.flatten s1'.nstates s1'.nframes s2'.idx.flatten
        s2'.nstates s2'.nframes flag' ∧
    Gen.MdCompareApi.compare_discretization_api_directed s1.idx.flatten s1.nstates s1.nframes s2.idx.flatten s2.nstates
        s2.nframes flag
      = Gen.MdCompareApi.compare_discretization_api_directed s1'.idx.flatten s1'.nstates s1'.nframes s2'.idx.flatten
        s2'.nstates s2'.nframes flag' := by
  have hne' : t1'.flatten ≠ [] ∨ t2'.flatten ≠ [] := e1 ▸ e2 ▸ hne
  rw [Public2.compare_api_symmetric_refines t1 t2 s1 s2 h1 h2 hguard1 hguard2 hne flag,
    Public2.compare_api_directed_refines t1 t2 s1 s2 h1 h2 hguard1 hguard2 hne flag,
    Public2.compare_api_symmetric_refines t1' t2' s1' s2' h1' h2' (guard_of_flatten e1 hguard1) (guard_of_flatten e2 hguard2)
      hne' flag',
    Public2.compare_api_directed_refines t1' t2' s1' s2' h1' h2' (guard_of_flatten e1 hguard1) (guard_of_flatten e2 hguard2)
      hne' flag']
  exact ⟨C13.flat t1 t2 t1' t2' 0 e1 e2, C13.flat t1 t2 t1' t2' 1 e1 e2⟩

/-- the hypotheses on an example: `[[1, 1], [5, 5]]` against `[[1], [1, 5, 5]]`, `[[3, 4, 4], [4]]` against `[[3, 4], [4, 4]]` -/
example : StateTraj.mk' [[1, 1], [5, 5]] = .ok ⟨[[0, 0], [1, 1]], [1, 5]⟩ ∧ StateTraj.mk' [[3, 4, 4], [4]] = .ok ⟨[[0, 1, 1], [1]], [3, 4]⟩ ∧
    StateTraj.mk' [[1], [1, 5, 5]] = .ok ⟨[[0], [0, 1, 1]], [1, 5]⟩ ∧ StateTraj.mk' [[3, 4], [4, 4]] = .ok ⟨[[0, 1], [1, 1]], [3, 4]⟩ ∧
    LabelGuard [[1, 1], [5, 5]] ∧ LabelGuard [[3, 4, 4], [4]] ∧ ([[1, 1], [5, 5]] : Trajs).flatten ≠ [] ∧
    ([[1, 1], [5, 5]] : Trajs).flatten = ([[1], [1, 5, 5]] : Trajs).flatten ∧
    ([[3, 4, 4], [4]] : Trajs).flatten = ([[3, 4], [4, 4]] : Trajs).flatten := by decide +kernel

end MsmVerif.Refine.Transfer
