/-
Props/C10.lean — property theorems for C10 (`msm/timescales.py::_implied_timescales`).
Helper lemmas and the relation `Misc.admissible` live in Lemmas/Misc.lean.

The implied timescale of an eigenvalue `λ` at lag time `τ` is `-τ / ln λ`.  The first part states the real- and
complex-analytic facts behind the property (sign, ordering, behaviour on the unit circle); the second part is about the
model of the decision logic (`Model/Timescales.lean`): `required re im` is what the property demands for the eigenvalue
`re + i·im`, `codeKind re im` classifies what the (repaired) code returns, `entryOk` is the harness's oracle.
-/
import MsmVerif.Lemmas.Misc
import Mathlib.Analysis.SpecialFunctions.Log.Basic
import Mathlib.Analysis.SpecialFunctions.Complex.Log

namespace MsmVerif.C10
open MsmVerif MsmVerif.Timescales MsmVerif.Misc

/-! ### 1.–3. analysis of `-τ / log λ` -/

/-- A real eigenvalue strictly between 0 and 1 gives a positive timescale. -/
theorem pos (τ l : ℝ) (hτ : 0 < τ) (hl0 : 0 < l) (hl1 : l < 1) : 0 < -τ / Real.log l :=
  div_pos_of_neg_of_neg (neg_neg_of_pos hτ) (Real.log_neg hl0 hl1)

/-- The timescale grows with the eigenvalue on `(0,1)`: for `0 < λ₂ ≤ λ₁ < 1` the timescale of `λ₂` is at most that of
`λ₁`.  Eigenvalues in descending order therefore give timescales in descending order ("slowest first"). -/
theorem antitone (τ l₁ l₂ : ℝ) (hτ : 0 < τ) (h2 : 0 < l₂) (h21 : l₂ ≤ l₁) (h1 : l₁ < 1) :
    -τ / Real.log l₂ ≤ -τ / Real.log l₁ := by
  have hl1 : Real.log l₁ < 0 := Real.log_neg (lt_of_lt_of_le h2 h21) h1
  have hl2 : Real.log l₂ ≤ Real.log l₁ := Real.log_le_log h2 h21
  have hl2' : Real.log l₂ < 0 := lt_of_le_of_lt hl2 hl1
  have hinv : 1 / Real.log l₁ ≤ 1 / Real.log l₂ := (one_div_le_one_div_of_neg hl1 hl2').mpr hl2
  have := mul_le_mul_of_nonneg_left hinv hτ.le
  rw [neg_div, neg_div, neg_le_neg_iff, div_eq_mul_one_div τ, div_eq_mul_one_div τ (Real.log l₂)]
  exact this

example : (0 : ℝ) < 5 ∧ (0 : ℝ) < 1 / 4 ∧ (1 / 4 : ℝ) ≤ 1 / 2 ∧ (1 / 2 : ℝ) < 1 := by norm_num

/-- A complex eigenvalue strictly inside the unit disc (and not 0) gives a timescale with positive real part
(principal branch of the logarithm): `Re(-τ / log z) = -τ · ln|z| / |log z|²`. -/
theorem complex_pos (z : ℂ) (τ : ℝ) (hz0 : 0 < ‖z‖) (hz1 : ‖z‖ < 1) (hτ : 0 < τ) :
    0 < (-(τ : ℂ) / Complex.log z).re := by
  have hre : (Complex.log z).re < 0 := by
    rw [Complex.log_re]; exact Real.log_neg hz0 hz1
  have hne : Complex.log z ≠ 0 := by
    intro h; rw [h] at hre; simp at hre
  have hns : 0 < Complex.normSq (Complex.log z) := Complex.normSq_pos.mpr hne
  rw [Complex.div_re]
  simp only [Complex.neg_re, Complex.ofReal_re, Complex.neg_im, Complex.ofReal_im, neg_zero, zero_mul, zero_div,
    add_zero]
  rw [neg_mul, neg_div]
  apply neg_pos.mpr
  exact div_neg_of_neg_of_pos (mul_neg_of_pos_of_neg hτ hre) hns

example : (0 : ℝ) < ‖(Complex.I / 2 : ℂ)‖ ∧ ‖(Complex.I / 2 : ℂ)‖ < 1 := by
  simp; norm_num

/-- An eigenvalue on the unit circle other than 1 has a non-zero, purely imaginary logarithm, so the real part of
`-τ / log z` is exactly 0 — neither positive nor negative.  This is the input class on which the original code
returned rounding noise of either sign; the repaired code returns NaN there. -/
theorem unit_circle (z : ℂ) (τ : ℝ) (hz : ‖z‖ = 1) (hz1 : z ≠ 1) :
    Complex.log z ≠ 0 ∧ (-(τ : ℂ) / Complex.log z).re = 0 := by
  have hre : (Complex.log z).re = 0 := by
    rw [Complex.log_re, hz, Real.log_one]
  constructor
  · intro h
    have := Complex.exp_log (x := z) (by intro h0; rw [h0] at hz; simp at hz)
    rw [h, Complex.exp_zero] at this
    exact hz1 this.symm
  · rw [Complex.div_re]
    simp [hre]

example : ‖(Complex.I : ℂ)‖ = 1 ∧ (Complex.I : ℂ) ≠ 1 := by
  refine ⟨by simp, ?_⟩
  intro h
  have := congrArg Complex.im h
  simp at this

/-! ### 4. the code's classification meets the requirement -/

/-- For every eigenvalue `re + i·im` (in particular for all with `re² + im² ≤ 1`, the spectrum of a stochastic matrix;
the hypothesis is not needed) the kind of entry the code returns is admissible for the kind the property requires:
NaN where NaN or "positive or NaN" is required, a positive number where "positive" or "positive or NaN" is required. -/
theorem code_meets_requirement (re im : Rat) : admissible (codeKind re im) (required re im) :=
  code_admissible re im

/-- The same with the spectral hypothesis spelled out, as in the property statement. -/
theorem code_meets_requirement_unit_disc (re im : Rat) (_h : re * re + im * im ≤ 1) :
    admissible (codeKind re im) (required re im) :=
  code_admissible re im

example : (3 / 5 : Rat) * (3 / 5) + (4 / 5) * (4 / 5) ≤ 1 := by decide +kernel
example : codeKind (3 / 5) (4 / 5) = .nan ∧ required (3 / 5) (4 / 5) = .posOrNan := by decide +kernel
example : codeKind (1 / 2) (1 / 3) = .pos ∧ required (1 / 2) (1 / 3) = .posOrNan := by decide +kernel

/-- A real eigenvalue well inside `(0,1)`, i.e. `0 < λ < 1 - 10⁻⁹`: a positive value is required and the code returns
one. -/
theorem code_real_inside (re : Rat) (h0 : 0 < re) (h1 : re < 1 - 1 / 1000000000) :
    required re 0 = .pos ∧ codeKind re 0 = .pos := by
  refine ⟨?_, codeKind_real_inside re h0 h1⟩
  unfold required
  rw [if_pos rfl, if_neg (not_le.mpr h0), if_pos h1]

/-- A real eigenvalue `λ ≤ 0`: NaN is required and the code returns NaN. -/
theorem code_real_nonpos (re : Rat) (h0 : re ≤ 0) : required re 0 = .nan ∧ codeKind re 0 = .nan := by
  refine ⟨?_, codeKind_real_nonpos re h0⟩
  unfold required
  rw [if_pos rfl, if_pos h0]

/-- The remaining gap, stated explicitly: a real eigenvalue with `1 - 10⁻⁹ ≤ λ` (in particular `λ ≤ 1` within rounding
of the stationary eigenvalue) is only required to give "positive or NaN". -/
theorem required_near_one (re : Rat) (h1 : 1 - 1 / 1000000000 ≤ re) : required re 0 = .posOrNan := by
  unfold required
  have h0 : ¬ re ≤ 0 := by
    intro h
    have : (0 : Rat) < 1 - 1 / 1000000000 := by norm_num
    linarith
  rw [if_pos rfl, if_neg h0, if_neg (not_lt.mpr h1)]

/-- A genuinely complex eigenvalue is only required to give "positive or NaN", and the code returns a positive value or
NaN (never the unspecific class). -/
theorem code_complex (re im : Rat) (him : im ≠ 0) :
    required re im = .posOrNan ∧ (codeKind re im = .pos ∨ codeKind re im = .nan) := by
  constructor
  · unfold required; rw [if_neg him]
  · have := codeKind_ne_posOrNan re im
    revert this
    cases codeKind re im <;> simp

/-- Exactly when the code classifies an entry as positive: the eigenvalue is lexicographically positive (`re > 0`, or
`re = 0` and `im > 0`) and lies strictly inside the unit circle. -/
theorem code_pos_iff (re im : Rat) :
    codeKind re im = .pos ↔ (0 < re ∨ (re = 0 ∧ 0 < im)) ∧ re * re + im * im < 1 :=
  codeKind_pos_iff re im

/-- Soundness of the classification against the analysis: whenever the code classifies the entry of the eigenvalue
`z = re + i·im` as positive, the real part of `-τ / log z` is indeed positive (for every lag time `τ > 0`). -/
theorem code_pos_sound (re im : Rat) (τ : ℝ) (hτ : 0 < τ) (h : codeKind re im = .pos) :
    0 < (-(τ : ℂ) / Complex.log (⟨(re : ℝ), (im : ℝ)⟩ : ℂ)).re := by
  obtain ⟨hlex, hm⟩ := (codeKind_pos_iff re im).mp h
  have hm' : ((re : ℝ) * (re : ℝ) + (im : ℝ) * (im : ℝ)) < 1 := by exact_mod_cast hm
  have hne : (0 : ℝ) < (re : ℝ) * (re : ℝ) + (im : ℝ) * (im : ℝ) := by
    rcases hlex with h1 | ⟨_, h2⟩
    · have : (0 : ℝ) < (re : ℝ) := by exact_mod_cast h1
      nlinarith [mul_self_nonneg (im : ℝ)]
    · have : (0 : ℝ) < (im : ℝ) := by exact_mod_cast h2
      nlinarith [mul_self_nonneg (re : ℝ)]
  have hsq : ‖(⟨(re : ℝ), (im : ℝ)⟩ : ℂ)‖ ^ 2 = (re : ℝ) * (re : ℝ) + (im : ℝ) * (im : ℝ) := by
    rw [Complex.sq_norm, Complex.normSq_mk]
  have hn0 : 0 ≤ ‖(⟨(re : ℝ), (im : ℝ)⟩ : ℂ)‖ := norm_nonneg _
  apply complex_pos _ τ _ _ hτ
  · by_contra hc
    have : ‖(⟨(re : ℝ), (im : ℝ)⟩ : ℂ)‖ = 0 := le_antisymm (not_lt.mp hc) hn0
    rw [this] at hsq
    nlinarith
  · by_contra hc
    have : 1 ≤ ‖(⟨(re : ℝ), (im : ℝ)⟩ : ℂ)‖ := not_lt.mp hc
    nlinarith

/-! ### 5. the oracle, unfolded -/

/-- Where NaN is required the oracle accepts exactly NaN (`none`). -/
theorem entryOk_nan (obs ref : Option Rat) : entryOk .nan obs ref = true ↔ obs = none :=
  entryOk_nan_iff obs ref

/-- Where a positive value is required the oracle accepts exactly a positive number `t` for which the harness has a
reference value `r = -τ / ln λ` with `|t - r| ≤ (|r| + 1)·10⁻⁹`. -/
theorem entryOk_pos (obs ref : Option Rat) :
    entryOk .pos obs ref = true ↔
      ∃ t r, obs = some t ∧ ref = some r ∧ 0 < t ∧ |t - r| ≤ (|r| + 1) / 1000000000 :=
  entryOk_pos_iff obs ref

/-- Where "positive or NaN" is required the oracle accepts NaN and every positive number, nothing else. -/
theorem entryOk_posOrNan (obs ref : Option Rat) :
    entryOk .posOrNan obs ref = true ↔ obs = none ∨ ∃ t, obs = some t ∧ 0 < t :=
  entryOk_posOrNan_iff obs ref

example : entryOk .pos (some (1443 / 1000)) (some (1442695 / 1000000)) = false := by decide +kernel
example : entryOk .pos (some (1442695041 / 1000000000)) (some (1442695040 / 1000000000)) = true := by decide +kernel

/-! ### 6. number of timescales -/

/-- For `n ≥ 1` states the default number of implied timescales, `n - 1`, together with the stationary eigenvalue
accounts for all `n` eigenvalues. -/
theorem default_count (n : Nat) (hn : 1 ≤ n) : (n - 1) + 1 = n := by omega

end MsmVerif.C10
