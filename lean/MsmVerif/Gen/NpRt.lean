/-
Gen/NpRt.lean — the (hand-written, trusted) numpy runtime the TRANSLATED vectorised functions are expressed in.

`harness/py2lean.py` (array dialect) turns the numpy-vectorised, loop-free functions of `/repo/src/msmhelper`
(`utils/tests.py`, `msm.row_normalize_matrix`, `plot._ck_test._split_array`, `msm.tests._calc_times`,
`LumpedStateTraj._estimate_markov_model`) into Lean `do`-blocks over the functions below; this file fixes what a numpy
primitive means.  Everything is total and executable.

Semantics fixed here (validated against numpy by the translator-validation stream of the checks):
* a 1-d array is a `List`, a 2-d array a `List (List _)` which is rectangular by precondition (`npRect`); `np.atleast_2d`
  is the identity on it; `shape = (len, len of the first row)`;
* floats are exact rationals: `+ - * /`, comparison, `abs`, `sum` are exact; `x / 0` is `0` (numpy: `inf`/`nan` with a
  warning, never an exception) — every translated division is guarded in the source, the refinement theorems show the
  guard makes the divisor non-zero;
* element-wise binary operations follow numpy broadcasting for 1-d/1-d (`npBroadcast1`), 2-d/2-d (`npBroadcast2`),
  column/row (`npOuter`), 2-d/column (`npMatCol`); incompatible shapes are a `ValueError`;
* truthiness of a number is `≠ 0`; `.all()` is conjunction; `sum` of booleans counts;
* `np.linalg.matrix_power` is repeated squaring of exact products (`LinAlgError` → `Err.other` for non-square input or a
  negative power); `np.linalg.inv` is exact Gauss–Jordan (`LinAlgError` → `Err.other` for singular / non-square input);
* boolean-mask reads/writes need a mask of the array's length (`IndexError` otherwise); `np.split` slices like Python.
-/
import MsmVerif.Gen.PyRt

namespace MsmVerif.Gen

/-- well-formed 2-d array: all rows have the length of the first one -/
def npRect {α : Type} (m : List (List α)) : Bool :=
  match m with
  | [] => true
  | r :: rs => rs.all (fun s => s.length == r.length)

/-- `shape[0]` of a 2-d array -/
def npShape0 {α : Type} (m : List (List α)) : Int := (m.length : Int)

/-- `shape[1]` of a 2-d array -/
def npShape1 {α : Type} (m : List (List α)) : Int :=
  match m with
  | [] => 0
  | r :: _ => (r.length : Int)

/-- `|x|` -/
def npAbs (x : Rat) : Rat := if x < 0 then -x else x

/-- truthiness of a number -/
def npTruth (x : Rat) : Bool := x != 0

/-- `m.sum(axis=-1)` / `np.sum(m, axis=1)` -/
def npSumAxis1 (m : List (List Rat)) : List Rat := m.map List.sum

/-- column `j` of a 2-d array (missing entries read as `d`; none are missing in a rectangular array) -/
def npCol {α : Type} (d : α) (m : List (List α)) (j : Nat) : List α := m.map (fun r => r.getD j d)

/-- `m.sum(axis=0)` -/
def npSumAxis0 (m : List (List Rat)) : List Rat :=
  (List.range (npShape1 m).toNat).map (fun j => (npCol 0 m j).sum)

/-- `b.sum(axis=-1)` of a boolean 2-d array: number of `True` per row -/
def npCountAxis1 (m : List (List Bool)) : List Int := m.map (fun r => ((r.filter id).length : Int))

/-- `m.T` -/
def npTranspose {α : Type} [Inhabited α] (m : List (List α)) : List (List α) :=
  (List.range (npShape1 m).toNat).map (fun j => npCol default m j)

/-- element-wise `f` on two 1-d arrays with numpy broadcasting -/
def npBroadcast1 {α β γ : Type} (f : α → β → γ) (a : List α) (b : List β) : Py (List γ) :=
  match a, b with
  | [x], _ => .ok (b.map (f x))
  | _, [y] => .ok (a.map (fun x => f x y))
  | _, _ => if a.length = b.length then .ok (List.zipWith f a b) else .error .value

/-- element-wise `f` on two 2-d arrays with numpy broadcasting (rows, then entries) -/
def npBroadcast2 {α β γ : Type} (f : α → β → γ) (a : List (List α)) (b : List (List β)) : Py (List (List γ)) := do
  let rows ← npBroadcast1 (fun r s => npBroadcast1 f r s) a b
  rows.mapM id

/-- `c[:, np.newaxis] ∘ r[np.newaxis, :]` (also column ∘ 1-d array): the full outer table -/
def npOuter {α β γ : Type} (f : α → β → γ) (c : List α) (r : List β) : List (List γ) :=
  c.map (fun x => r.map (f x))

/-- element-wise `f` of a 2-d array with a column `c.reshape(n, 1)` -/
def npMatCol {α β γ : Type} (f : α → β → γ) (m : List (List α)) (c : List β) : Py (List (List γ)) :=
  match m, c with
  | [r], _ => .ok (c.map (fun y => r.map (fun x => f x y)))
  | _, [y] => .ok (m.map (fun r => r.map (fun x => f x y)))
  | _, _ => if m.length = c.length then .ok (List.zipWith (fun r y => r.map (fun x => f x y)) m c) else .error .value

/-- `v.reshape(n, 1)` : a column; `ValueError` unless `n = len(v)` -/
def npReshapeCol {α : Type} (v : List α) (n : Int) : Py (List α) :=
  if (v.length : Int) = n then .ok v else .error .value

/-- `v.all()` -/
def npAll1 (v : List Bool) : Bool := v.all id

/-- `m.all()` -/
def npAll2 (m : List (List Bool)) : Bool := m.all (fun r => r.all id)

/-- `np.max(v)` of a 1-d integer array; `ValueError` for the empty array -/
def npMaxInt (v : List Int) : Py Int :=
  match v with
  | [] => .error .value
  | x :: xs => .ok (xs.foldl max x)

/-- `np.sum(v)` -/
def npSum1 (v : List Rat) : Rat := v.sum

/-- `v[mask]` -/
def npMaskGet {α : Type} (v : List α) (mask : List Bool) : Py (List α) :=
  if v.length = mask.length then .ok ((v.zip mask).filterMap (fun p => if p.2 then some p.1 else none))
  else .error .index

/-- `v[mask] = x` (returns the updated array) -/
def npMaskSet {α : Type} (v : List α) (mask : List Bool) (x : α) : Py (List α) :=
  if v.length = mask.length then .ok (List.zipWith (fun a b => if b then x else a) v mask)
  else .error .index

/-- `v[mask] = w` with an array `w` : the selected positions take the entries of `w` in order; `ValueError` unless `w` has
exactly as many entries as the mask selects (or exactly one, which is broadcast) -/
def npMaskAssign {α : Type} (v : List α) (mask : List Bool) (w : List α) : Py (List α) :=
  if v.length ≠ mask.length then .error .index else
  let k := (mask.filter id).length
  match w with
  | [x] => .ok (List.zipWith (fun a b => if b then x else a) v mask)
  | _ =>
    if w.length ≠ k then .error .value else
    .ok ((v.zip mask).foldl (fun (acc : List α × List α) p =>
            if p.2 then (match acc.2 with | y :: ys => (acc.1 ++ [y], ys) | [] => (acc.1 ++ [p.1], []))
            else (acc.1 ++ [p.1], acc.2)) ([], w)).1

/-- `m[mask] = x` for a 2-d array and a 2-d mask of the same shape -/
def npMaskSet2 {α : Type} (m : List (List α)) (mask : List (List Bool)) (x : α) : Py (List (List α)) :=
  if m.length = mask.length then (List.zipWith (fun r b => npMaskSet r b x) m mask).mapM id
  else .error .index

/-- `m[np.ix_(rmask, cmask)]` -/
def npIx {α : Type} (m : List (List α)) (rmask cmask : List Bool) : Py (List (List α)) := do
  let rows ← npMaskGet m rmask
  rows.mapM (fun r => npMaskGet r cmask)

/-- `m[(is, js)] = x` : pairwise fancy-index assignment -/
def npSetPairs {α : Type} (m : List (List α)) (is js : List Int) (x : α) : Py (List (List α)) :=
  if is.length = js.length then
    (is.zip js).foldlM (fun acc p => pySet2 acc p.1 p.2 x) m
  else .error .index

/-- `np.diag(v)` of a 1-d array -/
def npDiag {α : Type} (zero : α) (v : List α) : List (List α) :=
  (List.range v.length).map (fun i => (List.range v.length).map (fun j => if i = j then v.getD i zero else zero))

/-- `np.ones_like(v)` / `np.zeros_like(v)` -/
def npFullLike {α β : Type} (v : List α) (x : β) : List β := v.map (fun _ => x)

/-- `np.arange(a, b)` -/
def npArange (a b : Int) : List Int := pyRange a b

/-- `np.eye(n)` over ℚ -/
def npEye (n : Nat) : List (List Rat) :=
  (List.range n).map (fun i => (List.range n).map (fun j => if i = j then (1 : Rat) else 0))

def npDot (a b : List Rat) : Rat := (List.zipWith (· * ·) a b).sum

/-- exact matrix product of rectangular arrays with matching inner dimension (unchecked) -/
def npMul (a b : List (List Rat)) : List (List Rat) :=
  let bt := npTranspose b
  a.map (fun row => bt.map (fun col => npDot row col))

/-- `a @ b` / `np.dot` / one step of `np.linalg.multi_dot`; `ValueError` on a shape mismatch -/
def npMatMul (a b : List (List Rat)) : Py (List (List Rat)) :=
  if npShape1 a = npShape0 b then .ok (npMul a b) else .error .value

/-- repeated squaring -/
def npPowNat (m : List (List Rat)) (k : Nat) : List (List Rat) :=
  if h : k = 0 then npEye m.length
  else
    let half := npPowNat m (k / 2)
    let sq := npMul half half
    if k % 2 = 1 then npMul sq m else sq
termination_by k
decreasing_by omega

/-- `np.linalg.matrix_power(m, k)`; `LinAlgError` (→ `Err.other`) for non-square input or `k < 0` -/
def npMatrixPower (m : List (List Rat)) (k : Int) : Py (List (List Rat)) :=
  if npShape0 m ≠ npShape1 m then .error .other
  else if k < 0 then .error .other
  else .ok (npPowNat m k.toNat)

/-- entry with default 0 -/
def npEntry (m : List (List Rat)) (i j : Nat) : Rat := (m.getD i []).getD j 0

/-- one Gauss–Jordan round on the augmented matrix: pivot search in column `c` from row `c` on -/
def npGjStep (aug : List (List Rat)) (c : Nat) : Option (List (List Rat)) :=
  let n := aug.length
  match ((List.range n).filter (fun r => c ≤ r && npEntry aug r c != 0)).head? with
  | none => none
  | some p =>
    let rowP := aug.getD p []
    let rowC := aug.getD c []
    let swapped := (aug.set p rowC).set c rowP
    let piv := rowP.getD c 0
    let normP := rowP.map (· / piv)
    some ((List.range n).map (fun r =>
      if r = c then normP
      else
        let row := swapped.getD r []
        let f := row.getD c 0
        (row.zip normP).map (fun q => q.1 - f * q.2)))

/-- `np.linalg.inv(m)` over ℚ; `LinAlgError` (→ `Err.other`) for singular or non-square input -/
def npInv (m : List (List Rat)) : Py (List (List Rat)) :=
  let n := m.length
  if npShape0 m ≠ npShape1 m then .error .other else
  let aug0 : List (List Rat) := (List.zip m (npEye n)).map (fun p => p.1 ++ p.2)
  match (List.range n).foldl (fun (acc : Option (List (List Rat))) c => acc.bind (fun a => npGjStep a c)) (some aug0) with
  | none => .error .other
  | some a => .ok (a.map (fun row => row.drop n))

/-- `np.split(l, limits)` : `l[0:i₁], l[i₁:i₂], …, l[i_k:]` -/
def npSplit {α : Type} (l : List α) (limits : List Int) : List (List α) :=
  let rec go (prev : Int) : List Int → List (List α)
    | [] => [pySlice l (some prev) none]
    | i :: rest => pySlice l (some prev) (some i) :: go i rest
  go 0 limits

/-- `np.any(b)` of a boolean 2-d array -/
def npAny2 (m : List (List Bool)) : Bool := m.any (fun r => r.any id)

/-- `np.empty_like(m)` / `np.zeros_like(m)` of a 2-d array, filled with `x` (the value of uninitialised memory is never read
in translated code that is proved to overwrite it) -/
def npFullLike2 {α β : Type} (m : List (List α)) (x : β) : List (List β) := m.map (fun r => r.map (fun _ => x))

/-- `v[idx]` for an integer index array (fancy read, python index rules) -/
def npTake {α : Type} (v : List α) (idx : List Int) : Py (List α) := idx.mapM (fun i => pyGet v i)

/-- `np.cumsum(v)` -/
def npCumsum (v : List Rat) : List Rat :=
  (v.foldl (fun (acc : List Rat × Rat) x => (acc.1 ++ [acc.2 + x], acc.2 + x)) ([], 0)).1

/-- `np.cumsum(v)` of an integer array -/
def npCumsumInt (v : List Int) : List Int :=
  (v.foldl (fun (acc : List Int × Int) x => (acc.1 ++ [acc.2 + x], acc.2 + x)) ([], 0)).1

/-- `np.count_nonzero(v)` -/
def npCountNonzero (v : List Rat) : Int := ((v.filter (fun x => x != 0)).length : Int)

/-- `v[::-1]` -/
def npReverse {α : Type} (v : List α) : List α := v.reverse

/-- `m[i] = row` : row assignment; the row must have the row length of `m` (`ValueError` otherwise) -/
def npSetRow {α : Type} (m : List (List α)) (i : Int) (row : List α) : Py (List (List α)) := do
  let old ← pyGet m i
  if old.length = row.length then pySet m i row else .error .value

/-- `m[i, lo:] = x` : constant assignment to the tail of row `i` (slice bounds clamp like Python) -/
def npSetRowFrom {α : Type} (m : List (List α)) (i lo : Int) (x : α) : Py (List (List α)) := do
  let old ← pyGet m i
  let a := pyBound old.length lo
  pySet m i (old.take a ++ (old.drop a).map (fun _ => x))

/-- `m[:, j] = x` : constant assignment to column `j` (`IndexError` if `j` is out of range for the rows) -/
def npSetCol {α : Type} (m : List (List α)) (j : Int) (x : α) : Py (List (List α)) :=
  m.mapM (fun r => pySet r j x)

/-- insertion into an ascending duplicate-free list -/
def npInsertUnique (x : Int) : List Int → List Int
  | [] => [x]
  | y :: ys => if x < y then x :: y :: ys else if x = y then y :: ys else y :: npInsertUnique x ys

/-- `np.unique(v)` of an integer array: ascending distinct values -/
def npUnique (v : List Int) : List Int := v.foldr npInsertUnique []

/-- insertion into an ascending list (duplicates kept) -/
def npInsertSorted (x : Int) : List Int → List Int
  | [] => [x]
  | y :: ys => if x ≤ y then x :: y :: ys else y :: npInsertSorted x ys

/-- `np.sort(v)` of an integer array -/
def npSortInt (v : List Int) : List Int := v.foldr npInsertSorted []

/-- `np.repeat(a, counts)` : `a[i]` repeated `counts[i]` times; `ValueError` for different lengths or a negative count -/
def npRepeat {α : Type} (a : List α) (counts : List Int) : Py (List α) :=
  if a.length ≠ counts.length then .error .value
  else if counts.any (fun c => decide (c < 0)) then .error .value
  else .ok ((a.zip counts).map (fun p => List.replicate p.2.toNat p.1)).flatten

/-- `np.where(b)[0]` : the indices of the `True` entries -/
def npWhere1 (b : List Bool) : List Int :=
  ((List.range b.length).filter (fun i => b.getD i false)).map (fun (i : Nat) => (i : Int))

/-- `d[tuple(k)].append(v)` on a `defaultdict(list)` kept as an insertion-ordered association list -/
def pyGroupAppend (d : List (List Int × List Int)) (k : List Int) (v : Int) : List (List Int × List Int) :=
  if d.any (fun p => p.1 == k) then d.map (fun p => if p.1 == k then (p.1, p.2 ++ [v]) else p) else d ++ [(k, [v])]

/-- `np.convolve(a, v, mode='same')` : the central `max(len a, len v)` entries of the full convolution
`full[k] = Σ_i a[i]·v[k-i]` (starting at offset `(min(len a, len v) - 1) / 2`); `ValueError` for an empty operand -/
def npConvolveSame (a v : List Rat) : Py (List Rat) :=
  if a.length = 0 ∨ v.length = 0 then .error .value else
  let full : List Rat := (List.range (a.length + v.length - 1)).map (fun k =>
    ((List.range a.length).map (fun i => if i ≤ k ∧ k - i < v.length then a.getD i 0 * v.getD (k - i) 0 else 0)).sum)
  let n := max a.length v.length
  let off := (min a.length v.length - 1) / 2
  .ok ((full.drop off).take n)

/-- `np.unique(v, return_counts=True)[1]` : number of occurrences of each distinct value, in ascending order of the values -/
def npUniqueCounts (v : List Int) : List Int := (npUnique v).map (fun x => ((v.filter (fun y => y == x)).length : Int))

/-- `np.min(v)` of an integer array; `ValueError` for the empty array -/
def npMinInt (v : List Int) : Py Int :=
  match v with
  | [] => .error .value
  | x :: xs => .ok (xs.foldl min x)

/-- `astype(np.int32)` of an integer: wrap into the signed 32-bit range -/
def npWrap32 (v : Int) : Int := (v + 2147483648) % 4294967296 - 2147483648

/-- `conv[idx] = vals` : sequential element assignment (later pairs win), python index rules; `ValueError` unless `vals` has one
entry per index (or exactly one, which is broadcast) -/
def npAssignAt {α : Type} (conv : List α) (idx : List Int) (vals : List α) : Py (List α) :=
  match vals with
  | [x] => idx.foldlM (fun acc i => pySet acc i x) conv
  | _ =>
    if idx.length ≠ vals.length then .error .value
    else (idx.zip vals).foldlM (fun acc p => pySet acc p.1 p.2) conv

/-- `_flatten_data` for a list of 1-d arrays: the concatenation and the cumulative lengths (`kwargs['limits']`) -/
def npFlattenLL (a : List (List Int)) : List Int × List Int :=
  (a.flatten, npCumsumInt (a.map (fun r => (r.length : Int))))

/-- `_unflatten_data` for that form: `np.split(array, limits)[:-1]` -/
def npUnflattenLL (v : List Int) (limits : List Int) : List (List Int) :=
  pySlice (npSplit v limits) none (some (-1))

/-- `array.reshape(data_shape)` back to the 1-d shape recorded by `_flatten_data`; `ValueError` if the size changed -/
def npReshape1 {α : Type} (v : List α) (shape : List Int) : Py (List α) :=
  if shape = [(v.length : Int)] then .ok v else .error .value

/-- `np.diagonal(m)` -/
def npDiagonal (m : List (List Rat)) : List Rat :=
  (List.range (min m.length (npShape1 m).toNat)).map (fun i => npEntry m i i)

/-- `m[:, j] = v` : column assignment with an array; `ValueError` unless `v` has one entry per row (or exactly one) -/
def npSetColVec {α : Type} (m : List (List α)) (j : Int) (v : List α) : Py (List (List α)) :=
  match v with
  | [x] => m.mapM (fun r => pySet r j x)
  | _ => if m.length ≠ v.length then .error .value else (m.zip v).mapM (fun p => pySet p.1 j p.2)

/-- `d[k] = v` on a dictionary with integer keys kept as an insertion-ordered association list -/
def pyAssocSet {β : Type} (d : List (Int × β)) (k : Int) (v : β) : List (Int × β) :=
  if d.any (fun p => p.1 == k) then d.map (fun p => if p.1 == k then (p.1, v) else p) else d ++ [(k, v)]

/-- `np.floor(x)` as an integer -/
def npFloor (x : Rat) : Int := x.floor

/-- `int(x)` of a float: truncation toward zero -/
def pyIntTrunc (x : Rat) : Int := if 0 ≤ x then x.floor else -((-x).floor)

end MsmVerif.Gen

/-! ### complex doubles with NaN (`implied_timescales`, the eigen-solver wrappers of `msm/utils/linalg.py`) -/

/-- a complex double, or NaN (`none`); a real number is `(re, 0)`.  Exact rationals stand for the doubles. -/
abbrev Cx := Option (Rat × Rat)

def cxNan : Cx := none

def cxOfRat (r : Rat) : Cx := some (r, 0)

/-- numpy orders complex numbers lexicographically (real part first); every comparison with NaN is false -/
def cxLt (a b : Cx) : Bool :=
  match a, b with
  | some (ar, ai), some (br, bi) => decide (ar < br ∨ (ar = br ∧ ai < bi))
  | _, _ => false

def cxLe (a b : Cx) : Bool :=
  match a, b with
  | some (ar, ai), some (br, bi) => decide (ar < br ∨ (ar = br ∧ ai ≤ bi))
  | _, _ => false

def cxGt (a b : Cx) : Bool := cxLt b a

def cxGe (a b : Cx) : Bool := cxLe b a

/-- `np.real` (NaN stays NaN) -/
def cxReal (a : Cx) : Cx := a.map (fun z => (z.1, 0))

/-- one entry of `np.ma.divide(a, z).filled(nan)` for a real `a`: the exact complex quotient; masked — hence NaN after `filled` — where the divisor is
NaN (the quotient is not finite) or zero (outside the domain of the division) -/
def cxDivReal (a : Rat) (z : Cx) : Cx :=
  match z with
  | some (x, y) => if x = 0 ∧ y = 0 then none else some (a * x / (x * x + y * y), -(a * y) / (x * x + y * y))
  | none => none

def npMaDivideFilledNan (a : Rat) (zs : List Cx) : List Cx := zs.map (cxDivReal a)

/-- tolerance of `np.real_if_close` with its default `tol=100`: 100 machine epsilons -/
def npRealIfCloseTol : Rat := 100 / 4503599627370496

def cxImagSmall (z : Cx) : Bool :=
  match z with
  | some (_, y) => decide ((if y < 0 then -y else y) < npRealIfCloseTol)
  | none => false

/-- `np.real_if_close` of a 1-d array: the real parts if ALL imaginary parts are below the tolerance, the array itself otherwise -/
def npRealIfClose1 (zs : List Cx) : List Cx := if zs.all cxImagSmall then zs.map cxReal else zs

def npRealIfClose2 (m : List (List Cx)) : List (List Cx) :=
  if m.all (fun r => r.all cxImagSmall) then m.map (fun r => r.map cxReal) else m

namespace MsmVerif.Gen

/-- `np.zeros((a, b))` with the shape check numpy makes: a negative dimension is a `ValueError` -/
def npZeros2 {α : Type} (a b : Int) (zero : α) : Py (List (List α)) :=
  if a < 0 ∨ b < 0 then .error .value else .ok (pyFull2 a b zero)

end MsmVerif.Gen
