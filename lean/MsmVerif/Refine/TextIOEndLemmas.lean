/-
Refine/TextIOEndLemmas.lean — helper definitions / lemmas for task RP32 (properties C16, C19): the translated `opentxt` plugged into the
reader oracles of `opentxt_limits` / `openmicrostates` (`Gen/IoOpen.lean`).  `col` / `limNat` (column of a parsed table, the limits held by a
parsed limits table), the plugged readers `dataRd1`, `dataRd2`, `limRd`, and the outcome of the split in terms of `TextIO.splitLimits`.
-/
import MsmVerif.Refine.TextIO

namespace MsmVerif.Refine.TextIOEnd
open MsmVerif MsmVerif.Gen MsmVerif.Refine.TextIO

/-- column 0 of a parsed table -/
def col (T : List (List Int)) : List Int := T.map (fun r => r.getD 0 0)

/-- the limits (piece lengths) held by a parsed single-column limits table -/
def limNat (Lm : List (List Int)) : List Nat := Lm.map (fun r => (r.getD 0 0).toNat)

/-- the data reader of `opentxt_limits`, 1-d form := the translated `opentxt` (single-column specialisation); the dtype token is ignored -/
def dataRd1 (parse : Int → Int → Py (List (List Int))) (nn : Int) : Int → Int → Py (List Int) :=
  fun file _dtype => Gen.IoOpen.opentxt_all_1d parse file nn

/-- the data reader, 2-d form := the translated `opentxt` (multi-column specialisation) -/
def dataRd2 (parse : Int → Int → Py (List (List Int))) (nn : Int) : Int → Int → Py (List (List Int)) :=
  fun file _dtype => Gen.IoOpen.opentxt_all_2d parse file nn

/-- the limits-file reader of `open_limits` := the translated `opentxt` (single-column specialisation) -/
def limRd (parse : Int → Int → Py (List (List Int))) (nn : Int) : Int → Py (List Int) :=
  fun file => Gen.IoOpen.opentxt_all_1d parse file nn

/-- the outcome of splitting in terms of the model: `ValueError` for `none` -/
def splitOutcome {α : Type} (lim : List Nat) (rows : List α) : Py (List (List α)) :=
  match TextIO.splitLimits lim rows with
  | none => .error .value
  | some pieces => .ok pieces

theorem limitsOutcome_ne_nil {α : Type} (lim : List Nat) (rows : List α) (h : lim ≠ []) :
    limitsOutcome lim rows = splitOutcome lim rows := by
  unfold limitsOutcome splitOutcome
  rw [if_neg h]
  cases TextIO.splitLimits lim rows <;> rfl

theorem col_limNat (Lm : List (List Int)) (h0 : ∀ r ∈ Lm, 0 ≤ r.getD 0 0) :
    col Lm = (limNat Lm).map Int.ofNat := by
  unfold col limNat
  rw [List.map_map]
  apply List.map_congr_left
  intro r hr
  have := h0 r hr
  simp only [Function.comp_apply, Int.ofNat_eq_natCast]
  omega

theorem limNat_ne_nil (Lm : List (List Int)) (h : Lm ≠ []) : limNat Lm ≠ [] := by
  unfold limNat
  simpa using h

theorem col_length (T : List (List Int)) : (col T).length = T.length := by simp [col]

theorem read1 (parse : Int → Int → Py (List (List Int))) (f nn : Int) (T : List (List Int))
    (hp : parse f nn = .ok T) (hne : T ≠ []) (h1 : ∀ r ∈ T, r.length = 1) :
    Gen.IoOpen.opentxt_all_1d parse f nn = .ok (col T) :=
  (opentxt_all_refines parse f nn T hp).2.2.1 h1 hne

theorem splitOutcome_cases {α : Type} (lim : List Nat) (rows : List α) :
    (∀ pieces, splitOutcome lim rows = .ok pieces ↔ TextIO.splitLimits lim rows = some pieces) ∧
    (∀ pieces, splitOutcome lim rows = .ok pieces → pieces.map List.length = lim ∧ pieces.flatten = rows) ∧
    (splitOutcome lim rows = .error .value ↔ lim.sum ≠ rows.length) ∧
    (lim.sum = rows.length → ∃ pieces, splitOutcome lim rows = .ok pieces) ∧
    (∀ e, splitOutcome lim rows = .error e → e = .value) := by
  have hr := C16.limits_reject lim rows
  unfold splitOutcome
  cases hs : TextIO.splitLimits lim rows with
  | none =>
    have hne := hr.mp hs
    simp [hne]
  | some q =>
    have hne : lim.sum = rows.length := by
      by_cases h : lim.sum = rows.length
      · exact h
      · rw [hr.mpr h] at hs; cases hs
    refine ⟨by simp, ?_, by simp [hne], by simp, by simp⟩
    intro pieces h
    simp only [Except.ok.injEq] at h
    subst h
    exact C16.limits lim rows q hs

end MsmVerif.Refine.TextIOEnd
