import MsmVerif.Model.Events
namespace MsmVerif.Events
open MsmVerif

/-! ### `intersect` -/

theorem intersect_eq_filter (A B : List Int) (hA : A.Pairwise (· < ·)) (hB : B.Pairwise (· < ·)) :
    intersect A B = (A.filter (fun x => B.contains x)).length := by
  fun_induction intersect A B with
  | case1 B => simp
  | case2 A hne =>
    rw [List.filter_eq_nil_iff.mpr (by simp)]; rfl
  | case3 as a bs ih =>
    have hA' := List.pairwise_cons.mp hA
    have hB' := List.pairwise_cons.mp hB
    rw [ih hA'.2 hB'.2]
    have h1 : as.filter (fun x => (a :: bs).contains x) = as.filter (fun x => bs.contains x) := by
      apply List.filter_congr
      intro x hx
      have := hA'.1 x hx
      have h2 : (x == a) = false := by simp; omega
      simp only [List.contains_cons, h2, Bool.false_or]
    rw [List.filter_cons_of_pos (by simp), h1, List.length_cons]
  | case4 a as b bs hab hgt ih =>
    have hB' := List.pairwise_cons.mp hB
    rw [ih hA hB'.2]
    congr 1
    apply List.filter_congr
    intro x hx
    have hax : a ≤ x := by
      rcases List.mem_cons.mp hx with h | h
      · omega
      · have := (List.pairwise_cons.mp hA).1 x h; omega
    have h2 : (x == b) = false := by simp; omega
    simp only [List.contains_cons, h2, Bool.false_or]
  | case5 a as b bs hab hgt ih =>
    have hA' := List.pairwise_cons.mp hA
    rw [ih hA'.2 hB]
    have h2 : ¬ ((b :: bs).contains a = true) := by
      simp only [List.contains_eq_mem, decide_eq_true_eq]
      intro h
      rcases List.mem_cons.mp h with h | h
      · exact hab h
      · have := (List.pairwise_cons.mp hB).1 a h
        omega
    rw [List.filter_cons_of_neg h2]

theorem intersect_eq_zero_iff (A B : List Int) (hA : A.Pairwise (· < ·)) (hB : B.Pairwise (· < ·)) :
    intersect A B = 0 ↔ ∀ x ∈ A, x ∉ B := by
  rw [intersect_eq_filter A B hA hB]
  simp [List.filter_eq_nil_iff]

theorem intersect_eq_length_iff (A B : List Int) (hA : A.Pairwise (· < ·)) (hB : B.Pairwise (· < ·)) :
    intersect A B = A.length ↔ ∀ x ∈ A, x ∈ B := by
  rw [intersect_eq_filter A B hA hB]
  simp [List.length_filter_eq_length_iff]

/-! ### `sortDedup` -/

theorem mem_insertSorted (x y : Int) (l : List Int) : y ∈ insertSorted x l ↔ y = x ∨ y ∈ l := by
  induction l with
  | nil => simp [insertSorted]
  | cons z zs ih =>
    simp only [insertSorted]
    split
    · simp
    · split
      · subst_vars; simp
      · simp [ih]; grind

theorem pairwise_insertSorted (x : Int) (l : List Int) (h : l.Pairwise (· < ·)) :
    (insertSorted x l).Pairwise (· < ·) := by
  induction l with
  | nil => simp [insertSorted]
  | cons z zs ih =>
    have h' := List.pairwise_cons.mp h
    simp only [insertSorted]
    split
    · rename_i hxz
      refine List.pairwise_cons.mpr ⟨?_, h⟩
      intro y hy
      rcases List.mem_cons.mp hy with rfl | hy
      · exact hxz
      · have := h'.1 y hy; omega
    · split
      · exact h
      · refine List.pairwise_cons.mpr ⟨?_, ih h'.2⟩
        intro y hy
        rcases (mem_insertSorted x y zs).mp hy with rfl | hy
        · omega
        · exact h'.1 y hy

theorem pairwise_sortDedup (l : List Int) : (sortDedup l).Pairwise (· < ·) := by
  induction l with
  | nil => simp [sortDedup]
  | cons x xs ih => exact pairwise_insertSorted x _ ih

theorem mem_sortDedup (l : List Int) (y : Int) : y ∈ sortDedup l ↔ y ∈ l := by
  induction l with
  | nil => simp [sortDedup]
  | cons x xs ih =>
    show y ∈ insertSorted x (sortDedup xs) ↔ _
    rw [mem_insertSorted, ih]; simp

theorem pairwise_states (ts : Trajs) : (states ts).Pairwise (· < ·) := pairwise_sortDedup _

theorem mem_states (ts : Trajs) (y : Int) : y ∈ states ts ↔ y ∈ ts.flatten := mem_sortDedup _ _

end MsmVerif.Events
