/-
Refine/Eigen.lean — task RP23 (property C10, third sentence): the eigen-solver wrappers TRANSLATED from
`src/msmhelper/msm/utils/linalg.py` (`Gen.MsmLinalg.eigenvectors_n` / `eigenvectors_all` = `_eigenvectors` for an integer `nvals` / for
`nvals=None`; `eigenvalues_*`, `left_eigenvectors_*`, `right_eigenvectors_*`, `left_eigenvalues_*`, `right_eigenvalues_*`) meet the
eigenpair / ordering contract, relative to explicit contracts of the two oracles `np.linalg.eig` and `ndarray.argsort`.

Definitions (in `Refine/EigenLemmas.lean`):
* `C = Rat × Rat`, `cadd`, `cmul`, `cofRat`, `csum`; `rowDot row v = Σ_j row[j]·v[j]`, `colDot M j v = Σ_i v[i]·M[i][j]`;
* `IsRightEigenpair M λ v` : `len v = len M`, `v ≠ 0`, `∀ i, Σ_j M[i][j]·v[j] = λ·v[i]`; `IsLeftEigenpair M λ v` : … `∀ j, Σ_i v[i]·M[i][j] = λ·v[j]`;
  `CxRightEigenpair` / `CxLeftEigenpair` : the same for runtime values (`Cx` = complex double or NaN): additionally no NaN anywhere;
* `EigOk M w V` : the output contract of `np.linalg.eig(M)`: `len w = n`, `V` is `n × n`, column `j` of `V` with `w[j]` is a right eigenpair;
  `EigContractAt eig M := ∃ w V, eig M = .ok (w, V) ∧ EigOk M w V`; `EigContract eig` : that for every non-empty square `M`
  (remark, not machine-checked: unsatisfiable over exact rationals — `[[0,1],[2,0]]` has the eigenvalues `±√2` — hence the theorems assume
  `EigContractAt eig M` for the matrix at hand only);
* `ArgsortOk l p` : `p ≥ 0`, `p` is a permutation of `range (len l)`, `l[p]` is ascending w.r.t. `cxLe`; `ArgsortContractAt`, `ArgsortContract`
  (satisfiable: `refArgsort_contract`);
* `sortedVals w p = w[p[::-1]]`, `sortedVecs V p = V.T[p[::-1]]`, `eigResult w V p k = (real_if_close(sortedVals[:k]), real_if_close(sortedVecs[:k]))`;
* `Accepted eig argsort M n w V p` : `M` is `n × n`, `2 ≤ n`, `eig M = .ok (w, V)`, `EigOk M w V`, `argsort w = .ok p`, `ArgsortOk w p`.

Findings (all proved / exhibited below):
* a `1 × 1` matrix is REJECTED with `TypeError` (`is_quadratic` says `False` for shape `(1, 1)`): `eigenvectors_n_one_by_one`;
* a NEGATIVE `nvals` is not rejected: python slicing `[:nvals]` drops the `|nvals|` smallest eigenvalues: `eigenvectors_n_negative`;
* `np.real_if_close` is applied to the values and to the vectors INDEPENDENTLY, and to the whole array at once: if all selected eigenvalues
  have imaginary parts below 100 machine epsilons (not all zero) the returned values are their real parts although the returned vectors may stay
  complex; the returned pair is then NOT an eigenpair (`truncation_counterexample`); in general the eigenpair property holds only up to
  that truncation (`eigenvectors_n_eigenpair_trunc`).
-/
import MsmVerif.Refine.EigenLemmas
import Batteries.Lean.Except

namespace MsmVerif.Refine.Eigen
open MsmVerif MsmVerif.Gen MsmVerif.Gen.MsmLinalg

variable {eig : List (List Rat) → Py (List Cx × List (List Cx))} {argsort : List Cx → Py (List Int)}
  {M : List (List Rat)} {n : Nat} {w : List Cx} {V : List (List Cx)} {p : List Int} {nvals : Int}


/-! ### concrete oracles (non-vacuity) -/

/-- an oracle given by a finite table (any other query raises) -/
def tblOracle {α β : Type} [DecidableEq α] (t : List (α × β)) (x : α) : Py β :=
  match t.find? (fun q => decide (q.1 = x)) with
  | some q => .ok q.2
  | none => .error .other

def cx (a b : Rat) : Cx := some (a, b)
def re (a : Rat) : Cx := some (a, 0)

def eps : Rat := 1 / 1125899906842624   -- 2^-50 < 100·2^-52

def M1 : List (List Rat) := [[3/4, 1/4], [1/2, 1/2]]
def M2 : List (List Rat) := [[0, 1], [1, 0]]
def M3 : List (List Rat) := [[0, -1], [1, 0]]
def M4 : List (List Rat) := [[1, -eps], [eps, 1]]

/-- a table of correct LAPACK-style answers -/
def exEig : List (List Rat) → Py (List Cx × List (List Cx)) := tblOracle [
  (M1, ([re (1/4), re 1], [[re 1, re 1], [re (-2), re 1]])),
  (npTranspose M1, ([re (1/4), re 1], [[re 1, re 2], [re (-1), re 1]])),
  (M2, ([re 1, re (-1)], [[re 1, re 1], [re 1, re (-1)]])),
  (M3, ([cx 0 1, cx 0 (-1)], [[re 1, re 1], [cx 0 (-1), cx 0 1]])),
  (npTranspose M3, ([cx 0 1, cx 0 (-1)], [[re 1, re 1], [cx 0 1, cx 0 (-1)]])),
  (M4, ([cx 1 eps, cx 1 (-eps)], [[re 1, re 1], [cx 0 (-1), cx 0 1]]))]

def exArgsort : List Cx → Py (List Int) := tblOracle [
  ([re (1/4), re 1], [0, 1]),
  ([re 1, re (-1)], [1, 0]),
  ([cx 0 1, cx 0 (-1)], [1, 0]),
  ([cx 1 eps, cx 1 (-eps)], [1, 0])]

/-- the hypotheses of the theorems below are satisfiable: `[[3/4,1/4],[1/2,1/2]]`, eigenvalues `1/4, 1` (returned by the solver in this order) -/
theorem accepted_M1 : Accepted exEig exArgsort M1 2 [re (1/4), re 1] [[re 1, re 1], [re (-2), re 1]] [0, 1] :=
  ⟨by decide +kernel, by decide, by decide +kernel, by decide +kernel, by decide +kernel, by decide +kernel⟩

/-- `[[0,1],[1,0]]`, eigenvalues `1, -1` -/
theorem accepted_M2 : Accepted exEig exArgsort M2 2 [re 1, re (-1)] [[re 1, re 1], [re 1, re (-1)]] [1, 0] :=
  ⟨by decide +kernel, by decide, by decide +kernel, by decide +kernel, by decide +kernel, by decide +kernel⟩

/-- the rotation `[[0,-1],[1,0]]`, eigenvalues `±i`, eigenvectors `(1, ∓i)` -/
theorem accepted_M3 : Accepted exEig exArgsort M3 2 [cx 0 1, cx 0 (-1)] [[re 1, re 1], [cx 0 (-1), cx 0 1]] [1, 0] :=
  ⟨by decide +kernel, by decide, by decide +kernel, by decide +kernel, by decide +kernel, by decide +kernel⟩

/-- the transposes (for the left versions) -/
theorem accepted_M1T : Accepted exEig exArgsort (npTranspose M1) 2 [re (1/4), re 1] [[re 1, re 2], [re (-1), re 1]] [0, 1] :=
  ⟨by decide +kernel, by decide, by decide +kernel, by decide +kernel, by decide +kernel, by decide +kernel⟩

theorem accepted_M3T : Accepted exEig exArgsort (npTranspose M3) 2 [cx 0 1, cx 0 (-1)] [[re 1, re 1], [cx 0 1, cx 0 (-1)]] [1, 0] :=
  ⟨by decide +kernel, by decide, by decide +kernel, by decide +kernel, by decide +kernel, by decide +kernel⟩

/-- `[[1,-ε],[ε,1]]` with `ε = 2^-50`: eigenvalues `1 ± iε`, eigenvectors `(1, ∓i)` -/
theorem accepted_M4 : Accepted exEig exArgsort M4 2 [cx 1 eps, cx 1 (-eps)] [[re 1, re 1], [cx 0 (-1), cx 0 1]] [1, 0] :=
  ⟨by decide +kernel, by decide, by decide +kernel, by decide +kernel, by decide +kernel, by decide +kernel⟩


/-! ### rejections -/

/-- `_eigenvectors(M, nvals)`: if the 2-d array `M` is not "quadratic" (its shape is not `(n, n)`, or it is `(1, 1)`) the result is a
    `TypeError`, whatever the oracles are (they are not consulted) -/
theorem eigenvectors_n_not_quadratic (M : List (List Rat)) (nvals : Int)
    (h : ¬ (npShape0 M = npShape1 M ∧ npShape0 M ≠ 1))
    (eig : List (List Rat) → Py (List Cx × List (List Cx))) (argsort : List Cx → Py (List Int)) :
    eigenvectors_n eig argsort M nvals = .error Err.type := by
  have hd : decide (npShape0 M = npShape1 M ∧ npShape0 M ≠ 1) = false := decide_eq_false h
  unfold eigenvectors_n
  simp [is_quadratic_eq, hd, bind, Except.bind, throw, throwThe, MonadExceptOf.throw]

/-- in particular every `1 × 1` matrix is rejected (although it has an eigenpair) -/
theorem eigenvectors_n_one_by_one (x : Rat) (nvals : Int)
    (eig : List (List Rat) → Py (List Cx × List (List Cx))) (argsort : List Cx → Py (List Int)) :
    eigenvectors_n eig argsort [[x]] nvals = .error Err.type :=
  eigenvectors_n_not_quadratic _ _ (by simp [npShape0, npShape1]) _ _

/-- `_eigenvectors(M, nvals)` for a quadratic `M` with `nvals > len(M)`: `TypeError`, whatever the oracles are (they are not consulted) -/
theorem eigenvectors_n_too_many (M : List (List Rat)) (nvals : Int)
    (hq : npShape0 M = npShape1 M ∧ npShape0 M ≠ 1) (h : nvals > M.length)
    (eig : List (List Rat) → Py (List Cx × List (List Cx))) (argsort : List Cx → Py (List Int)) :
    eigenvectors_n eig argsort M nvals = .error Err.type := by
  have hd : decide (npShape0 M = npShape1 M ∧ npShape0 M ≠ 1) = true := decide_eq_true hq
  have hn' : nvals > pyLen M := by simpa [pyLen] using h
  unfold eigenvectors_n
  simp [is_quadratic_eq, hd, hn', bind, Except.bind, throw, throwThe, MonadExceptOf.throw]

-- non-vacuity: a 2 × 3 table, a 1 × 1 table, 3 values of a 2 × 2 matrix (the oracles would raise `Other` if they were consulted)
example : eigenvectors_n (fun _ => .error .other) (fun _ => .error .other) [[1, 2, 3], [4, 5, 6]] 1 = .error Err.type := by decide +kernel
example : eigenvectors_n (fun _ => .error .other) (fun _ => .error .other) [[1]] 1 = .error Err.type := by decide +kernel
example : eigenvectors_n (fun _ => .error .other) (fun _ => .error .other) [[0, 1], [1, 0]] 3 = .error Err.type := by decide +kernel
example : eigenvectors_n (fun _ => .error .other) (fun _ => .error .other) [[0, 1], [1, 0]] 2 = .error Err.other := by decide +kernel

/-! ### the accepted case -/

/-- accepted (`M` is `n × n`, `n ≥ 2`, `nvals ≤ n` — possibly negative —, both oracles meet their contracts): no exception, and the result is
    `real_if_close` of the python slices `[:nvals]` of the eigenvalues in descending order / of the corresponding COLUMNS of `V` (as rows) -/
theorem eigenvectors_n_refines_slice (h : Accepted eig argsort M n w V p) (hn : nvals ≤ n) :
    eigenvectors_n eig argsort M nvals =
      .ok (npRealIfClose1 (pySlice (sortedVals w p) none (some nvals)),
           npRealIfClose2 (pySlice (sortedVecs V p) none (some nvals))) :=
  eigenvectors_n_run eig argsort M nvals w V p (quadratic_of_square h.sq h.two) (by rw [h.sq.1]; exact hn) h.heig h.hsort
    (argsort_range h.sortOk) (by rw [npShape1_of_square h.eigOk.2.1 (by have := h.two; have := h.sq.1; omega), h.eigOk.1])

/-- accepted, `0 ≤ nvals ≤ n`: the result is `.ok (vals, vecs)` with `vals = real_if_close (the nvals largest eigenvalues, descending)`,
    `vecs = real_if_close (the corresponding columns of V, as rows)` -/
theorem eigenvectors_n_refines (h : Accepted eig argsort M n w V p) (h0 : 0 ≤ nvals) (hn : nvals ≤ n) :
    eigenvectors_n eig argsort M nvals = .ok (eigResult w V p nvals.toNat) := by
  rw [eigenvectors_n_refines_slice h hn, pySlice_take _ _ h0, pySlice_take _ _ h0]; rfl

-- non-vacuity / instances (concrete oracles above): `nvals = 2, 1, 0`
example : eigenvectors_n exEig exArgsort M1 2 = .ok (eigResult [re (1/4), re 1] [[re 1, re 1], [re (-2), re 1]] [0, 1] 2) :=
  eigenvectors_n_refines accepted_M1 (by decide) (by decide)
example : eigenvectors_n exEig exArgsort M1 2 = .ok ([re 1, re (1/4)], [[re 1, re 1], [re 1, re (-2)]]) := by decide +kernel
example : eigenvectors_n exEig exArgsort M1 1 = .ok ([re 1], [[re 1, re 1]]) := by decide +kernel
example : eigenvectors_n exEig exArgsort M1 0 = .ok ([], []) := by decide +kernel
example : eigenvectors_n exEig exArgsort M1 (-1) = .ok ([re 1], [[re 1, re 1]]) := by decide +kernel
example : eigenvectors_all exEig exArgsort M1 = .ok ([re 1, re (1/4)], [[re 1, re 1], [re 1, re (-2)]]) := by decide +kernel
example : left_eigenvectors_n exEig exArgsort M1 1 = .ok ([re 1], [[re 2, re 1]]) := by decide +kernel
example : CxLeftEigenpair M1 (re 1) [re 2, re 1] := by decide +kernel


/-- the same from the contracts alone: some solver output `(w, V)` and some sorting permutation `p` meeting the contracts determine the result -/
theorem eigenvectors_n_refines_contract (hsq : SquareN M n) (h2 : 2 ≤ n) (he : EigContractAt eig M) (hs : ArgsortContract argsort)
    (h0 : 0 ≤ nvals) (hn : nvals ≤ n) :
    ∃ w V p, Accepted eig argsort M n w V p ∧ eigenvectors_n eig argsort M nvals = .ok (eigResult w V p nvals.toNat) := by
  obtain ⟨w, V, p, h⟩ := accepted_of_contracts hsq h2 he hs
  exact ⟨w, V, p, h, eigenvectors_n_refines h h0 hn⟩

/-- a NEGATIVE `nvals` is not rejected: python's `[:nvals]` drops the `|nvals|` smallest eigenvalues (`n + nvals` remain; none if `nvals ≤ -n`) -/
theorem eigenvectors_n_negative (h : Accepted eig argsort M n w V p) (h0 : nvals < 0) :
    eigenvectors_n eig argsort M nvals = .ok (eigResult w V p (nvals + n).toNat) := by
  rw [eigenvectors_n_refines_slice h (by omega), pySlice_neg _ _ h0, pySlice_neg _ _ h0,
    sortedVals_length h.sortOk, sortedVecs_length V h.sortOk, h.eigOk.1, h.sq.1]; rfl

/-- exactly `nvals` values and `nvals` vectors, each of length `n` -/
theorem eigenvectors_n_length (h : Accepted eig argsort M n w V p) (h0 : 0 ≤ nvals) (hn : nvals ≤ n) :
    ∃ vals vecs, eigenvectors_n eig argsort M nvals = .ok (vals, vecs) ∧
      vals.length = nvals.toNat ∧ vecs.length = nvals.toNat ∧ ∀ v ∈ vecs, v.length = n := by
  have hw : w.length = n := h.eigOk.1.trans h.sq.1
  refine ⟨_, _, eigenvectors_n_refines h h0 hn, ?_, ?_, ?_⟩
  · rw [npRealIfClose1_length, List.length_take, sortedVals_length h.sortOk, hw]; omega
  · rw [npRealIfClose2_length, List.length_take, sortedVecs_length V h.sortOk, hw]; omega
  · apply npRealIfClose2_row_length
    intro r hr
    have hr' : r ∈ sortedVecs V p := List.mem_of_mem_take hr
    simp only [sortedVecs, List.mem_map] at hr'
    obtain ⟨i, _, rfl⟩ := hr'
    simp [npCol, h.eigOk.2.1.1, h.sq.1]

/-- the returned values are DESCENDING in numpy's lexicographic order of complex numbers: `vals[i] ≥ vals[j]` for all `i < j`
    (also after `real_if_close`, which keeps the order of the real parts) -/
theorem eigenvectors_n_descending (h : Accepted eig argsort M n w V p) (h0 : 0 ≤ nvals) (hn : nvals ≤ n) :
    ∃ vals vecs, eigenvectors_n eig argsort M nvals = .ok (vals, vecs) ∧ vals.Pairwise (fun a b => cxGe a b = true) :=
  ⟨_, _, eigenvectors_n_refines h h0 hn,
    npRealIfClose1_descending ((sortedVals_descending h.sortOk).sublist (List.take_sublist _ _))⟩

/-- the same between consecutive entries -/
theorem eigenvectors_n_descending_consecutive (h : Accepted eig argsort M n w V p) (h0 : 0 ≤ nvals) (hn : nvals ≤ n) :
    ∃ vals vecs, eigenvectors_n eig argsort M nvals = .ok (vals, vecs) ∧
      ∀ k, k + 1 < vals.length → cxGe (vals.getD k none) (vals.getD (k + 1) none) = true := by
  obtain ⟨vals, vecs, h1, h2⟩ := eigenvectors_n_descending h h0 hn
  refine ⟨vals, vecs, h1, fun k hk => ?_⟩
  have := List.pairwise_iff_getElem.1 h2 k (k + 1) (by omega) hk (by omega)
  simpa [List.getD_eq_getElem?_getD, List.getElem?_eq_getElem hk, List.getElem?_eq_getElem (show k < vals.length by omega)] using this

/-- the returned values are a sub-multiset of the solver's eigenvalues (a prefix of a permutation `u` of `w`), up to `cxReal` when
    `real_if_close` fires (all their imaginary parts are below the tolerance) -/
theorem eigenvectors_n_submultiset (h : Accepted eig argsort M n w V p) (h0 : 0 ≤ nvals) (hn : nvals ≤ n) :
    ∃ vals vecs, ∃ u : List Cx, eigenvectors_n eig argsort M nvals = .ok (vals, vecs) ∧ u.Perm w ∧
      (vals = u.take nvals.toNat ∨
        ((∀ z ∈ u.take nvals.toNat, cxImagSmall z = true) ∧ vals = (u.take nvals.toNat).map cxReal)) :=
  ⟨_, _, sortedVals w p, eigenvectors_n_refines h h0 hn, sortedVals_perm h.sortOk, npRealIfClose1_cases _⟩

/-- the LARGEST eigenvalue comes first: `vals[0]` is (the real part of, if `real_if_close` fires) an eigenvalue `λ ∈ w` with `λ ≥ z` for every `z ∈ w` -/
theorem eigenvectors_n_largest_first (h : Accepted eig argsort M n w V p) (h0 : 0 < nvals) (hn : nvals ≤ n) :
    ∃ vals vecs lam, eigenvectors_n eig argsort M nvals = .ok (vals, vecs) ∧ lam ∈ w ∧ (∀ z ∈ w, cxGe lam z = true) ∧
      (vals.getD 0 none = lam ∨ (cxImagSmall lam = true ∧ vals.getD 0 none = cxReal lam)) := by
  have hw : w.length = n := h.eigOk.1.trans h.sq.1
  have hlen : 0 < (sortedVals w p).length := by rw [sortedVals_length h.sortOk, hw]; omega
  have hk : 0 < nvals.toNat := by omega
  have hlen' : 0 < ((sortedVals w p).take nvals.toNat).length := by rw [List.length_take]; omega
  refine ⟨_, _, (sortedVals w p).getD 0 none, eigenvectors_n_refines h (by omega) hn,
    (sortedVals_perm h.sortOk).mem_iff.1 (getD_mem _ 0 none hlen),
    sortedVals_head_max h.sortOk (eigOk_nanfree h.eigOk), ?_⟩
  rcases npRealIfClose1_cases ((sortedVals w p).take nvals.toNat) with h' | ⟨hs, h'⟩ <;> rw [h']
  · left; exact getD_take _ _ _ _ hk
  · right
    rw [getD_map cxReal _ 0 none none hlen', getD_take _ _ _ _ hk]
    exact ⟨by have := hs _ (getD_mem _ 0 none hlen'); rwa [getD_take _ _ _ _ hk] at this, rfl⟩

/-- eigenpairs, in general (whether or not `real_if_close` truncates): for every `k < nvals` there is a right eigenpair `(λ, v)` of `M` such
    that `vals[k]` is `λ` — or its real part, only if `|Im λ|` is below the tolerance — and `vecs[k]` is `v` — or its entry-wise real part, only
    if all `|Im v[i]|` are below the tolerance.  So the eigenpair property holds up to the truncation by `real_if_close`. -/
theorem eigenvectors_n_eigenpair_trunc (h : Accepted eig argsort M n w V p) (h0 : 0 ≤ nvals) (hn : nvals ≤ n) :
    ∃ vals vecs, eigenvectors_n eig argsort M nvals = .ok (vals, vecs) ∧
      ∀ k, k < nvals.toNat → ∃ lam v, CxRightEigenpair M lam v ∧
        (vals.getD k none = lam ∨ (cxImagSmall lam = true ∧ vals.getD k none = cxReal lam)) ∧
        (vecs.getD k [] = v ∨ ((∀ z ∈ v, cxImagSmall z = true) ∧ vecs.getD k [] = v.map cxReal)) := by
  have hw : w.length = n := h.eigOk.1.trans h.sq.1
  refine ⟨_, _, eigenvectors_n_refines h h0 hn, fun k hk => ?_⟩
  have hkn : k < M.length := by rw [h.sq.1]; omega
  have hl1 : k < ((sortedVals w p).take nvals.toNat).length := by
    rw [List.length_take, sortedVals_length h.sortOk, hw]; omega
  have hl2 : k < ((sortedVecs V p).take nvals.toNat).length := by
    rw [List.length_take, sortedVecs_length V h.sortOk, hw]; omega
  refine ⟨(sortedVals w p).getD k none, (sortedVecs V p).getD k [], sorted_eigenpair h.eigOk h.sortOk hkn, ?_, ?_⟩
  · rcases npRealIfClose1_cases ((sortedVals w p).take nvals.toNat) with h' | ⟨hs, h'⟩ <;> rw [h']
    · left; exact getD_take _ _ _ _ hk
    · right
      rw [getD_map cxReal _ k none none hl1, getD_take _ _ _ _ hk]
      exact ⟨by have := hs _ (getD_mem _ k none hl1); rwa [getD_take _ _ _ _ hk] at this, rfl⟩
  · rcases npRealIfClose2_cases ((sortedVecs V p).take nvals.toNat) with h' | ⟨hs, h'⟩ <;> rw [h']
    · left; exact getD_take _ _ _ _ hk
    · right
      rw [getD_map (fun r => r.map cxReal) _ k [] [] hl2, getD_take _ _ _ _ hk]
      exact ⟨by have := hs _ (getD_mem _ k [] hl2); rwa [getD_take _ _ _ _ hk] at this, rfl⟩

/-- eigenpairs: when `real_if_close` is the identity on both selected arrays (by `npRealIfClose1_id_iff` / `npRealIfClose2_id_iff`: all
    imaginary parts are `0`, or one of them reaches the tolerance) then `(vals[k], vecs[k])` is a right eigenpair of `M` for every `k < nvals` -/
theorem eigenvectors_n_eigenpair (h : Accepted eig argsort M n w V p) (h0 : 0 ≤ nvals) (hn : nvals ≤ n)
    (hid1 : npRealIfClose1 ((sortedVals w p).take nvals.toNat) = (sortedVals w p).take nvals.toNat)
    (hid2 : npRealIfClose2 ((sortedVecs V p).take nvals.toNat) = (sortedVecs V p).take nvals.toNat) :
    ∃ vals vecs, eigenvectors_n eig argsort M nvals = .ok (vals, vecs) ∧
      ∀ k, k < nvals.toNat → CxRightEigenpair M (vals.getD k none) (vecs.getD k []) := by
  refine ⟨_, _, eigenvectors_n_refines h h0 hn, fun k hk => ?_⟩
  simp only [hid1, hid2, getD_take _ _ _ _ hk]
  exact sorted_eigenpair h.eigOk h.sortOk (by rw [h.sq.1]; omega)

-- instances: the stochastic 2 × 2 matrix, the swap, and the rotation by 90° (complex eigenpairs `(±i, (1, ∓i))`)
example : ∃ vals vecs, eigenvectors_n exEig exArgsort M1 2 = .ok (vals, vecs) ∧
    ∀ k, k < 2 → CxRightEigenpair M1 (vals.getD k none) (vecs.getD k []) :=
  eigenvectors_n_eigenpair accepted_M1 (by decide) (by decide) (by decide +kernel) (by decide +kernel)
example : ∃ vals vecs, eigenvectors_n exEig exArgsort M3 2 = .ok (vals, vecs) ∧
    ∀ k, k < 2 → CxRightEigenpair M3 (vals.getD k none) (vecs.getD k []) :=
  eigenvectors_n_eigenpair accepted_M3 (by decide) (by decide) (by decide +kernel) (by decide +kernel)
-- the results on these inputs
example : eigenvectors_n exEig exArgsort M2 2 = .ok ([re 1, re (-1)], [[re 1, re 1], [re 1, re (-1)]]) := by decide +kernel
example : eigenvectors_n exEig exArgsort M3 2 = .ok ([cx 0 1, cx 0 (-1)], [[re 1, cx 0 (-1)], [re 1, cx 0 1]]) := by decide +kernel
example : eigenvectors_n exEig exArgsort M3 1 = .ok ([cx 0 1], [[re 1, cx 0 (-1)]]) := by decide +kernel
example : left_eigenvectors_n exEig exArgsort M3 2 = .ok ([cx 0 1, cx 0 (-1)], [[re 1, cx 0 1], [re 1, cx 0 (-1)]]) := by decide +kernel
example : left_eigenvalues_n exEig exArgsort M1 2 = .ok [re 1, re (1/4)] := by decide +kernel
example : right_eigenvalues_all exEig exArgsort M3 = .ok [cx 0 1, cx 0 (-1)] := by decide +kernel
example : CxRightEigenpair M3 (cx 0 1) [re 1, cx 0 (-1)] ∧ CxLeftEigenpair M3 (cx 0 1) [re 1, cx 0 1] := by decide +kernel
-- `real_if_close` is the identity on these selections (hypotheses `hid1`, `hid2` of `eigenvectors_n_eigenpair`): all imaginary parts 0 / one large
example : npRealIfClose1 ((sortedVals [re (1/4), re 1] [0, 1]).take 2) = (sortedVals [re (1/4), re 1] [0, 1]).take 2 := by decide +kernel
example : npRealIfClose2 ((sortedVecs [[re 1, re 1], [cx 0 (-1), cx 0 1]] [1, 0]).take 2)
    = (sortedVecs [[re 1, re 1], [cx 0 (-1), cx 0 1]] [1, 0]).take 2 := by decide +kernel


/-- TRUNCATION by `real_if_close`: for `[[1,-ε],[ε,1]]` (`ε = 2^-50`, below the tolerance `100·2^-52`) with the exact solver answer
    `1 ± iε`, `(1, ∓i)` the wrapper returns the values `[1, 1]` (the real parts) but the complex vectors `(1, -i), (1, i)` unchanged; the
    returned pair `(1, (1, -i))` is NOT an eigenpair of the matrix, whereas the untruncated `(1 + iε, (1, -i))` is. -/
theorem truncation_counterexample :
    Accepted exEig exArgsort M4 2 [cx 1 eps, cx 1 (-eps)] [[re 1, re 1], [cx 0 (-1), cx 0 1]] [1, 0] ∧
    eigenvectors_n exEig exArgsort M4 2 = .ok ([re 1, re 1], [[re 1, cx 0 (-1)], [re 1, cx 0 1]]) ∧
    ¬ CxRightEigenpair M4 (re 1) [re 1, cx 0 (-1)] ∧
    CxRightEigenpair M4 (cx 1 eps) [re 1, cx 0 (-1)] ∧ cxReal (cx 1 eps) = re 1 :=
  ⟨accepted_M4, by decide +kernel, by decide +kernel, by decide +kernel, by decide +kernel⟩

-- the global contract of `argsort` is satisfiable (merge sort of the indices)
example : ∃ argsort, ArgsortContract argsort := ⟨refArgsort, refArgsort_contract⟩

/-! ### `nvals=None` -/

/-- `nvals=None` is `nvals = len(M)` (for every input and every pair of oracles) -/
theorem eigenvectors_all_eq (eig : List (List Rat) → Py (List Cx × List (List Cx))) (argsort : List Cx → Py (List Int))
    (M : List (List Rat)) :
    eigenvectors_all eig argsort M = eigenvectors_n eig argsort M (pyLen M) := by
  unfold eigenvectors_all eigenvectors_n
  simp

/-- hence in the accepted case all `n` eigenvalues (a permutation of the solver's, up to `real_if_close`) and all `n` eigenvectors are returned -/
theorem eigenvectors_all_refines (h : Accepted eig argsort M n w V p) :
    eigenvectors_all eig argsort M = .ok (eigResult w V p n) := by
  rw [eigenvectors_all_eq, eigenvectors_n_refines h (by simp [pyLen]) (by simp [pyLen, h.sq.1])]
  simp [pyLen, h.sq.1]

/-- with `nvals=None` the values are a PERMUTATION of the solver's eigenvalues, or of their real parts when `real_if_close` fires -/
theorem eigenvectors_all_perm (h : Accepted eig argsort M n w V p) :
    ∃ vals vecs, eigenvectors_all eig argsort M = .ok (vals, vecs) ∧
      (vals.Perm w ∨ ((∀ z ∈ w, cxImagSmall z = true) ∧ vals.Perm (w.map cxReal))) := by
  have hw : w.length = n := h.eigOk.1.trans h.sq.1
  have ht : (sortedVals w p).take n = sortedVals w p := List.take_of_length_le (by rw [sortedVals_length h.sortOk, hw]; omega)
  refine ⟨_, _, eigenvectors_all_refines h, ?_⟩
  simp only [ht]
  rcases npRealIfClose1_cases (sortedVals w p) with h' | ⟨hs, h'⟩ <;> rw [h']
  · exact Or.inl (sortedVals_perm h.sortOk)
  · exact Or.inr ⟨fun z hz => hs z ((sortedVals_perm h.sortOk).mem_iff.2 hz), (sortedVals_perm h.sortOk).map _⟩

/-- eigenpairs with `nvals=None`: when `real_if_close` is the identity on the sorted arrays, all `n` returned pairs are right eigenpairs of `M` -/
theorem eigenvectors_all_eigenpair (h : Accepted eig argsort M n w V p)
    (hid1 : npRealIfClose1 (sortedVals w p) = sortedVals w p) (hid2 : npRealIfClose2 (sortedVecs V p) = sortedVecs V p) :
    ∃ vals vecs, eigenvectors_all eig argsort M = .ok (vals, vecs) ∧
      ∀ k, k < n → CxRightEigenpair M (vals.getD k none) (vecs.getD k []) := by
  have hw : w.length = n := h.eigOk.1.trans h.sq.1
  have hk : (pyLen M).toNat = n := by simp [pyLen, h.sq.1]
  have ht1 : (sortedVals w p).take (pyLen M).toNat = sortedVals w p :=
    List.take_of_length_le (by rw [sortedVals_length h.sortOk, hw, hk]; omega)
  have ht2 : (sortedVecs V p).take (pyLen M).toNat = sortedVecs V p :=
    List.take_of_length_le (by rw [sortedVecs_length V h.sortOk, hw, hk]; omega)
  obtain ⟨vals, vecs, h1, h2⟩ := eigenvectors_n_eigenpair (nvals := pyLen M) h (by simp [pyLen]) (by simp [pyLen, h.sq.1])
    (by rw [ht1]; exact hid1) (by rw [ht2]; exact hid2)
  exact ⟨vals, vecs, by rw [eigenvectors_all_eq, h1], fun k hk' => h2 k (by omega)⟩

/-! ### the public wrappers -/

/-- `right_eigenvectors(M, nvals)` is `_eigenvectors(M, nvals)` -/
theorem right_eigenvectors_n_eq (eig : List (List Rat) → Py (List Cx × List (List Cx))) (argsort : List Cx → Py (List Int))
    (M : List (List Rat)) (nvals : Int) :
    right_eigenvectors_n eig argsort M nvals = eigenvectors_n eig argsort M nvals := by
  simp [right_eigenvectors_n]

theorem right_eigenvectors_all_eq (eig : List (List Rat) → Py (List Cx × List (List Cx))) (argsort : List Cx → Py (List Int))
    (M : List (List Rat)) :
    right_eigenvectors_all eig argsort M = eigenvectors_all eig argsort M := by
  simp [right_eigenvectors_all]

/-- `left_eigenvectors(M, nvals)` is `_eigenvectors(M.T, nvals)` : the left versions are the right versions of the transpose -/
theorem left_eigenvectors_n_eq (eig : List (List Rat) → Py (List Cx × List (List Cx))) (argsort : List Cx → Py (List Int))
    (M : List (List Rat)) (nvals : Int) :
    left_eigenvectors_n eig argsort M nvals = eigenvectors_n eig argsort (npTranspose M) nvals := by
  simp [left_eigenvectors_n]

theorem left_eigenvectors_all_eq (eig : List (List Rat) → Py (List Cx × List (List Cx))) (argsort : List Cx → Py (List Int))
    (M : List (List Rat)) :
    left_eigenvectors_all eig argsort M = eigenvectors_all eig argsort (npTranspose M) := by
  simp [left_eigenvectors_all]

/-- `left_eigenvectors(M)` (`nvals=None`) is `left_eigenvectors(M, len(M))` when `M` is a non-empty square table -/
theorem left_eigenvectors_all_eq_n (eig : List (List Rat) → Py (List Cx × List (List Cx))) (argsort : List Cx → Py (List Int))
    (hsq : SquareN M n) (hn : 0 < n) :
    left_eigenvectors_all eig argsort M = left_eigenvectors_n eig argsort M (pyLen M) := by
  rw [left_eigenvectors_all_eq, left_eigenvectors_n_eq, eigenvectors_all_eq]
  simp [pyLen, (square_transpose hsq hn).1, hsq.1]

/-- `_eigenvalues` is the first component of `_eigenvectors` -/
theorem eigenvalues_n_eq (eig : List (List Rat) → Py (List Cx × List (List Cx))) (argsort : List Cx → Py (List Int))
    (M : List (List Rat)) (nvals : Int) :
    eigenvalues_n eig argsort M nvals = Prod.fst <$> eigenvectors_n eig argsort M nvals := by
  simp [eigenvalues_n]

theorem eigenvalues_all_eq (eig : List (List Rat) → Py (List Cx × List (List Cx))) (argsort : List Cx → Py (List Int))
    (M : List (List Rat)) :
    eigenvalues_all eig argsort M = Prod.fst <$> eigenvectors_all eig argsort M := by
  simp [eigenvalues_all]

/-- `right_eigenvalues(M, nvals)` is the first component of `right_eigenvectors(M, nvals)` -/
theorem right_eigenvalues_n_eq (eig : List (List Rat) → Py (List Cx × List (List Cx))) (argsort : List Cx → Py (List Int))
    (M : List (List Rat)) (nvals : Int) :
    right_eigenvalues_n eig argsort M nvals = Prod.fst <$> right_eigenvectors_n eig argsort M nvals := by
  simp [right_eigenvalues_n, right_eigenvectors_n, eigenvalues_n]

theorem right_eigenvalues_all_eq (eig : List (List Rat) → Py (List Cx × List (List Cx))) (argsort : List Cx → Py (List Int))
    (M : List (List Rat)) :
    right_eigenvalues_all eig argsort M = Prod.fst <$> right_eigenvectors_all eig argsort M := by
  simp [right_eigenvalues_all, right_eigenvectors_all, eigenvalues_all]

/-- `left_eigenvalues(M, nvals)` is the first component of `left_eigenvectors(M, nvals)` -/
theorem left_eigenvalues_n_eq (eig : List (List Rat) → Py (List Cx × List (List Cx))) (argsort : List Cx → Py (List Int))
    (M : List (List Rat)) (nvals : Int) :
    left_eigenvalues_n eig argsort M nvals = Prod.fst <$> left_eigenvectors_n eig argsort M nvals := by
  simp [left_eigenvalues_n, left_eigenvectors_n, eigenvalues_n]

theorem left_eigenvalues_all_eq (eig : List (List Rat) → Py (List Cx × List (List Cx))) (argsort : List Cx → Py (List Int))
    (M : List (List Rat)) :
    left_eigenvalues_all eig argsort M = Prod.fst <$> left_eigenvectors_all eig argsort M := by
  simp [left_eigenvalues_all, left_eigenvectors_all, eigenvalues_all]

/-- accepted case of `right_eigenvalues(M, nvals)` : the `nvals` largest eigenvalues, descending, after `real_if_close` -/
theorem right_eigenvalues_n_refines (h : Accepted eig argsort M n w V p) (h0 : 0 ≤ nvals) (hn : nvals ≤ n) :
    right_eigenvalues_n eig argsort M nvals = .ok (npRealIfClose1 ((sortedVals w p).take nvals.toNat)) := by
  rw [right_eigenvalues_n_eq, right_eigenvectors_n_eq, eigenvectors_n_refines h h0 hn]; rfl

/-- accepted case of `left_eigenvalues(M, nvals)` (the oracles are consulted on the transpose `M.T`, which has the same eigenvalues) -/
theorem left_eigenvalues_n_refines (h : Accepted eig argsort (npTranspose M) n w V p) (h0 : 0 ≤ nvals) (hn : nvals ≤ n) :
    left_eigenvalues_n eig argsort M nvals = .ok (npRealIfClose1 ((sortedVals w p).take nvals.toNat)) := by
  rw [left_eigenvalues_n_eq, left_eigenvectors_n_eq, eigenvectors_n_refines h h0 hn]; rfl

/-- accepted case of `left_eigenvectors(M, nvals)` -/
theorem left_eigenvectors_n_refines (h : Accepted eig argsort (npTranspose M) n w V p) (h0 : 0 ≤ nvals) (hn : nvals ≤ n) :
    left_eigenvectors_n eig argsort M nvals = .ok (eigResult w V p nvals.toNat) := by
  rw [left_eigenvectors_n_eq, eigenvectors_n_refines h h0 hn]

/-- left eigenpairs: `left_eigenvectors(M, nvals)` returns, when `real_if_close` is the identity on the selection, pairs `(vals[k], vecs[k])` with
    `vecs[k] · M = vals[k] · vecs[k]` (`Σ_i v[i]·M[i][j] = λ·v[j]` for every column `j`), `vecs[k] ≠ 0`, no NaN -/
theorem left_eigenvectors_n_eigenpair (hsq : SquareN M n) (h : Accepted eig argsort (npTranspose M) n w V p)
    (h0 : 0 ≤ nvals) (hn : nvals ≤ n)
    (hid1 : npRealIfClose1 ((sortedVals w p).take nvals.toNat) = (sortedVals w p).take nvals.toNat)
    (hid2 : npRealIfClose2 ((sortedVecs V p).take nvals.toNat) = (sortedVecs V p).take nvals.toNat) :
    ∃ vals vecs, left_eigenvectors_n eig argsort M nvals = .ok (vals, vecs) ∧
      ∀ k, k < nvals.toNat → CxLeftEigenpair M (vals.getD k none) (vecs.getD k []) := by
  obtain ⟨vals, vecs, h1, h2⟩ := eigenvectors_n_eigenpair h h0 hn hid1 hid2
  refine ⟨vals, vecs, by rw [left_eigenvectors_n_eq, h1], fun k hk => ?_⟩
  exact (cx_right_transpose_iff hsq (by have := h.two; omega) _ _).1 (h2 k hk)

/-- left eigenpairs in general: up to the truncation by `real_if_close` (see `eigenvectors_n_eigenpair_trunc`) -/
theorem left_eigenvectors_n_eigenpair_trunc (hsq : SquareN M n) (h : Accepted eig argsort (npTranspose M) n w V p)
    (h0 : 0 ≤ nvals) (hn : nvals ≤ n) :
    ∃ vals vecs, left_eigenvectors_n eig argsort M nvals = .ok (vals, vecs) ∧
      ∀ k, k < nvals.toNat → ∃ lam v, CxLeftEigenpair M lam v ∧
        (vals.getD k none = lam ∨ (cxImagSmall lam = true ∧ vals.getD k none = cxReal lam)) ∧
        (vecs.getD k [] = v ∨ ((∀ z ∈ v, cxImagSmall z = true) ∧ vecs.getD k [] = v.map cxReal)) := by
  obtain ⟨vals, vecs, h1, h2⟩ := eigenvectors_n_eigenpair_trunc h h0 hn
  refine ⟨vals, vecs, by rw [left_eigenvectors_n_eq, h1], fun k hk => ?_⟩
  obtain ⟨lam, v, h3, h4, h5⟩ := h2 k hk
  exact ⟨lam, v, (cx_right_transpose_iff hsq (by have := h.two; omega) _ _).1 h3, h4, h5⟩

/-- accepted case of `left_eigenvectors(M)` (`nvals=None`) -/
theorem left_eigenvectors_all_refines (h : Accepted eig argsort (npTranspose M) n w V p) :
    left_eigenvectors_all eig argsort M = .ok (eigResult w V p n) := by
  rw [left_eigenvectors_all_eq, eigenvectors_all_refines h]

/-- left eigenpairs with `nvals=None` -/
theorem left_eigenvectors_all_eigenpair (hsq : SquareN M n) (h : Accepted eig argsort (npTranspose M) n w V p)
    (hid1 : npRealIfClose1 (sortedVals w p) = sortedVals w p) (hid2 : npRealIfClose2 (sortedVecs V p) = sortedVecs V p) :
    ∃ vals vecs, left_eigenvectors_all eig argsort M = .ok (vals, vecs) ∧
      ∀ k, k < n → CxLeftEigenpair M (vals.getD k none) (vecs.getD k []) := by
  obtain ⟨vals, vecs, h1, h2⟩ := eigenvectors_all_eigenpair h hid1 hid2
  refine ⟨vals, vecs, by rw [left_eigenvectors_all_eq, h1], fun k hk => ?_⟩
  exact (cx_right_transpose_iff hsq (by have := h.two; omega) _ _).1 (h2 k hk)

/-- accepted cases of `right_eigenvalues(M)` / `left_eigenvalues(M)` (`nvals=None`): all eigenvalues, descending, after `real_if_close` -/
theorem right_eigenvalues_all_refines (h : Accepted eig argsort M n w V p) :
    right_eigenvalues_all eig argsort M = .ok (npRealIfClose1 ((sortedVals w p).take n)) := by
  rw [right_eigenvalues_all_eq, right_eigenvectors_all_eq, eigenvectors_all_refines h]; rfl

theorem left_eigenvalues_all_refines (h : Accepted eig argsort (npTranspose M) n w V p) :
    left_eigenvalues_all eig argsort M = .ok (npRealIfClose1 ((sortedVals w p).take n)) := by
  rw [left_eigenvalues_all_eq, left_eigenvectors_all_eq, eigenvectors_all_refines h]; rfl

-- instances: the left eigenvectors of the stochastic matrix (the first one is the stationary direction `(2, 1)`), of the rotation
example : ∃ vals vecs, left_eigenvectors_n exEig exArgsort M1 2 = .ok (vals, vecs) ∧
    ∀ k, k < 2 → CxLeftEigenpair M1 (vals.getD k none) (vecs.getD k []) :=
  left_eigenvectors_n_eigenpair (by decide +kernel) accepted_M1T (by decide) (by decide) (by decide +kernel) (by decide +kernel)
example : ∃ vals vecs, left_eigenvectors_n exEig exArgsort M3 2 = .ok (vals, vecs) ∧
    ∀ k, k < 2 → CxLeftEigenpair M3 (vals.getD k none) (vecs.getD k []) :=
  left_eigenvectors_n_eigenpair (by decide +kernel) accepted_M3T (by decide) (by decide) (by decide +kernel) (by decide +kernel)

/-- the transpose of an `n × n` table is `n × n`, so `Accepted … (npTranspose M) …` only asks the oracles to meet their contracts on `M.T` -/
theorem accepted_transpose_of_contracts (hsq : SquareN M n) (h2 : 2 ≤ n) (he : EigContractAt eig (npTranspose M))
    (hs : ArgsortContract argsort) : ∃ w V p, Accepted eig argsort (npTranspose M) n w V p :=
  accepted_of_contracts (square_transpose hsq (by omega)) h2 he hs

end MsmVerif.Refine.Eigen
