"""C07 — Markov-chain propagation samples exactly the estimated model (exact coupling by RNG injection)."""
from fractions import Fraction

import numpy as np

import core
import gen
import rng_inject

PID = 'C07'
ANCHORS = [('src/msmhelper/msm/timescales.py', ['propagate_MCMC', '_propagate_MCMC', '_propagate_MCMC_step', '_get_cummat']),
           ('src/msmhelper/utils/datasets.py', ['propagate_tmat'])]
RULE = ('models estimated from random trajectories (2-8 states, any labels, lags 1-4) and user matrices; the uniform draws of the '
        'compiled generator are INJECTED: for the row of the current state every breakpoint of the real cumulative matrix and its two '
        'grid neighbours, 0 and 1-2^-53, plus pseudo-random draws; chains of every length 1..2n+3 from every start (also default '
        'start). Non-trivial = at least one injected draw is a breakpoint or a grid neighbour; distinct by (model, start, steps, draws).')
RELATION = ('propagate_MCMC / propagate_tmat under injected draws = Mcmc.chain on the code\'s own cumulative matrix; '
            'that matrix is judged against the exact rational cumulative sums (Mcmc.holdsCummat / holdsCumTmat)')
TRUSTED = ['numba MT19937 state injection (numba._helperlib.rnd_set_state) reproduces chosen draws bit-exactly (self-checked each run)',
           'IEEE floats enter the model as exact dyadic rationals; no float arithmetic is modelled']
G = 1 << 53


def _mk(kind, **kw):
    d = {'op': kind}
    d.update(kw)
    return d


def cases(tier, rng, boost=1):
    # corpus
    yield _mk('mcmc_public', trajs=[[5, 7, 9, 7, 5, 9, 9, 5]], lag=1, steps=1, start=7, useed=1, src='corpus')      # D2
    yield _mk('mcmc_public', trajs=[[5, 7, 9, 7, 5, 9, 9, 5]], lag=1, steps=3, start=7, useed=2, src='corpus')
    # D3: row [0, .1 x10, 0]: ten different successors once each
    t = []
    for k in range(1, 11):
        t += [0, k]
    t += [0, 11, 11]
    yield _mk('mcmc_public', trajs=[t + [11]], lag=1, steps=6, start=0, useed=3, src='corpus', force_top=True)
    # 3:2:1:0 row (1/2+1/3+1/6 rounds below 1)
    yield _mk('mcmc_public', trajs=[[1, 2, 1, 2, 1, 2, 1, 3, 1, 3, 1, 5, 1, 4, 4, 1]], lag=1, steps=8, start=1, useed=4,
              src='corpus', force_top=True)
    yield _mk('tmat_public', counts=[[1, 1], [1, 3]], steps=5, start=0, useed=5, src='corpus')
    yield _mk('tmat_public', counts=[[250000, 1, 1], [1, 1, 0], [1, 0, 1]], steps=6, start=0, useed=8, src='corpus', force_top=True)
    # rare transition: T_01 = T_02 < 1e-5 (tails of the cumulative row must stay reachable)
    yield _mk('mcmc_public', trajs=[[0] * 120000 + [1, 0, 2, 1, 2, 0, 0, 1, 1, 2, 2, 0]], lag=1, steps=4, start=0, useed=6, src='corpus')
    n_models = {'quick': 150, 'thorough': 1500, 'search': 500}[tier] * boost
    for m in range(n_models):
        n = rng.randint(2, 8)
        labs, cls = gen.alphabet(rng, n)
        trajs = gen.relabel(gen.random_trajs(rng, n, rng.randint(1, 3), 8, 70, sticky=rng.choice([0.1, 0.4, 0.7])), labs)
        occ = sorted({x for t in trajs for x in t})
        lag = rng.randint(1, 4)
        lens = list(range(1, 2 * len(occ) + 4))
        for steps in (lens if tier != 'quick' else rng.sample(lens, min(len(lens), 5))):
            r = rng.random()
            if r < 0.1:
                start = -1
            elif r < 0.15:
                start = max(occ) + 2           # absent start → ValueError
            else:
                start = rng.choice(occ)
            yield _mk('mcmc_public', trajs=trajs, lag=lag, steps=steps, start=start, useed=rng.randrange(1 << 30),
                      src='rand', cls=cls)
        # user matrix
        counts = [[rng.choice([0, 0, 1, 1, 2, 3, 7]) for _ in range(n)] for _ in range(n)]
        for i in range(n):
            if not any(counts[i]):
                counts[i][rng.randrange(n)] = 1
        bad = rng.random() < 0.08
        for steps in rng.sample(range(1, 2 * n + 4), 3):
            st = rng.choice([None, 0, 0] + list(range(n)))
            yield _mk('tmat_public', counts=counts, steps=steps, start=st, useed=rng.randrange(1 << 30), src='rand', bad=bad)


def _grid_candidates(crow, rng, force_top=False):
    """draws (as integers k, u = k/2^53) around the breakpoints of one cumulative row"""
    ks = [0, G - 1]
    for c in crow:
        k = int(Fraction(float(c)) * G)      # floor(c * 2^53) — c is a double in [0,1], so exact
        for d in (-1, 0, 1):
            if 0 <= k + d < G:
                ks.append(k + d)
    if force_top:
        return [G - 1, G - 2] + ks
    return ks


def _choose_draws(cum, perm, start_idx, ndraws, rng, force_top=False):
    """adaptive choice: follow the chain with the same strict-less rule to aim at the current row's breakpoints"""
    us, s, targeted = [], start_idx, 0
    for t in range(ndraws):
        cand = _grid_candidates(cum[s], rng, force_top)
        if rng.random() < 0.7:
            k = cand[0] if (force_top and t == 0) else rng.choice(cand)
            targeted += 1
        else:
            k = rng.randrange(G)
        us.append(k)
        u = k / G
        nxt = None
        for idx, c in enumerate(cum[s]):
            if u < c:
                nxt = int(perm[s][idx])
                break
        if nxt is None:
            nxt = int(perm[s][int(np.argmax(cum[s]))])
        s = nxt
    return us, targeted


def real(case):
    import msmhelper as mh
    from msmhelper.msm import timescales as ts
    from msmhelper.utils import datasets as ds
    rng = core.Rng(case['useed'])
    captured = {}
    if case['op'] == 'mcmc_public':
        trajs = [np.array(t, dtype=np.int64) for t in case['trajs']]
        st = mh.StateTraj(trajs)
        states = [int(s) for s in st.states]
        np.random.seed(case['useed'] & 0x7fffffff)
        if case['start'] == -1:
            expect_start = int(np.random.choice(st.states))
            np.random.seed(case['useed'] & 0x7fffffff)
        else:
            expect_start = case['start']
        out = {'start_label': expect_start}
        try:
            cum0, perm0 = ts._get_cummat(trajs=st, lagtime=case['lag'])
            sidx = states.index(expect_start) if expect_start in states else 0
            ks, targeted = _choose_draws(cum0, perm0, sidx, max(case['steps'] - 1, 0), rng, case.get('force_top', False))
        except Exception as e:  # noqa
            return {'err': core.err_name(e), 'start_label': expect_start, 'us': [], 'targeted': 0}
        orig = ts._propagate_MCMC

        def wrapper(cummat, start, steps):
            captured['cum'], captured['perm'], captured['start'] = cummat[0].copy(), cummat[1].copy(), int(start)
            rng_inject.inject([Fraction(k, G) for k in ks])
            return orig(cummat=cummat, start=start, steps=steps)
        ts._propagate_MCMC = wrapper
        try:
            res = core.call(lambda: ts.propagate_MCMC(trajs, case['lag'], case['steps'], start=case['start']))
        finally:
            ts._propagate_MCMC = orig
            rng_inject.restore()
        out.update({'us': ks, 'targeted': targeted})
        if 'err' in res:
            out['err'] = res['err']
            return out
        chain = np.asarray(res['ok'])
        out['ok'] = {'chain': [int(x) for x in chain],
                     'cum': [[core.rat_str(v) for v in row] for row in captured['cum']],
                     'perm': [[int(v) for v in row] for row in captured['perm']]}
        return out
    # propagate_tmat
    counts = np.array(case['counts'], dtype=np.float64)
    tmat = counts / counts.sum(axis=1, keepdims=True)
    if case.get('bad'):
        tmat = tmat * 0.5                   # not row-stochastic → must be rejected
    n = len(tmat)
    np.random.seed(case['useed'] & 0x7fffffff)
    expect_start = int(np.random.randint(n)) if case['start'] is None else case['start']
    np.random.seed(case['useed'] & 0x7fffffff)
    cum0 = np.cumsum(tmat / tmat.sum(axis=1, keepdims=True), axis=1)
    perm0 = np.tile(np.arange(n), (n, 1))
    ks, targeted = _choose_draws(cum0, perm0, expect_start, max(case['steps'] - 1, 0), rng, case.get('force_top', False))
    orig = ds._propagate_MCMC

    def wrapper(cummat, start, steps):
        captured['cum'], captured['perm'], captured['start'] = np.array(cummat[0]), np.array(cummat[1]), int(start)
        rng_inject.inject([Fraction(k, G) for k in ks])
        return orig(cummat=cummat, start=start, steps=steps)
    ds._propagate_MCMC = wrapper
    try:
        res = core.call(lambda: ds.propagate_tmat(tmat, case['steps'], start=case['start']))
    finally:
        ds._propagate_MCMC = orig
        rng_inject.restore()
    out = {'us': ks, 'targeted': targeted, 'start_idx': expect_start,
           'T': [[core.rat_str(v) for v in row] for row in tmat]}
    if 'err' in res:
        out['err'] = res['err']
        return out
    out['ok'] = {'chain': [int(x) for x in np.asarray(res['ok'])],
                 'cum': [[core.rat_str(v) for v in row] for row in captured['cum']],
                 'perm': [[int(v) for v in row] for row in captured['perm']]}
    return out


def request(case, obs):
    us = ['%d/%d' % (k, G) for k in obs.get('us', [])]
    o = {'err': obs['err']} if 'err' in obs else {'ok': obs['ok']}
    if case['op'] == 'mcmc_public':
        return {'op': 'mcmc_public', 'trajs': case['trajs'], 'lag': case['lag'], 'steps': case['steps'],
                'start': obs.get('start_label', case['start']), 'us': us, 'obs': o}
    if 'T' not in obs:
        return {'op': 'ping'}
    return {'op': 'tmat_public', 'T': obs['T'], 'steps': case['steps'], 'start': obs['start_idx'], 'us': us,
            'stochastic': not case.get('bad', False), 'obs': o}


def agree(case, obs, reply):
    m = reply.get('model', {})
    if 'err' in obs:
        return m.get('err') == obs['err']
    return 'ok' in m and m['ok'] == obs['ok']['chain'] and bool(reply.get('cum_ok'))


def holds(case, obs, reply):
    return bool(reply.get('holds', False))


def nontrivial(case, obs, reply):
    return obs.get('targeted', 0) > 0 and 'ok' in obs


def key(case):
    return [case['op'], case.get('trajs', case.get('counts')), case.get('lag'), case['steps'], case['start'], case['useed']]


def classify(case, obs, reply):
    return '%s/%s/%s' % (case['src'], case['op'], obs.get('err', 'steps<=3' if case['steps'] <= 3 else 'steps>3'))


def known_match(k, case, obs, reply):
    return False


def shrink(case):
    if case['steps'] > 1:
        yield dict(case, steps=case['steps'] - 1)
    if case['op'] == 'mcmc_public':
        ts = case['trajs']
        if len(ts) > 1:
            for i in range(len(ts)):
                yield dict(case, trajs=ts[:i] + ts[i + 1:])
        for i, t in enumerate(ts):
            if len(t) > 4:
                yield dict(case, trajs=ts[:i] + [t[:len(t) // 2]] + ts[i + 1:])
                yield dict(case, trajs=ts[:i] + [t[len(t) // 2:]] + ts[i + 1:])
