/-
Refine/TransferLemmas.lean — task RP33: helper lemmas for `Refine/Transfer.lean` (guards of sub-sets, the count law of a cut
inside a larger set, the reference coring of a union, the translated waiting-time wrapper in closed form).
-/
import MsmVerif.Refine.Public
import MsmVerif.Refine.Public2
import MsmVerif.Refine.CoringApi
import MsmVerif.Refine.TimesApi
import MsmVerif.Props.C05
import MsmVerif.Props.C06
import MsmVerif.Props.C11
import MsmVerif.Props.C13

namespace MsmVerif.Refine.Transfer
open MsmVerif MsmVerif.Gen

/-- the label guard only looks at the multiset of trajectories -/
theorem guard_of_perm {A B : Trajs} (h : A.Perm B) (hg : LabelGuard A) : LabelGuard B :=
  fun x hx => hg x (h.flatten.mem_iff.mpr hx)

/-- the label guard only looks at the concatenated frames -/
theorem guard_of_flatten {A B : Trajs} (h : A.flatten = B.flatten) (hg : LabelGuard A) : LabelGuard B :=
  fun x hx => hg x (h ▸ hx)

theorem guard_append_left {A B : Trajs} (hg : LabelGuard (A ++ B)) : LabelGuard A :=
  fun x hx => hg x (by simp only [List.flatten_append, List.mem_append]; exact Or.inl hx)

theorem guard_append_right {A B : Trajs} (hg : LabelGuard (A ++ B)) : LabelGuard B :=
  fun x hx => hg x (by simp only [List.flatten_append, List.mem_append]; exact Or.inr hx)

theorem guard_cut {t₁ t₂ : List Int} {rest : Trajs} (hg : LabelGuard ((t₁ ++ t₂) :: rest)) :
    LabelGuard (t₁ :: t₂ :: rest) := by
  intro x hx
  apply hg x
  simpa [List.append_assoc] using hx

/-- cutting one trajectory of a larger set loses exactly the straddling pairs -/
theorem count_cut_rest (lag : Nat) (t₁ t₂ : List Int) (rest : Trajs) (a b : Int) :
    Msm.count ((t₁ ++ t₂) :: rest) lag a b = Msm.count (t₁ :: t₂ :: rest) lag a b + Msm.straddle lag t₁ t₂ a b := by
  have h1 := Msm.count_append [t₁ ++ t₂] rest lag a b
  have h2 := Msm.count_append [t₁, t₂] rest lag a b
  have h3 := C11.count_cut lag t₁ t₂ a b
  simp only [List.cons_append, List.nil_append] at h1 h2
  omega

/-- the reference coring of a union is the concatenation of the reference corings, errors included -/
theorem refSet_append (A B : Trajs) (τ : Int) (iter : Bool) :
    Coring.refSet (A ++ B) τ iter
      = (do let a ← Coring.refSet A τ iter; let b ← Coring.refSet B τ iter; pure (a ++ b)) := by
  unfold Coring.refSet
  by_cases h0 : τ ≤ 0
  · simp only [if_pos h0]; rfl
  simp only [if_neg h0]
  by_cases h1 : τ = 1
  · simp only [if_pos h1]; rfl
  simp only [if_neg h1, List.mapM_append]
  cases List.mapM (Coring.refOne τ.toNat iter) A with
  | none => rfl
  | some a =>
    cases List.mapM (Coring.refOne τ.toNat iter) B with
    | none => rfl
    | some b => rfl

/-- the reference coring of `A ++ B` and of `B ++ A`: the same error, or the two concatenations of the parts' results -/
theorem refSet_swap (A B : Trajs) (τ : Int) (iter : Bool) :
    (∃ e, Coring.refSet (A ++ B) τ iter = .error e ∧ Coring.refSet (B ++ A) τ iter = .error e) ∨
    (∃ a b, Coring.refSet A τ iter = .ok a ∧ Coring.refSet B τ iter = .ok b ∧
      Coring.refSet (A ++ B) τ iter = .ok (a ++ b) ∧ Coring.refSet (B ++ A) τ iter = .ok (b ++ a)) := by
  unfold Coring.refSet
  by_cases h0 : τ ≤ 0
  · simp only [if_pos h0]; exact Or.inl ⟨_, rfl, rfl⟩
  simp only [if_neg h0]
  by_cases h1 : τ = 1
  · simp only [if_pos h1]; exact Or.inr ⟨_, _, rfl, rfl, rfl, rfl⟩
  simp only [if_neg h1, List.mapM_append]
  cases List.mapM (Coring.refOne τ.toNat iter) A with
  | none =>
    cases List.mapM (Coring.refOne τ.toNat iter) B with
    | none => exact Or.inl ⟨_, rfl, rfl⟩
    | some b => exact Or.inl ⟨_, rfl, rfl⟩
  | some a =>
    cases List.mapM (Coring.refOne τ.toNat iter) B with
    | none => exact Or.inl ⟨_, rfl, rfl⟩
    | some b => exact Or.inr ⟨_, _, rfl, rfl, rfl, rfl⟩

/-- the translated public coring on the attributes of the object of a guarded set is the reference coring -/
theorem coring_eq_refSet (ts : Trajs) (hg : LabelGuard ts) (τ : Int) (iter flag : Bool) :
    MdCoringApi.dynamical_coring (states ts) (rankTrajs ts) ts false τ iter flag = Coring.refSet ts τ iter := by
  rw [CoringApi.dynamical_coring_api_refines_rank _ hg, C05.model_meets_spec _ _ _ hg]

/-- the translated `md.estimate_waiting_times` in closed form, for ANY state list `sts`: validation, then the model's waiting times -/
theorem wt_eq (sts : List Int) (ts : Trajs) (start final : List Int) (flag : Bool) :
    Gen.MdTimesApi.estimate_waiting_times sts ts start final flag =
      (Events.validate start final sts).bind (fun p => .ok ((Events.waitingTimes p.1 p.2 ts).map Int.ofNat)) := by
  rw [TimesApi.estimate_waiting_times_validate]
  cases Events.validate start final sts with
  | error e => rfl
  | ok p => obtain ⟨S, F⟩ := p; exact Events.wt_refines ts S F

end MsmVerif.Refine.Transfer
