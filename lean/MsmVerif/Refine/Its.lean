/-
Refine/Its.lean — task RP24 (property C10, first two sentences): the translated `_implied_timescales(tmat, lagtime, ntimescales)` and the
public `implied_timescales(trajs, lagtimes, ntimescales, reversible)` of `src/msmhelper/msm/timescales.py` (`Gen/MsmIts.lean`).

The eigen-solver wrapper `linalg.left_eigenvalues` is treated abstractly (its result — or error — is a hypothesis; task RP23 says what it
is), the element-wise logarithm `np.log` is an oracle constrained by the explicit contract `LogContract`, the estimator
`trajs.estimate_markov_model` is an unconstrained oracle.

* `its_row_refines` / `its_row_error` / `its_row_eq`: the row is, entry by entry, `entry τ L` of all eigenvalues but the first;
* `entry_nan` … `entry_real`: the decision logic of one entry is the model's `Timescales.codeKind` — NaN exactly where the model says NaN,
  otherwise the complex quotient `-τ / log λ` whose real part is positive; with `Props/C10.lean` (`code_meets_requirement`) this is what the
  property requires (`entry_meets_requirement`);
* `its_api_*`: the public function — the two argument checks, the `ValueError` of `np.zeros` for a negative `ntimescales`, one row per lag
  time in the order of the argument (real parts), errors.

Helper lemmas and the definitions `LogContract`, `entry`, `apiRow`: `Refine/ItsLemmas.lean` (same namespace).
-/
import MsmVerif.Refine.ItsLemmas

namespace MsmVerif.Refine.Its
open MsmVerif MsmVerif.Gen MsmVerif.Timescales

/-! ### the row function `_implied_timescales` -/

/-- **The row function, with the eigen-solver wrapper and the logarithm left abstract.**  For all oracles and arguments:
    `_implied_timescales` calls `left_eigenvalues(tmat, nvals = ntimescales + 1)` (an error propagates), replaces every eigenvalue that is
    lexicographically `≤ 0` by NaN (`maskNonPos`), passes all eigenvalues but the first to `np.log` (an error would propagate), divides
    `-lagtime` by each logarithm (masked division filled with NaN) and replaces every quotient whose real part is not `> 0` by NaN
    (`keepPos`).  No `IndexError` can arise from the two mask assignments. -/
theorem its_row_eq (log : List Cx → Py (List Cx)) (eig : List (List Rat) → Py (List Cx × List (List Cx)))
    (argsort : List Cx → Py (List Int)) (tmat : List (List Rat)) (τ nts : Int) :
    Gen.MsmIts.implied_timescales log eig argsort tmat τ nts =
      (do let evs ← Gen.MsmLinalg.left_eigenvalues_n eig argsort tmat (nts + 1)
          let t2 ← log ((evs.drop 1).map maskNonPos)
          pure ((npMaDivideFilledNan ((-τ : Int) : Rat) t2).map keepPos)) :=
  row_unfold log eig argsort tmat τ nts

/-- **The row.**  If the logarithm oracle satisfies its contract and the eigen-solver wrapper returns the eigenvalues `evs` (for
    `nvals = ntimescales + 1`), then `_implied_timescales` raises nothing and returns, for every eigenvalue but the first, in order, the
    entry `entry τ L ev` — for every matrix, every lag time and every `ntimescales`. -/
theorem its_row_refines {log : List Cx → Py (List Cx)} {L : Cx → Cx} (hlog : LogContract log L)
    (eig : List (List Rat) → Py (List Cx × List (List Cx))) (argsort : List Cx → Py (List Int))
    (tmat : List (List Rat)) (τ nts : Int) (evs : List Cx)
    (hev : Gen.MsmLinalg.left_eigenvalues_n eig argsort tmat (nts + 1) = .ok evs) :
    Gen.MsmIts.implied_timescales log eig argsort tmat τ nts = .ok ((evs.drop 1).map (entry τ L)) := by
  rw [row_unfold, hev]
  simp only [bind, Except.bind, hlog.eval, pure, Except.pure, npMaDivideFilledNan, List.map_map]
  rfl

/-- **Errors of the eigen-solver wrapper propagate** (e.g. the `TypeError` for a non-square matrix or for `ntimescales + 1 > n`), whatever
    the logarithm oracle is. -/
theorem its_row_error (log : List Cx → Py (List Cx)) (eig : List (List Rat) → Py (List Cx × List (List Cx)))
    (argsort : List Cx → Py (List Int)) (tmat : List (List Rat)) (τ nts : Int) (e : Err)
    (hev : Gen.MsmLinalg.left_eigenvalues_n eig argsort tmat (nts + 1) = .error e) :
    Gen.MsmIts.implied_timescales log eig argsort tmat τ nts = .error e := by
  rw [row_unfold, hev]
  rfl

/-- **Length of the row**: one entry per eigenvalue but the first, i.e. `ntimescales` entries when the wrapper returns
    `ntimescales + 1` eigenvalues. -/
theorem its_row_length {log : List Cx → Py (List Cx)} {L : Cx → Cx} (hlog : LogContract log L)
    (eig : List (List Rat) → Py (List Cx × List (List Cx))) (argsort : List Cx → Py (List Int))
    (tmat : List (List Rat)) (τ nts : Int) (evs : List Cx)
    (hev : Gen.MsmLinalg.left_eigenvalues_n eig argsort tmat (nts + 1) = .ok evs) :
    ∃ row, Gen.MsmIts.implied_timescales log eig argsort tmat τ nts = .ok row ∧ row.length = evs.length - 1 :=
  ⟨_, its_row_refines hlog eig argsort tmat τ nts evs hev, by simp⟩

/-- **Every entry of a returned row is NaN or has a positive real part** — for EVERY logarithm oracle (no contract needed), every lag time
    (positive or not) and every eigen-solver: whenever `_implied_timescales` returns a row, no entry of it is a number with real part
    `≤ 0`. -/
theorem its_row_entries (log : List Cx → Py (List Cx)) (eig : List (List Rat) → Py (List Cx × List (List Cx)))
    (argsort : List Cx → Py (List Int)) (tmat : List (List Rat)) (τ nts : Int) (row : List Cx)
    (h : Gen.MsmIts.implied_timescales log eig argsort tmat τ nts = .ok row) :
    ∀ c ∈ row, c = none ∨ ∃ t : Rat × Rat, c = some t ∧ 0 < t.1 := by
  rw [row_unfold] at h
  cases hev : Gen.MsmLinalg.left_eigenvalues_n eig argsort tmat (nts + 1) with
  | error e => rw [hev] at h; cases h
  | ok evs =>
    rw [hev] at h
    simp only [bind, Except.bind] at h
    cases hl : log ((evs.drop 1).map maskNonPos) with
    | error e => rw [hl] at h; cases h
    | ok t2 =>
      rw [hl] at h
      cases h
      intro c hc
      obtain ⟨z, _, rfl⟩ := List.mem_map.mp hc
      exact keepPos_none_or_pos z

/-! ### one entry: the decision logic is the model's `codeKind` -/

/-- **A NaN eigenvalue gives NaN.** -/
theorem entry_nan {log : List Cx → Py (List Cx)} {L : Cx → Cx} (hlog : LogContract log L) (τ : Int) :
    entry τ L none = none := by
  unfold entry
  rw [maskNonPos_none, hlog.nan]
  rfl

/-- **An entry is NaN or has a positive real part**, whatever the logarithm returns and whatever the lag time is. -/
theorem entry_none_or_pos (τ : Int) (L : Cx → Cx) (ev : Cx) :
    entry τ L ev = none ∨ ∃ t : Rat × Rat, entry τ L ev = some t ∧ 0 < t.1 :=
  keepPos_none_or_pos _

/-- **NaN exactly where the model says NaN.**  For a lag time `τ ≥ 1` and the eigenvalue `re + i·im` the entry is NaN iff
    `Timescales.codeKind re im = .nan`, i.e. iff the eigenvalue is lexicographically `≤ 0` or does not lie strictly inside the unit
    circle. -/
theorem entry_nan_iff {log : List Cx → Py (List Cx)} {L : Cx → Cx} (hlog : LogContract log L) (τ : Int) (hτ : 1 ≤ τ)
    (re im : Rat) : entry τ L (some (re, im)) = none ↔ codeKind re im = .nan := by
  rw [codeKind_eq]
  by_cases hlex : re < 0 ∨ (re = 0 ∧ im ≤ 0)
  · rw [if_pos hlex]
    exact ⟨fun _ => rfl, fun _ => entry_lexNonPos τ L hlog.nan re im hlex⟩
  · rw [if_neg hlex]
    obtain ⟨a, b, hL, ha, _, _⟩ := hlog.val re im (lexPos_ne_zero re im hlex)
    rw [entry_lexPos τ hτ L re im a b hlex hL]
    by_cases hm : re * re + im * im < 1
    · rw [if_pos hm, if_pos (ha.mpr hm)]
      constructor <;> intro h <;> cases h
    · rw [if_neg hm, if_neg (fun h => hm (ha.mp h))]
      exact ⟨fun _ => rfl, fun _ => rfl⟩

/-- **The value where the model says "positive".**  Lag time `τ ≥ 1`, `codeKind re im = .pos`.  Then the logarithm of the eigenvalue is
    some `a + i·b` with `a < 0`, and the entry is the number `t = -τ / (a + i·b)` — the runtime's masked quotient `cxDivReal`, explicitly
    `(-τ·a / (a² + b²), τ·b / (a² + b²))`, characterised by `t · (a + i·b) = -τ` — whose real part is positive. -/
theorem entry_pos_value {log : List Cx → Py (List Cx)} {L : Cx → Cx} (hlog : LogContract log L) (τ : Int) (hτ : 1 ≤ τ)
    (re im : Rat) (hk : codeKind re im = .pos) :
    ∃ a b : Rat, L (some (re, im)) = some (a, b) ∧ a < 0 ∧
      ∃ t : Rat × Rat, entry τ L (some (re, im)) = some t ∧ 0 < t.1 ∧
        cxDivReal ((-τ : Int) : Rat) (L (some (re, im))) = some t ∧
        t = (((-τ : Int) : Rat) * a / (a * a + b * b), -(((-τ : Int) : Rat) * b) / (a * a + b * b)) ∧
        t.1 * a - t.2 * b = ((-τ : Int) : Rat) ∧ t.1 * b + t.2 * a = 0 := by
  rw [codeKind_eq] at hk
  by_cases hlex : re < 0 ∨ (re = 0 ∧ im ≤ 0)
  · rw [if_pos hlex] at hk; cases hk
  · rw [if_neg hlex] at hk
    by_cases hm : re * re + im * im < 1
    · obtain ⟨a, b, hL, ha, _, _⟩ := hlog.val re im (lexPos_ne_zero re im hlex)
      have ha0 := ha.mpr hm
      have h0 : ¬ (a = 0 ∧ b = 0) := fun h => by rw [h.1] at ha0; exact lt_irrefl _ ha0
      have hd := (sq_add_sq_pos a b h0).ne'
      have hd' : a ^ 2 + b ^ 2 ≠ 0 := by rw [sq, sq]; exact hd
      refine ⟨a, b, hL, ha0, _, ?_, (divReal_re_pos_iff τ hτ a b h0).mpr ha0, ?_, rfl, ?_, ?_⟩
      · rw [entry_lexPos τ hτ L re im a b hlex hL, if_pos ha0]
      · rw [hL]
        unfold cxDivReal
        simp only
        rw [if_neg h0]
      · simp only
        field_simp
        ring
      · simp only
        field_simp
        ring
    · rw [if_neg hm] at hk; cases hk

/-- **The decision logic is the model's.**  Lag time `τ ≥ 1`, eigenvalue `re + i·im`: according to `Timescales.codeKind re im` the entry is
    NaN (`.nan`) or a number with positive real part (`.pos`); the model never answers `.posOrNan`. -/
theorem entry_kind {log : List Cx → Py (List Cx)} {L : Cx → Cx} (hlog : LogContract log L) (τ : Int) (hτ : 1 ≤ τ)
    (re im : Rat) :
    match codeKind re im with
    | .nan => entry τ L (some (re, im)) = none
    | .pos => ∃ t : Rat × Rat, entry τ L (some (re, im)) = some t ∧ 0 < t.1
    | .posOrNan => False := by
  cases hk : codeKind re im with
  | nan => exact (entry_nan_iff hlog τ hτ re im).mpr hk
  | pos =>
    obtain ⟨_, _, _, _, t, ht, hpos, _⟩ := entry_pos_value hlog τ hτ re im hk
    exact ⟨t, ht, hpos⟩
  | posOrNan => exact Misc.codeKind_ne_posOrNan re im hk

/-- **The entry meets the requirement of property C10.**  Lag time `τ ≥ 1`, eigenvalue `re + i·im`, `Timescales.required re im` = what the
    property demands: where NaN is required (real eigenvalue `≤ 0`) the entry is NaN; where a positive value is required (real eigenvalue
    well inside `(0,1)`) the entry is a number with positive real part; elsewhere it is NaN or a number with positive real part.  No entry
    is ever a non-positive or otherwise spurious number. -/
theorem entry_meets_requirement {log : List Cx → Py (List Cx)} {L : Cx → Cx} (hlog : LogContract log L) (τ : Int)
    (hτ : 1 ≤ τ) (re im : Rat) :
    match required re im with
    | .nan => entry τ L (some (re, im)) = none
    | .pos => ∃ t : Rat × Rat, entry τ L (some (re, im)) = some t ∧ 0 < t.1
    | .posOrNan => entry τ L (some (re, im)) = none ∨ ∃ t : Rat × Rat, entry τ L (some (re, im)) = some t ∧ 0 < t.1 := by
  have hadm := Misc.code_admissible re im
  have hkind := entry_kind hlog τ hτ re im
  cases hr : required re im with
  | nan =>
    rw [hr] at hadm
    cases hk : codeKind re im with
    | nan => rw [hk] at hkind; exact hkind
    | pos => rw [hk] at hadm; exact hadm.elim
    | posOrNan => rw [hk] at hadm; exact hadm.elim
  | pos =>
    rw [hr] at hadm
    cases hk : codeKind re im with
    | nan => rw [hk] at hadm; exact hadm.elim
    | pos => rw [hk] at hkind; exact hkind
    | posOrNan => rw [hk] at hadm; exact hadm.elim
  | posOrNan => exact entry_none_or_pos τ L _

/-- **A real eigenvalue in `(0,1)` gives a real entry.**  Lag time `τ ≥ 1`, `0 < x < 1`: the logarithm of `x` is a real number `a < 0`
    (imaginary part `0`), and the entry is the real number `-τ / a > 0` (imaginary part exactly `0`). -/
theorem entry_real {log : List Cx → Py (List Cx)} {L : Cx → Cx} (hlog : LogContract log L) (τ : Int) (hτ : 1 ≤ τ)
    (x : Rat) (h0 : 0 < x) (h1 : x < 1) :
    ∃ a : Rat, L (some (x, 0)) = some (a, 0) ∧ a < 0 ∧ entry τ L (some (x, 0)) = some (-(τ : Rat) / a, 0) ∧
      0 < -(τ : Rat) / a := by
  have hlex : ¬ (x < 0 ∨ (x = 0 ∧ (0 : Rat) ≤ 0)) := by
    rintro (h | ⟨h, _⟩)
    · exact lt_asymm h h0
    · exact h0.ne' h
  obtain ⟨a, b, hL, ha, _, hb⟩ := hlog.val x 0 (lexPos_ne_zero x 0 hlex)
  have hb0 : b = 0 := hb.mpr ⟨rfl, h0⟩
  subst hb0
  have ha0 : a < 0 := ha.mpr (by nlinarith)
  have hτ' : (0 : Rat) < (τ : Rat) := by exact_mod_cast (by omega : 0 < τ)
  have hval : ((-τ : Int) : Rat) * a / (a * a + 0 * 0) = -(τ : Rat) / a := by
    have : a ≠ 0 := ha0.ne
    push_cast
    field_simp
    ring
  refine ⟨a, hL, ha0, ?_, div_pos_of_neg_of_neg (neg_neg_of_pos hτ') ha0⟩
  rw [entry_lexPos τ hτ L x 0 a 0 hlex hL, if_pos ha0, hval]
  congr 2
  simp

/-! ### the public function `implied_timescales` -/

/-- **A lag time `≤ 0` is a `TypeError`.**  If any member of the lag-time list (at any position) is zero or negative the function raises
    `TypeError` — for EVERY choice of the oracles, i.e. before the estimator, the eigen-solver or the logarithm is consulted, and whatever
    `ntimescales` and `reversible` are. -/
theorem its_api_rejects_nonpositive_lag (est : Int → Py ((List (List Rat)) × (List Int))) (log : List Cx → Py (List Cx))
    (eig : List (List Rat) → Py (List Cx × List (List Cx))) (argsort : List Cx → Py (List Int))
    (nstates : Int) (lags : List Int) (nts : Int) (rev : Bool) (l : Int) (hl : l ∈ lags) (hl0 : l ≤ 0) :
    Gen.MsmIts.implied_timescales_n est log eig argsort nstates lags nts rev = .error .type := by
  rw [api_unfold, if_pos]
  cases h : npAll1 (lags.map (fun x_ => decide (x_ > (0 : Int)))) with
  | false => rfl
  | true =>
    have := (all_pos_iff lags).mp h l hl
    omega

/-- **`reversible = True` is a `NotImplementedError`** — raised after the lag-time check (all lag times `≥ 1`, else the `TypeError`
    comes first) and before any oracle is consulted. -/
theorem its_api_rejects_reversible (est : Int → Py ((List (List Rat)) × (List Int))) (log : List Cx → Py (List Cx))
    (eig : List (List Rat) → Py (List Cx × List (List Cx))) (argsort : List Cx → Py (List Int))
    (nstates : Int) (lags : List Int) (nts : Int) (hpos : ∀ l ∈ lags, 1 ≤ l) :
    Gen.MsmIts.implied_timescales_n est log eig argsort nstates lags nts true = .error .notImplemented := by
  rw [api_unfold, if_neg (by rw [(all_pos_iff lags).mpr hpos]; exact Bool.noConfusion), if_pos rfl]

/-- **A negative `ntimescales` is a `ValueError`** (numpy's "negative dimensions are not allowed" of `np.zeros((len(lagtimes), ntimescales))`).
    All lag times `≥ 1`, `reversible = False`, `ntimescales < 0`: the function raises `ValueError` — whatever the oracles are (none is
    consulted) and also for the empty lag-time list. -/
theorem its_api_rejects_negative_ntimescales (est : Int → Py ((List (List Rat)) × (List Int))) (log : List Cx → Py (List Cx))
    (eig : List (List Rat) → Py (List Cx × List (List Cx))) (argsort : List Cx → Py (List Int))
    (nstates : Int) (lags : List Int) (nts : Int) (hpos : ∀ l ∈ lags, 1 ≤ l) (hnts : nts < 0) :
    Gen.MsmIts.implied_timescales_n est log eig argsort nstates lags nts false = .error .value := by
  rw [api_unfold, if_neg (by rw [(all_pos_iff lags).mpr hpos]; exact Bool.noConfusion), if_neg Bool.noConfusion,
    if_pos hnts]

/-- **The accepted case in terms of `apiRow`.**  All lag times `≥ 1`, `reversible = False`, `0 ≤ ntimescales`: the function is `mapM` of
    `apiRow` (estimate, `_implied_timescales`, `ValueError` unless the row has `ntimescales.toNat` entries, real part) over the lag times in
    the order of the argument. -/
theorem its_api_refines_apiRow (est : Int → Py ((List (List Rat)) × (List Int))) (log : List Cx → Py (List Cx))
    (eig : List (List Rat) → Py (List Cx × List (List Cx))) (argsort : List Cx → Py (List Int))
    (nstates : Int) (lags : List Int) (nts : Int) (hpos : ∀ l ∈ lags, 1 ≤ l) (hnts : 0 ≤ nts) :
    Gen.MsmIts.implied_timescales_n est log eig argsort nstates lags nts false =
      lags.mapM (apiRow est log eig argsort nts) := by
  rw [api_unfold, if_neg (by rw [(all_pos_iff lags).mpr hpos]; exact Bool.noConfusion), if_neg Bool.noConfusion,
    if_neg (by omega), apiLoop_eq]

/-- **The accepted case.**  All lag times `≥ 1`, `reversible = False`, `0 ≤ ntimescales`: row `i` of the result is the REAL PART of
    `_implied_timescales(estimate(lags[i]).1, lags[i], ntimescales)` — in the order of the argument, one row per lag time (also for repeated
    lag times); an error of the estimator or of a row propagates (first failing lag time first); a row whose length is not `ntimescales` is a
    `ValueError`.  For the empty list the result is the empty array. -/
theorem its_api_refines (est : Int → Py ((List (List Rat)) × (List Int))) (log : List Cx → Py (List Cx))
    (eig : List (List Rat) → Py (List Cx × List (List Cx))) (argsort : List Cx → Py (List Int))
    (nstates : Int) (lags : List Int) (nts : Int) (hpos : ∀ l ∈ lags, 1 ≤ l) (hnts : 0 ≤ nts) :
    Gen.MsmIts.implied_timescales_n est log eig argsort nstates lags nts false =
      lags.mapM (fun τ => do
        let m ← est τ
        let row ← Gen.MsmIts.implied_timescales log eig argsort m.1 τ nts
        if (row.length : Int) = nts then pure (row.map cxReal) else throw Err.value) := by
  rw [its_api_refines_apiRow est log eig argsort nstates lags nts hpos hnts]
  congr 1
  funext τ
  unfold apiRow
  cases est τ with
  | error e => rfl
  | ok m =>
    simp only [bind, Except.bind]
    cases Gen.MsmIts.implied_timescales log eig argsort m.1 τ nts with
    | error e => rfl
    | ok row =>
      simp only
      by_cases h : row.length = nts.toNat
      · rw [if_pos h, if_pos (by omega)]
      · rw [if_neg h, if_neg (by omega)]

/-- **The function for every `ntimescales`** (all lag times `≥ 1`, `reversible = False`): a negative `ntimescales` is a `ValueError`,
    otherwise the program of `its_api_refines`. -/
theorem its_api_refines_general (est : Int → Py ((List (List Rat)) × (List Int))) (log : List Cx → Py (List Cx))
    (eig : List (List Rat) → Py (List Cx × List (List Cx))) (argsort : List Cx → Py (List Int))
    (nstates : Int) (lags : List Int) (nts : Int) (hpos : ∀ l ∈ lags, 1 ≤ l) :
    Gen.MsmIts.implied_timescales_n est log eig argsort nstates lags nts false =
      if nts < 0 then .error .value else
      lags.mapM (fun τ => do
        let m ← est τ
        let row ← Gen.MsmIts.implied_timescales log eig argsort m.1 τ nts
        if (row.length : Int) = nts then pure (row.map cxReal) else throw Err.value) := by
  by_cases hnts : nts < 0
  · rw [if_pos hnts, its_api_rejects_negative_ntimescales est log eig argsort nstates lags nts hpos hnts]
  · rw [if_neg hnts, its_api_refines est log eig argsort nstates lags nts hpos (by omega)]

/-- **The empty lag-time list** (`reversible = False`) gives the empty array for `0 ≤ ntimescales` and a `ValueError` for a negative
    `ntimescales`; no oracle is consulted. -/
theorem its_api_empty (est : Int → Py ((List (List Rat)) × (List Int))) (log : List Cx → Py (List Cx))
    (eig : List (List Rat) → Py (List Cx × List (List Cx))) (argsort : List Cx → Py (List Int))
    (nstates : Int) (nts : Int) :
    Gen.MsmIts.implied_timescales_n est log eig argsort nstates [] nts false =
      if nts < 0 then .error .value else .ok [] := by
  rw [its_api_refines_general est log eig argsort nstates [] nts (fun l hl => absurd hl List.not_mem_nil)]
  rfl

/-- **The default number of timescales is `nstates - 1`.** -/
theorem its_api_default_eq (est : Int → Py ((List (List Rat)) × (List Int))) (log : List Cx → Py (List Cx))
    (eig : List (List Rat) → Py (List Cx × List (List Cx))) (argsort : List Cx → Py (List Int))
    (nstates : Int) (lags : List Int) (rev : Bool) :
    Gen.MsmIts.implied_timescales_default est log eig argsort nstates lags rev =
      Gen.MsmIts.implied_timescales_n est log eig argsort nstates lags (nstates - 1) rev := rfl

/-- **Shape and rows of a returned result.**  Whenever the function returns a result (then necessarily all lag times are `≥ 1`,
    `reversible = False` and `0 ≤ ntimescales`) it has exactly one row per member of the lag-time list, every row has `ntimescales.toNat` entries, and row `i` is the
    real part of a row `_implied_timescales(estimate(lags[i]).1, lags[i], ntimescales)` that was returned without error. -/
theorem its_api_rows (est : Int → Py ((List (List Rat)) × (List Int))) (log : List Cx → Py (List Cx))
    (eig : List (List Rat) → Py (List Cx × List (List Cx))) (argsort : List Cx → Py (List Int))
    (nstates : Int) (lags : List Int) (nts : Int) (rev : Bool) (res : List (List Cx))
    (h : Gen.MsmIts.implied_timescales_n est log eig argsort nstates lags nts rev = .ok res) :
    (∀ l ∈ lags, 1 ≤ l) ∧ rev = false ∧ 0 ≤ nts ∧ res.length = lags.length ∧
      ∀ (i : Nat) (h1 : i < lags.length) (h2 : i < res.length), ∃ m row,
        est lags[i] = .ok m ∧ Gen.MsmIts.implied_timescales log eig argsort m.1 lags[i] nts = .ok row ∧
        row.length = nts.toNat ∧ res[i] = row.map cxReal := by
  rw [api_unfold] at h
  by_cases hall : npAll1 (lags.map (fun x_ => decide (x_ > (0 : Int)))) = false
  · rw [if_pos hall] at h; cases h
  · rw [if_neg hall] at h
    have hpos := (all_pos_iff lags).mp (by simpa using hall)
    cases rev with
    | true => rw [if_pos rfl] at h; cases h
    | false =>
      rw [if_neg Bool.noConfusion] at h
      by_cases hnts : nts < 0
      · rw [if_pos hnts] at h; cases h
      rw [if_neg hnts, apiLoop_eq] at h
      obtain ⟨hlen, hget⟩ := mapM_ok_get _ _ _ h
      refine ⟨hpos, rfl, by omega, hlen, ?_⟩
      intro i h1 h2
      have hi := hget i h1 h2
      unfold apiRow at hi
      cases hm : est lags[i] with
      | error e => rw [hm] at hi; cases hi
      | ok m =>
        rw [hm] at hi
        simp only [bind, Except.bind] at hi
        cases hr : Gen.MsmIts.implied_timescales log eig argsort m.1 lags[i] nts with
        | error e => rw [hr] at hi; cases hi
        | ok row =>
          rw [hr] at hi
          simp only at hi
          by_cases hl : row.length = nts.toNat
          · rw [if_pos hl] at hi
            exact ⟨m, row, rfl, hr, hl, (Except.ok.inj hi).symm⟩
          · rw [if_neg hl] at hi; cases hi

/-- **No entry of a returned result is a non-positive or spurious number.**  Whenever the function returns a result — for EVERY choice of
    the four oracles, no contract needed — each entry of it is NaN or a REAL number `t > 0` (imaginary part `0`). -/
theorem its_api_entries (est : Int → Py ((List (List Rat)) × (List Int))) (log : List Cx → Py (List Cx))
    (eig : List (List Rat) → Py (List Cx × List (List Cx))) (argsort : List Cx → Py (List Int))
    (nstates : Int) (lags : List Int) (nts : Int) (rev : Bool) (res : List (List Cx))
    (h : Gen.MsmIts.implied_timescales_n est log eig argsort nstates lags nts rev = .ok res) :
    ∀ r ∈ res, ∀ c ∈ r, c = none ∨ ∃ t : Rat, c = some (t, 0) ∧ 0 < t := by
  obtain ⟨_, _, _, hlen, hrows⟩ := its_api_rows est log eig argsort nstates lags nts rev res h
  intro r hr c hc
  obtain ⟨i, hi, rfl⟩ := List.getElem_of_mem hr
  obtain ⟨m, row, _, hrow, _, hres⟩ := hrows i (by omega) hi
  rw [hres] at hc
  obtain ⟨z, hz, rfl⟩ := List.mem_map.mp hc
  rcases its_row_entries log eig argsort m.1 _ nts row hrow z hz with rfl | ⟨t, rfl, ht⟩
  · exact Or.inl rfl
  · exact Or.inr ⟨t.1, rfl, ht⟩

/-- **Which error is raised.**  All lag times `≥ 1`, `reversible = False`, `0 ≤ ntimescales`.  If the lag-time list is `pre ++ τ₀ :: rest`, every lag time of
    `pre` yields an accepted row, and the lag time `τ₀` fails with `e` (the estimator fails, or `_implied_timescales` fails, or — `e` =
    `ValueError` — its row has the wrong length), the function raises `e`; the lag times of `rest` are not tried. -/
theorem its_api_first_error (est : Int → Py ((List (List Rat)) × (List Int))) (log : List Cx → Py (List Cx))
    (eig : List (List Rat) → Py (List Cx × List (List Cx))) (argsort : List Cx → Py (List Int))
    (nstates : Int) (nts : Int) (pre : List Int) (τ0 : Int) (rest : List Int) (e : Err)
    (hpos : ∀ l ∈ pre ++ τ0 :: rest, 1 ≤ l) (hnts : 0 ≤ nts)
    (hpre : ∀ τ ∈ pre, ∃ v, apiRow est log eig argsort nts τ = .ok v)
    (h0 : apiRow est log eig argsort nts τ0 = .error e) :
    Gen.MsmIts.implied_timescales_n est log eig argsort nstates (pre ++ τ0 :: rest) nts false = .error e := by
  rw [its_api_refines_apiRow est log eig argsort nstates _ nts hpos hnts]
  exact mapM_first_error _ e pre τ0 rest hpre h0

/-- **The full result in terms of `entry`.**  All lag times `≥ 1`, `reversible = False`, `0 ≤ ntimescales`, the logarithm satisfies its contract; for every
    listed lag time `τ` the estimator returns a matrix `T τ` and the eigen-solver wrapper returns for it `ntimescales + 1` eigenvalues
    `evs τ`.  Then the function raises nothing, and row `i` of the result holds, for the eigenvalues of `T lags[i]` but the first, the real
    parts of the entries `entry lags[i] L ev` — NaN or `Re(-τ / log ev) > 0` according to `Timescales.codeKind` (see `entry_kind`). -/
theorem its_api_value (est : Int → Py ((List (List Rat)) × (List Int))) {log : List Cx → Py (List Cx)} {L : Cx → Cx}
    (hlog : LogContract log L)
    (eig : List (List Rat) → Py (List Cx × List (List Cx))) (argsort : List Cx → Py (List Int))
    (nstates : Int) (lags : List Int) (nts : Int) (T : Int → List (List Rat)) (evs : Int → List Cx)
    (hpos : ∀ l ∈ lags, 1 ≤ l) (hnts : 0 ≤ nts)
    (hest : ∀ τ ∈ lags, ∃ sts, est τ = .ok (T τ, sts))
    (hev : ∀ τ ∈ lags, Gen.MsmLinalg.left_eigenvalues_n eig argsort (T τ) (nts + 1) = .ok (evs τ))
    (hlen : ∀ τ ∈ lags, (evs τ).length = nts.toNat + 1) :
    Gen.MsmIts.implied_timescales_n est log eig argsort nstates lags nts false =
      .ok (lags.map (fun τ => ((evs τ).drop 1).map (fun ev => cxReal (entry τ L ev)))) := by
  rw [its_api_refines_apiRow est log eig argsort nstates lags nts hpos hnts]
  apply mapM_of_ok
  intro τ hτ
  obtain ⟨sts, hs⟩ := hest τ hτ
  unfold apiRow
  rw [hs]
  simp only [bind, Except.bind]
  rw [its_row_refines hlog eig argsort (T τ) τ nts (evs τ) (hev τ hτ)]
  simp only
  rw [if_pos (by rw [List.length_map, List.length_drop, hlen τ hτ]; omega), List.map_map]
  rfl

/-! ### non-vacuity: concrete oracles -/

/-- a stand-in for the complex logarithm: a few "nice" values (`log ½ = -1`, `log ¼ = -2`, `log i = 2i`, `log(-½) = -1 + 3i`), elsewhere
`(|z|² - 1) + i·[z not on the positive real axis]` — it has the signs the contract asks for -/
def exL : Cx → Cx
  | none => none
  | some (x, y) =>
    if x = 1/2 ∧ y = 0 then some (-1, 0)
    else if x = 1/4 ∧ y = 0 then some (-2, 0)
    else if x = 0 ∧ y = 1 then some (0, 2)
    else if x = -1/2 ∧ y = 0 then some (-1, 3)
    else some (x * x + y * y - 1, if y = 0 ∧ 0 < x then 0 else 1)

def exLog : List Cx → Py (List Cx) := fun zs => .ok (zs.map exL)

/-- the contract is satisfiable: the stand-in satisfies it -/
theorem exLog_contract : LogContract exLog exL where
  eval := fun _ => rfl
  nan := rfl
  val := by
    intro x y _
    unfold exL
    simp only
    by_cases h1 : x = 1/2 ∧ y = 0
    · rw [if_pos h1]
      obtain ⟨rfl, rfl⟩ := h1
      exact ⟨-1, 0, rfl, by norm_num, by norm_num, by norm_num⟩
    rw [if_neg h1]
    by_cases h2 : x = 1/4 ∧ y = 0
    · rw [if_pos h2]
      obtain ⟨rfl, rfl⟩ := h2
      exact ⟨-2, 0, rfl, by norm_num, by norm_num, by norm_num⟩
    rw [if_neg h2]
    by_cases h3 : x = 0 ∧ y = 1
    · rw [if_pos h3]
      obtain ⟨rfl, rfl⟩ := h3
      exact ⟨0, 2, rfl, by norm_num, by norm_num, by norm_num⟩
    rw [if_neg h3]
    by_cases h4 : x = -1/2 ∧ y = 0
    · rw [if_pos h4]
      obtain ⟨rfl, rfl⟩ := h4
      exact ⟨-1, 3, rfl, by norm_num, by norm_num, by norm_num⟩
    rw [if_neg h4]
    refine ⟨_, _, rfl, ⟨fun h => by linarith, fun h => by linarith⟩, ⟨fun h => by linarith, fun h => by linarith⟩, ?_⟩
    by_cases h5 : y = 0 ∧ 0 < x
    · rw [if_pos h5]; exact ⟨fun _ => h5, fun _ => rfl⟩
    · rw [if_neg h5]; exact ⟨fun h => absurd h one_ne_zero, fun h => absurd h h5⟩

/-- ascending insertion by numpy's lexicographic order (indices paired with values) -/
def exInsert (p : Int × Cx) : List (Int × Cx) → List (Int × Cx)
  | [] => [p]
  | q :: qs => if cxLe p.2 q.2 then p :: q :: qs else q :: exInsert p qs

/-- `np.argsort` of a complex array (insertion sort) -/
def exArgsort : List Cx → Py (List Int) := fun zs =>
  .ok (((pyEnumerate zs).foldr exInsert []).map Prod.fst)

/-- eigenvalues `1, ¼` -/
def exA : List (List Rat) := [[3/4, 1/4], [1/2, 1/2]]
/-- eigenvalues `1, -½` -/
def exB : List (List Rat) := [[1/4, 3/4], [3/4, 1/4]]
/-- the cyclic permutation of 4 states: eigenvalues `1, i, -i, -1`, all of modulus 1 -/
def exC : List (List Rat) := [[0, 1, 0, 0], [0, 0, 1, 0], [0, 0, 0, 1], [1, 0, 0, 0]]

def exVecs (n : Nat) : List (List Cx) := List.replicate n (List.replicate n (some (0, 0)))

/-- `np.linalg.eig` on the three (transposed) matrices, eigenvalues in arbitrary order as LAPACK would return them -/
def exEig : List (List Rat) → Py (List Cx × List (List Cx)) := fun m =>
  if m = npTranspose exA then .ok ([some (1/4, 0), some (1, 0)], exVecs 2)
  else if m = npTranspose exB then .ok ([some (1, 0), some (-1/2, 0)], exVecs 2)
  else if m = npTranspose exC then .ok ([some (-1, 0), some (0, 1), some (0, -1), some (1, 0)], exVecs 4)
  else .error .other

/-- the estimator: lag times 1 and 5 give `exA`, 2 gives `exB`, 3 gives `exC`, every other lag time is too long -/
def exEst : Int → Py (List (List Rat) × List Int) := fun τ =>
  if τ = 1 ∨ τ = 5 then .ok (exA, [0, 1]) else if τ = 2 then .ok (exB, [0, 1])
  else if τ = 3 then .ok (exC, [0, 1, 2, 3]) else .error .lagtime

/-- the eigen-solver wrapper on the three matrices (descending lexicographic order) -/
example : Gen.MsmLinalg.left_eigenvalues_n exEig exArgsort exA (1 + 1) = .ok [some (1, 0), some (1/4, 0)] := by decide +kernel
example : Gen.MsmLinalg.left_eigenvalues_n exEig exArgsort exB (1 + 1) = .ok [some (1, 0), some (-1/2, 0)] := by decide +kernel
example : Gen.MsmLinalg.left_eigenvalues_n exEig exArgsort exC (3 + 1)
    = .ok [some (1, 0), some (0, 1), some (0, -1), some (-1, 0)] := by decide +kernel

/-- a row with a positive entry: eigenvalue `¼`, lag time 1, `-1 / log ¼ = ½` -/
example : Gen.MsmIts.implied_timescales exLog exEig exArgsort exA 1 1 = .ok [some (1/2, 0)] := by decide +kernel
/-- … as an instance of `its_row_refines` -/
example : Gen.MsmIts.implied_timescales exLog exEig exArgsort exA 1 1
    = .ok (([some (1, 0), some (1/4, 0)] : List Cx).drop 1 |>.map (entry 1 exL)) :=
  its_row_refines exLog_contract exEig exArgsort exA 1 1 _ (by decide +kernel)
/-- a row with NaN for the negative eigenvalue `-½` (although `-1 / log(-½)` would have a positive real part: `(1 + 3i)/10`) -/
example : Gen.MsmIts.implied_timescales exLog exEig exArgsort exB 1 1 = .ok [none] := by decide +kernel
example : cxDivReal (-1) (exL (some (-1/2, 0))) = some (1/10, 3/10) := by decide +kernel
/-- a row with NaN for `|λ| = 1`: the eigenvalues `i` (real part of `-1 / log i` is `0`), `-i` and `-1` (lexicographically `≤ 0`) -/
example : Gen.MsmIts.implied_timescales exLog exEig exArgsort exC 1 3 = .ok [none, none, none] := by decide +kernel
example : cxDivReal (-1) (exL (some (0, 1))) = some (0, 1/2) := by decide +kernel
/-- an error of the wrapper propagates: `ntimescales + 1 = 3` eigenvalues of a `2 × 2` matrix is a `TypeError` -/
example : Gen.MsmIts.implied_timescales exLog exEig exArgsort exA 1 2 = .error .type :=
  its_row_error exLog exEig exArgsort exA 1 2 .type (by decide +kernel)

/-- single entries and the model's classification -/
example : entry 1 exL (some (1/4, 0)) = some (1/2, 0) ∧ codeKind (1/4) 0 = .pos := by decide +kernel
example : entry 3 exL (some (1/2, 0)) = some (3, 0) ∧ codeKind (1/2) 0 = .pos := by decide +kernel
example : entry 1 exL (some (-1/2, 0)) = none ∧ codeKind (-1/2) 0 = .nan := by decide +kernel
example : entry 1 exL (some (0, 1)) = none ∧ codeKind 0 1 = .nan := by decide +kernel
example : entry 1 exL (some (1, 0)) = none ∧ codeKind 1 0 = .nan := by decide +kernel
/-- a complex eigenvalue inside the unit circle: `log(i/2)` stands as `-¾ + i`, the entry is `-1/(-¾ + i) = (12 + 16i)/25` -/
example : entry 1 exL (some (0, 1/2)) = some (12/25, 16/25) ∧ codeKind 0 (1/2) = .pos := by decide +kernel
example : entry 1 exL none = none := entry_nan exLog_contract 1
/-- `entry_real` applies: `0 < ¼ < 1` -/
example : ∃ a : Rat, exL (some (1/4, 0)) = some (a, 0) ∧ a < 0 ∧ entry 5 exL (some (1/4, 0)) = some (-((5 : Int) : Rat) / a, 0) ∧
    0 < -((5 : Int) : Rat) / a :=
  entry_real exLog_contract 5 (by decide) (1/4) (by norm_num) (by norm_num)

/-- the public function: unsorted lag times with a repetition, `ntimescales = 1`: one row per lag time in the order of the argument -/
example : Gen.MsmIts.implied_timescales_n exEst exLog exEig exArgsort 2 [5, 1, 2, 3, 1] 1 false
    = .ok [[some (5/2, 0)], [some (1/2, 0)], [none], [none], [some (1/2, 0)]] := by decide +kernel
/-- … as an instance of `its_api_refines` -/
example : Gen.MsmIts.implied_timescales_n exEst exLog exEig exArgsort 2 [5, 1, 2, 3, 1] 1 false =
      [5, 1, 2, 3, 1].mapM (fun τ => do
        let m ← exEst τ
        let row ← Gen.MsmIts.implied_timescales exLog exEig exArgsort m.1 τ 1
        if (row.length : Int) = 1 then pure (row.map cxReal) else throw Err.value) :=
  its_api_refines _ _ _ _ 2 [5, 1, 2, 3, 1] 1 (by decide) (by decide)
/-- … and of `its_api_value`: all its hypotheses hold for these oracles -/
example : Gen.MsmIts.implied_timescales_n exEst exLog exEig exArgsort 2 [5, 1, 2, 3, 1] 1 false
    = .ok ([5, 1, 2, 3, 1].map (fun τ =>
        ((if τ = 2 then [some (1, 0), some (-1/2, 0)] else if τ = 3 then [some (1, 0), some (0, 1)]
          else [some (1, 0), some (1/4, 0)] : List Cx).drop 1).map (fun ev => cxReal (entry τ exL ev)))) :=
  its_api_value exEst exLog_contract exEig exArgsort 2 [5, 1, 2, 3, 1] 1
    (fun τ => if τ = 2 then exB else if τ = 3 then exC else exA)
    (fun τ => if τ = 2 then [some (1, 0), some (-1/2, 0)] else if τ = 3 then [some (1, 0), some (0, 1)]
      else [some (1, 0), some (1/4, 0)])
    (by decide) (by decide)
    (by intro τ hτ
        simp only [List.mem_cons, List.not_mem_nil, or_false] at hτ
        rcases hτ with rfl | rfl | rfl | rfl | rfl
        · exact ⟨[0, 1], by decide +kernel⟩
        · exact ⟨[0, 1], by decide +kernel⟩
        · exact ⟨[0, 1], by decide +kernel⟩
        · exact ⟨[0, 1, 2, 3], by decide +kernel⟩
        · exact ⟨[0, 1], by decide +kernel⟩)
    (by decide +kernel) (by decide +kernel)
/-- the default `ntimescales = nstates - 1` -/
example : Gen.MsmIts.implied_timescales_default exEst exLog exEig exArgsort 2 [5, 1, 2, 1] false
    = .ok [[some (5/2, 0)], [some (1/2, 0)], [none], [some (1/2, 0)]] := by decide +kernel
/-- rejections -/
example : Gen.MsmIts.implied_timescales_n exEst exLog exEig exArgsort 2 [5, 0, 2] 1 false = .error .type :=
  its_api_rejects_nonpositive_lag _ _ _ _ _ _ _ _ 0 (by decide) (by decide)
example : Gen.MsmIts.implied_timescales_n exEst exLog exEig exArgsort 2 [5, -3, 2] 1 true = .error .type :=
  its_api_rejects_nonpositive_lag _ _ _ _ _ _ _ _ (-3) (by decide) (by decide)
example : Gen.MsmIts.implied_timescales_n exEst exLog exEig exArgsort 2 [5, 1, 2] 1 true = .error .notImplemented :=
  its_api_rejects_reversible _ _ _ _ _ _ _ (by decide)
example : Gen.MsmIts.implied_timescales_n exEst exLog exEig exArgsort 2 [] 1 false = .ok [] := by
  rw [its_api_empty]; rfl
/-- a negative `ntimescales` is a `ValueError` (also for the empty list, and with the default `nstates - 1` for `nstates = 0`) -/
example : Gen.MsmIts.implied_timescales_n exEst exLog exEig exArgsort 2 [5, 1] (-1) false = .error .value :=
  its_api_rejects_negative_ntimescales _ _ _ _ _ _ _ (by decide) (by decide)
example : Gen.MsmIts.implied_timescales_n exEst exLog exEig exArgsort 2 [] (-1) false = .error .value := by
  rw [its_api_empty]; rfl
example : Gen.MsmIts.implied_timescales_default exEst exLog exEig exArgsort 0 [5, 1] false = .error .value := by decide +kernel
/-- `ntimescales = 0` is accepted: rows without entries -/
example : Gen.MsmIts.implied_timescales_n exEst exLog exEig exArgsort 2 [5, 1] 0 false = .ok [[], []] := by decide +kernel
/-- error order: the estimator does not know lag time 4 — `LagtimeError`; the lag times after it are not tried -/
example : Gen.MsmIts.implied_timescales_n exEst exLog exEig exArgsort 2 ([5, 1] ++ 4 :: [3, 1]) 1 false = .error .lagtime :=
  its_api_first_error _ _ _ _ 2 1 [5, 1] 4 [3, 1] .lagtime (by decide) (by decide)
    (by intro τ hτ
        simp only [List.mem_cons, List.not_mem_nil, or_false] at hτ
        rcases hτ with rfl | rfl
        · exact ⟨[some (5/2, 0)], by decide +kernel⟩
        · exact ⟨[some (1/2, 0)], by decide +kernel⟩)
    (by decide +kernel)
/-- an error of a row propagates: `ntimescales = 2` needs 3 eigenvalues of a `2 × 2` matrix — `TypeError` of the eigen-solver wrapper -/
example : Gen.MsmIts.implied_timescales_n exEst exLog exEig exArgsort 2 [5, 1] 2 false = .error .type := by decide +kernel
/-- a row of the wrong length is a `ValueError`: an eigen-solver stand-in that returns a single eigenvalue for a `2 × 2` matrix -/
example : Gen.MsmIts.implied_timescales_n exEst exLog (fun _ => .ok ([some (1, 0)], [[some (1, 0)]])) exArgsort 2 [5, 1] 1 false
    = .error .value := by decide +kernel

end MsmVerif.Refine.Its
