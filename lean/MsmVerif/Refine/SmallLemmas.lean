/-
Refine/SmallLemmas.lean — helper lemmas for task RP15 (properties C01/C11, C07, C20, C16): casts of the count matrix, the translated
`state_to_idx` and the decomposition of the public `propagate_MCMC` wrapper, `np.convolve(…, 'same')` with a constant kernel as a
windowed sum, `np.cumsum` / `x[-1]` and the decomposition of `open_limits`.
-/
import MsmVerif.Gen.MsmEstimate
import MsmVerif.Gen.MsmMcmcApi
import MsmVerif.Gen.UtilsFiltering
import MsmVerif.Gen.IoLimits
import MsmVerif.Refine.Msm
import MsmVerif.Refine.Norm
import MsmVerif.Lemmas.Misc
import MsmVerif.Lemmas.TextIO
import MsmVerif.Lemmas.StateTraj

namespace MsmVerif.Refine.Small
open MsmVerif MsmVerif.Gen

/-! ### `_estimate_markov_model` -/

theorem cast_natMat (c : List (List Nat)) :
    (MsmVerif.Refine.Msm.natMat c).map (fun r_ => r_.map (fun (x_ : Int) => (x_ : Rat)))
      = c.map (·.map (fun (k : Nat) => (k : Rat))) := by
  unfold MsmVerif.Refine.Msm.natMat
  simp only [List.map_map, Function.comp_def, Int.ofNat_eq_natCast, Rat.intCast_natCast]


theorem arange_eq (n : Nat) : npArange 0 (n : Int) = (List.range n).map Int.ofNat := by
  unfold npArange pyRange
  simp


/-! ### `propagate_MCMC` -/

theorem npWhere1_cons (b : Bool) (bs : List Bool) :
    npWhere1 (b :: bs) = (if b then [0] else []) ++ (npWhere1 bs).map (· + 1) := by
  unfold npWhere1
  rw [List.length_cons, List.range_succ_eq_map, List.filter_cons, List.filter_map]
  cases b <;> simp [Function.comp_def]

theorem npWhere1_eq_head (ss : List Int) (x : Int) :
    (npWhere1 (ss.map (fun y => y == x))).head? = if x ∈ ss then some ((ss.idxOf x : Nat) : Int) else none := by
  induction ss with
  | nil => rfl
  | cons y ys ih =>
    rw [List.map_cons, npWhere1_cons]
    by_cases hyx : y = x
    · subst hyx
      simp
    · have h1 : (y == x) = false := by simpa using hyx
      rw [h1]
      simp only [Bool.false_eq_true, if_false, List.nil_append, List.head?_map, ih]
      have h2 : (x ∈ y :: ys) ↔ x ∈ ys := by
        simp only [List.mem_cons]
        constructor
        · rintro (h | h)
          · exact absurd h.symm hyx
          · exact h
        · exact Or.inr
      by_cases hx : x ∈ ys
      · rw [if_pos hx, if_pos (h2.mpr hx), List.idxOf_cons, h1]
        simp
      · rw [if_neg hx, if_neg (fun h => hx (h2.mp h))]
        rfl

theorem state_to_idx_eq (ss : List Int) (x : Int) :
    Gen.StateTrajBase.state_to_idx ss x = if x ∈ ss then .ok ((rank ss x : Nat) : Int) else .error .value := by
  have h := npWhere1_eq_head ss x
  unfold Gen.StateTrajBase.state_to_idx
  simp only []
  generalize npWhere1 (ss.map (fun y => y == x)) = idx at h
  cases idx with
  | nil =>
    by_cases hx : x ∈ ss
    · rw [if_pos hx] at h; simp at h
    · rw [if_neg hx]; rfl
  | cons a rest =>
    by_cases hx : x ∈ ss
    · rw [if_pos hx] at h
      simp only [List.head?_cons, Option.some.injEq] at h
      rw [if_pos hx, h]
      have : (pyLen (((ss.idxOf x : Nat) : Int) :: rest) == 0) = false := by
        simp [pyLen]; omega
      rw [this]
      simp [pyGet, normIdx, rank]
    · rw [if_neg hx] at h; simp at h

theorem pyGet_nonneg {α : Type} (l : List α) (i : Int) (h0 : 0 ≤ i) (h1 : i < (l.length : Int)) :
    pyGet l i = .ok (l[i.toNat]'(by omega)) := by
  unfold pyGet normIdx
  rw [if_pos h0, if_pos h1]
  simp only []
  rw [List.getElem?_eq_getElem (by omega)]

theorem npTake_ok (ss : List Int) (c : List Int) (h : ∀ i ∈ c, 0 ≤ i ∧ i < (ss.length : Int)) :
    npTake ss c = .ok (c.map (labelOf ss)) := by
  unfold npTake
  induction c with
  | nil => rfl
  | cons i c ih =>
    have hi := h i List.mem_cons_self
    rw [List.mapM_cons, pyGet_nonneg ss i hi.1 hi.2, ih (fun j hj => h j (List.mem_cons_of_mem _ hj))]
    simp only [bind, Except.bind, pure, Except.pure, List.map_cons, labelOf]
    rw [List.getD_eq_getElem?_getD, List.getElem?_eq_getElem (by omega)]
    rfl

/-- the part of `propagate_MCMC` after the start state `s` is fixed: `ValueError` if `s` is not a state (from `state_to_idx`), otherwise
the cumulative matrix is fetched, the chain kernel is called with the rank of `s`, and the index chain is mapped through `states[·]` -/
def mcmcTail (getc : Int → Py ((List (List Rat)) × (List (List Int))))
    (prop : ((List (List Rat)) × (List (List Int))) → Int → Int → Py (List Int))
    (ss : List Int) (lag steps s : Int) : Py (List Int) :=
  if s ∈ ss then
    getc lag >>= fun cm => prop cm ((rank ss s : Nat) : Int) steps >>= fun c => npTake ss c
  else .error .value

theorem propagate_eq (choice : List Int → Py Int) (getc) (prop) (ss : List Int) (lag steps start : Int) :
    Gen.MsmMcmcApi.propagate_MCMC choice getc prop ss lag steps start
      = (if start = -1 then choice ss else if start ∈ ss then .ok start else .error .value)
          >>= fun s => mcmcTail getc prop ss lag steps s := by
  unfold Gen.MsmMcmcApi.propagate_MCMC mcmcTail
  by_cases h1 : start = -1
  · subst h1
    simp only [beq_self_eq_true, if_true]
    cases hc : choice ss with
    | error e => rfl
    | ok s =>
      simp only [bind, Except.bind, state_to_idx_eq]
      by_cases hs : s ∈ ss
      · simp only [if_pos hs]
      · simp only [if_neg hs]
  · have : (start == (-(1:Int))) = false := by simpa using h1
    simp only [this, if_neg h1, Bool.false_eq_true, if_false]
    by_cases hs : start ∈ ss
    · have : pyIn start ss = true := by simpa [pyIn] using hs
      simp only [this, if_pos hs, Bool.not_true, Bool.false_eq_true, if_false, state_to_idx_eq,
        bind, Except.bind]
    · have : pyIn start ss = false := by simpa [pyIn] using hs
      simp only [this, if_neg hs, Bool.not_false, if_true]
      rfl

/-! ### `runningmean` -/

/-- what `np.convolve(x, ones(w)/w, 'same')` is for every `w ≥ 1` and non-empty `x`: `max(|x|, w)` entries; entry `j` is the sum of the
samples `x[i]` with `j + off - w < i ≤ j + off`, `off = (min(|x|, w) - 1) / 2`, divided by `w` -/
def convWindow (x : List Rat) (w : Nat) : List Rat :=
  (List.range (max x.length w)).map (fun j =>
    (((List.range x.length).filter (fun i =>
        decide (i ≤ j + (min x.length w - 1) / 2) && decide (j + (min x.length w - 1) / 2 < i + w))).map
      (fun i => x.getD i 0)).sum / (w : Rat))

theorem kernel_eq (w : Nat) :
    ((pyFull1 (w : Int) (1 : Rat))).map (fun x_ => x_ / (((w : Nat) : Int) : Rat)) = List.replicate w (1 / (w : Rat)) := by
  unfold pyFull1
  rw [Int.toNat_natCast, List.map_replicate, Rat.intCast_natCast]

theorem range_drop_take (N a n : Nat) (h : a + n ≤ N) :
    ((List.range N).drop a).take n = (List.range n).map (fun j => j + a) := by
  apply List.ext_getElem
  · simp; omega
  · intro i h1 h2
    simp
    omega

theorem full_entry (x : List Rat) (w k : Nat) (c : Rat) :
    ((List.range x.length).map (fun i =>
        if i ≤ k ∧ k - i < (List.replicate w c).length
          then x.getD i 0 * (List.replicate w c).getD (k - i) 0 else 0)).sum
      = (((List.range x.length).filter (fun i => decide (i ≤ k) && decide (k < i + w))).map (fun i => x.getD i 0)).sum * c := by
  rw [Misc.sum_map_filter, ← List.sum_map_mul_right]
  apply congrArg
  apply List.map_congr_left
  intro i _
  simp only [List.length_replicate, Bool.and_eq_true, decide_eq_true_eq]
  by_cases h : i ≤ k ∧ k - i < w
  · have h' : i ≤ k ∧ k < i + w := by omega
    rw [if_pos h, if_pos h', List.getD_eq_getElem?_getD (l := List.replicate w c), List.getElem?_replicate, if_pos h.2]
    rfl
  · have h' : ¬ (i ≤ k ∧ k < i + w) := by omega
    rw [if_neg h, if_neg h', zero_mul]

theorem convolve_eq (x : List Rat) (w : Nat) (hx : x ≠ []) (hw : 1 ≤ w) :
    npConvolveSame x (List.replicate w (1 / (w : Rat))) = .ok (convWindow x w) := by
  have hxl : 1 ≤ x.length := by
    cases x with
    | nil => exact absurd rfl hx
    | cons a l => simp
  unfold npConvolveSame
  have h0 : ¬ (x.length = 0 ∨ (List.replicate w (1 / (w : Rat))).length = 0) := by
    rw [List.length_replicate]; omega
  rw [if_neg h0]
  simp only []
  congr 1
  rw [← List.map_drop, ← List.map_take, range_drop_take _ _ _ (by rw [List.length_replicate]; omega), List.map_map]
  unfold convWindow
  rw [List.length_replicate]
  apply List.map_congr_left
  intro j _
  simp only [Function.comp]
  have := full_entry x w (j + (min x.length w - 1) / 2) (1 / (w : Rat))
  rw [List.length_replicate] at this
  rw [this, ← div_eq_mul_one_div]

/-! ### `open_limits` -/

/-- cumulative sums: entry `i` is `v[0] + … + v[i]` -/
def cumsums (v : List Int) : List Int := (List.range v.length).map (fun i => (v.take (i + 1)).sum)

theorem cumsum_fold (v : List Int) (acc : List Int) (s : Int) :
    v.foldl (fun (acc : List Int × Int) x => (acc.1 ++ [acc.2 + x], acc.2 + x)) (acc, s)
      = (acc ++ (List.range v.length).map (fun i => s + (v.take (i + 1)).sum), s + v.sum) := by
  induction v generalizing acc s with
  | nil => simp
  | cons a v ih =>
    rw [List.foldl_cons, ih]
    simp only [List.length_cons, List.range_succ_eq_map, List.map_cons, List.map_map, List.sum_cons,
      List.append_assoc, List.singleton_append, List.take_succ_cons, List.take_zero, List.sum_nil,
      Function.comp_def, Int.add_zero, Int.add_assoc]

theorem npCumsumInt_eq (v : List Int) : npCumsumInt v = cumsums v := by
  unfold npCumsumInt cumsums
  rw [cumsum_fold]
  simp

theorem cumsums_length (v : List Int) : (cumsums v).length = v.length := by simp [cumsums]

theorem pyGet_last (l : List Int) (hl : l ≠ []) : pyGet l (-1) = .ok (l.getLast hl) := by
  have hlen : 1 ≤ l.length := by
    cases l with
    | nil => exact absurd rfl hl
    | cons a l => simp
  unfold pyGet normIdx
  have h1 : ¬ (0 : Int) ≤ -1 := by omega
  have h2 : (0 : Int) ≤ -1 + (l.length : Int) := by omega
  rw [if_neg h1, if_pos h2]
  simp only []
  have h3 : (-1 + (l.length : Int)).toNat = l.length - 1 := by omega
  rw [h3, List.getElem?_eq_getElem (by omega), List.getLast_eq_getElem]

theorem pyGet_nil (i : Int) : pyGet ([] : List Int) i = .error .index := by
  unfold pyGet normIdx
  by_cases h : 0 ≤ i
  · rw [if_pos h, if_neg (by simp; omega)]
  · rw [if_neg h, if_neg (by simp; omega)]

theorem cumsums_getLast (v : List Int) (h : cumsums v ≠ []) : (cumsums v).getLast h = v.sum := by
  have hl : 1 ≤ v.length := by
    cases v with
    | nil => exact absurd rfl h
    | cons a l => simp
  rw [List.getLast_eq_getElem]
  simp only [cumsums, List.getElem_map, List.getElem_range, List.length_map, List.length_range]
  rw [List.take_of_length_le (by omega)]

theorem open_limits_eq (ext : Int → Py (List Int)) (dl lf : Int) :
    Gen.IoLimits.open_limits_file ext dl lf
      = ext lf >>= fun lim => if lim = [] then .error .index else if dl = lim.sum then .ok (cumsums lim) else .error .value := by
  unfold Gen.IoLimits.open_limits_file
  cases h : ext lf with
  | error e => rfl
  | ok lim =>
    simp only [bind, Except.bind, pure, Except.pure]
    have h1 : (pyLen [pyLen lim] != (1 : Int)) = false := by simp [pyLen]
    rw [h1, npCumsumInt_eq]
    simp only [Bool.false_eq_true, if_false]
    by_cases hl : lim = []
    · subst hl
      simp [cumsums, pyGet_nil]
    · have hc : cumsums lim ≠ [] := by
        intro hc
        have := cumsums_length lim
        rw [hc] at this
        exact hl (List.eq_nil_of_length_eq_zero this.symm)
      rw [pyGet_last _ hc, cumsums_getLast, if_neg hl]
      by_cases hd : dl = lim.sum
      · simp [hd]
      · simp [hd]
        rfl

/-! ### extra: window = documented window, sums of casts -/

theorem convWindow_eq_doc (x : List Rat) (w : Nat) (hw : 1 ≤ w) (hwx : w ≤ x.length) :
    convWindow x w = Filter.runningMeanDoc x w := by
  unfold convWindow Filter.runningMeanDoc
  rw [Nat.max_eq_left hwx, Nat.min_eq_right hwx]
  apply List.map_congr_left
  intro j _
  simp only []
  congr 2
  apply congrArg
  apply List.filter_congr
  intro i _
  have : (decide (i ≤ j + (w - 1) / 2) && decide (j + (w - 1) / 2 < i + w))
      = (decide ((j : Int) - ((w / 2 : Nat) : Int) ≤ (i : Int)) && decide ((i : Int) ≤ (j : Int) + (((w - 1) / 2 : Nat) : Int))) := by
    rw [Bool.eq_iff_iff]
    simp only [Bool.and_eq_true, decide_eq_true_eq]
    omega
  exact this

theorem sum_map_ofNat (l : List Nat) : (l.map Int.ofNat).sum = ((l.sum : Nat) : Int) := by
  induction l with
  | nil => rfl
  | cons a l ih => simp only [List.map_cons, List.sum_cons, ih, Int.ofNat_eq_natCast, Int.natCast_add]

end MsmVerif.Refine.Small

