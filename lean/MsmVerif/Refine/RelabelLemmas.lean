/-
Refine/RelabelLemmas.lean — helper lemmas for task RP16 (`Refine/Relabel.lean`): the numpy runtime primitives used by the
translated relabelling utilities (`npMinInt`, `npMaxInt`, `npAssignAt`, `npTake`, `npFlattenLL` / `npUnflattenLL`, `npSplit`)
expressed through the model's `minimum?`, `maximum?`, `assignAll`, `getD`, `unflatten`.
Core Lean only.
-/
import MsmVerif.Gen.UtilsRelabel
import MsmVerif.Model.Relabel
import MsmVerif.Lemmas.StateTraj
import MsmVerif.Lemmas.Relabel

namespace MsmVerif.Refine.Relabel
open MsmVerif MsmVerif.Gen

/-! ### `np.unique` -/

theorem npInsertUnique_eq (x : Int) (l : List Int) : npInsertUnique x l = insertSorted x l := by
  induction l with
  | nil => rfl
  | cons y ys ih => simp only [npInsertUnique, insertSorted, ih]

theorem npUnique_eq (v : List Int) : npUnique v = sortDedup v := by
  unfold npUnique sortDedup
  congr 1; funext x l; exact npInsertUnique_eq x l

theorem npUniqueCounts_eq (v : List Int) :
    npUniqueCounts v = ((sortDedup v).map (fun x => v.count x)).map Int.ofNat := by
  unfold npUniqueCounts
  rw [npUnique_eq, List.map_map]
  apply List.map_congr_left
  intro x _
  simp only [Function.comp_def, List.count_eq_countP, List.countP_eq_length_filter, Int.ofNat_eq_natCast]

/-! ### `np.min` / `np.max` -/

theorem npMinInt_eq (v : List Int) :
    npMinInt v = (match minimum? v with | some m => .ok m | none => .error .value) := by
  cases v <;> rfl

theorem npMaxInt_eq (v : List Int) :
    npMaxInt v = (match maximum? v with | some m => .ok m | none => .error .value) := by
  cases v <;> rfl

theorem foldl_max_map_sub (xs : List Int) (x off : Int) :
    (xs.map (fun y => y - off)).foldl max (x - off) = xs.foldl max x - off := by
  induction xs generalizing x with
  | nil => rfl
  | cons y ys ih =>
    simp only [List.map_cons, List.foldl_cons]
    rw [show max (x - off) (y - off) = max x y - off by omega]
    exact ih _

theorem maximum?_map_sub (v : List Int) (off : Int) :
    maximum? (v.map (fun y => y - off)) = (maximum? v).map (fun m => m - off) := by
  cases v with
  | nil => rfl
  | cons x xs => simp only [List.map_cons, maximum?, Option.map_some, foldl_max_map_sub]

/-! ### `conv[idx] = vals` -/

theorem foldlM_pySet_eq_assignAll (ps : List (Int × Int)) (conv : List Int) :
    ps.foldlM (m := Py) (fun acc p => pySet acc p.1 p.2) conv
      = (match assignAll conv ps with | some c => .ok c | none => .error .index) := by
  induction ps generalizing conv with
  | nil => rfl
  | cons p ps ih =>
    obtain ⟨o, v⟩ := p
    simp only [List.foldlM_cons, assignAll, pySet]
    cases normIdx conv.length o with
    | none => rfl
    | some k => exact ih _

theorem foldlM_pySet_const (idx : List Int) (x : Int) (conv : List Int) :
    idx.foldlM (m := Py) (fun acc i => pySet acc i x) conv
      = (idx.zip (List.replicate idx.length x)).foldlM (m := Py) (fun acc p => pySet acc p.1 p.2) conv := by
  induction idx generalizing conv with
  | nil => rfl
  | cons i is ih =>
    simp only [List.foldlM_cons, List.length_cons, List.replicate_succ, List.zip_cons_cons]
    congr 1; funext c; exact ih c

theorem assignAll_length {conv c : List Int} {ps : List (Int × Int)} (h : assignAll conv ps = some c) :
    c.length = conv.length := by
  induction ps generalizing conv with
  | nil => simp only [assignAll, Option.some.injEq] at h; subst h; rfl
  | cons p ps ih =>
    obtain ⟨o, v⟩ := p
    simp only [assignAll] at h
    split at h
    · cases h
    · rw [ih h, List.length_set]

/-! ### `conv[array]` -/

theorem pyGet_of_range {l : List Int} {i : Int} (h0 : 0 ≤ i) (h1 : i < l.length) :
    pyGet l i = .ok (l.getD i.toNat 0) := by
  have h2 : i.toNat < l.length := by omega
  simp only [pyGet, normIdx, h0, h1, if_true, List.getElem?_eq_getElem h2, List.getD_eq_getElem?_getD,
    Option.getD_some]

theorem npTake_of_range (conv : List Int) (idx : List Int) (h : ∀ i ∈ idx, 0 ≤ i ∧ i < conv.length) :
    npTake conv idx = .ok (idx.map (fun i => conv.getD i.toNat 0)) := by
  unfold npTake
  induction idx with
  | nil => rfl
  | cons i is ih =>
    have hi := h i List.mem_cons_self
    rw [List.mapM_cons, pyGet_of_range hi.1 hi.2, ih (fun j hj => h j (List.mem_cons_of_mem _ hj))]
    rfl

/-! ### `_flatten_data` / `_unflatten_data` -/

/-- running sums of `xs` on top of `s` -/
def cums (s : Int) : List Int → List Int
  | [] => []
  | x :: xs => (s + x) :: cums (s + x) xs

theorem npCumsumInt_go (xs acc : List Int) (s : Int) :
    (xs.foldl (fun (a : List Int × Int) x => (a.1 ++ [a.2 + x], a.2 + x)) (acc, s)).1 = acc ++ cums s xs := by
  induction xs generalizing acc s with
  | nil => simp [cums]
  | cons x xs ih => simp only [List.foldl_cons, ih, cums, List.append_assoc, List.singleton_append]

theorem npCumsumInt_eq (xs : List Int) : npCumsumInt xs = cums 0 xs := by
  unfold npCumsumInt
  rw [npCumsumInt_go]; rfl

theorem pySlice_nat (v : List Int) (p n : Nat) :
    pySlice v (some (p : Int)) (some ((p : Int) + (n : Int))) = (v.drop p).take n := by
  simp only [pySlice, pyBound]
  have h1 : ¬ ((p : Int) < 0) := by omega
  have h2 : ¬ ((p : Int) + (n : Int) < 0) := by omega
  have e1 : ((p : Int)).toNat = p := by omega
  have e2 : ((p : Int) + (n : Int)).toNat = p + n := by omega
  simp only [h1, h2, if_false, e1, e2]
  by_cases hp : p ≤ v.length
  · rw [Nat.min_eq_left hp, List.take_eq_take_iff, List.length_drop]
    omega
  · rw [List.drop_of_length_le (l := v) (i := p) (by omega), List.drop_of_length_le (by omega)]
    simp

theorem pySlice_from_nat (v : List Int) (p : Nat) :
    pySlice v (some (p : Int)) none = v.drop p := by
  simp only [pySlice, pyBound]
  have h1 : ¬ ((p : Int) < 0) := by omega
  have e1 : ((p : Int)).toNat = p := by omega
  simp only [h1, if_false, e1]
  rw [List.take_of_length_le (Nat.le_of_eq List.length_drop)]
  by_cases hp : p ≤ v.length
  · rw [Nat.min_eq_left hp]
  · rw [List.drop_of_length_le (by omega), List.drop_of_length_le (by omega)]

theorem npSplit_go (v : List Int) (lens : List Nat) (p : Nat) :
    npSplit.go v (p : Int) (cums (p : Int) (lens.map (fun (n : Nat) => (n : Int))))
      = unflatten lens (v.drop p) ++ [v.drop (p + lens.sum)] := by
  induction lens generalizing p with
  | nil => simp [cums, npSplit.go, unflatten, pySlice_from_nat]
  | cons n ns ih =>
    simp only [List.map_cons, cums, npSplit.go, unflatten, List.sum_cons, List.cons_append]
    rw [pySlice_nat]
    have h := ih (p + n)
    rw [Int.natCast_add] at h
    rw [h, List.drop_drop, Nat.add_assoc]

theorem pySlice_dropLast (L : List (List Int)) (z : List Int) :
    pySlice (L ++ [z]) none (some (-1)) = L := by
  simp only [pySlice, pyBound, List.length_append, List.length_singleton, List.drop_zero]
  have h : ((-1 : Int) < 0) := by omega
  simp only [h, if_true]
  have : ((-1 : Int) + ((L.length + 1 : Nat) : Int)).toNat - 0 = L.length := by omega
  rw [this, List.take_left']
  rfl

theorem npUnflattenLL_flatten_gen (ts : List (List Int)) (v : List Int) :
    npUnflattenLL v (npFlattenLL ts).2 = unflatten (ts.map List.length) v := by
  unfold npUnflattenLL npFlattenLL npSplit
  simp only
  rw [npCumsumInt_eq]
  have h := npSplit_go v (ts.map List.length) 0
  simp only [List.map_map, Int.natCast_zero, List.drop_zero, Function.comp_def] at h
  rw [h, pySlice_dropLast]

/-! ### the table lookup as a whole -/

theorem arange_eq (n : Int) : npArange 0 n = (List.range n.toNat).map (fun (i : Nat) => (i : Int)) := by
  simp [npArange, pyRange]

/-- the translated body of `shift_data` after flattening, as one function of the flattened data -/
def shiftCore (data old new : List Int) : Py (List Int) := do
  let t2 ← npMinInt data
  let t3 ← npMinInt new
  let offset : Int := min t2 t3
  let array_2 := data.map (fun x_ => x_ - offset)
  let t4 ← npMaxInt array_2
  let conv ← npAssignAt (npArange 0 (t4 + 1)) (old.map (fun x_ => x_ - offset)) (new.map (fun x_ => x_ - offset))
  let t5 ← npTake conv array_2
  return ((t5.map npWrap32).map (fun x_ => x_ + offset))

theorem npAssignAt_of_length {conv old new : List Int} (h : old.length = new.length ∨ new.length ≠ 1) :
    npAssignAt conv old new
      = if old.length ≠ new.length then .error .value
        else (match assignAll conv (old.zip new) with | some c => .ok c | none => .error .index) := by
  unfold npAssignAt
  split
  · next x =>
    simp only [List.length_singleton] at h
    have h1 : old.length = 1 := by omega
    match old, h1 with
    | [o], _ =>
      simp only [List.length_singleton, ne_eq, not_true_eq_false, if_false, List.zip_cons_cons, List.zip_nil_right]
      rw [← foldlM_pySet_eq_assignAll]
      rfl
  · split
    · rfl
    · exact foldlM_pySet_eq_assignAll _ _

theorem npAssignAt_singleton (conv old : List Int) (x : Int) :
    npAssignAt conv old [x]
      = (match assignAll conv (old.zip (List.replicate old.length x)) with | some c => .ok c | none => .error .index) := by
  unfold npAssignAt
  simp only
  rw [foldlM_pySet_const, foldlM_pySet_eq_assignAll]

/-- the common part: once the assignment `conv[val_old] = val_new` is known to behave like `assignAll` on a pair list `ps`,
the rest of the translated body is the model's table lookup -/
theorem shiftCore_aux (data old new : List Int) (dmin nmin dmax : Int)
    (hd : minimum? data = some dmin) (hn : minimum? new = some nmin) (hx : maximum? data = some dmax)
    (ps : List (Int × Int)) (chk : Bool)
    (hassign : ∀ conv : List Int,
      npAssignAt conv (old.map (fun x_ => x_ - min dmin nmin)) (new.map (fun x_ => x_ - min dmin nmin))
        = if chk then .error .value
          else (match assignAll conv ps with | some c => .ok c | none => .error .index)) :
    shiftCore data old new
      = if chk then .error .value else
        match assignAll ((List.range (dmax - min dmin nmin + 1).toNat).map (fun (i : Nat) => (i : Int))) ps with
        | none => .error .index
        | some conv => .ok (data.map (fun x => wrap32 (conv.getD (x - min dmin nmin).toNat 0) + min dmin nmin)) := by
  unfold shiftCore
  rw [npMinInt_eq data, npMinInt_eq new, hd, hn]
  simp only [bind, Except.bind]
  rw [npMaxInt_eq, maximum?_map_sub, hx]
  simp only [Option.map_some, hassign, arange_eq]
  cases chk with
  | true => rfl
  | false =>
    simp only [Bool.false_eq_true, if_false]
    cases ha : assignAll ((List.range (dmax - min dmin nmin + 1).toNat).map (fun (i : Nat) => (i : Int))) ps with
    | none => rfl
    | some conv =>
      simp only
      have hlen : conv.length = (dmax - min dmin nmin + 1).toNat := by
        rw [assignAll_length ha, List.length_map, List.length_range]
      have hmin := (minimum?_spec hd).2
      have hmax := (maximum?_spec hx).2
      rw [npTake_of_range]
      · simp only [pure, Except.pure, List.map_map, Function.comp_def]
        rfl
      · intro i hi
        obtain ⟨x, hx', rfl⟩ := List.mem_map.mp hi
        have h1 := hmin x hx'
        have h2 := hmax x hx'
        rw [hlen]
        omega

theorem shiftCore_nil_data (old new : List Int) : shiftCore [] old new = .error .value := rfl

theorem shiftCore_nil_new (data old : List Int) : shiftCore data old [] = .error .value := by
  unfold shiftCore
  cases data <;> rfl

theorem minimum?_eq_none {l : List Int} (h : minimum? l = none) : l = [] := by
  cases l with
  | nil => rfl
  | cons x xs => simp [minimum?] at h

/-- the translated body equals the model `shiftFlat` unless `val_new` has exactly one entry and `val_old` not exactly one -/
theorem shiftCore_eq_shiftFlat (data old new : List Int) (h : old.length = new.length ∨ new.length ≠ 1) :
    shiftCore data old new = shiftFlat data old new := by
  cases hd : minimum? data with
  | none => rw [minimum?_eq_none hd]; rfl
  | some dmin =>
    cases hn : minimum? new with
    | none =>
      rw [minimum?_eq_none hn, shiftCore_nil_new]
      simp only [shiftFlat, hd]
      rfl
    | some nmin =>
      have hne : data ≠ [] := by intro h0; rw [h0] at hd; simp [minimum?] at hd
      obtain ⟨dmax, hx⟩ := maximum?_isSome hne
      rw [shiftCore_aux data old new dmin nmin dmax hd hn hx
        ((old.map (fun x_ => x_ - min dmin nmin)).zip (new.map (fun x_ => x_ - min dmin nmin)))
        (decide (old.length ≠ new.length))]
      · simp only [shiftFlat, hd, hn, hx, decide_eq_true_eq]
        split
        · rfl
        · generalize assignAll _ _ = a
          cases a <;> rfl
      · intro conv
        rw [npAssignAt_of_length (by simpa using h)]
        simp only [List.length_map, decide_eq_true_eq]

/-- broadcasting: a one-entry `val_new` is used for every entry of a non-empty `val_old` -/
theorem shiftCore_broadcast (data old : List Int) (x : Int) (hne : old ≠ []) :
    shiftCore data old [x] = shiftFlat data old (List.replicate old.length x) := by
  cases hd : minimum? data with
  | none => rw [minimum?_eq_none hd]; rfl
  | some dmin =>
    have hne' : data ≠ [] := by intro h0; rw [h0] at hd; simp [minimum?] at hd
    obtain ⟨dmax, hx⟩ := maximum?_isSome hne'
    have hn : minimum? [x] = some x := rfl
    have hn' : minimum? (List.replicate old.length x) = some x := by
      cases old with
      | nil => exact absurd rfl hne
      | cons o os =>
        simp only [List.length_cons, List.replicate_succ, minimum?, Option.some.injEq]
        generalize os.length = n
        induction n with
        | zero => rfl
        | succ n ih => simpa [List.replicate_succ] using ih
    rw [shiftCore_aux data old [x] dmin x dmax hd hn hx
      ((old.map (fun x_ => x_ - min dmin x)).zip ((List.replicate old.length x).map (fun x_ => x_ - min dmin x))) false]
    · simp only [shiftFlat, hd, hn', hx, List.length_replicate, ne_eq, not_true_eq_false, if_false,
        Bool.false_eq_true]
      generalize assignAll _ _ = a
      cases a <;> rfl
    · intro conv
      simp only [List.map_cons, List.map_nil, npAssignAt_singleton, List.length_map, List.map_replicate,
        Bool.false_eq_true, if_false]

/-- broadcasting onto an empty `val_old`: nothing is assigned, only the offset (and the int32 cast) is applied -/
theorem shiftCore_broadcast_nil (data : List Int) (x : Int) :
    shiftCore data [] [x]
      = match minimum? data with
        | none => .error .value
        | some dmin => .ok (data.map (fun v => wrap32 (v - min dmin x) + min dmin x)) := by
  cases hd : minimum? data with
  | none => rw [minimum?_eq_none hd]; rfl
  | some dmin =>
    have hne' : data ≠ [] := by intro h0; rw [h0] at hd; simp [minimum?] at hd
    obtain ⟨dmax, hx⟩ := maximum?_isSome hne'
    have hn : minimum? [x] = some x := rfl
    rw [shiftCore_aux data [] [x] dmin x dmax hd hn hx [] false]
    · simp only [Bool.false_eq_true, if_false, assignAll]
      congr 1
      apply List.map_congr_left
      intro v hv
      have h1 := (minimum?_spec hd).2 v hv
      have h2 := (maximum?_spec hx).2 v hv
      have h3 : (v - min dmin x).toNat < (dmax - min dmin x + 1).toNat := by omega
      simp only [List.getD_eq_getElem?_getD, List.getElem?_map, List.getElem?_range h3, Option.map_some,
        Option.getD_some]
      congr 2; omega
    · intro conv
      simp [npAssignAt_singleton, assignAll]

theorem shift_data_eq_core (ts : List (List Int)) (old new : List Int) :
    UtilsRelabel.shift_data ts old new
      = (shiftCore ts.flatten old new).map (unflatten (ts.map List.length)) := by
  unfold UtilsRelabel.shift_data shiftCore
  simp only [bind, Except.bind, pure, Except.pure, npUnflattenLL_flatten_gen]
  simp only [show (npFlattenLL ts).1 = ts.flatten from rfl]
  cases npMinInt ts.flatten with
  | error e => rfl
  | ok v =>
    cases npMinInt new with
    | error e => rfl
    | ok v1 =>
      simp only
      cases npMaxInt (List.map (fun x_ => x_ - min v v1) ts.flatten) with
      | error e => rfl
      | ok v2 =>
        simp only
        cases npAssignAt (npArange 0 (v2 + 1)) (List.map (fun x_ => x_ - min v v1) old)
            (List.map (fun x_ => x_ - min v v1) new) with
        | error e => rfl
        | ok v3 =>
          simp only
          cases npTake v3 (List.map (fun x_ => x_ - min v v1) ts.flatten) with
          | error e => rfl
          | ok v4 => rfl

/-! ### index arrays -/

theorem arange_succ (n : Nat) :
    (npArange 0 (n : Int)).map (fun x_ => x_ + 1) = (List.range n).map (fun (i : Nat) => (i : Int) + 1) := by
  simp [arange_eq]

theorem except_map_map {α β γ : Type} (f : α → β) (g : β → γ) (x : Except Err α) :
    (x.map f).map g = x.map (g ∘ f) := by
  cases x <;> rfl
