"""C09 — Chapman-Kolmogorov test reports powers of T(tau) against direct T(k tau)."""
import numpy as np

import core
import gen
from props.c03 import sample_chain

PID = 'C09'
ANCHORS = [('src/msmhelper/msm/tests.py', ['chapman_kolmogorov_test', '_chapman_kolmogorov_test', '_chapman_kolmogorov_test_md', '_calc_times'])]
RULE = ('plain and lumped trajectory sets (2-5 states, 1-3 trajectories, arbitrary labels), lag lists of 1-3 lags in any order (also lags above tmax), '
        'tmax from the smallest lag up to 40; malformed: non-integer / non-positive lags. Model curves compared with exact rational matrix powers (1e-9; '
        '1e-6 for Hummer-Szabo models), the reference grid by the predicate of the property, reference values at the grid\'s own times (1e-12), '
        'ergodicity flags with the exact predicates. Non-trivial = >=2 time points for some lag; distinct by (trajs, lags, tmax).')
RELATION = 'ck_test(trajs, lags, tmax) satisfies Timescales.ckTimes / ckCurves (exact powers of Msm.estimate resp. Linalg.hsProject) and refGridOk'
PARTIAL = 'np.geomspace rounding of the reference grid is free in the property and not modelled; judged by the grid predicate'


def _mk(trajs, lags, tmax, micro=None, positive=False, src='rand', bad=None):
    return {'op': 'ck', 'trajs': trajs, 'lags': lags, 'tmax': tmax, 'micro': micro, 'positive': positive, 'src': src, 'bad': bad}


def cases(tier, rng, boost=1):
    yield _mk([[1, 1, 2, 1, 2, 2, 1, 2, 1, 1, 2, 2, 2, 1, 1]], [4, 1, 2], 6, src='corpus')        # unsorted lag list
    yield _mk([[0, 2, 1, 0, 2, 1, 1, 1, 1, 1, 0, 2, 2, 2, 2, 1]], [3], 15, src='corpus')            # T(3) not diagonalisable (eigenvalues 1, 1/6, 1/6)
    # metastable two-state model (dwell time ~20 frames, second eigenvalue ~0.9) and a LONG curve: the late part must still be diag(T^k), although T^k
    # changes by less than 1e-8 per step (k > ~150) long before it has converged to 1e-9
    meta = []
    for b_ in range(100):
        meta += [b_ % 2] * (20 + (b_ * 7) % 3)
    yield _mk([meta], [1], 400, src='corpus-long')
    yield _mk([meta], [5, 2], 700, src='corpus-long')
    n = {'quick': 120, 'thorough': 1500, 'search': 400}[tier] * boost
    for _ in range(n):
        ns = rng.randint(2, 5)
        labs, _ = gen.alphabet(rng, ns)
        idx = [sample_chain(rng, ns, rng.choice([30, 60, 120])) for _ in range(rng.randint(1, 3))]
        if rng.random() < 0.4:
            ns = 3
            labs = [0, 1, 2]
            idx = [gen.random_traj(rng, 3, rng.randint(12, 20), 0.4)]      # short data: repeated / defective eigenvalues occur
        trajs = gen.relabel(idx, labs)
        nl = rng.randint(1, 3)
        lags = rng.sample(range(1, 7), nl)
        tmax = rng.randint(min(lags), 40)
        r = rng.random()
        if r < 0.25 and ns >= 3:
            m = rng.randint(2, ns - 1)
            f = [rng.randrange(m) for _ in range(ns)]
            for a in range(m):
                f[rng.randrange(ns)] = a
            if len(set(f)) == m:
                alabs, _ = gen.alphabet(rng, m)
                macro = [[alabs[f[i]] for i in t] for t in idx]
                yield _mk(macro, lags, tmax, micro=trajs, positive=rng.random() < 0.3, src='lumped')
                continue
        if r > 0.95:
            yield _mk(trajs, lags, tmax, bad=rng.choice(['float', 'zero', 'negtmax']))
            continue
        yield _mk(trajs, lags, tmax)


def real(case):
    import msmhelper as mh
    if case['micro'] is not None:
        arg = mh.LumpedStateTraj([np.array(t) for t in case['trajs']], [np.array(t) for t in case['micro']], positive=case['positive'])
    else:
        arg = [np.array(t) for t in case['trajs']]
    lags, tmax = list(case['lags']), case['tmax']
    if case['bad'] == 'float':
        lags = [float(x) + 0.5 for x in lags]
    elif case['bad'] == 'zero':
        lags = lags + [0]
    elif case['bad'] == 'negtmax':
        tmax = -3

    def run():
        if case['micro'] is None and not case['bad']:
            # a call on OTHER data with the same lag times and tmax just before: results must not leak between calls
            # (temporary objects of the previous call are freed, their addresses get re-used)
            occ = sorted({x for t in case['trajs'] for x in t})
            if len(occ) >= 2:
                drng = core.Rng(len(case['trajs'][0]) * 7 + tmax)
                decoy = [np.array([drng.choice(occ) for _ in range(len(t))]) for t in case['trajs']]
                try:
                    mh.msm.ck_test(decoy, lags, tmax)
                except Exception:  # noqa
                    pass
                del decoy
        ck = mh.msm.ck_test(arg, lags, tmax)
        keys = [k for k in ck if k != 'md']
        states = None
        out_l = []
        for k in keys:
            d = ck[k]
            st = [int(s) for s in d['ck'].keys()]
            states = st if states is None else states
            if st != states:
                raise AssertionError('state keys differ between lags')
            out_l.append({'lag': int(k), 'time': [int(t) for t in d['time']],
                          'ck': [[core.rat_str(float(v)) for v in d['ck'][s]] for s in d['ck']],
                          'is_ergodic': bool(d['is_ergodic']), 'is_fuzzy': bool(d['is_fuzzy_ergodic'])})
        md = ck['md']
        if [int(s) for s in md['ck'].keys()] != states:
            raise AssertionError('state keys of the reference differ')
        return {'states': states, 'lags': out_l,
                'md': {'time': [int(t) for t in md['time']], 'ck': [[core.rat_str(float(v)) for v in md['ck'][s]] for s in md['ck']],
                       'is_ergodic': [bool(b) for b in md['is_ergodic']], 'is_fuzzy': [bool(b) for b in md['is_fuzzy_ergodic']]}}
    out = core.call(run)
    out.pop('msg', None)
    return out


def request(case, obs):
    if 'err' in obs:
        return {'op': 'ping'}
    r = {'op': 'ck', 'trajs': case['trajs'], 'lags': case['lags'], 'tmax': case['tmax'], 'obs': obs}
    if case['micro'] is not None:
        r['micro'] = case['micro']
        r['positive'] = case['positive']
    return r


def _expected_err(case):
    return 'TypeError' if case['bad'] else None


def agree(case, obs, reply):
    return holds(case, obs, reply)


def holds(case, obs, reply):
    if 'err' in obs:
        exp = _expected_err(case)
        if exp:
            return obs['err'] == exp
        # a lumped model may be refused when the micro model is not ergodic
        return case['micro'] is not None and obs['err'] == 'TypeError'
    if _expected_err(case):
        return False
    return bool(reply.get('holds'))


def nontrivial(case, obs, reply):
    return 'ok' in obs and any(len(l['time']) >= 2 for l in obs['ok']['lags'])


def key(case):
    return [case['trajs'], case['micro'], case['lags'], case['tmax'], case['bad']]


def classify(case, obs, reply):
    return '%s/%s/%s' % (case['src'], case['bad'] or 'valid', obs.get('err', 'ok'))


def known_match(k, case, obs, reply):
    return False
