/-
Props/C05.lean — property theorems for C05 (dynamical coring).  Helper lemmas live in Lemmas/Coring.lean.

Reading of the property: the *reference rule* is `Coring.coreRef τ` (first core = first window of `τ` equal
frames; a frame opens a new core iff the window test `remains τ` holds on the suffix starting there;
otherwise it takes the current core), `Coring.refOne` applies it with windows `2..τ` (iterative) or `τ`,
`Coring.refSet` maps it over the trajectories.  The *model of the code* is `Coring.dynamicalCoring`
(StateTraj encoding, sentinel `-1`, last-frame shortcut, stage-wise schedule over the whole set).
-/
import MsmVerif.Lemmas.Coring

namespace MsmVerif.C05
open MsmVerif MsmVerif.Coring

/-- the window test is the declarative window predicate: `τ` frames starting here, inside the trajectory,
all carrying the label of the first -/
theorem remains_iff_window (τ : Nat) (hτ : 1 ≤ τ) (x : Int) (rest : List Int) :
    remains τ (x :: rest) = true ↔
      τ ≤ (x :: rest).length ∧ ∀ j, j < τ → (x :: rest)[j]? = some x := by
  simp only [remains, Bool.and_eq_true, decide_eq_true_eq, List.all_eq_true, beq_iff_eq, List.length_cons]
  constructor
  · rintro ⟨h1, h2⟩
    refine ⟨h1, ?_⟩
    intro j hj
    cases j with
    | zero => simp
    | succ j =>
      have hlt : j < rest.length := by omega
      simp only [List.getElem?_cons_succ]
      rw [List.getElem?_eq_getElem hlt]
      congr 1
      apply h2
      exact List.mem_take_iff_getElem.mpr ⟨j, by omega, rfl⟩
  · rintro ⟨h1, h2⟩
    refine ⟨h1, ?_⟩
    intro y hy
    obtain ⟨j, hj, rfl⟩ := List.mem_take_iff_getElem.mp hy
    have := h2 (j + 1) (by omega)
    simp only [List.getElem?_cons_succ] at this
    have hlt : j < rest.length := by omega
    rw [List.getElem?_eq_getElem hlt] at this
    exact Option.some.inj this

/-- same number of frames -/
theorem length (τ : Nat) (t r : List Int) (h : coreRef τ t = some r) : r.length = t.length := by
  simp only [coreRef, Option.map_eq_some_iff] at h
  obtain ⟨c, _, rfl⟩ := h
  exact scanWith_length _ _ _

/-- only labels of that input trajectory -/
theorem labels_subset (τ : Nat) (t r : List Int) (h : coreRef τ t = some r) : ∀ y ∈ r, y ∈ t := by
  simp only [coreRef, Option.map_eq_some_iff] at h
  obtain ⟨c, hc, rfl⟩ := h
  intro y hy
  rcases scanWith_mem _ _ _ _ hy with h | h
  · exact h ▸ firstCore_mem τ t c hc
  · exact h

/-- every maximal constant run of the result is at least `τ` frames long -/
theorem runs_ge (τ : Nat) (hτ : 1 ≤ τ) (t r : List Int) (h : coreRef τ t = some r) : AllRunsGE τ r := by
  simp only [coreRef, Option.map_eq_some_iff] at h
  obtain ⟨c, hc, rfl⟩ := h
  exact okFrom_zero_allRuns hτ c _ (scan_firstCore_okFrom τ t c 0 hc)

/-- a trajectory all of whose runs are `≥ τ` is a fixed point of the rule -/
theorem fixed_of_runs (τ : Nat) (hτ : 1 ≤ τ) : ∀ (t : List Int), t ≠ [] → AllRunsGE τ t → coreRef τ t = some t := by
  intro t hne h
  cases t with
  | nil => exact absurd rfl hne
  | cons x xs =>
    have key : ∀ (l : List Int) (c : Int) (j : Nat), okFrom τ c j l → scanWith (remains τ) c l = l := by
      intro l
      induction l with
      | nil => intro c j _; simp [scanWith]
      | cons y ys ih =>
        intro c j hl
        by_cases hy : y = c
        · subst hy
          simp only [okFrom, if_true] at hl
          simp only [scanWith, if_true, ih y (j + 1) hl]
        · simp only [okFrom, if_neg hy] at hl
          have hr : remains τ (y :: ys) = true := by
            simp only [remains, Bool.and_eq_true, decide_eq_true_eq, List.all_eq_true, beq_iff_eq]
            refine ⟨by have := okFrom_length ys y 1 hl.2; omega, ?_⟩
            intro z hz
            obtain ⟨i, hi, rfl⟩ := List.mem_take_iff_getElem.mp hz
            have hi' : i < ys.length := by omega
            have := okFrom_prefix ys y 1 i hl.2 (by omega)
            rw [List.getElem?_eq_getElem hi'] at this
            exact Option.some.inj this
          simp only [scanWith, if_neg hy, hr, if_true, ih y 1 hl.2]
    have hx : okFrom τ x 1 xs := h
    have hr : remains τ (x :: xs) = true := by
      simp only [remains, Bool.and_eq_true, decide_eq_true_eq, List.all_eq_true, beq_iff_eq]
      refine ⟨by have := okFrom_length xs x 1 hx; omega, ?_⟩
      intro z hz
      obtain ⟨i, hi, rfl⟩ := List.mem_take_iff_getElem.mp hz
      have hi' : i < xs.length := by omega
      have := okFrom_prefix xs x 1 i hx (by omega)
      rw [List.getElem?_eq_getElem hi'] at this
      exact Option.some.inj this
    simp only [coreRef, firstCore, hr, if_true, Option.map_some, scanWith, key xs x 1 hx]

/-- coring an already cored result changes nothing -/
theorem idempotent (τ : Nat) (hτ : 1 ≤ τ) (t r : List Int) (h : coreRef τ t = some r) : coreRef τ r = some r := by
  have hne : r ≠ [] := by
    intro e
    have hl := length τ t r h
    simp only [coreRef, Option.map_eq_some_iff] at h
    obtain ⟨c, hc, _⟩ := h
    have := firstCore_mem τ t c hc
    subst e
    simp at hl
    have : t = [] := List.eq_nil_of_length_eq_zero hl.symm
    subst this
    simp at *
  exact fixed_of_runs τ hτ r hne (runs_ge τ hτ t r h)

/-- the last-frame shortcut of the iterative mode is sound on input whose runs are all `≥ τ - 1`:
the loop with the shortcut test computes exactly the reference rule -/
theorem shortcut_sound (τ : Nat) (hτ : 2 ≤ τ) (t : List Int) (c : Int) (h : AllRunsGE (τ - 1) t) :
    scanWith (remainsShort τ) c t = scanWith (remains τ) c t := by
  apply scanWith_congr
  intro pre x rest e
  cases t with
  | nil => simp at e
  | cons y ys =>
    apply remainsShort_eq_remains hτ
    cases pre with
    | nil =>
      simp at e
      obtain ⟨rfl, rfl⟩ := e
      exact okFrom_tailOk _ _ _ h
    | cons p pre =>
      simp at e
      obtain ⟨rfl, rfl⟩ := e
      exact okFrom_suffix_tailOk _ _ _ h pre x rest rfl

/-- an error is raised exactly when the trajectory has no window of `τ` equal frames anywhere -/
theorem error_iff_no_core (τ : Nat) (t : List Int) :
    coreRef τ t = none ↔
      ∀ (pre : List Int) (x : Int) (rest : List Int), t = pre ++ x :: rest → remains τ (x :: rest) = false := by
  simp only [coreRef, Option.map_eq_none_iff]
  exact firstCore_none τ t

/-- `tau = 1` returns the input (public API; also for the reference) -/
theorem tau_one (ts : Trajs) (iter : Bool) : refSet ts 1 iter = .ok ts := by
  simp [refSet]

end MsmVerif.C05
