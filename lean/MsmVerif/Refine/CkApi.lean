/-
Refine/CkApi.lean — task RP22 (property C09): the PUBLIC function `chapman_kolmogorov_test(trajs, lagtimes, tmax)` of
`src/msmhelper/msm/tests.py`, as translated in `Gen/MsmCkApi.lean`, for a list of integer lag times.

The result dictionary `{lag: …, 'md': …}` is the pair (association list over the lag times in insertion order, reference entry).
The estimators (`trajs.estimate_markov_model`, with and without the settings of the trajectory object) and the rounded
geometric grid are ORACLE parameters (`est`, `estp`, `geo`), universally quantified.  The function sorts the lag times, rejects
non-positive lag times and a negative `tmax` (both `TypeError`), then fills the dictionary in ascending order of the lag time by
calling `_chapman_kolmogorov_test`, and finally calls `_chapman_kolmogorov_test_md` started at `lagtimes[0]` of the SORTED array
(the smallest lag time) with the default 30 steps.

Helper lemmas: `Refine/CkApiLemmas.lean` (same namespace).  The inner functions are related to the model in `Refine/CkTest.lean`.
-/
import MsmVerif.Refine.CkApiLemmas

namespace MsmVerif.Refine.CkApi
open MsmVerif MsmVerif.Gen MsmVerif.Linalg MsmVerif.Timescales

/-! ### rejected arguments -/

/-- **A lag time `≤ 0` is a `TypeError`.**  If any member of the lag-time list (at any position, whatever the other members
    are and whatever `tmax` is) is zero or negative, the function raises `TypeError` — for EVERY choice of the three oracles, i.e.
    before any estimator or the grid function is consulted. -/
theorem ck_api_rejects_nonpositive_lag (est estp : Int → Py ((List (List Rat)) × (List Int)))
    (geo : Int → Int → Int → Py (List Int)) (n : Int) (states lags : List Int) (tmax : Int)
    (l : Int) (hl : l ∈ lags) (hl0 : l ≤ 0) :
    Gen.MsmCkApi.chapman_kolmogorov_test est estp geo n states lags tmax = .error .type := by
  rw [api_unfold, if_pos]
  cases h : (npSortInt lags).all (fun x => decide (0 < x)) with
  | false => rfl
  | true =>
    have := (all_pos_iff lags).mp h l hl
    omega

/-- **A negative `tmax` is a `TypeError`.**  For every lag-time list (positive lag times or not, even the empty list) a
    negative `tmax` makes the function raise `TypeError`, for every choice of the oracles (none is consulted). -/
theorem ck_api_rejects_negative_tmax (est estp : Int → Py ((List (List Rat)) × (List Int)))
    (geo : Int → Int → Int → Py (List Int)) (n : Int) (states lags : List Int) (tmax : Int) (htmax : tmax < 0) :
    Gen.MsmCkApi.chapman_kolmogorov_test est estp geo n states lags tmax = .error .type := by
  rw [api_unfold]
  by_cases h1 : (npSortInt lags).all (fun x => decide (0 < x)) = false
  · rw [if_pos h1]
  · rw [if_neg h1, if_pos htmax]

/-- **The empty lag-time list.**  With no lag time at all the positivity check passes vacuously; a negative `tmax` is still a
    `TypeError`; otherwise the loop does nothing and `lagtimes[0]` raises `IndexError` (no oracle is consulted). -/
theorem ck_api_empty (est estp : Int → Py ((List (List Rat)) × (List Int)))
    (geo : Int → Int → Int → Py (List Int)) (n : Int) (states : List Int) (tmax : Int) :
    Gen.MsmCkApi.chapman_kolmogorov_test est estp geo n states [] tmax
      = if tmax < 0 then .error .type else .error .index := by
  rw [api_unfold]
  rfl

/-! ### accepted arguments -/

/-- **The public function in terms of the two inner functions.**  Let all lag times be `≥ 1`, `tmax ≥ 0`, and let `m` be the
    smallest member of the (hence non-empty) lag-time list.  Then, for every choice of the oracles and whatever the ORDER of the
    list is, the function behaves exactly like this program: go through the DISTINCT lag times in ASCENDING order
    (`sortDedup lags`), compute for each lag time `τ` the entry `(τ, _chapman_kolmogorov_test(trajs, τ, tmax))`; then compute the
    reference entry `_chapman_kolmogorov_test_md(trajs, tmin = m, tmax, steps = 30)`; return both.  A lag time listed twice appears once.
    The equation also fixes the errors: the error raised is the one of the first failing call in this order (smallest failing
    lag time first, the reference call last). -/
theorem ck_api_refines (est estp : Int → Py ((List (List Rat)) × (List Int)))
    (geo : Int → Int → Int → Py (List Int)) (n : Int) (states lags : List Int) (tmax m : Int)
    (hpos : ∀ l ∈ lags, 1 ≤ l) (htmax : 0 ≤ tmax) (hm : m ∈ lags) (hmin : ∀ l ∈ lags, m ≤ l) :
    Gen.MsmCkApi.chapman_kolmogorov_test est estp geo n states lags tmax =
      (do let entries ← (sortDedup lags).mapM
            (fun τ => do let r ← Gen.MsmTests.chapman_kolmogorov_test est n states τ tmax; pure (τ, r))
          let md ← Gen.MsmTests.chapman_kolmogorov_test_md estp geo n states m tmax 30
          pure (entries, md)) := by
  obtain ⟨hs, hp⟩ := Times.npSortInt_sorted_perm lags
  rw [api_unfold, if_neg (by rw [(all_pos_iff lags).mpr hpos]; exact Bool.noConfusion), if_neg (by omega),
    apiTail_eq _ _ _ hs, npSortInt_head lags m hm hmin,
    sortDedup_congr (npSortInt lags) lags (fun x => ⟨fun h => hp.subset h, fun h => hp.symm.subset h⟩)]
  rfl

/-- **The same, with the smallest lag time written as `lags.min?`.**  For a non-empty list of lag times `≥ 1` and `tmax ≥ 0` the list has a
    minimum `m` (`lags.min? = some m`), and the function is the program of `ck_api_refines` with the reference curve started at that `m`. -/
theorem ck_api_refines_min (est estp : Int → Py ((List (List Rat)) × (List Int)))
    (geo : Int → Int → Int → Py (List Int)) (n : Int) (states lags : List Int) (tmax : Int)
    (hpos : ∀ l ∈ lags, 1 ≤ l) (htmax : 0 ≤ tmax) (hne : lags ≠ []) :
    ∃ m, lags.min? = some m ∧
      Gen.MsmCkApi.chapman_kolmogorov_test est estp geo n states lags tmax =
        (do let entries ← (sortDedup lags).mapM
              (fun τ => do let r ← Gen.MsmTests.chapman_kolmogorov_test est n states τ tmax; pure (τ, r))
            let md ← Gen.MsmTests.chapman_kolmogorov_test_md estp geo n states m tmax 30
            pure (entries, md)) := by
  obtain ⟨m, hm, hmin⟩ := exists_min lags hne
  exact ⟨m, List.min?_eq_some_iff.mpr ⟨hm, hmin⟩, ck_api_refines est estp geo n states lags tmax m hpos htmax hm hmin⟩

/-- **Only the SET of lag times matters.**  Two lag-time lists with the same members (any order, any multiplicities; no
    further hypothesis) give the same result — value or error. -/
theorem ck_api_order_irrelevant (est estp : Int → Py ((List (List Rat)) × (List Int)))
    (geo : Int → Int → Int → Py (List Int)) (n : Int) (states lags lags' : List Int) (tmax : Int)
    (hsame : ∀ x, x ∈ lags ↔ x ∈ lags') :
    Gen.MsmCkApi.chapman_kolmogorov_test est estp geo n states lags tmax
      = Gen.MsmCkApi.chapman_kolmogorov_test est estp geo n states lags' tmax := by
  by_cases htmax : tmax < 0
  · rw [ck_api_rejects_negative_tmax _ _ _ _ _ _ _ htmax, ck_api_rejects_negative_tmax _ _ _ _ _ _ _ htmax]
  · by_cases hpos : ∀ l ∈ lags, 1 ≤ l
    · by_cases hne : lags = []
      · subst hne
        have : lags' = [] := List.eq_nil_iff_forall_not_mem.mpr (fun x hx => by simpa using (hsame x).mpr hx)
        rw [this]
      · obtain ⟨m, hm, hmin⟩ := exists_min lags hne
        rw [ck_api_refines est estp geo n states lags tmax m hpos (by omega) hm hmin,
          ck_api_refines est estp geo n states lags' tmax m (fun l hl => hpos l ((hsame l).mpr hl)) (by omega)
            ((hsame m).mp hm) (fun l hl => hmin l ((hsame l).mpr hl)),
          sortDedup_congr lags lags' hsame]
    · have : ∃ l, l ∈ lags ∧ l ≤ 0 := by
        refine Classical.byContradiction (fun hc => hpos (fun l hl => ?_))
        refine Classical.byContradiction (fun hl1 => hc ⟨l, hl, by omega⟩)
      obtain ⟨l, hl, hl0⟩ := this
      rw [ck_api_rejects_nonpositive_lag _ _ _ _ _ _ _ l hl hl0,
        ck_api_rejects_nonpositive_lag _ _ _ _ _ _ _ l ((hsame l).mp hl) hl0]

/-- **The keys of the result.**  Whenever the function returns a result for a list of lag times `≥ 1` (with `tmax ≥ 0`), the keys
    of the dictionary, in insertion order, are exactly the distinct lag times in strictly ascending order — whatever the order of
    the argument, every lag time once.  (Without the initial `np.sort` the keys would come in the order of the argument.) -/
theorem ck_api_keys (est estp : Int → Py ((List (List Rat)) × (List Int)))
    (geo : Int → Int → Int → Py (List Int)) (n : Int) (states lags : List Int) (tmax : Int)
    (hpos : ∀ l ∈ lags, 1 ≤ l) (htmax : 0 ≤ tmax) (entries md)
    (h : Gen.MsmCkApi.chapman_kolmogorov_test est estp geo n states lags tmax = .ok (entries, md)) :
    entries.map Prod.fst = sortDedup lags ∧ (entries.map Prod.fst).Pairwise (· < ·) ∧
      (∀ τ, τ ∈ entries.map Prod.fst ↔ τ ∈ lags) ∧
      (∀ p ∈ entries, Gen.MsmTests.chapman_kolmogorov_test est n states p.1 tmax = .ok p.2) := by
  have hne : lags ≠ [] := by
    rintro rfl
    rw [ck_api_empty, if_neg (by omega)] at h
    cases h
  obtain ⟨m, hm, hmin⟩ := exists_min lags hne
  rw [ck_api_refines est estp geo n states lags tmax m hpos htmax hm hmin] at h
  change (do let entries ← (sortDedup lags).mapM
                (apiEntry (fun τ => Gen.MsmTests.chapman_kolmogorov_test est n states τ tmax))
             let md ← Gen.MsmTests.chapman_kolmogorov_test_md estp geo n states m tmax 30
             pure (entries, md)) = _ at h
  cases hd : (sortDedup lags).mapM (apiEntry (fun τ => Gen.MsmTests.chapman_kolmogorov_test est n states τ tmax)) with
  | error e => rw [hd] at h; cases h
  | ok d =>
    rw [hd] at h
    cases hmd : Gen.MsmTests.chapman_kolmogorov_test_md estp geo n states m tmax 30 with
    | error e => rw [hmd] at h; cases h
    | ok r =>
      rw [hmd] at h
      have h' : (d, r) = (entries, md) := Except.ok.inj h
      obtain ⟨rfl, rfl⟩ := Prod.mk.inj h'
      obtain ⟨h1, h2⟩ := mapM_entry_ok _ _ d hd
      refine ⟨h1, ?_, ?_, h2⟩
      · rw [h1]; exact sortDedup_pairwise lags
      · intro τ; rw [h1]; exact mem_sortDedup

/-- **Which error is raised.**  Lag times `≥ 1`, `tmax ≥ 0`.  If the distinct lag times in ascending order are
    `pre ++ t0 :: rest`, `_chapman_kolmogorov_test` succeeds for the lag times of `pre` and raises `e` at `t0`, then the public function
    raises `e` (the larger lag times and the reference curve are not tried) — whatever the order of the argument. -/
theorem ck_api_first_error (est estp : Int → Py ((List (List Rat)) × (List Int)))
    (geo : Int → Int → Int → Py (List Int)) (n : Int) (states lags : List Int) (tmax : Int)
    (hpos : ∀ l ∈ lags, 1 ≤ l) (htmax : 0 ≤ tmax) (pre : List Int) (t0 : Int) (rest : List Int) (e : Err)
    (hsplit : sortDedup lags = pre ++ t0 :: rest)
    (hpre : ∀ τ ∈ pre, ∃ v, Gen.MsmTests.chapman_kolmogorov_test est n states τ tmax = .ok v)
    (h0 : Gen.MsmTests.chapman_kolmogorov_test est n states t0 tmax = .error e) :
    Gen.MsmCkApi.chapman_kolmogorov_test est estp geo n states lags tmax = .error e := by
  have hne : lags ≠ [] := by
    rintro rfl
    cases pre <;> cases hsplit
  obtain ⟨m, hm, hmin⟩ := exists_min lags hne
  rw [ck_api_refines est estp geo n states lags tmax m hpos htmax hm hmin, hsplit]
  change (do let entries ← (pre ++ t0 :: rest).mapM
                (apiEntry (fun τ => Gen.MsmTests.chapman_kolmogorov_test est n states τ tmax))
             let md ← Gen.MsmTests.chapman_kolmogorov_test_md estp geo n states m tmax 30
             pure (entries, md)) = _
  rw [mapM_entry_error _ e pre t0 rest hpre h0]
  rfl

/-- **The reference call's error.**  Lag times `≥ 1`, `tmax ≥ 0`, smallest lag time `m`.  If `_chapman_kolmogorov_test` succeeds for
    every lag time and the reference call `_chapman_kolmogorov_test_md(trajs, m, tmax, 30)` raises `e`, the public function raises `e`. -/
theorem ck_api_md_error (est estp : Int → Py ((List (List Rat)) × (List Int)))
    (geo : Int → Int → Int → Py (List Int)) (n : Int) (states lags : List Int) (tmax m : Int)
    (hpos : ∀ l ∈ lags, 1 ≤ l) (htmax : 0 ≤ tmax) (hm : m ∈ lags) (hmin : ∀ l ∈ lags, m ≤ l) (e : Err)
    (hall : ∀ τ ∈ lags, ∃ v, Gen.MsmTests.chapman_kolmogorov_test est n states τ tmax = .ok v)
    (hmd : Gen.MsmTests.chapman_kolmogorov_test_md estp geo n states m tmax 30 = .error e) :
    Gen.MsmCkApi.chapman_kolmogorov_test est estp geo n states lags tmax = .error e := by
  rw [ck_api_refines est estp geo n states lags tmax m hpos htmax hm hmin]
  change (do let entries ← (sortDedup lags).mapM
                (apiEntry (fun τ => Gen.MsmTests.chapman_kolmogorov_test est n states τ tmax))
             let md ← Gen.MsmTests.chapman_kolmogorov_test_md estp geo n states m tmax 30
             pure (entries, md)) = _
  have hv : ∀ τ, ∃ v, τ ∈ sortDedup lags → Gen.MsmTests.chapman_kolmogorov_test est n states τ tmax = .ok v := by
    intro τ
    by_cases hτ : τ ∈ lags
    · obtain ⟨v, hv⟩ := hall τ hτ
      exact ⟨v, fun _ => hv⟩
    · exact ⟨default, fun h => absurd (mem_sortDedup.mp h) hτ⟩
  rw [mapM_entry_of_ok _ (fun τ => (hv τ).choose) _ (fun τ hτ => (hv τ).choose_spec hτ), hmd]
  rfl

/-! ### the result in terms of the model -/

/-- **The full result in terms of the model.**  Lag times `≥ 1` with smallest member `m`, `tmax` a natural number.  Let the estimator,
    called with any listed lag time `τ`, return a non-empty square `n × n` rational matrix `T τ`; let `trajs.nstates = n` and `trajs.states` be
    `n` labels; let the grid oracle, called with `(m, tmax, 30)`, return `g`, and let the PLAIN estimator return a non-empty square `n × n`
    matrix `Tm t` for every time `t` of `g`.  Then the function raises nothing and returns
    * one entry per DISTINCT lag time `τ`, in ASCENDING order of `τ` (whatever the order of the argument), holding: the state labels paired
      with the model curves `ckCurves (T τ) τ tmax` — values `((T τ)^k)_{ss}` for `k = 1 … tmax / τ` —, the model grid
      `ckTimes τ tmax = [τ, 2τ, …]`, and the model's predicates `isErgodic (T τ)`, `isFuzzyErgodic (T τ)`;
    * the reference entry: times `sortDedup g` (ascending distinct grid values), for every state the diagonal elements `(Tm t)_{ss}` over
      these times, and the two predicates of `Tm t` over these times. -/
theorem ck_api_refines_model (est estp : Int → Py ((List (List Rat)) × (List Int)))
    (geo : Int → Int → Int → Py (List Int)) (n : Nat) (states lags : List Int) (tmax : Nat) (m : Int)
    (T : Int → Mat) (g : List Int) (Tm : Int → Mat)
    (hpos : ∀ l ∈ lags, 1 ≤ l) (hm : m ∈ lags) (hmin : ∀ l ∈ lags, m ≤ l)
    (hest : ∀ τ ∈ lags, ∃ sts, est τ = .ok (T τ, sts))
    (hT : ∀ τ ∈ lags, T τ ≠ [] ∧ Linalg.isSquare (T τ) = true ∧ (T τ).length = n)
    (hst : states.length = n)
    (hgeo : geo m (tmax : Int) 30 = .ok g)
    (hestp : ∀ t ∈ g, ∃ sts, estp t = .ok (Tm t, sts))
    (hTm : ∀ t ∈ g, Tm t ≠ [] ∧ Linalg.isSquare (Tm t) = true ∧ (Tm t).length = n) :
    Gen.MsmCkApi.chapman_kolmogorov_test est estp geo (n : Int) states lags (tmax : Int)
      = .ok ((sortDedup lags).map (fun τ =>
                (τ, (states.zip (ckCurves (T τ) τ.toNat tmax), (ckTimes τ.toNat tmax).map Int.ofNat,
                      Linalg.isErgodic (T τ), Linalg.isFuzzyErgodic (T τ)))),
             (states.zip ((List.range n).map (fun s => (sortDedup g).map (fun t => Linalg.entry (Tm t) s s))),
              sortDedup g,
              (sortDedup g).map (fun t => Linalg.isErgodic (Tm t)),
              (sortDedup g).map (fun t => Linalg.isFuzzyErgodic (Tm t)))) := by
  rw [ck_api_refines est estp geo n states lags tmax m hpos (by omega) hm hmin]
  change (do let entries ← (sortDedup lags).mapM
                (apiEntry (fun τ => Gen.MsmTests.chapman_kolmogorov_test est n states τ tmax))
             let md ← Gen.MsmTests.chapman_kolmogorov_test_md estp geo n states m tmax 30
             pure (entries, md)) = _
  rw [mapM_entry_of_ok _ (fun τ => (states.zip (ckCurves (T τ) τ.toNat tmax), (ckTimes τ.toNat tmax).map Int.ofNat,
      Linalg.isErgodic (T τ), Linalg.isFuzzyErgodic (T τ))),
    CkTest.ck_test_md_refines estp geo n states m tmax 30 g Tm hgeo hestp hTm hst]
  · rfl
  · intro τ hτ
    have hτ' := mem_sortDedup.mp hτ
    have h1 := hpos τ hτ'
    obtain ⟨sts, hs⟩ := hest τ hτ'
    obtain ⟨ha, hb, hc⟩ := hT τ hτ'
    have hcast : ((τ.toNat : Nat) : Int) = τ := by omega
    have := CkTest.ck_test_refines est (T τ) sts n states τ.toNat tmax (by omega) (by rw [hcast]; exact hs) ha hb hc hst
    rw [hcast] at this
    exact this

/-- **The reference grid of the result.**  Under the hypotheses of `ck_api_refines_model`, if moreover the oracle grid `g` starts with the
    smallest lag time `m` and all its values lie in `[m, tmax]` (as the rounded `np.geomspace(m, tmax, 30)` does), then the function returns a
    result whose keys are the distinct lag times in ascending order and whose reference times are natural numbers satisfying the model's
    predicate `refGridOk … m tmax`: they start with the SMALLEST lag time, never exceed `tmax`, and strictly increase; the reference curves
    and flags have one value per reference time. -/
theorem ck_api_model_refGridOk (est estp : Int → Py ((List (List Rat)) × (List Int)))
    (geo : Int → Int → Int → Py (List Int)) (n : Nat) (states lags : List Int) (tmax : Nat) (m : Int)
    (T : Int → Mat) (g : List Int) (Tm : Int → Mat)
    (hpos : ∀ l ∈ lags, 1 ≤ l) (hm : m ∈ lags) (hmin : ∀ l ∈ lags, m ≤ l)
    (hest : ∀ τ ∈ lags, ∃ sts, est τ = .ok (T τ, sts))
    (hT : ∀ τ ∈ lags, T τ ≠ [] ∧ Linalg.isSquare (T τ) = true ∧ (T τ).length = n)
    (hst : states.length = n)
    (hgeo : geo m (tmax : Int) 30 = .ok g)
    (hestp : ∀ t ∈ g, ∃ sts, estp t = .ok (Tm t, sts))
    (hTm : ∀ t ∈ g, Tm t ≠ [] ∧ Linalg.isSquare (Tm t) = true ∧ (Tm t).length = n)
    (hhead : g.head? = some m) (hr : ∀ t ∈ g, m ≤ t ∧ t ≤ (tmax : Int)) :
    ∃ entries ck times erg fuz,
      Gen.MsmCkApi.chapman_kolmogorov_test est estp geo (n : Int) states lags (tmax : Int) = .ok (entries, ck, times, erg, fuz)
      ∧ entries.map Prod.fst = sortDedup lags
      ∧ refGridOk (times.map Int.toNat) m.toNat tmax = true
      ∧ (times.map Int.toNat).map Int.ofNat = times
      ∧ ck.length = n ∧ (∀ p ∈ ck, p.2.length = times.length) ∧ erg.length = times.length ∧ fuz.length = times.length := by
  have hm1 := hpos m hm
  have hcast : ((m.toNat : Nat) : Int) = m := by omega
  have hgrid := (CkTest.ck_test_md_grid g).2.2 m.toNat tmax (by rw [hcast]; exact List.mem_of_mem_head? hhead)
    (by rw [hcast]; exact hr)
  refine ⟨_, _, _, _, _, ck_api_refines_model est estp geo n states lags tmax m T g Tm hpos hm hmin hest hT hst hgeo hestp hTm,
    ?_, hgrid.1, hgrid.2, ?_, ?_, ?_, ?_⟩
  · rw [List.map_map]
    exact List.map_id _
  · simp [hst]
  · intro p hp
    have := (List.of_mem_zip hp).2
    obtain ⟨s, _, hs⟩ := List.mem_map.mp this
    rw [← hs]
    simp
  · simp
  · simp

/-! ### non-vacuity: the unsorted lag-time list `[4, 1, 2, 1]` (lag time 1 twice), `tmax = 4`, concrete oracles -/

/-- equality of results is decidable (staged, to keep instance search small) -/
local instance decEntry : DecidableEq ((List (Int × (List Rat))) × (List Int) × Bool × Bool) := inferInstance
local instance decMd : DecidableEq ((List (Int × (List Rat))) × (List Int) × (List Bool) × (List Bool)) := inferInstance
local instance decEntries : DecidableEq (List (Int × ((List (Int × (List Rat))) × (List Int) × Bool × Bool))) := inferInstance

/-- a grid oracle that answers only the expected call (smallest lag time 1, `tmax = 4`, 30 steps) -/
def exGeo30 : Int → Int → Int → Py (List Int) :=
  fun tmin tmax steps => if tmin = 1 ∧ tmax = 4 ∧ steps = 30 then .ok [1, 1, 2, 4] else .error .assertion

/-- the value: keys `1, 2, 4` in ascending order, lag time 1 once; the reference entry starts at the smallest lag time 1 -/
example : Gen.MsmCkApi.chapman_kolmogorov_test CkTest.exPlain CkTest.exPlain exGeo30 2 [1, 3] [4, 1, 2, 1] 4
    = .ok ([(1, [(1, [1/2, 3/8, 11/32, 43/128]), (3, [3/4, 11/16, 43/64, 171/256])], [1, 2, 3, 4], true, true),
            (2, [(1, [1/3, 1/3]), (3, [2/3, 2/3])], [2, 4], true, true),
            (4, [(1, [0]), (3, [0])], [4], false, true)],
           [(1, [1/2, 1/3, 0]), (3, [3/4, 2/3, 0])], [1, 2, 4], [true, true, false], [true, true, true]) := by
  decide +kernel
example : sortDedup [4, 1, 2, 1] = [1, 2, 4] ∧ ([4, 1, 2, 1] : List Int).min? = some 1 := by decide
/-- `ck_api_refines` applies (the smallest lag time is 1) -/
example : Gen.MsmCkApi.chapman_kolmogorov_test CkTest.exPlain CkTest.exPlain exGeo30 2 [1, 3] [4, 1, 2, 1] 4 =
      (do let entries ← (sortDedup [4, 1, 2, 1]).mapM
            (fun τ => do let r ← Gen.MsmTests.chapman_kolmogorov_test CkTest.exPlain 2 [1, 3] τ 4; pure (τ, r))
          let md ← Gen.MsmTests.chapman_kolmogorov_test_md CkTest.exPlain exGeo30 2 [1, 3] 1 4 30
          pure (entries, md)) :=
  ck_api_refines _ _ _ 2 [1, 3] [4, 1, 2, 1] 4 1 (by decide) (by decide) (by decide) (by decide)
/-- `ck_api_refines_model` applies: all its hypotheses hold for these oracles -/
example : Gen.MsmCkApi.chapman_kolmogorov_test CkTest.exPlain CkTest.exPlain exGeo30 ((2 : Nat) : Int) [1, 3] [4, 1, 2, 1] ((4 : Nat) : Int)
    = .ok ((sortDedup [4, 1, 2, 1]).map (fun τ =>
              (τ, ([1, 3].zip (ckCurves (CkTest.exTm τ) τ.toNat 4), (ckTimes τ.toNat 4).map Int.ofNat,
                    Linalg.isErgodic (CkTest.exTm τ), Linalg.isFuzzyErgodic (CkTest.exTm τ)))),
           ([1, 3].zip ((List.range 2).map (fun s => (sortDedup [1, 1, 2, 4]).map (fun t => Linalg.entry (CkTest.exTm t) s s))),
            sortDedup [1, 1, 2, 4],
            (sortDedup [1, 1, 2, 4]).map (fun t => Linalg.isErgodic (CkTest.exTm t)),
            (sortDedup [1, 1, 2, 4]).map (fun t => Linalg.isFuzzyErgodic (CkTest.exTm t)))) :=
  ck_api_refines_model CkTest.exPlain CkTest.exPlain exGeo30 2 [1, 3] [4, 1, 2, 1] 4 1 CkTest.exTm [1, 1, 2, 4] CkTest.exTm
    (by decide) (by decide) (by decide)
    (by intro τ hτ
        simp only [List.mem_cons, List.not_mem_nil, or_false] at hτ
        rcases hτ with rfl | rfl | rfl | rfl <;> exact ⟨[1, 3], by decide +kernel⟩)
    (by decide +kernel) rfl (by decide +kernel)
    (by intro t ht
        simp only [List.mem_cons, List.not_mem_nil, or_false] at ht
        rcases ht with rfl | rfl | rfl | rfl <;> exact ⟨[1, 3], by decide +kernel⟩)
    (by decide +kernel)
/-- the grid hypotheses of `ck_api_model_refGridOk` hold for this grid -/
example : ([1, 1, 2, 4] : List Int).head? = some 1 ∧ ∀ t ∈ ([1, 1, 2, 4] : List Int), (1 : Int) ≤ t ∧ t ≤ ((4 : Nat) : Int) := by
  decide
/-- the order of the argument does not matter -/
example : Gen.MsmCkApi.chapman_kolmogorov_test CkTest.exPlain CkTest.exPlain exGeo30 2 [1, 3] [4, 1, 2, 1] 4
    = Gen.MsmCkApi.chapman_kolmogorov_test CkTest.exPlain CkTest.exPlain exGeo30 2 [1, 3] [1, 2, 4] 4 :=
  ck_api_order_irrelevant _ _ _ _ _ _ _ _ (by intro x; simp only [List.mem_cons, List.not_mem_nil, or_false]; omega)
/-- rejections and the empty list -/
example : Gen.MsmCkApi.chapman_kolmogorov_test CkTest.exPlain CkTest.exPlain exGeo30 2 [1, 3] [4, 0, 2, 1] 4 = .error .type :=
  ck_api_rejects_nonpositive_lag _ _ _ _ _ _ _ 0 (by decide) (by decide)
example : Gen.MsmCkApi.chapman_kolmogorov_test CkTest.exPlain CkTest.exPlain exGeo30 2 [1, 3] [4, 1, 2, 1] (-1) = .error .type :=
  ck_api_rejects_negative_tmax _ _ _ _ _ _ _ (by decide)
example : Gen.MsmCkApi.chapman_kolmogorov_test CkTest.exPlain CkTest.exPlain exGeo30 2 [1, 3] [] 4 = .error .index := by
  rw [ck_api_empty]; rfl
/-- error order: the estimator does not know lag time 3 — `LagtimeError` although 3 is listed second and 4, 2, 1 are fine -/
example : Gen.MsmCkApi.chapman_kolmogorov_test CkTest.exPlain CkTest.exPlain exGeo30 2 [1, 3] [4, 3, 2, 1] 4 = .error .lagtime :=
  ck_api_first_error _ _ _ 2 [1, 3] [4, 3, 2, 1] 4 (by decide) (by decide) [1, 2] 3 [4] .lagtime (by decide)
    (by intro τ hτ
        simp only [List.mem_cons, List.not_mem_nil, or_false] at hτ
        rcases hτ with rfl | rfl <;> exact exists_ok_of_isOk (by decide +kernel))
    (by decide +kernel)
/-- the reference call's error: a grid oracle that refuses -/
example : Gen.MsmCkApi.chapman_kolmogorov_test CkTest.exPlain CkTest.exPlain (fun _ _ _ => .error .assertion) 2 [1, 3] [4, 1, 2, 1] 4
    = .error .assertion := by decide +kernel

end MsmVerif.Refine.CkApi
