/-
Props/C04.lean — property theorems for C04 (`equilibrium_population` returns the stationary vector).
Helper lemmas live in Lemmas/Linalg.lean.

Model of the code (`Model/Linalg.lean`): `vecMat v T` is the row-vector product `v T`, `stationary T` solves
`[Tᵀ - 1 without its last row ; 1ᵀ] x = e_n` by exact Gauss–Jordan elimination, `equilibrium T allow` is
`equilibrium_population(T, allow_non_ergodic=allow)` (`.error .value` = ValueError), `restrict`/`embed` cut a matrix down
to the masked states and pad a vector with zeros outside the mask.
-/
import MsmVerif.Lemmas.Linalg

namespace MsmVerif.C04
open MsmVerif MsmVerif.Msm MsmVerif.Linalg

/-! ### 1. normalising a left fixed vector -/

/-- If `v T = v` and `Σ v ≠ 0`, then `w = v / Σ v` satisfies `w T = w` and `Σ w = 1`
(no shape assumption on `T` or `v` is needed). -/
theorem normalize (T : Mat) (v : Vec) (hfix : vecMat v T = v) (hsum : v.sum ≠ 0) :
    vecMat (v.map (· / v.sum)) T = v.map (· / v.sum) ∧ (v.map (· / v.sum)).sum = 1 := by
  refine ⟨by rw [vecMat_map_div, hfix], ?_⟩
  rw [sum_map_div]
  exact div_self hsum

example : vecMat [2, 3] [[1/2, 1/2], [1/3, 2/3]] = [2, 3] ∧ ([2, 3] : Vec).sum ≠ 0 := by decide +kernel

/-! ### 2. the vector returned by the linear solve is stationary and normalised -/

/-- The exact Gauss–Jordan inverse of the model is correct: whenever `inverse m` returns a matrix for a well-formed
square `m`, that matrix is well-formed and a two-sided inverse.  (Proved from the elimination rounds, no certificate
assumed.) -/
theorem inverse_sound (n : Nat) (m inv : Mat) (h : m.length = n ∧ ∀ r ∈ m, r.length = n)
    (hi : inverse m = some inv) :
    (inv.length = n ∧ ∀ r ∈ inv, r.length = n) ∧ mul m inv = identity n ∧ mul inv m = identity n :=
  inverse_spec (n := n) h hi

example : inverse [[2, 1], [1, 1]] = some [[1, -1], [-1, 2]] := by decide +kernel

/-- Whenever `stationary T` returns a vector `x` (well-formed square `T`), `x` is a left fixed vector of `T` and its
entries sum to one.  Nothing is assumed about `T` beyond its shape: the first part is the model's final check, the
second is the replaced last equation of the solved system. -/
theorem stationary_sound (n : Nat) (T : Mat) (x : Vec) (hT : T.length = n ∧ ∀ r ∈ T, r.length = n)
    (hs : stationary T = some x) : vecMat x T = x ∧ x.sum = 1 :=
  let h := stationary_spec (n := n) hT hs
  ⟨h.1, h.2.1⟩

example : stationary [[1/2, 1/2], [1/3, 2/3]] = some [2/5, 3/5] := by decide +kernel

/-! ### 3. uniqueness from a left-inverse certificate -/

/-- `statMatrix T` is literally the matrix that `stationary` inverts. -/
theorem stationary_uses_statMatrix (T : Mat) :
    stationary T =
      if T.length = 0 then none else
      match inverse (statMatrix T) with
      | none => none
      | some inv =>
        let x := inv.map (fun row => row.getD (T.length - 1) 0)
        if vecMat x T == x then some x else none := stationary_eq T

/-- If some `L` is a left inverse of `A = [Tᵀ - 1 without its last row ; 1ᵀ]` (`L · A = 1`; the driver evaluates this
certificate per input), then `T` has at most one left fixed vector with sum 1: any two are equal. -/
theorem unique_of_certificate (n : Nat) (T L : Mat) (hn : 1 ≤ n)
    (hT : T.length = n ∧ ∀ r ∈ T, r.length = n) (hL : L.length = n ∧ ∀ r ∈ L, r.length = n)
    (hcert : mul L (statMatrix T) = identity n)
    (x y : Vec) (hx : vecMat x T = x) (hy : vecMat y T = y) (sx : x.sum = 1) (sy : y.sum = 1) : x = y := by
  have hA := WF_statMatrix (n := n) hT hn
  have lx : x.length = n := by rw [← hx]; exact length_vecMat (n := n) hT x
  have ly : y.length = n := by rw [← hy]; exact length_vecMat (n := n) hT y
  apply vec_ext lx ly
  intro i hi
  rw [eq_of_left_inverse (n := n) hL hA hcert x _ (fun l hl => statMatrix_apply (n := n) hT lx hx sx hl) hi,
    eq_of_left_inverse (n := n) hL hA hcert y _ (fun l hl => statMatrix_apply (n := n) hT ly hy sy hl) hi]

example : mul [[-6/5, 2/5], [6/5, 3/5]] (statMatrix [[1/2, 1/2], [1/3, 2/3]]) = identity 2 ∧
    vecMat [2/5, 3/5] [[1/2, 1/2], [1/3, 2/3]] = [2/5, 3/5] ∧ ([2/5, 3/5] : Vec).sum = 1 := by decide +kernel

/-- Whenever `stationary T` returns `x`, every left fixed vector of `T` with sum one equals `x`
(the computed inverse is itself the uniqueness certificate of `unique_of_certificate`). -/
theorem stationary_unique (n : Nat) (T : Mat) (x y : Vec) (hT : T.length = n ∧ ∀ r ∈ T, r.length = n)
    (hs : stationary T = some x) (hy : vecMat y T = y) (sy : y.sum = 1) : y = x := by
  obtain ⟨hfix, hsum, inv, hw, hl⟩ := stationary_spec (n := n) hT hs
  have hn : 1 ≤ n := by rw [← hT.1]; exact (stationary_some hs).1
  exact unique_of_certificate n T inv hn hT hw hl y x hy hfix sy hsum

example : stationary [[1/2, 1/2], [1/3, 2/3]] = some [2/5, 3/5] := by decide +kernel

/-! ### 4. zero-padding a stationary vector of a closed class -/

/-- Let `mask` (length `n`) mark a set of states that is closed under `T` (`T_ij = 0` for marked `i`, unmarked `j`)
and whose rows of `T` sum to 1.  If `μ` is a left fixed vector of the restricted, renormalised matrix
`rowNormalizeQ (restrict T mask)` then `embed μ mask` (zero outside the mask) is a left fixed vector of `T` with the
same sum. -/
theorem embed_stationary (n : Nat) (T : Mat) (mask : List Bool) (μ : Vec)
    (hT : T.length = n ∧ ∀ r ∈ T, r.length = n) (hm : mask.length = n)
    (hclosed : ∀ i j, i < n → j < n → mask.getD i false = true → mask.getD j false = false → entry T i j = 0)
    (hrow : ∀ i, i < n → mask.getD i false = true → (T.getD i []).sum = 1)
    (hfix : vecMat μ (rowNormalizeQ (restrict T mask)) = μ) :
    vecMat (embed μ mask) T = embed μ mask ∧ (embed μ mask).sum = μ.sum := by
  rw [rowNormalizeQ_eq_self (restrict_row_sum (n := n) hT hclosed hrow)] at hfix
  have hμ : μ.length = (maskIdx n mask).length := by
    have := length_vecMat (WF_restrict T mask) μ
    rw [hfix, hT.1] at this
    exact this
  exact embed_stationary_aux (n := n) hT hm hclosed hμ hfix

example :
    let T : Mat := [[1/2, 1/2, 0], [1/3, 2/3, 0], [1/4, 1/4, 1/2]]
    let mask := [true, true, false]
    (∀ i, i < 3 → ∀ j, j < 3 → mask.getD i false = true → mask.getD j false = false → entry T i j = 0) ∧
    (∀ i, i < 3 → mask.getD i false = true → (T.getD i []).sum = 1) ∧
    vecMat [2/5, 3/5] (rowNormalizeQ (restrict T mask)) = [2/5, 3/5] ∧
    embed [2/5, 3/5] mask = [2/5, 3/5, 0] := by decide +kernel

/-! ### 5. the ergodicity guard -/

/-- With `allow_non_ergodic = False` the model raises `ValueError` exactly when `is_ergodic` is false. -/
theorem guard_error (T : Mat) : equilibrium T false = .error .value ↔ isErgodic T = false := by
  unfold equilibrium
  cases h : isErgodic T <;> simp

/-- For a matrix accepted by `is_ergodic` the result is the solution of the stationary linear system,
whatever the flag. -/
theorem guard_ok (T : Mat) (b : Bool) (h : isErgodic T = true) : equilibrium T b = .ok (stationary T) := by
  unfold equilibrium
  simp [h]

/-- Both halves of the guard. -/
theorem guard (T : Mat) :
    (equilibrium T false = .error .value ↔ isErgodic T = false) ∧
    (isErgodic T = true → ∀ b, equilibrium T b = .ok (stationary T)) :=
  ⟨guard_error T, fun h b => guard_ok T b h⟩

example : isErgodic [[1/2, 1/2], [1/3, 2/3]] = true ∧ isErgodic [[1, 0], [0, 1]] = false := by decide +kernel

/-! ### 6. the pieces put together: what `equilibrium_population` returns -/

/-- Ergodic case, end to end: if `is_ergodic` accepts `T` and the model returns a vector `x`, then `x` is a left fixed
vector of `T`, sums to one, and is the only such vector. -/
theorem equilibrium_ergodic_sound (T : Mat) (b : Bool) (x : Vec) (h : isErgodic T = true)
    (heq : equilibrium T b = .ok (some x)) :
    vecMat x T = x ∧ x.sum = 1 ∧ ∀ y : Vec, vecMat y T = y → y.sum = 1 → y = x := by
  rw [guard_ok T b h] at heq
  have hs : stationary T = some x := by injection heq
  have hT := WF_of_isTmat (isTmat_of_isErgodic h)
  have := stationary_sound T.length T x hT hs
  exact ⟨this.1, this.2, fun y hy sy => stationary_unique T.length T x y hT hs hy sy⟩

example : isErgodic [[1/2, 1/2], [1/3, 2/3]] = true ∧
    equilibrium [[1/2, 1/2], [1/3, 2/3]] false = .ok (some [2/5, 3/5]) := by decide +kernel

/-- Non-ergodic case, end to end: if `allow_non_ergodic = True`, `ergodic_mask` marks a set that is closed under `T`
and whose rows sum to one, and the model returns a vector `p`, then `p` is a left fixed vector of `T`, sums to one and
vanishes outside the marked set. -/
theorem equilibrium_nonergodic_sound (n : Nat) (T : Mat) (mask : List Bool) (p : Vec)
    (hT : T.length = n ∧ ∀ r ∈ T, r.length = n)
    (hne : isErgodic T = false) (hmask : ergodicMask T = some mask)
    (hclosed : ∀ i j, i < n → j < n → mask.getD i false = true → mask.getD j false = false → entry T i j = 0)
    (hrow : ∀ i, i < n → mask.getD i false = true → (T.getD i []).sum = 1)
    (heq : equilibrium T true = .ok (some p)) :
    vecMat p T = p ∧ p.sum = 1 ∧ ∀ i, mask.getD i false = false → p.getD i 0 = 0 := by
  have hm : mask.length = n := by
    rw [length_ergodicMask hmask, hT.1]
  unfold equilibrium at heq
  simp only [hne, hmask, Bool.false_eq_true, ↓reduceIte, Bool.not_true] at heq
  split at heq
  · cases heq
  · cases hst : stationary (rowNormalizeQ (restrict T mask)) with
    | none => rw [hst] at heq; simp at heq
    | some v =>
      rw [hst] at heq
      simp only [Except.ok.injEq, Option.some.injEq] at heq
      have hR := rowNormalizeQ_eq_self (restrict_row_sum (n := n) hT hclosed hrow)
      have hv := stationary_sound _ _ v (by rw [hR]; exact WF_restrict T mask) hst
      have he := embed_stationary n T mask v hT hm hclosed hrow hv.1
      rw [he.2, hv.2, map_div_one] at heq
      subst heq
      exact ⟨he.1, by rw [he.2, hv.2], fun i hi => getD_embed_of_not v mask hi⟩

example :
    let T : Mat := [[1/2, 1/2, 0], [1/3, 2/3, 0], [1/4, 1/4, 1/2]]
    let mask := [true, true, false]
    isErgodic T = false ∧ ergodicMask T = some mask ∧
    (∀ i, i < 3 → ∀ j, j < 3 → mask.getD i false = true → mask.getD j false = false → entry T i j = 0) ∧
    (∀ i, i < 3 → mask.getD i false = true → (T.getD i []).sum = 1) ∧
    equilibrium T true = .ok (some [2/5, 3/5, 0]) := by decide +kernel


end MsmVerif.C04
