/-
Model/Linalg.lean — exact rational linear algebra used by the models of C03, C04, C09, C14:
matrix product and power, Gauss–Jordan inverse, the ergodicity predicates of `utils/tests.py`,
the equilibrium population of `msm/msm.py`, the Hummer–Szabo projection of `statetraj.py`
and a graph oracle (communicating classes, closedness, period) for the property statements.
-/
import MsmVerif.Model.Basic
import MsmVerif.Model.Msm

namespace MsmVerif.Linalg
open MsmVerif.Msm

abbrev Mat := List (List Rat)
abbrev Vec := List Rat

def absQ (r : Rat) : Rat := if r < 0 then -r else r
/-- the default tolerance `atol=1e-8` of `utils/tests.py`: the exact value of the double `1e-8` -/
def atol : Rat := (3022314549036573 : Rat) / 302231454903657293676544

def nrows (m : Mat) : Nat := m.length
def entry (m : Mat) (i j : Nat) : Rat := (m.getD i []).getD j 0
def identity (n : Nat) : Mat := (List.range n).map (fun i => (List.range n).map (fun j => if i = j then 1 else 0))
def transpose (m : Mat) : Mat :=
  match m with
  | [] => []
  | r :: _ => (List.range r.length).map (fun j => m.map (fun row => row.getD j 0))
def dot (a b : Vec) : Rat := ((a.zip b).map (fun p => p.1 * p.2)).sum
def mul (a b : Mat) : Mat := let bt := transpose b; a.map (fun row => bt.map (fun col => dot row col))
def vecMat (v : Vec) (m : Mat) : Vec := (transpose m).map (fun col => dot v col)
def add (a b : Mat) : Mat := (a.zip b).map (fun p => (p.1.zip p.2).map (fun q => q.1 + q.2))
def sub (a b : Mat) : Mat := (a.zip b).map (fun p => (p.1.zip p.2).map (fun q => q.1 - q.2))
def diag (v : Vec) : Mat := (List.range v.length).map (fun i => (List.range v.length).map (fun j => if i = j then v.getD i 0 else 0))

/-- `np.linalg.matrix_power(m, k)` for `k ≥ 0` -/
def pow (m : Mat) : Nat → Mat
  | 0 => identity m.length
  | k + 1 => mul (pow m k) m

/-- repeated squaring, same value as `pow` (used by the driver for speed) -/
def powFast (m : Mat) (k : Nat) : Mat :=
  if h : k = 0 then identity m.length
  else
    let half := powFast m (k / 2)
    let sq := mul half half
    if k % 2 = 1 then mul sq m else sq
termination_by k
decreasing_by omega

def isSquare (m : Mat) : Bool := m.all (fun r => r.length == m.length)

/-- `is_quadratic` after `np.atleast_2d`: square, not 1×1 -/
def isQuadratic (m : Mat) : Bool := isSquare m && m.length != 1 && m.length != 0

def rowSums (m : Mat) : Vec := m.map List.sum
def colSums (m : Mat) : Vec := (transpose m).map List.sum

/-- `is_transition_matrix(matrix, atol=1e-8)` -/
def isTmat (m : Mat) : Bool :=
  isQuadratic m &&
  (List.zip (rowSums m) (colSums m)).all (fun (r, c) =>
    decide (absQ (r - 1) ≤ atol) || !(r != 0 || c != 0))

def wielandtExp (n : Nat) : Nat := (n - 1) * (n - 1) + 1

/-- `is_ergodic(matrix)` -/
def isErgodic (m : Mat) : Bool :=
  isTmat m && (powFast m (wielandtExp m.length)).all (fun r => r.all (fun x => decide (atol < x)))

/-- `is_fuzzy_ergodic(matrix)` -/
def isFuzzyErgodic (m : Mat) : Bool :=
  isTmat m &&
  (let rcs := (List.zip (rowSums m) (colSums m)).map (fun (r, c) => r + c)
   let trap := rcs.map (fun s => decide (absQ (s - 2) ≤ atol) || decide (absQ s ≤ atol))
   let p := powFast m (wielandtExp m.length)
   (List.range m.length).all (fun i => (List.range m.length).all (fun j =>
     decide (0 < entry p i j) || trap.getD i false || trap.getD j false)))

/-- `ergodic_mask(matrix)`; `none` = ValueError (not a transition matrix) -/
def ergodicMask (m : Mat) : Option (List Bool) :=
  if !isTmat m then none else
  let n := m.length
  let p := powFast m (wielandtExp n)
  let b (i j : Nat) : Bool := decide (atol < entry p i j) && decide (atol < entry p j i)
  let cnt := (List.range n).map (fun i => ((List.range n).filter (fun j => b i j)).length)
  let mx := cnt.foldl max 0
  some (cnt.map (fun c => c == mx))

/-! ### Gauss–Jordan inverse and linear solve over ℚ -/

/-- one elimination round on the augmented matrix: pivot search in column `c` from row `c` on -/
def gjStep (aug : Mat) (c : Nat) : Option Mat :=
  let n := aug.length
  match ((List.range n).filter (fun r => c ≤ r && entry aug r c != 0)).head? with
  | none => none
  | some p =>
    let rowP := aug.getD p []
    let rowC := aug.getD c []
    let swapped := (aug.set p rowC).set c rowP
    let piv := rowP.getD c 0
    let normP := rowP.map (· / piv)
    some ((List.range n).map (fun r =>
      if r = c then normP
      else
        let row := swapped.getD r []
        let f := row.getD c 0
        (row.zip normP).map (fun q => q.1 - f * q.2)))

/-- inverse of a square rational matrix, `none` if singular -/
def inverse (m : Mat) : Option Mat :=
  let n := m.length
  let aug0 : Mat := (List.zip m (identity n)).map (fun p => p.1 ++ p.2)
  let r := (List.range n).foldl (fun (acc : Option Mat) c => acc.bind (fun a => gjStep a c)) (some aug0)
  r.map (fun a => a.map (fun row => row.drop n))

/-- certificate check: `a * b = 1` -/
def isInverse (a b : Mat) : Bool := mul a b == identity a.length

/-- the unique probability vector with `π T = π`, if the linear system `[Tᵀ - 1 ; 1ᵀ] x = e` (last equation replaced by
normalisation) is non-singular -/
def stationary (T : Mat) : Option Vec :=
  let n := T.length
  if n = 0 then none else
  let A0 := sub (transpose T) (identity n)
  let A := (A0.take (n - 1)) ++ [List.replicate n (1 : Rat)]
  match inverse A with
  | none => none
  | some inv =>
    let x := inv.map (fun row => row.getD (n - 1) 0)
    -- the replaced equation must hold as well (it is implied when columns of `Tᵀ - 1` sum to 0, i.e. T row-stochastic)
    if vecMat x T == x then some x else none

/-! ### Graph oracle on the support of a matrix -/

def support (m : Mat) : List (List Bool) := m.map (fun r => r.map (fun x => x != 0))
def bent (b : List (List Bool)) (i j : Nat) : Bool := (b.getD i []).getD j false

/-- reflexive-transitive closure (Warshall) -/
def closure (b : List (List Bool)) : List (List Bool) :=
  let n := b.length
  let init := (List.range n).map (fun i => (List.range n).map (fun j => i == j || bent b i j))
  (List.range n).foldl (fun r k =>
    (List.range n).map (fun i => (List.range n).map (fun j => bent r i j || (bent r i k && bent r k j)))) init

/-- communicating class of `i` as a membership list -/
def classOf (reach : List (List Bool)) (i : Nat) : List Bool :=
  (List.range reach.length).map (fun j => bent reach i j && bent reach j i)

/-- a class is closed when no edge leaves it -/
def isClosed (b : List (List Bool)) (cls : List Bool) : Bool :=
  (List.range b.length).all (fun i => !cls.getD i false ||
    (List.range b.length).all (fun j => !bent b i j || cls.getD j false))

/-- BFS distances from `root` inside a class (fuel = n rounds) -/
def bfs (b : List (List Bool)) (cls : List Bool) (root : Nat) : List (Option Nat) :=
  let n := b.length
  let init : List (Option Nat) := (List.range n).map (fun i => if i = root then some 0 else none)
  (List.range n).foldl (fun d _ =>
    (List.range n).map (fun j =>
      match d.getD j none with
      | some x => some x
      | none =>
        if !cls.getD j false then none else
        match ((List.range n).filterMap (fun i =>
            match d.getD i none with
            | some x => if cls.getD i false && bent b i j then some (x + 1) else none
            | none => none)) with
        | [] => none
        | x :: xs => some (xs.foldl min x))) init

/-- period of an irreducible class: gcd over its internal edges `u → v` of `d(u) + 1 - d(v)`; 0 if the class has no internal edge -/
def period (b : List (List Bool)) (cls : List Bool) : Nat :=
  let n := b.length
  match ((List.range n).filter (fun i => cls.getD i false)).head? with
  | none => 0
  | some root =>
    let d := bfs b cls root
    (List.range n).foldl (fun g u =>
      (List.range n).foldl (fun g v =>
        if cls.getD u false && cls.getD v false && bent b u v then
          match d.getD u none, d.getD v none with
          | some du, some dv => Nat.gcd g (Int.natAbs ((du : Int) + 1 - (dv : Int)))
          | _, _ => g
        else g) g) 0

def classSize (cls : List Bool) : Nat := (cls.filter id).length

/-- all distinct classes -/
def classes (b : List (List Bool)) : List (List Bool) :=
  let reach := closure b
  ((List.range b.length).map (classOf reach)).eraseDups

/-- "row-stochastic; all-zero rows allowed only for states that are never entered either" (exact part, tolerance 1e-8) -/
def stochasticUpToUnvisited (m : Mat) : Bool := isTmat m

/-- graph reading of "ergodic": stochastic, strongly connected, aperiodic -/
def graphErgodic (m : Mat) : Bool :=
  isTmat m &&
  (let b := support m
   let cs := classes b
   cs.length == 1 && period b (cs.headD []) == 1)

/-- the hypothesis of sentence 1 of C04 / sentence 2 of C14: exactly one closed class, aperiodic, larger than every other class -/
def uniqueLargestClosed (m : Mat) : Option (List Bool) :=
  let b := support m
  let cs := classes b
  match cs.filter (isClosed b) with
  | [c] =>
    if period b c == 1 && (cs.filter (fun c' => c' != c)).all (fun c' => classSize c' < classSize c) then some c else none
  | _ => none

/-- hypothesis of the mask clause of C14: all classes aperiodic (or single transient states without self loop),
the largest closed classes are larger than every transient class -/
def maskHypothesis (m : Mat) : Option (List Bool) :=
  let b := support m
  let cs := classes b
  let closed := cs.filter (isClosed b)
  let transient := cs.filter (fun c => !isClosed b c)
  let mx := (closed.map classSize).foldl max 0
  if closed.all (fun c => period b c == 1) &&
     transient.all (fun c => (period b c == 1 || period b c == 0) && classSize c < mx) then
    some ((List.range m.length).map (fun i => closed.any (fun c => c.getD i false && classSize c == mx)))
  else none

/-! ### equilibrium population (C04) -/

def restrict (m : Mat) (mask : List Bool) : Mat :=
  let idx := (List.range m.length).filter (fun i => mask.getD i false)
  idx.map (fun i => idx.map (fun j => entry m i j))

def embed (v : Vec) (mask : List Bool) : Vec :=
  let idx := (List.range mask.length).filter (fun i => mask.getD i false)
  (List.range mask.length).map (fun i =>
    match idx.idxOf? i with
    | some k => v.getD k 0
    | none => 0)

/-- `equilibrium_population(tmat, allow_non_ergodic)`: `.error .value` when refused; `none` inside `.ok` when the exact
stationary vector of the (restricted) matrix is not unique, in which case only the generic clause of the property applies -/
def equilibrium (T : Mat) (allowNonErgodic : Bool) : Except Err (Option Vec) :=
  if isErgodic T then .ok (stationary T)
  else if !allowNonErgodic then .error .value
  else
    match ergodicMask T with
    | none => .error .value
    | some mask =>
      -- a single marked state gives a 1×1 sub-matrix, which the eigen-solver refuses (`is_quadratic` is false for 1×1)
      if (restrict T mask).length = 1 then .error .type else
      match stationary (rowNormalizeQ (restrict T mask)) with
      | none => .ok none
      | some v => let e := embed v mask; let s := e.sum; .ok (some (e.map (· / s)))

/-- oracle for C04 on the real output `p` (floats as exact rationals) -/
def holdsPeq (T : Mat) (allowNonErgodic : Bool) (obs : Except Err Vec) : Bool :=
  let tol : Rat := (1 : Rat) / 1000000000
  match obs with
  | .error _ =>
    -- a rejection (any error kind) is admissible when the input is not a transition matrix, when it is non-ergodic and
    -- allow_non_ergodic = False, or when it is outside sentence 1 (the property speaks about *accepted* matrices there)
    !isTmat T || (!allowNonErgodic && !graphErgodic T) || (allowNonErgodic && (uniqueLargestClosed T).isNone)
  | .ok p =>
    (allowNonErgodic || graphErgodic T) &&
    p.length == T.length &&
    (match uniqueLargestClosed T with
     | some cls =>
       -- sentence 1: the unique stationary vector, zero outside the class
       (match stationary (rowNormalizeQ (restrict T cls)) with
        | some v => (List.zip p (embed v cls)).all (fun (a, b) => decide (absQ (a - b) ≤ tol))
        | none => false)
     | none =>
       -- sentence 2: non-negative, sums to one, stationary for T restricted and renormalised to its support
       p.all (fun x => decide (-tol / 1000 ≤ x)) && decide (absQ (p.sum - 1) ≤ tol) &&
       (let mask := p.map (fun x => x != 0)
        let Tr := rowNormalizeQ (restrict T mask)
        let pr := (List.zip p mask).filterMap (fun (x, b) => if b then some x else none)
        (List.zip (vecMat pr Tr) pr).all (fun (a, b) => decide (absQ (a - b) ≤ tol))))

/-! ### Hummer–Szabo projection (C03) -/

/-- `LumpedStateTraj._estimate_markov_model(msm_i)`: `assign[i]` = macro index of micro index `i`, `m` macrostates.
`none` when a matrix to invert is singular or the micro model has no unique stationary vector. -/
def hsProject (T : Mat) (assign : List Nat) (m : Nat) (positive : Bool) : Option Mat := do
  let n := T.length
  let pi ← stationary T
  let piA : Vec := (List.range m).map (fun a => ((List.zip pi assign).filterMap (fun (p, s) => if s = a then some p else none)).sum)
  let A : Mat := assign.map (fun s => (List.range m).map (fun a => if s = a then 1 else 0))
  let onesPi : Mat := List.replicate n pi
  let Z ← inverse (sub (add (identity n) onesPi) T)
  let M ← inverse (mul (mul (mul (transpose A) (diag pi)) Z) A)
  let raw := sub (add (identity m) (List.replicate m piA)) (mul M (diag piA))
  let clipped := if positive then raw.map (fun r => r.map (fun x => if x < 0 then 0 else x)) else raw
  return rowNormalizeQ clipped

end MsmVerif.Linalg
