/-
Refine/CkEndLemmas.lean — helper definitions and lemmas for task RP30 (property C09): the public `chapman_kolmogorov_test` on PLAIN state
trajectories END TO END, i.e. the public function (`Refine/CkApi.lean`) ∘ the two inner functions (`Refine/CkTest.lean`) ∘ the translated
constructor + `StateTraj.estimate_markov_model` (`Refine/Public.lean`) plugged into BOTH estimator oracles.

* `plainEst ts flag` : the estimator oracle — translated `StateTraj.__init__` followed by the translated method, exactly the term of
  `Public.public_estimate_refines`;
* `estT ts lag` : the transition matrix of the public model `Msm.estimate ts lag`;
* the oracle on guarded data (`plainEst_ok`): it never raises for a lag time `≥ 1` and returns `(estT ts lag, states ts)`;
* shape and sub-stochasticity of `estT`; a lag time not shorter than any trajectory gives the all-zero matrix (`estT_zero_of_long_lag`) and
  all-zero curves.

The theorems with docstrings are in `Refine/CkEnd.lean`.
-/
import MsmVerif.Refine.CkApi
import MsmVerif.Refine.Public
import MsmVerif.Props.C09

namespace MsmVerif.Refine.CkEnd
open MsmVerif MsmVerif.Gen MsmVerif.Linalg MsmVerif.Timescales

/-! ### definitions -/

/-- the estimator oracle of a PLAIN trajectory object: the translated constructor `StateTraj.__init__` followed by the translated method
    `StateTraj.estimate_markov_model` on the object state it left (`cfg_disable_jit = flag`) — the term of `Public.public_estimate_refines` -/
def plainEst (ts : Trajs) (flag : Bool) : Int → Py ((List (List Rat)) × (List Int)) :=
  fun lag => do let (i, s) ← Gen.StateTrajInit.init ts; Gen.StateTrajEst.estimate_markov_model i s lag flag

/-- the transition matrix `T` of the public model `Msm.estimate ts lag` (the model raises nothing on guarded data, see `estimate_estT`) -/
def estT (ts : Trajs) (lag : Nat) : Mat :=
  match Msm.estimate ts lag with
  | .ok r => r.2.1
  | .error _ => []

/-! ### `estT` and `Msm.estimate` -/

theorem estT_of_estimate {ts : Trajs} {lag : Nat} {c : Msm.NatMat} {T : Msm.RatMat} {ss : List Int}
    (h : Msm.estimate ts lag = .ok (c, T, ss)) : estT ts lag = T := by
  unfold estT
  rw [h]

theorem estT_eq_microT {ts : Trajs} (hg : LabelGuard ts) (lag : Nat) : estT ts lag = Public.microT ts lag :=
  estT_of_estimate (Public.estimate_eq hg lag)

theorem estimate_estT {ts : Trajs} (hg : LabelGuard ts) (lag : Nat) :
    Msm.estimate ts lag = .ok (Msm.countMatrix (rankTrajs ts) lag (states ts).length, estT ts lag, states ts) := by
  rw [estT_eq_microT hg]
  exact Public.estimate_eq hg lag

theorem estT_eq_specT {ts : Trajs} (hg : LabelGuard ts) (lag : Nat) (hlag : 1 ≤ lag) : estT ts lag = Msm.specT ts lag := by
  rw [estT_eq_microT hg]
  exact Public.microT_eq_specT hg lag hlag

/-! ### the oracle on guarded data -/

theorem plainEst_ok {ts : Trajs} (hg : LabelGuard ts) (lag : Nat) (hlag : 1 ≤ lag) (flag : Bool) :
    plainEst ts flag (lag : Int) = .ok (estT ts lag, states ts) := by
  unfold plainEst
  rw [Public.public_estimate_refines ts hg lag hlag flag, estimate_estT hg]
  rfl

theorem plainEst_ok_int {ts : Trajs} (hg : LabelGuard ts) (t : Int) (ht : 1 ≤ t) (flag : Bool) :
    plainEst ts flag t = .ok (estT ts t.toNat, states ts) := by
  have hcast : ((t.toNat : Nat) : Int) = t := by omega
  have := plainEst_ok hg t.toNat (by omega) flag
  rwa [hcast] at this

/-- on guarded data the oracle is the translated method on the object state `(rankTrajs ts, states ts)` -/
theorem plainEst_eq_method {ts : Trajs} (hg : LabelGuard ts) (flag : Bool) :
    plainEst ts flag = fun lag => Gen.StateTrajEst.estimate_markov_model (rankTrajs ts) (states ts) lag flag := by
  funext lag
  unfold plainEst
  rw [Init.init_eq_rank ts hg]
  rfl

/-! ### shape of `estT` -/

theorem estT_shape {ts : Trajs} (hg : LabelGuard ts) (hne : ts.flatten ≠ []) (lag : Nat) :
    estT ts lag ≠ [] ∧ Linalg.isSquare (estT ts lag) = true ∧ (estT ts lag).length = (states ts).length := by
  rw [estT_eq_microT hg]
  exact ⟨Public.microT_ne_nil hne lag, Public.microT_square ts lag, (Public.microT_wf ts lag).1⟩

theorem sum_eq_zero_of_all_zero : ∀ (r : List Rat), (∀ x ∈ r, x = 0) → r.sum = 0
  | [], _ => rfl
  | x :: r, h => by
    rw [List.sum_cons, h x List.mem_cons_self, sum_eq_zero_of_all_zero r (fun y hy => h y (List.mem_cons_of_mem _ hy))]
    exact Rat.add_zero 0

/-- the estimated matrix is sub-stochastic: `n × n`, non-negative entries, every row sums to one or is all-zero -/
theorem estT_subStoch {ts : Trajs} (hg : LabelGuard ts) (lag : Nat) (hlag : 1 ≤ lag) :
    Misc.SubStoch (states ts).length (estT ts lag) := by
  have hwf := Public.microT_wf ts lag
  rw [← estT_eq_microT hg] at hwf
  refine ⟨hwf.1, hwf.2, ?_, ?_⟩
  · rw [estT_eq_specT hg lag hlag]
    exact Public.specT_nonneg ts lag
  · rw [estT_eq_specT hg lag hlag]
    intro r hr
    rcases Public.specT_row ts lag r hr with h1 | h0
    · rw [h1]
    · rw [sum_eq_zero_of_all_zero r h0]; decide

/-! ### a lag time not shorter than any trajectory -/

/-- all entries are zero -/
def AllZero (m : Mat) : Prop := ∀ r ∈ m, ∀ x ∈ r, x = 0

theorem pairs_nil_of_long_lag (lag : Nat) (t : List Int) (h : t.length ≤ lag) : Msm.pairs lag t = [] := by
  unfold Msm.pairs
  rw [Nat.sub_eq_zero_of_le h]
  rfl

theorem countMatrix_zero_of_long_lag (idx : Trajs) (lag n : Nat) (h : ∀ t ∈ idx, t.length ≤ lag) :
    Msm.countMatrix idx lag n = Msm.zeroMat n := by
  unfold Msm.countMatrix
  generalize Msm.zeroMat n = z
  induction idx generalizing z with
  | nil => rfl
  | cons t rest ih =>
    rw [List.foldl_cons, pairs_nil_of_long_lag lag t (h t List.mem_cons_self)]
    exact ih (fun t' ht' => h t' (List.mem_cons_of_mem _ ht')) z

theorem sum_replicate_zero (n : Nat) : (List.replicate n (0 : Nat)).sum = 0 := by
  induction n with
  | zero => rfl
  | succ n ih => rw [List.replicate_succ, List.sum_cons, ih]

theorem rowNormalize_zeroMat (n : Nat) : AllZero (Msm.rowNormalize (Msm.zeroMat n)) := by
  intro r hr x hx
  unfold Msm.rowNormalize Msm.zeroMat at hr
  obtain ⟨row, hrow, rfl⟩ := List.mem_map.mp hr
  have hrow' := List.eq_of_mem_replicate hrow
  subst hrow'
  obtain ⟨c, hc, rfl⟩ := List.mem_map.mp hx
  have hc' := List.eq_of_mem_replicate hc
  subst hc'
  rw [sum_replicate_zero]
  simp

theorem length_rankTrajs_mem {ts : Trajs} {lag : Nat} (h : ∀ t ∈ ts, t.length ≤ lag) : ∀ t ∈ rankTrajs ts, t.length ≤ lag := by
  intro t ht
  unfold rankTrajs at ht
  obtain ⟨t', ht', rfl⟩ := List.mem_map.mp ht
  rw [List.length_map]
  exact h t' ht'

/-- if no trajectory is longer than the lag time, no transition is counted: the estimated matrix is all-zero (no error is raised) -/
theorem estT_zero_of_long_lag {ts : Trajs} (hg : LabelGuard ts) (lag : Nat) (h : ∀ t ∈ ts, t.length ≤ lag) : AllZero (estT ts lag) := by
  rw [estT_eq_microT hg]
  unfold Public.microT
  rw [countMatrix_zero_of_long_lag _ lag _ (length_rankTrajs_mem h)]
  exact rowNormalize_zeroMat _

theorem dot_zero_right (a b : Vec) (hb : ∀ x ∈ b, x = 0) : dot a b = 0 := by
  unfold dot
  apply sum_eq_zero_of_all_zero
  intro x hx
  obtain ⟨p, hp, rfl⟩ := List.mem_map.mp hx
  rw [hb p.2 (List.of_mem_zip hp).2]
  exact Rat.mul_zero _

theorem transpose_allZero (m : Mat) (h : AllZero m) : AllZero (transpose m) := by
  intro c hc x hx
  unfold transpose at hc
  cases m with
  | nil => cases hc
  | cons r rest =>
    simp only at hc
    obtain ⟨j, -, rfl⟩ := List.mem_map.mp hc
    obtain ⟨row, hrow, rfl⟩ := List.mem_map.mp hx
    rw [List.getD_eq_getElem?_getD]
    cases hj : row[j]? with
    | none => rfl
    | some v => exact h row hrow v (List.mem_of_getElem? hj)

theorem mul_allZero_right (a b : Mat) (h : AllZero b) : AllZero (mul a b) := by
  intro r hr x hx
  unfold mul at hr
  obtain ⟨row, -, rfl⟩ := List.mem_map.mp hr
  obtain ⟨col, hcol, rfl⟩ := List.mem_map.mp hx
  exact dot_zero_right row col (transpose_allZero b h col hcol)

theorem entry_allZero (m : Mat) (h : AllZero m) (i j : Nat) : entry m i j = 0 := by
  unfold entry
  rw [List.getD_eq_getElem?_getD (l := m)]
  cases hi : m[i]? with
  | none => rfl
  | some r =>
    rw [Option.getD_some, List.getD_eq_getElem?_getD]
    cases hj : r[j]? with
    | none => rfl
    | some v => exact h r (List.mem_of_getElem? hi) v (List.mem_of_getElem? hj)

/-- the curves of an all-zero matrix are all-zero: `(T^k)_{ss} = 0` for every `k ≥ 1` -/
theorem ckCurves_allZero (T : Mat) (h : AllZero T) (lag tmax : Nat) : AllZero (ckCurves T lag tmax) := by
  intro c hc v hv
  unfold ckCurves at hc
  obtain ⟨s, -, rfl⟩ := List.mem_map.mp hc
  rw [List.map_map] at hv
  obtain ⟨k, -, rfl⟩ := List.mem_map.mp hv
  exact entry_allZero _ (mul_allZero_right _ T h) s s

/-! ### values of the curves of a sub-stochastic matrix -/

/-- every curve of a sub-stochastic `n × n` matrix has `tmax / lag` points, all in `[0, 1]` -/
theorem ckCurves_unit {n : Nat} {T : Mat} (hT : Misc.SubStoch n T) (lag tmax : Nat) :
    ∀ c ∈ ckCurves T lag tmax, c.length = tmax / lag ∧ ∀ v ∈ c, 0 ≤ v ∧ v ≤ 1 := by
  intro c hc
  refine ⟨by rw [Misc.ckCurves_curve_length T lag tmax c hc, Misc.ckTimes_length], ?_⟩
  intro v hv
  unfold ckCurves at hc
  obtain ⟨s, -, rfl⟩ := List.mem_map.mp hc
  rw [List.map_map] at hv
  obtain ⟨k, -, rfl⟩ := List.mem_map.mp hv
  exact Misc.subStoch_entry_unit (Misc.subStoch_pow hT (k + 1)) s s

/-- the entries of a sub-stochastic matrix lie in `[0, 1]` -/
theorem entry_unit {n : Nat} {T : Mat} (hT : Misc.SubStoch n T) (i j : Nat) : 0 ≤ entry T i j ∧ entry T i j ≤ 1 :=
  Misc.subStoch_entry_unit hT i j

end MsmVerif.Refine.CkEnd
