/-
Lemmas/MatBridge.lean — bridge between the list-of-rows matrices of `Model/Linalg.lean` and Mathlib's
`Matrix (Fin n) (Fin m) ℚ`: `toMatrix`, `toVec`, well-formedness `WF n m X` (n rows of length m) and homomorphism
lemmas for `mul`, `add`, `sub`, `identity`, `transpose`, `diag`, `vecMat`, `List.replicate`, row sums.
Nothing here is specific to a particular property.
-/
import Mathlib.Data.Matrix.Mul
import Mathlib.Algebra.BigOperators.Fin
import Mathlib.Algebra.Order.Ring.Rat
import MsmVerif.Model.Linalg

namespace MsmVerif.Bridge
open MsmVerif.Linalg
open scoped Matrix

/-- the `n × m` Mathlib matrix read off a list-of-rows matrix (missing entries read as 0) -/
def toMatrix (n m : ℕ) (X : Mat) : Matrix (Fin n) (Fin m) ℚ := Matrix.of fun i j => entry X i j

/-- the length-`n` vector read off a list (missing entries read as 0) -/
def toVec (n : ℕ) (v : Vec) : Fin n → ℚ := fun i => v.getD i 0

/-- well-formed `n × m` list matrix: `n` rows, each of length `m` -/
def WF (n m : ℕ) (X : Mat) : Prop := X.length = n ∧ ∀ row ∈ X, row.length = m

@[simp] theorem toMatrix_apply (n m : ℕ) (X : Mat) (i : Fin n) (j : Fin m) :
    toMatrix n m X i j = entry X i j := rfl

@[simp] theorem toVec_apply (n : ℕ) (v : Vec) (i : Fin n) : toVec n v i = v.getD i 0 := rfl

/-! ### sums -/

theorem sum_eq_sum_fin {n : ℕ} (l : List ℚ) (h : l.length = n) : l.sum = ∑ i : Fin n, l.getD i 0 := by
  subst h
  rw [← Fin.sum_univ_getElem l]
  apply Finset.sum_congr rfl
  intro i _
  simp

theorem sum_map_eq_sum_fin {α : Type} {n : ℕ} (l : List α) (h : l.length = n) (g : α → ℚ) (d : α) :
    (l.map g).sum = ∑ i : Fin n, g (l.getD i d) := by
  rw [sum_eq_sum_fin (l.map g) (by simpa using h)]
  apply Finset.sum_congr rfl
  intro i _
  have : (i : ℕ) < l.length := h ▸ i.2
  simp [List.getD_eq_getElem?_getD, this]

theorem dot_eq_sum {n : ℕ} (a b : Vec) (ha : a.length = n) (hb : b.length = n) :
    dot a b = ∑ i : Fin n, a.getD i 0 * b.getD i 0 := by
  unfold dot
  rw [sum_map_eq_sum_fin (n := n) (a.zip b) (by simp [ha, hb]) _ (0, 0)]
  apply Finset.sum_congr rfl
  intro i _
  have h1 : (i : ℕ) < a.length := ha ▸ i.2
  have h2 : (i : ℕ) < b.length := hb ▸ i.2
  simp [List.getD_eq_getElem?_getD, h1, h2]

/-! ### shapes -/

theorem WF.getD_length {n m : ℕ} {X : Mat} (h : WF n m X) {i : ℕ} (hi : i < n) : (X.getD i []).length = m := by
  have : i < X.length := h.1 ▸ hi
  rw [List.getD_eq_getElem?_getD, List.getElem?_eq_getElem this]
  exact h.2 _ (List.getElem_mem this)

theorem entry_eq_getElem {X : Mat} {i j : ℕ} (hi : i < X.length) (hj : j < (X[i]).length) :
    entry X i j = X[i][j] := by
  simp [entry, List.getD_eq_getElem?_getD, hi, hj]

theorem WF.ext {n m : ℕ} {X Y : Mat} (hX : WF n m X) (hY : WF n m Y)
    (h : ∀ i j, i < n → j < m → entry X i j = entry Y i j) : X = Y := by
  apply List.ext_getElem (by rw [hX.1, hY.1])
  intro i h1 h2
  have hr1 : (X[i]).length = m := hX.2 _ (List.getElem_mem h1)
  have hr2 : (Y[i]).length = m := hY.2 _ (List.getElem_mem h2)
  apply List.ext_getElem (by rw [hr1, hr2])
  intro j h3 h4
  have := h i j (hX.1 ▸ h1) (hr1 ▸ h3)
  rwa [entry_eq_getElem h1 h3, entry_eq_getElem h2 h4] at this

theorem WF.ext_toMatrix {n m : ℕ} {X Y : Mat} (hX : WF n m X) (hY : WF n m Y)
    (h : toMatrix n m X = toMatrix n m Y) : X = Y :=
  WF.ext hX hY fun i j hi hj => by
    have := congrFun (congrFun h ⟨i, hi⟩) ⟨j, hj⟩
    simpa using this

theorem vec_ext_toVec {n : ℕ} {v w : Vec} (hv : v.length = n) (hw : w.length = n)
    (h : toVec n v = toVec n w) : v = w := by
  apply List.ext_getElem (by rw [hv, hw])
  intro i h1 h2
  have := congrFun h ⟨i, hv ▸ h1⟩
  simpa [List.getD_eq_getElem?_getD, h1, h2] using this

/-! ### transpose -/

theorem transpose_eq {n m : ℕ} {X : Mat} (h : WF n m X) (hn : 0 < n) :
    transpose X = (List.range m).map (fun j => X.map (fun row => row.getD j 0)) := by
  cases X with
  | nil => exact absurd h.1.symm (by simpa using Nat.ne_of_gt hn)
  | cons r rs => simp only [transpose, h.2 r List.mem_cons_self]

theorem WF.transpose {n m : ℕ} {X : Mat} (h : WF n m X) (hn : 0 < n) : WF m n (transpose X) := by
  rw [transpose_eq h hn]
  refine ⟨by simp, ?_⟩
  intro row hrow
  simp only [List.mem_map] at hrow
  obtain ⟨j, -, rfl⟩ := hrow
  simpa using h.1

theorem entry_map_map {α : Type} (l : List α) (l' : List α) (g : α → α → ℚ) {i j : ℕ}
    (hi : i < l.length) (hj : j < l'.length) :
    entry (l.map (fun a => l'.map (fun b => g a b))) i j = g l[i] l'[j] := by
  simp [entry, List.getD_eq_getElem?_getD, hi, hj]

theorem entry_transpose {n m : ℕ} {X : Mat} (h : WF n m X) {i j : ℕ} (hi : i < n) (hj : j < m) :
    entry (transpose X) j i = entry X i j := by
  rw [transpose_eq h (Nat.zero_lt_of_lt hi)]
  have hi' : i < X.length := h.1 ▸ hi
  simp [entry, List.getD_eq_getElem?_getD, hi', hj]

theorem toMatrix_transpose {n m : ℕ} {X : Mat} (h : WF n m X) :
    toMatrix m n (transpose X) = (toMatrix n m X)ᵀ := by
  ext j i
  simp [entry_transpose h i.2 j.2]

/-! ### product -/

theorem entry_mul {n p m : ℕ} {X Y : Mat} (hX : WF n p X) (hY : WF p m Y) {i j : ℕ} (hi : i < n) (hj : j < m) :
    entry (mul X Y) i j = ∑ k : Fin p, entry X i k * entry Y k j := by
  have hi' : i < X.length := hX.1 ▸ hi
  rcases Nat.eq_zero_or_pos p with hp | hp
  · subst hp
    have : Y = [] := List.eq_nil_of_length_eq_zero hY.1
    subst this
    simp [mul, transpose, entry, List.getD_eq_getElem?_getD, hi']
  · have hrow : (X[i]).length = p := hX.2 _ (List.getElem_mem hi')
    have hcol : (Y.map (fun row => row.getD j 0)).length = p := by simpa using hY.1
    have : entry (mul X Y) i j = dot X[i] (Y.map (fun row => row.getD j 0)) := by
      simp [mul, transpose_eq hY hp, entry, List.getD_eq_getElem?_getD, hi', hj]
    rw [this, dot_eq_sum _ _ hrow hcol]
    apply Finset.sum_congr rfl
    intro k _
    have hk : (k : ℕ) < Y.length := hY.1 ▸ k.2
    simp [entry, List.getD_eq_getElem?_getD, hi', hk]

theorem WF.mul {n p m : ℕ} {X Y : Mat} (hX : WF n p X) (hY : WF p m Y) (hp : 0 < p) : WF n m (mul X Y) := by
  refine ⟨by simpa [Linalg.mul] using hX.1, ?_⟩
  intro row hrow
  simp only [Linalg.mul, List.mem_map] at hrow
  obtain ⟨r, -, rfl⟩ := hrow
  simpa using (hY.transpose hp).1

theorem toMatrix_mul {n p m : ℕ} {X Y : Mat} (hX : WF n p X) (hY : WF p m Y) :
    toMatrix n m (mul X Y) = toMatrix n p X * toMatrix p m Y := by
  ext i j
  simp [Matrix.mul_apply, entry_mul hX hY i.2 j.2]

/-! ### sum, difference -/

theorem entry_zipWith {n m : ℕ} {X Y : Mat} (g : ℚ → ℚ → ℚ) (hX : WF n m X) (hY : WF n m Y) {i j : ℕ}
    (hi : i < n) (hj : j < m) :
    entry ((X.zip Y).map (fun p => (p.1.zip p.2).map (fun q => g q.1 q.2))) i j = g (entry X i j) (entry Y i j) := by
  have h1 : i < X.length := hX.1 ▸ hi
  have h2 : i < Y.length := hY.1 ▸ hi
  have h3 : j < (X[i]).length := (hX.2 _ (List.getElem_mem h1)) ▸ hj
  have h4 : j < (Y[i]).length := (hY.2 _ (List.getElem_mem h2)) ▸ hj
  simp [entry, List.getD_eq_getElem?_getD, h1, h2, h3, h4]

theorem WF.zipWith {n m : ℕ} {X Y : Mat} (g : ℚ → ℚ → ℚ) (hX : WF n m X) (hY : WF n m Y) :
    WF n m ((X.zip Y).map (fun p => (p.1.zip p.2).map (fun q => g q.1 q.2))) := by
  refine ⟨by simp [hX.1, hY.1], ?_⟩
  intro row hrow
  simp only [List.mem_map] at hrow
  obtain ⟨⟨a, b⟩, hab, rfl⟩ := hrow
  have := List.of_mem_zip hab
  simp [hX.2 a this.1, hY.2 b this.2]

theorem WF.add {n m : ℕ} {X Y : Mat} (hX : WF n m X) (hY : WF n m Y) : WF n m (add X Y) :=
  WF.zipWith (· + ·) hX hY

theorem WF.sub {n m : ℕ} {X Y : Mat} (hX : WF n m X) (hY : WF n m Y) : WF n m (sub X Y) :=
  WF.zipWith (· - ·) hX hY

theorem toMatrix_add {n m : ℕ} {X Y : Mat} (hX : WF n m X) (hY : WF n m Y) :
    toMatrix n m (add X Y) = toMatrix n m X + toMatrix n m Y := by
  ext i j
  exact entry_zipWith (· + ·) hX hY i.2 j.2

theorem toMatrix_sub {n m : ℕ} {X Y : Mat} (hX : WF n m X) (hY : WF n m Y) :
    toMatrix n m (sub X Y) = toMatrix n m X - toMatrix n m Y := by
  ext i j
  exact entry_zipWith (· - ·) hX hY i.2 j.2

/-! ### identity, diagonal, constant rows -/

theorem WF.identity (n : ℕ) : WF n n (identity n) := by
  refine ⟨by simp [Linalg.identity], ?_⟩
  intro row hrow
  simp only [Linalg.identity, List.mem_map] at hrow
  obtain ⟨i, -, rfl⟩ := hrow
  simp

theorem toMatrix_identity (n : ℕ) : toMatrix n n (identity n) = 1 := by
  ext i j
  simp [Linalg.identity, entry, List.getD_eq_getElem?_getD, Matrix.one_apply, Fin.ext_iff]

theorem WF.diag {n : ℕ} {v : Vec} (hv : v.length = n) : WF n n (diag v) := by
  refine ⟨by simp [Linalg.diag, hv], ?_⟩
  intro row hrow
  simp only [Linalg.diag, List.mem_map] at hrow
  obtain ⟨i, -, rfl⟩ := hrow
  simp [hv]

theorem toMatrix_diag {n : ℕ} {v : Vec} (hv : v.length = n) :
    toMatrix n n (diag v) = Matrix.diagonal (toVec n v) := by
  ext i j
  simp [Linalg.diag, entry, List.getD_eq_getElem?_getD, Matrix.diagonal_apply, Fin.ext_iff, hv]

theorem WF.replicate {n m : ℕ} {v : Vec} (hv : v.length = m) : WF n m (List.replicate n v) := by
  refine ⟨by simp, ?_⟩
  intro row hrow
  rw [List.eq_of_mem_replicate hrow, hv]

theorem toMatrix_replicate (n m : ℕ) (v : Vec) :
    toMatrix n m (List.replicate n v) = Matrix.of fun _ j => toVec m v j := by
  ext i j
  simp [entry, List.getD_eq_getElem?_getD]

/-! ### vector–matrix product, row sums -/

theorem length_vecMat {n m : ℕ} {X : Mat} (hX : WF n m X) (hn : 0 < n) (v : Vec) : (vecMat v X).length = m := by
  simpa [vecMat] using (hX.transpose hn).1

theorem toVec_vecMat {n m : ℕ} {X : Mat} {v : Vec} (hv : v.length = n) (hX : WF n m X) :
    toVec m (vecMat v X) = toVec n v ᵥ* toMatrix n m X := by
  ext j
  rcases Nat.eq_zero_or_pos n with hn | hn
  · subst hn
    have : X = [] := List.eq_nil_of_length_eq_zero hX.1
    subst this
    simp [vecMat, Linalg.transpose, Matrix.vecMul, dotProduct]
  · have hcol : (X.map (fun row => row.getD j 0)).length = n := by simpa using hX.1
    have : (vecMat v X).getD j 0 = dot v (X.map (fun row => row.getD j 0)) := by
      simp [vecMat, transpose_eq hX hn, List.getD_eq_getElem?_getD]
    rw [toVec_apply, this, dot_eq_sum _ _ hv hcol]
    simp only [Matrix.vecMul, dotProduct, toVec_apply, toMatrix_apply]
    apply Finset.sum_congr rfl
    intro k _
    have hk : (k : ℕ) < X.length := hX.1 ▸ k.2
    simp [entry, List.getD_eq_getElem?_getD, hk]

theorem rowSum_eq {n m : ℕ} {X : Mat} (hX : WF n m X) {i : ℕ} (hi : i < n) :
    (X.getD i []).sum = ∑ j : Fin m, entry X i j := by
  rw [sum_eq_sum_fin _ (hX.getD_length hi)]
  rfl

theorem rowSum_eq_mulVec_one {n m : ℕ} {X : Mat} (hX : WF n m X) (i : Fin n) :
    (X.getD i []).sum = (toMatrix n m X *ᵥ 1) i := by
  rw [rowSum_eq hX i.2]
  simp [Matrix.mulVec, dotProduct]

theorem sum_eq_toVec {n : ℕ} {v : Vec} (hv : v.length = n) : v.sum = ∑ i, toVec n v i :=
  sum_eq_sum_fin v hv

end MsmVerif.Bridge
